#!/usr/bin/env python3
"""C12 -- generated static offsets equal the offsets installed by update.

  ./check C12 [--tier quick|thorough] [--replay file]

1. proof phase: translators -> Gen/GenCodecConsts.v (index expressions of write_static_offsets and of the debug
   cross-check, read from the source), Properties_C12.vo, Print Assumptions, hygiene
2. harness/h3/codec_driver.cpp compiled against /repo/include as it is now (ASan/UBSan); extracted model +
   ocaml/codec_driver.ml
3. corpus/C12/*.case, then generated registries (arity 1..4, biased to 3-4).  Per registry:
     implementation: real compiler<Policy>, real generator::write_static_offsets (text parsed), real
        method<>::resolve of methods that HAVE static_offsets (arrays filled at run time with the parsed numbers) under
        an unchecked and a checked policy, and with one / two numbers altered under the checked policy
     model: printed_offsets / debug_check on compile R                           -> line diff (correspondence)
     oracle (independent of the model): printed numbers == the compiler object's m.slots / m.strides == the installed
        slots_strides array split at arity; static-offset resolve == walk on the installed arrays for every legal tuple;
        correct offsets accepted, altered offsets rejected with static_slot_error / static_stride_error in walk order
4. generated PROGRAMS (public front end, real classes): the printed header compiled in, under a checked and an
   unchecked policy, must dispatch like the same program reading the offsets at run time; a header with one number
   altered must raise static_slot_error / static_stride_error under the checked policy
5. decision + evidence (vlib.finish)

This module is also the library of checks/C13.py (same driver, same generators, same program generator).
"""
import concurrent.futures, hashlib, itertools, json, os, re, shutil, sys, time
sys.path.insert(0, os.path.join(os.path.dirname(os.path.abspath(__file__)), '..', 'tools'))
import vlib, corelib

ENV = {'ASAN_OPTIONS': 'detect_leaks=0:abort_on_error=0', 'UBSAN_OPTIONS': 'print_stacktrace=1'}
SHAPES = ['v', 'v', 'vv', 'vv', 'vvv', 'vvv', 'vvvv', 'vnv', 'nvvn']       # real method<> slots of the driver
MAX_CLASS = 39                                                              # K<40+mi> names method mi in the driver
NJ = min(8, vlib.NJOBS)
_tmpn = itertools.count(1)      # next() is atomic: drivers run on a thread pool


# --------------------------------------------------------------------------- binaries

def build_binaries(ctx):
    mdl, log1 = vlib.ocaml_driver('codec_model', 'Extract/ExtractCodec.vo', ['ocaml/codec_driver.ml'])
    # a scratch copy of the repository (VERIF_REPO) gets its own cache slot, so that trying a change does not evict the
    # binary built from /repo
    name = 'h3_codec' if vlib.REPO == '/repo' else 'h3_codec_' + hashlib.sha1(vlib.REPO.encode()).hexdigest()[:8]
    drv, log2 = vlib.build_cpp(name, ['harness/h3/codec_driver.cpp'], timeout=2400,
                               extra_key=vlib.tree_hash([os.path.join(vlib.VERIF, 'harness/h1/h1.hpp')]))
    if not mdl:
        ctx.broken.append('model driver does not build: ' + log1[-300:])
    if not drv:
        ctx.broken.append('harness does not build against /repo: ' + log2[-600:])
    return mdl, drv


# --------------------------------------------------------------------------- cases

def query_of(tag, reg):
    return corelib.query_text(tag, reg)


def parse_case(text):
    """corpus / replay case: the query format -> abstract registry"""
    reg = {'n': 0, 'parents': {}, 'abstract': [], 'records': [], 'methods': [], 'alias': {}, 'kind': 'corpus', 'style': 'corpus'}
    for line in text.split('\n'):
        t = line.split()
        if not t or t[0].startswith('#') or t[0] in ('query', 'go'):
            continue
        if t[0] == 'class':
            c, a, bases = int(t[1]), int(t[2]), [int(x) for x in t[3:]]
            reg['records'].append([c, a, bases]); reg['n'] = max(reg['n'], c)
            reg['parents'].setdefault(str(c), [])
            reg['parents'][str(c)] = sorted(set(reg['parents'][str(c)]) | set(b for b in bases if b != c))
            if a and c not in reg['abstract']:
                reg['abstract'].append(c)
        elif t[0] == 'method':
            reg['methods'].append({'shape': t[1], 'vp': [int(x) for x in t[2:]], 'defs': []})
        elif t[0] == 'def':
            reg['methods'][int(t[1])]['defs'].append({'vp': [int(x) for x in t[3:]], 'next': int(t[2])})
        else:
            raise ValueError('bad case line: ' + line)
    return reg


def load_corpus(pid):
    out = []
    d = os.path.join(vlib.VERIF, 'corpus', pid)
    for f in sorted(os.listdir(d)) if os.path.isdir(d) else []:
        if f.endswith('.case'):
            reg = parse_case(open(os.path.join(d, f)).read())
            reg['name'] = 'corpus/%s/%s' % (pid, f)
            out.append(reg)
    return out


def arity(m):
    return m['shape'].count('v')


def gen_c12(rng, i):
    """registries biased to arity 3-4 (where interleaved and grouped layouts differ)"""
    big = rng.chance(2, 3)
    shapes = list(SHAPES)
    if big:
        shapes = ['vvv', 'vvv', 'vvvv', 'nvvn', 'vnv'] + (['vv'] if rng.chance(1, 2) else []) + (['v'] if rng.chance(1, 2) else [])
    reg = corelib.gen_registry(rng, shapes=shapes, max_classes=rng.choice([4, 6, 8, 10]), max_methods=rng.choice([2, 3, 4, 5]))
    reg['family'] = 'arity34' if big else 'mixed'
    return reg


def slot_assignment(reg):
    avail = list(SHAPES); res = []
    for m in reg['methods']:
        if m['shape'] in avail:
            avail.remove(m['shape']); res.append(True)
        else:
            res.append(False)
    return res


# --------------------------------------------------------------------------- running the two drivers

def run_driver(binp, queries, textdir=None, timeout=900):
    """queries: list of (tag, text). One process for all of them; after a crash the remaining ones are re-run.
    -> dict tag -> {'lines': [...], 'crashed': bool, 'stderr': str}"""
    res = {}
    work = os.path.join(vlib.BUILD, 'C12')
    os.makedirs(work, exist_ok=True)
    i = 0
    env = dict(ENV)
    if textdir:
        env['CODEC_TEXT_DIR'] = textdir
    tags = [t for t, _ in queries]
    while i < len(queries):
        path = os.path.join(work, 'q-%d-%d.txt' % (os.getpid(), next(_tmpn)))
        with open(path, 'w') as f:
            f.write(''.join(t for _, t in queries[i:]))
        rc, out, err = vlib.run2([binp, path], timeout=timeout, env=env)
        os.remove(path)
        cur = None; done = set()
        for line in out.split('\n'):
            if line.startswith('begin '):
                cur = line.split()[1]; res[cur] = {'lines': [], 'crashed': True, 'stderr': ''}
            elif line.startswith('done '):
                if cur:
                    res[cur]['crashed'] = False; done.add(cur)
                cur = None
            elif cur is not None and line:
                res[cur]['lines'].append(line)
        if rc == 0 and cur is None:
            break
        if cur is None:
            nxt = [t for t in tags[i:] if t not in done]
            if not nxt:
                break
            cur = nxt[0]
            res.setdefault(cur, {'lines': [], 'crashed': True, 'stderr': ''})
        res[cur]['crashed'] = True
        res[cur]['stderr'] = sanitizer_summary(err) + ('\n[exit status %s]' % rc)
        i = tags.index(cur) + 1
    return res


def sanitizer_summary(err):
    m = re.search(r'(ERROR: AddressSanitizer[^\n]*|runtime error: [^\n]*|Assertion[^\n]*failed[^\n]*|terminate called[^\n]*)', err)
    head = (m.group(1) + '\n') if m else ''
    return head + err[:1200]


def run_parallel(binp, queries, textdir=None, chunks=NJ):
    """split the queries over a few processes"""
    if len(queries) <= 8:
        return run_driver(binp, queries, textdir)
    k = max(1, min(chunks, len(queries) // 6))
    parts = [queries[j::k] for j in range(k)]
    res = {}
    with concurrent.futures.ThreadPoolExecutor(max_workers=k) as ex:
        for r in ex.map(lambda p: run_driver(binp, p, textdir), parts):
            res.update(r)
    return res


def run_model(mdl, queries):
    return corelib.run_model(mdl, queries)


def kv(lines):
    """canonical lines -> dict key -> value.  'a b = c' -> key 'a b'; otherwise the first tokens are the key:
    offsets <mi> | codec <what> [<id>] | installed <mi> | ssinst <mi> | vptr0 <c> | static <pol> | ..."""
    d = {}
    for l in lines:
        if ' = ' in l and l.startswith(('check ', 'disp ')):
            k, v = l.split(' = ', 1); d[k] = v.strip(); continue
        t = l.split()
        if t[0] == 'codec':
            if t[1] in ('ss', 'vptr'):
                d['codec %s %s' % (t[1], t[2])] = ' '.join(t[3:])
            else:
                d['codec ' + t[1]] = ' '.join(t[2:])
        elif t[0] in ('offsets', 'installed', 'ssinst', 'vptr0', 'static', 'legacy-offsets', 'wide'):
            d[t[0] + ' ' + t[1]] = ' '.join(t[2:])
        elif t[0] in ('update', 'image', 'counts', 'rewalk', 'decoding'):
            d[t[0]] = ' '.join(t[1:])
        else:
            d.setdefault('other', []).append(l)
    return d


def diff_keys(impl, model, prefixes, impl_subset=()):
    """keys with the given prefixes must agree; for prefixes in impl_subset only the keys the implementation prints"""
    out = []
    for k, v in impl.items():
        if k.startswith(prefixes) and model.get(k) != v:
            out.append((k, v, model.get(k)))
    for k, v in model.items():
        if k.startswith(prefixes) and not k.startswith(tuple(impl_subset)) and k not in impl:
            out.append((k, None, v))
    return out


# --------------------------------------------------------------------------- the C12 oracle (implementation's own output)

def split_offsets(v):
    m = re.match(r'slots(.*?) strides(.*)$', v)
    if not m:
        return None
    return [int(x) for x in m.group(1).split()], [int(x) for x in m.group(2).split()]


def walk_rank(p, a):
    """order in which a call checks flat position p of (slots ++ strides): slot 0; then per virtual argument
    va = 1..a-1 its slot, then its stride"""
    return 2 * p if p < a else 2 * (p - a + 1) + 1


def oracle_c12(reg, res):
    F = []
    o = kv(res['lines'])
    if o.get('update') != 'ok':
        if res['crashed']:
            return ['driver crashed: ' + res['stderr'].split('\n')[0][:300]]
        return [] if o.get('update', '').startswith('error') else ['no update line']
    if 'other' in o:
        F.append('unexpected output: %r' % o['other'][:2])
    slots_ok = slot_assignment(reg)
    for mi, m in enumerate(reg['methods']):
        a = arity(m)
        pr = split_offsets(o.get('offsets %d' % mi, ''))
        inst = split_offsets(o.get('installed %d' % mi, ''))
        ss = [int(x) for x in o.get('ssinst %d' % mi, '').split()]
        if pr is None:
            F.append('method %d (arity %d): write_static_offsets printed nothing parsable: %r' % (mi, a, o.get('offsets %d' % mi))); continue
        if inst is None or len(ss) != 2 * a - 1:
            F.append('method %d: driver did not dump the installed offsets' % mi); continue
        if len(pr[0]) != a or len(pr[1]) != a - 1:
            F.append('method %d (arity %d): printed %d slots and %d strides' % (mi, a, len(pr[0]), len(pr[1])))
        if list(pr[0]) != inst[0] or list(pr[1]) != inst[1]:
            F.append('method %d (arity %d): printed slots %s strides %s, update assigned slots %s strides %s'
                     % (mi, a, pr[0], pr[1], inst[0], inst[1]))
        elif pr[0] != ss[:a] or pr[1] != ss[a:]:
            F.append('method %d (arity %d): printed slots %s strides %s, installed slots_strides %s' % (mi, a, pr[0], pr[1], ss))
        w = o.get('wide %d' % mi)
        if w is not None and not w.startswith('ok'):
            F.append('method %d (arity %d): with the installed array holding values wider than 16 bits, write_static_offsets prints other numbers: %s' % (mi, a, w))
    if res['crashed']:
        # the offsets were printed before the crash: the comparison above stands; the crash itself is reported too
        where = 'while resolving calls through the printed static offsets' if 'rewalk' in o or 'codec decoded' in o else 'before the static-offset runs'
        return F + ['driver crashed %s: %s' % (where, res['stderr'].split('\n')[0][:300])]
    for pol in ('release', 'checked'):
        v = o.get('static ' + pol)
        if v is None:
            F.append('no static-offset run under the %s policy' % pol); continue
        m = re.match(r'tuples (\d+) mismatches (\d+) errors (\d+)(.*)$', v)
        if not m:
            F.append('bad static line: ' + v); continue
        if int(m.group(2)) or int(m.group(3)):
            F.append('%s policy, methods compiled with the printed static offsets: %s of %s legal tuples dispatch differently from the '
                     'walk on the installed offsets (%s raised an error)%s' % (pol, m.group(2), m.group(1), m.group(3), m.group(4)))
    for mi, m in enumerate(reg['methods']):
        if not slots_ok[mi]:
            continue
        a = arity(m)
        got = o.get('check %d ok' % mi)
        if got != 'accepted':
            F.append('method %d (arity %d): checked policy rejects the printed offsets: %s' % (mi, a, got))
        for p in range(2 * a - 1):
            want = 'static_slot' if p < a else 'static_stride'
            got = o.get('check %d %d' % (mi, p))
            if got != want:
                F.append('method %d (arity %d): static %s %d altered: checked policy answered %s, expected %s'
                         % (mi, a, 'slot' if p < a else 'stride', p if p < a else p - a, got, want))
        for p in range(2 * a - 1):
            for q in range(p + 1, 2 * a - 1):
                first = min((p, q), key=lambda x: walk_rank(x, a))
                want = 'static_slot' if first < a else 'static_stride'
                got = o.get('check %d %d %d' % (mi, p, q))
                if got != want:
                    F.append('method %d (arity %d): positions %d and %d altered: checked policy answered %s, expected %s' % (mi, a, p, q, got, want))
    return F


# --------------------------------------------------------------------------- generated programs (public front end)

def prog_dag(rng, n):
    """classes 1..n: single-inheritance trees joined by a few classes with two bases that share no ancestor
    (so plain non-virtual inheritance is unambiguous)"""
    parents = {1: []}
    anc = {1: {1}}
    for c in range(2, n + 1):
        r = rng.below(10)
        if r < 2:
            ps = []
        elif r < 7 or c < 4:
            ps = [rng.range(1, c - 1)]
        else:
            x = rng.range(1, c - 1)
            cands = [y for y in range(1, c) if not (anc[x] & anc[y])]
            ps = sorted([x, rng.choice(cands)]) if cands else [x]
        parents[c] = ps
        anc[c] = {c}.union(*[anc[p] for p in ps]) if ps else {c}
    return parents, anc


def prog_scenario(rng, arities=(1, 2, 3, 4), n=None):
    n = n or rng.range(5, 8)
    parents, anc = prog_dag(rng, n)
    desc = {c: sorted(d for d in range(1, n + 1) if c in anc[d]) for c in range(1, n + 1)}
    methods = []
    for k, a in enumerate(arities):
        vp = []
        for _ in range(a):
            c = rng.range(1, n)
            if len(desc[c]) == 1 and rng.chance(2, 3):
                c = rng.range(1, n)
            vp.append(c)
        defs = [list(vp)] if rng.chance(2, 3) else []
        for _ in range(rng.range(1, 3)):
            d = [rng.choice(desc[p]) for p in vp]
            if d not in defs:
                defs.append(d)
        # how each virtual parameter is passed: by reference (virtual_<C&>) or as a virtual_ptr<C> (the walk reads the v-table
        # pointer from the argument itself; the consistency check of the static offsets must not depend on it)
        kinds = ['ptr' if rng.chance(1, 3) else 'ref' for _ in vp]
        methods.append({'vp': vp, 'defs': defs, 'kinds': kinds})
    return {'n': n, 'parents': {str(k): v for k, v in parents.items()}, 'methods': methods}


def prog_source(sc):
    n = sc['n']
    par = {int(k): v for k, v in sc['parents'].items()}
    anc = corelib.ancestors(par, n)
    L = ['// generated by checks/C12.py',
         '#include <yorel/yomm2/policy.hpp>',
         '#ifdef CHECKED',
         'struct pol : yorel::yomm2::policy::debug::rebind<pol>::replace<yorel::yomm2::policy::error_handler, yorel::yomm2::policy::throw_error> {};',
         '#else',
         'struct pol : yorel::yomm2::policy::release::rebind<pol>::replace<yorel::yomm2::policy::error_handler, yorel::yomm2::policy::throw_error> {};',
         '#endif',
         '#define YOMM2_DEFAULT_POLICY pol',
         '#include <yorel/yomm2/keywords.hpp>',
         '#ifdef GEN',
         '#include <yorel/yomm2/generator.hpp>',
         '#include <fstream>',
         '#endif',
         '#include <yorel/yomm2/decode.hpp>',
         '#include <iostream>', '#include <cstdint>',
         'using yorel::yomm2::virtual_ptr;']
    for c in range(1, n + 1):
        bases = ', '.join('C%d' % b for b in par[c])
        L.append('struct C%d%s { %s };' % (c, (' : ' + bases) if bases else '', 'virtual ~C%d() {}' % c))
    L.append('register_classes(%s);' % ', '.join('C%d' % c for c in range(1, n + 1)))
    for mi, m in enumerate(sc['methods']):
        kinds = m.get('kinds') or ['ref'] * len(m['vp'])
        L.append('declare_method(int, m%d, (%s));' % (mi, ', '.join(('virtual_ptr<C%d>' if k == 'ptr' else 'virtual_<C%d&>') % c
                                                                      for c, k in zip(m['vp'], kinds))))
    L += ['#ifdef OFFSETS_FILE', '#include OFFSETS_FILE', '#endif']
    for mi, m in enumerate(sc['methods']):
        for di, d in enumerate(m['defs']):
            kinds = m.get('kinds') or ['ref'] * len(m['vp'])
            L.append('define_method(int, m%d, (%s)) { return %d; }' % (mi, ', '.join(('virtual_ptr<C%d>' if k == 'ptr' else 'C%d&') % c
                                                                                        for c, k in zip(d, kinds)), di))
    L += ['template<class F> void call(const char* what, F f) {',
          '    std::cout << what << " = ";',
          '    try { auto r = f(); std::cout << "d" << r; }',
          '    catch (yorel::yomm2::static_slot_error&) { std::cout << "static_slot_error"; }',
          '    catch (yorel::yomm2::static_stride_error&) { std::cout << "static_stride_error"; }',
          '    catch (yorel::yomm2::resolution_error& e) { std::cout << "resolution_error " << (int)e.status; }',
          '    catch (yorel::yomm2::unknown_class_error&) { std::cout << "unknown_class_error"; }',
          '    std::cout << "\\n";', '}',
          'int main(int argc, char** argv) {',
          '#ifdef GEN',
          '    auto compiler = yorel::yomm2::update<pol>();',
          '    yorel::yomm2::generator g;',
          '    { std::ofstream o(argv[1]); g.write_static_offsets<pol>(o); }',
          '    { std::ofstream t(argv[2]); yorel::yomm2::generator::encode_dispatch_data(compiler, "pol", t); }',
          '    return 0;',
          '#else',
          '#ifdef TABLES_FILE',
          '#include TABLES_FILE',
          '#else',
          '    yorel::yomm2::update<pol>();',
          '#endif']
    for c in range(1, n + 1):
        L.append('    C%d o%d;' % (c, c))
    ncalls = 0
    for mi, m in enumerate(sc['methods']):
        doms = [[c for c in range(1, n + 1) if p in anc[c]] for p in m['vp']]
        tuples = [[]]
        for d in doms:
            tuples = [t + [c] for t in tuples for c in d]
        step = max(1, len(tuples) // 40)
        for t in tuples[::step]:
            kinds = m.get('kinds') or ['ref'] * len(m['vp'])
            args = ', '.join(('virtual_ptr<C%d>(static_cast<C%d&>(o%d))' % (p, p, c)) if k == 'ptr' else 'o%d' % c
                             for c, p, k in zip(t, m['vp'], kinds))
            L.append('    call("m%d %s", [&] { return m%d(%s); });' % (mi, ' '.join(map(str, t)), mi, args))
            ncalls += 1
    L += ['    return 0;', '#endif', '}']
    return '\n'.join(L) + '\n', ncalls


def compile_run(job):
    """job: {'dir', 'name', 'src', 'compiler', 'defs': [...], 'args': [...], 'run': bool}; cached by content"""
    d = job['dir']
    exe = os.path.join(d, job['name'])
    log = ''
    if not os.path.exists(exe):
        cmd = [job['compiler'], '-std=c++17', '-O0', '-w', '-D' + vlib.GUARD, '-I', os.path.join(vlib.REPO, 'include')] + job['defs'] + \
              [job['src'], '-o', exe + '.tmp']
        rc, log = vlib.run(cmd, timeout=600)
        if rc != 0:
            return {'name': job['name'], 'compiled': False, 'log': log[-1500:], 'rc': rc, 'out': ''}
        os.rename(exe + '.tmp', exe)
    if not job.get('run', True):
        return {'name': job['name'], 'compiled': True, 'rc': 0, 'out': '', 'log': ''}
    rc, out, err = vlib.run2([exe] + job.get('args', []), timeout=120)
    return {'name': job['name'], 'compiled': True, 'rc': rc, 'out': out, 'log': err[-800:]}


def prog_dir(sc, extra=''):
    src, ncalls = prog_source(sc)
    key = hashlib.sha1((src + vlib.repo_hash() + extra).encode()).hexdigest()[:20]
    d = vlib.cache_dir('c12prog-' + key)
    p = os.path.join(d, 'prog.cpp')
    if not os.path.exists(p):
        open(p, 'w').write(src)
    # keep the number of cached program directories bounded
    root = os.path.join(vlib.BUILD, 'cache')
    ents = sorted((e for e in os.listdir(root) if e.startswith('c12prog-')), key=lambda e: os.path.getmtime(os.path.join(root, e)))
    for e in ents[:-40]:
        if os.path.join(root, e) != d:
            shutil.rmtree(os.path.join(root, e), ignore_errors=True)
    return d, p, ncalls


def quote(path):
    return '"%s"' % path


def alter_offsets(text, rng):
    """change one number of one specialization with >= 2 numbers in its strides (else slots) list"""
    lines = text.strip().split('\n')
    cands = []
    for li, l in enumerate(lines):
        for kind in ('strides', 'slots'):
            m = re.search(r'%s\[\] = \{([^}]*)\}' % kind, l)
            if m and m.group(1).strip():
                nums = [x.strip() for x in m.group(1).split(',')]
                for k in range(len(nums)):
                    cands.append((li, kind, k, m.span(1), nums))
    multi = [c for c in cands if c[1] == 'strides'] or cands
    li, kind, k, span, nums = rng.choice(multi)
    nums = list(nums); nums[k] = str(int(nums[k]) + 1)
    l = lines[li]
    lines[li] = l[:span[0]] + ', '.join(nums) + l[span[1]:]
    mm = re.search(r'YoMm2_S_m(\d+)', lines[li])
    return '\n'.join(lines) + '\n', int(mm.group(1)) if mm else -1, kind, k


def run_programs_c12(sc, rng):
    """-> (failures, stats)"""
    F = []
    d, src, ncalls = prog_dir(sc)
    off = os.path.join(d, 'offsets.hpp'); tab = os.path.join(d, 'tables.hpp'); alt = os.path.join(d, 'altered.hpp')
    gen = compile_run({'dir': d, 'name': 'gen', 'src': src, 'compiler': 'g++', 'defs': ['-DGEN', '-DCHECKED'], 'args': [off, tab]})
    if not gen['compiled'] or gen['rc'] != 0 or not os.path.exists(off):
        return ['generator program failed: ' + (gen['log'] or gen['out'])[-400:]], {'programs': 1, 'calls': 0}
    text = open(off).read()
    alt_text, alt_m, alt_kind, alt_k = alter_offsets(text, rng)
    open(alt, 'w').write(alt_text)
    jobs = [
        {'dir': d, 'name': 'base_checked', 'src': src, 'compiler': 'g++', 'defs': ['-DCHECKED']},
        {'dir': d, 'name': 'base_release', 'src': src, 'compiler': 'g++', 'defs': []},
        {'dir': d, 'name': 'hdr_checked', 'src': src, 'compiler': 'g++', 'defs': ['-DCHECKED', '-DOFFSETS_FILE=' + quote(off)]},
        {'dir': d, 'name': 'hdr_release', 'src': src, 'compiler': 'g++', 'defs': ['-DOFFSETS_FILE=' + quote(off)]},
        {'dir': d, 'name': 'hdr_release_clang', 'src': src, 'compiler': 'clang++', 'defs': ['-DOFFSETS_FILE=' + quote(off)]},
        {'dir': d, 'name': 'alt_checked_%s' % hashlib.sha1(alt_text.encode()).hexdigest()[:8], 'src': src, 'compiler': 'g++',
         'defs': ['-DCHECKED', '-DOFFSETS_FILE=' + quote(alt)]},
    ]
    with concurrent.futures.ThreadPoolExecutor(max_workers=NJ) as ex:
        rs = list(ex.map(compile_run, jobs))
    byname = {}
    for j, r in zip(jobs, rs):
        byname['alt_checked' if j['name'].startswith('alt_checked') else j['name']] = r
    for k, r in byname.items():
        if not r['compiled']:
            F.append('program %s does not compile: %s' % (k, r['log'][-300:]))
        elif r['rc'] != 0:
            F.append('program %s exits with status %s: %s' % (k, r['rc'], (r['log'] or r['out'])[-300:]))
    if F:
        return F, {'programs': 1 + len(jobs), 'calls': 0}
    base = byname['base_checked']['out']
    if base != byname['base_release']['out']:
        F.append('baseline programs differ between checked and release policies')
    for k in ('hdr_checked', 'hdr_release', 'hdr_release_clang'):
        if byname[k]['out'] != base:
            a = base.split('\n'); b = byname[k]['out'].split('\n')
            i = next((i for i in range(min(len(a), len(b))) if a[i] != b[i]), min(len(a), len(b)))
            F.append('program compiled with the generated offsets (%s) dispatches differently from the one reading them at run time: '
                     'call %r, run-time offsets -> %r, static offsets -> %r' % (k, a[i].split(' = ')[0] if i < len(a) else '?',
                                                                                 a[i] if i < len(a) else '<end>', b[i] if i < len(b) else '<end>'))
    # altered header: every call of the altered method must raise the matching error, the others are unchanged
    want_err = 'static_stride_error' if alt_kind == 'strides' else 'static_slot_error'
    a = base.strip().split('\n'); b = byname['alt_checked']['out'].strip().split('\n')
    naltered = 0
    if len(a) != len(b):
        F.append('altered-header program printed %d lines, baseline %d' % (len(b), len(a)))
    else:
        for x, y in zip(a, b):
            if x.startswith('m%d ' % alt_m):
                naltered += 1
                if not y.endswith('= ' + want_err):
                    F.append('header with %s[%d] of method m%d altered: checked policy answered %r, expected %s' % (alt_kind, alt_k, alt_m, y, want_err))
                    break
            elif x != y:
                F.append('header with method m%d altered changes a call of another method: %r -> %r' % (alt_m, x, y))
                break
    return F, {'programs': 1 + len(jobs), 'calls': ncalls, 'altered_calls': naltered, 'altered': '%s[%d] of m%d' % (alt_kind, alt_k, alt_m),
               'offsets_text': text[:600]}


# --------------------------------------------------------------------------- replay

def replay(ctx, mdl, drv, oracle, prefixes, impl_subset, prog_runner=None):
    obj = json.load(open(ctx.replay))
    if 'scenario' in obj and 'case_text' not in obj:
        # a generated program: compile and run its variants again
        F, st = prog_runner(obj['scenario']) if prog_runner else run_programs_c12(obj['scenario'], vlib.Rng(obj.get('seed', 1) * 7919))
        print('--- program scenario: %s' % json.dumps(obj['scenario']))
        print('--- oracle')
        print('\n'.join(F) if F else 'the program variants agree')
        if F:
            ctx.violation('%s replay: %s' % (ctx.pid, F[0]), {'scenario': obj['scenario'], 'failures': F[:10], 'origin': 'replay ' + ctx.replay})
        vlib.finish(ctx, {'evaluations': 1, 'distinct_nontrivial': 1, 'rule': 'replay of one generated program', 'samples': [obj['scenario']]})
    text = obj.get('case_text') or open(obj['case_file']).read()
    reg = obj.get('registry') or parse_case(text)
    q = [('replay', query_of('replay', reg))]
    impl = run_driver(drv, q)['replay'] if drv else {'lines': [], 'crashed': True, 'stderr': 'no driver'}
    model = run_model(mdl, q).get('replay', []) if mdl else []
    print('--- implementation (%s)%s' % (vlib.REPO, ' CRASHED' if impl['crashed'] else ''))
    print('\n'.join(impl['lines']))
    if impl['crashed']:
        print(impl['stderr'])
    print('--- model')
    print('\n'.join(model))
    fails = oracle(reg, impl)
    print('--- oracle')
    print('\n'.join(fails) if fails else "property holds on the implementation's output")
    diffs = diff_keys(kv(impl['lines']), kv(model), prefixes, impl_subset) if not impl['crashed'] else []
    print('--- correspondence: ' + ('identical' if not diffs else '; '.join('%s: implementation %r / model %r' % d for d in diffs[:5])))
    if fails:
        ctx.violation('%s replay: %s' % (ctx.pid, fails[0]), {'case_text': query_of('replay', reg), 'registry': reg, 'failures': fails[:10], 'origin': 'replay ' + ctx.replay})
    elif diffs:
        ctx.broken.append('correspondence (replay): %s' % (diffs[0],))
    vlib.finish(ctx, {'evaluations': 1, 'distinct_nontrivial': 1, 'rule': 'replay of one case', 'samples': [query_of('replay', reg)[:600]]})


def shrink(reg, failing, deadline):
    """delete methods, definitions, then class records while the oracle still fails"""
    cur = json.loads(json.dumps(reg))

    def ok(r):
        used = set()
        for m in r['methods']:
            used |= set(m['vp'])
            for d in m['defs']:
                used |= set(d['vp'])
        have = set(c for c, _, _ in r['records'])
        listed = set(b for _, _, bs in r['records'] for b in bs)
        return used <= have and listed <= have and r['methods']
    for what in ('methods', 'defs', 'records'):
        i = 0
        while time.time() < deadline:
            c = json.loads(json.dumps(cur))
            if what == 'methods':
                if i >= len(c['methods']): break
                del c['methods'][i]
            elif what == 'defs':
                flat = [(mi, di) for mi, m in enumerate(c['methods']) for di in range(len(m['defs']))]
                if i >= len(flat): break
                del c['methods'][flat[i][0]]['defs'][flat[i][1]]
            else:
                if i >= len(c['records']): break
                del c['records'][i]
            if ok(c) and failing(c):
                cur = c
            else:
                i += 1
    return cur


# --------------------------------------------------------------------------- main

PREFIXES = ('offsets ', 'check ')
IMPL_SUBSET = ('check ',)


def main():
    ctx = vlib.Ctx('C12')
    vlib.proof_phase(ctx, extra_targets=['Extract/ExtractCodec.vo'])
    # the walk with static offsets, over the functions translated from core.hpp on this run (Gen/GenWalk.v)
    vlib.proof_phase_extra(ctx, 'Properties_walk_source')
    # the strides update installs (what the generated offsets must equal), as translated from compiler.hpp (Gen/GenRep.v)
    vlib.proof_phase_extra(ctx, 'Properties_rep_source')
    mdl, drv = build_binaries(ctx)
    if ctx.replay:
        replay(ctx, mdl, drv, oracle_c12, PREFIXES, IMPL_SUBSET)
    if not drv:
        vlib.finish(ctx, {'evaluations': 0, 'distinct_nontrivial': 0, 'rule': 'harness did not build', 'samples': []})
    rng = vlib.Rng(ctx.seed)
    cases = load_corpus('C12')
    ncorpus = len(cases)
    ngen = 25000 if ctx.thorough else 1500
    if ctx.broken:
        ngen *= 2
    for i in range(ngen):
        r = gen_c12(rng, i); r['name'] = 'gen-%d' % i
        cases.append(r)
    queries = [('c%d' % i, query_of('c%d' % i, r)) for i, r in enumerate(cases)]
    t0 = time.time()
    impl = run_parallel(drv, queries)
    model = run_model(mdl, queries) if mdl else {}
    t_run = time.time() - t0

    nviol = ncorr = 0
    distinct = set()
    dist = {'arity': {}, 'family': {}, 'kind': {}, 'classes': {}, 'methods_per_registry': {}}
    tot = {'methods': 0, 'methods_arity_ge3': 0, 'legacy_would_differ': 0, 'static_tuples': 0, 'check_probes': 0, 'real_methods': 0}

    def bump(dd, k):
        dd[str(k)] = dd.get(str(k), 0) + 1

    samples = []
    for i, reg in enumerate(cases):
        tag = 'c%d' % i
        res = impl.get(tag, {'lines': [], 'crashed': True, 'stderr': 'no output'})
        fails = oracle_c12(reg, res)
        o = kv(res['lines'])
        m = kv(model.get(tag, []))
        bump(dist['family'], reg.get('family', 'corpus')); bump(dist['kind'], reg.get('kind')); bump(dist['classes'], reg['n'])
        bump(dist['methods_per_registry'], len(reg['methods']))
        for mm in reg['methods']:
            bump(dist['arity'], arity(mm)); tot['methods'] += 1
            if arity(mm) >= 3:
                tot['methods_arity_ge3'] += 1
        tot['legacy_would_differ'] += sum(1 for k in m if k.startswith('legacy-offsets '))
        tot['real_methods'] += sum(slot_assignment(reg))
        tot['check_probes'] += sum(1 for k in o if k.startswith('check '))
        for pol in ('release', 'checked'):
            mt = re.match(r'tuples (\d+)', o.get('static ' + pol, ''))
            if mt:
                tot['static_tuples'] += int(mt.group(1))
        if any(arity(mm) >= 2 for mm in reg['methods']):
            distinct.add(corelib.reg_hash(reg))
        if i < 2 or ncorpus <= i < ncorpus + 2:
            samples.append({'name': reg.get('name'), 'case': query_of(tag, reg)[:500], 'implementation': [l for l in res['lines'] if l.startswith('offsets')][:4]})
        if fails:
            nviol += 1
            if nviol <= 3:
                def failing(r2):
                    rr = run_driver(drv, [('s', query_of('s', r2))]).get('s', {'lines': [], 'crashed': True, 'stderr': ''})
                    return bool(oracle_c12(r2, rr))
                small = shrink(reg, failing, time.time() + (60 if ctx.thorough else 15))
                rr = run_driver(drv, [('s', query_of('s', small))]).get('s', {'lines': [], 'crashed': True, 'stderr': ''})
                f2 = oracle_c12(small, rr) or fails
                ctx.violation('C12 %s: %s' % (reg.get('name'), f2[0]),
                              {'case_text': query_of('replay', small), 'registry': small, 'failures': f2[:10],
                               'expected': 'printed offsets = slots then strides installed by update; static-offset dispatch = run-time dispatch; '
                                           'check accepts exactly the installed offsets',
                               'got': [l for l in rr['lines'] if l.startswith(('offsets', 'installed', 'ssinst', 'static'))][:12] + ([rr['stderr'][:600]] if rr['crashed'] else []),
                               'model': [l for l in run_model(mdl, [('s', query_of('s', small))]).get('s', []) if l.startswith(('offsets', 'legacy'))][:8] if mdl else [],
                               'origin': reg.get('name'), 'repo': vlib.REPO})
        elif mdl and not res['crashed']:
            diffs = diff_keys(o, m, PREFIXES, IMPL_SUBSET)
            if diffs:
                ncorr += 1
                if ncorr <= 3:
                    p = os.path.join(vlib.BUILD, 'C12', 'corr-%d.case' % ncorr)
                    open(p, 'w').write(query_of('corr', reg))
                    ctx.broken.append('correspondence: %s: %s implementation %r / model %r [case saved: %s]'
                                      % (reg.get('name'), diffs[0][0], diffs[0][1], diffs[0][2], os.path.relpath(p, vlib.VERIF)))

    # 4. programs
    pstats = []
    nprog = 8 if ctx.thorough else 2
    t1 = time.time()
    for k in range(nprog):
        prng = vlib.Rng(ctx.seed * 7919 + k)
        sc = prog_scenario(prng)
        try:
            F, st = run_programs_c12(sc, prng)
        except Exception as ex:
            F, st = [], {'error': repr(ex)}
            ctx.broken.append('check script error in the program stage: %r' % (ex,))
        pstats.append(st)
        if F:
            nviol += 1
            ctx.violation('C12 program %d: %s' % (k, F[0]), {'scenario': sc, 'program': prog_source(sc)[0], 'failures': F[:10],
                                                              'expected': 'same output as the program that reads the offsets at run time; altered header rejected',
                                                              'origin': 'generated program', 'repo': vlib.REPO})
    t_prog = time.time() - t1

    cov = {
        'evaluations': len(cases) + sum(s.get('programs', 0) for s in pstats),
        'distinct_nontrivial': len(distinct),
        'rule': 'one evaluation = one registry run through the real compiler + write_static_offsets + static-offset resolve under two policies '
                '(ASan/UBSan) and through the extracted model, judged by the Python oracle; or one generated program compiled and run. '
                'Registries from corpus/C12 then corelib.gen_registry biased to arity 3-4 (VERIF_SEED). distinct_nontrivial = distinct '
                'registries (sha1 of records+methods) with at least one multi-method',
        'samples': samples,
        'input_distribution': dist,
        'registries': len(cases), 'corpus_cases': ncorpus,
        'methods': tot['methods'], 'methods_arity_ge3': tot['methods_arity_ge3'],
        'methods_where_pre_fix_indexing_prints_other_numbers': tot['legacy_would_differ'],
        'methods_with_static_offsets_compiled_in': tot['real_methods'],
        'tuples_resolved_with_static_offsets': tot['static_tuples'], 'consistency_check_probes': tot['check_probes'],
        'oracle_failures': nviol, 'correspondence_differences': ncorr,
        'programs': sum(st.get('programs', 0) for st in pstats), 'generated_programs': pstats, 'seconds': {'drivers': round(t_run, 1), 'programs': round(t_prog, 1)},
    }
    ass = ['the debug check is exercised at run time through static_offsets specializations whose arrays the driver fills (same resolve code, '
           'arrays not constexpr); the literal generated header is compiled in %d generated program(s) per run' % nprog,
           'type ids are addresses of std::type_info objects (the generators demangle them)',
           'arity <= 4, <= 10 classes, <= 5 methods per registry in the differential runs; the theorems have no such bound']
    vlib.finish(ctx, cov, assumptions=ass)


if __name__ == '__main__':
    main()
