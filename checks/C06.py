#!/usr/bin/env python3
import os, sys
sys.path.insert(0, os.path.dirname(os.path.abspath(__file__)))
import _core_check
from _core_check import vlib, coresuite
ctx = vlib.Ctx('C06')
if ctx.replay:
    _core_check.replay(ctx); sys.exit(0)
ctx.level = 'proof'
vlib.proof_phase(ctx)
_core_check.source_ordering(ctx)
_core_check.source_lat(ctx)      # the class table, the listed bases and the closure loop, as translated from compiler.hpp
res = coresuite.perm_suite(ctx.tier, ctx.seed)
cov = coresuite.summarize_groups(ctx, res, 'registration orders')
vlib.finish(ctx, cov, assumptions=['observations of the real library are compared across registration orders directly (model not involved); the theorem is about the specification, which the dispatch checks C01-C03 tie to the implementation'])
