#!/usr/bin/env python3
"""C20 — use_definitions registers exactly the defined combinations.

  ./check C20 [--tier quick|thorough] [--replay file]

1. proof phase: translators (Gen/GenProductConsts.v from the current templates.hpp), Properties_C20.vo,
   Print Assumptions, hygiene;
2. the extracted model (ocaml/product_driver.ml) prints the expected canonical lines of every scenario;
3. harness/h2/gen_c20.py turns every scenario into a C++ program using product<> / apply_product<> /
   use_definitions<> / not_defined as documented, compiled against vlib.REPO/include (cached by the hash of
   that directory + the generated source) and run;
4. ORACLE, independent of the model (Python itertools.product + filter), on the program's own output:
     order-sensitive : `product` lines == itertools.product(lists)            ("enumerate the full Cartesian product in order")
                       `apply` lines == templates x product, templates slowest
     as multisets    : `leaf` lines (types handed to aggregate) == defined combinations, each with its method
                       `catalog` lines (definition_info in method.specs at run time) == defined combinations + the
                        harness' catch-all; none twice, none for a not_defined combination
                       (catalog order is the construction order of std::tuple sub-objects, which the standard
                        leaves unspecified: reverse type order with libstdc++; recorded in the evidence, not judged)
     dispatch        : every method called on every combination of dynamic classes runs the definition of that
                       combination iff it is defined, else the catch-all
     shape           : the aggregate is a well-formed tree, no std::tuple wider than the translated threshold,
                       leaf count == number of registered definitions
   failure -> VIOLATION with a replay scenario;
5. correspondence: model lines == program lines (catalog sorted); a difference without oracle failure is a
   broken correspondence.
"""
import collections, concurrent.futures, hashlib, itertools, json, os, re, shutil, sys, time

sys.path.insert(0, os.path.join(os.path.dirname(os.path.abspath(__file__)), '..', 'tools'))
import vlib
sys.path.insert(0, os.path.join(vlib.VERIF, 'harness', 'h2'))
import gen_c20

PID = 'C20'
FLAGS = ['-O0', '-s', '-w']
PROPERTY_SPLIT = 512          # the number named by the property text (quantifier)
# clang 14 + libstdc++ 12: instantiating a std::tuple of n elements nests about 2n templates; the default
# -ftemplate-depth (1024) is exceeded from n = 508, i.e. BELOW the 512 threshold of aggregate (measured by
# clang_default_limit_probe in the thorough tier, reported in the evidence). The programs are compiled with
# a larger depth so that registration can be observed at 508..512 too.
COMPILER_FLAGS = {'clang++': ['-ftemplate-depth=4096']}


# ---------------------------------------------------------------------------- helpers (own; not in vlib)

def translated_consts():
    """(threshold, den) as written in Gen/GenProductConsts.v by translators/consts_product.py"""
    p = os.path.join(vlib.COQ, 'Gen', 'GenProductConsts.v')
    try:
        txt = open(p).read()
        thr = int(re.search(r'Definition aggregate_threshold : nat := (\d+)\.', txt).group(1))
        den = int(re.search(r'Definition aggregate_split_den : nat := (\d+)\.', txt).group(1))
        return thr, den
    except Exception:
        return None, None


_INC_HASH = None


def include_hash():
    global _INC_HASH
    if _INC_HASH is None:
        _INC_HASH = vlib.tree_hash([os.path.join(vlib.REPO, 'include')])
    return _INC_HASH


def bin_dir():
    d = vlib.cache_dir('c20-' + include_hash()[:16])
    os.utime(d, None)
    return d


def prune_bins(keep, others=3, max_bins=700):
    root = os.path.join(vlib.BUILD, 'cache')
    ents = [os.path.join(root, e) for e in os.listdir(root) if e.startswith('c20-')]
    ents = [e for e in ents if e != keep]
    ents.sort(key=lambda e: os.path.getmtime(e))
    for e in ents[:-others] if others else ents:
        shutil.rmtree(e, ignore_errors=True)
    # bound the number of cached binaries of the current tree: least recently used go first
    bins = [os.path.join(keep, f) for f in os.listdir(keep) if f.endswith('.bin')]
    if len(bins) > max_bins:
        bins.sort(key=lambda f: os.path.getmtime(f))
        for f in bins[:len(bins) - max_bins]:
            try:
                os.remove(f)
            except OSError:
                pass


def compile_program(src, compiler):
    """returns (binary or None, log, seconds, cached)"""
    flags = FLAGS + COMPILER_FLAGS.get(compiler, [])
    key = hashlib.sha1((include_hash() + compiler + ' '.join(flags) + src).encode()).hexdigest()[:24]
    d = bin_dir()
    binp = os.path.join(d, key + '.bin')
    if os.path.exists(binp):
        try:
            os.utime(binp, None)
        except OSError:
            pass
        return binp, 'cached', 0.0, True
    cpp = os.path.join(d, '%s.%d.cpp' % (key, os.getpid()))
    with open(cpp, 'w') as f:
        f.write(src)
    tmp = binp + '.%d.tmp' % os.getpid()
    t0 = time.time()
    cmd = [compiler, '-std=c++17', '-D' + vlib.GUARD, '-I', os.path.join(vlib.REPO, 'include')] + flags + [cpp, '-o', tmp]
    rc, out = vlib.run(cmd, timeout=900)
    dt = time.time() - t0
    try:
        os.remove(cpp)
    except OSError:
        pass
    if rc != 0:
        try:
            os.remove(tmp)
        except OSError:
            pass
        return None, out[-3000:], dt, False
    os.rename(tmp, binp)
    return binp, 'built', dt, False


def clang_default_limit_probe(thr, bisect=True):
    """largest n <= thr for which `aggregate<E<0>..E<n-1>> a;` compiles with clang++ and its DEFAULT limits
    (-fsyntax-only, bisection); None when clang++ is missing. thr itself compiling -> thr."""
    if not shutil.which('clang++') or not thr or thr > 2000:
        return None
    d = bin_dir()

    def ok(n):
        src = ('#include <yorel/yomm2/core.hpp>\n#include <yorel/yomm2/templates.hpp>\ntemplate<int> struct E { E() {} };\n'
               'yorel::yomm2::aggregate<%s> a;\nint main() {}\n' % ','.join('E<%d>' % i for i in range(n)))
        p = os.path.join(d, 'probe.%d.cpp' % os.getpid())
        open(p, 'w').write(src)
        rc, out = vlib.run(['clang++', '-std=c++17', '-O0', '-w', '-fsyntax-only', '-D' + vlib.GUARD, '-I', os.path.join(vlib.REPO, 'include'), p], timeout=300)
        os.remove(p)
        return rc == 0
    if ok(thr):
        return thr
    if not bisect:
        return thr - 1      # 'does not compile at the threshold'; the exact limit is measured in the thorough tier
    lo, hi = 0, thr
    while hi - lo > 1:
        mid = (lo + hi) // 2
        if ok(mid):
            lo = mid
        else:
            hi = mid
    return lo


def parse_lines(text):
    """canonical lines -> dict of lists"""
    r = {'product': [], 'apply': [], 'static': {}, 'shape': None, 'leaf': [], 'catalog': [], 'call': [], 'done': False, 'junk': []}
    for line in text.split('\n'):
        w = line.split()
        if not w:
            continue
        try:
            if w[0] == 'product':
                r['product'].append(tuple(int(x) for x in w[1:]))
            elif w[0] == 'apply':
                r['apply'].append((int(w[1]), tuple(int(x) for x in w[2:])))
            elif w[0] == 'static':
                r['static'][w[1]] = int(w[2])
            elif w[0] == 'shape':
                r['shape'] = w[1:]
            elif w[0] == 'leaf':
                r['leaf'].append((int(w[1]), tuple(int(x) for x in w[2:])))
            elif w[0] == 'catalog':
                r['catalog'].append((int(w[1]), tuple(w[2:])))
            elif w[0] == 'call':
                i = w.index('->')
                r['call'].append((int(w[1]), tuple(int(x) for x in w[2:i]), int(w[i + 1])))
            elif w[0] == 'done':
                r['done'] = True
            else:
                r['junk'].append(line[:200])
        except (ValueError, IndexError):
            r['junk'].append(line[:200])
    return r


def parse_shape(tokens):
    """tokens -> (ok, widths list, number of leaves, depth) ; the tree must be well formed"""
    pos = [0]
    widths = []
    leaves = [0]

    def node(depth):
        if pos[0] >= len(tokens):
            raise ValueError('truncated')
        t = tokens[pos[0]]; pos[0] += 1
        m = re.match(r'^([TSX])(\d+)$', t)
        if not m:
            raise ValueError('bad token ' + t)
        kind, n = m.group(1), int(m.group(2))
        widths.append(n)
        if kind == 'X':
            raise ValueError('node mixes leaves and sub-aggregates: ' + t)
        if kind == 'T':
            leaves[0] += n
            return depth
        dmax = depth
        for _ in range(n):
            dmax = max(dmax, node(depth + 1))
        return dmax
    try:
        d = node(0)
        if pos[0] != len(tokens):
            raise ValueError('trailing tokens')
        return True, widths, leaves[0], d, ''
    except ValueError as e:
        return False, widths, leaves[0], 0, str(e)


def ms(l):
    return collections.Counter(l)


def ms_diff(exp, got, limit=6):
    e, g = ms(exp), ms(got)
    missing = list((e - g).elements())[:limit]
    extra = list((g - e).elements())[:limit]
    return missing, extra


def oracle(sc, got, thr):
    """judge the implementation's own output against the property; returns list of failure strings"""
    fails = []
    first = sc['flavor'] == 'first'
    fl = gen_c20.full_lists(sc)
    exp_product = [tuple(c) for c in itertools.product(*fl)]
    undef = set(tuple(c) for c in sc['undef'])
    exp_defined = [c for c in exp_product if c not in undef]
    methods = list(range(sc['methods'])) if first else [0]
    method_of = (lambda c: c[0]) if first else (lambda c: 0)
    classes_of = (lambda c: c[1:]) if first else (lambda c: c)
    arity = len(sc['lists'])

    if got['junk']:
        fails.append('unidentified output: %r' % got['junk'][:3])
    # 1. product, in order
    if got['product'] != exp_product:
        if ms(got['product']) == ms(exp_product):
            i = next(i for i, (a, b) in enumerate(zip(got['product'], exp_product)) if a != b)
            fails.append('product<> holds the right combinations but not in order: element %d is %s, expected %s' % (i, list(got['product'][i]), list(exp_product[i])))
        else:
            mi, ex = ms_diff(exp_product, got['product'])
            fails.append('product<> is not the Cartesian product: %d elements for %d; missing %s extra %s' % (len(got['product']), len(exp_product), mi, ex))
    if 'product_same' in got['static'] and got['static']['product_same'] != 1 and got['product'] == exp_product:
        fails.append('product<> prints the right combinations but is not the type types<types<...>...>')
    # 2. apply_product, in order
    if sc['templates']:
        exp_apply = [(t, tuple(c)) for t in range(sc['templates']) for c in itertools.product(*sc['lists'])]
        if got['apply'] != exp_apply:
            if ms(got['apply']) == ms(exp_apply):
                fails.append('apply_product<> holds the right instantiations but not in order')
            else:
                mi, ex = ms_diff(exp_apply, got['apply'])
                fails.append('apply_product<> is not templates x product: missing %s extra %s' % (mi, ex))
    # 3. the types handed to aggregate = defined combinations (multiset)
    exp_leaves = [(method_of(c), c) for c in exp_defined]
    if ms(got['leaf']) != ms(exp_leaves):
        mi, ex = ms_diff(exp_leaves, got['leaf'])
        fails.append('use_definitions<> instantiates add_definition for the wrong set: missing %s extra %s' % (mi, ex))
    # 4. run-time catalogs
    exp_cat = [(m, tuple(['R'] * arity)) for m in methods] + [(method_of(c), tuple(str(x) for x in classes_of(c))) for c in exp_defined]
    if ms(got['catalog']) != ms(exp_cat):
        mi, ex = ms_diff(exp_cat, got['catalog'])
        dup = [k for k, v in ms(got['catalog']).items() if v > 1][:4]
        und = []
        for (m, cl) in ms(got['catalog']):
            if all(x.isdigit() for x in cl):
                combo = ((m,) if first else ()) + tuple(int(x) for x in cl)
                if combo in undef:
                    und.append([m, list(cl)])
        fails.append('method catalogs do not hold exactly the defined combinations: missing %s extra %s%s%s'
                     % (mi, ex, (' registered twice %s' % dup) if dup else '', (' registered although not_defined %s' % und[:4]) if und else ''))
    # 5. dispatch
    defined_cls = set((method_of(c), classes_of(c)) for c in exp_defined)
    exp_calls = []
    for m in methods:
        for c in itertools.product(*sc['lists']):
            code = -1
            if (m, tuple(c)) in defined_cls:
                code = 0
                for x in c:
                    code = code * gen_c20.CODE_BASE + x
            exp_calls.append((m, tuple(c), code))
    if got['done'] and got['call'] != exp_calls:
        bad = [(g, e) for g, e in zip(got['call'], exp_calls) if g != e][:3]
        fails.append('dispatch does not run the defined combinations: %d calls for %d; first differences (got, expected) %s' % (len(got['call']), len(exp_calls), bad))
    if not got['done']:
        fails.append('program did not run to the end')
    # 6. shape
    if got['shape'] is None:
        fails.append('no shape line')
    else:
        ok, widths, nleaves, depth, why = parse_shape(got['shape'])
        if not ok:
            fails.append('aggregate is not a tree of tuples: %s (%s)' % (why, ' '.join(got['shape'][:8])))
        else:
            if thr is not None and max(widths) > thr:
                fails.append('a std::tuple of the aggregate has %d direct sub-objects, more than the threshold %d' % (max(widths), thr))
            if nleaves != len(got['leaf']):
                fails.append('shape counts %d leaves, %d leaf lines' % (nleaves, len(got['leaf'])))
    return fails


def catalog_order_relation(got, sc):
    """how the run-time catalog order relates to the type order of the leaves (per program)"""
    first = sc['flavor'] == 'first'
    rel = set()
    for m in (range(sc['methods']) if first else [0]):
        lv = [tuple(str(x) for x in (c[1:] if first else c)) for (mm, c) in got['leaf'] if mm == m]
        ct = [c for (mm, c) in got['catalog'] if mm == m and not (c and c[0] == 'R')]
        if len(lv) < 2:
            continue
        if ct == lv:
            rel.add('forward')
        elif ct == lv[::-1]:
            rel.add('reverse')
        else:
            rel.add('other')
    if not rel:
        return 'n/a'
    return '+'.join(sorted(rel))


def canonical_for_diff(r):
    """parsed lines -> comparable structure (catalog sorted: unspecified order)"""
    return {'product': r['product'], 'apply': r['apply'], 'shape': r['shape'], 'leaf': r['leaf'],
            'catalog': sorted(r['catalog']), 'call': r['call'], 'done': r['done']}


def first_difference(a, b):
    for k in ('product', 'apply', 'shape', 'leaf', 'catalog', 'call', 'done'):
        if a[k] != b[k]:
            if isinstance(a[k], list) and isinstance(b[k], list):
                for i, (x, y) in enumerate(zip(a[k], b[k])):
                    if x != y:
                        return '%s[%d]: model %s, program %s' % (k, i, x, y)
                return '%s: model has %d entries, program %d' % (k, len(a[k]), len(b[k]))
            return '%s: model %s, program %s' % (k, a[k], b[k])
    return None


# ---------------------------------------------------------------------------- scenarios

def load_corpus():
    d = os.path.join(vlib.VERIF, 'corpus', PID)
    out = []
    if os.path.isdir(d):
        for f in sorted(os.listdir(d)):
            if f.endswith('.json'):
                try:
                    sc = json.load(open(os.path.join(d, f)))
                    sc = sc.get('scenario', sc)
                    sc.setdefault('name', 'corpus/' + f)
                    out.append(gen_c20.canon(sc))
                except Exception as e:
                    vlib.log('corpus file %s unreadable: %s' % (f, e))
    return out


def sizes(sc):
    p = 1
    for l in gen_c20.full_lists(sc):
        p *= len(l)
    undef = set(tuple(c) for c in sc['undef'])
    reg = p - len([c for c in undef])       # undef entries are elements of the product by construction
    return p, reg


def generated(ctx, rng, thr):
    """the tier's scenarios after the corpus"""
    out = []
    t = thr if (thr and 4 <= thr <= 700) else None
    if not ctx.thorough:
        for i in range(12):
            out.append(gen_c20.random_small(rng, 'small-%d' % i, max_product=150))
        if t:
            out.append(gen_c20.big_scenario(rng, 'big-thr+1', t + 1, flavor='first'))
            out.append(gen_c20.big_scenario(rng, 'big-thr', t, flavor='member'))
    else:
        for i in range(118):
            out.append(gen_c20.random_small(rng, 'small-%d' % i, max_product=260 if i % 6 == 0 else 120))
        # medium sizes filling 1..600
        for i in range(10):
            target = rng.range(150, (t or 512) - 2)
            out.append(gen_c20.big_scenario(rng, 'medium-%d' % target, target, flavor=rng.choice(['first', 'member']),
                                            three_lists=rng.chance(1, 3)))
        if t:
            for reg in (t - 1, t, t + 1, t + 2):
                for fl in ('first', 'member'):
                    out.append(gen_c20.big_scenario(rng, 'big-%d-%s' % (reg, fl), reg, flavor=fl))
            out.append(gen_c20.big_scenario(rng, 'big3-thr+1', t + 1, three_lists=True))
            out.append(gen_c20.big_scenario(rng, 'big3-576', max(t + 1, 576), three_lists=True))
            out.append(gen_c20.big_scenario(rng, 'big-600', max(t + 1, 600)))
            out.append(gen_c20.big_scenario(rng, 'big-2m-thr+1', t + 1, methods=2))
            for j in range(4):
                reg = rng.range(t + 1, max(t + 2, 600))
                out.append(gen_c20.big_scenario(rng, 'big-rand-%d' % reg, reg, flavor=rng.choice(['first', 'member']),
                                                three_lists=rng.chance(1, 4)))
            # two levels of splitting: more than 2 * threshold registrations
            out.append(gen_c20.big_scenario(rng, 'deep-2thr+1', 2 * t + 1, methods=2))
            out.append(gen_c20.big_scenario(rng, 'deep-2thr+34', 2 * t + 34, methods=2))
    return out


def search_extra(rng, thr):
    """extra inputs tried when an obligation / correspondence is broken and nothing failed yet"""
    out = []
    for i in range(24):
        out.append(gen_c20.random_small(rng, 'search-%d' % i, max_product=120))
    t = thr if (thr and 4 <= thr <= 700) else PROPERTY_SPLIT
    for reg in (t - 1, t + 1, t + 2, PROPERTY_SPLIT + 1):
        out.append(gen_c20.big_scenario(rng, 'search-big-%d' % reg, reg))
    out.append(gen_c20.big_scenario(rng, 'search-big3', max(t + 1, 576), three_lists=True))
    return out


# ---------------------------------------------------------------------------- running

class Runner:
    def __init__(self, ctx, mdl, thr):
        self.ctx = ctx
        self.mdl = mdl
        self.thr = thr
        self.results = []          # dicts
        self.seen = set()
        self.compile_s = []
        self.tmp = os.path.join(vlib.BUILD, 'c20-cases-%d' % os.getpid())
        os.makedirs(self.tmp, exist_ok=True)

    def close(self):
        shutil.rmtree(self.tmp, ignore_errors=True)

    def model(self, sc, n):
        if not self.mdl:
            return None, 'model driver not built'
        p = os.path.join(self.tmp, 'case-%d.txt' % n)
        with open(p, 'w') as f:
            f.write(gen_c20.model_case_text(sc))
        rc, out, err = vlib.run2([self.mdl, p], timeout=300)
        if rc != 0:
            return None, 'model driver failed rc=%d %s' % (rc, err[-300:])
        return parse_lines(out), out

    def one(self, job):
        n, sc, compiler = job
        mdl, mtxt = self.model(sc, n)
        p, reg = sizes(sc)
        exp_prod = exp_apply = None
        if mdl is not None and p <= 64:
            exp_prod = mdl['product']
            exp_apply = mdl['apply'] if sc['templates'] else None
        src = gen_c20.generate(sc, expected_product=exp_prod, expected_apply=exp_apply)
        binp, log, dt, cached = compile_program(src, compiler)
        res = {'n': n, 'sc': sc, 'compiler': compiler, 'model': mdl, 'model_text': mtxt if mdl is None else None,
               'compile_s': dt, 'cached': cached, 'product': p, 'registered': reg, 'got': None, 'build_log': None, 'run_rc': None}
        if not binp:
            res['build_log'] = log
            return res
        rc, out, err = vlib.run2([binp], timeout=300)
        res['run_rc'] = rc
        res['run_err'] = err[-600:]
        res['got'] = parse_lines(out)
        return res

    def run(self, scenarios, compilers):
        jobs = []
        for sc in scenarios:
            key = gen_c20.scenario_key(sc)
            for c in compilers:
                if (key, c) in self.seen:
                    continue
                self.seen.add((key, c))
                jobs.append([len(self.results) + len(jobs), sc, c])
        # big ones first so that the pool drains evenly
        order = sorted(jobs, key=lambda j: -sizes(j[1])[1])
        with concurrent.futures.ThreadPoolExecutor(max_workers=vlib.NJOBS) as ex:
            rs = list(ex.map(self.one, order))
        rs.sort(key=lambda r: r['n'])
        self.results += rs
        return rs


def judge(ctx, runner, rs, stats, report_limit=3):
    """oracle + correspondence on a batch of results; violations reported smallest first"""
    failing = []
    for r in rs:
        sc = r['sc']
        if r['got'] is None:
            stats['build_failures'].append((sc['name'], r['compiler'], (r['build_log'] or '')[-400:]))
            continue
        fails = oracle(sc, r['got'], runner.thr)
        if r['run_rc'] != 0:
            fails.append('program exit status %s: %s' % (r['run_rc'], (r.get('run_err') or '').strip()[-200:]))
        r['fails'] = fails
        stats['order'][catalog_order_relation(r['got'], sc)] += 1
        if fails:
            failing.append(r)
        elif r['model'] is None:
            stats['model_failures'].append((sc['name'], r['model_text']))
        else:
            d = first_difference(canonical_for_diff(r['model']), canonical_for_diff(r['got']))
            if d:
                stats['corr'].append((sc['name'], r['compiler'], d))
            for k, v in r['got']['static'].items():
                if v != 1:
                    stats['corr'].append((sc['name'], r['compiler'], 'static %s is false although the printed lists agree' % k))
    failing.sort(key=lambda r: (r['product'], len(json.dumps(r['sc']))))
    for r in failing[:max(0, report_limit - len(ctx.violations))]:
        sc = r['sc']
        g = r['got']
        ctx.violation('%s [%s, %s]: %s' % (r['fails'][0], sc['name'], r['compiler'], '; '.join(r['fails'][1:3])),
                      {'scenario': sc, 'compiler': r['compiler'], 'failures': r['fails'],
                       'expected': 'itertools.product of the lists, minus `undef`; see failures',
                       'got': {'product': [list(c) for c in g['product'][:40]], 'shape': g['shape'],
                               'leaf': [[m, list(c)] for m, c in g['leaf'][:40]],
                               'catalog': [[m, list(c)] for m, c in g['catalog'][:40]],
                               'calls_not_catch_all': [[m, list(c), x] for m, c, x in g['call'] if x != -1][:40]},
                       'how_to_replay': './check C20 --replay <this file>   (VERIF_REPO=<tree> to choose the tree)'})
    stats['failing'] += len(failing)
    return failing


def new_stats():
    return {'build_failures': [], 'model_failures': [], 'corr': [], 'order': collections.Counter(), 'failing': 0}


def replay(ctx, path, mdl, thr):
    obj = json.load(open(path))
    if 'scenario' not in obj and 'lists' not in obj:
        print('replay file names no scenario (no failing input was found); what no longer checks:')
        for b in obj.get('broken', []):
            print('  ' + b)
        print('now: %s' % ('; '.join(ctx.broken) if ctx.broken else 'every obligation checks'))
        sys.exit(1 if ctx.broken else 0)
    sc = gen_c20.canon(obj.get('scenario', obj))
    compilers = [obj.get('compiler', 'g++')]
    runner = Runner(ctx, mdl, thr)
    try:
        rs = runner.run([sc], compilers)
    finally:
        runner.close()
    r = rs[0]
    print('scenario: %s' % json.dumps(sc, sort_keys=True)[:2000])
    if r['got'] is None:
        print('implementation: does not build: %s' % (r['build_log'] or '')[-1500:])
        sys.exit(1)
    g = r['got']
    fl = gen_c20.full_lists(sc)
    exp = [c for c in itertools.product(*fl) if tuple(c) not in set(tuple(u) for u in sc['undef'])]
    print('implementation: product %d elements, shape %s, %d leaves, %d catalog entries (incl. catch-all), calls running a definition: %d'
          % (len(g['product']), ' '.join(g['shape'] or ['?']), len(g['leaf']), len(g['catalog']), len([1 for c in g['call'] if c[2] != -1])))
    print('  catalog (first 30): %s' % [[m, list(c)] for m, c in g['catalog'][:30]])
    if r['model'] is not None:
        m = r['model']
        print('model:          product %d elements, shape %s, %d leaves, %d catalog entries' % (len(m['product']), ' '.join(m['shape'] or ['?']), len(m['leaf']), len(m['catalog'])))
        print('  model vs implementation: %s' % (first_difference(canonical_for_diff(m), canonical_for_diff(g)) or 'same canonical lines (catalog sorted)'))
    else:
        print('model:          unavailable (%s)' % r['model_text'])
    fails = oracle(sc, g, thr)
    print('oracle:         expects %d registered definitions out of %d combinations; %s'
          % (len(exp), len(list(itertools.product(*fl))), 'OK' if not fails else 'FAILS: ' + ' | '.join(fails)))
    sys.exit(1 if fails else 0)


def main():
    ctx = vlib.Ctx(PID)
    vlib.proof_phase(ctx, extra_targets=['Extract/ExtractProduct.vo'])
    os.makedirs(os.path.join(vlib.BUILD, 'extract'), exist_ok=True)
    mdl, log1 = vlib.ocaml_driver('product_model', 'Extract/ExtractProduct.vo', ['ocaml/product_driver.ml'])
    if not mdl:
        ctx.broken.append('model driver does not build: ' + log1[-300:].replace('\n', ' '))
    thr, den = translated_consts()
    if thr is None:
        ctx.broken.append('Gen/GenProductConsts.v unreadable (translator consts_product.py failed)')
    elif thr != PROPERTY_SPLIT:
        ctx.notes.append('translated aggregate threshold is %d, the property text names %d: generators aim at %d' % (thr, PROPERTY_SPLIT, thr))
    if ctx.replay:
        replay(ctx, ctx.replay, mdl, thr)
    prune_bins(bin_dir())

    rng = vlib.Rng(ctx.seed)
    compilers = ['g++', 'clang++'] if ctx.thorough else ['g++']
    runner = Runner(ctx, mdl, thr)
    stats = new_stats()
    try:
        corpus = load_corpus()
        rs = runner.run(corpus, compilers)
        judge(ctx, runner, rs, stats)
        gens = generated(ctx, rng, thr)
        rs = runner.run(gens, compilers)
        judge(ctx, runner, rs, stats)

        def settle():
            for name, comp, log in stats['build_failures'][:3]:
                b = 'harness does not build against %s for scenario %s (%s): %s' % (vlib.REPO, name, comp, log.replace('\n', ' ')[-300:])
                if b not in ctx.broken:
                    ctx.broken.append(b)
            for name, txt in stats['model_failures'][:3]:
                b = 'model driver fails on scenario %s: %s' % (name, str(txt)[-200:])
                if b not in ctx.broken:
                    ctx.broken.append(b)
            for name, comp, d in stats['corr'][:3]:
                b = 'correspondence: model and implementation differ on scenario %s (%s): %s' % (name, comp, d)
                if b not in ctx.broken:
                    ctx.broken.append(b)
        settle()
        searched = 0
        if ctx.broken and not ctx.violations:
            # something no longer checks: look for a concrete failing input beyond the tier's volume
            vlib.log('C20: broken obligation/correspondence, searching for a failing input: ' + ' | '.join(ctx.broken)[:400])
            extra = search_extra(vlib.Rng(ctx.seed + 7919), thr)
            rs = runner.run(extra, ['g++'])
            searched = len(rs)
            judge(ctx, runner, rs, stats)
            settle()
    finally:
        runner.close()

    clang_limit = None
    if True:
        clang_limit = clang_default_limit_probe(thr, bisect=ctx.thorough)
        if clang_limit is not None and thr and clang_limit < thr:
            msg = ('clang++ with its default -ftemplate-depth cannot compile a single-tuple aggregate of more than %d elements '
                   '(libstdc++ std::tuple; exact limit measured in the thorough tier only), although aggregate only splits above %d: use_definitions with %d..%d defined combinations '
                   'needs -ftemplate-depth raised (the check compiles clang++ programs with %s)'
                   % (clang_limit, thr, clang_limit + 1, thr, ' '.join(COMPILER_FLAGS['clang++'])))
            if any(f['kind'] == 'finding' and f['property'] == PID and f['key'] == 'clang-template-depth' for f in ctx.findings):
                ctx.violation(msg, {'probe': 'aggregate<E<0>..E<n-1>> a; clang++ -fsyntax-only', 'largest_ok': clang_limit, 'threshold': thr},
                              finding_key='clang-template-depth')
            else:
                ctx.notes.append(msg)

    # ---------------------------------------------------------------- evidence
    res = [r for r in runner.results if r['got'] is not None]
    keys = {}
    for r in runner.results:
        keys.setdefault(gen_c20.scenario_key(r['sc']), r)
    distinct = list(keys.values())

    def nontrivial(r):
        sc = r['sc']
        return r['product'] >= 2 and (len(sc['undef']) > 0 or len(gen_c20.full_lists(sc)) >= 2)
    dist = collections.OrderedDict()
    dist['class_list_count'] = dict(sorted(collections.Counter(str(len(r['sc']['lists'])) for r in distinct).items()))
    dist['product_lists_count'] = dict(sorted(collections.Counter(str(len(gen_c20.full_lists(r['sc']))) for r in distinct).items()))
    dist['list_length'] = dict(sorted(collections.Counter(str(len(l)) for r in distinct for l in r['sc']['lists']).items(), key=lambda kv: int(kv[0])))
    dist['flavor'] = dict(collections.Counter(r['sc']['flavor'] for r in distinct))
    dist['methods_2'] = len([r for r in distinct if r['sc']['methods'] == 2])
    dist['style'] = dict(collections.Counter(r['sc']['style'] for r in distinct))
    dist['templates'] = dict(sorted(collections.Counter(str(r['sc']['templates']) for r in distinct).items()))

    def bucket(n):
        for b in (1, 2, 8, 32, 128, 256):
            if n <= b:
                return '<=%d' % b
        if thr and n < thr - 1:
            return '<thr-1'
        if thr and n > thr + 2:
            return '>thr+2' if n <= 2 * thr else '>2*thr'
        return '=%d' % n
    dist['product_size'] = dict(collections.Counter(bucket(r['product']) for r in distinct))
    dist['registered_size'] = dict(collections.Counter(bucket(r['registered']) for r in distinct))
    dist['undefined'] = dict(collections.Counter(
        'none' if not r['sc']['undef'] else ('all' if r['registered'] == 0 else ('one' if len(r['sc']['undef']) == 1 else 'some'))
        for r in distinct))
    dist['registered_beyond_split'] = len([r for r in distinct if thr and r['registered'] > thr])
    dist['registered_at_split_pm1'] = len([r for r in distinct if thr and abs(r['registered'] - thr) <= 1])
    dist['two_level_split'] = len([r for r in distinct if thr and r['registered'] > 2 * thr])
    dist['compilers'] = dict(collections.Counter(r['compiler'] for r in runner.results))
    dist['shapes_seen'] = sorted(set(' '.join(r['got']['shape']) for r in res if r['got']['shape'] and len(r['got']['shape']) > 1))[:12]
    dist['catalog_vs_leaf_order'] = dict(stats['order'])
    built = [r['compile_s'] for r in runner.results if not r['cached'] and r['got'] is not None]
    dist['compiled_now'] = len(built)
    dist['from_cache'] = len([r for r in runner.results if r['cached']])
    dist['compile_seconds_max'] = round(max(built), 1) if built else 0
    dist['compile_seconds_sum'] = round(sum(built), 1) if built else 0
    dist['search_extra_cases'] = searched
    samples = []
    for r in (distinct[:2] + [x for x in distinct if thr and x['registered'] > thr][:1]):
        sc = dict(r['sc'])
        if len(sc['undef']) > 12:
            sc['undef'] = sc['undef'][:12] + ['... %d in all' % len(r['sc']['undef'])]
        samples.append({'scenario': sc, 'product_size': r['product'], 'registered': r['registered'],
                        'shape': r['got']['shape'] if r['got'] else None,
                        'catalog_first': [[m, list(c)] for m, c in (r['got']['catalog'][:5] if r['got'] else [])]})
    cov = {
        'evaluations': len(runner.results),
        'distinct_nontrivial': len([r for r in distinct if nontrivial(r)]),
        'distinct_scenarios': len(distinct),
        'rule': 'one evaluation = one generated C++ program (scenario x compiler) compiled against the current include tree, run, '
                'judged by the itertools oracle and diffed with the extracted model; scenarios: corpus, then random '
                '(1-4 class lists of 1-6 classes over a shared pool, optional list of 1-2 methods as first factor, not_defined subset '
                'none/all/one/all-but-one/ends/random density, two ways of writing the definition template, apply_product probe with 0-3 templates), '
                'then products sized so that the number of registered definitions is thr-1, thr, thr+1, ... (thr = translated threshold); '
                'distinct = distinct canonical scenario (sha1 of the scenario without its name); non-trivial = product of >= 2 combinations and '
                '(some combination marked not_defined or >= 2 lists)',
        'samples': samples,
        'input_distribution': dist,
        'translated_constants': {'aggregate_threshold': thr, 'aggregate_split_den': den, 'property_text_split': PROPERTY_SPLIT},
        'clang_default_limit_largest_single_tuple': clang_limit,
        'compiler_flags': {'all': FLAGS, 'clang++': COMPILER_FLAGS['clang++']},
        'order_sensitive_comparisons': 'product<> and apply_product<> element order (oracle and model); leaf order and aggregate shape (model only); '
                                       'catalog vs oracle as multisets (tuple sub-object construction order is unspecified; observed: see input_distribution.catalog_vs_leaf_order)',
        'oracle_failures': stats['failing'],
        'notes': ctx.notes,
    }
    assumptions = [
        'the list model mirrors the meta-functions; that Boost.Mp11 lists / std::tuple implement lists is trusted, tied by these differential runs',
        'the run-time catalog holds the leaves of the aggregate because each add_definition sub-object registers itself in its constructor: observed, not proved',
        'no duplicate class inside a type list (a duplicate makes the same add_function<> static twice; the guard in add_function keeps one)',
    ]
    vlib.finish(ctx, cov, assumptions=assumptions)


if __name__ == '__main__':
    main()
