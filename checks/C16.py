#!/usr/bin/env python3
"""C16 - concurrent calls are race-free and give the sequential answers.

(A) translators/callpath.py regenerates, from VERIF_REPO/include, the list of memory accesses of every call
    route x policy shape x IR variant (coq/Gen/GenCallPath.v);
(B) Coq: generic interleaving theorems + vm_compute obligations over the generated lists
    (coq/Properties/Properties_C16.v);
(C) a ThreadSanitizer harness (harness/callpath) is the failing-schedule search and the sequential-answer
    comparison.

Decision: an obligation fails -> TSan search; a race in library code or a wrong answer -> VIOLATION with the
report as replay; nothing found -> VIOLATION ... no-failing-input-found (vlib.finish). Obligations hold but
TSan reports a race in library code -> VIOLATION too.
"""
import hashlib, json, os, re, sys, time
sys.path.insert(0, os.path.join(os.path.dirname(os.path.abspath(__file__)), '..', 'tools'))
import vlib

VERIF = vlib.VERIF
WORK = os.path.join(vlib.BUILD, 'c16')
TRANSLATOR = os.path.join(VERIF, 'translators', 'callpath.py')
GEN_V = os.path.join(vlib.COQ, 'Gen', 'GenCallPath.v')
TSAN_ENV = {'TSAN_OPTIONS': 'halt_on_error=0:exitcode=0:report_signal_unsafe=0:history_size=4'}

# ---- mirror of Model/CallPath.v, used ONLY to say which route breaks (the verdict is Coq's)
PURE_CALLS = ['__dynamic_cast', 'strcmp', '_ZNKSt9type_infoeqERKS_', '_ZNKSt9type_info6beforeERKS_',
              '_ZNKSt9type_info4nameEv', '_ZNKSt9type_info9hash_codeEv']
OWNER_CALLS = ['_Znwm', '_ZdlPv', '_ZdlPvm', '__cxa_allocate_exception', '__cxa_throw', 'abort']
OWNED_TYPES = ['class.std::_Sp_counted']
SMART = ['call_shared', 'shared_ctor', 'shared_copy', 'shared_cast', 'shared_make']
VMAP_CTOR = ['vptr_exact', 'vptr_from_base', 'shared_ctor']


def access_read_only(a):
    k = a[0]
    if k in ('Read', 'ReadVia', 'ArgRead', 'LocalRead', 'ArgWrite', 'LocalWrite', 'IndirectCall', 'Fence', 'ErrorPath'):
        return True
    if k == 'Call':
        return a[1] in PURE_CALLS
    return False


def access_owner_only(a):
    k = a[0]
    if k in ('ArgGraphWrite', 'AtomicRMWOwned'):
        return any(a[1].startswith(p) for p in OWNED_TYPES)
    if k == 'FreshWrite':
        return True
    if k == 'Call':
        return a[1] in PURE_CALLS or a[1] in OWNER_CALLS
    return access_read_only(a)


def is_smart(r):
    return r['name'] in SMART or r['name'].startswith('thunk_skick') or r['name'].startswith('errstub_')


def excluded(r):
    """mirror of CallPath.C16_excluded: nothing is excluded (the vptr_map constructor uses find() now)"""
    return False


def is_vmap_ctor(r):
    return r['shape'] == 'vmap' and r['name'] in VMAP_CTOR


def offending(r):
    pred = access_owner_only if is_smart(r) else access_read_only
    bad = [a for a in r['accesses'] if not pred(a)]
    n = sum(1 for a in r['accesses'] if a[0] == 'IndirectCall')
    if r['name'].startswith('call_') and n != 1:
        bad.append(['DispatchJumpCount', str(n)])
    elif not r['name'].startswith(('call_', 'errcall_')) and not is_smart(r) and n != 0:
        bad.append(['DispatchJumpCount', str(n)])
    return bad


def short(a):
    return a[0] if len(a) == 1 else '%s %s' % (a[0], a[1])


# ---- translator / proof phase

def run_translator():
    os.makedirs(WORK, exist_ok=True)
    js = os.path.join(WORK, 'routes-%d.json' % os.getpid())
    rc, out = vlib.run([sys.executable, TRANSLATOR, '--out', os.path.join(WORK, 'Gen-%d.v' % os.getpid()), '--json', js],
                       timeout=400, env={'VERIF_REPO': vlib.REPO})
    data = None
    if rc == 0 and os.path.exists(js):
        data = json.load(open(js))
    for f in (js, os.path.join(WORK, 'Gen-%d.v' % os.getpid())):
        try:
            os.remove(f)
        except OSError:
            pass
    return data, out


def gen_key():
    try:
        m = re.search(r'Definition source_key : string := "([^"]*)"', open(GEN_V).read())
        return m.group(1) if m else None
    except OSError:
        return None


def compiled_key():
    """source_key of the Gen/GenCallPath.vo that Properties_C16.vo was compiled against"""
    d = os.path.join(vlib.BUILD, 'assume')
    os.makedirs(d, exist_ok=True)
    stem = 'K_C16_%d' % os.getpid()
    p = os.path.join(d, stem + '.v')
    open(p, 'w').write('Require Import Coq.Strings.String.\nRequire Y2.Properties.Properties_C16.\n'
                       'Require Y2.Gen.GenCallPath.\nOpen Scope string_scope.\n'
                       'Eval vm_compute in Y2.Gen.GenCallPath.source_key.\n')
    rc, out = vlib.run(['coqc', '-Q', vlib.COQ, 'Y2', p], timeout=120, cwd=d)
    for f in os.listdir(d):
        if f.startswith(stem) or f.startswith('.' + stem):
            try:
                os.remove(os.path.join(d, f))
            except OSError:
                pass
    m = re.search(r'= "([^"]*)"\s*:\s*string', out)
    return m.group(1) if (rc == 0 and m) else None


def guarded_proof_phase(ctx, want_key):
    """proof_phase, repeated when another check regenerated Gen/GenCallPath.v for a different tree meanwhile
    (every check runs every translator; VERIF_REPO may differ between concurrent runs)"""
    for attempt in range(4):
        ctx.broken, ctx.obligations, ctx.discharged, ctx.axioms = [], [], [], {}
        vlib.proof_phase(ctx)
        if want_key is None:
            return
        if gen_key() == want_key and (ctx.broken or compiled_key() == want_key):
            return
        vlib.log('C16: Gen/GenCallPath.v belongs to another tree (concurrent run); retrying')
        time.sleep(1.5 * (attempt + 1))
    ctx.broken.append('Gen/GenCallPath.v kept being regenerated for another source tree by concurrent runs')


# ---- ThreadSanitizer

def split_reports(err):
    reps = []
    for blk in err.split('=================='):
        if 'WARNING: ThreadSanitizer' in blk:
            reps.append(blk.strip())
    return reps


def in_library(rep):
    """a frame whose SOURCE FILE is a library header (template arguments naming yorel::yomm2 do not count)"""
    return 'include/yorel/yomm2/' in rep


def tsan_run(binp, mode, threads, iters, seed, timeout=600):
    cmd = [binp, '--mode', mode, '--threads', str(threads), '--iters', str(iters), '--seed', str(seed)]
    rc, out, err = vlib.run2(cmd, timeout=timeout, env=TSAN_ENV)
    if rc == 124 and iters > 400:
        # a loaded machine, not a finding: once more with a quarter of the iterations
        vlib.log('C16: %s timed out after %ss; retrying with fewer iterations' % (mode, timeout))
        return tsan_run(binp, mode, threads, iters // 4, seed, timeout)
    res = ''
    for line in out.split('\n'):
        if line.startswith('RESULT'):
            res = line.strip()
    reps = split_reports(err)
    crashed = rc != 0 or not res
    return {'cmd': ' '.join(['tsan_driver'] + cmd[1:]), 'rc': rc, 'result': res, 'reports': reps,
            'crashed': crashed, 'stderr_tail': err[-1500:] if crashed else ''}


def comparisons(res):
    m = re.search(r'comparisons=(\d+)', res or '')
    return int(m.group(1)) if m else 0


def trim_report(rep, n=60):
    lines = [l[:240] for l in rep.split('\n')]
    return '\n'.join(lines[:n])


def main():
    ctx = vlib.Ctx('C16')
    ctx.level = 'other'

    if ctx.replay:
        return replay(ctx)

    phase = {}
    t = time.time()
    # (A) translate (content-addressed cache: same include tree + harness -> same text)
    data, tlog = run_translator()
    phase['translate'] = round(time.time() - t, 1); t = time.time()
    if data is None:
        ctx.broken.append('translator callpath.py failed: ' + tlog.strip().split('\n')[-1][:300])
    # (B) proofs
    guarded_proof_phase(ctx, data['source_key'] if data else None)
    proof_broken = list(ctx.broken)
    phase['proof'] = round(time.time() - t, 1); t = time.time()

    routes = data['routes'] if data else []
    bad_routes = []
    for r in routes:
        if excluded(r):
            continue
        b = offending(r)
        if b:
            bad_routes.append({'route': r['name'], 'shape': r['shape'], 'variant': r['variant'], 'function': r['function'],
                               'offending': sorted({short(a) for a in b})[:12],
                               'accesses': [short(a) for a in r['accesses']][:80]})
    expected_missing = []
    if routes:
        have = {(r['name'], r['shape'], r['variant']) for r in routes}
        names = sorted({r['name'] for r in routes if not r['name'].startswith('thunk_')})
        if len(names) < 18:
            expected_missing.append('only %d route names' % len(names))
    if bad_routes and not proof_broken:
        # the mirror disagrees with Coq: do not trust either silently
        ctx.broken.append('python mirror of shared_read_only rejects %d route(s) that Coq accepts: %s'
                          % (len(bad_routes), bad_routes[0]['route']))

    # (C) harness
    binp, blog = vlib.build_cpp('c16_tsan', ['harness/callpath/routes.cpp', 'harness/callpath/tsan_driver.cpp'],
                                flags=['-O1', '-g', '-fsanitize=thread'], compiler='clang++')
    phase['build_harness'] = round(time.time() - t, 1); t = time.time()
    runs = []
    selftest = None
    total_cmp = 0
    if not binp:
        ctx.broken.append('TSan harness does not build against %s: %s' % (vlib.REPO, blog[-400:]))
    else:
        # the tool must work here: an injected unsynchronised counter has to be flagged
        st = tsan_run(binp, 'selftest', 4, 40, ctx.seed, timeout=120)
        selftest = {'flagged': any('c16_injected' in r for r in st['reports']), 'reports': len(st['reports']),
                    'result': st['result']}
        if not selftest['flagged']:
            ctx.broken.append('ThreadSanitizer self-test: the injected counter was not flagged (%s)' % (st['stderr_tail'][-200:] or st['result']))

        search = bool(proof_broken)
        if ctx.thorough or search:
            plan = [(8, 30000, ctx.seed), (16, 12000, ctx.seed + 1000), (3, 60000, ctx.seed + 2000), (12, 20000, ctx.seed + 3000)]
        else:
            plan = [(8, 15000, ctx.seed)]
        # the vptr_map constructor on registered classes, alone (the route that used operator[]): a normal run
        plan = [('main', th, it, sd) for (th, it, sd) in plan]
        # first uses inside the threads (nothing called, no virtual_ptr made before they start): lazily initialised shared state
        plan.insert(0, ('cold', 8, 400 if (ctx.thorough or search) else 100, ctx.seed))
        if ctx.thorough or search:
            plan.insert(1, ('cold', 16, 200, ctx.seed + 500))
        plan.append(('vmap-registered', 8, 60000 if (ctx.thorough or search) else 5000, ctx.seed))
        for (mode, th, it, sd) in plan:
            r = tsan_run(binp, mode, th, it, sd)
            runs.append(r)
            total_cmp += comparisons(r['result'])
            lib = [x for x in r['reports'] if in_library(x)]
            if lib and search:
                break   # found what the search was for
    phase['tsan'] = round(time.time() - t, 1)

    # ---- decide
    lib_reports, harness_reports, mismatches, crashes = [], [], [], []
    for r in runs:
        for rep in r['reports']:
            (lib_reports if in_library(rep) else harness_reports).append((r['cmd'], rep))
        if r['result'].startswith('RESULT mismatch'):
            mismatches.append(r)
        if r['crashed']:
            crashes.append(r)
    if mismatches:
        r = mismatches[0]
        ctx.violation('a call gave a different answer under concurrency than single-threaded: ' + r['result'],
                      {'replay_cmd': r['cmd'], 'result': r['result'], 'tsan_reports': [trim_report(x) for x in r['reports'][:2]],
                       'broken_obligations': proof_broken, 'offending_routes': bad_routes[:6]})
    if lib_reports:
        cmd, rep = lib_reports[0]
        ctx.violation('data race on the call path reported by ThreadSanitizer (%d report(s) in library code)' % len(lib_reports),
                      {'replay_cmd': cmd, 'tsan_report': trim_report(rep), 'reports_in_library_code': len(lib_reports),
                       'broken_obligations': proof_broken, 'offending_routes': bad_routes[:6],
                       'how_to_replay': './check C16 --replay <this file>'})
    if crashes and not mismatches and not lib_reports:
        r = crashes[0]
        if proof_broken:
            ctx.violation('the concurrent run crashed: ' + (r['stderr_tail'][-300:] or r['result']),
                          {'replay_cmd': r['cmd'], 'stderr_tail': r['stderr_tail'], 'broken_obligations': proof_broken,
                           'offending_routes': bad_routes[:6]})
        else:
            ctx.broken.append('harness run failed: ' + (r['stderr_tail'][-300:] or 'no RESULT line'))
    if harness_reports and not lib_reports:
        ctx.broken.append('ThreadSanitizer reports a race inside the harness itself (not library code): '
                          + trim_report(harness_reports[0][1], 6).replace('\n', ' | ')[:400])

    found = any(not nf for (_, _, nf) in ctx.violations)
    keep_broken = list(ctx.broken)
    if ctx.broken and not found:
        # nothing concrete found: say what no longer checks, with the offending access lists as replay
        ctx.violation('proof obligation no longer checks and no failing schedule was found: ' + ' | '.join(ctx.broken)[:1200],
                      {'broken': ctx.broken, 'offending_routes': bad_routes[:10],
                       'searched': [{'cmd': r['cmd'], 'result': r['result'], 'tsan_reports': len(r['reports'])} for r in runs],
                       'make_log_tail': getattr(ctx, 'make_log_tail', '')[-1200:]}, nofail=True)
        ctx.broken = []     # already reported (vlib.finish would print a second line)

    # ---- evidence
    per = {}
    for r in routes:
        per.setdefault(r['variant'], {}).setdefault(r['shape'], 0)
        per[r['variant']][r['shape']] += 1
    lens = [len(r['accesses']) for r in routes]
    distinct = len({hashlib.sha1(json.dumps(r['accesses']).encode()).hexdigest() for r in routes
                    if any(a[0] in ('Read', 'ReadVia') for a in r['accesses'])})
    samples = []
    for want in (('call_multi', 'rel', 'O2'), ('call_uni', 'dbg', 'O2'), ('vptr_from_base', 'ind', 'O2'),
                 ('shared_copy', 'rel', 'O2'), ('vptr_from_base', 'vmap', 'O2')):
        for r in routes:
            if (r['name'], r['shape'], r['variant']) == want:
                samples.append({'route': r['name'], 'shape': r['shape'], 'variant': r['variant'],
                                'accesses': [short(a)[-70:] for a in r['accesses']][:60]})
    vmap_ctor = [{'route': r['name'], 'variant': r['variant'], 'accesses': len(r['accesses']),
                  'offending': sorted({short(a)[-90:] for a in offending(r)})[:8]} for r in routes if is_vmap_ctor(r)]
    cov = {
        'evaluations': total_cmp,
        'distinct_nontrivial': distinct,
        'rule': 'evaluations = answers compared with the single-threaded table across all ThreadSanitizer runs of this check; '
                'distinct_nontrivial = distinct translated access lists (sha1) that read shared memory at least once, over '
                'route x shape x IR variant',
        'samples': samples,
        'input_distribution': {'routes_per_variant_and_shape': per, 'route_functions': len(routes),
                               'accesses_per_route': {'min': min(lens) if lens else 0, 'max': max(lens) if lens else 0,
                                                      'total': sum(lens)},
                               'ir_variants': sorted(per.keys()), 'shapes': sorted({r['shape'] for r in routes})},
        'tsan_runs': [{'cmd': r['cmd'], 'result': r['result'], 'reports': len(r['reports'])} for r in runs],
        'tsan_selftest': selftest,
        'phase_seconds': phase,
        'vptr_map_ctor_routes': {
            'routes': vmap_ctor,
            'note': 'virtual_ptr(Other&&) used Policy::vptrs[index], i.e. unordered_map::operator[] with vptr_map (insert path '
                    'in the IR); since the library fix it calls Policy::dynamic_vptr (find()). No route is excluded '
                    '(CallPath.C16_excluded = false); these routes pass route_read_only and run in every ThreadSanitizer run, '
                    'plus alone on registered classes (mode vmap-registered; the map must keep its size). Constructing a '
                    'virtual_ptr for a class that was never registered is a misuse and is not exercised.'},
        'explanation':
            'PROVED (Coq, closed under the global context): for any number of threads, any lengths and any interleaving, threads '
            'whose access kinds satisfy shared_read_only (or its caller-owned smart-pointer variant) do not race, leave the shared '
            'store unchanged and observe step by step what they observe alone; a further thread writing only inside a set W disjoint '
            'from what they observe changes nothing for them (C16_no_race, C16_foreign_update). PROVED BY COMPUTATION on this run: '
            'every translated access list (route x shape x {O2, O2 with assertions, O1, O0+sroa}) satisfies the predicate, has '
            'exactly one indirect jump on call routes, writes no named global, and the list is complete (C16_readonly, '
            'C16_dispatch_jump, C16_no_global_written, C16_routes_complete); composed in C16_call_path*. OBSERVED, not proved: the '
            'ThreadSanitizer runs (no report, every answer equal to the single-threaded table). TRUSTED: the translator (that the '
            'list covers what the compiled code does; provenance classes of pointers), what the whitelisted external functions do '
            '(__dynamic_cast, strcmp, type_info comparisons; operator new/delete on smart-pointer routes), the hardware memory '
            'model, clang, and that distinct policies own disjoint locations (C14; hypothesis W). No route is excluded.',
    }
    if keep_broken and not ctx.broken:
        cov['broken'] = keep_broken
    assumptions = [
        'translator soundness: every load/store/atomic/call of the compiled route appears in its access list with a correct provenance class',
        'caller-owned objects (route parameters and what they point to) are not shared registries; shared_ptr control blocks are updated atomically by libstdc++',
        'whitelisted external functions only read constant data',
        'C14: locations owned by distinct policies are disjoint (hypothesis W of C16_foreign_update)',
        'sequentially consistent store in the model; for read-only threads weaker models give the same observations',
    ]
    vlib.finish(ctx, cov, assumptions=assumptions)


def replay(ctx):
    obj = json.load(open(ctx.replay))
    cmd = obj.get('replay_cmd', '')
    binp, blog = vlib.build_cpp('c16_tsan', ['harness/callpath/routes.cpp', 'harness/callpath/tsan_driver.cpp'],
                                flags=['-O1', '-g', '-fsanitize=thread'], compiler='clang++')
    if not binp:
        print('harness does not build: ' + blog[-400:])
        sys.exit(2)
    m = re.search(r'--mode (\S+) --threads (\d+) --iters (\d+) --seed (\d+)', cmd)
    mode, th, it, sd = (m.group(1), int(m.group(2)), int(m.group(3)), int(m.group(4))) if m else ('main', 8, 20000, 1)
    r = tsan_run(binp, mode, th, it, sd)
    print('implementation: %s ; ThreadSanitizer reports: %d (in library code: %d)'
          % (r['result'], len(r['reports']), sum(1 for x in r['reports'] if in_library(x))))
    print('model: every thread observes what it observes alone (C16_no_race), provided C16_readonly holds')
    print('oracle: %s' % ('VIOLATED' if (r['reports'] and any(in_library(x) for x in r['reports'])) or 'mismatch' in r['result'] else 'holds on this run'))
    if r['reports']:
        print(trim_report(r['reports'][0], 30))
    for b in obj.get('broken', obj.get('broken_obligations', [])):
        print('no longer checks: ' + b[:300])
    sys.exit(0)


if __name__ == '__main__':
    main()
