#!/usr/bin/env python3
import os, sys
sys.path.insert(0, os.path.dirname(os.path.abspath(__file__)))
import _core_check
_core_check.main('C03', ['the Gallina model of update/resolve is tied to /repo by differential runs of harness H1 (all internals and every legal tuple) on generated registries',
                         'virtual inheritance is invisible at the registry level: only the base relation matters (argument adjustment is C11)'])
