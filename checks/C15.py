#!/usr/bin/env python3
import os, sys, importlib
sys.path.insert(0, os.path.dirname(os.path.abspath(__file__)))
import _core_check
from _core_check import vlib, coresuite
ctx = vlib.Ctx('C15')
if ctx.replay:
    _core_check.replay(ctx); sys.exit(0)
vlib.proof_phase(ctx)
# the virtual_ptr routes (exact static type, base reference, final): model theorems + generated programs
routes_cov = None
if os.path.exists(os.path.join(vlib.COQ, 'Properties', 'Properties_C15_routes.v')):
    ctx2 = vlib.Ctx('C15'); ctx2.tier = ctx.tier; ctx2.seed = ctx.seed
    vlib.proof_phase(ctx2, module='Properties_C15_routes')
    ctx.obligations += ctx2.obligations; ctx.discharged += ctx2.discharged; ctx.axioms.update(ctx2.axioms); ctx.broken += ctx2.broken
    # the same, on the constructor and final() as translated from core.hpp on this run (Gen/GenVptr.v)
    vlib.proof_phase_extra(ctx, 'Properties_C09_source')
    # update-time diagnosis: augment_methods as translated from compiler.hpp (Gen/GenMeth.v) reports the first unregistered id
    vlib.proof_phase_extra(ctx, 'Properties_meth_source')
    try:
        mod = importlib.import_module('C15_routes')
        routes_cov = mod.run(ctx)
    except Exception as e:
        ctx.broken.append('C15_routes harness failed: %r' % (e,))
res = coresuite.unknown_suite(ctx.tier, ctx.seed)
cov = coresuite.summarize_groups(ctx, res, 'places / routes an unregistered class is used at')
if routes_cov:
    cov['virtual_ptr_routes'] = routes_cov
vlib.finish(ctx, cov, assumptions=['update-time diagnosis is observed under checked and unchecked driver policies (every policy with an error handler reports it); call-time diagnosis only under checked policies (with an unchecked policy an unregistered class is undefined behaviour by design)',
                                   'reads of the v-tables of EARLIER, registered arguments happen before the unknown class at a later position is diagnosed (the call path looks the arguments up left to right); no table is read with a pointer obtained from the unregistered class and no definition runs'])
