#!/usr/bin/env python3
"""C15, virtual_ptr routes: checked policies diagnose an unregistered class on every route that goes through
virtual_ptr construction, final, make_virtual_shared, and the plain / pointer / shared_ptr parameter kinds of a call.

A module for checks/C15.py (no side effects at import):

    import C15_routes
    cov = C15_routes.run(ctx)      # ctx: the vlib.Ctx of C15; violations are reported through ctx.violation(...)
                                   # (with a replay: scenario JSON + generated source); ctx.broken gets correspondence
                                   # problems; returns {'programs': n, 'route_cases': k, 'distribution': {...}, ...}
    C15_routes.replay(ctx, obj)    # obj: a replay written by run() (has 'scenario'); prints the three answers

Theorems: coq/Properties/Properties_C15_routes.v (C15_ctor_unregistered, C15_final_wrong_type,
C15_final_unregistered, C15_make_virtual_shared_unregistered, C15_call_lookup_unregistered) over Model/VirtualPtr.v.
Programs: harness/h2/gen_c09.py make_c15_scenario: debug policy and a checked policy with basic_indirect_vptr, an
error handler that records and throws, an unregistered class U deriving from a registered one; expected: the handler
receives unknown_class with typeid(U), or method_table_error; no definition ran; no crash (ASan/UBSan).

Stand-alone (for development): python3 checks/C15_routes.py [--tier quick|thorough]   (writes no evidence file)
"""
import json, os, sys
sys.path.insert(0, os.path.dirname(os.path.abspath(__file__)))
sys.path.insert(0, os.path.join(os.path.dirname(os.path.abspath(__file__)), '..', 'tools'))
sys.path.insert(0, os.path.join(os.path.dirname(os.path.abspath(__file__)), '..', 'harness', 'h2'))
import vlib
import gen_c09 as G
import C09 as base

PREFIX = 'c15r'
THEOREM_MODULE = 'Properties_C15_routes'


def scenarios(ctx, rng):
    out = base.load_corpus('C15')
    out = [s for s in out if s.get('kind') == 'c15' and 'ops' in s]
    shapes = list(G.QUICK_SHAPES)
    off = rng.below(len(shapes))
    n = 20 if ctx.thorough else 3
    for i in range(n):
        shape = shapes[(i + off) % len(shapes)]
        pol = 'ind' if i % 3 == 1 else 'default'
        out.append(G.make_c15_scenario(rng, 'c15_%d_%d_%s_%s' % (ctx.seed, i, pol, shape), shape, pol, sanitize=(i % 4 != 3)))
    return out


def model_driver(ctx):
    mdl, log = vlib.ocaml_driver('virtualptr_model', 'Extract/ExtractVirtualPtr.vo', ['ocaml/virtualptr_driver.ml'])
    if not mdl:
        ctx.broken.append('C15 routes: model driver does not build: ' + log[-300:])
    return mdl


def run(ctx, check_theorems=True):
    """build and run the C15 route scenarios; -> coverage dict"""
    if check_theorems:
        ok, failed, out = vlib.coq_make(['Properties/%s.vo' % THEOREM_MODULE, 'Extract/ExtractVirtualPtr.vo'])
        names = vlib.theorem_names(os.path.join(vlib.COQ, 'Properties', THEOREM_MODULE + '.v'))
        for f in failed:
            ctx.broken.append('coq: %s:%s %s' % (f['file'], f['line'], f['error'].replace('\n', ' ')[:300]))
        ass = vlib.coq_assumptions('Properties.' + THEOREM_MODULE, names) if ok else {n: None for n in names}
        for n in names:
            if ass.get(n) != 'closed':
                ctx.broken.append('theorem %s (Properties_C15_routes.v) does not check or is not closed: %s' % (n, ass.get(n)))
    else:
        names = []
    mdl = model_driver(ctx)
    inc_hash = vlib.tree_hash([os.path.join(vlib.REPO, 'include')])
    stats = base.new_stats()
    rng = vlib.Rng(ctx.seed * 7919 + 15)
    scns = scenarios(ctx, rng)
    jobs = [(s, 'g++') for s in scns]
    if ctx.thorough:
        jobs += [(s, 'clang++') for i, s in enumerate(scns) if i % 5 == 1]
    base.compile_all(jobs, inc_hash, stats, PREFIX)
    for s, comp in jobs:
        base.judge_scenario(ctx, s, mdl, inc_hash, comp, stats, prefix=PREFIX)
    base.prune_cache(PREFIX, keep=60)
    return {
        'programs': stats['programs'],
        'route_cases': stats['by_type'].get('X', 0),
        'distinct_route_cases': len(stats['distinct']),
        'distribution': dict(sorted(stats['dist'].items())),
        'routes': stats['routes'],
        'object_class_history': stats['histories'],
        'policies': stats['policies'],
        'shapes': stats['shapes'],
        'model_lines_compared': stats['model_lines_compared'],
        'model_trace_differences': stats['model_diffs'],
        'violations_reported': stats['violations'],
        'programs_compiled_this_run': stats['built'],
        'compile_s': stats.get('compile_s', 0),
        'theorems': names,
        'samples': stats['samples'],
        'rule': 'one route case = one erroneous (or control) use inside try/catch in a generated program under a checked policy; judged: the '
                'handler received exactly the expected error kind carrying the expected class id, no definition ran, the program did not '
                'crash (ASan/UBSan); compared with the extracted model line by line',
    }


def replay(ctx, obj):
    scn = obj.get('scenario', obj)
    mdl = model_driver(ctx)
    inc_hash = vlib.tree_hash([os.path.join(vlib.REPO, 'include')])
    stats = base.new_stats()
    print('replaying C15 route scenario %s with %s against %s' % (scn.get('name'), obj.get('compiler', 'g++'), vlib.REPO))
    base.judge_scenario(ctx, scn, mdl, inc_hash, obj.get('compiler', 'g++'), stats, prefix=PREFIX,
                        verbose=({'line': obj['line']} if isinstance(obj.get('line'), int) else True))
    print('--- verdict: %d violation(s) of the property on this scenario' % stats['violations'])
    return stats['violations']


if __name__ == '__main__':
    ctx = vlib.Ctx('C15')
    ctx._nrep = 500          # stand-alone runs do not overwrite the replay files of checks/C15.py
    if ctx.replay:
        n = replay(ctx, json.load(open(ctx.replay)))
    else:
        cov = run(ctx)
        n = len(ctx.violations)
        print(json.dumps({k: v for k, v in cov.items() if k != 'samples'}, indent=1)[:3000])
    for b in ctx.broken:
        print('BROKEN: ' + b)
    sys.exit(1 if (n or ctx.broken) else 0)
