#!/usr/bin/env python3
"""C14 - policies are isolated from one another.

(A) translators/policies.py reads, from VERIF_REPO/include as it is now, the template parameters, base classes and
    static data members of every facet, of basic_domain / method_tables, the facet lists of the stock policies and
    the definitions of rebind_facet / rebind / replace / remove  ->  coq/Gen/GenPolicies.v;
(B) Coq (coq/Properties/Properties_C14.v): the location sets computed from those declarations are disjoint for
    different keys (C14_keyed_stock, C14_keyed_all_facets, C14_disjoint, C14_disjoint_general), the frame and
    interleaving theorems of the flat store (C14_frame, C14_interleaving, ...);
(C) harness H1 (tools/c14suite.py): 2-3 driver policies made from one another with rebind / replace / remove and
    sharing class ids, one interleaved history per case; after every operation on one policy all observations of the
    others are re-taken and compared with what they were (the implementation against itself), each error must come
    through the policy's own handler, and every post-update observation is compared with the model.

Decision: (A) or (B) breaks -> (C) with more volume is the search for an operation on p that changes an observation
of q: found -> VIOLATION with the interleaving as replay; none -> VIOLATION ... no-failing-input-found (vlib.finish).
(C) alone finds a change -> VIOLATION too.
"""
import json, os, re, sys, time
sys.path.insert(0, os.path.join(os.path.dirname(os.path.abspath(__file__)), '..', 'tools'))
sys.path.insert(0, os.path.join(os.path.dirname(os.path.abspath(__file__)), '..', 'translators'))
import vlib, corelib, c14suite
import policies as translator

GEN_V = os.path.join(vlib.COQ, 'Gen', 'GenPolicies.v')


def gen_key():
    try:
        m = re.search(r'Definition source_key : string := "([^"]*)"', open(GEN_V).read())
        return m.group(1) if m else None
    except OSError:
        return None


def coq_report(require='Properties.Properties_C14'):
    """from the COMPILED development: source_key, and the locations the model computes for every stock policy"""
    d = os.path.join(vlib.BUILD, 'assume'); os.makedirs(d, exist_ok=True)
    stem = 'K_C14_%d' % os.getpid()
    p = os.path.join(d, stem + '.v')
    open(p, 'w').write('From Coq Require Import String List.\nRequire Y2.%s.\nRequire Import Y2.Gen.GenPolicies Y2.Model.Policies.\n' % require +
                       'Open Scope string_scope.\n'
                       'Goal True. idtac "@@KEY". Abort.\nEval vm_compute in source_key.\n'
                       'Goal True. idtac "@@LOCS". Abort.\n'
                       'Eval vm_compute in map (fun d => (pd_name d, map (fun l => (l_owner l, length (l_args l), l_member l)) (locs_of_policy (policy_of_decl d)))) stock_policy_decls.\n'
                       'Goal True. idtac "@@KEYED". Abort.\n'
                       'Eval vm_compute in (List.app (map (fun d => (f_name d, decl_keyed d)) facet_decls) (List.app (map (fun d => (append "policy " (pd_name d), keyed (policy_of_decl d))) stock_policy_decls) (("basic_policy bases", keyed_bases) :: nil))).\n'
                       'Goal True. idtac "@@END". Abort.\n')
    rc, out = vlib.run(['coqc', '-Q', vlib.COQ, 'Y2', p], timeout=300, cwd=d)
    for f in os.listdir(d):
        if f.startswith(stem) or f.startswith('.' + stem):
            try: os.remove(os.path.join(d, f))
            except OSError: pass
    if rc != 0:
        return None, None, None
    key = re.search(r'@@KEY\s*= "([^"]*)"', out)
    locs = {}
    m = re.search(r'@@LOCS(.*?)@@KEYED', out, re.S)
    if m:
        cur = None
        for pm in re.finditer(r'\(\s*"([^"]+)"\s*,\s*(?:(\d+)\s*,\s*"([^"]+)"\s*\))?', m.group(1)):
            if pm.group(2) is None:
                cur = pm.group(1); locs[cur] = []
            elif cur is not None:
                locs[cur].append('%s<%s argument(s)>::%s' % (pm.group(1), pm.group(2), pm.group(3)))
    keyed = {}
    m = re.search(r'@@KEYED(.*?)@@END', out, re.S)
    if m:
        keyed = {a: b == 'true' for a, b in re.findall(r'\(\s*"([^"]+)"\s*,\s*(true|false)\s*\)', m.group(1))}
    return (key.group(1) if key else None), locs, keyed


def guarded_proof_phase(ctx, want_key):
    """proof_phase, repeated when another check regenerated Gen/GenPolicies.v for another tree meanwhile
    (every check runs every translator; VERIF_REPO may differ between concurrent runs)"""
    rep = (None, {}, {})
    for attempt in range(4):
        ctx.broken, ctx.obligations, ctx.discharged, ctx.axioms = [], [], [], {}
        vlib.proof_phase(ctx)
        if want_key is None:
            return rep
        if gen_key() == want_key:
            if any('Properties_C14' in b or 'PoliciesProofs' in b or 'Model/Policies' in b or 'theorem C14' in b for b in ctx.broken):
                # say WHICH translated declaration the computed obligations reject (the model alone still compiles)
                rep = coq_report('Model.Policies')
                if rep[0] == want_key and rep[2]:
                    bad = sorted(k for k, v in rep[2].items() if not v)
                    if bad:
                        ctx.broken.insert(0, 'static objects that do not follow the policy key (keyed = false): ' + ', '.join(bad))
                return rep
            rep = coq_report()
            if rep[0] == want_key:
                return rep
        vlib.log('C14: Gen/GenPolicies.v belongs to another tree (concurrent run); retrying')
        time.sleep(1.5 * (attempt + 1))
    ctx.broken.append('Gen/GenPolicies.v kept being regenerated for another source tree by concurrent runs')
    return rep


def replay(ctx):
    obj = json.load(open(ctx.replay))
    if vlib.replay_program(obj):
        return
    text = obj.get('replay_case')
    if not text:
        print('replay file has no replay_case (a proof obligation or the translator, not an input): %s' % json.dumps(obj)[:1500]); return
    binp, _ = corelib.h1_binary(); mdl, _ = corelib.model_binary()
    j = c14suite.run_texts(binp, mdl, [text])[0]
    print('--- case (directives: #= act | update | obs)'); print(text)
    print('--- implementation'); [print(l) for l in j['impl']['lines']]
    if j['impl']['crashed']:
        print('--- crashed: ' + j['impl']['stderr'][-1500:])
    print('--- verdict: %d segment(s), %d reached, %d observation(s) compared' % (j['segments'], j['reached'], j['stats']['obs_compared']))
    for f in j['fails']:
        print('FAIL [%s, segment %d] %s' % (f['what'], f['segment'], f['msg']))
    if not j['fails']:
        print('no failure: every observation of a policy equals its previous observation; every error came through its own handler')
    if j['ndiff']:
        print('note: %d update(s) differ from the model' % j['ndiff'])


def report(ctx, res, acc, want_samples=True):
    """apply the decision rule to a suite result; accumulate counts in acc"""
    if not res['build']['h1']:
        ctx.broken.append('harness H1 does not build against /repo: ' + res['build']['h1_log'][-400:]); return
    if not res['build']['model']:
        ctx.broken.append('model driver does not build: ' + res['build']['model_log'][-400:])
    for e in res['cases']:
        acc['cases'] += 1
        acc['hashes'].add(e['hash'])
        if e['nontrivial']: acc['nontrivial'].add(e['hash'])
        for k, v in e['stats'].items(): acc['stats'][k] = acc['stats'].get(k, 0) + v
        acc['segments'] += e['segments']
        if e['fails']:
            acc['failing'] += 1
            if acc['failing'] <= 3:
                f = e['fails'][0]
                short = c14suite.truncate_case(e['text'], f['segment']) if f['segment'] >= 0 else e['text']
                try:
                    binp, _ = corelib.h1_binary()
                    short = c14suite.shrink(binp, e['text'], f)
                except Exception as ex:
                    vlib.log('C14: shrinking failed: %r' % ex)
                ctx.violation('%s (case %s, policies %s)' % (f['msg'], e['name'], '+'.join(e['group'])),
                              {'case': e['name'], 'policies': e['group'], 'how_the_policies_are_made': {p: c14suite.HOW.get(p, '?') for p in e['group']},
                               'failures': [x['msg'] for x in e['fails'][:6]], 'corpus_file': e.get('corpus'),
                               'replay_case': short,
                               'how_to_replay': './check C14 --replay <this file>'})
        if e['ndiff']:
            acc['ndiff'] += 1
            if acc['ndiff'] <= 2 and not e['fails']:
                ctx.broken.append('correspondence: implementation and model differ after an update in the interleaved history %s' % e['name'])
        if want_samples and len(acc['samples']) < 2 and e['nontrivial'] and not e.get('corpus'):
            acc['samples'].append({'policies': e['group'], 'registries': e['mode'], 'interleaving': [l for l in e['text'].split('\n') if l and not l.startswith('#= update')][:70]})
    for k, v in res['dist'].items(): acc['dist'][k] = acc['dist'].get(k, 0) + v
    for k, v in res['groups'].items(): acc['groups'][k] = acc['groups'].get(k, 0) + v
    for k, v in res['modes'].items(): acc['modes'][k] = acc['modes'].get(k, 0) + v


def main():
    ctx = vlib.Ctx('C14')
    if ctx.replay:
        replay(ctx); sys.exit(0)
    # (A) what the translator reads now
    tdata = None; terr = None
    try:
        tdata = translator.extract(vlib.REPO)
    except translator.Anchor as e:
        terr = str(e)
    except Exception as e:               # the reader itself failed on this source text
        terr = 'reader failed: %r' % e
    key, locs, keyed = guarded_proof_phase(ctx, tdata['source_key'] if tdata else None)
    # where the registration objects put their records (this policy's catalogs, this method's specs) and what they hold,
    # as translated from core.hpp / detail.hpp on this run (Gen/GenReg.v)
    vlib.proof_phase_extra(ctx, 'Properties_reg_source')
    if terr and not any('policies.py' in b for b in ctx.broken):
        ctx.broken.append('translator policies.py: ' + terr)
    proof_broken = list(ctx.broken)
    # (C) interleaved histories on H1
    acc = {'cases': 0, 'hashes': set(), 'nontrivial': set(), 'stats': {}, 'segments': 0, 'failing': 0, 'ndiff': 0, 'samples': [],
           'dist': {}, 'groups': {}, 'modes': {}}
    t0 = time.time()
    res = c14suite.suite(ctx.tier, ctx.seed)
    report(ctx, res, acc)
    searched = 0
    if ctx.broken and not ctx.violations and res['build']['h1']:
        # an obligation no longer checks: search harder for an operation on p that changes an observation of q
        rounds = 4 if ctx.tier == 'quick' else 10
        for r in range(1, rounds + 1):
            saved = list(ctx.broken)
            res2 = c14suite.suite(ctx.tier, ctx.seed, ncases=150 if ctx.tier == 'quick' else 600, salt=r)
            report(ctx, res2, acc, want_samples=False)
            ctx.broken = saved
            searched += len(res2['cases'])
            if ctx.violations:
                break
    # (D) the registration glue: the same classes, method keys and definition functions registered in several policies through
    # the public front end (method<>::add_function, use_classes), interleaved (checks/C14_glue.py)
    import C14_glue
    glue = C14_glue.run(ctx, lambda summary, rep: ctx.violation(summary, rep))
    cov = {
        'registration_glue_programs (same classes / keys / definition functions in several policies; checks/C14_glue.py)': glue,
        'evaluations': acc['cases'], 'distinct_nontrivial': len(acc['nontrivial']), 'distinct': len(acc['hashes']),
        'rule': 'one evaluation = one interleaved history run on harness H1 over 2-3 driver policies made from one another by rebind / replace / remove '
                '(groups in policy_groups), each with its own registry from tools/corelib.gen_registry over the SAME class ids (same registry, same classes '
                'with other methods, or independent registries: registries), ops drawn at random per step (input_distribution) + corpus/C14; distinct by sha1 of the '
                'case text; non-trivial = at least one observation of a policy was re-taken after an operation on another policy and compared',
        'samples': acc['samples'],
        'input_distribution': acc['dist'], 'policy_groups': acc['groups'], 'registries': acc['modes'],
        'observations_retaken_and_compared': acc['stats'].get('obs_compared', 0),
        'observation_lines_compared': acc['stats'].get('obs_lines_compared', 0),
        'observation_segments': acc['stats'].get('obs_segments', 0),
        'updates_compared_with_model': acc['stats'].get('updates', 0),
        'legal_tuples_checked_after_updates': acc['stats'].get('tuples', 0),
        'error_lines_checked_against_own_handler': acc['stats'].get('handler_lines', 0),
        'interleavings_failing': acc['failing'], 'interleavings_with_model_impl_difference': acc['ndiff'],
        'search_evaluations': searched, 'suite_wall_s': round(time.time() - t0, 1),
        'translator_error': terr,
        'translated_facets': ({f['name'] + ('<' + ', '.join(p['name'] or '_' for p in f['params']) + '>' if f['params'] else ''):
                               {'statics': f['statics'], 'address_only_local_statics': f['addr_only'], 'policy_param': f['policy_param'],
                                'bases': [json.dumps(b) for b in f['bases']], 'keyed': (keyed or {}).get(f['name'])}
                               for f in tdata['facets']} if tdata else None),
        'translated_stock_policies': ({s['name']: {'key': s['key'], 'derived_from': s['derived_from'],
                                                   'facets': [json.dumps(a) for a in s['facets']]} for s in tdata['stock']} if tdata else None),
        'policy_algebra_shapes_checked': tdata['shapes'] if tdata else None,
        'locations_per_stock_policy': locs, 'source_key': key,
        'proof_obligations_broken_before_search': proof_broken,
    }
    vlib.finish(ctx, cov, assumptions=[
        'C++ gives every distinct template argument list its own static data members and a non-template class one set: this is what Model/Policies.locs_of_inst encodes (trusted)',
        'translators/policies.py reads the headers with its own tokenizer / class reader in the configuration YOMM2_VERIF, NDEBUG, no _MSC_VER; statics of method<>, class_declaration_aux<>, type_id_list<> are covered by anchored patterns only',
        'the driver policies of harness H1 (chk, chk2 = chk::rebind, vec2 = ::remove<type_hash>, map2 = ::replace<vptr_placement, vptr_map>, vec, hash) are built from the same facet templates as the stock policies; the stock policies themselves cannot take run-time registries',
        'harness H1 keeps one process alive across all cases: persistent policy state leaks from case to case on purpose; every case resets the handlers it uses'])


if __name__ == '__main__':
    main()
