#!/usr/bin/env python3
"""C18 — registration catalogs hold exactly the live registrations, in order.

    ./check C18 [--tier quick|thorough] [--replay replay/C18-n.json]

1. proof phase: coq/Properties/Properties_C18.v (static_list model refines list operations, any
   legal operation history), Print Assumptions, hygiene.
2. list mode: operation sequences (p<k> push, r<k> remove, c clear over a pool of nodes) are run on
   the REAL static_list<Node> (harness/h3/catalog_driver.cpp, ASan+UBSan, BOOST_ASSERT on) and on
   the extracted Coq model (ocaml/catalog_driver.ml); canonical lines are compared (correspondence),
   and the implementation's lines are judged independently against the property computed here in
   Python (oracle: list append / delete / empty; enumeration, size, empty, push precondition,
   unregistered nodes unlinked). The Python list semantics is itself compared with the extracted Coq
   specification (abs_step / remove_case / live_pushes).
   corpus -> exhaustive small scope -> random (biased to remove only/first/last/middle, clear, re-push).
3. object mode: REAL class_declaration / use_classes / method / add_function / definition_info objects
   constructed and destroyed in generated orders (harness/h3/catalog_objects.cpp); the dumps of
   Policy::classes, Policy::methods and method::fn.specs are compared with the list semantics.
"""
import hashlib, json, os, sys, time
from multiprocessing import Pool
sys.path.insert(0, os.path.join(os.path.dirname(os.path.abspath(__file__)), '..', 'tools'))
import vlib

PID = 'C18'
ASAN = {'ASAN_OPTIONS': 'detect_leaks=0:abort_on_error=0', 'UBSAN_OPTIONS': 'print_stacktrace=1'}
OBJ_FLAGS = ['-O1', '-g', '-fsanitize=address,undefined', '-fno-sanitize-recover=all', '-fno-lifetime-dse']
TMP = os.path.join(vlib.BUILD, 'tmp', PID)

# ------------------------------------------------------------------------------------------ list mode: oracle

def case_ops(text):
    return text.split()


def is_legal(toks):
    live = set()
    for t in toks:
        if t == 'c':
            live.clear()
        elif t[0] == 'p':
            n = int(t[1:])
            if n in live:
                return False
            live.add(n)
        else:
            n = int(t[1:])
            if n not in live:
                return False
            live.discard(n)
    return True


def pool_size(toks):
    m = -1
    for t in toks:
        if t != 'c':
            m = max(m, int(t[1:]))
    return m + 1


def abstract_run(toks, stats=None):
    """the property itself: list semantics. Returns per step (head, live list, remove case)."""
    l = []
    removed = set()
    steps = []
    for t in toks:
        ok = '-'
        rc = '-'
        if t == 'c':
            if stats is not None:
                stats['clear_nonempty' if l else 'clear_empty'] += 1
            removed.update(l)
            l = []
        elif t[0] == 'p':
            n = int(t[1:])
            ok = '1'
            if stats is not None:
                stats['push_on_empty' if not l else 'push'] += 1
                if n in removed:
                    stats['repush'] += 1
            l = l + [n]
        else:
            n = int(t[1:])
            i = l.index(n)
            rc = 'only' if len(l) == 1 else 'first' if i == 0 else 'last' if i == len(l) - 1 else 'middle'
            if stats is not None:
                stats['remove_' + rc] += 1
            removed.add(n)
            l = l[:i] + l[i + 1:]
        head = '%s:[%s] n=%d e=%d f=%s ok=%s' % (t, ','.join(map(str, l)), len(l), 0 if l else 1,
                                                 l[0] if l else '-', ok)
        steps.append((head, l, rc))
    return steps


def abstract_line(toks, steps):
    """the line `catalog_model --abs` must print (Coq abs_step / legal / remove_case / live_pushes)"""
    parts = []
    for t, (head, l, rc) in zip(toks, steps):
        parts.append('%s:[%s] n=%d e=%d legal=1 case=%s' % (t, ','.join(map(str, l)), len(l), 0 if l else 1, rc))
    last = steps[-1][1] if steps else []
    return ' '.join(toks) + ' => ' + ';'.join(parts) + ';live=[%s]' % ','.join(map(str, last))


def judge(toks, steps, impl_line):
    """oracle: None when the implementation's line satisfies the property, else (step index, expected, got)"""
    prefix = ' '.join(toks) + ' => '
    if impl_line is None:
        return (-1, 'a line', 'no output (crash)')
    if not impl_line.startswith(prefix):
        return (-1, prefix, impl_line[:200])
    got = impl_line[len(prefix):].split(';')
    pool = pool_size(toks)
    for k, (head, l, rc) in enumerate(steps):
        if k >= len(got):
            return (k, head, '(case ended: %s)' % (got[-1][:120] if got else ''))
        g = got[k]
        if not g.startswith(head + ' L='):
            return (k, head, g[:200])
        links = g[len(head) + 3:].split(',') if pool else []
        if len(links) != pool:
            return (k, '%d link pairs' % pool, g[:200])
        live = set(l)
        for i in range(pool):
            if i not in live and links[i] != '-/-':
                return (k, 'node %d is not registered: prev/next null (so that it can be registered again)' % i,
                        'node %d has prev/next %s after %s' % (i, links[i], g[:160]))
    if len(got) != len(steps):
        return (len(steps), 'end of line', got[len(steps)][:200])
    return None


# ------------------------------------------------------------------------------------------ list mode: generators

def exhaustive_cases(nodes, length):
    """all legal sequences of exactly `length` ops over `nodes` nodes (every legal sequence of
    smaller length is a prefix of one of them and is observed step by step)"""
    out = []

    def rec(seq, live, depth):
        if depth == length:
            out.append(' '.join(seq))
            return
        for n in range(nodes):
            if n in live:
                i = live.index(n)
                rec(seq + ['r%d' % n], live[:i] + live[i + 1:], depth + 1)
            else:
                rec(seq + ['p%d' % n], live + [n], depth + 1)
        rec(seq + ['c'], [], depth + 1)

    rec([], [], 0)
    return out


PROFILES = ['random', 'random', 'churn_small', 'fill_drain', 'fifo', 'lifo', 'clear_heavy']


def random_case(rng):
    profile = rng.choice(PROFILES)
    pool = rng.range(1, 12)
    r = rng.below(10)
    length = rng.range(1, 12) if r < 2 else rng.range(8, 60) if r < 7 else rng.range(60, 200)
    live = []
    recent = []
    toks = []
    clear_den = {'clear_heavy': 6}.get(profile, 40)
    cap = {'churn_small': min(pool, rng.range(1, 3))}.get(profile, pool)
    draining = False
    bias = rng.range(1, 3)          # push with probability bias/(bias+1) while below the cap
    while len(toks) < length:
        if rng.chance(1, clear_den):
            toks.append('c')
            recent = (live + recent)[:6]
            live = []
            continue
        free = [n for n in range(pool) if n not in live]
        if profile in ('fill_drain', 'fifo', 'lifo'):
            if not live:
                draining = False
            elif len(live) >= cap or not free:
                draining = True
            want_push = not draining
            if rng.chance(1, 10):
                want_push = not want_push
        else:
            want_push = rng.chance(bias, bias + 1) if len(live) < cap else False
        if want_push and not free:
            want_push = False
        if not want_push and not live:
            want_push = True
            if not free:
                break
        if want_push:
            cand = [n for n in recent if n in free]
            n = rng.choice(cand) if cand and rng.chance(1, 2) else rng.choice(free)
            toks.append('p%d' % n)
            live.append(n)
        else:
            if profile == 'fifo':
                i = 0
            elif profile == 'lifo':
                i = len(live) - 1
            else:
                k = rng.below(4)
                i = 0 if k == 0 else len(live) - 1 if k == 1 else rng.below(len(live)) if k == 2 else \
                    (rng.range(1, len(live) - 2) if len(live) >= 3 else rng.below(len(live)))
            n = live.pop(i)
            toks.append('r%d' % n)
            recent = ([n] + recent)[:6]
    return ' '.join(toks)


# ------------------------------------------------------------------------------------------ running the drivers

def run_lines(binary, args, casefile, n_expected, env=None):
    """run a driver over a case file; returns (list of n_expected lines with None for lost ones, crashes)
    A driver that dies loses the case it was working on (stdout is flushed per case): that case gets None and
    the run resumes behind it (at most 25 times)."""
    cases = [c for c in open(casefile).read().split('\n') if c.strip() and not c.startswith('#')]
    assert len(cases) == n_expected, (len(cases), n_expected)
    lines = []
    crashes = []
    start = 0
    attempt = 0
    while start < len(cases):
        if attempt == 0:
            f = casefile
        else:
            f = casefile + '.resume%d' % attempt
            with open(f, 'w') as fh:
                fh.write('\n'.join(cases[start:]) + '\n')
        rc, out, err = vlib.run2([binary] + args + [f], timeout=3600, env=env)
        got = out.split('\n')
        if got and got[-1] == '':
            got.pop()
        if attempt:
            os.remove(f)
        complete = got[:len(cases) - start]
        if rc == 0 and len(complete) == len(cases) - start:
            lines += complete
            break
        # died: complete lines are those that end before the crash; the last one may be partial
        good = [g for g in complete if ' => ' in g]
        if rc != 0 and len(good) == len(cases) - start:
            good = good[:-1]          # exit status != 0 after the last case: blame the last case
        lines += good
        crashes.append((start + len(good), rc, err))
        lines.append(None)
        start = start + len(good) + 1
        attempt += 1
        if attempt > 25:
            lines += [NOTRUN] * (len(cases) - len(lines))
            break
    crashes = [(i, rc, crash_summary(e)) for (i, rc, e) in crashes]
    return lines, crashes


NOTRUN = '(not run: the driver died too often in this batch)'

NEWSTATS = lambda: {k: 0 for k in ('push', 'push_on_empty', 'repush', 'remove_only', 'remove_first', 'remove_last',
                                   'remove_middle', 'clear_empty', 'clear_nonempty')}


def process_batch(job):
    """worker: run one batch of list-mode cases through implementation, model (concrete and abstract), oracle"""
    name, cases, impl, model = job
    os.makedirs(TMP, exist_ok=True)
    cf = os.path.join(TMP, '%s-%d.cases' % (name, os.getpid()))
    with open(cf, 'w') as fh:
        fh.write('\n'.join(cases) + '\n')
    res = {'name': name, 'n': len(cases), 'stats': NEWSTATS(), 'oracle_fail': [], 'diff': [], 'spec_diff': [],
           'crashes': [], 'hashes': set(), 'ops': 0, 'maxlen': 0, 'pool_hist': {}, 'model_fail': [], 'not_run': 0}
    li, crashes = run_lines(impl, [], cf, len(cases), env=ASAN) if impl else ([None] * len(cases), [])
    lm, mcr = run_lines(model, [], cf, len(cases)) if model else ([None] * len(cases), [])
    la, acr = run_lines(model, ['--abs'], cf, len(cases)) if model else ([None] * len(cases), [])
    os.remove(cf)
    res['crashes'] = [(cases[i], rc, err) for (i, rc, err) in crashes]
    for c, gi, gm, ga in zip(cases, li, lm, la):
        toks = case_ops(c)
        steps = abstract_run(toks, res['stats'])
        res['ops'] += len(toks)
        res['maxlen'] = max(res['maxlen'], len(toks))
        p = pool_size(toks)
        res['pool_hist'][p] = res['pool_hist'].get(p, 0) + 1
        if any(t[0] == 'r' for t in toks):
            res['hashes'].add(hashlib.sha1(c.encode()).digest()[:10])
        if gi == NOTRUN:
            res['not_run'] += 1
            continue
        if impl:
            j = judge(toks, steps, gi)
            if j is not None and len(res['oracle_fail']) < 40:
                res['oracle_fail'].append((c, j))
            elif j is not None:
                res['oracle_fail'].append((None, None))
        if model:
            jm = judge(toks, steps, gm)
            if jm is not None and len(res['model_fail']) < 5:
                res['model_fail'].append((c, jm))
            if ga != abstract_line(toks, steps) and len(res['spec_diff']) < 5:
                res['spec_diff'].append((c, abstract_line(toks, steps)[:300], (ga or 'no output')[:300]))
        if impl and model and gi != gm and len(res['diff']) < 20:
            res['diff'].append((c, first_difference(gi, gm)))
    return res


def crash_summary(err):
    """the informative part of a sanitizer / assert report"""
    lines = (err or '').split('\n')
    for i, l in enumerate(lines):
        if 'ERROR:' in l or 'runtime error' in l or 'Assertion' in l or 'SUMMARY' in l:
            return ' | '.join(x.strip() for x in lines[i:i + 4] if x.strip())[:700]
    return (err or '')[-400:]


def first_difference(a, b):
    if a is None or b is None:
        return {'implementation': a and a[:200], 'model': b and b[:200]}
    sa, sb = a.split(';'), b.split(';')
    for k in range(max(len(sa), len(sb))):
        x = sa[k] if k < len(sa) else '(end)'
        y = sb[k] if k < len(sb) else '(end)'
        if x != y:
            return {'step': k, 'implementation': x[-300:], 'model': y[-300:]}
    return {}


def run_single(binary, args, case, env=None):
    os.makedirs(TMP, exist_ok=True)
    cf = os.path.join(TMP, 'single-%d.case' % os.getpid())
    with open(cf, 'w') as fh:
        fh.write(case + '\n')
    rc, out, err = vlib.run2([binary] + args + [cf], timeout=120, env=env)
    os.remove(cf)
    return rc, out, err


def shrink(cases_fail, impl, legal, fails_batch):
    """drop ops while the case still fails. fails_batch(list of cases) -> list of bool"""
    cur = cases_fail
    while True:
        toks = cur.split()
        cands = []
        for i in range(len(toks)):
            t = toks[:i] + toks[i + 1:]
            if t and legal(t):
                cands.append(' '.join(t))
        nxt = None
        if cands:
            for c, v in zip(cands, fails_batch(cands)):
                if v:
                    nxt = c
                    break
        if nxt is None and len(toks) <= 40:
            # single deletions are exhausted: drop pairs (a registration together with its unregistration)
            pairs = []
            for i in range(len(toks)):
                for j in range(i + 1, len(toks)):
                    t = toks[:i] + toks[i + 1:j] + toks[j + 1:]
                    if t and legal(t):
                        pairs.append(' '.join(t))
            if pairs:
                for c, v in zip(pairs, fails_batch(pairs)):
                    if v:
                        nxt = c
                        break
        if nxt is None:
            return cur
        cur = nxt


def renumber(case):
    ids = {}
    out = []
    for t in case.split():
        if t == 'c':
            out.append(t)
        else:
            n = int(t[1:])
            ids.setdefault(n, len(ids))
            out.append(t[0] + str(ids[n]))
    return ' '.join(out)


def list_fails_batch(impl):
    def f(cands):
        os.makedirs(TMP, exist_ok=True)
        cf = os.path.join(TMP, 'shrink-%d.cases' % os.getpid())
        with open(cf, 'w') as fh:
            fh.write('\n'.join(cands) + '\n')
        lines, _ = run_lines(impl, [], cf, len(cands), env=ASAN)
        os.remove(cf)
        out = []
        for c, g in zip(cands, lines):
            toks = case_ops(c)
            out.append(judge(toks, abstract_run(toks), g) is not None)
        return out
    return f


# ------------------------------------------------------------------------------------------ object mode

CLASS_SLOTS = {'c0': ['K0'], 'c1': ['K1'], 'c2': ['K2'], 'c3': ['K3'], 'c4': ['K4'], 'c5': ['K5'], 'c6': ['K0'],
               'c7': ['K1'], 'u0': ['K0', 'K1', 'K2'], 'u1': ['K3', 'K4', 'K5']}
METHOD_SLOTS = {'m0': 'M0', 'm1': 'M0', 'm2': 'M1', 'm3': 'M2'}
ADD_SLOTS = {'a0': 'K0', 'a1': 'K1', 'a2': 'K2', 'a3': 'K0'}
DEF_SLOTS = ['d%d' % i for i in range(6)]
SLOT_ORDER = ['c%d' % i for i in range(8)] + ['u0', 'u1', 'm0', 'm1', 'm2', 'm3', 'a0', 'a1', 'a2', 'a3'] + DEF_SLOTS


class ObjOracle:
    """list semantics of the three catalogs. Class, method and definition_info objects: construction appends,
    destruction removes. add_function<F> objects (as the library is written, see corpus/C18/demo_add_function.cpp):
    the first construction for a given F appends F's record, which then stays until the process exits; later
    constructions and every destruction of add_function objects change nothing."""

    def __init__(self):
        self.classes = []
        self.methods = []
        self.specs = []           # add_function records stay in it from case to case (one process per batch)
        self.live = set()

    def dump(self):
        cl = ' '.join('%s:%s' % (s, '+'.join(sorted(CLASS_SLOTS[s]))) for s in self.classes)
        ncl = sum(len(CLASS_SLOTS[s]) for s in self.classes)
        me = ' '.join(['fn:M0', 'fn:M1', 'fn:M2'] + ['%s:%s' % (s, METHOD_SLOTS[s]) for s in self.methods])
        sp = ' '.join(self.specs)
        return 'classes=[%s] n=%d e=%d | methods=[%s] n=%d e=0 | specs=[%s] n=%d e=%d' % (
            cl, ncl, 0 if ncl else 1, me, 3 + len(self.methods), sp, len(self.specs), 0 if self.specs else 1)

    def apply(self, tok):
        s = tok[1:]
        if tok[0] == '+':
            self.live.add(s)
            if s in CLASS_SLOTS:
                self.classes.append(s)
            elif s in METHOD_SLOTS:
                self.methods.append(s)
            elif s in ADD_SLOTS:
                e = 'a:' + ADD_SLOTS[s]
                if e not in self.specs:
                    self.specs.append(e)
            else:
                self.specs.append(s)
        else:
            self.live.discard(s)
            if s in CLASS_SLOTS:
                self.classes.remove(s)
            elif s in METHOD_SLOTS:
                self.methods.remove(s)
            elif s in ADD_SLOTS:
                pass
            else:
                self.specs.remove(s)

    def line(self, toks):
        parts = []
        for t in toks:
            self.apply(t)
            parts.append(t + ': ' + self.dump())
        for s in SLOT_ORDER:
            if s in self.live:
                self.apply('-' + s)
        return ' '.join(toks) + ' => ' + ';'.join(parts) + ';end: ' + self.dump()


def obj_legal(toks):
    live = set()
    for t in toks:
        if len(t) < 3 or t[0] not in '+-' or t[1:] not in SLOT_ORDER:
            return False
        if t[0] == '+':
            if t[1:] in live:
                return False
            live.add(t[1:])
        else:
            if t[1:] not in live:
                return False
            live.discard(t[1:])
    return True


def obj_random_case(rng):
    fam = rng.choice(['classes', 'classes', 'methods', 'specs', 'specs', 'all'])
    menu = {'classes': list(CLASS_SLOTS), 'methods': list(METHOD_SLOTS), 'specs': list(ADD_SLOTS) + DEF_SLOTS,
            'all': SLOT_ORDER}[fam]
    length = rng.range(1, 40)
    live = []
    toks = []
    for _ in range(length):
        free = [s for s in menu if s not in live]
        push = rng.chance(3, 5) if free and live else bool(free)
        if push:
            s = rng.choice(free)
            live.append(s)
            toks.append('+' + s)
        else:
            k = rng.below(3)
            i = 0 if k == 0 else len(live) - 1 if k == 1 else rng.below(len(live))
            toks.append('-' + live.pop(i))
    return ' '.join(toks)


def run_objects(binary, cases, tag=''):
    """one process for the whole batch (add_function records persist across cases, the oracle follows them);
    returns list of (case, expected, got) failures, exit-line verdict, crashes"""
    os.makedirs(TMP, exist_ok=True)
    cf = os.path.join(TMP, 'objects-%d%s.cases' % (os.getpid(), tag))
    with open(cf, 'w') as fh:
        fh.write('\n'.join(cases) + '\n')
    rc, out, err = vlib.run2([binary, cf], timeout=1800, env=ASAN)
    os.remove(cf)
    got = out.split('\n')
    if got and got[-1] == '':
        got.pop()
    orc = ObjOracle()
    fails = []
    for k, c in enumerate(cases):
        exp = orc.line(c.split())
        g = got[k] if k < len(got) else None
        if g != exp:
            fails.append((c, exp, g))
            if g is None:
                break
    exit_exp = 'exit: specs=[] n=0 e=1'
    exit_got = got[len(cases)] if len(got) > len(cases) else None
    return fails, (exit_exp, exit_got), (rc, crash_summary(err) if rc else '')


def obj_single_fails(binary):
    def one(ic):
        i, c = ic
        fails, (ee, eg), (rc, err) = run_objects(binary, [c], tag='-%d' % i)
        return bool(fails) or ee != eg or rc != 0

    def f(cands):
        from multiprocessing.dummy import Pool as ThreadPool
        with ThreadPool(min(vlib.NJOBS, 16)) as tp:
            return tp.map(one, list(enumerate(cands)))
    return f


def obj_diff(exp, got):
    if got is None:
        return {'expected': exp[:300], 'got': 'no output (crash)'}
    se, sg = exp.split(';'), got.split(';')
    for k in range(max(len(se), len(sg))):
        x = se[k] if k < len(se) else '(end)'
        y = sg[k] if k < len(sg) else '(end)'
        if x != y:
            return {'step': k, 'expected': x[-300:], 'got': y[-300:]}
    return {}


# ------------------------------------------------------------------------------------------ replay

def replay(ctx, impl, model, objs):
    obj = json.load(open(ctx.replay))
    mode = obj.get('mode')
    case = obj.get('case')
    print('replay %s: %s' % (ctx.replay, obj.get('summary', '')))
    if not case:
        print('this replay file names broken obligations, not an input: %s' % obj.get('broken'))
        sys.exit(1)
    if mode == 'objects':
        fails, (ee, eg), (rc, err) = run_objects(objs, [case])
        orc = ObjOracle()
        exp = orc.line(case.split())
        rcx, out, errx = run_single(objs, [], case, env=ASAN)
        print('case:           %s' % case)
        print('implementation: %s' % out.strip().replace('\n', '\n                '))
        if rcx != 0:
            print('implementation exit status %d: %s' % (rcx, crash_summary(errx)))
        print('model:          (none: the objects are judged by the list semantics directly)')
        print('oracle:         %s\n                %s' % (exp, ee))
        bad = bool(fails) or ee != eg or rc != 0
        print('verdict: %s' % ('property violated' if bad else 'ok'))
        sys.exit(1 if bad else 0)
    toks = case_ops(case)
    if not is_legal(toks):
        print('case is not a legal operation sequence: %s' % case)
        sys.exit(2)
    rc, out, err = run_single(impl, [], case, env=ASAN)
    gi = out.strip() if out.strip() else None
    _, gm, _ = run_single(model, [], case)
    _, ga, _ = run_single(model, ['--abs'], case)
    steps = abstract_run(toks)
    print('case:           %s' % case)
    print('implementation: %s' % (gi if gi else 'no output'))
    if rc != 0:
        print('implementation exit status %d: %s' % (rc, crash_summary(err)))
    print('model:          %s' % gm.strip())
    print('specification:  %s' % ga.strip())
    print('oracle:         %s' % ';'.join(h for h, _, _ in steps) + '  (+ unregistered nodes have null links)')
    j = judge(toks, steps, gi)
    if j is None and rc == 0:
        print('verdict: ok' + ('' if gi == gm.strip() else ' (but implementation and model lines differ)'))
        sys.exit(0 if gi == gm.strip() else 1)
    print('verdict: property violated at step %s: expected %s, got %s' % (j[0] if j else '?', j[1] if j else '', j[2] if j else 'crash'))
    sys.exit(1)


# ------------------------------------------------------------------------------------------ main

def main():
    ctx = vlib.Ctx(PID)
    if not ctx.replay:
        vlib.proof_phase(ctx)
        # the same theorems over the bodies translated from static_list.hpp on this run (Gen/GenStaticList.v)
        vlib.proof_phase_extra(ctx, 'Properties_C18_source')
        # the registration objects' constructors / destructors as translated from core.hpp / detail.hpp (Gen/GenReg.v):
        # object lifetimes -> legal catalog operations -> exactly the live objects
        vlib.proof_phase_extra(ctx, 'Properties_reg_source')
    model, log1 = vlib.ocaml_driver('catalog_model', 'Extract/ExtractCatalog.vo', ['ocaml/catalog_driver.ml'])
    impl, log2 = vlib.build_cpp('h3_catalog', ['harness/h3/catalog_driver.cpp'])
    objs, log3 = vlib.build_cpp('h3_catalog_objects', ['harness/h3/catalog_objects.cpp'], flags=OBJ_FLAGS)
    if ctx.replay:
        if not (model and impl and objs):
            print('drivers do not build:\n%s\n%s\n%s' % (log1[-500:], log2[-500:], log3[-500:]))
            sys.exit(2)
        replay(ctx, impl, model, objs)
    if not model:
        ctx.broken.append('model driver does not build: ' + log1[-300:])
    if not impl:
        ctx.broken.append('harness catalog_driver.cpp does not build against %s: %s' % (vlib.REPO, log2[-600:]))
    if not objs:
        ctx.broken.append('harness catalog_objects.cpp does not build against %s: %s' % (vlib.REPO, log3[-600:]))
    rng = vlib.Rng(ctx.seed)
    t_lists = time.time()

    # ---- list mode: corpus, exhaustive, random
    cdir = os.path.join(vlib.VERIF, 'corpus', PID)
    corpus = []
    for f in sorted(os.listdir(cdir)):
        if f.endswith('.case'):
            for line in open(os.path.join(cdir, f)):
                line = line.strip()
                if line and not line.startswith('#'):
                    corpus.append(' '.join(line.split()))
    bad_corpus = [c for c in corpus if not is_legal(case_ops(c))]
    if bad_corpus:
        ctx.broken.append('corpus case is not a legal sequence: ' + bad_corpus[0])
        corpus = [c for c in corpus if c not in bad_corpus]
    ex_nodes, ex_len = (4, 7) if ctx.thorough else (3, 6)
    n_random = 300000 if ctx.thorough else 3000

    def exhaustive_jobs(nodes, length, tag):
        ex = exhaustive_cases(nodes, length)
        size = 8000
        return len(ex), [('%s%d' % (tag, i), ex[i:i + size], impl, model) for i in range(0, len(ex), size)]

    n_ex, ex_jobs = exhaustive_jobs(ex_nodes, ex_len, 'exhaustive')
    jobs = [('corpus', corpus, impl, model)] + ex_jobs
    bsize = 1000 if ctx.thorough else 500
    seeds = [rng.next() for _ in range(n_random // bsize)]
    samples = []

    def random_job(i):
        r = vlib.Rng(seeds[i])
        return ('random%d' % i, [random_case(r) for _ in range(bsize)], impl, model)

    results = []
    with Pool(min(vlib.NJOBS, 16)) as pool:
        pending = [pool.apply_async(process_batch, (j,)) for j in jobs]
        for i in range(len(seeds)):
            j = random_job(i)
            if i < 2:
                samples += j[1][:2]
            pending.append(pool.apply_async(process_batch, (j,)))
            while len(pending) > 64:
                results.append(pending.pop(0).get())
        results += [p.get() for p in pending]

    stats = NEWSTATS()
    hashes = set()
    n_cases = n_ops = maxlen = not_run = 0
    pool_hist = {}
    oracle_fail = []
    n_oracle_fail = 0
    diffs = []
    crashes = []
    per_source = {}

    def absorb(r):
        nonlocal n_cases, n_ops, maxlen, n_oracle_fail, not_run
        not_run += r['not_run']
        for k, v in r['stats'].items():
            stats[k] += v
        hashes.update(r['hashes'])
        n_cases += r['n']
        n_ops += r['ops']
        maxlen = max(maxlen, r['maxlen'])
        for k, v in r['pool_hist'].items():
            pool_hist[k] = pool_hist.get(k, 0) + v
        src = r['name'].rstrip('0123456789')
        per_source[src] = per_source.get(src, 0) + r['n']
        n_oracle_fail += len(r['oracle_fail'])
        oracle_fail.extend((c, j, src) for (c, j) in r['oracle_fail'] if c is not None)
        diffs.extend(r['diff'])
        crashes.extend(r['crashes'])
        for c, exp, got in r['spec_diff'][:max(0, 3 - sum(1 for b in ctx.broken if b.startswith('specification:')))]:
            ctx.broken.append('specification: the Python list semantics and the extracted Coq abs_step/remove_case/'
                              'live_pushes differ on "%s": %s vs %s' % (c, exp[:200], got[:200]))
        for c, j in r['model_fail'][:max(0, 3 - sum(1 for b in ctx.broken if b.startswith('model:')))]:
            ctx.broken.append('model: the extracted model violates the property on "%s" at step %s: expected %s got %s'
                              % (c, j[0], j[1], j[2]))

    for r in results:
        absorb(r)

    # ---- a broken obligation or correspondence and nothing found yet: search further (bounded)
    searched = None
    if impl and (ctx.broken or diffs) and not oracle_fail and not ctx.thorough:
        n2, jobs2 = exhaustive_jobs(4, 7, 'search')
        with Pool(min(vlib.NJOBS, 16)) as pool:
            for r in pool.map(process_batch, jobs2):
                absorb(r)
        searched = 'all %d legal sequences of length 7 over 4 nodes' % n2

    t_lists = time.time() - t_lists

    # ---- verdicts, list mode
    reported = 0
    if oracle_fail and impl:
        fb = list_fails_batch(impl)
        # shortest failing cases first; report up to three distinct shrunk ones
        seen = set()
        for c, j, src in sorted(oracle_fail, key=lambda x: len(x[0].split()))[:6]:
            toks = case_ops(c)
            k = j[0]
            if k is not None and 0 <= k < len(toks):
                pref = ' '.join(toks[:k + 1])
                if fb([pref])[0]:
                    c = pref
            small = shrink(c, impl, is_legal, fb)
            r2 = renumber(small)
            if r2 != small and fb([r2])[0]:
                small = r2
            if small in seen:
                continue
            seen.add(small)
            toks = case_ops(small)
            rc, out, err = run_single(impl, [], small, env=ASAN)
            steps = abstract_run(toks)
            jj = judge(toks, steps, out.strip() or None)
            if jj is None and rc == 0:
                continue              # not reproducible on its own
            _, gm, _ = run_single(model, [], small) if model else (0, '', '')
            ctx.violation(
                'static_list: after "%s" the catalog is not the list of live registrations (step %s: expected %s; got %s)'
                % (small, jj[0] if jj else '?', jj[1] if jj else '', jj[2] if jj else ''),
                {'mode': 'list', 'case': small, 'found_by': src, 'original_case': c,
                 'expected': ';'.join(h for h, _, _ in steps) + ' (and null links on every unregistered node)',
                 'got': (out.strip() or 'no output') + ((' [exit status %d] ' % rc + crash_summary(err)) if rc else ''),
                 'model': gm.strip(), 'failing_cases_in_this_run': n_oracle_fail,
                 'replay_cmd': './check C18 --replay <this file>'})
            reported += 1
            if reported >= 3:
                break
    if diffs:
        c, d = sorted(diffs, key=lambda x: len(x[0]))[0]
        ctx.broken.append('correspondence: static_list and the Coq model differ on %d case(s), e.g. "%s": %s'
                          % (len(diffs), c if len(c) < 200 else c[:200] + '...', json.dumps(d)[:500]))
    for c, rc, err in crashes[:1]:
        if not oracle_fail:
            ctx.broken.append('harness died (exit %s) on "%s": %s' % (rc, c[:200], err[-300:]))

    # ---- object mode
    t_obj = time.time()
    obj_corpus = []
    for f in sorted(os.listdir(cdir)):
        if f.endswith('.objcase'):
            for line in open(os.path.join(cdir, f)):
                line = line.strip()
                if line and not line.startswith('#'):
                    obj_corpus.append(' '.join(line.split()))
    for c in obj_corpus:
        if not obj_legal(c.split()):
            ctx.broken.append('corpus object case is not legal: ' + c)
    obj_corpus = [c for c in obj_corpus if obj_legal(c.split())]
    n_obj_random = 20000 if ctx.thorough else 400
    orng = vlib.Rng(rng.next())
    obj_batches = [obj_corpus]
    ob = 500
    for i in range(0, n_obj_random, ob):
        obj_batches.append([obj_random_case(orng) for _ in range(min(ob, n_obj_random - i))])
    obj_cases = 0
    obj_ops = {'construct': 0, 'destroy': 0}
    obj_fail = None
    obj_hashes = set()
    if objs:
        for b in obj_batches:
            if not b:
                continue
            fails, (ee, eg), (rc, err) = run_objects(objs, b)
            obj_cases += len(b)
            for c in b:
                for t in c.split():
                    obj_ops['construct' if t[0] == '+' else 'destroy'] += 1
                if '-' in c:
                    obj_hashes.add(hashlib.sha1(c.encode()).digest()[:10])
            if fails or ee != eg or rc != 0:
                obj_fail = (b, fails, ee, eg, rc, err)
                break
    if obj_fail:
        b, fails, ee, eg, rc, err = obj_fail
        single = obj_single_fails(objs)
        if fails:
            c, exp, got = fails[0]
        else:
            c, exp, got = b[-1], ee, eg
        if single([c])[0]:
            small = shrink(c, objs, obj_legal, single)
            f2, (e2, g2), (rc2, err2) = run_objects(objs, [small])
            exp2 = ObjOracle().line(small.split())
            got2 = f2[0][2] if f2 else None
            d = obj_diff(exp2, got2) if f2 else {'expected': e2, 'got': g2 or ('no exit line, exit status %d' % rc2)}
            ctx.violation('registration objects: after "%s" a catalog is not the list of live registrations: %s'
                          % (small, json.dumps(d)[:400]),
                          {'mode': 'objects', 'case': small, 'original_case': c, 'expected': exp2, 'got': got2,
                           'exit_expected': e2, 'exit_got': g2, 'exit_status': rc2, 'stderr': err2[-800:]})
        else:
            ctx.violation('registration objects: a catalog is not the list of live registrations in a batch '
                          '(not reproducible on the single case "%s")' % c,
                          {'mode': 'objects-batch', 'cases': b[:b.index(c) + 1], 'expected': exp, 'got': got,
                           'exit_expected': ee, 'exit_got': eg, 'exit_status': rc, 'stderr': err[-800:]})
    t_obj = time.time() - t_obj

    removes = stats['remove_only'] + stats['remove_first'] + stats['remove_last'] + stats['remove_middle']
    cov = {
        'evaluations': n_cases - not_run + obj_cases,
        'cases_not_run_after_repeated_harness_deaths': not_run,
        'distinct_nontrivial': len(hashes) + len(obj_hashes),
        'rule': 'list mode: corpus/C18/*.case, then ALL legal operation sequences of exactly %d ops over %d nodes '
                '(%d; every legal sequence of <= %d ops is a prefix of one and is observed after each op), then %d random '
                'sequences of 1..200 ops over 1..12 nodes from vlib.Rng(seed) in 7 profiles (uniform, small churn, '
                'fill/drain, fifo, lifo, clear-heavy) choosing remove-first/last/middle/any with equal weight and re-pushing '
                'recently removed nodes; only legal operations (an illegal push trips BOOST_ASSERT, an illegal remove '
                'dereferences null: outside the contract). object mode: %d construct/destroy scripts over 24 real '
                'registration objects. A case is non-trivial when it contains at least one remove / destroy; distinct = '
                'distinct sha1 of the case text.' % (ex_len, ex_nodes, n_ex, ex_len, n_random, obj_cases),
        'samples': corpus[:2] + samples[:3] + [c for c in (obj_batches[1][:2] if len(obj_batches) > 1 else [])],
        'exhaustive_part': {'nodes': ex_nodes, 'length': ex_len, 'cases': n_ex, 'complete': True},
        'input_distribution': {
            'cases_per_source': per_source, 'operations': n_ops, 'longest_case': maxlen,
            'ops': {'push': stats['push'] + stats['push_on_empty'], 'push_on_empty': stats['push_on_empty'],
                    're_push_of_unregistered_node': stats['repush'], 'remove': removes,
                    'clear_nonempty': stats['clear_nonempty'], 'clear_empty': stats['clear_empty']},
            'remove_cases': {k: stats['remove_' + k] for k in ('only', 'first', 'last', 'middle')},
            'pool_size_histogram': {str(k): pool_hist[k] for k in sorted(pool_hist)},
            'object_mode': {'cases': obj_cases, 'corpus_cases': len(obj_corpus), 'ops': obj_ops},
        },
        'comparisons': {'implementation_vs_model_lines': n_cases if (impl and model) else 0,
                        'implementation_vs_oracle_lines': n_cases if impl else 0,
                        'python_semantics_vs_coq_specification_lines': n_cases if model else 0,
                        'model_vs_oracle_lines': n_cases if model else 0,
                        'object_dumps_vs_oracle': obj_cases},
        'oracle_failures': n_oracle_fail, 'correspondence_differences': len(diffs),
        'searched_after_break': searched,
        'seconds': {'list_mode': round(t_lists, 1), 'object_mode': round(t_obj, 1)},
    }
    assumptions = [
        'push_back is only called on nodes with null links and remove only on registered nodes (the BOOST_ASSERT '
        'preconditions); behaviour outside them is not claimed',
        'registration objects have static storage duration (zero-initialised links); the object harness emulates it '
        'with placement new in zeroed storage, compiled with -fno-lifetime-dse (corpus/C18/demo_heap_registration.cpp)',
        'method::add_function objects have no destructor: the definition record lives until its function-local '
        'static is destroyed at exit; the object-mode oracle encodes this behaviour (corpus/C18/demo_add_function.cpp)',
        'the Coq model is tied to static_list.hpp twice: the bodies of push_back / remove / clear / iterators / empty are translated '
        'from the header on every run (translators/staticlist.py -> Gen/GenStaticList.v) and proved equal to the model '
        '(Properties_C18_source.v; trusted: the parser/lowering and the semantics Model/MiniPtr.v gives the pointer subset), '
        'and the real static_list and registration objects are run against the extracted model on the cases counted here',
    ]
    vlib.finish(ctx, cov, assumptions=assumptions)


if __name__ == '__main__':
    main()
