#!/usr/bin/env python3
import os, sys
sys.path.insert(0, os.path.dirname(os.path.abspath(__file__)))
import _core_check
from _core_check import vlib, coresuite
ctx = vlib.Ctx('C07')
if ctx.replay:
    _core_check.replay(ctx); sys.exit(0)
vlib.proof_phase(ctx)
_core_check.source_pub(ctx)
_core_check.source_def(ctx)      # a second update finds the deferred ids resolved and touches nothing (Properties_def_source)
_core_check.source_phase(ctx)    # a fresh compiler per update; the phases in the model's order (Properties_phase_source)
_core_check.source_gv(ctx)       # dispatch_data is resized, not cleared: what an update does not write is stale (Properties_gv_source)
_core_check.source_tab(ctx)      # "assigning next" runs in every update (Properties_tab_source: C03_source_next)
_core_check.source_update(ctx)   # every stage computes its component of compile_with stale R from R and `stale` alone (Properties_update_source)
res = coresuite.history_suite(ctx.tier, ctx.seed)
cov = coresuite.summarize_groups(ctx, res, 'updates of load/unload histories')
# the registration objects themselves (class_declaration / use_classes constructed and destroyed across updates), which H1
# bypasses: checks/C07_glue.py
import C07_glue
cov['registration_object_histories (real class registration objects constructed / destroyed between updates, every legal call after every update against the answers of a fresh process; checks/C07_glue.py)'] = \
    C07_glue.run(ctx, lambda summary, rep: ctx.violation(summary, rep))
vlib.finish(ctx, cov, assumptions=['harness H1 keeps one process alive across all cases: the policies\' persistent state (dispatch_data, v-table pointer vectors, hash parameters, static v-table pointers of removed classes) leaks from case to case on purpose'])
