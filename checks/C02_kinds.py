#!/usr/bin/env python3
"""C02, every parameter kind: an unresolvable call is reported to the policy's error handler with a resolution_error whose
status tells "no applicable definition" (1) from "ambiguous" (2), whose arity is the number of virtual parameters and
whose type ids are the dynamic classes of exactly the virtual arguments, in order - whatever the way each virtual
parameter is declared (virtual_<T&>, virtual_<T&&>, virtual_<T*>, virtual_<shared_ptr<T>>, virtual_<const shared_ptr<T>&>,
virtual_ptr<T>, virtual_shared_ptr<T>, const virtual_shared_ptr<T>&, and const virtual_ptr<T>& for a method without
definitions) and wherever non-virtual parameters stand (before / between / after).

A module for checks/C02.py (no side effects at import):

    import C02_kinds
    cov = C02_kinds.run(ctx)      # ctx: the vlib.Ctx of C02; failures go through ctx.violation(...) with a replay
                                  # (scenario JSON + generated source); returns coverage counts
    C02_kinds.replay(ctx, obj)    # obj: a replay written by run() (has 'scenario' with kind 'c02_kinds')

Programs: harness/h2/gen_c11.py make_error_scenario (the generator of C11, which has every parameter kind): generated
C++17 programs using the public front-end, a handler installed with set_error_handler that throws the
resolution_error it receives (half of the programs instead use a policy with policy::throw_error), and for each method a
few calls whose dynamic class tuple has no applicable definition or is ambiguous. Each call prints status, arity and,
for every reported type id, the NAME of the scenario class whose &typeid equals it ('?' when none does).
Oracle: the property itself; the expected status comes from the library's own ordering rule (compiler.hpp
is_more_specific) re-implemented in gen_c11.classify; no Coq model is involved here (C02's theorems live with C02.py).

Stand-alone (development): python3 checks/C02_kinds.py [--tier quick|thorough]      (writes no evidence file)
"""
import concurrent.futures, json, os, shutil, sys
sys.path.insert(0, os.path.dirname(os.path.abspath(__file__)))
sys.path.insert(0, os.path.join(os.path.dirname(os.path.abspath(__file__)), '..', 'tools'))
sys.path.insert(0, os.path.join(os.path.dirname(os.path.abspath(__file__)), '..', 'harness', 'h2'))
import vlib
import gen_c11 as G
import C11 as base

SHAPES = ['diamond', 'second_base', 'levels', 'virtual_second', 'single', 'diamond_offset', 'virtual_base', 'mixed_virtual']


def scenarios(ctx, rng):
    n = 24 if ctx.thorough else 4
    off = rng.below(len(SHAPES))
    out = []
    for i in range(n):
        shape = SHAPES[(i + off) % len(SHAPES)] if i else 'diamond'     # always one shape with multiple inheritance
        scn = G.make_error_scenario(rng, 'c02k_s%d_%d_%s' % (ctx.seed, i, shape), shape, G.SHAPES[shape],
                                    policy='throw' if i % 2 else 'default', sanitize=(i % 2 == 0), ndebug=(i % 4 == 2),
                                    registration='macro' if i % 3 else 'template')
        if i % 2 == 1:
            scn['flags']['const_pointee'] = True     # const-qualified pointees: the reported type ids must not change
            scn['name'] += '_const'
        out.append(scn)
    return out


def judge(scn, out):
    """-> list of (call, expected, observed lines, failures)"""
    exps = G.error_expectations(scn)
    head, calls, complete = base.parse_trace(out)
    res = []
    for c in scn['error_calls']:
        e = exps[c['id']]
        lines = calls.get(c['id'], [])
        fails = []
        if not lines or not lines[-1].startswith('E '):
            fails.append('call did not complete (abort or crash instead of a report to the handler)')
        if any(l.startswith('D ') for l in lines):
            fails.append('a definition ran (%s) although the call is %s' % ([l for l in lines if l.startswith('D ')][0][2:], c['status']))
        errs = [l for l in lines if l.startswith('ERR')]
        if len(errs) != 1:
            fails.append('%d error reports' % len(errs))
        elif not errs[0].startswith('ERR status='):
            fails.append('the handler did not receive a resolution_error (%s)' % errs[0])
        else:
            f = base.fields(errs[0])
            if f.get('status') != str(e['status']):
                fails.append('status %s, expected %d (%s)' % (f.get('status'), e['status'], c['status']))
            if f.get('arity') != str(e['arity']):
                fails.append('arity %s, the method has %d virtual parameter(s)' % (f.get('arity'), e['arity']))
            got = f.get('types', '').split(',') if f.get('types') else []
            if got != e['types']:
                wrong = [i for i in range(max(len(got), len(e['types']))) if i >= len(got) or i >= len(e['types']) or got[i] != e['types'][i]]
                fails.append('types [%s], the dynamic classes of the virtual arguments are [%s] (wrong at virtual position(s) %s, declared as %s)'
                             % (','.join(got), ','.join(e['types']), wrong, [e['kinds'][i] for i in wrong if i < len(e['kinds'])]))
        res.append((c, e, lines, fails))
    return res, complete


def check_scenario(ctx, scn, inc_hash, stats, compiler='g++', verbose=False):
    text = G.emit_cpp(scn)
    binp, log, d = base.build_program(scn, text, inc_hash, compiler)
    replay = {'scenario': scn, 'source': os.path.join(d, 'prog.cpp'), 'compiler': compiler, 'repo': vlib.REPO, 'module': 'C02_kinds'}
    stats['programs'] += 1
    if binp is None:
        errs = [l for l in log.split('\n') if 'error' in l][:5]
        report(ctx, 'C02 kinds: program does not compile (%s): %s' % (scn['name'], ' | '.join(errs)[:500]),
               dict(replay, compile_log_tail=log[-3000:]), stats)
        return
    rc, out, err = base.run_program(binp)
    if verbose:
        print('--- implementation (%s, exit %d)\n%s' % (binp, rc, out))
        if rc:
            print('--- stderr (tail)\n' + err[-1500:])
    res, complete = judge(scn, out)
    nbad = 0
    for c, e, lines, fails in res:
        stats['error_calls'] += 1
        stats['by_status'][c['status']] = stats['by_status'].get(c['status'], 0) + 1
        for k, pos in zip(e['kinds'], e['positions']):
            key = '%s|%s|%s|%s' % (k, pos, c['status'], scn['flags'].get('policy'))
            stats['dist'][key] = stats['dist'].get(key, 0) + 1
        stats['signatures'].add(e['signature'])
        stats['distinct'].add(json.dumps([scn['classes'], e['signature'], e['kinds'], e['types'], e['status'], scn['flags'].get('policy')]))
        if not lines and not complete:
            continue
        if fails:
            nbad += 1
            if nbad <= 3:
                report(ctx, 'C02 kinds: %s call %d (m%d %s, %s, kinds %s): %s' % (scn['name'], c['id'], c['method'], e['signature'],
                                                                                 c['status'], ','.join(e['kinds']), '; '.join(fails)[:700]),
                       dict(replay, call=c, expected={'status': e['status'], 'arity': e['arity'], 'types': e['types']}, got=lines), stats)
    if rc != 0 or not complete:
        why = [l for l in err.split('\n') if 'ERROR' in l or 'runtime error' in l or 'terminate' in l or 'what()' in l]
        report(ctx, 'C02 kinds: %s: program exits %d before the end (%s)' % (scn['name'], rc, (why or [err.strip()[:200]])[0][:300]),
               dict(replay, stdout_tail=out[-1500:], stderr_tail=err[-3000:]), stats)
    if len(stats['samples']) < 2 and res:
        c, e, lines, fails = res[len(res) // 2]
        stats['samples'].append({'scenario': scn['name'], 'method': [m for m in scn['methods'] if m['id'] == c['method']][0], 'call': c,
                                 'expected': {'status': e['status'], 'arity': e['arity'], 'types': e['types']}, 'observed': lines})


def report(ctx, summary, replay, stats):
    stats['violations'] += 1
    if stats['violations'] > 8:
        return
    src = replay.get('source')
    ctx.violation(summary, replay)
    try:
        if src and os.path.exists(src) and ctx.violations:
            shutil.copy(src, ctx.violations[-1][0].replace('.json', '.cpp'))
    except OSError:
        pass


def new_stats():
    return {'programs': 0, 'error_calls': 0, 'violations': 0, 'by_status': {}, 'dist': {}, 'signatures': set(), 'distinct': set(), 'samples': []}


def coverage(stats):
    return {'programs': stats['programs'], 'error_calls': stats['error_calls'], 'distinct_error_calls': len(stats['distinct']),
            'by_status': stats['by_status'], 'signatures': sorted(stats['signatures']),
            'kinds_seen': sorted(set(k.split('|')[0] for k in stats['dist'])),
            'distribution (kind|position|status|policy)': dict(sorted(stats['dist'].items())),
            'violations': stats['violations'], 'samples': stats['samples']}


def run(ctx, rng=None):
    """generate the programs of this run, judge them; violations through ctx.violation; returns coverage counts"""
    rng = rng or vlib.Rng(ctx.seed * 7919 + 2)
    inc_hash = vlib.tree_hash([os.path.join(vlib.REPO, 'include')])
    stats = new_stats()
    scns = scenarios(ctx, rng)
    with concurrent.futures.ThreadPoolExecutor(max_workers=base.JOBS) as ex:
        list(ex.map(lambda s: base.build_program(s, G.emit_cpp(s), inc_hash, 'g++'), scns))
    for s in scns:
        check_scenario(ctx, s, inc_hash, stats)
    return coverage(stats)


def replay(ctx, obj):
    scn = obj.get('scenario', obj)
    inc_hash = vlib.tree_hash([os.path.join(vlib.REPO, 'include')])
    stats = new_stats()
    exps = G.error_expectations(scn)
    print('replaying C02 kinds scenario %s (%d unresolvable calls) against %s' % (scn.get('name'), len(scn['error_calls']), vlib.REPO))
    print('--- oracle (what the property demands)')
    for cid in sorted(exps):
        if obj.get('call') is None or obj['call'].get('id') == cid:
            print(json.dumps({'call': cid, **exps[cid]}, sort_keys=True))
    check_scenario(ctx, scn, inc_hash, stats, compiler=obj.get('compiler', 'g++'), verbose=True)
    print('--- verdict: %d violation(s)' % stats['violations'])
    return coverage(stats)


if __name__ == '__main__':
    ctx = vlib.Ctx('C02')
    if ctx.replay:
        ctx._nrep = 2000
        cov = replay(ctx, json.load(open(ctx.replay)))
    else:
        ctx._nrep = 2000      # stand-alone: do not collide with the replays of checks/C02.py
        cov = run(ctx)
    cov.pop('samples', None)
    print(json.dumps(cov, indent=1))
    sys.exit(1 if ctx.violations else 0)
