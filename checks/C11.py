#!/usr/bin/env python3
"""C11 - definitions receive the caller's own arguments, correctly adjusted.

  proof phase   coq/Properties/Properties_C11.v over Model/Subobject.v + Model/Thunk.v
  programs      harness/h2/gen_c11.py scenarios -> C++17 programs compiled against /repo/include as it is now
  model         ocaml/thunk_driver.ml around the extracted model prints the expected trace
  oracle        independent of the model: the property itself judged on the program's own output
                (Python's own subobject computation; addresses named by the language's own conversions;
                 smart pointers, incl. const virtual_shared_ptr<T>&: use_count delta, owner_before equivalence with the
                 caller's pointer, and a copy kept by the definition keeps a fresh object alive after the caller dropped
                 its own pointers - weak_ptr::expired and a constructor/destructor balance, nothing dangling is read)
  checks/C02_kinds.py reuses the builder of this file for the unresolvable calls of property C02.

./check C11 [--tier quick|thorough] [--replay replay/C11-n.json]
"""
import concurrent.futures, hashlib, json, os, re, shutil, subprocess, sys, time
sys.path.insert(0, os.path.join(os.path.dirname(os.path.abspath(__file__)), '..', 'tools'))
sys.path.insert(0, os.path.join(os.path.dirname(os.path.abspath(__file__)), '..', 'harness', 'h2'))
import vlib
import gen_c11 as G

JOBS = max(1, min(8, vlib.NJOBS))
SAN = ['-fsanitize=address,undefined', '-fno-sanitize-recover=all']
CACHE_KEEP = 330     # thorough (244) + the quick programs of a few seeds; about 4-7 MB each


# --------------------------------------------------------------------------- build / run

def flags_for(scn):
    f = ['-std=c++17', '-O0', '-g1', '-D' + vlib.GUARD, '-I', os.path.join(vlib.REPO, 'include'), '-Wno-deprecated-declarations', '-w']
    if scn['flags'].get('ndebug'):
        f.append('-DNDEBUG')
    if scn['flags'].get('sanitize'):
        f += SAN
    return f


def build_program(scn, text, inc_hash, compiler='g++'):
    """-> (binary or None, log, dir). Cached on hash(/repo/include) + program text + flags (failures too)."""
    flags = flags_for(scn)
    key = hashlib.sha1((inc_hash + '\0' + text + '\0' + ' '.join(flags[:4] + flags[6:]) + compiler).encode()).hexdigest()[:24]
    d = vlib.cache_dir('c11-' + key)
    src, binp, failp = os.path.join(d, 'prog.cpp'), os.path.join(d, 'prog'), os.path.join(d, 'FAILED.log')
    os.utime(d, None)
    if os.path.exists(binp):
        return binp, 'cached', d
    if os.path.exists(failp):
        return None, open(failp).read(), d
    with open(src, 'w') as f:
        f.write(text)
    rc, out = vlib.run([compiler] + flags + [src, '-o', binp + '.tmp'], timeout=600)
    if rc != 0 or not os.path.exists(binp + '.tmp'):
        log = out[-6000:]
        with open(failp, 'w') as f:
            f.write(log)
        return None, log, d
    os.rename(binp + '.tmp', binp)
    return binp, 'built', d


def prune_cache():
    root = os.path.join(vlib.BUILD, 'cache')
    ents = [os.path.join(root, e) for e in os.listdir(root) if e.startswith('c11-')]
    ents.sort(key=lambda e: os.path.getmtime(e))
    for e in ents[:-CACHE_KEEP]:
        shutil.rmtree(e, ignore_errors=True)


def run_program(binp):
    env = {'ASAN_OPTIONS': 'detect_leaks=0:abort_on_error=0', 'UBSAN_OPTIONS': 'print_stacktrace=1'}
    rc, out, err = vlib.run2([binp], timeout=120, env=env)
    return rc, out, err


def run_model(mdl, scn, workdir):
    p = os.path.join(workdir, 'model_input.txt')
    with open(p, 'w') as f:
        f.write(G.emit_model_input(scn))
    rc, out, err = vlib.run2([mdl, p], timeout=120)
    return rc, out, err


# --------------------------------------------------------------------------- trace handling

def parse_trace(text):
    """-> (header lines, {callid: [lines]}, complete?)"""
    head, calls, cur, cid = [], {}, None, None
    complete = False
    for line in text.split('\n'):
        line = line.rstrip()
        if not line:
            continue
        if line.startswith('C '):
            cid = int(line.split()[1])
            cur = [line]
            calls[cid] = cur
        elif line == 'END':
            complete = True
            cur = None
        elif cur is not None:
            cur.append(line)
            if line.startswith('E '):
                cur = None
        else:
            head.append(line)
    return head, calls, complete


def fields(line):
    d = {}
    for tok in line.split()[1:]:
        if '=' in tok:
            k, v = tok.split('=', 1)
            d[k] = v
    return d


def oracle_call(exp, lines):
    """Judge one call's observed lines against the property. -> (failures, known_k1 hits)"""
    fails, k1 = [], []
    if not lines or not lines[-1].startswith('E '):
        fails.append('call did not complete (crash, abort or exception): last line %r' % (lines[-1] if lines else None))
    dl = [l for l in lines if l.startswith('D ')]
    if len(dl) != 1:
        fails.append('%d definitions ran' % len(dl))
    elif dl[0].split()[1] != exp['def']:
        # which definition runs is C01's subject; here it only means the rest cannot be judged
        fails.append('definition %s ran, scenario expects %s' % (dl[0].split()[1], exp['def']))
        return fails, k1
    seen_v, seen_n, seen_k = set(), set(), set()
    for l in lines:
        if l.startswith('V '):
            pos = int(l.split()[1])
            f = fields(l)
            e = exp['v'].get(pos)
            seen_v.add(pos)
            if e is None:
                fails.append('unexpected virtual argument line: ' + l)
                continue
            if f.get('obj') != e['obj'] or f.get('path') != e['path']:
                fails.append('virtual argument %d (%s, K%d viewed as K%d): definition received object %s subobject %s, caller passed object %s '
                             'whose K%d view is subobject %s' % (pos, e['kind'], e['B'], e['D'], f.get('obj'), f.get('path'), e['obj'], e['D'], e['path']))
            if e['back_defined'] and f.get('back') != '1':
                fails.append('virtual argument %d: converting the received K%d back to K%d does not give the address the caller passed' % (pos, e['D'], e['B']))
            if e['smart'] and f.get('own') != '1':
                fails.append('virtual argument %d (%s): the received smart pointer does not share ownership with the caller\'s' % (pos, e['kind']))
            if e['smart']:
                # use_count inside the definition is informative only: whether the library hands the definition the caller's own
                # pointer, a moved one or a temporary is not part of the property; shared ownership is judged by `own` (above)
                # and by the kept-copy test (K / L lines)
                try:
                    int(f.get('uc'))
                except (TypeError, ValueError):
                    fails.append('virtual argument %d: no use_count' % pos)
        elif l.startswith('N '):
            pos = int(l.split()[1])
            f = fields(l)
            e = exp['n'].get(pos)
            seen_n.add(pos)
            if e is None:
                fails.append('unexpected non-virtual argument line: ' + l)
                continue
            try:
                val, cp, mv = int(f['val']), int(f['cp']), int(f['mv'])
            except (KeyError, ValueError):
                fails.append('malformed line: ' + l)
                continue
            if val != e['value']:
                fails.append('non-virtual argument %d (%s): value %d received, %d passed' % (pos, e['cat'], val, e['value']))
            if cp != e['allowed_copies']:
                fails.append('non-virtual argument %d (%s, %s): copied %d time(s), %d expected' % (pos, e['cat'], e['expr'], cp, e['allowed_copies']))
            if not e['by_value']:
                if mv != 0:
                    fails.append('non-virtual argument %d (%s): reference argument moved %d time(s)' % (pos, e['cat'], mv))
                if f.get('same') != '1':
                    fails.append('non-virtual argument %d (%s): the definition does not see the caller\'s object' % (pos, e['cat']))
            elif mv > 1:
                # K1 (known_findings.txt): a by-value non-virtual parameter is moved once per forwarding layer instead of at most
                # once.  The finding is identified by the call site (by-value non-virtual parameter) and the failure (more than
                # one move, no copy); how many layers the current tree has (3 through method::fn, 4 through the macros at the
                # pinned tree) is recorded in the evidence, not part of the identity.  A copy is a different violation.
                fwd = mv - e['intrinsic_moves']
                if cp == e['allowed_copies'] and fwd >= 1:
                    k1.append('non-virtual argument %d (%s, %s) through %s: %d moves (%d by the forwarding layers)' % (pos, e['cat'], e['expr'], exp['route'], mv, fwd))
                else:
                    fails.append('non-virtual argument %d (%s, %s) through %s: moved %d time(s)' % (pos, e['cat'], e['expr'], exp['route'], mv))
        elif l.startswith('T ') or l.startswith('X '):
            f = fields(l)
            allowed = sum(e['allowed_copies'] for e in exp['n'].values())
            if f.get('cp') != str(allowed):
                fails.append('%s copy constructions during the call, %d expected (%s)' % (f.get('cp'), allowed, l))
            if f.get('as') != '0':
                fails.append('assignments of tracked arguments during the call: ' + l)
        elif l.startswith('K '):
            pos = int(l.split()[1])
            seen_k.add(pos)
            e = exp['v'].get(pos)
            if e is None or not e.get('keep'):
                fails.append('unexpected line: ' + l)
            elif fields(l).get('kept') != '1':
                fails.append('virtual argument %d (%s): the copy of the smart pointer kept by the definition does not keep the object alive '
                             'once the caller has dropped its own pointers (no shared ownership)' % (pos, e['kind']))
        elif l.startswith('L '):
            f = fields(l)
            want = sum(e['nsub'] for e in exp['v'].values() if e.get('keep'))
            if f.get('alive') != str(want):
                fails.append('%s subobjects alive while the definition\'s kept pointers are the only owners, %d expected' % (f.get('alive'), want))
            if f.get('freed') != '1':
                fails.append('objects not destroyed after the kept pointers were dropped')
        elif l.startswith('R '):
            f = fields(l)
            if f.get('k') != exp['ret']:
                fails.append('return kind: ' + l)
            elif exp['ret'] != 'void':
                if f.get('val') != str(exp['ret_value']):
                    fails.append('return value %s, the definition returned %d' % (f.get('val'), exp['ret_value']))
                if exp['ret'] in ('val', 'moveonly', 'lref') and (f.get('cp') != '0' or f.get('mv') != '0'):
                    fails.append('return value copied/moved: ' + l)
                if exp['ret'] == 'lref' and f.get('same') != '1':
                    fails.append('returned reference does not designate the definition\'s object')
    if dl and not fails:
        if seen_v != set(exp['v']) or seen_n != set(exp['n']):
            fails.append('missing argument lines')
        if not any(l.startswith('R ') for l in lines):
            fails.append('no return line')
        if seen_k != set(pos for pos, e in exp['v'].items() if e.get('keep')):
            fails.append('missing ownership lines')
    return fails, k1


def call_distribution(scn, exps, dist):
    for cid, e in exps.items():
        for pos, v in e['v'].items():
            key = 'V %s|%s|%s|%s' % (v['kind'], v['relation'], v['position'], e['route'])
            dist[key] = dist.get(key, 0) + 1
        for pos, n in e['n'].items():
            key = 'N %s|%s|%s|%s' % (n['cat'], n['expr'], n['position'], e['route'])
            dist[key] = dist.get(key, 0) + 1


def canonical_call(scn, call):
    meth = [m for m in scn['methods'] if m['id'] == call['method']][0]
    d = [x for x in meth['defs'] if x['id'] == call['def']][0]
    return json.dumps({'classes': [(c['id'], c['bases']) for c in scn['classes']], 'route': meth['route'], 'ret': meth['ret'],
                       'params': meth['params'], 'def': d['classes'],
                       'args': [{k: v for k, v in a.items() if k in ('cls', 'path', 'expr')} for a in call['args']]}, sort_keys=True)


# --------------------------------------------------------------------------- scenarios of a run

def load_corpus():
    d = os.path.join(vlib.VERIF, 'corpus', 'C11')
    out = []
    if os.path.isdir(d):
        for f in sorted(os.listdir(d)):
            if f.endswith('.json'):
                s = json.load(open(os.path.join(d, f)))
                s = s.get('scenario', s)
                s['name'] = 'corpus_' + f[:-5]
                out.append(s)
    return out


def generated(ctx, rng):
    out = []
    if ctx.thorough:
        n = 200
        shapes = list(G.SHAPES)
    else:
        n = 14
        shapes = list(G.QUICK_SHAPES)
    si = 0
    for i in range(n):
        if ctx.thorough and i % 3 == 2:
            cl = G.random_hierarchy(rng, rng.range(4, 7))
            shape = 'random'
        else:
            shape = shapes[si % len(shapes)]
            si += 1
            cl = G.SHAPES[shape]
        scn = G.make_scenario(rng, 's%d_%d_%s' % (ctx.seed, i, shape), shape, cl, nmethods=18 if not ctx.thorough else 16,
                              moveonly=(i % 2 == 0), sanitize=(i % 2 == 1), ndebug=(i % 4 >= 2),
                              registration='macro' if i % 3 else 'template')
        if i % 4 == 1:
            # the same program with every virtual parameter, argument and definition parameter const-qualified
            scn['flags']['const_pointee'] = True
            scn['name'] += '_const'
        out.append(scn)
    return out


# --------------------------------------------------------------------------- one scenario

def check_scenario(ctx, scn, mdl, inc_hash, compiler, stats, verbose=False):
    text = G.emit_cpp(scn)
    binp, log, d = build_program(scn, text, inc_hash, compiler)
    exps = G.expectations(scn)
    stats['programs'] += 1
    replay = {'scenario': scn, 'source': os.path.join(d, 'prog.cpp'), 'compiler': compiler, 'repo': vlib.REPO}
    if binp is None:
        errs = [l for l in log.split('\n') if 'error' in l][:6]
        replay.update({'compile_log_tail': log[-3000:]})
        report(ctx, 'program within the quantifier does not compile (%s, %s): %s' % (scn['name'], compiler, ' | '.join(errs)[:600]), replay, stats)
        return
    rc, out, err = run_program(binp)
    mrc, mout, merr = run_model(mdl, scn, d) if mdl else (1, '', 'no model')
    head, calls, complete = parse_trace(out)
    mhead, mcalls, mcomplete = parse_trace(mout)
    if verbose:
        only = verbose.get('id') if isinstance(verbose, dict) else None
        def show(hd, cs, raw):
            if only is None or only not in cs:
                return raw if only is None else '\n'.join(hd) + '\n(call %s not reached)\n' % only + raw[-600:]
            return '\n'.join(hd + cs[only]) + '\n'
        print('--- implementation (%s, exit %d)\n%s' % (binp, rc, show(head, calls, out)))
        if rc != 0:
            print('--- implementation stderr (tail)\n' + err[-1500:])
        print('--- model (extracted from Coq)\n%s' % show(mhead, mcalls, mout))
    nviol = 0
    # objects: number of subobjects found by the constructors == named by the language's conversions
    for l in head:
        if l.startswith('O ') and fields(l).get('ok') != '1':
            report(ctx, 'subobject census differs (%s): %s' % (scn['name'], l), dict(replay, line=l), stats)
            nviol += 1
    for c in scn['calls']:
        cid = c['id']
        lines = calls.get(cid, [])
        stats['calls'] += 1
        if not lines and not complete:
            continue      # the program died earlier; reported below
        fails, k1 = oracle_call(exps[cid], lines)
        for l in lines:
            if l.startswith('N '):
                e = exps[cid]['n'].get(int(l.split()[1]))
                if e and e['by_value']:
                    key = '%s|%s|%s' % (exps[cid]['route'], e['cat'], e['expr'])
                    mv = fields(l).get('mv')
                    stats['moves'].setdefault(key, {})
                    stats['moves'][key][mv] = stats['moves'][key].get(mv, 0) + 1
        for k in k1:
            stats['k1'] += 1
            ctx.violation(k, {}, finding_key='byvalue-moves')
        if fails:
            nviol += 1
            if nviol <= 3:
                report(ctx, '%s call %d (m%d, %s): %s' % (scn['name'], cid, c['method'], exps[cid]['route'], '; '.join(fails)[:900]),
                       dict(replay, call=c, expected=exps[cid], got=lines, model=mcalls.get(cid)), stats)
        h = hashlib.sha1(canonical_call(scn, c).encode()).hexdigest()
        e = exps[cid]
        if any(v['relation'] != 'same' for v in e['v'].values()) or any(n['by_value'] for n in e['n'].values()):
            stats['distinct'].add(h)
    if rc != 0 or not complete:
        done = [cid for cid in calls if calls[cid] and calls[cid][-1].startswith('E ')]
        bad = [c for c in scn['calls'] if c['id'] not in done]
        first = bad[0] if bad else None
        why = [l for l in err.split('\n') if 'ERROR' in l or 'runtime error' in l or 'what()' in l or 'Assertion' in l]
        why = (why or [l for l in err.strip().split('\n') if l.strip()] or [''])[0].strip()
        report(ctx, '%s: program exits %d %s (%s)' % (scn['name'], rc, 'during call %d' % first['id'] if first else 'after the calls', why[:300]),
               dict(replay, call=first, expected=exps.get(first['id']) if first else None, stdout_tail=out[-1500:], stderr_tail=err[-3000:]), stats)
        nviol += 1
    # correspondence with the extracted model
    if mrc != 0 or not mcomplete:
        ctx.broken.append('model driver failed on %s: %s' % (scn['name'], (merr or mout)[-200:]))
    elif nviol == 0:
        # the use_count inside a definition that takes its smart pointer by const reference is not part of the property
        # (the library may pass the caller's own pointer or a temporary that shares ownership): not compared
        def canon(l):
            # not part of the property, hence not compared: use_count inside the definition; HOW MANY times (beyond once) a
            # by-value argument is moved by the forwarding layers (finding K1: any number above one)
            if l.startswith('V '):
                return re.sub(r' uc=-?\d+', ' uc=*', l)
            if l.startswith(('N ', 'T ', 'X ')):
                return re.sub(r' mv=(\d+)', lambda m: ' mv=' + (m.group(1) if int(m.group(1)) <= 1 else 'many'), l)
            return l
        a = [canon(l) for l in out.split('\n') if l.strip()]
        b = [canon(l) for l in mout.split('\n') if l.strip()]
        if a != b:
            diff = [(x, y) for x, y in zip(a, b) if x != y][:3]
            if len(ctx.broken) < 6:
                ctx.broken.append('correspondence: program and model traces differ on %s: %s' % (scn['name'], json.dumps(diff)[:400]))
            stats['model_diffs'] += 1
    call_distribution(scn, exps, stats['dist'])
    stats['shapes'][scn['shape']] = stats['shapes'].get(scn['shape'], 0) + 1
    if len(stats['samples']) < 3 and scn['calls']:
        c = scn['calls'][len(scn['calls']) // 2]
        stats['samples'].append({'scenario': scn['name'], 'classes': scn['classes'], 'call': c, 'expected': exps[c['id']],
                                 'observed': calls.get(c['id'])})


def report(ctx, summary, replay, stats):
    stats['violations'] += 1
    if stats['violations'] > 12:
        if stats['violations'] <= 16:
            vlib.log('  (more, no replay file written) ' + summary[:200])
        return
    src = replay.get('source')
    ctx.violation(summary, replay)
    try:
        if src and os.path.exists(src):
            shutil.copy(src, ctx.violations[-1][0].replace('.json', '.cpp'))
    except OSError:
        pass


# --------------------------------------------------------------------------- main

def main():
    ctx = vlib.Ctx('C11')
    ctx.level = 'other'
    vlib.proof_phase(ctx, extra_targets=['Extract/ExtractThunk.vo'])
    mdl, log1 = vlib.ocaml_driver('thunk_model', 'Extract/ExtractThunk.vo', ['ocaml/thunk_driver.ml'])
    if not mdl:
        ctx.broken.append('model driver does not build: ' + log1[-300:])
    inc_hash = vlib.tree_hash([os.path.join(vlib.REPO, 'include')])
    stats = {'programs': 0, 'built': 0, 'cached': 0, 'failed': 0, 'moves': {}, 'calls': 0, 'k1': 0, 'violations': 0, 'model_diffs': 0, 'distinct': set(),
             'dist': {}, 'shapes': {}, 'samples': []}

    if ctx.replay:
        r = json.load(open(ctx.replay))
        scn = r.get('scenario', r)
        comp = r.get('compiler', 'g++')
        print('replaying scenario %s (%d calls) with %s against %s' % (scn.get('name'), len(scn['calls']), comp, vlib.REPO))
        exps = G.expectations(scn)
        print('--- oracle (what the property demands)')
        for cid in sorted(exps):
            if r.get('call') is None or r['call'].get('id') == cid:
                print(json.dumps({'call': cid, **exps[cid]}, sort_keys=True))
        ctx._nrep = 1000      # do not overwrite the file being replayed
        check_scenario(ctx, scn, mdl, inc_hash, comp, stats, verbose=r.get('call') or True)
        print('--- verdict: %d violation(s) of the property on this scenario' % stats['violations'])
        finish(ctx, stats, 1)
        return

    rng = vlib.Rng(ctx.seed)
    scns = load_corpus() + generated(ctx, rng)
    jobs = [(s, 'g++') for s in scns]
    if ctx.thorough:
        jobs += [(s, 'clang++') for i, s in enumerate(scns) if i % 5 == 0]
    t0 = time.time()
    # compile in parallel (at most 8 at a time), then judge sequentially so that output order is deterministic
    with concurrent.futures.ThreadPoolExecutor(max_workers=JOBS) as ex:
        for binp, log, d in ex.map(lambda j: build_program(j[0], G.emit_cpp(j[0]), inc_hash, j[1]), jobs):
            stats['built' if log == 'built' else ('cached' if log == 'cached' else 'failed')] += 1
    stats['compile_s'] = round(time.time() - t0, 1)
    for s, comp in jobs:
        check_scenario(ctx, s, mdl, inc_hash, comp, stats)
    # conversions between a method's and its definitions' non-virtual parameter / return types (glue; no model)
    import C11_conv
    stats['conversions'] = C11_conv.run(ctx, lambda summary, rep: report(ctx, summary, rep, stats))
    prune_cache()
    finish(ctx, stats, len(jobs))


def finish(ctx, stats, njobs):
    dist = stats['dist']
    kinds = sorted(set(k.split('|')[0][2:] for k in dist if k.startswith('V ')))
    rels = sorted(set(k.split('|')[1] for k in dist if k.startswith('V ')))
    cov = {
        'evaluations': stats['calls'],
        'distinct_nontrivial': len(stats['distinct']),
        'programs': stats['programs'],
        'programs_compiled_this_run': stats['built'],
        'programs_not_compiling': stats['failed'],
        'conversion_programs (method type -> definition type, self-checking; checks/C11_conv.py)': stats.get('conversions'),
        'measured_moves_of_by_value_arguments (route|category|caller expression -> {moves: observations})': stats['moves'],
        'compile_s': stats.get('compile_s', 0),
        'calls': stats['calls'],
        'known_finding_observations': stats['k1'],
        'model_trace_differences': stats['model_diffs'],
        'rule': 'one evaluation = one call of a generated program through the public front-end, judged by the oracle and compared line by '
                'line with the extracted model; distinct = sha1 of (hierarchy, route, signature, definition classes, caller subobjects, '
                'expression categories); non-trivial = some virtual argument needs an adjustment to a class other than the method\'s, or '
                'some non-virtual argument is passed by value',
        'samples': stats['samples'],
        'input_distribution': {
            'shapes': stats['shapes'],
            'virtual kind|relation method->definition class|position|route': {k[2:]: v for k, v in sorted(dist.items()) if k.startswith('V ')},
            'non-virtual category|expression|position|route': {k[2:]: v for k, v in sorted(dist.items()) if k.startswith('N ')},
            'kinds_seen': kinds, 'relations_seen': rels,
        },
        'explanation': 'partial: the theorems of Properties_C11.v are about a hand-written model of the C++ object model (Rossie-Friedman '
                       'subobjects, static_cast, dynamic_cast) and of yomm2\'s argument-conversion templates; what the compiler\'s casts '
                       'compute is trusted and only observed through generated programs (finite sample) whose traces are compared with the '
                       'extracted model and judged by an oracle that does not use the model. By-value non-virtual arguments are moved 3|4 '
                       'times (known finding K1), so the "moved at most once" clause is refuted, not proved.',
    }
    vlib.finish(ctx, cov, assumptions=[
        'g++/clang++ implement static_cast, dynamic_cast, static_pointer_cast, dynamic_pointer_cast and guaranteed copy elision as the standard says',
        'the address -> subobject naming inside the programs uses chains of implicit derived-to-base conversions only',
        'which definition runs is property C01; a scenario whose expected definition does not run is reported but not analysed further',
    ])


if __name__ == '__main__':
    main()
