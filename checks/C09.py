#!/usr/bin/env python3
"""C09 - virtual_ptr dispatches like its pointee, however it was created.

  proof phase   coq/Properties/Properties_C09.v over Model/VirtualPtr.v (Proofs/VirtualPtrProofs.v)
  programs      harness/h2/gen_c09.py scenarios -> C++17 programs compiled against /repo/include as it is now
  model         ocaml/virtualptr_driver.ml around the extracted model prints the expected trace
  oracle        independent of the model: the property itself judged on the program's own output (the call
                through the pointer and the call through a plain reference are printed by the same program;
                identity, ownership; Python's own dispatch computation)

./check C09 [--tier quick|thorough] [--replay replay/C09-n.json]

The helpers of this file (build_program, run_program, judge_scenario ...) are also used by checks/C15_routes.py.
"""
import concurrent.futures, hashlib, json, os, shutil, sys, time
sys.path.insert(0, os.path.join(os.path.dirname(os.path.abspath(__file__)), '..', 'tools'))
sys.path.insert(0, os.path.join(os.path.dirname(os.path.abspath(__file__)), '..', 'harness', 'h2'))
import vlib
import gen_c09 as G

JOBS = max(1, min(8, vlib.NJOBS))
SAN = ['-fsanitize=address,undefined', '-fno-sanitize-recover=all']
CACHE_KEEP = 240      # thorough (about 180) + the quick programs of a few seeds; about 6 MB each


# --------------------------------------------------------------------------- build / run

def flags_for(scn):
    f = ['-std=c++17', '-O0', '-g1', '-D' + vlib.GUARD, '-I', os.path.join(vlib.REPO, 'include'), '-Wno-deprecated-declarations', '-w']
    if scn['flags'].get('ndebug'):
        f.append('-DNDEBUG')
    if scn['flags'].get('sanitize'):
        f += SAN
    return f


def build_program(scn, text, inc_hash, compiler='g++', prefix='c09'):
    """-> (binary or None, log, dir). Cached on hash(/repo/include) + program text + flags (failures too)."""
    flags = flags_for(scn)
    key = hashlib.sha1((inc_hash + '\0' + text + '\0' + ' '.join(flags[:4] + flags[6:]) + compiler).encode()).hexdigest()[:24]
    d = vlib.cache_dir('%s-%s' % (prefix, key))
    src, binp, failp = os.path.join(d, 'prog.cpp'), os.path.join(d, 'prog'), os.path.join(d, 'FAILED.log')
    os.utime(d, None)
    if os.path.exists(binp):
        return binp, 'cached', d
    if os.path.exists(failp):
        return None, open(failp).read(), d
    with open(src, 'w') as f:
        f.write(text)
    rc, out = vlib.run([compiler] + flags + [src, '-o', binp + '.tmp'], timeout=900)
    if rc != 0 or not os.path.exists(binp + '.tmp'):
        log = out[-6000:]
        with open(failp, 'w') as f:
            f.write(log)
        return None, log, d
    os.rename(binp + '.tmp', binp)
    return binp, 'built', d


def prune_cache(prefix='c09', keep=CACHE_KEEP):
    root = os.path.join(vlib.BUILD, 'cache')
    ents = [os.path.join(root, e) for e in os.listdir(root) if e.startswith(prefix + '-')]
    ents.sort(key=lambda e: os.path.getmtime(e))
    for e in ents[:-keep]:
        shutil.rmtree(e, ignore_errors=True)


def run_program(binp):
    env = {'ASAN_OPTIONS': 'detect_leaks=0:abort_on_error=0', 'UBSAN_OPTIONS': 'print_stacktrace=1'}
    return vlib.run2([binp], timeout=120, env=env)


def run_model(mdl, scn, workdir):
    p = os.path.join(workdir, 'model_input.txt')
    with open(p, 'w') as f:
        f.write(G.emit_model_input(scn))
    return vlib.run2([mdl, p], timeout=120)


def fields(line):
    d = {}
    for tok in line.split()[1:]:
        if '=' in tok:
            k, v = tok.split('=', 1)
            d[k] = v
    return d


# --------------------------------------------------------------------------- oracle

def describe(scn, meta):
    op = meta.get('op') or {}
    t = meta['t']
    if t == 'C':
        return 'call of m%d through %s (made by route %s, %d update(s) ago)' % (op['method'], op['ptr'], meta['route'], meta['age'])
    if t == 'P':
        return 'virtual_ptr %s made by route %s from %s as K%d' % (op['name'], op['route'], op['obj'], op['stat'])
    if t == 'I':
        return 'get / * / -> of %s' % op['ptr']
    if t == 'S':
        return '_vptr() of %s after an update' % op['ptr']
    if t == 'X':
        return 'case %s: route %s on %s as %s' % (op['label'], op['route'], op.get('obj'), G.cname(scn, op['stat']))
    return t


def oracle_line(scn, exp, meta, got):
    """judge one line of the program's own output against the property. -> (failure text or None, is_dispatch_only)"""
    t = meta['t']
    if got == exp:
        return None, False
    if got is None:
        if t == 'X':
            return ('%s: expected "%s"; nothing was reported and the program stopped (a virtual_ptr was made and used)'
                    % (describe(scn, meta), ' '.join(exp.split()[3:]))), False
        return 'the program stopped before: %s' % describe(scn, meta), False
    g, e = fields(got), fields(exp)
    if t == 'C' and got.split()[:3] == exp.split()[:3]:
        if g.get('ptr') != g.get('ref'):
            return ('%s: the call through the virtual_ptr ran %s, the same call with a plain reference to the pointee ran %s'
                    % (describe(scn, meta), g.get('ptr'), g.get('ref'))), False
        # same definition through both: the property holds on this call; WHICH definition is C01's subject
        return ('%s: both the pointer and the reference run %s, the documented rule selects %s' % (describe(scn, meta), g.get('ptr'), e.get('ptr'))), True
    if t == 'I' and got.split()[:2] == exp.split()[:2]:
        bad = [k for k in ('get', 'star', 'arrow', 'own') if g.get(k) != e.get(k)]
        names = {'get': 'get() is not the address of the original object', 'star': '&*p is not the address of the original object',
                 'arrow': 'p->field read %s, the object holds %s' % (g.get('arrow'), e.get('arrow')),
                 'own': 'the smart virtual_ptr does not share ownership with the shared_ptr it was made from'}
        return '%s: %s' % (describe(scn, meta), '; '.join(names[k] for k in bad)), False
    if t == 'P' and got.split()[:5] == exp.split()[:5]:
        return '%s: ownership: use_count changed by %s (expected %s), moved-from source null: %s (expected %s)' % (
            describe(scn, meta), g.get('uc'), e.get('uc'), g.get('srcnull', '-'), e.get('srcnull', '-')), False
    if t == 'S' and got.split()[:2] == exp.split()[:2]:
        return '%s: an indirect virtual_ptr made before the update does not designate the class\'s current v-table' % describe(scn, meta), False
    if t == 'X' and got.split()[:3] == exp.split()[:3]:
        return '%s: expected "%s", the program printed "%s"' % (describe(scn, meta), ' '.join(exp.split()[3:]), ' '.join(got.split()[3:])), False
    return '%s: expected line "%s", got "%s"' % (describe(scn, meta), exp, got), False


def case_key(scn, meta):
    """canonical description of one judged case, for counting distinct ones"""
    op = meta.get('op') or {}
    cfg = G.config_of(scn)
    H = G.hier_of(scn['classes'])
    t = meta['t']
    if t == 'C':
        return ('C', cfg, scn['shape'], meta['route'], meta['age'], len([m for m in scn['methods'] if m['id'] == op['method']][0]['roots']))
    if t == 'P':
        return ('P', cfg, scn['shape'], op['route'], op['stat'])
    if t == 'X':
        return ('X', cfg, scn['shape'], op['route'], meta['exp'][0:2], meta.get('hist'))
    return (t, cfg, scn['shape'])


def nontrivial(meta):
    """a lookup, a conversion, a smart pointer, an update in between, or an error is involved"""
    op = meta.get('op') or {}
    t = meta['t']
    if t == 'C':
        return meta['age'] > 0 or meta['route'] != 'exact'
    if t == 'P':
        return op['route'] != 'exact'
    if t == 'X':
        return meta['exp'][0] == 'error'
    return t == 'S'


def judge_scenario(ctx, scn, mdl, inc_hash, compiler, stats, prefix='c09', verbose=False, max_reports=3):
    """build, run, judge one scenario; reports violations through ctx; returns number of oracle failures"""
    text = G.emit_cpp(scn)
    binp, log, d = build_program(scn, text, inc_hash, compiler, prefix)
    expected = G.expected_trace(scn)
    stats['programs'] += 1
    replay = {'scenario': scn, 'source': os.path.join(d, 'prog.cpp'), 'compiler': compiler, 'repo': vlib.REPO}
    if binp is None:
        errs = [l for l in log.split('\n') if 'error' in l][:6]
        report(ctx, 'program within the quantifier does not compile (%s, %s): %s' % (scn['name'], compiler, ' | '.join(errs)[:600]),
               dict(replay, compile_log_tail=log[-3000:]), stats)
        return 1
    rc, out, err = run_program(binp)
    mrc, mout, merr = run_model(mdl, scn, d) if mdl else (1, '', 'no model')
    lines = [l.rstrip() for l in out.split('\n') if l.strip() and not l.startswith('#')]
    info = [l.rstrip() for l in out.split('\n') if l.startswith('#')]
    mlines = [l.rstrip() for l in mout.split('\n') if l.strip()]
    if verbose:
        at = verbose.get('line') if isinstance(verbose, dict) else None
        lo, hi = (max(0, at - 4), at + 2) if at is not None else (0, len(expected))
        def window(ls):
            return '\n'.join('%s %4d  %s' % ('>>' if k == at else '  ', k, ls[k]) for k in range(lo, min(hi, len(ls)))) or '  (no such line: the trace has %d lines)' % len(ls)
        print('--- oracle (what the property demands)%s\n%s' % ('' if at is None else ', around line %d' % at, window([l for l, _ in expected])))
        print('--- implementation (%s, exit %d, %d lines)\n%s' % (binp, rc, len(lines), window(lines)))
        if rc != 0:
            print('--- implementation stderr (tail)\n' + err[-1500:])
        print('--- model (extracted from Coq)\n' + window(mlines))
    nfail, ndisp = 0, 0
    for i, (exp, meta) in enumerate(expected):
        got = lines[i] if i < len(lines) else None
        t = meta['t']
        if t in ('C', 'P', 'I', 'S', 'X'):
            stats['evaluations'] += 1
            stats['by_type'][t] = stats['by_type'].get(t, 0) + 1
            if nontrivial(meta):
                stats['distinct'].add(hashlib.sha1(repr(case_key(scn, meta)).encode()).hexdigest())
            if t == 'C':
                stats['calls'] += 1
                if meta['age'] > 0:
                    stats['old_pointer_calls'] += 1
            dist_add(stats, scn, meta)
        fail, disp_only = oracle_line(scn, exp, meta, got)
        if fail is None:
            continue
        if disp_only:
            ndisp += 1
            if len(ctx.broken) < 6:
                ctx.broken.append('correspondence (C01, not C09): ' + scn['name'] + ': ' + fail[:300])
            continue
        nfail += 1
        if nfail <= max_reports:
            why = ''
            if got is None:
                w = [l for l in err.split('\n') if 'ERROR' in l or 'runtime error' in l or 'what()' in l or 'Assertion' in l or 'unknown class' in l
                     or 'invalid method table' in l or 'SUMMARY' in l]
                why = ' (exit %d: %s)' % (rc, (w or [l for l in err.strip().split('\n') if l.strip()] or [''])[0].strip()[:300])
            report(ctx, '%s [%s %s]: %s%s' % (scn['name'], scn['policy'], 'NDEBUG' if scn['flags'].get('ndebug') else 'debug', fail, why),
                   dict(replay, line=i, op=meta.get('op'), expected=exp, got=got, model=mlines[i] if i < len(mlines) else None,
                        stdout_tail=out[-1200:] if got is None else None, stderr_tail=err[-3000:] if got is None else None), stats)
        if got is None:
            break
    if nfail == 0 and (rc != 0 or len(lines) != len(expected)):
        nfail += 1
        report(ctx, '%s: program exits %d with %d lines, %d expected: %s' % (scn['name'], rc, len(lines), len(expected), err.strip()[-300:]),
               dict(replay, stdout_tail=out[-1500:], stderr_tail=err[-3000:]), stats)
    # correspondence with the extracted model
    if mrc != 0 or not mlines or mlines[-1] != 'END':
        ctx.broken.append('model driver failed on %s: %s' % (scn['name'], (merr or mout)[-200:]))
    else:
        exp_lines = [l for l, _ in expected]
        if mlines != exp_lines:
            diff = [(x, y) for x, y in zip(mlines, exp_lines) if x != y][:2]
            if len(ctx.broken) < 6:
                ctx.broken.append('correspondence: the extracted model and the oracle disagree on %s: %s' % (scn['name'], json.dumps(diff)[:400]))
            stats['model_diffs'] += 1
        elif nfail == 0 and ndisp == 0 and mlines != lines:
            diff = [(x, y) for x, y in zip(lines, mlines) if x != y][:2]
            if len(ctx.broken) < 6:
                ctx.broken.append('correspondence: program and model traces differ on %s: %s' % (scn['name'], json.dumps(diff)[:400]))
            stats['model_diffs'] += 1
        else:
            stats['model_lines_compared'] += len(mlines)
    for l in info:
        f = fields(l)
        key = '%s indirect=%d' % (scn['policy'], G.config_of(scn)[2])
        stats['info_same'].setdefault(key, {'same': 0, 'differs': 0})
        stats['info_same'][key]['same' if f.get('same') == '1' else 'differs'] += 1
    stats['shapes'][scn['shape']] = stats['shapes'].get(scn['shape'], 0) + 1
    pk = '%s%s' % (scn['policy'], '/NDEBUG' if scn['flags'].get('ndebug') else '')
    stats['policies'][pk] = stats['policies'].get(pk, 0) + 1
    if len(stats['samples']) < 3:
        mid = [(l, m) for l, m in expected if m['t'] in ('C', 'X')]
        if mid:
            l, m = mid[len(mid) // 2]
            stats['samples'].append({'scenario': scn['name'], 'policy': scn['policy'], 'config': G.config_of(scn),
                                     'classes': [(c['id'], c['bases'], c.get('since', 1), c.get('registered', True)) for c in scn['classes']],
                                     'case': m.get('op'), 'expected_line': l, 'observed_line': lines[expected.index((l, m))] if expected.index((l, m)) < len(lines) else None})
    return nfail


def dist_add(stats, scn, meta):
    op = meta.get('op') or {}
    t = meta['t']
    cfg = G.config_of(scn)
    pol = 'hash=%s placement=%s indirect=%d' % cfg
    if t == 'P':
        flavour = 'shared' if op['route'].startswith('s_') else 'plain'
        key = '%s|%s|%s|%s' % (op['route'], flavour, pol, scn['shape'])
        stats['dist'][key] = stats['dist'].get(key, 0) + 1
        stats['routes'][op['route']] = stats['routes'].get(op['route'], 0) + 1
    elif t == 'C':
        key = 'call via %s|age=%d|%s' % (meta['route'], meta['age'], pol)
        stats['dist_calls'][key] = stats['dist_calls'].get(key, 0) + 1
    elif t == 'X':
        key = '%s|%s|object class %s|%s' % (op['route'], meta['exp'][1] if meta['exp'][0] == 'error' else 'ok', meta.get('hist'), pol)
        stats['dist'][key] = stats['dist'].get(key, 0) + 1
        stats['histories'][meta.get('hist')] = stats['histories'].get(meta.get('hist'), 0) + 1
        stats['routes'][op['route']] = stats['routes'].get(op['route'], 0) + 1


def report(ctx, summary, replay, stats):
    stats['violations'] += 1
    if stats['violations'] > 12:
        if stats['violations'] <= 16:
            vlib.log('  (more, no replay file written) ' + summary[:200])
        return
    src = replay.get('source')
    ctx.violation(summary, replay)
    try:
        if src and os.path.exists(src):
            shutil.copy(src, ctx.violations[-1][0].replace('.json', '.cpp'))
    except OSError:
        pass


def new_stats():
    return {'programs': 0, 'built': 0, 'cached': 0, 'failed': 0, 'calls': 0, 'evaluations': 0, 'old_pointer_calls': 0, 'violations': 0,
            'model_diffs': 0, 'model_lines_compared': 0, 'distinct': set(), 'dist': {}, 'dist_calls': {}, 'routes': {}, 'shapes': {}, 'policies': {},
            'samples': [], 'by_type': {}, 'info_same': {}, 'histories': {}}


def compile_all(jobs, inc_hash, stats, prefix='c09'):
    t0 = time.time()
    with concurrent.futures.ThreadPoolExecutor(max_workers=JOBS) as ex:
        for binp, log, d in ex.map(lambda j: build_program(j[0], G.emit_cpp(j[0]), inc_hash, j[1], prefix), jobs):
            stats['built' if log == 'built' else ('cached' if log == 'cached' else 'failed')] += 1
    stats['compile_s'] = round(time.time() - t0, 1)


def load_corpus(pid):
    d = os.path.join(vlib.VERIF, 'corpus', pid)
    out = []
    if os.path.isdir(d):
        for f in sorted(os.listdir(d)):
            if f.endswith('.json'):
                s = json.load(open(os.path.join(d, f)))
                s = s.get('scenario', s)
                s['name'] = 'corpus_' + f[:-5]
                out.append(s)
    return out


# --------------------------------------------------------------------------- scenarios of a run

QUICK_PLAN = [('default', 0), ('ind', 0), ('default', 1), ('ind', 1), ('map', 0), ('vec', 0), ('indvec', 0), ('ind', 0), ('default', 0),
              ('indvec', 1), ('map', 1)]


def generated(ctx, rng):
    out = []
    shapes = list(G.QUICK_SHAPES)
    off = rng.below(len(shapes))
    if ctx.thorough:
        plan = [QUICK_PLAN[i % len(QUICK_PLAN)] for i in range(143)]
    else:
        plan = QUICK_PLAN
    for i, (pol, nd) in enumerate(plan):
        shape = shapes[(i * 2 + off + i // len(shapes)) % len(shapes)]
        indirect = G.POLICIES[pol][2]
        scn = G.make_scenario(rng, 's%d_%d_%s_%s' % (ctx.seed, i, pol, shape), shape, pol, ndebug=bool(nd),
                              sanitize=bool(indirect or i % 3 != 2), late_class=(i % 4 != 3), size=2 if i % 2 == 0 else 3,
                              dyn_class=(i % 3 == 1))
        if i % 3 == 0:
            # the same program with every pointee const-qualified: virtual_ptr<const T>, shared_ptr<const T>,
            # make_virtual_shared<const T>, virtual_<const T&> (cv-qualification must be transparent to every route)
            scn['flags']['const_pointee'] = True
            scn['name'] += '_const'
        out.append(scn)
    return out


# --------------------------------------------------------------------------- main

def main():
    ctx = vlib.Ctx('C09')
    vlib.proof_phase(ctx, extra_targets=['Extract/ExtractVirtualPtr.vo'])
    # the constructor from an object and final(), as translated from core.hpp on this run (Gen/GenVptr.v)
    vlib.proof_phase_extra(ctx, 'Properties_C09_source')
    # Policy::dynamic_vptr (what the constructor falls back on) as translated from vptr_vector.hpp / vptr_map.hpp
    vlib.proof_phase_extra(ctx, 'Properties_pub_source')
    mdl, log1 = vlib.ocaml_driver('virtualptr_model', 'Extract/ExtractVirtualPtr.vo', ['ocaml/virtualptr_driver.ml'])
    if not mdl:
        ctx.broken.append('model driver does not build: ' + log1[-300:])
    inc_hash = vlib.tree_hash([os.path.join(vlib.REPO, 'include')])
    stats = new_stats()

    if ctx.replay:
        r = json.load(open(ctx.replay))
        scn = r.get('scenario', r)
        comp = r.get('compiler', 'g++')
        print('replaying scenario %s (%d operations, policy %s) with %s against %s' % (scn.get('name'), len(scn['ops']), scn['policy'], comp, vlib.REPO))
        if r.get('op'):
            print('--- reported operation: %s\n    expected: %s\n    got:      %s' % (json.dumps(r['op']), r.get('expected'), r.get('got')))
        ctx._nrep = 1000      # do not overwrite the file being replayed
        judge_scenario(ctx, scn, mdl, inc_hash, comp, stats, verbose=({'line': r['line']} if (isinstance(r.get('line'), int) and not os.environ.get('VERIF_FULL_TRACE')) else True))
        print('--- verdict: %d violation(s) of the property on this scenario' % stats['violations'])
        finish(ctx, stats)
        return

    rng = vlib.Rng(ctx.seed)
    scns = load_corpus('C09') + generated(ctx, rng)
    jobs = [(s, 'g++') for s in scns]
    if ctx.thorough:
        jobs += [(s, 'clang++') for i, s in enumerate(scns) if i % 5 == 0]
    compile_all(jobs, inc_hash, stats)
    # judge sequentially so that output order is deterministic
    for s, comp in jobs:
        judge_scenario(ctx, s, mdl, inc_hash, comp, stats)
    prune_cache()
    finish(ctx, stats)


def finish(ctx, stats):
    cov = {
        'evaluations': stats['evaluations'],
        'distinct_nontrivial': len(stats['distinct']),
        'programs': stats['programs'],
        'programs_compiled_this_run': stats['built'],
        'programs_not_compiling': stats['failed'],
        'compile_s': stats.get('compile_s', 0),
        'calls': stats['calls'],
        'calls_through_pointers_made_before_an_update': stats['old_pointer_calls'],
        'judged_lines_by_type (P pointer made, I identity, C call ptr vs reference, S same table after update)': stats['by_type'],
        'model_lines_compared': stats['model_lines_compared'],
        'model_trace_differences': stats['model_diffs'],
        'rule': 'one evaluation = one judged line of a generated program: a virtual_ptr made through a route (P), its get/*/->/owner (I), a call made '
                'through it and through a plain reference to its pointee printed side by side (C), its _vptr() against the current table after an '
                'update (S); each is judged by the oracle (the program\'s own reference call, addresses, Python\'s dispatch) and compared with the '
                'extracted model. distinct = sha1 of (line type, policy configuration, hierarchy shape, route, static class | age in updates | arity); '
                'non-trivial = a pointer not made from an object of exactly its static type, a call through such a pointer or through a pointer '
                'made before an update, a same-table check after an update (identity lines are not counted)',
        'samples': stats['samples'],
        'input_distribution': {
            'shapes': stats['shapes'], 'policies': stats['policies'], 'routes': stats['routes'],
            'route|flavour|policy|shape': dict(sorted(stats['dist'].items())),
            'calls: route of the pointer|updates since it was made|policy': dict(sorted(stats['dist_calls'].items())),
            'direct policies, _vptr() of an old pointer vs current table (informational, not judged)': stats['info_same'],
        },
        'not_modelled': 'C++ overload resolution (WHICH virtual_ptr constructor an expression selects) is not modelled in Coq; the routes are '
                        'named by the generator and that choice is covered only by the generated programs (finite sample).',
        'domain_restriction': 'C09_route is stated for supported configurations: vptr_vector with any hash, direct or indirect, and vptr_map '
                              'without checked hash, direct. vptr_map x basic_indirect_vptr (publish_vptrs never fills indirect_vptrs) is not '
                              'a configuration the library offers and is not generated.',
        'explanation': 'the theorems of Properties_C09.v are about a hand-written Gallina model of the v-table pointer variables, the published '
                       'lookup structures and every virtual_ptr construction route; the model is tied to /repo by generated programs (finite '
                       'sample) whose traces are compared with the extracted model and judged by an oracle that does not use the model.',
    }
    # registry-level part (harness H1): in load / unload histories under vector, hashed, map and INDIRECT policies, after every
    # update a virtual_ptr<Obj> is made from a base reference for every live id and compared with the class's static v-table
    # pointer; under the indirect policy the pointers made before the update are checked again after it
    import coresuite
    hres = coresuite.history_suite(ctx.tier, ctx.seed)
    if not hres['build']['h1']:
        ctx.broken.append('harness H1 does not build against /repo: ' + hres['build']['h1_log'][-300:])
    h1_fail = 0; h1_hist = 0
    for e in hres['cases']:
        h1_hist += 1
        msgs = e.get('fails_c09') or ([m for m in e['fails'] if 'crashed' in m] if e['fails'] else [])
        if msgs:
            h1_fail += 1
            if h1_fail <= 2:
                ctx.violation('%s (history %s, policy %s)' % (msgs[0], e['name'], e.get('policy')),
                              {'case': e['name'], 'policy': e.get('policy'), 'failures': msgs, 'history': e.get('history'),
                               'replay_case': ('case %s\nids small\n%s\nend\n' % (e['name'], '\n'.join(e['history']))) if e.get('history') else None})
    cov['h1_histories'] = h1_hist; cov['h1_histories_failing'] = h1_fail; cov['h1_updates_observed'] = hres.get('n', 0)
    vlib.finish(ctx, cov, assumptions=[
        'which constructor / conversion a C++ expression selects is decided by g++/clang++; the model is told the route',
        'a v-table is abstracted to (class, update number); that dispatch_data really moves is forced in the programs by resizing it before update',
        'stale direct virtual_ptrs are never dereferenced in the programs (undefined behaviour); only their _vptr() is compared, informationally',
        'which definition a table row designates is property C01; a call where pointer and reference agree but Python\'s rule differs is '
        'reported as a correspondence problem, not as a C09 violation',
    ])


if __name__ == '__main__':
    main()
