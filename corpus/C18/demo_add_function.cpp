// C18 finding candidate — a destroyed definition registration object stays in the catalog.
//
//   g++ -std=c++17 -I/repo/include corpus/C18/demo_add_function.cpp -o /tmp/demo && /tmp/demo
//
// method<...>::add_function<F> is the object the YOMM2 macros create to register a definition
// (`_yOMM2_method::add_function<...> YOMM2_GENSYM(&next);`). It has a constructor that pushes a
// function-local static definition_info on method::fn.specs, and NO destructor: destroying the
// add_function object leaves the definition registered; the record is only removed when the
// function-local static itself is destroyed (process exit / unloading of the shared object).
// Constructing the object again is a no-op (`if (info.method) return;`), so the definition is
// never duplicated, but it also never moves to the end of the catalog.
// Contrast: class_declaration and method objects unregister in their destructors.
#include <yorel/yomm2/core.hpp>
#include <cstdio>
#include <memory>

using namespace yorel::yomm2;
struct pol : policy::debug::rebind<pol> {};
struct Animal { virtual ~Animal() {} };
struct Dog : Animal {};
struct key;
using kick = method<key, void(virtual_<Animal&>), pol>;
void kick_dog(Dog&) {}
void kick_animal(Animal&) {}

static void show(const char* when) {
    std::printf("%-58s classes=%zu specs=%zu\n", when, pol::classes.size(), kick::fn.specs.size());
}

int main() {
    show("start");
    {
        static class_declaration<Dog, Animal, pol> reg_class;       // static: zero-initialised links
        (void)reg_class;
    }
    auto c = std::make_unique<kick::add_function<kick_dog>>();
    auto d = std::make_unique<kick::add_function<kick_animal>>();
    show("class + two definitions registered");
    c.reset();
    show("add_function<kick_dog> object destroyed");                 // still 2 definitions
    c = std::make_unique<kick::add_function<kick_dog>>();
    show("add_function<kick_dog> object constructed again");         // still 2, order unchanged
    std::printf("first definition in the catalog is still kick_dog: %s\n",
        kick::fn.specs.begin()->vp_begin[0] == pol::static_type<Dog>() ? "yes" : "no");
    return 0;
}
