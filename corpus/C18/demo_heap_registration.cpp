// C18 limitation — registration objects only work with static storage duration.
//
//   g++ -std=c++17 -I/repo/include corpus/C18/demo_heap_registration.cpp -o /tmp/demo && /tmp/demo
//   (add -DNDEBUG to see what happens without the assertion)
//
// static_link() = default and no constructor of class_info / class_declaration_aux / method_info /
// method initialises prev_ptr / next_ptr: push_back relies on the zero-initialisation of static
// objects (its two BOOST_ASSERTs check it). An object with dynamic or automatic storage duration
// has indeterminate links: the assertion fails, or with NDEBUG push_back leaves next_ptr dangling
// and the next iteration over the catalog runs off the list.
#include <yorel/yomm2/core.hpp>
#include <cstdio>
#include <cstring>
#include <new>

using namespace yorel::yomm2;
struct pol : policy::debug::rebind<pol> {};
struct Animal { virtual ~Animal() {} };

int main() {
    using reg = class_declaration<Animal, pol>;
    alignas(reg) static unsigned char storage[sizeof(reg)];
    std::memset(storage, 0xAB, sizeof storage);       // what malloc / the stack may well contain
    std::printf("constructing a class_declaration in non-zero storage\n");
    std::fflush(stdout);
    auto p = new (storage) reg;                       // debug: BOOST_ASSERT(node.prev_ptr == nullptr) fails
    std::printf("constructed; next() of the only registered class = %p (should be null)\n", (void*)p->next());
    std::fflush(stdout);
    std::printf("size = %zu\n", pol::classes.size()); // NDEBUG: follows the dangling next_ptr
    return 0;
}
