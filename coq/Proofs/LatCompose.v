(* LatCompose.v — all of compiler<Policy>::augment_classes, as translated on this run, on every registry whose inheritance
   graph is acyclic and whose listed bases are registered: the seven translated pieces, run one after the other as the C++
   function runs them, build exactly the lattice Model.Compile.augment_classes builds.  The side conditions of the individual
   source theorems (no class lists itself; entries are class indexes; direct_derived has no cycle) are discharged here from the
   facts the lattice proofs establish. *)
From Coq Require Import List Arith NArith Lia Bool Relations.
From Y2 Require Import Model.Registry Model.Compile Spec.Dispatch Proofs.Interfaces Model.MiniLat Gen.GenLat.
From Y2 Require Import Proofs.LatListFacts Proofs.LatClosure Proofs.LatBases Proofs.LatOrder Proofs.LatticeProofs Proofs.LatSource Proofs.CovSource.
Import ListNotations.
Local Open Scope nat_scope.

Theorem src_augment_classes R : acyclic R -> bases_registered R ->
  let keys := class_keys R in
  let n := length keys in
  exists tb0 tb1,
    let L := lattice_from R (map (fun l => dedupn l []) tb1) in
    augment_classes R = Ok L /\
    (exists m, run_collect (proj R) gen_collect (r_classes R) [] [] = Some (m, l_info L)
               /\ forall t, assocN (proj R t) m = class_of R keys t) /\
    run_bases (class_of R keys) gen_bases (r_classes R) (repeat [] n) = Ok tb0 /\
    run_closure (S (n * n)) gen_closure tb0 = Ok tb1 /\
    forall marks W0 cm M loc, length W0 = n -> (length marks = n /\ forall k, nth k marks 0 <= cm) ->
      exists s1 s2 s3,
        mk_exec gen_dedup env0 (mk_mk tb1 (repeat [] n) (repeat [] n) marks W0 cm M loc) = Some s1 /\
        mk_exec gen_direct env0 s1 = Some s2 /\
        mk_exec gen_derived env0 s2 = Some s3 /\
        m_tb s3 = l_tb L /\ m_dir s3 = l_direct L /\ m_der s3 = l_derived L /\
        cv_all (S n) gen_covariant (m_der s3) (seq 0 n) (repeat [] n) = Some (l_cov L).
Proof.
  intros Acy BR keys n.
  destruct (collect_bases_spec R BR) as [tb0 [Hc [Hlen0 H0]]]. fold keys n in Hc, Hlen0.
  assert (W0 : tb_wf (length tb0) tb0).
  { split; [reflexivity|]. intros c b H. apply H0 in H. rewrite Hlen0. apply H. }
  destruct (closure_correct tb0 W0 (ancp_irrefl R tb0 Acy H0)) as [tb1 [Hcl [[Hlen1 Hlt1] H1]]].
  rewrite Hlen0 in Hcl, Hlen1, Hlt1.
  exists tb0, tb1. cbv zeta.
  set (tb2 := map (fun l => dedupn l []) tb1).
  assert (Haug : augment_classes R = Ok (lattice_from R tb2)).
  { unfold augment_classes. cbv zeta. fold keys n. rewrite Hc. cbn [bind]. rewrite Hcl. cbn [bind]. reflexivity. }
  assert (Hok : tb2_ok R tb2).
  { unfold tb2_ok. cbv zeta. fold keys n. split; [unfold tb2; now rewrite map_length|].
    assert (T : forall c, tget tb2 c = dedupn (tget tb1 c) []) by (intro c; now apply (tget_map (fun l => dedupn l []))).
    split.
    - intro c. rewrite T. apply dedupn_NoDup.
    - intros c b. rewrite T, dedupn_In, H1, (ancp_anc R tb0 Acy BR H0). fold keys n. cbn [In]. tauto. }
  split; [exact Haug|].
  destruct (src_lattice_front R) as [Hcoll Hfront]. fold keys n in Hcoll, Hfront.
  split; [exact Hcoll|].
  rewrite Hc in Hfront. destruct (run_bases (class_of R keys) gen_bases (r_classes R) (repeat [] n)) as [tb0'|e] eqn:Erb; [|discriminate].
  destruct Hfront as [E0 Ecl]. inversion E0; subst tb0'. split; [reflexivity|].
  split; [now rewrite Ecl|].
  intros marks W0' cm M loc HW Hmarks.
  destruct (src_lattice_back tb1 n marks W0' cm M loc Hlen1 HW Hmarks) as [s1 [s2 [s3 [E1 [E2 [E3 [T3 [D3 R3]]]]]]]].
  { intros c y Hin. apply (Hlt1 c y). exact Hin. }
  exists s1, s2, s3. split; [exact E1|]. split; [exact E2|]. split; [exact E3|].
  split; [exact T3|]. split; [exact D3|]. split; [exact R3|].
  (* the covariant classes: direct_derived has no cycle, the weight grows along it *)
  rewrite R3. cbn [lattice_from l_cov]. fold keys n. fold tb2.
  destruct Hok as [Hl2 [Hnd2 H2]]. fold keys n in Hl2, H2.
  pose proof (tb2_trans R tb2 Acy (conj Hl2 (conj Hnd2 H2))) as Htr.
  assert (Hlt2 : forall c b, In b (tget tb2 c) -> b < n) by (intros c b H; apply H2 in H; apply H).
  assert (Hirr2 : forall c, ~ In c (tget tb2 c)) by (intros c H; apply H2 in H; destruct H as [_ [_ [Hne _]]]; congruence).
  pose proof (order_facts_hold n tb2 Hl2 Hlt2 Hnd2 Hirr2 Htr) as OF.
  apply (src_covariant (derived_tbl n tb2) n (fun c => n - weight_of tb2 c)).
  - intros c d Hd. apply (of_derived_In n tb2 OF) in Hd. destruct Hd as [_ Hd]. apply (of_direct_sub n tb2 OF) in Hd.
    pose proof (weight_lt n tb2 Hl2 Hnd2 Hirr2 Htr c d Hd) as Hw. pose proof (weight_le_n n tb2 Hlt2 Hnd2 d) as Hle. lia.
  - intros c d Hd. apply (of_derived_In n tb2 OF) in Hd. apply Hd.
  - intro c. lia.
Qed.

(* ... and that lattice is the one `compile_with stale R` installs, for every well-formed registry *)
From Y2 Require Import Proofs.CompileProofs Proofs.CorollaryProofs.

Theorem src_lattice_compile R stale C : wf_registry R -> compile_with stale R = Ok C ->
  let keys := class_keys R in
  let n := length keys in
  exists tb0 tb1,
    let L := o_lat C in
    L = lattice_from R (map (fun l => dedupn l []) tb1) /\
    (exists m, run_collect (proj R) gen_collect (r_classes R) [] [] = Some (m, l_info L)
               /\ forall t, assocN (proj R t) m = class_of R keys t) /\
    run_bases (class_of R keys) gen_bases (r_classes R) (repeat [] n) = Ok tb0 /\
    run_closure (S (n * n)) gen_closure tb0 = Ok tb1 /\
    forall marks W0 cm M loc, length W0 = n -> (length marks = n /\ forall k, nth k marks 0 <= cm) ->
      exists s1 s2 s3,
        mk_exec gen_dedup env0 (mk_mk tb1 (repeat [] n) (repeat [] n) marks W0 cm M loc) = Some s1 /\
        mk_exec gen_direct env0 s1 = Some s2 /\
        mk_exec gen_derived env0 s2 = Some s3 /\
        m_tb s3 = l_tb L /\ m_dir s3 = l_direct L /\ m_der s3 = l_derived L /\
        cv_all (S n) gen_covariant (m_der s3) (seq 0 n) (repeat [] n) = Some (l_cov L).
Proof.
  intros Hwf HC keys n.
  destruct (compile_char R stale Hwf) as [L [ms [HL [_ [HC' _]]]]].
  rewrite HC in HC'. inversion HC' as [EC]. clear HC'.
  destruct Hwf as [Hacy [Hbr _]].
  destruct (src_augment_classes R Hacy Hbr) as [tb0 [tb1 H]]. cbv zeta in H. destruct H as [Haug Hrest].
  exists tb0, tb1. cbv zeta. rewrite install_lat.
  rewrite HL in Haug. injection Haug as EL. split; [exact EL|]. fold keys n in Hrest. rewrite EL. exact Hrest.
Qed.
