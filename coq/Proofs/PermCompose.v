(* PermCompose.v — registration-order independence of what update installs (C06), from the end-to-end theorem
   and the order independence of the specification. *)
From Y2 Require Import Model.Registry Model.Compile Spec.Dispatch.
From Y2 Require Import Proofs.Interfaces Proofs.ResolveProofs Proofs.CompileProofs Proofs.CorollaryProofs Proofs.SpecProofs.
From Coq Require Import Permutation Lia.
Local Open Scope nat_scope.

Lemma Forall2_mono {A B} (P Q : A -> B -> Prop) l l' : (forall a b, P a b -> Q a b) -> Forall2 P l l' -> Forall2 Q l l'.
Proof. intros H F. induction F; constructor; auto. Qed.

(* R' holds the same class registrations in another order; method m' of R' (at any position mi') is method m of R
   (at position mi) with its definitions in another order sigma (position in R' -> position in R). *)
Theorem dispatch_order_independent R R' C C' mi mi' m m' sigma args :
  wf_registry R -> wf_registry R' -> compile R = Ok C -> compile R' = Ok C' ->
  Permutation (r_classes R) (r_classes R') -> r_alias R = r_alias R' ->
  nth_error (r_methods R) mi = Some m -> nth_error (r_methods R') mi' = Some m' ->
  meth_vp R' m' = meth_vp R m -> m_shape m' = m_shape m ->
  meth_defs R' m' = permute_defs (meth_defs R m) sigma -> Permutation sigma (seq 0 (length (meth_defs R m))) ->
  legal R m args ->
  exists cs cs' o o',
    map (key (o_lat C)) cs = args /\ map (key (o_lat C')) cs' = args /\
    resolve C mi (actuals_of C (m_shape m) cs) = Ok (word_of_outcome mi o) /\
    resolve C' mi' (actuals_of C' (m_shape m') cs') = Ok (word_of_outcome mi' o') /\
    o = map_outcome (fun i' => nth i' sigma 0) o'.
Proof.
  intros Hwf Hwf' HC HC' Hperm Hal Hm Hm' Evp Esh Edefs Hsig Hlegal.
  assert (Hlegal' : legal R' m' args).
  { unfold legal in *. rewrite Evp. eapply Forall2_mono; [|exact Hlegal]. intros p a [H1 H2]. split.
    - apply (registered_perm R R' Hperm Hal). exact H1.
    - apply (anc_perm R R' Hperm Hal). exact H2. }
  destruct (dispatch_correct R [] C mi m args Hwf HC Hm Hlegal) as [cs [E Hr]].
  destruct (dispatch_correct R' [] C' mi' m' args Hwf' HC' Hm' Hlegal') as [cs' [E' Hr']].
  exists cs, cs', (spec_dispatch R (meth_defs R m) args), (spec_dispatch R' (meth_defs R' m') args).
  repeat split; try assumption.
  rewrite Edefs. apply (spec_dispatch_perm R R' Hperm Hal (meth_defs R m) sigma Hsig args).
Qed.

Theorem next_order_independent R R' C C' mi mi' m m' sigma k' :
  wf_registry R -> wf_registry R' -> compile R = Ok C -> compile R' = Ok C' ->
  Permutation (r_classes R) (r_classes R') -> r_alias R = r_alias R' ->
  nth_error (r_methods R) mi = Some m -> nth_error (r_methods R') mi' = Some m' ->
  meth_defs R' m' = permute_defs (meth_defs R m) sigma -> Permutation sigma (seq 0 (length (meth_defs R m))) ->
  k' < length (m_defs m) -> length (m_defs m') = length (m_defs m) -> nth k' sigma 0 < length (m_defs m) ->
  exists o o',
    nth (nth k' sigma 0) (t_nexts (nth mi (o_tables C) (mk_ct [] [] [] (mk_rep 0 0 0 0 0 0) []))) CNi = cell_of_outcome o /\
    nth k' (t_nexts (nth mi' (o_tables C') (mk_ct [] [] [] (mk_rep 0 0 0 0 0 0) []))) CNi = cell_of_outcome o' /\
    o = map_outcome (fun i' => nth i' sigma 0) o'.
Proof.
  intros Hwf Hwf' HC HC' Hperm Hal Hm Hm' Edefs Hsig Hk Hl Hk2.
  exists (spec_next R (meth_defs R m) (nth k' sigma 0)), (spec_next R' (meth_defs R' m') k').
  split; [apply (next_correct R []); assumption|]. split; [apply (next_correct R' []); try assumption; lia|].
  rewrite Edefs. apply (spec_next_perm R R' Hperm Hal (meth_defs R m) sigma Hsig k').
  unfold meth_defs. rewrite map_length. exact Hk.
Qed.

Print Assumptions dispatch_order_independent.
Print Assumptions next_order_independent.
