(* PhaseSource.v — the phases update<Policy>() runs, as TRANSLATED from core.hpp / detail/compiler.hpp on this run
   (Gen/GenPhase.v), with every phase given the meaning of the model function of the same name and a phase that runs before
   its inputs exist made a fault: the result is Model.Compile.compile_with, for every registry and every previous content of
   dispatch_data. *)
From Coq Require Import List Bool.
From Y2 Require Import Model.Registry Model.Compile Model.MiniPhase Gen.GenPhase.
Import ListNotations.

Theorem src_update : forall stale R, run_update gen_update stale R = Some (compile_with stale R).
Proof.
  intros stale R. unfold run_update, gen_update, compile_with.
  cbn [u_fresh_compiler u_phases run_phases run_phase ps0 p_lat p_meths p_slots p_tables_built p_done p_out bind].
  destruct (augment_classes R) as [L|e]; [|reflexivity].
  cbn [run_phases run_phase p_lat p_meths p_slots p_tables_built p_done p_out bind].
  destruct (augment_methods R (l_keys L) (r_methods R)) as [ms|e]; [|reflexivity].
  cbn [run_phases run_phase p_lat p_meths p_slots p_tables_built p_done p_out bind]. reflexivity.
Qed.
