(* SlotsBits.v — generic facts used by the proof of assign_slots_ok:
   lists (set_nth / upd_nth / repeat / find on seq), bit sets as N (first_free, first_set, size_nat),
   and the or_into folds of lattice_assign.  No model-specific invariants here. *)
From Coq Require Import List NArith Arith Lia Bool Ndigits.
From Y2 Require Import Model.Registry Model.Compile.
Import ListNotations.
Local Open Scope nat_scope.

(* ------------------------------------------------------------------ lists *)

Lemma set_nth_length {A} (n : nat) (l : list A) (v : A) : length (set_nth n l v) = length l.
Proof.
  revert n; induction l as [|x l IH]; intros [|n]; cbn [set_nth length]; auto.
Qed.

Lemma nth_set_nth_eq {A} (n : nat) (l : list A) (v d : A) :
  n < length l -> nth n (set_nth n l v) d = v.
Proof.
  revert n; induction l as [|x l IH]; intros [|n] H; cbn [set_nth length nth] in *; try lia; auto.
  apply IH; lia.
Qed.

Lemma nth_set_nth_neq {A} (n m : nat) (l : list A) (v d : A) :
  m <> n -> nth m (set_nth n l v) d = nth m l d.
Proof.
  revert n m; induction l as [|x l IH]; intros [|n] [|m] H; cbn [set_nth nth]; try lia; auto.
Qed.

Lemma set_nth_overflow {A} (n : nat) (l : list A) (v : A) : length l <= n -> set_nth n l v = l.
Proof.
  revert n; induction l as [|x l IH]; intros [|n] H; cbn [set_nth length] in *; try lia; auto.
  f_equal; apply IH; lia.
Qed.

Lemma upd_nth_length {A} (n : nat) (l : list A) (d : A) (f : A -> A) :
  length (upd_nth n l d f) = length l.
Proof. unfold upd_nth; apply set_nth_length. Qed.

Lemma nth_upd_nth_eq {A} (n : nat) (l : list A) (d : A) (f : A -> A) :
  n < length l -> nth n (upd_nth n l d f) d = f (nth n l d).
Proof. intros H; unfold upd_nth; now apply nth_set_nth_eq. Qed.

Lemma nth_upd_nth_neq {A} (n m : nat) (l : list A) (d d' : A) (f : A -> A) :
  m <> n -> nth m (upd_nth n l d f) d' = nth m l d'.
Proof. intros H; unfold upd_nth; now apply nth_set_nth_neq. Qed.

Lemma upd_nth_overflow {A} (n : nat) (l : list A) (d : A) (f : A -> A) :
  length l <= n -> upd_nth n l d f = l.
Proof. intros H; unfold upd_nth; now apply set_nth_overflow. Qed.

Lemma nth_repeat' {A} (a d : A) (m n : nat) : n < m -> nth n (repeat a m) d = a.
Proof.
  revert n; induction m as [|m IH]; intros [|n] H; cbn [repeat nth]; try lia; auto.
  apply IH; lia.
Qed.

Lemma nth_map_nth_error {A B} (f : A -> B) (l : list A) (i : nat) (x : A) (d : B) :
  nth_error l i = Some x -> nth i (map f l) d = f x.
Proof.
  intros H. apply nth_error_nth. now apply map_nth_error.
Qed.

Lemma NoDup_app_intro {A} (l1 l2 : list A) :
  NoDup l1 -> NoDup l2 -> (forall x, In x l1 -> In x l2 -> False) -> NoDup (l1 ++ l2).
Proof.
  induction l1 as [|a l1 IH]; intros H1 H2 Hd; cbn [app]; auto.
  inversion H1 as [|a' l' Hn Hnd]; subst.
  constructor.
  - intros Hin. apply in_app_or in Hin. destruct Hin as [Hin|Hin]; [auto|].
    apply (Hd a); [now left|exact Hin].
  - apply IH; auto. intros x Hx1 Hx2. apply (Hd x); [now right|exact Hx2].
Qed.

(* find on an interval returns a least witness *)
Lemma find_seq_least (f : nat -> bool) : forall k a j,
  a <= j < a + k -> f j = true -> exists i, find f (seq a k) = Some i /\ i <= j.
Proof.
  induction k as [|k IH]; intros a j Hj Hf; [lia|].
  cbn [seq find]. destruct (f a) eqn:Ea.
  - exists a; split; [reflexivity|lia].
  - assert (Hne : a <> j) by (intros ->; congruence).
    destruct (IH (S a) j) as [i [Hi Hle]]; [lia|exact Hf|].
    exists i; split; auto.
Qed.

(* a NoDup list of numbers below n has at most n elements *)
Lemma NoDup_lt_length (l : list nat) (n : nat) :
  NoDup l -> (forall x, In x l -> x < n) -> length l <= n.
Proof.
  intros Hnd Hlt.
  rewrite <- (seq_length n 0). apply NoDup_incl_length; auto.
  intros x Hx. apply in_seq. specialize (Hlt x Hx). lia.
Qed.

Lemma NoDup_strict_incl_length (a : nat) (l l' : list nat) :
  NoDup l -> incl l l' -> In a l' -> ~ In a l -> length l < length l'.
Proof.
  intros Hnd Hincl Ha Hna.
  assert (H : length (a :: l) <= length l').
  { apply NoDup_incl_length; [constructor; auto|].
    intros x [<-|Hx]; auto. }
  cbn [length] in H. lia.
Qed.

(* ------------------------------------------------------------------ bit sets *)

Definition bit (x : N) (i : nat) : bool := N.testbit x (N.of_nat i).

Lemma bit_lor x y i : bit (N.lor x y) i = bit x i || bit y i.
Proof. apply N.lor_spec. Qed.

Lemma bit_0 i : bit 0%N i = false.
Proof. apply N.bits_0. Qed.

Lemma bit_shiftl_1 i j : bit (N.shiftl 1 (N.of_nat i)) j = Nat.eqb j i.
Proof.
  unfold bit. destruct (Nat.eqb_spec j i) as [->|Hne].
  - rewrite N.shiftl_spec_high' by lia. rewrite N.sub_diag. reflexivity.
  - destruct (Nat.lt_ge_cases j i) as [Hlt|Hge].
    + apply N.shiftl_spec_low. lia.
    + rewrite N.shiftl_spec_high' by lia.
      apply N.bits_above_log2. change (N.log2 1) with 0%N. lia.
Qed.

Lemma bit_above_size x i : N.size_nat x <= i -> bit x i = false.
Proof.
  intros H. unfold bit. rewrite Ntestbit_Nbit. now apply Nbit_Nsize.
Qed.

Lemma bit_lt_size x i : bit x i = true -> i < N.size_nat x.
Proof.
  intros H. destruct (Nat.lt_ge_cases i (N.size_nat x)) as [Hlt|Hge]; auto.
  rewrite bit_above_size in H by exact Hge. discriminate.
Qed.

Lemma bit_nonzero x i : bit x i = true -> x <> 0%N.
Proof. intros H ->. rewrite bit_0 in H. discriminate. Qed.

Lemma first_free_spec x : bit x (first_free x) = false.
Proof.
  unfold first_free.
  destruct (find _ _) as [i|] eqn:E.
  - apply find_some in E. destruct E as [_ E]. now apply negb_true_iff in E.
  - apply bit_above_size. lia.
Qed.

Lemma first_set_le x i : bit x i = true -> first_set x <= i.
Proof.
  intros H. unfold first_set.
  pose proof (bit_lt_size x i H) as Hlt.
  destruct (find_seq_least (fun i => N.testbit x (N.of_nat i)) (N.size_nat x) 0 i) as [k [Hk Hle]];
    [lia|exact H|].
  rewrite Hk. exact Hle.
Qed.

(* ------------------------------------------------------------------ the or_into folds *)

Definition getN (l : list N) (i : nat) : N := nth i l 0%N.

Lemma or_into_length v l i : length (or_into v l i) = length l.
Proof. unfold or_into; apply upd_nth_length. Qed.

Lemma or_into_mono v l i z k : bit (getN l z) k = true -> bit (getN (or_into v l i) z) k = true.
Proof.
  intros H. unfold getN, or_into in *.
  destruct (Nat.eq_dec z i) as [->|Hne].
  - destruct (Nat.lt_ge_cases i (length l)) as [Hlt|Hge].
    + rewrite nth_upd_nth_eq by exact Hlt. rewrite bit_lor, H. apply orb_true_r.
    + rewrite upd_nth_overflow by exact Hge. exact H.
  - rewrite nth_upd_nth_neq by exact Hne. exact H.
Qed.

Lemma or_into_new v l i k : i < length l -> bit v k = true -> bit (getN (or_into v l i) i) k = true.
Proof.
  intros Hlt H. unfold getN, or_into. rewrite nth_upd_nth_eq by exact Hlt.
  rewrite bit_lor, H. reflexivity.
Qed.

Lemma or_into_frame v l i z : z <> i -> getN (or_into v l i) z = getN l z.
Proof. intros H. unfold getN, or_into. now apply nth_upd_nth_neq. Qed.

Lemma fold_or_into_length v (bs : list nat) : forall l, length (fold_left (or_into v) bs l) = length l.
Proof.
  induction bs as [|b bs IH]; intros l; cbn [fold_left]; auto.
  rewrite IH. apply or_into_length.
Qed.

Lemma fold_or_into_mono v (bs : list nat) z k : forall l,
  bit (getN l z) k = true -> bit (getN (fold_left (or_into v) bs l) z) k = true.
Proof.
  induction bs as [|b bs IH]; intros l H; cbn [fold_left]; auto.
  apply IH. now apply or_into_mono.
Qed.

Lemma fold_or_into_new v (bs : list nat) z k : forall l,
  In z bs -> z < length l -> bit v k = true -> bit (getN (fold_left (or_into v) bs l) z) k = true.
Proof.
  induction bs as [|b bs IH]; intros l Hin Hlt Hv; cbn [fold_left]; [destruct Hin|].
  destruct Hin as [->|Hin].
  - apply fold_or_into_mono. now apply or_into_new.
  - apply IH; auto. now rewrite or_into_length.
Qed.

Lemma fold_or_into_frame v (bs : list nat) z : forall l,
  ~ In z bs -> getN (fold_left (or_into v) bs l) z = getN l z.
Proof.
  induction bs as [|b bs IH]; intros l Hn; cbn [fold_left]; auto.
  rewrite IH by (intros Hc; apply Hn; now right).
  apply or_into_frame. intros ->. apply Hn. now left.
Qed.

(* the loop over the covariant classes: assign in d, reserve in the bases of d *)
Definition cov_step (tb : list (list nat)) (c : nat) (v : N) (acc : list N * list N) (d : nat)
  : list N * list N :=
  if Nat.eqb d c then acc
  else (or_into v (fst acc) d, fold_left (or_into v) (nth d tb []) (snd acc)).

Section CovFold.
  Variables (tb : list (list nat)) (c : nat) (v : N).

  Lemma cov_fold_length (ds : list nat) : forall acc,
    length (fst (fold_left (cov_step tb c v) ds acc)) = length (fst acc) /\
    length (snd (fold_left (cov_step tb c v) ds acc)) = length (snd acc).
  Proof.
    induction ds as [|d ds IH]; intros acc; cbn [fold_left]; auto.
    destruct (IH (cov_step tb c v acc d)) as [H1 H2]. rewrite H1, H2.
    unfold cov_step. destruct (Nat.eqb d c); cbn [fst snd]; auto.
    now rewrite or_into_length, fold_or_into_length.
  Qed.

  Lemma cov_fold_used_mono (ds : list nat) z k : forall acc,
    bit (getN (fst acc) z) k = true ->
    bit (getN (fst (fold_left (cov_step tb c v) ds acc)) z) k = true.
  Proof.
    induction ds as [|d ds IH]; intros acc H; cbn [fold_left]; auto.
    apply IH. unfold cov_step. destruct (Nat.eqb d c); cbn [fst]; auto.
    now apply or_into_mono.
  Qed.

  Lemma cov_fold_resv_mono (ds : list nat) z k : forall acc,
    bit (getN (snd acc) z) k = true ->
    bit (getN (snd (fold_left (cov_step tb c v) ds acc)) z) k = true.
  Proof.
    induction ds as [|d ds IH]; intros acc H; cbn [fold_left]; auto.
    apply IH. unfold cov_step. destruct (Nat.eqb d c); cbn [snd]; auto.
    now apply fold_or_into_mono.
  Qed.

  Lemma cov_fold_used_new (ds : list nat) z k : forall acc,
    In z ds -> z <> c -> z < length (fst acc) -> bit v k = true ->
    bit (getN (fst (fold_left (cov_step tb c v) ds acc)) z) k = true.
  Proof.
    induction ds as [|d ds IH]; intros acc Hin Hne Hlt Hv; cbn [fold_left]; [destruct Hin|].
    destruct Hin as [->|Hin].
    - apply cov_fold_used_mono. unfold cov_step.
      destruct (Nat.eqb_spec z c) as [->|_]; [congruence|]. cbn [fst].
      now apply or_into_new.
    - apply IH; auto. unfold cov_step. destruct (Nat.eqb d c); cbn [fst]; auto.
      now rewrite or_into_length.
  Qed.

  Lemma cov_fold_used_frame (ds : list nat) z : forall acc,
    ~ In z ds -> getN (fst (fold_left (cov_step tb c v) ds acc)) z = getN (fst acc) z.
  Proof.
    induction ds as [|d ds IH]; intros acc Hn; cbn [fold_left]; auto.
    rewrite IH by (intros Hc; apply Hn; now right).
    unfold cov_step. destruct (Nat.eqb d c); cbn [fst]; auto.
    apply or_into_frame. intros ->. apply Hn. now left.
  Qed.

  Lemma cov_fold_used_self (ds : list nat) : forall acc,
    getN (fst (fold_left (cov_step tb c v) ds acc)) c = getN (fst acc) c.
  Proof.
    induction ds as [|d ds IH]; intros acc; cbn [fold_left]; auto.
    rewrite IH. unfold cov_step. destruct (Nat.eqb_spec d c) as [->|Hne]; cbn [fst]; auto.
    apply or_into_frame. auto.
  Qed.

  Lemma cov_fold_resv_new (ds : list nat) d b k : forall acc,
    In d ds -> d <> c -> In b (nth d tb []) -> b < length (snd acc) -> bit v k = true ->
    bit (getN (snd (fold_left (cov_step tb c v) ds acc)) b) k = true.
  Proof.
    induction ds as [|d' ds IH]; intros acc Hin Hne Hb Hlt Hv; cbn [fold_left]; [destruct Hin|].
    destruct Hin as [->|Hin].
    - apply cov_fold_resv_mono. unfold cov_step.
      destruct (Nat.eqb_spec d c) as [->|_]; [congruence|]. cbn [snd].
      now apply fold_or_into_new.
    - apply IH; auto. unfold cov_step. destruct (Nat.eqb d' c); cbn [snd]; auto.
      now rewrite fold_or_into_length.
  Qed.
End CovFold.
