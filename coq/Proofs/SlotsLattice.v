(* SlotsLattice.v — assign_lattice: the bulk form of one lattice_assign, the invariant on used / reserved
   bit sets (J1, J) with the resulting disjointness (D), and the depth-first traversal with marks. *)
From Coq Require Import List NArith Arith Lia Bool.
From Y2 Require Import Model.Registry Model.Compile Proofs.Interfaces
  Proofs.SlotsBits Proofs.SlotsOrder Proofs.SlotsState.
Import ListNotations.
Local Open Scope nat_scope.

Lemma fold_left_ext {A B} (f g : A -> B -> A) :
  (forall a b, f a b = g a b) -> forall l a, fold_left f l a = fold_left g l a.
Proof.
  intros H. induction l as [|b l IH]; intros a; cbn [fold_left]; auto. now rewrite H, IH.
Qed.

(* ------------------------------------------------------------------ one assignment, bulk form *)

Definition la_slot (st : sstate) (c : nat) : nat := first_free (N.lor (used_of st c) (resv_of st c)).
Definition la_bit (st : sstate) (c : nat) : N := N.shiftl 1 (N.of_nat (la_slot st c)).
Definition la_used' (st : sstate) (c : nat) : N := N.lor (used_of st c) (la_bit st c).
Definition la_useds1 (st : sstate) (c : nat) : list N := set_nth c (s_used st) (la_used' st c).
Definition la_resvs1 (st : sstate) (c : nat) : list N :=
  set_nth c (s_resv st) (N.lor (resv_of st c) (la_bit st c)).
Definition la_resvs2 (L : lattice) (st : sstate) (c : nat) : list N :=
  fold_left (or_into (la_used' st c)) (nth c (l_tb L) []) (la_resvs1 st c).
Definition la_fold (L : lattice) (st : sstate) (c : nat) : list N * list N :=
  fold_left (cov_step (l_tb L) c (la_used' st c)) (nth c (l_cov L) []) (la_useds1 st c, la_resvs2 L st c).

Lemma lattice_assign_eq L c st mp :
  lattice_assign L c st mp =
  mk_ss (set_slot st mp (la_slot st c)) (fst (la_fold L st c)) (snd (la_fold L st c))
        (s_mark st) (s_first st) (s_vlen st) (s_fuel_ok st).
Proof.
  unfold lattice_assign. cbv zeta.
  unfold la_fold, la_resvs2, la_resvs1, la_useds1, la_used', la_bit, la_slot, used_of, resv_of, getN.
  match goal with
  | |- (let '(u, r) := fold_left ?F ?l ?a in _) = _ =>
      rewrite (fold_left_ext F
        (cov_step (l_tb L) c
           (N.lor (nth c (s_used st) 0%N)
              (N.shiftl 1 (N.of_nat (first_free (N.lor (nth c (s_used st) 0%N) (nth c (s_resv st) 0%N))))))))
  end.
  - destruct (fold_left _ _ _) as [u r]. reflexivity.
  - intros [us rs] d. unfold cov_step. cbn [fst snd]. reflexivity.
Qed.

Section Lattice.
  Variable L : lattice.
  Variable ms : list cmeth.
  Hypothesis Hwf : lat_wf L.

  Notation n := (ncls L).
  Notation tb := (tb_of L).
  Notation cov := (cov_of L).
  Notation direct := (direct_of_ L).
  Notation derived := (derived_of_ L).
  Notation ubv := (used_by_vp ms).
  Notation sgood := (sgood L ms).

  (* ---------------------------------------------------------------- projections of lattice_assign *)

  Section Step.
    Variables (st : sstate) (c : nat) (mp : nat * nat).
    Hypothesis Hg : sgood st.
    Hypothesis Hc : c < n.

    Let st' := lattice_assign L c st mp.

    Lemma la_slots : s_slots st' = set_slot st mp (la_slot st c).
    Proof. unfold st'. now rewrite lattice_assign_eq. Qed.
    Lemma la_mark : s_mark st' = s_mark st.
    Proof. unfold st'. now rewrite lattice_assign_eq. Qed.
    Lemma la_first : s_first st' = s_first st.
    Proof. unfold st'. now rewrite lattice_assign_eq. Qed.
    Lemma la_vlen : s_vlen st' = s_vlen st.
    Proof. unfold st'. now rewrite lattice_assign_eq. Qed.
    Lemma la_fuel : s_fuel_ok st' = s_fuel_ok st.
    Proof. unfold st'. now rewrite lattice_assign_eq. Qed.
    Lemma la_used : s_used st' = fst (la_fold L st c).
    Proof. unfold st'. now rewrite lattice_assign_eq. Qed.
    Lemma la_resv : s_resv st' = snd (la_fold L st c).
    Proof. unfold st'. now rewrite lattice_assign_eq. Qed.

    Lemma la_useds1_length : length (la_useds1 st c) = n.
    Proof. unfold la_useds1. rewrite set_nth_length. apply Hg. Qed.
    Lemma la_resvs1_length : length (la_resvs1 st c) = n.
    Proof. unfold la_resvs1. rewrite set_nth_length. apply Hg. Qed.
    Lemma la_resvs2_length : length (la_resvs2 L st c) = n.
    Proof. unfold la_resvs2. rewrite fold_or_into_length. apply la_resvs1_length. Qed.

    Lemma la_used_length : length (s_used st') = n.
    Proof.
      rewrite la_used. unfold la_fold.
      destruct (cov_fold_length (l_tb L) c (la_used' st c) (nth c (l_cov L) [])
                                (la_useds1 st c, la_resvs2 L st c)) as [H _].
      rewrite H. cbn [fst]. apply la_useds1_length.
    Qed.

    Lemma la_resv_length : length (s_resv st') = n.
    Proof.
      rewrite la_resv. unfold la_fold.
      destruct (cov_fold_length (l_tb L) c (la_used' st c) (nth c (l_cov L) [])
                                (la_useds1 st c, la_resvs2 L st c)) as [_ H].
      rewrite H. cbn [snd]. apply la_resvs2_length.
    Qed.

    Lemma la_good : sgood st'.
    Proof.
      unfold st'. rewrite lattice_assign_eq. apply sgood_set_slot; auto.
      - rewrite <- la_used. apply la_used_length.
      - rewrite <- la_resv. apply la_resv_length.
    Qed.

    Lemma la_used'_bit : bit (la_used' st c) (la_slot st c) = true.
    Proof.
      unfold la_used', la_bit. rewrite bit_lor, bit_shiftl_1, Nat.eqb_refl. apply orb_true_r.
    Qed.

    Lemma la_useds1_c : getN (la_useds1 st c) c = la_used' st c.
    Proof.
      unfold la_useds1, getN. apply nth_set_nth_eq. now rewrite (sg_used L ms st Hg).
    Qed.

    Lemma la_useds1_mono z k : bit (used_of st z) k = true -> bit (getN (la_useds1 st c) z) k = true.
    Proof.
      intros H. destruct (Nat.eq_dec z c) as [->|Hne].
      - rewrite la_useds1_c. unfold la_used'. rewrite bit_lor, H. reflexivity.
      - unfold la_useds1, getN. rewrite nth_set_nth_neq by exact Hne. exact H.
    Qed.

    Lemma la_used_mono z k : bit (used_of st z) k = true -> bit (used_of st' z) k = true.
    Proof.
      intros H. unfold used_of at 1. rewrite la_used. unfold la_fold.
      apply cov_fold_used_mono. cbn [fst]. now apply la_useds1_mono.
    Qed.

    Lemma la_used_new z : In z (cov c) -> bit (used_of st' z) (la_slot st c) = true.
    Proof.
      intros Hz. unfold used_of. rewrite la_used. unfold la_fold.
      destruct (Nat.eq_dec z c) as [->|Hne].
      - rewrite cov_fold_used_self. cbn [fst]. rewrite la_useds1_c. apply la_used'_bit.
      - apply cov_fold_used_new; auto.
        + cbn [fst]. rewrite la_useds1_length. now apply (cov_lt L Hwf) in Hz.
        + apply la_used'_bit.
    Qed.

    Lemma la_used_frame z : ~ In z (cov c) -> used_of st' z = used_of st z.
    Proof.
      intros Hz. unfold used_of. rewrite la_used. unfold la_fold.
      rewrite cov_fold_used_frame by exact Hz. cbn [fst].
      unfold la_useds1, getN. apply nth_set_nth_neq. intros ->. apply Hz. now apply cov_refl.
    Qed.

    Lemma la_resvs2_mono z k : bit (resv_of st z) k = true -> bit (getN (la_resvs2 L st c) z) k = true.
    Proof.
      intros H. unfold la_resvs2. apply fold_or_into_mono.
      destruct (Nat.eq_dec z c) as [->|Hne].
      - unfold la_resvs1, getN. rewrite nth_set_nth_eq by (now rewrite (sg_resv L ms st Hg)).
        rewrite bit_lor, H. reflexivity.
      - unfold la_resvs1, getN. rewrite nth_set_nth_neq by exact Hne. exact H.
    Qed.

    Lemma la_resv_mono z k : bit (resv_of st z) k = true -> bit (resv_of st' z) k = true.
    Proof.
      intros H. unfold resv_of at 1. rewrite la_resv. unfold la_fold.
      apply cov_fold_resv_mono. cbn [snd]. now apply la_resvs2_mono.
    Qed.

    Lemma la_resv_new_self b : In b (tb c) -> bit (resv_of st' b) (la_slot st c) = true.
    Proof.
      intros Hb. unfold resv_of. rewrite la_resv. unfold la_fold.
      apply cov_fold_resv_mono. cbn [snd]. unfold la_resvs2.
      apply fold_or_into_new; auto.
      - rewrite la_resvs1_length. now apply (lw_tb_lt L Hwf) in Hb.
      - apply la_used'_bit.
    Qed.

    Lemma la_resv_new_cov d b : In d (cov c) -> d <> c -> In b (tb d) ->
      bit (resv_of st' b) (la_slot st c) = true.
    Proof.
      intros Hd Hne Hb. unfold resv_of. rewrite la_resv. unfold la_fold.
      apply (cov_fold_resv_new (l_tb L) c (la_used' st c) (nth c (l_cov L) []) d b); auto.
      - cbn [snd]. rewrite la_resvs2_length. now apply (lw_tb_lt L Hwf) in Hb.
      - apply la_used'_bit.
    Qed.

    Lemma la_slot_free_used : bit (used_of st c) (la_slot st c) = false.
    Proof.
      pose proof (first_free_spec (N.lor (used_of st c) (resv_of st c))) as H.
      rewrite bit_lor in H. apply orb_false_iff in H. apply H.
    Qed.

    Lemma la_slot_free_resv : bit (resv_of st c) (la_slot st c) = false.
    Proof.
      pose proof (first_free_spec (N.lor (used_of st c) (resv_of st c))) as H.
      rewrite bit_lor in H. apply orb_false_iff in H. apply H.
    Qed.
  End Step.

  Lemma la_slot_same st c mi p x : sgood st -> vp_at ms mi p = Some x ->
    slot_of (lattice_assign L c st (mi, p)) mi p = la_slot st c.
  Proof.
    intros Hg Hx. rewrite slot_of_in, la_slots.
    destruct (vp_at_valid L ms st mi p x Hg Hx) as [H1 H2]. now apply slot_set_slot_same.
  Qed.

  Lemma la_slot_other st c mi p mi' p' : (mi', p') <> (mi, p) ->
    slot_of (lattice_assign L c st (mi, p)) mi' p' = slot_of st mi' p'.
  Proof.
    intros Hne. rewrite !slot_of_in, la_slots. now apply slot_set_slot_other.
  Qed.

  (* ---------------------------------------------------------------- the invariant *)

  (* A: the pairs assigned so far *)
  Record LInv (st : sstate) (A : nat * nat -> Prop) : Prop := {
    li_J1 : forall mi p y z, A (mi, p) -> vp_at ms mi p = Some y -> In z (cov y) ->
        bit (used_of st z) (slot_of st mi p) = true;
    li_J : forall mi p y z q, A (mi, p) -> vp_at ms mi p = Some y -> In z (cov y) -> In z (cov q) ->
        bit (used_of st q) (slot_of st mi p) = true \/ bit (resv_of st q) (slot_of st mi p) = true;
    li_D : forall mi p y mi' p' y' z, A (mi, p) -> A (mi', p') ->
        vp_at ms mi p = Some y -> vp_at ms mi' p' = Some y' -> In z (cov y) -> In z (cov y') ->
        slot_of st mi p = slot_of st mi' p' -> (mi, p) = (mi', p')
  }.

  Lemma LInv_transfer st st' (A A' : nat * nat -> Prop) :
    (forall q, A' q -> A q) ->
    (forall mi p, A' (mi, p) -> slot_of st' mi p = slot_of st mi p) ->
    s_used st' = s_used st -> s_resv st' = s_resv st ->
    LInv st A -> LInv st' A'.
  Proof.
    intros HA Hs Hu Hr [J1 J D]. constructor.
    - intros mi p y z Ha Hy Hz. rewrite (Hs mi p Ha). unfold used_of. rewrite Hu.
      apply (J1 mi p y z); auto.
    - intros mi p y z q Ha Hy Hz Hq. rewrite (Hs mi p Ha). unfold used_of, resv_of. rewrite Hu, Hr.
      apply (J mi p y z q); auto.
    - intros mi p y mi' p' y' z Ha Ha' Hy Hy' Hz Hz' E.
      rewrite (Hs mi p Ha), (Hs mi' p' Ha') in E. apply (D mi p y mi' p' y' z); auto.
  Qed.

  Lemma LInv_ext st (A A' : nat * nat -> Prop) : (forall q, A' q -> A q) -> LInv st A -> LInv st A'.
  Proof. intros HA. apply LInv_transfer; auto. Qed.

  Lemma lattice_assign_LInv st A c mi p :
    sgood st -> c < n -> vp_at ms mi p = Some c -> ~ A (mi, p) -> LInv st A ->
    LInv (lattice_assign L c st (mi, p)) (fun q => q = (mi, p) \/ A q).
  Proof.
    intros Hg Hc Hvp HnA [J1 J D].
    assert (Hnew : slot_of (lattice_assign L c st (mi, p)) mi p = la_slot st c)
      by (eapply la_slot_same; eauto).
    assert (Hold : forall mi' p', A (mi', p') ->
              slot_of (lattice_assign L c st (mi, p)) mi' p' = slot_of st mi' p').
    { intros mi' p' Ha. apply la_slot_other. intros E. apply HnA. now rewrite <- E. }
    (* an older pair compatible with c has its bit in used c or reserved c, hence differs from the new slot *)
    assert (Hfresh : forall mi' p' y' z, A (mi', p') -> vp_at ms mi' p' = Some y' ->
              In z (cov y') -> In z (cov c) -> slot_of st mi' p' <> la_slot st c).
    { intros mi' p' y' z Ha Hy' Hz Hzc E.
      destruct (J mi' p' y' z c Ha Hy' Hz Hzc) as [H|H]; rewrite E in H.
      - now rewrite la_slot_free_used in H.
      - now rewrite la_slot_free_resv in H. }
    constructor.
    - intros mi1 p1 y z [E|Ha] Hy Hz.
      + inversion E; subst mi1 p1. assert (y = c) by congruence. subst y.
        rewrite Hnew. now apply la_used_new.
      + rewrite (Hold mi1 p1 Ha). apply la_used_mono; auto. apply (J1 mi1 p1 y z); auto.
    - intros mi1 p1 y z q [E|Ha] Hy Hz Hq.
      + inversion E; subst mi1 p1. assert (y = c) by congruence. subst y.
        rewrite Hnew.
        destruct (in_dec Nat.eq_dec q (cov c)) as [Hqc|Hqc].
        * left. now apply la_used_new.
        * right. destruct (cov_cases L Hwf _ _ Hz) as [->|Hcz].
          -- destruct (cov_cases L Hwf _ _ Hq) as [->|Hqt].
             ++ exfalso. apply Hqc. now apply cov_refl.
             ++ now apply la_resv_new_self.
          -- destruct (cov_cases L Hwf _ _ Hq) as [->|Hqt].
             ++ exfalso. now apply Hqc.
             ++ apply (la_resv_new_cov st c (mi, p) Hg z q); auto.
                intros ->. eapply (lw_tb_irrefl L Hwf); eauto.
      + rewrite (Hold mi1 p1 Ha). destruct (J mi1 p1 y z q Ha Hy Hz Hq) as [H|H].
        * left. now apply la_used_mono.
        * right. now apply la_resv_mono.
    - intros mi1 p1 y mi2 p2 y' z [E1|Ha1] [E2|Ha2] Hy Hy' Hz Hz' E.
      + congruence.
      + exfalso. inversion E1; subst mi1 p1. assert (y = c) by congruence. subst y.
        rewrite Hnew, (Hold mi2 p2 Ha2) in E.
        apply (Hfresh mi2 p2 y' z); auto.
      + exfalso. inversion E2; subst mi2 p2. assert (y' = c) by congruence. subst y'.
        rewrite Hnew, (Hold mi1 p1 Ha1) in E.
        apply (Hfresh mi1 p1 y z); auto.
      + rewrite (Hold mi1 p1 Ha1), (Hold mi2 p2 Ha2) in E. apply (D mi1 p1 y mi2 p2 y' z); auto.
  Qed.

  (* ---------------------------------------------------------------- all the pairs of a class *)

  Lemma la_list_spec c : c < n -> forall l st (A : nat * nat -> Prop),
    sgood st -> NoDup l ->
    (forall mi p, In (mi, p) l -> vp_at ms mi p = Some c /\ ~ A (mi, p)) ->
    LInv st A ->
    let st' := fold_left (lattice_assign L c) l st in
    sgood st' /\ LInv st' (fun q => A q \/ In q l) /\
    s_mark st' = s_mark st /\ s_first st' = s_first st /\ s_vlen st' = s_vlen st /\
    s_fuel_ok st' = s_fuel_ok st /\
    (forall z, ~ In z (cov c) -> used_of st' z = used_of st z) /\
    (forall mi p, ~ In (mi, p) l -> slot_of st' mi p = slot_of st mi p).
  Proof.
    intros Hc. induction l as [|[mi p] l IH]; intros st A Hg Hnd Hl Hinv; cbn [fold_left].
    - cbv zeta. split; [exact Hg|]. split; [eapply LInv_ext; [|exact Hinv]; intros q [H|[]]; exact H|].
      repeat split; auto.
    - cbv zeta. inversion Hnd as [|a l' Hnin Hnd']; subst.
      destruct (Hl mi p (or_introl eq_refl)) as [Hvp HnA].
      set (st1 := lattice_assign L c st (mi, p)).
      assert (Hg1 : sgood st1) by (apply la_good; auto).
      assert (Hinv1 : LInv st1 (fun q => q = (mi, p) \/ A q)) by (apply lattice_assign_LInv; auto).
      assert (Hl1 : forall mi' p', In (mi', p') l ->
                vp_at ms mi' p' = Some c /\ ~ (fun q => q = (mi, p) \/ A q) (mi', p')).
      { intros mi' p' Hin. destruct (Hl mi' p' (or_intror Hin)) as [H1 H2]. split; auto.
        intros [E|Ha]; [|now apply H2]. apply Hnin. now rewrite <- E. }
      destruct (IH st1 _ Hg1 Hnd' Hl1 Hinv1) as (K1 & K2 & K3 & K4 & K5 & K6 & K7 & K8).
      cbv zeta in *.
      split; [exact K1|].
      split; [eapply LInv_ext; [|exact K2]; cbv beta;
              intros q [H|[H|H]]; [left; right|left; left; symmetry|right]; exact H|].
      split; [rewrite K3; apply la_mark|]. split; [rewrite K4; apply la_first|].
      split; [rewrite K5; apply la_vlen|]. split; [rewrite K6; apply la_fuel|].
      split.
      + intros z Hz. rewrite K7 by exact Hz. apply la_used_frame; auto.
      + intros mi' p' Hn. rewrite K8 by (intros Hc'; apply Hn; now right).
        apply la_slot_other. intros E. apply Hn. left. now symmetry.
  Qed.

  (* ---------------------------------------------------------------- the traversal *)

  (* pairs whose class is marked *)
  Definition Amark (st : sstate) : nat * nat -> Prop :=
    fun q => exists y, vp_at ms (fst q) (snd q) = Some y /\ mark_of st y = true.

  (* a marked class that is not on the recursion stack G has all its derived classes marked *)
  Definition black (G : list nat) (st : sstate) : Prop :=
    forall z, mark_of st z = true -> ~ In z G -> forall d, In d (derived z) -> mark_of st d = true.

  Record lat_post (G : list nat) (c : nat) (st st' : sstate) : Prop := {
    lp_good : sgood st';
    lp_inv : LInv st' (Amark st');
    lp_black : black G st';
    lp_mono : forall z, mark_of st z = true -> mark_of st' z = true;
    lp_fp : fp ms (fun z => In z (cov c)) st st';
    lp_first : s_first st' = s_first st;
    lp_vlen : s_vlen st' = s_vlen st
  }.

  Lemma lat_post_refl G c st : sgood st -> LInv st (Amark st) -> black G st -> lat_post G c st st.
  Proof. intros. constructor; auto. apply fp_refl. Qed.

  Lemma assign_lattice_spec : forall fuel st c G,
    c < n -> length (cov c) <= fuel -> sgood st -> LInv st (Amark st) -> black G st ->
    lat_post G c st (assign_lattice fuel L ms st c) /\
    mark_of (assign_lattice fuel L ms st c) c = true.
  Proof.
    induction fuel as [|f IHf]; intros st c G Hc Hfuel Hg Hinv Hbl.
    { pose proof (cov_len_pos L Hwf c Hc). lia. }
    cbn [assign_lattice]. destruct (nth c (s_mark st) false) eqn:Em.
    { split; [now apply lat_post_refl|exact Em]. }
    set (st0 := mk_ss (s_slots st) (s_used st) (s_resv st) (set_nth c (s_mark st) true)
                      (s_first st) (s_vlen st) (s_fuel_ok st)).
    assert (Hm0 : forall z, mark_of st0 z = if Nat.eqb z c then true else mark_of st z).
    { intros z. unfold mark_of, st0; cbn [s_mark]. destruct (Nat.eqb_spec z c) as [->|Hne].
      - apply nth_set_nth_eq. now rewrite (sg_mark L ms st Hg).
      - now apply nth_set_nth_neq. }
    assert (Hg0 : sgood st0).
    { constructor; unfold st0; cbn [s_slots s_used s_resv s_mark s_first s_vlen]; try apply Hg.
      rewrite set_nth_length. apply Hg. }
    assert (Hinv0 : LInv st0 (Amark st)) by (eapply LInv_transfer; [| | | |exact Hinv]; auto).
    assert (Hl0 : forall mi p, In (mi, p) (ubv c) -> vp_at ms mi p = Some c /\ ~ Amark st (mi, p)).
    { intros mi p Hin. apply ubv_in in Hin. split; auto.
      intros (y & Hy & Hmy). cbn [fst snd] in Hy. assert (y = c) by congruence. subst y.
      unfold mark_of in Hmy. congruence. }
    destruct (la_list_spec c Hc (ubv c) st0 (Amark st) Hg0 (ubv_nodup ms c) Hl0 Hinv0)
      as (K1 & K2 & K3 & K4 & K5 & K6 & K7 & K8).
    cbv zeta in *.
    set (st1 := fold_left (lattice_assign L c) (ubv c) st0) in *.
    assert (Hm1 : forall z, mark_of st1 z = if Nat.eqb z c then true else mark_of st z).
    { intros z. rewrite <- Hm0. unfold mark_of. now rewrite K3. }
    assert (Hinv1 : LInv st1 (Amark st1)).
    { eapply LInv_ext; [|exact K2]. cbv beta. intros [mi p] (y & Hy & Hmy). cbn [fst snd] in Hy.
      rewrite Hm1 in Hmy. destruct (Nat.eqb_spec y c) as [->|Hne].
      - right. now apply ubv_in.
      - left. exists y. auto. }
    assert (Hbl1 : black (c :: G) st1).
    { intros z Hz HnG d Hd. rewrite Hm1 in Hz. rewrite Hm1.
      destruct (Nat.eqb_spec z c) as [E|Hne]; [exfalso; apply HnG; left; now symmetry|].
      destruct (Nat.eqb d c); auto. apply (Hbl z); auto. intros Hin. apply HnG. now right. }
    assert (Hmono1 : forall z, mark_of st z = true -> mark_of st1 z = true).
    { intros z Hz. rewrite Hm1. destruct (Nat.eqb z c); auto. }
    assert (Hfp1 : fp ms (fun z => In z (cov c)) st st1).
    { split; [|split].
      - intros z Hz. assert (Hne : z <> c) by (intros ->; apply Hz; now apply cov_refl).
        unfold first_of, vlen_of. rewrite K4, K5. rewrite K7 by exact Hz. rewrite Hm1.
        apply Nat.eqb_neq in Hne. rewrite Hne. repeat split; auto.
      - intros mi p Hy. rewrite K8; [reflexivity|].
        intros Hin. apply ubv_in in Hin. apply (Hy c Hin). now apply cov_refl.
      - rewrite K6. reflexivity. }
    (* the derived classes *)
    assert (Hkids : forall l, (forall d, In d l -> In d (derived c)) ->
              forall sk, sgood sk -> LInv sk (Amark sk) -> black (c :: G) sk ->
              let sk' := fold_left (fun s d => assign_lattice f L ms s d) l sk in
              lat_post (c :: G) c sk sk' /\ (forall d, In d l -> mark_of sk' d = true)).
    { induction l as [|d l IHl]; intros Hsub sk Hgk Hik Hbk; cbn [fold_left]; cbv zeta.
      - split; [now apply lat_post_refl|]. intros d [].
      - assert (Hd : In d (derived c)) by (apply Hsub; now left).
        destruct (derived_spec L Hwf c d Hd) as (_ & Hdn & _ & _).
        destruct (IHf sk d (c :: G) Hdn) as ([P1 P2 P3 P4 P5 P6 P7] & Pm); auto.
        { pose proof (cov_size_lt L Hwf c d Hd). lia. }
        set (sk1 := assign_lattice f L ms sk d) in *.
        destruct (IHl (fun d' Hd' => Hsub d' (or_intror Hd')) sk1 P1 P2 P3)
          as ([Q1 Q2 Q3 Q4 Q5 Q6 Q7] & Qm).
        cbv zeta in *. split.
        + constructor.
          * exact Q1.
          * exact Q2.
          * exact Q3.
          * intros z Hz. apply Q4. now apply P4.
          * eapply fp_trans; [|exact Q5]. eapply fp_weaken; [|exact P5].
            intros z Hz. apply (cov_trans L Hwf c d z); [now apply derived_cov|exact Hz].
          * congruence.
          * congruence.
        + intros d' [<-|Hd']; [now apply Q4|now apply Qm]. }
    destruct (Hkids (derived c) (fun d H => H) st1 K1 Hinv1 Hbl1) as ([Q1 Q2 Q3 Q4 Q5 Q6 Q7] & Qm).
    cbv zeta in *. fold (derived_of_ L c).
    set (st' := fold_left (fun s d => assign_lattice f L ms s d) (derived c) st1) in *.
    assert (Hmc : mark_of st' c = true).
    { apply Q4. rewrite Hm1, Nat.eqb_refl. reflexivity. }
    split; [|exact Hmc]. constructor.
    - exact Q1.
    - exact Q2.
    - intros z Hz HnG d Hd. destruct (Nat.eq_dec z c) as [E|Hne].
      + rewrite E in Hd. now apply Qm.
      + apply (Q3 z); auto. intros [E|Hin]; [now apply Hne|now apply HnG].
    - intros z Hz. apply Q4. now apply Hmono1.
    - eapply fp_trans; [exact Hfp1|exact Q5].
    - rewrite Q6. exact K4.
    - rewrite Q7. exact K5.
  Qed.

  (* once the stack is empty, marked classes are closed under descent *)
  Lemma black_closed st : black [] st -> forall c z, mark_of st c = true -> In z (cov c) -> mark_of st z = true.
  Proof.
    intros Hb c. induction z as [z IH] using (tb_ind L Hwf). intros Hc Hz.
    destruct (cov_cases L Hwf _ _ Hz) as [->|Hcz]; auto.
    destruct (parent L Hwf _ _ Hcz) as (d & Hd & Hdc).
    pose proof (lw_direct_sub L Hwf _ _ Hd) as Hdz.
    assert (Hmd : mark_of st d = true) by (apply IH; auto).
    apply (Hb d Hmd (fun H => H) z). apply (lw_derived L Hwf). split; auto.
    now apply (cov_lt L Hwf) in Hz.
  Qed.
End Lattice.
