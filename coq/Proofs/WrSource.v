(* WrSource.v — the three loops of generator::encode_dispatch_data that write the cells, as translated from generator.hpp on
   every run (Gen/GenWr.v, by translators/encwrite.py, interpreted by Model/MiniWr.v), emit exactly e_slots, e_vtbls and
   e_dtbls of Model.Codec.encode. *)
From Coq Require Import List Arith NArith Lia Bool.
From Y2 Require Import Model.Registry Model.Compile Gen.GenCodecConsts Model.Codec Model.MiniWr Gen.GenWr.
Import ListNotations.
Local Open Scope nat_scope.

Lemma wfor_flat_map {A} (step : A -> option (list N)) (f : A -> list N) : forall xs,
  (forall x, In x xs -> step x = Some (f x)) -> wfor step xs = Some (flat_map f xs).
Proof.
  induction xs as [|x xs IH]; intro H; cbn [wfor flat_map]; [reflexivity|].
  rewrite (H x (or_introl eq_refl)), IH; [reflexivity|]. intros y Hy. apply H. now right.
Qed.

Lemma flat_map_ext_in' {A B} (f g : A -> list B) l : (forall x, In x l -> f x = g x) -> flat_map f l = flat_map g l.
Proof. induction l as [|a l IH]; intro H; cbn [flat_map]; [reflexivity|]. rewrite (H a (or_introl eq_refl)), IH; [reflexivity|]. intros x Hx. apply H. now right. Qed.

Lemma flat_map_map {A B D} (f : B -> list D) (g : A -> B) l : flat_map f (map g l) = flat_map (fun x => f (g x)) l.
Proof. induction l as [|a l IH]; cbn [map flat_map]; [reflexivity|]. now rewrite IH. Qed.

(* dropping the index and one component of the combined lists *)
Lemma flat_map_combine3 {M S T} (f : M -> S -> T -> list N) : forall (ms : list M) (ss : list S) (ts : list T) start,
  length ms = length ss -> length ms = length ts ->
  flat_map (fun imst : nat * ((M * S) * T) => let '(_, ((m, s), t)) := imst in f m s t) (combine (seq start (length ms)) (combine (combine ms ss) ts))
  = flat_map (fun mst : (M * S) * T => let '((m, s), t) := mst in f m s t) (combine (combine ms ss) ts).
Proof.
  induction ms as [|m ms IH]; intros [|s ss] [|t ts] start H1 H2; cbn [length] in *; try lia; [reflexivity|].
  cbn [seq combine flat_map]. now rewrite IH by lia.
Qed.

Lemma combine_drop_mid {M S T} : forall (ms : list M) (ss : list S) (ts : list T), length ms = length ss ->
  map (fun mst : (M * S) * T => let '((m, _), t) := mst in (m, t)) (combine (combine ms ss) ts) = combine ms ts.
Proof.
  induction ms as [|m ms IH]; intros [|s ss] ts H; cbn [length] in *; try lia; [reflexivity|].
  destruct ts as [|t ts]; cbn [combine map]; [reflexivity|]. now rewrite IH by lia.
Qed.

Lemma combine_drop_first {M S T} : forall (ms : list M) (ss : list S) (ts : list T), length ms = length ss ->
  map (fun mst : (M * S) * T => let '((_, s), t) := mst in (s, t)) (combine (combine ms ss) ts) = combine ss ts.
Proof.
  induction ms as [|m ms IH]; intros [|s ss] ts H; cbn [length] in *; try lia; [reflexivity|].
  destruct ts as [|t ts]; cbn [combine map]; [reflexivity|]. now rewrite IH by lia.
Qed.

Section WrSrc.
  Variable C : compiled.
  Hypothesis Hls : length (o_meths C) = length (o_slots C).
  Hypothesis Hlt : length (o_meths C) = length (o_tables C).

  (* ---------------------------------------------------------------- slots and strides *)
  Theorem src_write_slots : wrun C gen_write_slots = Some (enc_slots C).
  Proof.
    unfold wrun. change gen_write_slots with (WForMethods (WSeq WEmitSlots WEmitStrides)).
    cbn [wexec].
    rewrite (wfor_flat_map _ (fun imst : nat * ((cmeth * list nat) * ctable) => let '(_, ((_, sl), t)) := imst in map nat16 sl ++ map nat16 (t_strides t))).
    - f_equal. rewrite (flat_map_combine3 (fun (_ : cmeth) sl t => map nat16 sl ++ map nat16 (t_strides t)) _ _ _ 0 Hls Hlt).
      unfold enc_slots. rewrite <- (combine_drop_first (o_meths C) (o_slots C) (o_tables C) Hls).
      rewrite flat_map_map.
      apply flat_map_ext_in'. intros [[m sl] t] _. now rewrite map_app.
    - intros [i [[m sl] t]] _. cbn [wexec wx_slots wx_meth]. reflexivity.
  Qed.

  (* ---------------------------------------------------------------- v-tables *)
  Definition entry_ok (e : nat * nat * nat) : Prop :=
    let '(mi, vpi, g) := e in
    vpi = 0 -> mi < length (o_meths C) /\
               (meth_arity (nth mi (o_meths C) dummy_meth) = 1 -> g < length (t_cells (nth mi (o_tables C) dummy_tab))).

  Definition entry_body : wstmt :=
    WSeq WSetStopIfLast
      (WIf WVpPositive
         (WEmit (WOr (WOr WEntryGroup WIndexBit) WStop))
         (WSeq WBindMethodOfEntry
            (WSeq (WEmit WEntryMethod)
               (WIf WArityIs1 (WEmit (WOr WCellSpecIndex WStop)) (WEmit (WOr WEntryGroup WStop)))))).

  Lemma entry_step xm xs xc e lastp : entry_ok e ->
    exists x', wexec C entry_body (mk_wcx xm xs xc (Some (e, lastp)) None None)
               = Some (enc_entry C (if lastp then stop_bit else 0%N) e, x').
  Proof.
    destruct e as [[mi vpi] g]. intro Hok. unfold entry_body, enc_entry.
    cbn [wexec wtest weval wx_entry wx_stop wx_bound wx_meth wx_slots wx_cls].
    destruct (0 <? vpi) eqn:Ev.
    - cbn [wexec weval wx_entry wx_stop]. eexists. reflexivity.
    - assert (Hv : vpi = 0) by (apply Nat.ltb_ge in Ev; lia). destruct (Hok Hv) as [Hmi Hg].
      apply Nat.ltb_lt in Hmi. rewrite Hmi.
      cbn [wexec wtest weval wx_entry wx_stop wx_bound wx_meth wx_slots wx_cls app].
      destruct (meth_arity (nth mi (o_meths C) dummy_meth) =? 1) eqn:Ea.
      + apply Nat.eqb_eq in Ea. specialize (Hg Ea). apply Nat.ltb_lt in Hg.
        cbn [wexec weval wx_entry wx_stop wx_bound]. rewrite Hg. cbn [app]. eexists. reflexivity.
      + cbn [wexec weval wx_entry wx_stop wx_bound app]. eexists. reflexivity.
  Qed.

  Lemma entries_loop xm xs xc n : forall es k, k + length es = n -> (forall e, In e es -> entry_ok e) ->
    wfor (fun ie : nat * (nat * nat * nat) => let '(i, e) := ie in
            match wexec C entry_body (mk_wcx xm xs xc (Some (e, Nat.eqb (S i) n)) None None) with
            | Some (u, _) => Some u | None => None end)
         (combine (seq k (length es)) es)
    = Some (enc_entries C es).
  Proof.
    induction es as [|e es IH]; intros k Hk Hok; cbn [length seq combine wfor enc_entries]; [reflexivity|].
    destruct (entry_step xm xs xc e (Nat.eqb (S k) n) (Hok e (or_introl eq_refl))) as [x' E]. rewrite E.
    cbn [length] in Hk. rewrite (IH (S k)) by (try lia; intros e' H; apply Hok; now right).
    destruct es as [|e' es'].
    - cbn [length] in Hk. assert (En : (S k =? n) = true) by (apply Nat.eqb_eq; lia). rewrite En. cbn [enc_entries]. now rewrite app_nil_r.
    - cbn [length] in Hk. assert (En : (S k =? n) = false) by (apply Nat.eqb_neq; lia). rewrite En. reflexivity.
  Qed.

  Theorem src_write_vtbls : (forall es e, In es (o_vtbl C) -> In e es -> entry_ok e) ->
    wrun C gen_write_vtbls = Some (enc_vtbls C).
  Proof.
    intro Hok. unfold wrun.
    change gen_write_vtbls with (WForClasses (WSeq (WEmit (WOr WFirstSlot WStopIfVtblEmpty)) (WForEntries entry_body))).
    cbn [wexec].
    rewrite (wfor_flat_map _ (fun fe : nat * list (nat * nat * nat) => let '(fs, es) := fe in enc_class C fs es)).
    - reflexivity.
    - intros [fs es] Hin. remember entry_body as B eqn:HB.
      cbn [wexec weval wx_cls wx_meth wx_slots]. subst B. cbv [wx_cls wx_meth wx_slots wx_entry wx_stop wx_bound]. cbv beta iota.
      assert (E1 : (match es with [] => Some stop_bit | _ :: _ => Some 0%N end) = Some (match es with [] => stop_bit | _ => 0%N end))
        by (now destruct es).
      rewrite E1.
      rewrite (entries_loop None None (Some (fs, es)) (length es) es 0 eq_refl).
      + unfold enc_class. cbn [app]. reflexivity.
      + intros e He. apply (Hok es e); [now apply in_combine_r in Hin|exact He].
  Qed.

  (* ---------------------------------------------------------------- dispatch tables *)
  Lemma last_cons_default {A} (l : list A) : forall a d d', last (a :: l) d = last (a :: l) d'.
  Proof. induction l as [|x l IH]; intros a d d'; [reflexivity|]. change (last (x :: l) d = last (x :: l) d'). apply IH. Qed.

  Lemma enc_table_split nspecs c : forall cells,
    enc_table nspecs (c :: cells)
    = map (fun x => nat16 (spec_index nspecs x)) (removelast (c :: cells))
      ++ [u16 (N.lor (nat16 (spec_index nspecs (last cells c))) stop_bit)].
  Proof.
    intro cells. revert c. induction cells as [|c' cells IH]; intro c; [reflexivity|].
    change (enc_table nspecs (c :: c' :: cells)) with (nat16 (spec_index nspecs c) :: enc_table nspecs (c' :: cells)).
    rewrite IH. change (removelast (c :: c' :: cells)) with (c :: removelast (c' :: cells)). cbn [map app].
    replace (last (c' :: cells) c) with (last cells c'); [reflexivity|].
    destruct cells as [|x r]; [reflexivity|]. change (last (x :: r) c' = last (x :: r) c). apply last_cons_default.
  Qed.

  Theorem src_write_tables :
    (forall m t, In (m, t) (combine (o_meths C) (o_tables C)) -> 2 <= meth_arity m -> t_cells t <> []) ->
    wrun C gen_write_tables = Some (enc_dtbls C).
  Proof.
    intro Hne. unfold wrun.
    change gen_write_tables with
      (WForMethods (WIf WArityLt2 WSkip (WSeq WEmitTableButLast (WEmitThroughIterator (WOr (WU16 WLastSpecIndex) WStopBit))))).
    cbn [wexec].
    rewrite (wfor_flat_map _ (fun imst : nat * ((cmeth * list nat) * ctable) =>
                                let '(_, ((m, _), t)) := imst in
                                if meth_arity m <? 2 then [] else enc_table (length (cm_specs m)) (t_cells t))).
    - f_equal. rewrite (flat_map_combine3 (fun m (_ : list nat) t => if meth_arity m <? 2 then [] else enc_table (length (cm_specs m)) (t_cells t)) _ _ _ 0 Hls Hlt).
      unfold enc_dtbls. rewrite <- (combine_drop_mid (o_meths C) (o_slots C) (o_tables C) Hls).
      rewrite flat_map_map.
      apply flat_map_ext_in'. intros [[m sl] t] _. reflexivity.
    - intros [i [[m sl] t]] Hin. cbn [wexec wtest wx_meth].
      destruct (meth_arity m <? 2) eqn:Ea; [reflexivity|].
      assert (Hmt : In (m, t) (combine (o_meths C) (o_tables C))).
      { apply in_combine_r in Hin. rewrite <- (combine_drop_mid (o_meths C) (o_slots C) (o_tables C) Hls).
        apply in_map_iff. exists ((m, sl), t). split; [reflexivity|exact Hin]. }
      apply Nat.ltb_ge in Ea. specialize (Hne m t Hmt Ea).
      destruct (t_cells t) as [|c cells] eqn:Ec; [contradiction|].
      cbn [wexec weval wx_meth]. rewrite Ec. cbn [app]. rewrite enc_table_split. reflexivity.
  Qed.

  (* the three arrays of Codec.encode *)
  Theorem src_encode_cells :
    (forall es e, In es (o_vtbl C) -> In e es -> entry_ok e) ->
    (forall m t, In (m, t) (combine (o_meths C) (o_tables C)) -> 2 <= meth_arity m -> t_cells t <> []) ->
    wrun C gen_write_slots = Some (e_slots (encode C)) /\
    wrun C gen_write_vtbls = Some (e_vtbls (encode C)) /\
    wrun C gen_write_tables = Some (e_dtbls (encode C)).
  Proof.
    intros H1 H2. unfold encode. destruct (vtbl_sizes C) as [[esz dsz] lead]. cbn [e_slots e_vtbls e_dtbls].
    split; [apply src_write_slots|]. split; [now apply src_write_vtbls|now apply src_write_tables].
  Qed.
End WrSrc.
