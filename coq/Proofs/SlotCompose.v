(* SlotCompose.v — the hypothesis of SlotSource.src_assign_slots (every entry of direct_derived is a class index) holds of the
   lattice augment_classes builds: for every well-formed registry, running the translated assign_slots - with the translated
   assign_tree_slots, assign_lattice_slots and lattice slot body below it - yields the slots, first-slot offsets and v-table
   lengths that `compile R` installs. *)
From Coq Require Import List Arith NArith Lia Bool.
From Y2 Require Import Model.Registry Model.Compile Spec.Dispatch Proofs.Interfaces Model.MiniSlot Gen.GenSlot Proofs.SlotSource
                       Proofs.CompileProofs Proofs.CorollaryProofs.
Import ListNotations.
Local Open Scope nat_scope.

Theorem src_assign_slots_wf L ms : lat_wf L ->
  run_assign_slots L ms gen_lattice_assign gen_tree_slots gen_lattice_slots gen_assign_slots = Some (assign_slots L ms).
Proof.
  intro Hlw. apply src_assign_slots. intros c d Hd.
  apply (lw_derived L Hlw c d) in Hd. apply Hd.
Qed.

Theorem src_slots_compile R C : wf_registry R -> compile R = Ok C ->
  exists st, run_assign_slots (o_lat C) (o_meths C) gen_lattice_assign gen_tree_slots gen_lattice_slots gen_assign_slots = Some st /\
             o_slots C = s_slots st /\ o_first C = s_first st.
Proof.
  intros Hwf HC.
  destruct (compile_char R [] Hwf) as [L [ms [_ [_ [HC' [Hlo _]]]]]].
  unfold compile in HC. rewrite HC in HC'. inversion HC' as [EC].
  set (st := assign_slots L ms) in *.
  destruct (install_slots [] L ms st) as [E1 [E2 _]]. pose proof (install_meths [] L ms st) as E5. pose proof (install_lat [] L ms st) as E6.
  subst C. rewrite E1, E2, E5, E6. exists st.
  split; [apply src_assign_slots_wf; exact (lo_wf R L Hlo)|]. split; reflexivity.
Qed.
