(* RegSource.v — the constructors and destructors of the registration objects, as TRANSLATED from core.hpp / detail.hpp on
   this run (Gen/GenReg.v) and interpreted by Model/MiniReg.v:
     - what a first run of add_function<F>'s constructor leaves in the record, and that it registers it once on fn.specs;
       a later run of the same instantiation changes nothing and registers nothing;
     - any sequence of add_function constructions registers each function once, in order of first construction;
     - class_declaration_aux / method: the constructor fills the record and registers the object on its policy's catalog,
       the destructor removes it; for any well-formed sequence of object lifetimes the catalog operations are legal
       operations of Model.Catalog and leave exactly the live objects, in construction order. *)
From Coq Require Import List Bool Arith Lia.
From Y2 Require Import Model.Catalog Model.MiniReg Gen.GenReg Proofs.CatalogProofs.
Import ListNotations.

Definition expected_definition : rrec :=
  [(FMethod, VThisMethod); (FType, VFunctionTypeId); (FNext, VNextArg); (FPf, VThunk);
   (FVpBegin, VSpecIdsBegin); (FVpEnd, VSpecIdsEnd)].

Definition expected_class : rrec :=
  [(CType, VClassTypeId); (CFirstBase, VBaseIdsBegin); (CLastBase, VBaseIdsEnd); (CIsAbstract, VIsAbstract);
   (CStaticVptr, VStaticVptrAddr)].

Definition expected_method : rrec :=
  [(MSlotsStrides, VSlotsStrides); (MName, VDefaultName); (MVpBegin, VVirtualIdsBegin); (MVpEnd, VVirtualIdsEnd);
   (MNotImplemented, VNotImplementedStub); (MAmbiguous, VAmbiguousStub); (MMethodType, VMethodTypeId)].

(* ------------------------------------------------------------------ add_function *)
Theorem src_add_function_first : exists info',
  run_rfun gen_add_function [] [] = Some (info', [], [RPush KFnSpecs OInfo]) /\ rrec_equiv info' expected_definition.
Proof.
  eexists. split; [vm_compute; reflexivity|]. intros f; destruct f; reflexivity.
Qed.

Theorem src_add_function_again : forall info, rrec_equiv info expected_definition ->
  run_rfun gen_add_function info [] = Some (info, [], []).
Proof.
  intros info H. pose proof (H FMethod) as Hm. cbn in Hm.
  unfold run_rfun, gen_add_function.
  cbn [rf_body rf_static_info rexec rceval obj_rec r_info r_this r_ops negb].
  rewrite ?Hm. cbn [rval_eqb negb rexec rceval obj_rec r_info r_this r_ops]. rewrite ?Hm.
  cbn [rval_eqb negb rexec rceval obj_rec r_info r_this r_ops]. reflexivity.
Qed.

(* the record is a static local of the instantiation *)
Theorem src_add_function_static : rf_static_info gen_add_function = true.
Proof. reflexivity. Qed.

(* statics invariant: functions seen so far have the expected record, the others a blank one *)
Definition statics_inv (seen : list nat) (st : list (nat * rrec)) : Prop :=
  forall n, if mem n seen then rrec_equiv (statics_get st n) expected_definition else statics_get st n = [].

Lemma mem_cons n x l : mem n (x :: l) = Nat.eqb x n || mem n l.
Proof. reflexivity. Qed.

Lemma mem_app_single n x l : mem n (l ++ [x]) = mem n l || Nat.eqb x n.
Proof. induction l as [|y r IH]; cbn; [now rewrite orb_false_r|]. rewrite IH. now rewrite orb_assoc. Qed.

Lemma first_occ_run : forall fs seen st, statics_inv seen st ->
  exists st', addfn_ops gen_add_function st fs = Some (map Push (first_occurrences seen fs), st').
Proof.
  induction fs as [|n r IH]; intros seen st Inv; cbn [addfn_ops first_occurrences map]; [eexists; reflexivity|].
  pose proof (Inv n) as Hn. destruct (mem n seen) eqn:Em.
  - rewrite (src_add_function_again _ Hn). cbn [as_catalog_ops].
    destruct (IH seen ((n, statics_get st n) :: st)) as [st' E].
    { intros m. pose proof (Inv m) as Hm. cbn [statics_get]. destruct (Nat.eqb m n) eqn:Emn.
      - apply Nat.eqb_eq in Emn. subst m. rewrite Em. exact Hn.
      - exact Hm. }
    rewrite E. cbn [app]. eexists; reflexivity.
  - rewrite Hn. destruct src_add_function_first as (info' & E1 & Eq1). rewrite E1. cbn [as_catalog_ops].
    destruct (IH (n :: seen) ((n, info') :: st)) as [st' E].
    { intros m. pose proof (Inv m) as Hm. cbn [statics_get]. rewrite mem_cons.
      destruct (Nat.eqb m n) eqn:Emn.
      - apply Nat.eqb_eq in Emn. subst m. rewrite Nat.eqb_refl. cbn [orb]. exact Eq1.
      - rewrite Nat.eqb_sym, Emn. cbn [orb]. exact Hm. }
    rewrite E. cbn [app map]. eexists; reflexivity.
Qed.

Lemma abs_run_cons l o r : abs_run l (o :: r) = abs_run (abs_step l o) r.
Proof. reflexivity. Qed.

Lemma first_occ_legal : forall fs seen l, (forall n, mem n seen = mem n l) ->
  legal_seq l (map Push (first_occurrences seen fs)) = true /\
  abs_run l (map Push (first_occurrences seen fs)) = l ++ first_occurrences seen fs.
Proof.
  induction fs as [|n r IH]; intros seen l H; cbn [first_occurrences map legal_seq].
  - split; [reflexivity|]. unfold abs_run; cbn. now rewrite app_nil_r.
  - destruct (mem n seen) eqn:Em; [apply IH; exact H|].
    cbn [map legal_seq legal abs_step]. rewrite <- H, Em. cbn [negb andb].
    destruct (IH (n :: seen) (l ++ [n])) as [L A].
    { intros m. rewrite mem_cons, mem_app_single, H. apply orb_comm. }
    split; [exact L|]. rewrite abs_run_cons. cbn [abs_step]. eapply eq_trans; [exact A|]. now rewrite <- app_assoc.
Qed.

(* any sequence of constructions of add_function<F> objects: each function's record is registered once, in order of first
   construction, by legal catalog operations *)
Theorem src_add_function_sequence : forall fs, exists st',
  addfn_ops gen_add_function [] fs = Some (map Push (first_occurrences [] fs), st') /\
  legal_seq [] (map Push (first_occurrences [] fs)) = true /\
  abs_run [] (map Push (first_occurrences [] fs)) = first_occurrences [] fs.
Proof.
  intros fs. destruct (first_occ_run fs [] []) as [st' E]; [intros n; reflexivity|].
  exists st'. split; [exact E|]. apply (first_occ_legal fs [] []). reflexivity.
Qed.

(* ------------------------------------------------------------------ class_declaration_aux, method *)
Theorem src_class_ctor : exists this',
  run_rfun gen_class_ctor [] [] = Some ([], this', [RPush KPolicyClasses OThis]) /\ rrec_equiv this' expected_class.
Proof. eexists. split; [vm_compute; reflexivity|]. intros f; destruct f; reflexivity. Qed.

Theorem src_class_dtor : forall this, run_rfun gen_class_dtor [] this = Some ([], this, [RRemove KPolicyClasses OThis]).
Proof. intros this. reflexivity. Qed.

Theorem src_method_ctor : exists this',
  run_rfun gen_method_ctor [] [] = Some ([], this', [RPush KPolicyMethods OThis]) /\ rrec_equiv this' expected_method.
Proof. eexists. split; [vm_compute; reflexivity|]. intros f; destruct f; reflexivity. Qed.

Theorem src_method_dtor : forall this, run_rfun gen_method_dtor [] this = Some ([], this, [RRemove KPolicyMethods OThis]).
Proof. intros this. reflexivity. Qed.

Definition op_of_event (e : event) : Catalog.op := match e with Ctor n => Push n | Dtor n => Remove n end.

Section Lifetimes.
  Variables (k : rcat) (ctor dtor : rfun).
  Hypothesis Hc : exists this', run_rfun ctor [] [] = Some ([], this', [RPush k OThis]).
  Hypothesis Hd : run_rfun dtor [] [] = Some ([], [], [RRemove k OThis]).

  Lemma same_refl : forall n, as_catalog_ops k OThis n [RPush k OThis] = Some [Push n] /\
                              as_catalog_ops k OThis n [RRemove k OThis] = Some [Remove n].
  Proof. intros n. destruct k; split; reflexivity. Qed.

  Lemma events_ops_map : forall evs, events_ops k ctor dtor evs = Some (map op_of_event evs).
  Proof.
    induction evs as [|e r IH]; [reflexivity|]. cbn [events_ops map]. rewrite IH.
    destruct Hc as [this' Ec]. destruct e as [n|n]; cbn [op_of_event].
    - rewrite Ec. rewrite (proj1 (same_refl n)). reflexivity.
    - rewrite Hd. rewrite (proj2 (same_refl n)). reflexivity.
  Qed.

  Lemma lifetimes_legal : forall evs live, lifetimes_ok live evs = true ->
    legal_seq live (map op_of_event evs) = true /\ abs_run live (map op_of_event evs) = live_after live evs.
  Proof.
    induction evs as [|e r IH]; intros live H; [split; reflexivity|].
    destruct e as [n|n]; cbn [lifetimes_ok] in H; apply andb_true_iff in H; destruct H as [H1 H2];
      cbn [map op_of_event legal_seq legal abs_step live_after]; rewrite H1; cbn [andb];
      destruct (IH _ H2) as [L A]; (split; [exact L|]); rewrite abs_run_cons; exact A.
  Qed.

  Theorem lifetimes_catalog : forall evs, lifetimes_ok [] evs = true ->
    exists ops, events_ops k ctor dtor evs = Some ops /\ length ops = length evs /\
                legal_seq [] ops = true /\ abs_run [] ops = live_after [] evs.
  Proof.
    intros evs H. exists (map op_of_event evs). split; [apply events_ops_map|]. split; [apply map_length|].
    apply lifetimes_legal. exact H.
  Qed.
End Lifetimes.

Theorem src_class_lifetimes : forall evs, lifetimes_ok [] evs = true ->
  exists ops, events_ops KPolicyClasses gen_class_ctor gen_class_dtor evs = Some ops /\ length ops = length evs /\
              legal_seq [] ops = true /\ abs_run [] ops = live_after [] evs.
Proof.
  apply lifetimes_catalog.
  - destruct src_class_ctor as (t & E & _). exists t. exact E.
  - apply src_class_dtor.
Qed.

Theorem src_method_lifetimes : forall evs, lifetimes_ok [] evs = true ->
  exists ops, events_ops KPolicyMethods gen_method_ctor gen_method_dtor evs = Some ops /\ length ops = length evs /\
              legal_seq [] ops = true /\ abs_run [] ops = live_after [] evs.
Proof.
  apply lifetimes_catalog.
  - destruct src_method_ctor as (t & E & _). exists t. exact E.
  - apply src_method_dtor.
Qed.

(* composed with the catalog's reachability theorem: the intrusive list represents exactly the live objects *)
Theorem src_class_catalog : forall evs fuel, lifetimes_ok [] evs = true -> length evs <= fuel ->
  exists ops, events_ops KPolicyClasses gen_class_ctor gen_class_dtor evs = Some ops /\
              repr (live_after [] evs) (run fuel ops) /\ iterate fuel (run fuel ops) = Some (live_after [] evs) /\
              fault (run fuel ops) = false.
Proof.
  intros evs fuel H Hf. destruct (src_class_lifetimes evs H) as (ops & E & Len & L & A).
  exists ops. split; [exact E|]. rewrite <- Len in Hf.
  destruct (reachable ops fuel L Hf) as (R & _ & _ & I & _ & _ & F & _). rewrite A in R, I. auto.
Qed.

Theorem src_method_catalog : forall evs fuel, lifetimes_ok [] evs = true -> length evs <= fuel ->
  exists ops, events_ops KPolicyMethods gen_method_ctor gen_method_dtor evs = Some ops /\
              repr (live_after [] evs) (run fuel ops) /\ iterate fuel (run fuel ops) = Some (live_after [] evs) /\
              fault (run fuel ops) = false.
Proof.
  intros evs fuel H Hf. destruct (src_method_lifetimes evs H) as (ops & E & Len & L & A).
  exists ops. split; [exact E|]. rewrite <- Len in Hf.
  destruct (reachable ops fuel L Hf) as (R & _ & _ & I & _ & _ & F & _). rewrite A in R, I. auto.
Qed.

Theorem src_add_function_catalog : forall fs fuel, length fs <= fuel ->
  exists ops st', addfn_ops gen_add_function [] fs = Some (ops, st') /\
                  repr (first_occurrences [] fs) (run fuel ops) /\ iterate fuel (run fuel ops) = Some (first_occurrences [] fs).
Proof.
  intros fs fuel Hf. destruct (src_add_function_sequence fs) as (st' & E & L & A).
  exists (map Push (first_occurrences [] fs)), st'. split; [exact E|].
  assert (Hl : length (map Push (first_occurrences [] fs)) <= fuel).
  { rewrite map_length. assert (G : forall l seen, length (first_occurrences seen l) <= length l).
    { induction l as [|x r IH]; intros seen; cbn [first_occurrences length]; [lia|].
      destruct (mem x seen); [specialize (IH seen); lia | cbn [length]; specialize (IH (x :: seen)); lia]. }
    eapply Nat.le_trans; [apply (G fs [])|exact Hf]. }
  destruct (reachable _ fuel L Hl) as (R & _ & _ & I & _). rewrite A in R, I. auto.
Qed.
