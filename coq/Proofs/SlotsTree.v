(* SlotsTree.v — assign_tree on a single-inheritance subtree: the pairs of each visited class occupy a
   contiguous interval that starts where the v-table of its (unique) parent ends. *)
From Coq Require Import List NArith Arith Lia Bool.
From Y2 Require Import Model.Registry Model.Compile Proofs.Interfaces
  Proofs.SlotsBits Proofs.SlotsOrder Proofs.SlotsState.
Import ListNotations.
Local Open Scope nat_scope.

(* the first loop of assign_tree, named *)
Definition tree_pairs (l : list (nat * nat)) (st : sstate) (base : nat) : sstate * nat :=
  fold_left (fun '(s, nx) mp =>
               (mk_ss (set_slot s mp nx) (s_used s) (s_resv s) (s_mark s) (s_first s) (s_vlen s) (s_fuel_ok s),
                S nx))
            l (st, base).

Lemma assign_tree_S f L ms st c base :
  assign_tree (S f) L ms st c base =
  let r := tree_pairs (used_by_vp ms c) st base in
  let st1 := fst r in
  let next := snd r in
  let st2 := mk_ss (s_slots st1) (s_used st1) (s_resv st1) (s_mark st1)
                   (set_nth c (s_first st1) 0) (set_nth c (s_vlen st1) next) (s_fuel_ok st1) in
  fold_left (fun s d => assign_tree f L ms s d next) (nth c (l_derived L) []) st2.
Proof.
  cbn [assign_tree]. unfold tree_pairs. destruct (fold_left _ (used_by_vp ms c) (st, base)) as [st1 next].
  reflexivity.
Qed.

Lemma tree_pairs_cons mp l st base :
  tree_pairs (mp :: l) st base =
  tree_pairs l (mk_ss (set_slot st mp base) (s_used st) (s_resv st) (s_mark st) (s_first st) (s_vlen st)
                      (s_fuel_ok st)) (S base).
Proof. reflexivity. Qed.

Lemma tree_pairs_spec : forall l st base,
  NoDup l ->
  (forall mi p, In (mi, p) l -> mi < length (s_slots st) /\ p < length (nth mi (s_slots st) [])) ->
  let r := tree_pairs l st base in
  snd r = base + length l /\
  s_used (fst r) = s_used st /\ s_resv (fst r) = s_resv st /\ s_mark (fst r) = s_mark st /\
  s_first (fst r) = s_first st /\ s_vlen (fst r) = s_vlen st /\ s_fuel_ok (fst r) = s_fuel_ok st /\
  length (s_slots (fst r)) = length (s_slots st) /\
  (forall mi, length (nth mi (s_slots (fst r)) []) = length (nth mi (s_slots st) [])) /\
  (forall i mi p, nth_error l i = Some (mi, p) -> slot_of (fst r) mi p = base + i) /\
  (forall mi p, ~ In (mi, p) l -> slot_of (fst r) mi p = slot_of st mi p).
Proof.
  induction l as [|[mi0 p0] l IH]; intros st base Hnd Hv.
  - cbn [tree_pairs fold_left fst snd length]. repeat split; auto.
    intros i mi p H. destruct i; discriminate.
  - rewrite tree_pairs_cons.
    set (st1 := mk_ss (set_slot st (mi0, p0) base) (s_used st) (s_resv st) (s_mark st) (s_first st)
                      (s_vlen st) (s_fuel_ok st)).
    inversion Hnd as [|a l' Hnin Hnd']; subst.
    assert (Hv1 : forall mi p, In (mi, p) l ->
                   mi < length (s_slots st1) /\ p < length (nth mi (s_slots st1) [])).
    { intros mi p Hin. unfold st1; cbn [s_slots]. rewrite set_slot_length, set_slot_length_m.
      apply Hv. now right. }
    destruct (IH st1 (S base) Hnd' Hv1) as (H1 & H2 & H3 & H4 & H5 & H6 & H7 & H8 & H9 & H10 & H11).
    cbv zeta in *.
    destruct (Hv mi0 p0 (or_introl eq_refl)) as [Hmi0 Hp0].
    split; [cbn [length]; lia|].
    split; [rewrite H2; reflexivity|]. split; [rewrite H3; reflexivity|].
    split; [rewrite H4; reflexivity|]. split; [rewrite H5; reflexivity|].
    split; [rewrite H6; reflexivity|]. split; [rewrite H7; reflexivity|].
    split; [rewrite H8; unfold st1; cbn [s_slots]; apply set_slot_length|].
    split; [intros mi; rewrite H9; unfold st1; cbn [s_slots]; apply set_slot_length_m|].
    split.
    + intros i mi p Hi. destruct i as [|i]; cbn [nth_error] in Hi.
      * inversion Hi; subst. rewrite H11 by exact Hnin.
        rewrite slot_of_in. unfold st1; cbn [s_slots]. rewrite slot_set_slot_same by assumption. lia.
      * rewrite (H10 i mi p Hi). lia.
    + intros mi p Hn. rewrite H11 by (intros Hc; apply Hn; now right).
      rewrite !slot_of_in. unfold st1; cbn [s_slots]. apply slot_set_slot_other.
      intros E. apply Hn. left. now symmetry.
Qed.

Section Tree.
  Variable L : lattice.
  Variable ms : list cmeth.
  Hypothesis Hwf : lat_wf L.

  Notation n := (ncls L).
  Notation tb := (tb_of L).
  Notation cov := (cov_of L).
  Notation direct := (direct_of_ L).
  Notation derived := (derived_of_ L).
  Notation ubv := (used_by_vp ms).

  (* what assign_tree establishes at a class x *)
  Definition tree_at (st : sstate) (x : nat) : Prop :=
    first_of st x = 0 /\
    exists lo,
      (forall y, In y (tb x) -> vlen_of st y <= lo) /\
      vlen_of st x = lo + length (ubv x) /\
      (forall i mi p, nth_error (ubv x) i = Some (mi, p) -> slot_of st mi p = lo + i).

  Lemma tree_at_fp (S : nat -> Prop) st st' x :
    fp ms S st st' -> (forall y, In x (cov y) -> ~ S y) -> x < n -> tree_at st x -> tree_at st' x.
  Proof.
    intros (A & B & _) Hs Hx (Hf & lo & Hlo & Hv & Hsl).
    assert (Hxs : ~ S x) by (apply Hs; now apply cov_refl).
    destruct (A x Hxs) as (a & b & _ & _).
    split; [congruence|]. exists lo. split; [|split].
    - intros y Hy. assert (Hys : ~ S y) by (apply Hs; now apply cov_of_tb).
      destruct (A y Hys) as (_ & b' & _ & _). rewrite b'. now apply Hlo.
    - congruence.
    - intros i mi p Hi. rewrite B; [now apply Hsl|].
      intros y Hy. apply nth_error_In in Hi. apply ubv_in in Hi.
      assert (y = x) by congruence. subst y. exact Hxs.
  Qed.

  Lemma assign_tree_spec : forall fuel st c base,
    c < n -> (forall z, In z (cov c) -> tree_cls L z) -> length (cov c) <= fuel ->
    sgood L ms st -> (forall y, In y (tb c) -> vlen_of st y <= base) ->
    let st' := assign_tree fuel L ms st c base in
    sgood L ms st' /\
    s_used st' = s_used st /\ s_resv st' = s_resv st /\ s_mark st' = s_mark st /\
    fp ms (fun z => In z (cov c)) st st' /\
    (forall x, In x (cov c) -> tree_at st' x).
  Proof.
    induction fuel as [|f IHf]; intros st c base Hc Htree Hfuel Hg Hbase.
    { pose proof (cov_len_pos L Hwf c Hc). lia. }
    cbv zeta. rewrite assign_tree_S.
    (* the pairs of c *)
    assert (Hvalid : forall mi p, In (mi, p) (ubv c) ->
                       mi < length (s_slots st) /\ p < length (nth mi (s_slots st) [])).
    { intros mi p Hin. apply ubv_in in Hin. eapply vp_at_valid; eauto. }
    destruct (tree_pairs_spec (ubv c) st base (ubv_nodup ms c) Hvalid)
      as (H1 & H2 & H3 & H4 & H5 & H6 & H7 & H8 & H9 & H10 & H11).
    cbv zeta in *.
    set (r := tree_pairs (ubv c) st base) in *.
    set (next := snd r) in *.
    set (st2 := mk_ss (s_slots (fst r)) (s_used (fst r)) (s_resv (fst r)) (s_mark (fst r))
                      (set_nth c (s_first (fst r)) 0) (set_nth c (s_vlen (fst r)) next)
                      (s_fuel_ok (fst r))).
    assert (Hg2 : sgood L ms st2).
    { constructor; unfold st2; cbn [s_slots s_used s_resv s_mark s_first s_vlen].
      - rewrite H8. apply Hg.
      - intros mi m Hm. rewrite H9. now apply Hg.
      - rewrite H2. apply Hg.
      - rewrite H3. apply Hg.
      - rewrite H4. apply Hg.
      - rewrite set_nth_length, H5. apply Hg.
      - rewrite set_nth_length, H6. apply Hg. }
    assert (Hfirst2 : forall z, first_of st2 z = if Nat.eqb z c then 0 else first_of st z).
    { intros z. unfold first_of, st2; cbn [s_first]. destruct (Nat.eqb_spec z c) as [->|Hne].
      - apply nth_set_nth_eq. rewrite H5, (sg_first L ms st Hg). exact Hc.
      - rewrite nth_set_nth_neq by exact Hne. now rewrite H5. }
    assert (Hvlen2 : forall z, vlen_of st2 z = if Nat.eqb z c then next else vlen_of st z).
    { intros z. unfold vlen_of, st2; cbn [s_vlen]. destruct (Nat.eqb_spec z c) as [->|Hne].
      - apply nth_set_nth_eq. rewrite H6, (sg_vlen L ms st Hg). exact Hc.
      - rewrite nth_set_nth_neq by exact Hne. now rewrite H6. }
    assert (Hslot2 : forall mi p, slot_of st2 mi p = slot_of (fst r) mi p) by reflexivity.
    assert (Hfp2 : fp ms (fun z => In z (cov c)) st st2).
    { split; [|split].
      - intros z Hz. assert (Hne : z <> c) by (intros ->; apply Hz; now apply cov_refl).
        rewrite Hfirst2, Hvlen2. apply Nat.eqb_neq in Hne. rewrite Hne.
        repeat split; auto.
        + unfold used_of, st2; cbn [s_used]. now rewrite H2.
        + unfold mark_of, st2; cbn [s_mark]. now rewrite H4.
      - intros mi p Hy. rewrite Hslot2. apply H11. intros Hin. apply ubv_in in Hin.
        apply (Hy c Hin). now apply cov_refl.
      - unfold st2; cbn [s_fuel_ok]. exact H7. }
    assert (Hat2 : tree_at st2 c).
    { split; [rewrite Hfirst2, Nat.eqb_refl; reflexivity|].
      exists base. split; [|split].
      - intros y Hy. rewrite Hvlen2.
        destruct (Nat.eqb_spec y c) as [->|_]; [exfalso; eapply (lw_tb_irrefl L Hwf); eauto|].
        now apply Hbase.
      - rewrite Hvlen2, Nat.eqb_refl. exact H1.
      - intros i mi p Hi. rewrite Hslot2. now apply H10. }
    assert (Hnext2 : vlen_of st2 c = next) by (rewrite Hvlen2, Nat.eqb_refl; reflexivity).
    assert (Hbase2 : forall y, In y (tb c) -> vlen_of st2 y <= next).
    { intros y Hy. rewrite Hvlen2.
      destruct (Nat.eqb_spec y c) as [->|_]; [lia|]. specialize (Hbase y Hy). lia. }
    (* the children *)
    assert (Hkids : forall l, NoDup l -> (forall d, In d l -> In d (derived c)) ->
              forall sk, sgood L ms sk -> vlen_of sk c = next ->
                         (forall y, In y (tb c) -> vlen_of sk y <= next) ->
              let sk' := fold_left (fun s d => assign_tree f L ms s d next) l sk in
              sgood L ms sk' /\
              s_used sk' = s_used sk /\ s_resv sk' = s_resv sk /\ s_mark sk' = s_mark sk /\
              fp ms (fun z => exists d, In d l /\ In z (cov d)) sk sk' /\
              (forall d x, In d l -> In x (cov d) -> tree_at sk' x)).
    { induction l as [|d l IHl]; intros Hnd Hsub sk Hgk Hck Hbk; cbn [fold_left].
      - cbv zeta. split; [exact Hgk|]. do 3 (split; [reflexivity|]).
        split; [apply fp_refl|]. intros d x [].
      - cbv zeta. inversion Hnd as [|a l' Hnin Hnd']; subst.
        assert (Hd : In d (derived c)) by (apply Hsub; now left).
        destruct (derived_spec L Hwf c d Hd) as (_ & Hdn & Hcd & Hctd).
        assert (Hcovd : forall z, In z (cov d) -> In z (cov c)).
        { intros z Hz. eapply cov_trans; eauto. now apply derived_cov. }
        assert (Htd : forall y, In y (tb d) -> vlen_of sk y <= next).
        { intros y Hy. destruct (parent L Hwf _ _ Hy) as (q & Hq & Hqy).
          assert (Hsd : single L d).
          { apply (Htree d); [now apply derived_cov|now apply cov_refl]. }
          assert (q = c) by (eapply single_eq; eauto). subst q.
          destruct (cov_cases L Hwf _ _ Hqy) as [->|Hyc]; [lia|now apply Hbk]. }
        destruct (IHf sk d next Hdn) as (G1 & G2 & G3 & G4 & G5 & G6); auto.
        { pose proof (cov_size_lt L Hwf c d Hd). lia. }
        cbv zeta in *.
        set (sk1 := assign_tree f L ms sk d next) in *.
        (* c and its bases are outside cov d *)
        assert (Hout : forall y, In c (cov y) -> ~ In y (cov d)).
        { intros y Hy Hyd. apply (derived_not_cov L Hwf c d Hd). eapply cov_trans; eauto. }
        destruct G5 as (A & B & C).
        assert (Hck1 : vlen_of sk1 c = next).
        { destruct (A c) as (_ & b & _); [apply Hout; now apply cov_refl|]. congruence. }
        assert (Hbk1 : forall y, In y (tb c) -> vlen_of sk1 y <= next).
        { intros y Hy. destruct (A y) as (_ & b & _); [apply Hout; now apply cov_of_tb|].
          rewrite b. now apply Hbk. }
        destruct (IHl Hnd' (fun d' Hd' => Hsub d' (or_intror Hd')) sk1 G1 Hck1 Hbk1)
          as (K1 & K2 & K3 & K4 & K5 & K6).
        cbv zeta in *.
        split; [exact K1|]. split; [congruence|]. split; [congruence|]. split; [congruence|].
        split.
        + eapply fp_trans.
          * eapply fp_weaken; [|exact (conj A (conj B C))].
            intros z Hz. exists d; split; [now left|exact Hz].
          * eapply fp_weaken; [|exact K5].
            intros z (d' & Hd' & Hz). exists d'; split; [now right|exact Hz].
        + intros d' x [<-|Hd'] Hx.
          * eapply tree_at_fp; [exact K5| |now apply (cov_lt L Hwf) in Hx|now apply G6].
            intros y Hy (d' & Hd' & Hyd').
            assert (Hne : d <> d') by (intros ->; now apply Hnin).
            assert (Htx : tree_cls L x) by (apply Htree; now apply Hcovd).
            assert (Hxd' : In x (cov d')) by (eapply cov_trans; eauto).
            exact (children_disjoint L Hwf c d d' x Hd (Hsub d' (or_intror Hd')) Hne Htx Hx Hxd').
          * now apply (K6 d' x). }
    destruct (Hkids (derived c) (lw_derived_nodup L Hwf c) (fun d H => H) st2 Hg2 Hnext2 Hbase2)
      as (K1 & K2 & K3 & K4 & K5 & K6).
    cbv zeta in *. fold (derived_of_ L c).
    set (st' := fold_left (fun s d => assign_tree f L ms s d next) (derived c) st2) in *.
    assert (Hsub : forall z, (exists d, In d (derived c) /\ In z (cov d)) -> In z (cov c)).
    { intros z (d & Hd & Hz). eapply cov_trans; eauto. now apply derived_cov. }
    split; [exact K1|].
    split; [rewrite K2; unfold st2; cbn [s_used]; exact H2|].
    split; [rewrite K3; unfold st2; cbn [s_resv]; exact H3|].
    split; [rewrite K4; unfold st2; cbn [s_mark]; exact H4|].
    split.
    - eapply fp_trans; [exact Hfp2|]. eapply fp_weaken; [exact Hsub|exact K5].
    - intros x Hx. destruct (cov_cases L Hwf _ _ Hx) as [->|Hcx].
      + eapply tree_at_fp; [exact K5| |exact Hc|exact Hat2].
        intros y Hy (d & Hd & Hyd). apply (derived_not_cov L Hwf c d Hd). eapply cov_trans; eauto.
      + destruct (cov_child L Hwf c x Hcx) as (d & Hd & Hxd). now apply (K6 d x).
  Qed.
End Tree.
