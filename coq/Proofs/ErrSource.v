(* ErrSource.v — the resolution_error record built by method::not_implemented_handler / ambiguous_handler with
   detail::get_tip, as TRANSLATED from core.hpp / detail.hpp on this run (Gen/GenErr.v) and interpreted by Model/MiniErr.v,
   IS Model.Errors.make_error: status, arity = number of virtual arguments, types = the dynamic ids of exactly the virtual
   arguments, in order, truncated at max_types — for every list of arguments, virtual_ptr or virtual_<...> or plain, in any
   positions.  The local buffer never overflows. *)
From Coq Require Import List Arith Lia.
From Y2 Require Import Model.Registry Gen.GenCoreConsts Model.Errors Model.MiniErr Gen.GenErr.
Import ListNotations.
Local Open Scope nat_scope.

Lemma tip_fold args : forall acc,
  fold_left (fun acc a => tip_exec gen_get_tip a acc) args acc = acc ++ virtual_ids (acts_of args).
Proof.
  induction args as [|[k t] args IH]; intros acc; cbn [fold_left acts_of map virtual_ids flat_map].
  - now rewrite app_nil_r.
  - rewrite IH. unfold gen_get_tip. destruct k; cbn; rewrite <- ?app_assoc; reflexivity.
Qed.

Lemma virtual_count args :
  length (filter (fun a => is_virtual_kind (fst a)) args) = length (virtual_ids (acts_of args)).
Proof.
  induction args as [|[k t] args IH]; [reflexivity|]. cbn [filter acts_of map virtual_ids flat_map fst].
  destruct k; cbn; rewrite ?IH; reflexivity.
Qed.

Lemma virtual_le args : length (virtual_ids (acts_of args)) <= length args.
Proof.
  induction args as [|[k t] args IH]; [cbn; lia|]. change (acts_of ((k, t) :: args)) with ((if is_virtual_kind k then Some t else None) :: acts_of args).
  cbn [virtual_ids flat_map length]. fold (virtual_ids (acts_of args)). destruct k; cbn [is_virtual_kind app length]; lia.
Qed.

Theorem src_not_implemented args :
  run_stub gen_not_implemented gen_get_tip args = Some (make_error status_no_definition (acts_of args)).
Proof.
  unfold run_stub, make_error. rewrite (tip_fold args []). cbn [app].
  unfold gen_not_implemented. cbn [sb_buffer sb_status sb_arity sb_copied cnt_eval status_code].
  rewrite virtual_count. pose proof (virtual_le args) as H. apply Nat.leb_le in H. rewrite H. reflexivity.
Qed.

Theorem src_ambiguous args :
  run_stub gen_ambiguous gen_get_tip args = Some (make_error status_ambiguous (acts_of args)).
Proof.
  unfold run_stub, make_error. rewrite (tip_fold args []). cbn [app].
  unfold gen_ambiguous. cbn [sb_buffer sb_status sb_arity sb_copied cnt_eval status_code].
  rewrite virtual_count. pose proof (virtual_le args) as H. apply Nat.leb_le in H. rewrite H. reflexivity.
Qed.
