(* CodecProofs.v — C13: decode (encode C) gives back what update installed, in place, inside the emitted struct.
   Structure:
     1. 16-bit cells: the marker bits are set, tested and cleared without loss on numbers below index_bit
     2. sizes computed by the encoder = lengths of what it emits; the headroom inequality for every decoding step
     3. slots_strides            (dec_slots  o enc_slots)
     4. multi-method tables      (dec_tables o enc_dtbls   = place_tables)
     5. v-tables, in place       (dec_classes o enc_vtbls  = place_vtbls), with the log of writes
     6. assembly on compile R for a well-formed registry *)
From Y2 Require Import Model.Registry Model.Compile Model.Codec Gen.GenCodecConsts Spec.Dispatch.
From Y2 Require Import Proofs.Interfaces Proofs.LatListFacts Proofs.InstallProofs Proofs.ResolveProofs Proofs.CompileProofs
     Proofs.CorollaryProofs Proofs.SlotsProofs Proofs.TablesProofs.
From Coq Require Import Lia.
Local Open Scope nat_scope.

(* ------------------------------------------------------------------ 1. cells *)

Section Bits.
  Local Open Scope N_scope.

  Lemma testbit_lt_pow2 x k : x < 2 ^ k -> N.testbit x k = false.
  Proof. intro H. rewrite <- (N.mod_small x (2 ^ k)) by exact H. apply N.mod_pow2_bits_high. lia. Qed.

  Lemma land_pow2_small x k : x < 2 ^ k -> N.land x (2 ^ k) = 0.
  Proof.
    intro H. apply N.bits_inj. intro n. rewrite N.land_spec, N.pow2_bits_eqb, N.bits_0.
    destruct (N.eqb_spec k n) as [<-|Hne]; [rewrite (testbit_lt_pow2 x k H); reflexivity|apply Bool.andb_false_r].
  Qed.

  Lemma lor_pow2_small x k : x < 2 ^ k -> N.lor x (2 ^ k) = x + 2 ^ k.
  Proof.
    intro H. pose proof (land_pow2_small x k H) as E. rewrite (N.add_nocarry_lxor _ _ E). symmetry. apply N.lxor_lor. exact E.
  Qed.

  Lemma ldiff_pow2_set x k : x < 2 ^ k -> N.ldiff (x + 2 ^ k) (2 ^ k) = x.
  Proof.
    intro H. rewrite <- (lor_pow2_small x k H). apply N.bits_inj. intro n.
    rewrite N.ldiff_spec, N.lor_spec, N.pow2_bits_eqb.
    destruct (N.eqb_spec k n) as [<-|Hne]; cbn.
    - rewrite Bool.andb_false_r. symmetry. apply testbit_lt_pow2. exact H.
    - rewrite Bool.orb_false_r, Bool.andb_true_r. reflexivity.
  Qed.

  Lemma land_pow2_set x k : x < 2 ^ k -> N.land (x + 2 ^ k) (2 ^ k) = 2 ^ k.
  Proof.
    intro H. rewrite <- (lor_pow2_small x k H). apply N.bits_inj. intro n.
    rewrite N.land_spec, N.lor_spec, N.pow2_bits_eqb.
    destruct (N.eqb_spec k n) as [<-|Hne]; cbn; [rewrite Bool.orb_true_r; reflexivity|apply Bool.andb_false_r].
  Qed.

  Lemma ldiff_pow2_small x k : x < 2 ^ k -> N.ldiff x (2 ^ k) = x.
  Proof.
    intro H. apply N.bits_inj. intro n. rewrite N.ldiff_spec, N.pow2_bits_eqb.
    destruct (N.eqb_spec k n) as [<-|Hne]; cbn; [rewrite Bool.andb_false_r; symmetry; apply testbit_lt_pow2; exact H|apply Bool.andb_true_r].
  Qed.

  (* the constants, as the translator read them *)
  Lemma stop_bit_eq : stop_bit = 2 ^ 15. Proof. reflexivity. Qed.
  Lemma index_bit_eq : index_bit = 2 ^ 14. Proof. reflexivity. Qed.
  Lemma u16_small x : x < 2 ^ 16 -> u16 x = x.
  Proof. intro H. unfold u16. apply N.mod_small. exact H. Qed.

  (* a number below stop_bit, with or without the stop bit *)
  Lemma cell_plain x : x < 2 ^ 15 -> has_bit stop_bit (u16 x) = false /\ clr_bit stop_bit (u16 x) = x.
  Proof.
    intro H. rewrite u16_small by lia. unfold has_bit, clr_bit. rewrite stop_bit_eq.
    rewrite land_pow2_small, ldiff_pow2_small by exact H. split; reflexivity.
  Qed.

  Lemma cell_stop x : x < 2 ^ 15 ->
    has_bit stop_bit (u16 (N.lor x stop_bit)) = true /\ clr_bit stop_bit (u16 (N.lor x stop_bit)) = x.
  Proof.
    intro H. rewrite stop_bit_eq. rewrite lor_pow2_small by exact H. rewrite u16_small by lia.
    unfold has_bit, clr_bit. rewrite land_pow2_set, ldiff_pow2_set by exact H. split; reflexivity.
  Qed.

  (* a number below index_bit, with or without the index bit *)
  Lemma code_plain x : x < 2 ^ 14 -> has_bit index_bit x = false.
  Proof. intro H. unfold has_bit. rewrite index_bit_eq, land_pow2_small by exact H. reflexivity. Qed.

  Lemma code_index x : x < 2 ^ 14 ->
    N.lor x index_bit = x + 2 ^ 14 /\ has_bit index_bit (x + 2 ^ 14) = true /\ clr_bit index_bit (x + 2 ^ 14) = x.
  Proof.
    intro H. rewrite index_bit_eq. rewrite lor_pow2_small by exact H. unfold has_bit, clr_bit.
    rewrite land_pow2_set, ldiff_pow2_set by exact H. repeat split.
  Qed.
End Bits.

Lemma lim_eq : lim = 16384.
Proof. reflexivity. Qed.

Lemma of_nat_lim x : x < lim -> (N.of_nat x < 2 ^ 14)%N.
Proof. rewrite lim_eq. intro H. change (2 ^ 14)%N with (N.of_nat 16384). lia. Qed.

(* the three kinds of cells of the emitted data *)
Lemma nat16_plain x : x < lim ->
  has_bit stop_bit (nat16 x) = false /\ clr_bit stop_bit (nat16 x) = N.of_nat x /\ nat16 x = N.of_nat x.
Proof.
  intro H. apply of_nat_lim in H. unfold nat16. destruct (cell_plain (N.of_nat x)) as [H1 H2]; [lia|].
  repeat split; try assumption. apply u16_small. lia.
Qed.

Lemma lor0_plain x : x < lim ->
  has_bit stop_bit (u16 (N.lor (N.of_nat x) 0)) = false /\ clr_bit stop_bit (u16 (N.lor (N.of_nat x) 0)) = N.of_nat x.
Proof. intro H. rewrite N.lor_0_r. destruct (nat16_plain x H) as [H1 [H2 _]]. split; assumption. Qed.

Lemma lor_stop x : x < lim ->
  has_bit stop_bit (u16 (N.lor (N.of_nat x) stop_bit)) = true /\ clr_bit stop_bit (u16 (N.lor (N.of_nat x) stop_bit)) = N.of_nat x.
Proof. intro H. apply of_nat_lim in H. apply cell_stop. lia. Qed.

Lemma index_cell g (s : N) : g < lim -> s = 0%N \/ s = stop_bit ->
  let c := u16 (N.lor (N.lor (N.of_nat g) index_bit) s) in
  has_bit stop_bit c = negb (N.eqb s 0) /\
  has_bit index_bit (clr_bit stop_bit c) = true /\
  N.to_nat (clr_bit index_bit (clr_bit stop_bit c)) = g.
Proof.
  intros H Hs c. apply of_nat_lim in H. destruct (code_index (N.of_nat g) H) as [E1 [E2 E3]].
  unfold c. rewrite E1. destruct Hs as [-> | ->].
  - rewrite N.lor_0_r. destruct (cell_plain (N.of_nat g + 2 ^ 14)) as [H1 H2]; [lia|].
    rewrite H1, H2, E2, E3. repeat split. apply Nat2N.id.
  - destruct (cell_stop (N.of_nat g + 2 ^ 14)) as [H1 H2]; [lia|].
    rewrite H1, H2, E2, E3. repeat split. apply Nat2N.id.
Qed.

Lemma value_cell x (s : N) : x < lim -> s = 0%N \/ s = stop_bit ->
  let c := u16 (N.lor (N.of_nat x) s) in
  has_bit stop_bit c = negb (N.eqb s 0) /\ clr_bit stop_bit c = N.of_nat x.
Proof.
  intros H Hs c. unfold c. destruct Hs as [-> | ->].
  - destruct (lor0_plain x H) as [H1 H2]. split; assumption.
  - destruct (lor_stop x H) as [H1 H2]. split; assumption.
Qed.

(* ------------------------------------------------------------------ 2. what the proofs need from an update result *)

Inductive all3 {A B C} (P : A -> B -> C -> Prop) : list A -> list B -> list C -> Prop :=
| all3_nil : all3 P [] [] []
| all3_cons a b c la lb lc : P a b c -> all3 P la lb lc -> all3 P (a :: la) (b :: lb) (c :: lc).

Lemma all3_nth {A B C} (P : A -> B -> C -> Prop) la lb lc : all3 P la lb lc ->
  forall i a, nth_error la i = Some a -> exists b c, nth_error lb i = Some b /\ nth_error lc i = Some c /\ P a b c.
Proof.
  induction 1 as [|a b c la lb lc Hp H IH]; intros i x Hi; [destruct i; discriminate|].
  destruct i as [|i]; cbn [nth_error] in *.
  - inversion Hi; subst. exists b, c. auto.
  - apply IH. exact Hi.
Qed.

Lemma all3_length {A B C} (P : A -> B -> C -> Prop) la lb lc : all3 P la lb lc -> length lb = length la /\ length lc = length la.
Proof. induction 1 as [|a b c la lb lc Hp H [IH1 IH2]]; cbn [length]; split; congruence. Qed.

Notation entry := (nat * nat * nat)%type (only parsing).

(* one method with its slots and its table *)
Definition meth_good (m : cmeth) (sl : list nat) (t : ctable) : Prop :=
  1 <= meth_arity m /\ length sl = meth_arity m /\ length (t_strides t) = meth_arity m - 1 /\
  t_cells t <> [] /\ (forall i, In (CDef i) (t_cells t) -> i < length (cm_specs m)) /\
  S (length (cm_specs m)) < lim /\
  Forall (fun x => x < lim) sl /\ Forall (fun x => x < lim) (t_strides t).

(* one v-table entry: a method of the registry; a parameter other than the first one belongs to a multi-method *)
Definition entry_good (C : compiled) (e : entry) : Prop :=
  let '(mi, vpi, g) := e in
  mi < lim /\ g < lim /\ exists m, nth_error (o_meths C) mi = Some m /\ (vpi = 0 \/ 2 <= meth_arity m).

Record codec_ok (C : compiled) : Prop := {
  ck_meths : all3 meth_good (o_meths C) (o_slots C) (o_tables C);
  ck_len_first : length (o_first C) = length (o_vtbl C);
  ck_first : Forall (fun x => x < lim) (o_first C);
  ck_entries : Forall (Forall (entry_good C)) (o_vtbl C)
}.

Lemma ck_meth_at C mi m : codec_ok C -> nth_error (o_meths C) mi = Some m ->
  meth_good m (nth mi (o_slots C) []) (nth mi (o_tables C) dummy_tab) /\ nth mi (o_meths C) dummy_meth = m.
Proof.
  intros Hok Hm. destruct (all3_nth _ _ _ _ (ck_meths C Hok) mi m Hm) as [sl [t [H1 [H2 Hg]]]].
  rewrite (nth_error_nth _ _ _ H1), (nth_error_nth _ _ _ H2), (nth_error_nth _ _ _ Hm). split; [exact Hg|reflexivity].
Qed.

(* ------------------------------------------------------------------ sums and folds *)

Lemma fold_add {A} (f : A -> nat) l : forall acc, fold_left (fun s x => s + f x) l acc = acc + list_sum (map f l).
Proof. induction l as [|x l IH]; intro acc; simpl; [lia|]. rewrite IH. lia. Qed.

Lemma nth_app_mid {A} (pre l post : list A) d k : k < length l -> nth (length pre + k) (pre ++ l ++ post) d = nth k l d.
Proof. intro H. rewrite app_nth2 by lia. replace (length pre + k - length pre) with k by lia. apply app_nth1. exact H. Qed.

Lemma pad_fits l n : length l <= n -> length (pad l n) = n.
Proof. intro H. unfold pad. rewrite app_length, repeat_length. lia. Qed.

Lemma pad_exact l : pad l (length l) = l.
Proof. unfold pad. rewrite Nat.sub_diag. apply app_nil_r. Qed.

(* ------------------------------------------------------------------ 3. slots and strides *)

Definition ss_of (sl : list nat) (t : ctable) : list nat := sl ++ t_strides t.

Lemma slots_size_eq ms sls ts : all3 meth_good ms sls ts -> forall acc,
  fold_left (fun sum m => sum + 2 * meth_arity m - 1) ms acc
  = acc + length (flat_map (fun '(sl, t) => map nat16 (sl ++ t_strides t)) (combine sls ts)).
Proof.
  induction 1 as [|m sl t ms sls ts Hg H IH]; intro acc; cbn [fold_left combine flat_map]; [cbn; lia|].
  rewrite IH. rewrite app_length, map_length, app_length.
  destruct Hg as [Ha [Hsl [Hst _]]]. lia.
Qed.

Lemma map_nth_seq (l : list nat) : map (fun i => nth i l 0) (seq 0 (length l)) = l.
Proof.
  apply (nth_ext _ _ 0 0); [rewrite map_length, seq_length; reflexivity|].
  intros k Hk. rewrite map_length, seq_length in Hk. rewrite (nth_map_seq (fun i => nth i l 0)) by exact Hk. reflexivity.
Qed.

Lemma dec_slots_ok E cells ms sls ts : all3 meth_good ms sls ts ->
  forall pre post, cells = repeat 0%N (e_H E) ++ pre ++ flat_map (fun '(sl, t) => map nat16 (sl ++ t_strides t)) (combine sls ts) ++ post ->
  length pre + length (flat_map (fun '(sl, t) => map nat16 (sl ++ t_strides t)) (combine sls ts)) <= e_S E ->
  dec_slots E cells (map meth_arity ms) (length pre) = COk (map (fun '(sl, t) => ss_of sl t) (combine sls ts)).
Proof.
  induction 1 as [|m sl t ms sls ts Hg H IH]; intros pre post Hcells Hfit; cbn [map dec_slots combine]; [reflexivity|].
  destruct Hg as [Ha [Hsl [Hst [_ [_ [_ [Bsl Bst]]]]]]].
  cbn [combine flat_map] in Hcells, Hfit. rewrite app_length, map_length, app_length in Hfit.
  set (n := 2 * meth_arity m - 1).
  assert (En : n = length (sl ++ t_strides t)) by (rewrite app_length; unfold n; lia).
  destruct (Nat.ltb_spec (e_S E) (length pre + n)) as [Hlt|Hge]; [rewrite En, app_length in Hlt; lia|].
  specialize (IH (pre ++ map nat16 (sl ++ t_strides t)) post).
  rewrite app_length, map_length, <- En in IH. rewrite IH.
  - cbn [cbind]. f_equal. f_equal. unfold ss_of. rewrite En.
    rewrite <- (map_nth_seq (sl ++ t_strides t)) at 2. apply map_ext_in. intros i Hi. apply in_seq in Hi.
    rewrite Hcells. rewrite app_nth2 by (rewrite repeat_length; lia). rewrite repeat_length.
    replace (e_H E + length pre + i - e_H E) with (length pre + i) by lia.
    rewrite <- app_assoc. rewrite nth_app_mid by (rewrite map_length; lia).
    rewrite (nth_map_lt nat16 _ _ 0) by lia.
    assert (Hb : nth i (sl ++ t_strides t) 0 < lim).
    { assert (Hall : Forall (fun x => x < lim) (sl ++ t_strides t)) by (apply Forall_app; split; assumption).
      rewrite Forall_forall in Hall. apply Hall. apply nth_In. lia. }
    destruct (nat16_plain _ Hb) as [_ [_ ->]]. apply Nat2N.id.
  - rewrite Hcells. rewrite <- !app_assoc. reflexivity.
  - rewrite En, app_length. lia.
Qed.

(* ------------------------------------------------------------------ 4. multi-method dispatch tables *)

Lemma nth_error_mid {A} (pre : list A) x post : nth_error (pre ++ x :: post) (length pre) = Some x.
Proof. rewrite nth_error_app2 by lia. rewrite Nat.sub_diag. reflexivity. Qed.

Lemma def_word_cell ctx mi ns c : nth_error (x_nspecs ctx) mi = Some ns -> (forall i, c = CDef i -> i < ns) ->
  def_word ctx mi (N.of_nat (spec_index ns c)) = COk (word_of_cell mi c).
Proof.
  intros Hn Hc. unfold def_word. rewrite Hn, Nat2N.id. destruct c as [i| |]; cbn [spec_index word_of_cell].
  - destruct (Nat.ltb_spec i ns) as [_|H]; [reflexivity|]. specialize (Hc i eq_refl). lia.
  - rewrite Nat.ltb_irrefl, Nat.eqb_refl. reflexivity.
  - destruct (Nat.ltb_spec (S ns) ns) as [H|_]; [lia|]. destruct (Nat.eqb_spec (S ns) ns) as [H|_]; [lia|]. rewrite Nat.eqb_refl. reflexivity.
Qed.

Lemma spec_index_lim ns c : (forall i, c = CDef i -> i < ns) -> S ns < lim -> spec_index ns c < lim.
Proof. intros Hc Hn. destruct c as [i| |]; cbn [spec_index]; [specialize (Hc i eq_refl)|..]; lia. Qed.

Lemma enc_table_length ns cells : length (enc_table ns cells) = length cells.
Proof.
  induction cells as [|c [|c' rest] IH]; [reflexivity|reflexivity|].
  change (enc_table ns (c :: c' :: rest)) with (nat16 (spec_index ns c) :: enc_table ns (c' :: rest)).
  cbn [length] in *. rewrite IH. reflexivity.
Qed.

Lemma dec_table_ok ctx mi ns : nth_error (x_nspecs ctx) mi = Some ns -> S ns < lim ->
  forall cells, (forall i, In (CDef i) cells -> i < ns) -> cells <> [] ->
  forall fuel pre post, length cells <= fuel ->
    dec_table fuel ctx mi (pre ++ enc_table ns cells ++ post) (length pre)
    = COk (map (word_of_cell mi) cells, length pre + length cells).
Proof.
  intros Hn Hns. induction cells as [|c [|c' rest] IH]; intros Hdef Hne fuel pre post Hfuel; [congruence| |].
  - destruct fuel as [|f]; [cbn [length] in Hfuel; lia|]. cbn [enc_table dec_table app].
    rewrite nth_error_mid.
    assert (Hc : forall i, c = CDef i -> i < ns) by (intros i ->; apply Hdef; left; reflexivity).
    pose proof (spec_index_lim ns c Hc Hns) as Hlim.
    destruct (nat16_plain _ Hlim) as [_ [_ ->]]. destruct (lor_stop _ Hlim) as [-> ->].
    rewrite (def_word_cell ctx mi ns c Hn Hc). cbn [cbind map length]. f_equal. f_equal. lia.
  - destruct fuel as [|f]; [cbn [length] in Hfuel; lia|].
    change (enc_table ns (c :: c' :: rest)) with (nat16 (spec_index ns c) :: enc_table ns (c' :: rest)).
    cbn [dec_table app]. rewrite nth_error_mid.
    assert (Hc : forall i, c = CDef i -> i < ns) by (intros i ->; apply Hdef; left; reflexivity).
    pose proof (spec_index_lim ns c Hc Hns) as Hlim.
    destruct (nat16_plain _ Hlim) as [-> [-> _]].
    rewrite (def_word_cell ctx mi ns c Hn Hc). cbn [cbind].
    specialize (IH (fun i Hi => Hdef i (or_intror Hi)) ltac:(discriminate) f (pre ++ [nat16 (spec_index ns c)]) post ltac:(cbn [length] in *; lia)).
    rewrite app_length in IH. cbn [length] in IH. rewrite <- app_assoc in IH. cbn [app] in IH.
    replace (S (length pre)) with (length pre + 1) by lia. rewrite IH. cbn [cbind fst snd map length]. f_equal. f_equal. lia.
Qed.

Definition enc_dt (mt : cmeth * ctable) : list N :=
  let '(m, t) := mt in if meth_arity m <? 2 then [] else enc_table (length (cm_specs m)) (t_cells t).

Lemma dec_tables_ok ctx ml sll tl : all3 meth_good ml sll tl -> forall mi pre post,
  (forall j m, nth_error ml j = Some m -> nth_error (x_nspecs ctx) (mi + j) = Some (length (cm_specs m))) ->
  dec_tables ctx mi (map meth_arity ml) (pre ++ flat_map enc_dt (combine ml tl) ++ post) (length pre)
  = COk (place_tables mi (length pre) (combine ml tl)).
Proof.
  induction 1 as [|m sl t ml sll tl Hg H IH]; intros mi pre post Hctx; cbn [map dec_tables combine place_tables]; [reflexivity|].
  destruct Hg as [Ha [_ [_ [Hne [Hdef [Hns _]]]]]].
  assert (Hctx' : forall j m', nth_error ml j = Some m' -> nth_error (x_nspecs ctx) (S mi + j) = Some (length (cm_specs m'))).
  { intros j m' Hj. replace (S mi + j) with (mi + S j) by lia. apply Hctx. exact Hj. }
  cbn [flat_map enc_dt]. fold (meth_arity m).
  destruct (Nat.eqb_spec (meth_arity m) 1) as [E1|NE1].
  - rewrite E1. cbn [Nat.ltb Nat.leb app]. rewrite (IH (S mi) pre post Hctx').
    cbn [cbind]. destruct (place_tables (S mi) (length pre) (combine ml tl)) as [offs img]. reflexivity.
  - destruct (Nat.ltb_spec 1 (meth_arity m)) as [_|H1]; [|lia]. destruct (Nat.ltb_spec (meth_arity m) 2) as [H2|_]; [lia|].
    rewrite <- app_assoc.
    assert (Hn : nth_error (x_nspecs ctx) mi = Some (length (cm_specs m))) by (rewrite <- (Nat.add_0_r mi); apply Hctx; reflexivity).
    rewrite (dec_table_ok ctx mi _ Hn Hns (t_cells t) Hdef Hne).
    2:{ rewrite !app_length, enc_table_length. lia. }
    cbn [cbind fst snd].
    specialize (IH (S mi) (pre ++ enc_table (length (cm_specs m)) (t_cells t)) post Hctx').
    rewrite app_length, enc_table_length in IH. rewrite <- app_assoc in IH. rewrite IH. cbn [cbind].
    rewrite map_length. destruct (place_tables (S mi) (length pre + length (t_cells t)) (combine ml tl)) as [offs img]. reflexivity.
Qed.

Lemma enc_dt_length ml sll tl : all3 meth_good ml sll tl -> forall mi off,
  length (flat_map enc_dt (combine ml tl)) = length (snd (place_tables mi off (combine ml tl))).
Proof.
  induction 1 as [|m sl t ml sll tl Hg H IH]; intros mi off; cbn [combine flat_map place_tables]; [reflexivity|].
  destruct Hg as [Ha _]. cbn [enc_dt]. fold (meth_arity m).
  destruct (Nat.eqb_spec (meth_arity m) 1) as [E1|NE1].
  - rewrite E1. cbn [Nat.ltb Nat.leb app]. rewrite (IH (S mi) off).
    destruct (place_tables (S mi) off (combine ml tl)). reflexivity.
  - destruct (Nat.ltb_spec (meth_arity m) 2) as [H2|_]; [lia|].
    rewrite app_length, enc_table_length, (IH (S mi) (off + length (map (word_of_cell mi) (t_cells t)))).
    destruct (place_tables (S mi) _ (combine ml tl)). cbn [snd]. rewrite app_length, map_length. reflexivity.
Qed.

Lemma tables_fold_length mts : forall mi off acc,
  fold_left (fun s '(m, t) => if meth_arity m =? 1 then s else s + length (t_cells t)) mts acc
  = acc + length (snd (place_tables mi off mts)).
Proof.
  induction mts as [|[m t] mts IH]; intros mi off acc; cbn [fold_left place_tables]; [cbn; lia|].
  fold (meth_arity m). destruct (Nat.eqb_spec (meth_arity m) 1) as [E1|NE1].
  - rewrite (IH (S mi) off). destruct (place_tables (S mi) off mts). reflexivity.
  - rewrite (IH (S mi) (off + length (map (word_of_cell mi) (t_cells t)))).
    destruct (place_tables (S mi) _ mts). cbn [snd]. rewrite app_length, map_length. lia.
Qed.

(* ------------------------------------------------------------------ 5. v-tables, decoded in place *)

Definition ecells (e : entry) : nat := let '(_, vpi, _) := e in if 0 <? vpi then 1 else 2.
Definition cells_of_entries (es : list entry) : nat := list_sum (map ecells es).

Lemma enc_entry_length C s e : length (enc_entry C s e) = ecells e.
Proof.
  destruct e as [[mi vpi] g]. unfold enc_entry, ecells. destruct (0 <? vpi); [reflexivity|].
  destruct (meth_arity _ =? 1); reflexivity.
Qed.

Lemma enc_entries_cons C e e' rest : enc_entries C (e :: e' :: rest) = enc_entry C 0%N e ++ enc_entries C (e' :: rest).
Proof. reflexivity. Qed.

Lemma enc_entries_length C es : length (enc_entries C es) = cells_of_entries es.
Proof.
  induction es as [|e [|e' rest] IH]; [reflexivity| |].
  - cbn [enc_entries]. rewrite enc_entry_length. unfold cells_of_entries. cbn. lia.
  - rewrite enc_entries_cons, app_length, enc_entry_length, IH. unfold cells_of_entries. cbn [map list_sum fold_right]. reflexivity.
Qed.

Lemma ecells_pos e : 1 <= ecells e.
Proof. destruct e as [[mi vpi] g]. unfold ecells. destruct (0 <? vpi); lia. Qed.

Lemma cells_ge_length es : length es <= cells_of_entries es.
Proof.
  induction es as [|e es IH]; [cbn; lia|]. unfold cells_of_entries in *. cbn [map list_sum fold_right length].
  pose proof (ecells_pos e). fold (list_sum (map ecells es)). lia.
Qed.

Lemma cells_of_entries_cons e es : cells_of_entries (e :: es) = ecells e + cells_of_entries es.
Proof. reflexivity. Qed.

(* the headroom inequality, per decoding step: when the k-th word is written the read cursor is past its four cells *)
Fixpoint inplace_entries (base rd wr : nat) (es : list entry) : Prop :=
  match es with
  | [] => True
  | e :: rest => 4 * S wr <= base + (rd + ecells e) /\ inplace_entries base (rd + ecells e) (S wr) rest
  end.

Fixpoint inplace_classes (base rd wr : nat) (vt : list (list entry)) : Prop :=
  match vt with
  | [] => True
  | es :: rest => inplace_entries base (S rd) wr es /\ inplace_classes base (S rd + cells_of_entries es) (wr + length es) rest
  end.

Lemma ratio4 n : n * decode_size / encode_size = 4 * n.
Proof. unfold decode_size, encode_size. replace (n * 8) with (4 * n * 2) by lia. apply Nat.div_mul. lia. Qed.

Lemma lead_entries_spec : forall es e d l, exists l',
  fold_left lead_entry es (e, d, l) = (e + cells_of_entries es, d + length es, l') /\ l <= l' /\
  forall base, l' <= base -> inplace_entries base e d es.
Proof.
  induction es as [|x es IH]; intros e d l.
  - exists l. cbn [fold_left cells_of_entries map list_sum length inplace_entries]. unfold cells_of_entries. cbn.
    rewrite !Nat.add_0_r. auto.
  - cbn [fold_left]. destruct x as [[mi vpi] g]. cbn [lead_entry]. rewrite ratio4.
    set (e1 := if negb (vpi =? 0) then S e else e + 2).
    assert (Ee1 : e1 = e + ecells (mi, vpi, g)).
    { unfold e1, ecells. destruct (Nat.eqb_spec vpi 0) as [->|Hne]; cbn [negb].
      - reflexivity.
      - destruct (Nat.ltb_spec 0 vpi); lia. }
    set (l1 := if e1 <? 4 * S d then Nat.max l (4 * S d - e1) else l).
    assert (Hl1 : l <= l1 /\ 4 * S d <= l1 + e1).
    { unfold l1. destruct (Nat.ltb_spec e1 (4 * S d)); lia. }
    destruct (IH e1 (S d) l1) as [l' [Hf [Hle Hin]]]. exists l'. split; [|split].
    + rewrite Hf. rewrite cells_of_entries_cons. cbn [length].
      replace (e1 + cells_of_entries es) with (e + (ecells (mi, vpi, g) + cells_of_entries es)) by lia.
      replace (S d + length es) with (d + S (length es)) by lia. reflexivity.
    + lia.
    + intros base Hb. cbn [inplace_entries]. rewrite <- Ee1. split; [lia|]. apply Hin. exact Hb.
Qed.

Lemma lead_classes_spec : forall vt e d l, exists l',
  fold_left lead_class vt (e, d, l)
  = (e + list_sum (map (fun es => S (cells_of_entries es)) vt), d + list_sum (map (@length _) vt), l') /\ l <= l' /\
  forall base, l' <= base -> inplace_classes base e d vt.
Proof.
  induction vt as [|es vt IH]; intros e d l.
  - exists l. cbn. rewrite !Nat.add_0_r. auto.
  - cbn [fold_left lead_class].
    destruct (lead_entries_spec es (S e) d l) as [l1 [Hf1 [Hle1 Hin1]]]. rewrite Hf1.
    destruct (IH (S e + cells_of_entries es) (d + length es) l1) as [l' [Hf [Hle Hin]]]. exists l'. split; [|split].
    + rewrite Hf. cbn [map list_sum fold_right].
      replace (S e + cells_of_entries es + list_sum (map (fun es0 => S (cells_of_entries es0)) vt)) with (e + (S (cells_of_entries es) + list_sum (map (fun es0 => S (cells_of_entries es0)) vt))) by lia.
      replace (d + length es + list_sum (map (@length _) vt)) with (d + (length es + list_sum (map (@length _) vt))) by lia. reflexivity.
    + lia.
    + intros base Hb. cbn [inplace_classes]. split; [apply Hin1; lia|apply Hin; exact Hb].
Qed.

Section InPlace.
  Variables (C : compiled) (E : encoded) (cells : list N) (dtoff : list nat) (vcells : list N).
  Hypothesis Hok : codec_ok C.
  Let ctx := ctx_of C.
  Let base := e_H E + e_S E.
  Hypothesis Hcells : forall rd, rd < length vcells -> nth (base + rd) cells 0%N = nth rd vcells 0%N.
  Hypothesis Hlen : length vcells = e_E E.

  Definition good_log (lg : list (nat * nat)) : Prop :=
    Forall (fun wr => 4 * S (fst wr) <= snd wr /\ fst wr < e_D E /\ snd wr <= base + e_E E) lg.

  Lemma fetch_ok st pre x post :
    vcells = pre ++ x :: post -> d_rd st = length pre -> 4 * length (d_words st) <= base + d_rd st ->
    fetch E cells st = COk (clr_bit stop_bit x, mk_ds (d_words st) (S (d_rd st)) (has_bit stop_bit x) (d_log st)).
  Proof.
    intros Hv Hrd Hinv. unfold fetch. fold base. change words_per_cell_ratio with 4.
    assert (Hlt : d_rd st < length vcells) by (rewrite Hv, app_length; cbn [length]; lia).
    destruct (Nat.ltb_spec (S (base + d_rd st)) (4 * length (d_words st))) as [H|_]; [lia|].
    destruct (Nat.leb_spec (e_E E) (d_rd st)) as [H|_]; [lia|].
    destruct (Nat.ltb_spec (base + d_rd st) (4 * length (d_words st))) as [H|_]; [lia|].
    rewrite (Hcells _ Hlt), Hv, Hrd. rewrite app_nth2 by lia. rewrite Nat.sub_diag. reflexivity.
  Qed.

  Lemma put_ok st w : length (d_words st) < e_D E ->
    put E st w = COk (mk_ds (d_words st ++ [w]) (d_rd st) (d_last st) (d_log st ++ [(length (d_words st), base + d_rd st)])).
  Proof. intro H. unfold put. destruct (Nat.leb_spec (e_D E) (length (d_words st))) as [H'|_]; [lia|]. reflexivity. Qed.

  Let ew := entry_word (o_meths C) (o_tables C) dtoff.

  Lemma arity_at mi m : nth_error (o_meths C) mi = Some m -> nth_error (x_arity ctx) mi = Some (meth_arity m).
  Proof. intro H. unfold ctx, ctx_of. cbn [x_arity]. rewrite nth_error_map, H. reflexivity. Qed.

  Lemma nspecs_at mi m : nth_error (o_meths C) mi = Some m -> nth_error (x_nspecs ctx) mi = Some (length (cm_specs m)).
  Proof. intro H. unfold ctx, ctx_of. cbn [x_nspecs]. rewrite nth_error_map, H. reflexivity. Qed.

  (* one iteration of `while (!last)` decodes one entry *)
  Lemma dec_entry_step f st e (s : N) pre post :
    entry_good C e -> s = 0%N \/ s = stop_bit ->
    vcells = pre ++ enc_entry C s e ++ post -> d_rd st = length pre -> d_last st = false ->
    4 * S (length (d_words st)) <= base + (d_rd st + ecells e) ->
    4 * length (d_words st) <= base + d_rd st ->
    length (d_words st) < e_D E ->
    dec_entries (S f) E cells ctx dtoff st
    = dec_entries f E cells ctx dtoff
        (mk_ds (d_words st ++ [ew e]) (d_rd st + ecells e) (negb (N.eqb s 0))
               (d_log st ++ [(length (d_words st), base + (d_rd st + ecells e))])).
  Proof.
    intros Hg Hs Hv Hrd Hlast Hin Hinv HD. destruct e as [[mi vpi] g].
    destruct Hg as [Hmi [Hgl [m [Hm Hvp]]]].
    destruct (ck_meth_at C mi m Hok Hm) as [Hgood Em].
    destruct Hgood as [Ha [_ [_ [_ [Hdef [Hns _]]]]]].
    cbn [dec_entries]. rewrite Hlast. unfold enc_entry in Hv. unfold ecells in *. unfold ew, entry_word.
    change (mk_cmeth [] [] [] []) with dummy_meth. change (mk_ct [] [] [] (mk_rep 0 0 0 0 0 0) []) with dummy_tab.
    rewrite Em in *. fold (meth_arity m).
    destruct (Nat.ltb_spec 0 vpi) as [Hpos|Hz].
    - (* a parameter other than the first: one cell, the group index with the index bit *)
      assert (Ha2 : 2 <= meth_arity m) by (destruct Hvp; lia).
      cbn [app] in Hv. rewrite (fetch_ok st pre _ post Hv Hrd Hinv). cbn [cbind].
      destruct (index_cell g s Hgl Hs) as [H1 [H2 H3]]. rewrite H1, H2. rewrite H3.
      rewrite put_ok by (cbn [d_words]; exact HD). cbn [cbind d_words d_rd d_last d_log].
      destruct (Nat.eqb_spec (meth_arity m) 1) as [E1|_]; [lia|].
      destruct (Nat.eqb_spec vpi 0) as [E0|_]; [lia|].
      replace (d_rd st + 1) with (S (d_rd st)) by lia. reflexivity.
    - (* the first parameter: the method index, then a spec index or a row index *)
      assert (vpi = 0) by lia. subst vpi. rewrite Nat.eqb_refl.
      destruct (nat16_plain mi Hmi) as [P1 [P2 P3]].
      destruct (Nat.eqb_spec (meth_arity m) 1) as [E1|NE1].
      + cbn [app] in Hv. rewrite (fetch_ok st pre _ _ Hv Hrd Hinv). cbn [cbind].
        rewrite P2, P1. rewrite (code_plain (N.of_nat mi) (of_nat_lim mi Hmi)). rewrite Nat2N.id.
        rewrite (arity_at mi m Hm).
        set (st1 := mk_ds (d_words st) (S (d_rd st)) false (d_log st)).
        set (c := nth g (t_cells (nth mi (o_tables C) dummy_tab)) CNi) in *.
        assert (Hc : forall i, c = CDef i -> i < length (cm_specs m)).
        { intros i Hi. apply Hdef. rewrite <- Hi. unfold c.
          destruct (nth_in_or_default g (t_cells (nth mi (o_tables C) dummy_tab)) CNi) as [Hin'|Hd]; [exact Hin'|].
          fold c in Hd. rewrite Hd in Hi. discriminate. }
        pose proof (spec_index_lim _ c Hc Hns) as Hsl.
        assert (Hv1 : vcells = (pre ++ [nat16 mi]) ++ u16 (N.lor (N.of_nat (spec_index (length (cm_specs m)) c)) s) :: post)
          by (rewrite Hv, <- app_assoc; reflexivity).
        rewrite (fetch_ok st1 _ _ _ Hv1) by (unfold st1; cbn [d_rd d_words]; rewrite ?app_length; cbn [length]; lia).
        cbn [cbind]. destruct (value_cell _ s Hsl Hs) as [V1 V2]. rewrite V1, V2.
        rewrite E1. cbn [Nat.eqb].
        rewrite (def_word_cell ctx mi _ c (nspecs_at mi m Hm) Hc). cbn [cbind].
        rewrite put_ok by (unfold st1; cbn [d_words]; exact HD). cbn [cbind]. unfold st1. cbn [d_words d_rd d_last d_log].
        replace (S (S (d_rd st))) with (d_rd st + 2) by lia. reflexivity.
      + cbn [app] in Hv. rewrite (fetch_ok st pre _ _ Hv Hrd Hinv). cbn [cbind].
        rewrite P2, P1. rewrite (code_plain (N.of_nat mi) (of_nat_lim mi Hmi)). rewrite Nat2N.id.
        rewrite (arity_at mi m Hm).
        set (st1 := mk_ds (d_words st) (S (d_rd st)) false (d_log st)).
        assert (Hv1 : vcells = (pre ++ [nat16 mi]) ++ u16 (N.lor (N.of_nat g) s) :: post)
          by (rewrite Hv, <- app_assoc; reflexivity).
        rewrite (fetch_ok st1 _ _ _ Hv1) by (unfold st1; cbn [d_rd d_words]; rewrite ?app_length; cbn [length]; lia).
        cbn [cbind]. destruct (value_cell _ s Hgl Hs) as [V1 V2]. rewrite V1, V2.
        destruct (Nat.eqb_spec (meth_arity m) 1) as [E1|_]; [lia|].
        rewrite put_ok by (unfold st1; cbn [d_words]; exact HD). cbn [cbind]. unfold st1. cbn [d_words d_rd d_last d_log].
        rewrite Nat2N.id. replace (S (S (d_rd st))) with (d_rd st + 2) by lia. reflexivity.
  Qed.

  (* the loop over the entries of one class *)
  Lemma dec_entries_ok : forall es fuel st pre post,
    Forall (entry_good C) es -> es <> [] ->
    vcells = pre ++ enc_entries C es ++ post -> d_rd st = length pre -> d_last st = false ->
    inplace_entries base (d_rd st) (length (d_words st)) es ->
    4 * length (d_words st) <= base + d_rd st ->
    length (d_words st) + length es <= e_D E -> length es < fuel ->
    exists lg, good_log lg /\ length lg = length es /\
      dec_entries fuel E cells ctx dtoff st
      = COk (mk_ds (d_words st ++ map ew es) (d_rd st + cells_of_entries es) true (d_log st ++ lg)).
  Proof.
    induction es as [|e [|e' rest] IH]; intros fuel st pre post Hg Hne Hv Hrd Hlast Hin Hinv HD Hfuel; [congruence| |].
    - (* the last entry carries the stop bit *)
      destruct fuel as [|[|f]]; cbn [length] in Hfuel; try lia.
      apply Forall_cons_iff in Hg. destruct Hg as [Hge _]. cbn [enc_entries] in Hv. cbn [inplace_entries] in Hin. destruct Hin as [Hin _].
      rewrite (dec_entry_step (S f) st e stop_bit pre post Hge (or_intror eq_refl) Hv Hrd Hlast Hin Hinv) by (cbn [length] in HD; lia).
      cbn [dec_entries d_last negb]. change (N.eqb stop_bit 0) with false. cbn [negb].
      exists [(length (d_words st), base + (d_rd st + ecells e))]. split; [|split].
      + constructor; [|constructor]. cbn [fst snd]. cbn [length] in HD. split; [lia|]. split; [lia|].
        assert (length pre + ecells e <= length vcells) by (rewrite Hv, !app_length, enc_entry_length; lia). lia.
      + reflexivity.
      + cbn [map]. unfold cells_of_entries. cbn [map list_sum fold_right]. rewrite Nat.add_0_r. reflexivity.
    - destruct fuel as [|f]; [lia|].
      apply Forall_cons_iff in Hg. destruct Hg as [Hge Hg']. rewrite enc_entries_cons in Hv. rewrite <- app_assoc in Hv.
      cbn [inplace_entries] in Hin. destruct Hin as [Hin Hin'].
      rewrite (dec_entry_step f st e 0%N pre _ Hge (or_introl eq_refl) Hv Hrd Hlast Hin Hinv) by (cbn [length] in HD; lia).
      change (N.eqb 0 0) with true. cbn [negb].
      set (st1 := mk_ds (d_words st ++ [ew e]) (d_rd st + ecells e) false (d_log st ++ [(length (d_words st), base + (d_rd st + ecells e))])).
      assert (Hv1 : vcells = (pre ++ enc_entry C 0%N e) ++ enc_entries C (e' :: rest) ++ post) by (rewrite Hv, <- app_assoc; reflexivity).
      destruct (IH f st1 _ post Hg' ltac:(discriminate) Hv1) as [lg [Hlg [Hll Hres]]].
      + unfold st1. cbn [d_rd]. rewrite app_length, enc_entry_length. lia.
      + reflexivity.
      + unfold st1. cbn [d_rd d_words]. rewrite app_length. cbn [length]. replace (length (d_words st) + 1) with (S (length (d_words st))) by lia. exact Hin'.
      + unfold st1. cbn [d_rd d_words]. rewrite app_length. cbn [length]. lia.
      + unfold st1. cbn [d_words]. rewrite app_length. cbn [length] in *. lia.
      + cbn [length] in *. lia.
      + exists ((length (d_words st), base + (d_rd st + ecells e)) :: lg). split; [|split].
        * constructor; [|exact Hlg]. cbn [fst snd]. cbn [length] in HD. split; [lia|]. split; [lia|].
          assert (length pre + ecells e <= length vcells) by (rewrite Hv, !app_length, enc_entry_length; lia). lia.
        * cbn [length]. rewrite Hll. reflexivity.
        * rewrite Hres. unfold st1. cbn [d_words d_rd d_log]. rewrite <- !app_assoc. cbn [app map].
          rewrite (cells_of_entries_cons e (e' :: rest)).
          replace (d_rd st + ecells e + cells_of_entries (e' :: rest)) with (d_rd st + (ecells e + cells_of_entries (e' :: rest))) by lia. reflexivity.
  Qed.

  (* static v-table pointers, as offsets from the decoded v-tables *)
  Fixpoint vps_rel (wr : nat) (firsts : list nat) (vt : list (list entry)) : list Z :=
    match firsts, vt with
    | fs :: firsts', es :: vt' => (Z.of_nat wr - Z.of_nat fs)%Z :: vps_rel (wr + length es) firsts' vt'
    | _, _ => []
    end.

  Definition total_entries (vt : list (list entry)) : nat := list_sum (map (@length _) vt).
  Definition total_cells (vt : list (list entry)) : nat := list_sum (map (fun es => S (cells_of_entries es)) vt).

  Definition enc_cl (fe : nat * list entry) : list N := let '(fs, es) := fe in enc_class C fs es.

  Lemma enc_cl_length fs es : length (enc_cl (fs, es)) = S (cells_of_entries es).
  Proof. cbn [enc_cl]. unfold enc_class. cbn [length]. rewrite enc_entries_length. reflexivity. Qed.

  (* the loop over the classes *)
  Lemma dec_classes_ok : forall firsts vt st pre post,
    length firsts = length vt -> Forall (fun x => x < lim) firsts -> Forall (Forall (entry_good C)) vt ->
    vcells = pre ++ flat_map enc_cl (combine firsts vt) ++ post -> d_rd st = length pre ->
    inplace_classes base (d_rd st) (length (d_words st)) vt ->
    4 * length (d_words st) <= base + d_rd st ->
    length (d_words st) + total_entries vt <= e_D E ->
    exists lg, good_log lg /\ length lg = total_entries vt /\
      dec_classes (length vt) E cells ctx dtoff st
      = COk (vps_rel (length (d_words st)) firsts vt,
             mk_ds (d_words st ++ concat (map (map ew) vt)) (d_rd st + total_cells vt)
                   (match vt with [] => d_last st | _ => true end) (d_log st ++ lg)).
  Proof.
    induction firsts as [|fs firsts IH]; intros vt st pre post Hl Hf Hg Hv Hrd Hin Hinv HD; destruct vt as [|es vt]; try discriminate.
    - exists []. split; [constructor|]. split; [reflexivity|]. cbn [dec_classes length vps_rel map concat total_cells list_sum fold_right].
      rewrite !app_nil_r, Nat.add_0_r. destruct st; reflexivity.
    - cbn [length] in Hl. apply Forall_cons_iff in Hf. destruct Hf as [Hfs Hf']. apply Forall_cons_iff in Hg. destruct Hg as [Hge Hg'].
      cbn [combine flat_map] in Hv. cbn [enc_cl] in Hv. unfold enc_class in Hv. rewrite <- app_assoc in Hv.
      cbn [inplace_classes] in Hin. destruct Hin as [Hin1 Hin2].
      cbn [app] in Hv.
      assert (Hs : (match es with [] => stop_bit | _ => 0%N end) = 0%N \/ (match es with [] => stop_bit | _ => 0%N end) = stop_bit)
        by (destruct es; auto).
      destruct (value_cell fs _ Hfs Hs) as [V1 V2].
      set (st1 := mk_ds (d_words st) (S (d_rd st)) (negb (N.eqb (match es with [] => stop_bit | _ => 0%N end) 0)) (d_log st)).
      assert (Hent : exists lg1, good_log lg1 /\ length lg1 = length es /\
                dec_entries (S (e_E E)) E cells ctx dtoff st1
                = COk (mk_ds (d_words st ++ map ew es) (S (d_rd st) + cells_of_entries es) true (d_log st ++ lg1))).
      { destruct es as [|e es'].
        - exists []. split; [constructor|]. split; [reflexivity|]. unfold st1. cbn [dec_entries d_last]. change (N.eqb stop_bit 0) with false. cbn [negb map].
          unfold cells_of_entries. cbn. rewrite !app_nil_r, Nat.add_0_r. reflexivity.
        - assert (Hv1 : vcells = (pre ++ [u16 (N.lor (N.of_nat fs) 0)]) ++ enc_entries C (e :: es') ++ (flat_map enc_cl (combine firsts vt) ++ post))
            by (rewrite Hv, <- !app_assoc; reflexivity).
          destruct (dec_entries_ok (e :: es') (S (e_E E)) st1 _ _ Hge ltac:(discriminate) Hv1) as [lg1 [G1 [G2 G3]]].
          + unfold st1. cbn [d_rd]. rewrite app_length. cbn [length]. lia.
          + unfold st1. cbn [d_last]. change (N.eqb 0 0) with true. reflexivity.
          + unfold st1. cbn [d_rd d_words]. exact Hin1.
          + unfold st1. cbn [d_rd d_words]. lia.
          + unfold st1. cbn [d_words]. unfold total_entries in HD. cbn [map list_sum fold_right] in HD. lia.
          + assert (length (enc_entries C (e :: es')) <= length vcells) by (rewrite Hv1, !app_length; lia).
            rewrite enc_entries_length in H. pose proof (cells_ge_length (e :: es')). lia.
          + exists lg1. split; [exact G1|]. split; [exact G2|]. rewrite G3. unfold st1. cbn [d_words d_rd d_log]. reflexivity. }
      destruct Hent as [lg1 [G1 [G2 G3]]].
      set (st2 := mk_ds (d_words st ++ map ew es) (S (d_rd st) + cells_of_entries es) true (d_log st ++ lg1)).
      assert (Hv2 : vcells = (pre ++ enc_cl (fs, es)) ++ flat_map enc_cl (combine firsts vt) ++ post).
      { rewrite Hv. cbn [enc_cl]. unfold enc_class. rewrite <- !app_assoc. reflexivity. }
      destruct (IH vt st2 _ post ltac:(lia) Hf' Hg' Hv2) as [lg2 [K1 [K2 K3]]].
      + unfold st2. cbn [d_rd]. rewrite app_length, enc_cl_length. lia.
      + unfold st2. cbn [d_rd d_words]. rewrite app_length, map_length. exact Hin2.
      + unfold st2. cbn [d_rd d_words]. rewrite app_length, map_length.
        (* the invariant after the class: from the last entry's inequality, or unchanged when the v-table is empty *)
        clear - Hin1 Hinv. revert Hin1 Hinv. generalize (d_rd st), (length (d_words st)). intros rd wr.
        assert (G : forall es rd wr, inplace_entries base rd wr es -> 4 * wr <= base + rd -> 4 * (wr + length es) <= base + (rd + cells_of_entries es)).
        { clear. induction es as [|e es IH]; intros rd wr Hin Hinv; [unfold cells_of_entries; cbn; lia|].
          cbn [inplace_entries] in Hin. destruct Hin as [H1 H2]. specialize (IH _ _ H2 ltac:(lia)).
          rewrite cells_of_entries_cons. cbn [length]. lia. }
        intros Hin1 Hinv. assert (H4 : 4 * wr <= base + S rd) by lia. pose proof (G es (S rd) wr Hin1 H4) as G'. exact G'.
      + unfold st2. cbn [d_words]. rewrite app_length, map_length. change (total_entries (es :: vt)) with (length es + total_entries vt) in HD. rewrite <- Nat.add_assoc. exact HD.
      + exists (lg1 ++ lg2). split; [apply Forall_app; split; assumption|]. split.
        * rewrite app_length, G2, K2. unfold total_entries. cbn [map list_sum fold_right]. reflexivity.
        * cbn [length dec_classes]. rewrite (fetch_ok st pre _ _ Hv Hrd Hinv). cbn [cbind].
          rewrite V1, V2. cbn [d_words]. rewrite nat_N_Z. fold st1. rewrite G3. cbn [cbind]. fold st2.
          rewrite K3. unfold st2. cbn [cbind fst snd d_words d_rd d_log d_last vps_rel].
          rewrite app_length, map_length. cbn [map concat]. rewrite <- !app_assoc.
          unfold total_cells. cbn [map list_sum fold_right].
          replace (S (d_rd st) + cells_of_entries es + list_sum (map (fun es0 => S (cells_of_entries es0)) vt))
            with (d_rd st + (S (cells_of_entries es) + list_sum (map (fun es0 => S (cells_of_entries es0)) vt))) by lia.
          destruct vt; reflexivity.
  Qed.
End InPlace.

(* ------------------------------------------------------------------ 6. assembly *)

Lemma all3_intro {A B C} (P : A -> B -> C -> Prop) : forall la lb lc, length lb = length la -> length lc = length la ->
  (forall i a b c, nth_error la i = Some a -> nth_error lb i = Some b -> nth_error lc i = Some c -> P a b c) -> all3 P la lb lc.
Proof.
  induction la as [|a la IH]; intros lb lc Hb Hc H; destruct lb as [|b lb]; destruct lc as [|c lc]; try discriminate; constructor.
  - apply (H 0); reflexivity.
  - apply IH; [cbn in Hb; lia|cbn in Hc; lia|]. intros i x y z Hx Hy Hz. apply (H (S i)); assumption.
Qed.

(* the definitions designated by the cells of a table are definitions of the method *)
Lemma cell_of_best_def L specs n mask i :
  cell_of (best L specs (bits_of n mask)) = CDef i -> i < n.
Proof.
  unfold best. set (cand := bits_of n mask).
  assert (Hc : forall s, In s cand -> s < n).
  { intros s Hs. unfold cand, bits_of in Hs. apply filter_In in Hs. destruct Hs as [Hs _]. apply in_seq in Hs. lia. }
  destruct (find _ cand) as [s|] eqn:Hf.
  - cbn [cell_of]. intro H. inversion H; subst. apply find_some in Hf. apply Hc. tauto.
  - destruct cand as [|s [|s' cand']]; cbn [cell_of]; intro H; try discriminate. inversion H; subst. apply Hc. left. reflexivity.
Qed.

Lemma build_table_def L specs : forall gss cand conc c,
  In c (map fst (build_table L specs gss cand conc)) -> forall k, c = CDef k -> k < length specs.
Proof.
  induction gss as [|gs gss IH]; intros cand conc c Hin k Hk; [destruct Hin|].
  destruct gss as [|gs' gss'].
  - cbn [build_table] in Hin. rewrite map_map in Hin. apply in_map_iff in Hin. destruct Hin as [[g hc] [E _]].
    cbn [fst] in E. subst c. eapply cell_of_best_def. exact Hk.
  - change (build_table L specs (gs :: gs' :: gss') cand conc)
      with (flat_map (fun '(g, hc) => build_table L specs (gs' :: gss') (N.land cand g) (conc && hc)) gs) in Hin.
    apply in_map_iff in Hin. destruct Hin as [cf [E Hcf]]. apply in_flat_map in Hcf. destruct Hcf as [[g hc] [_ Hcf]].
    apply (IH (N.land cand g) (conc && hc) c); [|exact Hk]. apply in_map_iff. exists cf. split; [exact E|exact Hcf].
Qed.

Lemma build_method_def L m i : In (CDef i) (t_cells (build_method L m)) -> i < length (cm_specs m).
Proof.
  intro H. unfold build_method in H. cbn [t_cells] in H.
  eapply build_table_def; [exact H|reflexivity].
Qed.

(* every v-table entry is value-initialized or was written for a (method, parameter) pair of the registry *)
Definition entry_src (L : lattice) (ms : list cmeth) (e : entry) : Prop :=
  e = (0, 0, 0) \/ exists mi m dim c, e = (mi, dim, group_index L m dim c) /\ nth_error ms mi = Some m /\ dim < length (cm_vp m).

Lemma Forall_set_nth {A} (Q : A -> Prop) v : Q v -> forall k l, Forall Q l -> Forall Q (set_nth k l v).
Proof.
  intros Hv k l. revert k. induction l as [|x l IH]; intros k H; [destruct k; exact H|].
  apply Forall_cons_iff in H. destruct H as [Hx Hl]. destruct k; cbn [set_nth]; constructor; auto.
Qed.

Lemma Forall_nth_default {A} (Q : A -> Prop) d : Q d -> forall l k, Forall Q l -> Q (nth k l d).
Proof.
  intros Hd l k H. destruct (nth_in_or_default k l d) as [Hin | ->]; [|exact Hd]. rewrite Forall_forall in H. apply H. exact Hin.
Qed.

Lemma write_vtbls_src L ms st : Forall (Forall (entry_src L ms)) (write_vtbls L ms st).
Proof.
  rewrite write_vtbls_eq.
  assert (G : forall ws vt, (forall w, In w ws -> In w (vt_writes L ms)) -> Forall (Forall (entry_src L ms)) vt ->
                            Forall (Forall (entry_src L ms)) (fold_left (vt_write L st) ws vt)).
  { induction ws as [|w ws IH]; intros vt Hsub Hvt; [exact Hvt|]. cbn [fold_left]. apply IH; [intros; apply Hsub; right; assumption|].
    destruct w as [[[mi m] dim] c]. unfold vt_write. destruct (_ <? _); [exact Hvt|].
    unfold upd_nth. apply Forall_set_nth; [|exact Hvt]. apply Forall_set_nth.
    - right. exists mi, m, dim, c. assert (Hw : In (mi, m, dim, c) (vt_writes L ms)) by (apply Hsub; left; reflexivity).
      apply in_vt_writes in Hw. destruct Hw as [H1 [H2 _]]. auto.
    - apply Forall_nth_default; [constructor|exact Hvt]. }
  apply G; [auto|]. unfold vt0. apply Forall_forall. intros l Hl. apply in_map_iff in Hl. destruct Hl as [c [<- _]].
  apply Forall_forall. intros e He. apply repeat_spec in He. left. exact He.
Qed.

(* without methods no class has a v-table *)
Section NoMethods.
  Variable L : lattice.
  Definition zero_state (st : sstate) : Prop := Forall (fun x => x = 0) (s_vlen st) /\ Forall (fun x => x = 0%N) (s_used st).

  Lemma used_by_vp_nil c : used_by_vp [] c = [].
  Proof. reflexivity. Qed.

  Lemma assign_tree_zero : forall fuel st c, zero_state st -> zero_state (assign_tree fuel L [] st c 0).
  Proof.
    induction fuel as [|f IH]; intros st c [H1 H2]; cbn [assign_tree]; [split; assumption|].
    rewrite used_by_vp_nil. cbn [fold_left].
    set (st2 := mk_ss _ _ _ _ _ _ _).
    assert (Hz : zero_state st2) by (split; cbn [s_vlen s_used st2]; [apply Forall_set_nth; auto|exact H2]).
    clearbody st2. revert st2 Hz. induction (nth c (l_derived L) []) as [|d ds IHd]; intros st2 Hz; cbn [fold_left]; [exact Hz|].
    apply IHd. apply IH. exact Hz.
  Qed.

  Lemma assign_lattice_zero : forall fuel st c, zero_state st -> zero_state (assign_lattice fuel L [] st c).
  Proof.
    induction fuel as [|f IH]; intros st c [H1 H2]; cbn [assign_lattice]; [split; assumption|].
    destruct (nth c (s_mark st) false); [split; assumption|]. rewrite used_by_vp_nil. cbn [fold_left].
    set (st0 := mk_ss _ _ _ _ _ _ _).
    assert (Hz : zero_state st0) by (split; assumption).
    clearbody st0. revert st0 Hz. induction (nth c (l_derived L) []) as [|d ds IHd]; intros st0 Hz; cbn [fold_left]; [exact Hz|].
    apply IHd. apply IH. exact Hz.
  Qed.

  Lemma assign_slots_zero : Forall (fun x => x = 0) (s_vlen (assign_slots L [])).
  Proof.
    unfold assign_slots. cbn [map].
    set (n := length (l_keys L)).
    set (st0 := mk_ss [] (repeat 0%N n) (repeat 0%N n) (repeat false n) (repeat 0 n) (repeat 0 n) true).
    assert (Hz0 : zero_state st0).
    { split; cbn [s_vlen s_used st0]; apply Forall_forall; intros x Hx; apply repeat_spec in Hx; exact Hx. }
    set (f1 := fun st c => match nth c (l_direct L) [] with [] => if is_tree_root L c then assign_tree (S n) L [] st c 0 else assign_lattice (S n) L [] st c | _ => st end).
    assert (Hz1 : forall l st, zero_state st -> zero_state (fold_left f1 l st)).
    { induction l as [|c l IHl]; intros st Hz; cbn [fold_left]; [exact Hz|]. apply IHl. unfold f1.
      destruct (nth c (l_direct L) []); [|exact Hz]. destruct (is_tree_root L c); [apply assign_tree_zero|apply assign_lattice_zero]; exact Hz. }
    specialize (Hz1 (seq 0 n) st0 Hz0). fold f1. set (st1 := fold_left f1 (seq 0 n) st0) in *. clearbody st1.
    revert st1 Hz1. induction (seq 0 n) as [|c l IHl]; intros st1 Hz1; cbn [fold_left]; [exact (proj1 Hz1)|].
    apply IHl. destruct Hz1 as [H1 H2].
    assert (E : nth c (s_used st1) 0%N = 0%N) by (apply Forall_nth_default; [reflexivity|exact H2]).
    rewrite E. cbn [N.eqb]. split; assumption.
  Qed.
End NoMethods.

Lemma place_vtbls_concat : forall firsts vts off, length firsts = length vts -> snd (place_vtbls off firsts vts) = concat vts.
Proof.
  induction firsts as [|fs firsts IH]; intros vts off Hl; destruct vts as [|ws vts]; try discriminate; [reflexivity|].
  cbn [place_vtbls concat]. specialize (IH vts (off + length ws) ltac:(cbn in Hl; lia)).
  destruct (place_vtbls (off + length ws) firsts vts). cbn [snd] in *. rewrite IH. reflexivity.
Qed.

Lemma place_vtbls_vps (f : entry -> word) : forall firsts vt off wr,
  fst (place_vtbls (off + wr) firsts (map (map f) vt)) = map (fun z => (Z.of_nat off + z)%Z) (vps_rel wr firsts vt).
Proof.
  induction firsts as [|fs firsts IH]; intros vt off wr; destruct vt as [|es vt]; try reflexivity.
  cbn [map place_vtbls vps_rel]. rewrite map_length. specialize (IH vt off (wr + length es)).
  replace (off + wr + length es) with (off + (wr + length es)) by lia.
  destruct (place_vtbls (off + (wr + length es)) firsts (map (map f) vt)). cbn [fst] in *. rewrite IH. f_equal. lia.
Qed.

Lemma length_concat {A} (l : list (list A)) : length (concat l) = list_sum (map (@length _) l).
Proof. induction l as [|x l IH]; [reflexivity|]. cbn [concat map list_sum fold_right]. rewrite app_length, IH. reflexivity. Qed.

Lemma enc_vtbls_length C : length (o_first C) = length (o_vtbl C) ->
  enc_vtbls C = flat_map (enc_cl C) (combine (o_first C) (o_vtbl C)) /\ length (enc_vtbls C) = total_cells (o_vtbl C).
Proof.
  intro Hl. split; [reflexivity|]. unfold enc_vtbls. generalize dependent (o_vtbl C). induction (o_first C) as [|fs firsts IH]; intros vt Hl; destruct vt as [|es vt]; try discriminate; [reflexivity|].
  cbn [combine flat_map]. rewrite app_length. unfold enc_class at 1. cbn [length]. rewrite enc_entries_length, IH by (cbn in Hl; lia).
  unfold total_cells. cbn [map list_sum fold_right]. reflexivity.
Qed.

Lemma lim_pos : 0 < lim.
Proof. apply Nat.ltb_lt. vm_compute. reflexivity. Qed.

Section Main.
  Variables (R : registry) (C : compiled).
  Hypothesis Hwf : wf_registry R.
  Hypothesis HC : compile R = Ok C.
  Hypothesis Hsmall : small C.

  Lemma compile_codec_ok :
    exists L ms, C = install_with [] L ms (assign_slots L ms) /\ lattice_ok R L /\ Forall (meth_wf L) ms /\
                 codec_ok C /\ length (o_vtbl C) = length (l_keys L).
  Proof.
    destruct (compile_char R [] Hwf) as [L [ms [_ [_ [HC' [Hlo [Hms _]]]]]]].
    unfold compile in HC. rewrite HC in HC'. inversion HC' as [EC]. exists L, ms.
    pose proof (assign_slots_ok L ms (lo_wf R L Hlo) Hms) as Hso.
    set (st := assign_slots L ms) in *.
    destruct (install_slots [] L ms st) as [E1 [E2 E3]]. pose proof (install_tables [] L ms st) as E4.
    pose proof (install_meths [] L ms st) as E5.
    destruct (write_vtbls_spec L ms st Hso) as [[Hvl Hvz] _].
    unfold small, smallb in Hsmall. rewrite EC in Hsmall. rewrite E1, E2, E3, E4, E5 in Hsmall.
    apply andb_prop in Hsmall. destruct Hsmall as [Hs5 H6]. apply andb_prop in Hs5. destruct Hs5 as [Hs4 H5].
    apply andb_prop in Hs4. destruct Hs4 as [Hs3 H4]. apply andb_prop in Hs3. destruct Hs3 as [Hs2 H3].
    apply andb_prop in Hs2. destruct Hs2 as [H1 H2].
    assert (Hlt : forall l, forallb (fun x => x <? lim) l = true -> Forall (fun x => x < lim) l).
    { intros l H. apply Forall_forall. intros x Hx. rewrite forallb_forall in H. apply Nat.ltb_lt. apply H. exact Hx. }
    split; [reflexivity|]. split; [exact Hlo|]. split; [exact Hms|]. split.
    - constructor; rewrite ?E1, ?E2, ?E3, ?E4, ?E5.
      + apply all3_intro; [apply (so_len_slots L ms st Hso)|apply map_length|].
        intros i m sl t Hm Hsl Ht. rewrite nth_error_map, Hm in Ht. inversion Ht; subst t. clear Ht.
        assert (Hmwf : meth_wf L m) by (apply (proj1 (Forall_forall _ _) Hms); eapply nth_error_In; eassumption).
        pose proof (build_method_table_ok L m (lo_wf R L Hlo) Hmwf) as Htok.
        destruct Hmwf as [Hne [Hvp _]].
        assert (Ha : 1 <= meth_arity m) by (unfold meth_arity; destruct (cm_vp m); [congruence|cbn; lia]).
        unfold meth_good. split; [exact Ha|]. split.
        { unfold meth_arity. rewrite <- (so_len_slots_m L ms st Hso i m Hm). rewrite (nth_error_nth _ _ _ Hsl). reflexivity. }
        split; [exact (to_len_strides L m _ Htok)|]. split.
        { assert (Hself : Forall2 (fun p c => In c (cov_of L p)) (cm_vp m) (cm_vp m)).
          { clear - Hvp Hlo. induction (cm_vp m) as [|p vp IHv]; [constructor|].
            apply Forall_cons_iff in Hvp. destruct Hvp as [Hp Hvp]. constructor; [|apply IHv; exact Hvp].
            apply (lw_cov L (lo_wf R L Hlo) p p Hp). split; [exact Hp|left; reflexivity]. }
          destruct (to_cell L m _ Htok (cm_vp m) eq_refl Hself) as [Hlt' _]. intro E. rewrite E in Hlt'. cbn in Hlt'. lia. }
        split; [intros k Hk; apply (build_method_def L m k Hk)|]. split.
        { rewrite forallb_forall in H6. apply Nat.ltb_lt. apply H6. eapply nth_error_In. exact Hm. }
        split.
        { apply Hlt. rewrite forallb_forall in H1. apply H1. eapply nth_error_In. exact Hsl. }
        { apply Hlt. rewrite forallb_forall in H2. apply (H2 (build_method L m)). apply in_map. eapply nth_error_In. exact Hm. }
      + rewrite (so_len_first L ms st Hso). symmetry. exact Hvl.
      + apply Hlt. exact H3.
      + apply Forall_forall. intros l Hl. apply Forall_forall. intros e He.
        pose proof (write_vtbls_src L ms st) as Hsrc. rewrite Forall_forall in Hsrc. specialize (Hsrc l Hl).
        rewrite Forall_forall in Hsrc. specialize (Hsrc e He).
        assert (Hg : snd e < lim).
        { rewrite forallb_forall in H5. specialize (H5 l Hl). rewrite forallb_forall in H5. apply Nat.ltb_lt. apply (H5 e He). }
        apply Nat.leb_le in H4.
        destruct Hsrc as [-> | [mi [m [dim [c [-> [Hm Hd]]]]]]].
        * (* a value-initialized entry: only in a registry that has a method *)
          destruct ms as [|m0 ms'] eqn:Ems.
          -- exfalso. destruct (In_nth _ _ [] Hl) as [z [Hz Ez]]. rewrite Hvl in Hz.
             pose proof (Hvz z Hz) as Hlz. rewrite Ez in Hlz. unfold vlen_of in Hlz.
             pose proof (assign_slots_zero L) as Hzero. fold st in Hzero.
             assert (nth z (s_vlen st) 0 = 0) by (apply Forall_nth_default; [reflexivity|exact Hzero]).
             destruct l; [destruct He|cbn [length] in Hlz; lia].
          -- unfold entry_good. rewrite ?EC. rewrite E5. split; [apply lim_pos|]. split; [apply lim_pos|]. exists m0. split; [reflexivity|left; reflexivity].
        * unfold entry_good. rewrite ?EC. rewrite E5. cbn [snd] in Hg.
          assert (mi < length ms) by (apply nth_error_Some; rewrite Hm; discriminate).
          split; [lia|]. split; [exact Hg|]. exists m. split; [exact Hm|]. unfold meth_arity. destruct dim; [left; reflexivity|right; lia].
    - rewrite ?EC. rewrite E3. exact Hvl.
  Qed.
End Main.

Lemma nth_error_combine {A B} : forall (la : list A) (lb : list B) i a b,
  nth_error la i = Some a -> nth_error lb i = Some b -> nth_error (combine la lb) i = Some (a, b).
Proof.
  induction la as [|x la IH]; intros lb i a b Ha Hb; destruct i, lb; cbn in *; try discriminate.
  - inversion Ha; inversion Hb; reflexivity.
  - apply IH; assumption.
Qed.

Section Roundtrip.
  Variables (R : registry) (C : compiled).
  Hypothesis Hwf : wf_registry R.
  Hypothesis HC : compile R = Ok C.
  Hypothesis Hsmall : small C.

  (* decode (encode C) succeeds and gives back what install_gv wrote, decoding in place *)
  Theorem codec_main : exists d,
    decode (ctx_of C) (encode C) = COk d /\
    (exists junk, o_image C = dd_image d ++ junk) /\ length (dd_image d) = written C /\
    dd_ss d = o_ss C /\
    o_vptr C = map (fun z => (Z.of_nat (tables_len C) + z)%Z) (dd_vptr d) /\
    good_log (encode C) (dd_log d) /\ length (dd_log d) = vtbls_len C /\ dd_rd d = e_E (encode C).
  Proof.
    destruct (compile_codec_ok R C Hwf HC Hsmall) as [L [ms [EC [Hlo [Hms [Hok Hnv]]]]]].
    set (st := assign_slots L ms) in *.
    destruct (install_slots [] L ms st) as [E1 [E2 E3]]. pose proof (install_tables [] L ms st) as E4.
    pose proof (install_meths [] L ms st) as E5. pose proof (install_lat [] L ms st) as E6.
    rewrite <- EC in E1, E2, E3, E4, E5, E6.
    destruct (install_fields L ms []) as [_ [Fv [[junk Fi] Fs]]]. fold st in Fv, Fi, Fs. rewrite <- EC in Fv, Fi, Fs.
    pose proof (ck_meths C Hok) as Hall. pose proof (ck_len_first C Hok) as Hlf.
    set (tables := o_tables C) in *. set (vt := o_vtbl C) in *. set (firsts := o_first C) in *. set (slots := o_slots C) in *.
    (* sizes *)
    pose proof (slots_size_eq _ _ _ Hall 0) as HS. cbn [Nat.add] in HS. fold (enc_slots C) in HS.
    destruct (lead_classes_spec vt 0 0 0) as [lead [Hlead [_ Hinpl]]]. cbn [Nat.add] in Hlead.
    fold (total_cells vt) in Hlead. fold (total_entries vt) in Hlead.
    destruct (enc_vtbls_length C Hlf) as [Hev Hevl]. fold vt firsts in Hev, Hevl.
    pose proof (tables_fold_length (combine (o_meths C) tables) 0 0 0) as HT. cbn [Nat.add] in HT.
    pose proof (enc_dt_length _ _ _ Hall 0 0) as HTl.
    remember (place_tables 0 0 (combine (o_meths C) tables)) as pt eqn:Ept.
    assert (Henc : encode C = mk_enc (if slots_and_strides_size C <? lead then lead - slots_and_strides_size C else 1)
                                     (slots_and_strides_size C) (total_cells vt) (Nat.max (total_entries vt) 1)
                                     (Nat.max (dispatch_tables_size C) 1) (enc_slots C) (enc_vtbls C) (enc_dtbls C)).
    { unfold encode, vtbl_sizes. fold vt. rewrite Hlead. reflexivity. }
    set (S_ := slots_and_strides_size C) in *. unfold slots_and_strides_size in S_. fold S_ in HS.
    assert (HS' : S_ = length (enc_slots C)) by exact HS.
    set (H_ := if S_ <? lead then lead - S_ else 1) in *.
    assert (Hbase : lead <= H_ + S_) by (unfold H_; destruct (Nat.ltb_spec S_ lead); lia).
    assert (HTd : dispatch_tables_size C = length (enc_dtbls C)).
    { unfold dispatch_tables_size. fold tables. rewrite HT. rewrite <- HTl. reflexivity. }
    set (E := encode C) in *.
    assert (EH : e_H E = H_) by (rewrite Henc; reflexivity).
    assert (ES : e_S E = S_) by (rewrite Henc; reflexivity).
    assert (EE : e_E E = total_cells vt) by (rewrite Henc; reflexivity).
    assert (ED : e_D E = Nat.max (total_entries vt) 1) by (rewrite Henc; reflexivity).
    assert (ET : e_T E = Nat.max (dispatch_tables_size C) 1) by (rewrite Henc; reflexivity).
    assert (Es : e_slots E = enc_slots C) by (rewrite Henc; reflexivity).
    assert (Ev : e_vtbls E = enc_vtbls C) by (rewrite Henc; reflexivity).
    assert (Ed : e_dtbls E = enc_dtbls C) by (rewrite Henc; reflexivity).
    (* the buffer *)
    assert (Hcells : union_cells E = repeat 0%N (e_H E) ++ enc_slots C ++ enc_vtbls C).
    { unfold union_cells. rewrite Es, Ev, ES, EE, HS', <- Hevl, !pad_exact. reflexivity. }
    (* 1. slots and strides *)
    assert (D1 : dec_slots E (union_cells E) (x_arity (ctx_of C)) 0 = COk (map (fun '(sl, t) => ss_of sl t) (combine slots tables))).
    { unfold ctx_of. cbn [x_arity]. apply (dec_slots_ok E (union_cells E) _ _ _ Hall [] (enc_vtbls C)).
      - rewrite Hcells. reflexivity.
      - cbn [length Nat.add]. rewrite ES, HS. lia. }
    (* 2. dispatch tables *)
    assert (D2 : dec_tables (ctx_of C) 0 (x_arity (ctx_of C)) (pad (e_dtbls E) (e_T E)) 0 = COk pt).
    { rewrite Ept. unfold ctx_of at 2. cbn [x_arity]. unfold pad. rewrite Ed.
      change (enc_dtbls C) with (flat_map enc_dt (combine (o_meths C) tables)).
      apply (dec_tables_ok (ctx_of C) _ _ _ Hall 0 [] _).
      intros j m Hj. cbn [Nat.add]. unfold ctx_of. cbn [x_nspecs]. rewrite nth_error_map, Hj. reflexivity. }
    (* 3. v-tables *)
    set (cells := union_cells E) in *.
    assert (Hrd : forall rd, rd < length (enc_vtbls C) -> nth (e_H E + e_S E + rd) cells 0%N = nth rd (enc_vtbls C) 0%N).
    { intros rd Hr. rewrite Hcells. rewrite app_nth2 by (rewrite repeat_length; lia). rewrite repeat_length.
      rewrite app_nth2 by (rewrite ES, HS'; lia). f_equal. rewrite ES, HS'. lia. }
    assert (Hncls : x_ncls (ctx_of C) = length vt) by (unfold ctx_of; cbn [x_ncls]; rewrite E6; symmetry; exact Hnv).
    destruct (dec_classes_ok C E cells (fst pt) (enc_vtbls C) Hok Hrd ltac:(rewrite EE; exact Hevl)
                             firsts vt (mk_ds [] 0 false []) [] [] Hlf (ck_first C Hok) (ck_entries C Hok))
      as [lg [Hlg [Hlgl D3]]].
    { rewrite Hev, app_nil_r. reflexivity. }
    { reflexivity. }
    { cbn [d_rd d_words length]. apply Hinpl. rewrite EH, ES. exact Hbase. }
    { cbn [d_words length]. lia. }
    { cbn [d_words length Nat.add]. rewrite ED. lia. }
    cbn [d_words d_rd d_log d_last length app Nat.add] in D3.
    (* the decoder *)
    eexists. split.
    { unfold decode.
      assert (G : (e_S E <? length (e_slots E)) || (e_E E <? length (e_vtbls E)) || (e_T E <? length (e_dtbls E)) = false).
      { rewrite Es, Ev, Ed, ES, EE, ET, HS', <- Hevl, HTd.
        rewrite !Nat.ltb_irrefl. cbn [orb]. apply Nat.ltb_ge. lia. }
      rewrite G. fold cells. rewrite D1. cbn [cbind]. rewrite D2. cbn [cbind]. rewrite Hncls, D3. cbn [cbind fst snd]. reflexivity. }
    unfold dd_image. cbn [dd_tables dd_vtbls dd_ss dd_vptr dd_log dd_rd d_words d_log d_rd]. fold tables.
    assert (Hlv : length firsts = length (map (map (entry_word (o_meths C) tables (fst pt))) vt)) by (rewrite map_length; exact Hlf).
    rewrite E5 in *. fold tables in Fv, Fi, Fs. rewrite <- E4 in Fv, Fi, Fs. rewrite <- E2, <- E3 in Fv, Fi. fold tables vt firsts in Fv, Fi, Fs. rewrite <- Ept in Fv, Fi.
    split; [|split; [|split; [|split; [|split; [|split]]]]].
    - exists junk. rewrite Fi. rewrite (place_vtbls_concat _ _ _ Hlv). reflexivity.
    - rewrite app_length. unfold written, tables_len, vtbls_len. fold tables vt. rewrite ?E5. rewrite HT.
      rewrite (fold_add (@length _) vt 0). cbn [Nat.add]. rewrite length_concat, map_map.
      f_equal. f_equal. apply map_ext. intro l. apply map_length.
    - rewrite Fs. symmetry.
      apply (nth_ext _ _ [] []).
      + rewrite !map_length, !combine_length, seq_length. destruct (all3_length _ _ _ _ Hall) as [A1 A2]. fold slots tables in A1, A2.
        lia.
      + intros i Hi. rewrite map_length, !combine_length in Hi.
        destruct (all3_length _ _ _ _ Hall) as [A1 A2]. fold slots tables in A1, A2.
        destruct (nth_error ms i) as [m|] eqn:Hm; [|apply nth_error_None in Hm; lia].
        destruct (all3_nth _ _ _ _ Hall i m Hm) as [sl [t [Hsl [Ht Hg]]]]. fold slots tables in Hsl, Ht.
        replace (seq 0 (length ms)) with (seq 0 (length (combine ms tables))) by (rewrite combine_length; f_equal; lia).
        rewrite (nth_map_combine_seq (fun '(mi, (m0, t0)) => slots_strides_of st mi m0 t0) (combine ms tables) i (m, t) []).
        2:{ apply nth_error_combine; assumption. }
        pose proof (nth_error_combine _ _ _ _ _ Hsl Ht) as Hc.
        rewrite (nth_error_nth _ _ _ (map_nth_error (fun '(sl0, t0) => ss_of sl0 t0) _ _ Hc)).
        unfold slots_strides_of, ss_of. rewrite <- E1. fold slots. rewrite (nth_error_nth _ _ _ Hsl).
        destruct Hg as [Ha [Hls [Hlt _]]]. unfold meth_arity in *.
        destruct (Nat.eqb_spec (length (cm_vp m)) 1) as [E1'|_]; [|reflexivity].
        destruct sl as [|x [|y sl]]; cbn [length] in Hls; try lia. destruct (t_strides t); [reflexivity|cbn [length] in Hlt; lia].
    - rewrite Fv. replace (length (snd pt)) with (length (snd pt) + 0) at 1 by lia.
      rewrite place_vtbls_vps. unfold tables_len. fold tables. rewrite ?E5. rewrite HT. reflexivity.
    - exact Hlg.
    - rewrite Hlgl. unfold vtbls_len. fold vt. rewrite (fold_add (@length _) vt 0). reflexivity.
    - rewrite EE. reflexivity.
  Qed.
End Roundtrip.

(* ------------------------------------------------------------------ array bounds *)

(* the three bounds that fix b477860 clamps: never zero, never negative — for ANY update result *)
Theorem codec_sizes C : 1 <= e_H (encode C) /\ 1 <= e_D (encode C) /\ 1 <= e_T (encode C).
Proof.
  unfold encode. destruct (vtbl_sizes C) as [[esz dsz] lead]. cbn [e_H e_D e_T].
  destruct (Nat.ltb_spec (slots_and_strides_size C) lead); lia.
Qed.

Lemma slots_cells_ge ms sls ts : all3 meth_good ms sls ts ->
  length ms <= length (flat_map (fun '(sl, t) => map nat16 (sl ++ t_strides t)) (combine sls ts)).
Proof.
  induction 1 as [|m sl t ms sls ts Hg H IH]; [cbn; lia|]. cbn [combine flat_map length]. rewrite app_length, map_length, app_length.
  destruct Hg as [Ha [Hsl _]]. lia.
Qed.

Lemma total_cells_ge vt : length vt <= total_cells vt.
Proof. induction vt as [|es vt IH]; [cbn; lia|]. change (total_cells (es :: vt)) with (S (cells_of_entries es) + total_cells vt). cbn [length]. lia. Qed.

Section Sizes.
  Variables (R : registry) (C : compiled).
  Hypothesis Hwf : wf_registry R.
  Hypothesis HC : compile R = Ok C.
  Hypothesis Hsmall : small C.

  (* on update's result: every initializer list fits its array exactly (dtbls: up to the clamp), a registry with a
     method has a non-empty slots array and a registry with a class a non-empty encoded v-table array *)
  Theorem codec_sizes_wf :
    e_S (encode C) = length (e_slots (encode C)) /\ e_E (encode C) = length (e_vtbls (encode C)) /\
    length (e_dtbls (encode C)) <= e_T (encode C) /\
    length (o_meths C) <= e_S (encode C) /\ length (o_vtbl C) <= e_E (encode C).
  Proof.
    destruct (compile_codec_ok R C Hwf HC Hsmall) as [L [ms [EC [Hlo [Hms [Hok Hnv]]]]]].
    pose proof (ck_meths C Hok) as Hall. pose proof (ck_len_first C Hok) as Hlf.
    pose proof (slots_size_eq _ _ _ Hall 0) as HS. cbn [Nat.add] in HS.
    destruct (lead_classes_spec (o_vtbl C) 0 0 0) as [lead [Hlead _]]. cbn [Nat.add] in Hlead.
    destruct (enc_vtbls_length C Hlf) as [_ Hevl].
    pose proof (tables_fold_length (combine (o_meths C) (o_tables C)) 0 0 0) as HT. cbn [Nat.add] in HT.
    pose proof (enc_dt_length _ _ _ Hall 0 0) as HTl.
    unfold encode, vtbl_sizes. rewrite Hlead. cbn [e_S e_E e_T e_slots e_vtbls e_dtbls].
    fold (total_cells (o_vtbl C)). split; [exact HS|]. split; [symmetry; exact Hevl|]. split.
    - unfold dispatch_tables_size. rewrite HT. change (enc_dtbls C) with (flat_map enc_dt (combine (o_meths C) (o_tables C))).
      rewrite HTl. lia.
    - split; [unfold slots_and_strides_size; rewrite HS; apply (slots_cells_ge _ _ _ Hall)|apply total_cells_ge].
  Qed.
End Sizes.

(* ------------------------------------------------------------------ the three pre-fix behaviours (b477860), refuted *)

(* nine classes, one uni-method on the first: eight classes registered last have empty v-tables *)
Definition tail_R : registry :=
  mk_reg [mk_class 1 [1] false; mk_class 2 [2] false; mk_class 3 [3] false; mk_class 4 [4] false; mk_class 5 [5] false;
          mk_class 6 [6] false; mk_class 7 [7] false; mk_class 8 [8] false; mk_class 9 [9] false]%N
         [mk_meth [1]%N [mk_def [1]%N true] [true]] [].

(* probe P9's lattice: class 2's first used slot is 4 *)
Definition first4_R : registry :=
  mk_reg [mk_class 1 [1] false; mk_class 2 [2] false; mk_class 3 [3; 1; 2] false; mk_class 4 [4] false]%N
         [mk_meth [1]%N [mk_def [1]%N true] [true];
          mk_meth [2; 3]%N [mk_def [2; 3]%N true] [true; true];
          mk_meth [1; 2; 3]%N [mk_def [1; 2; 3]%N true; mk_def [3; 2; 3]%N true] [true; true; true]] [].

Theorem codec_legacy_refuted :
  (* 1. decoded size with first_slot subtracted twice: 6 words declared, 10 decoded *)
  (exists C, compile first4_R = Ok C /\ nth 1 (o_first C) 0 = 4 /\ legacy_dsize C = 6%Z /\ vtbls_len C = 10 /\ e_D (encode C) = 10) /\
  (* 2. headroom from the totals only: `uint16_t headroom[-6]` *)
  (exists C, compile tail_R = Ok C /\ legacy_headroom C = (-6)%Z /\ e_H (encode C) = 1) /\
  (* 3. first_slot of an empty v-table emitted without the stop bit: the decoder takes the next class's first slot for
        an entry and writes a second word into `std::uintptr_t vtbls[1]` *)
  (exists C, compile tail_R = Ok C /\
     let E := encode C in
     decode (ctx_of C) (mk_enc (e_H E) (e_S E) (e_E E) (e_D E) (e_T E) (e_slots E) (enc_vtbls_legacy C) (e_dtbls E))
     = CErr (WriteOutside 1) /\
     exists d, decode (ctx_of C) E = COk d /\ dd_image d = [WFn 0 0]).
Proof.
  split; [|split].
  - eexists. split; [vm_compute; reflexivity|]. vm_compute. repeat split.
  - eexists. split; [vm_compute; reflexivity|]. vm_compute. repeat split.
  - eexists. split; [vm_compute; reflexivity|]. split; [vm_compute; reflexivity|]. eexists. split; vm_compute; reflexivity.
Qed.

Print Assumptions codec_main.
Print Assumptions codec_sizes.
Print Assumptions codec_sizes_wf.
Print Assumptions codec_legacy_refuted.

(* ------------------------------------------------------------------ the two faces of codec_main *)

Theorem codec_roundtrip R C : wf_registry R -> compile R = Ok C -> small C ->
  exists d, decode (ctx_of C) (encode C) = COk d /\
    (exists junk, o_image C = dd_image d ++ junk) /\ length (dd_image d) = written C /\
    dd_ss d = o_ss C /\
    o_vptr C = map (fun z => (Z.of_nat (tables_len C) + z)%Z) (dd_vptr d).
Proof.
  intros Hwf HC Hs. destruct (codec_main R C Hwf HC Hs) as [d [H1 [H2 [H3 [H4 [H5 _]]]]]]. exists d. auto.
Qed.

Theorem codec_in_place R C : wf_registry R -> compile R = Ok C -> small C ->
  exists d, decode (ctx_of C) (encode C) = COk d /\
    let E := encode C in
    Forall (fun wr => 4 * S (fst wr) <= snd wr /\ fst wr < e_D E /\ snd wr <= e_H E + e_S E + e_E E) (dd_log d) /\
    length (dd_log d) = vtbls_len C /\ dd_rd d = e_E E.
Proof.
  intros Hwf HC Hs. destruct (codec_main R C Hwf HC Hs) as [d [H1 [_ [_ [_ [_ [H6 [H7 H8]]]]]]]]. exists d.
  split; [exact H1|]. cbv zeta. split; [exact H6|]. split; assumption.
Qed.

Print Assumptions codec_roundtrip.
Print Assumptions codec_in_place.
