(* HistoryProofs.v — update after any load / unload history behaves like a fresh update (C07). *)
From Y2 Require Import Model.Registry Model.Compile Model.History Spec.Dispatch.
From Y2 Require Import Proofs.Interfaces Proofs.ResolveProofs Proofs.CompileProofs Proofs.CorollaryProofs Proofs.ReportCompose.
From Coq Require Import Lia.
Local Open Scope nat_scope.

(* the catalogs after a history do not depend on updates: updates only touch dispatch_data and the installed tables *)
Lemma hstep_reg_update s : h_reg (hstep s HUpdate) = h_reg s.
Proof. unfold hstep. destruct (compile_with _ _); reflexivity. Qed.

(* what an update installs is a function of the live catalogs and of the old contents of dispatch_data only *)
Theorem update_installs ops alias C :
  h_inst (hrun alias (ops ++ [HUpdate])) = Some C <->
  compile_with (h_data (hrun alias ops)) (h_reg (hrun alias ops)) = Ok C.
Proof.
  unfold hrun. rewrite fold_left_app. cbn [fold_left]. set (s := fold_left hstep ops (hinit alias)).
  unfold hstep. destruct (compile_with (h_data s) (h_reg s)) as [C'|e]; cbn [h_inst]; split; intro H; inversion H; reflexivity.
Qed.

(* an update of a well-formed set of registrations always succeeds, whatever happened before *)
Theorem update_succeeds ops alias : wf_registry (h_reg (hrun alias ops)) ->
  exists C, h_inst (hrun alias (ops ++ [HUpdate])) = Some C.
Proof.
  intro Hwf. destruct (compile_total (h_reg (hrun alias ops)) (h_data (hrun alias ops)) Hwf) as [C [HC _]].
  exists C. apply update_installs. exact HC.
Qed.

(* every legal call after the latest update reads the word a fresh process (empty dispatch_data) would read *)
Theorem history_like_fresh ops alias C Cf mi m args :
  let R := h_reg (hrun alias ops) in
  wf_registry R -> h_inst (hrun alias (ops ++ [HUpdate])) = Some C -> compile R = Ok Cf ->
  nth_error (r_methods R) mi = Some m -> legal R m args ->
  exists cs cs' w,
    map (key (o_lat C)) cs = args /\ map (key (o_lat Cf)) cs' = args /\
    resolve C mi (actuals_of C (m_shape m) cs) = Ok w /\
    resolve Cf mi (actuals_of Cf (m_shape m) cs') = Ok w /\
    w = word_of_outcome mi (spec_dispatch R (meth_defs R m) args).
Proof.
  intros R Hwf HC HCf Hm Hl. apply update_installs in HC.
  destruct (dispatch_correct R _ C mi m args Hwf HC Hm Hl) as [cs [E Hr]].
  destruct (dispatch_correct R [] Cf mi m args Hwf HCf Hm Hl) as [cs' [E' Hr']].
  exists cs, cs', (word_of_outcome mi (spec_dispatch R (meth_defs R m) args)). repeat split; assumption.
Qed.

(* the same for next and for the report: they are those of a fresh process *)
Theorem history_next_like_fresh ops alias C Cf mi m i :
  let R := h_reg (hrun alias ops) in
  wf_registry R -> h_inst (hrun alias (ops ++ [HUpdate])) = Some C -> compile R = Ok Cf ->
  nth_error (r_methods R) mi = Some m -> i < length (m_defs m) ->
  nth i (t_nexts (nth mi (o_tables C) (mk_ct [] [] [] (mk_rep 0 0 0 0 0 0) []))) CNi
  = nth i (t_nexts (nth mi (o_tables Cf) (mk_ct [] [] [] (mk_rep 0 0 0 0 0 0) []))) CNi.
Proof.
  intros R Hwf HC HCf Hm Hi. apply update_installs in HC.
  rewrite (next_correct R _ C mi m i Hwf HC Hm Hi). rewrite (next_correct R [] Cf mi m i Hwf HCf Hm Hi). reflexivity.
Qed.

(* running update again with no change alters nothing: the very same compiled state and dispatch_data *)
Lemma firstn_skipn_self {A} (a b pad : list A) k : k = length b -> firstn k (skipn (length a) (a ++ b) ++ pad) = b.
Proof.
  intros ->. rewrite skipn_app, skipn_all, Nat.sub_diag. cbn [skipn app].
  rewrite firstn_app, firstn_all, Nat.sub_diag. cbn [firstn]. apply app_nil_r.
Qed.

Lemma install_with_idem stale L ms st :
  install_with (o_image (install_with stale L ms st)) L ms st = install_with stale L ms st.
Proof.
  unfold install_with.
  destruct (place_tables 0 0 (combine ms (map (build_method L) ms))) as [offs img1].
  destruct (place_vtbls (length img1) (s_first st) (map (map (entry_word ms (map (build_method L) ms) offs)) (write_vtbls L ms st))) as [vptrs img2].
  cbn [o_image]. f_equal.
  set (img := img1 ++ img2). set (k := total_cells (map (build_method L) ms) (write_vtbls L ms st) - length img).
  set (tail := firstn k (skipn (length img) stale ++ repeat WJunk k)).
  f_equal. apply firstn_skipn_self.
  unfold tail. rewrite firstn_length. rewrite app_length, repeat_length. lia.
Qed.

Lemma hstep_update_ok s C : compile_with (h_data s) (h_reg s) = Ok C -> hstep s HUpdate = mk_hs (h_reg s) (o_image C) (Some C).
Proof. intro H. unfold hstep. rewrite H. reflexivity. Qed.
Lemma hstep_update_err s e : compile_with (h_data s) (h_reg s) = Err e -> hstep s HUpdate = mk_hs (h_reg s) (h_data s) None.
Proof. intro H. unfold hstep. rewrite H. reflexivity. Qed.

Theorem update_idempotent ops alias :
  let s1 := hrun alias (ops ++ [HUpdate]) in
  let s2 := hrun alias (ops ++ [HUpdate; HUpdate]) in
  h_reg s2 = h_reg s1 /\ h_inst s2 = h_inst s1 /\ (h_inst s1 <> None -> h_data s2 = h_data s1).
Proof.
  cbv zeta. unfold hrun. rewrite !fold_left_app. cbn [fold_left]. set (s := fold_left hstep ops (hinit alias)).
  destruct (compile_with (h_data s) (h_reg s)) as [C|e] eqn:E.
  - rewrite (hstep_update_ok s C E).
    assert (E2 : compile_with (o_image C) (h_reg s) = Ok C).
    { unfold compile_with in *. destruct (augment_classes (h_reg s)) as [L|]; cbn [bind] in *; [|discriminate].
      destruct (augment_methods (h_reg s) (l_keys L) (r_methods (h_reg s))) as [ms|]; cbn [bind] in *; [|discriminate].
      inversion E; subst C. rewrite install_with_idem. reflexivity. }
    rewrite (hstep_update_ok (mk_hs (h_reg s) (o_image C) (Some C)) C E2). cbn [h_reg h_inst h_data]. repeat split.
  - rewrite (hstep_update_err s e E). rewrite (hstep_update_err (mk_hs (h_reg s) (h_data s) None) e E).
    cbn [h_reg h_inst h_data]. repeat split.
Qed.

Print Assumptions history_like_fresh.
Print Assumptions history_next_like_fresh.
Print Assumptions update_idempotent.
Print Assumptions update_succeeds.
