(* LatBases.v — the first two loops of augment_classes: the class table (class_keys, class_of) and the
   listed bases (collect_bases), then the link between `anc` on class keys and the transitive closure
   of the listed edges on class indexes. *)
From Coq Require Import List Arith NArith Lia Bool Relations Permutation.
From Y2 Require Import Model.Registry Model.Compile Spec.Dispatch Proofs.LatListFacts Proofs.LatClosure.
Import ListNotations.
Local Open Scope nat_scope.

(* ------------------------------------------------------------------ 1. the class table *)

Lemma class_keys_eq R : class_keys R = all_classes R.
Proof. reflexivity. Qed.

Section KeysFold.
  Context {A : Type} (f : A -> N).
  Let stepk := fun (acc : list N) (cr : A) => let k := f cr in if memN k acc then acc else acc ++ [k].

  Lemma keys_fold_NoDup l : forall acc, NoDup acc -> NoDup (fold_left stepk l acc).
  Proof.
    induction l as [|a l IH]; cbn [fold_left]; intros acc H; [assumption|].
    apply IH. unfold stepk. cbv zeta. destruct (memN (f a) acc) eqn:E; [assumption|].
    apply memN_false in E.
    apply (Permutation_NoDup (Permutation_cons_append acc (f a))). now constructor.
  Qed.

  Lemma keys_fold_In l : forall acc k, In k (fold_left stepk l acc) <-> In k acc \/ exists r, In r l /\ f r = k.
  Proof.
    induction l as [|a l IH]; cbn [fold_left]; intros acc k.
    - split; [auto|]. intros [H|[r [[] _]]]. assumption.
    - rewrite IH. unfold stepk. cbv zeta. destruct (memN (f a) acc) eqn:E.
      + apply memN_In in E. split.
        * intros [H|[r [H1 H2]]]; [auto|]. right. exists r. cbn. auto.
        * intros [H|[r [[->|H1] H2]]]; [auto| |]; [subst; auto|]. right. eauto.
      + rewrite in_app_iff. cbn [In]. split.
        * intros [[H|[H|[]]]|[r [H1 H2]]]; [auto| |]; right; [exists a|exists r]; auto.
        * intros [H|[r [[->|H1] H2]]]; [auto| |]; [subst; auto|]. right. eauto.
  Qed.
End KeysFold.

Lemma class_keys_NoDup R : NoDup (class_keys R).
Proof. unfold class_keys. apply (keys_fold_NoDup (fun cr => proj R (c_tid cr))). constructor. Qed.

Lemma class_keys_In R k : In k (class_keys R) <-> registered R k.
Proof.
  unfold class_keys, registered, rec_class.
  rewrite (keys_fold_In (fun cr => proj R (c_tid cr))). cbn [In]. tauto.
Qed.

Definition keyn (R : registry) (i : nat) : N := nth i (class_keys R) 0%N.

Lemma class_of_spec R t i :
  class_of R (class_keys R) t = Some i <-> (i < length (class_keys R) /\ keyn R i = proj R t).
Proof.
  unfold class_of, keyn. split.
  - apply index_ofN_Some.
  - intros [H1 H2]. apply index_ofN_nodup; [apply class_keys_NoDup|assumption|assumption].
Qed.

Lemma class_of_registered R t : registered R (proj R t) -> exists i, class_of R (class_keys R) t = Some i.
Proof. intro H. apply class_keys_In in H. unfold class_of. now apply index_ofN_In. Qed.

Lemma keyn_inj R i j : i < length (class_keys R) -> j < length (class_keys R) -> keyn R i = keyn R j -> i = j.
Proof. unfold keyn. apply NoDup_nth_inj, class_keys_NoDup. Qed.

Lemma registered_keyn R k : registered R k -> exists i, i < length (class_keys R) /\ keyn R i = k.
Proof.
  intro H. apply class_keys_In in H. destruct (In_nth _ _ 0%N H) as [i [H1 H2]]. exists i. auto.
Qed.

(* ------------------------------------------------------------------ 2. collect_bases *)

Section Collect.
  Variable R : registry.
  Let keys := class_keys R.
  Let n := length keys.
  Let cof := class_of R keys.

  Lemma add_bases_ok c : forall bases tb,
    (forall b, In b bases -> exists bi, cof b = Some bi) -> c < length tb ->
    exists tb', add_bases R keys c bases tb = Ok tb' /\ length tb' = length tb /\
      forall x y, In y (tget tb' x) <->
                  In y (tget tb x) \/ (x = c /\ y <> c /\ exists b, In b bases /\ cof b = Some y).
  Proof.
    induction bases as [|b rest IH]; intros tb Hb Hc; cbn [add_bases].
    - exists tb. repeat split; auto. intros [H|[_ [_ [b [[] _]]]]]. assumption.
    - destruct (Hb b (or_introl eq_refl)) as [bi Hbi]. fold keys. fold cof. rewrite Hbi.
      destruct (Nat.eqb_spec bi c) as [->|Hne].
      + destruct (IH tb) as [tb' [H1 [H2 H3]]]; [intros; apply Hb; now right|assumption|].
        exists tb'. repeat split; try assumption.
        * intro H. apply H3 in H. destruct H as [H|[-> [Hy [b' [Hb' Hc']]]]]; [auto|].
          right. repeat split; auto. exists b'. cbn. auto.
        * intros [H|[-> [Hy [b' [[<-|Hb'] Hc']]]]]; apply H3; [auto| |].
          -- congruence.
          -- right. repeat split; auto. eauto.
      + set (tb1 := upd_nth c tb [] (fun l => l ++ [bi])).
        destruct (IH tb1) as [tb' [H1 [H2 H3]]];
          [intros; apply Hb; now right|unfold tb1; now rewrite length_upd_nth|].
        exists tb'. split; [assumption|]. split; [unfold tb1 in H2; now rewrite length_upd_nth in H2|].
        assert (T : forall x y, In y (tget tb1 x) <-> In y (tget tb x) \/ (x = c /\ y = bi)).
        { intros x y. unfold tget, tb1. destruct (Nat.eq_dec c x) as [<-|Hx].
          - rewrite nth_upd_nth_eq by assumption. rewrite in_app_iff. cbn [In]. intuition.
          - rewrite nth_upd_nth_neq by assumption. intuition congruence. }
        intros x y. rewrite H3, T. split.
        * intros [[H|[-> ->]]|[-> [Hy [b' [Hb' Hc']]]]]; [auto| |].
          -- right. repeat split; auto. exists b. cbn. auto.
          -- right. repeat split; auto. exists b'. cbn. auto.
        * intros [H|[-> [Hy [b' [[<-|Hb'] Hc']]]]]; [auto| |].
          -- left. right. split; congruence.
          -- right. repeat split; auto. eauto.
  Qed.

  Lemma collect_bases_ok : forall recs tb,
    (forall r, In r recs -> (exists c, cof (c_tid r) = Some c) /\
                            forall b, In b (c_bases r) -> exists bi, cof b = Some bi) ->
    length tb = n ->
    exists tb', collect_bases R keys recs tb = Ok tb' /\ length tb' = n /\
      forall x y, In y (tget tb' x) <->
        In y (tget tb x) \/
        exists r, In r recs /\ cof (c_tid r) = Some x /\ y <> x /\ exists b, In b (c_bases r) /\ cof b = Some y.
  Proof.
    induction recs as [|r rest IH]; intros tb Hr Hlen; cbn [collect_bases].
    - exists tb. repeat split; auto. intros [H|[r [[] _]]]. assumption.
    - destruct (Hr r (or_introl eq_refl)) as [[c Hc] Hb]. fold keys. fold cof. rewrite Hc.
      assert (Hcn : c < length tb).
      { rewrite Hlen. unfold cof, class_of in Hc. apply index_ofN_Some in Hc. apply Hc. }
      destruct (add_bases_ok c (c_bases r) tb Hb Hcn) as [tb1 [H1 [H2 H3]]].
      fold keys in H1. rewrite H1. cbn [bind].
      destruct (IH tb1) as [tb' [G1 [G2 G3]]]; [intros; apply Hr; now right|congruence|].
      exists tb'. repeat split; try assumption.
      + intro H. apply G3 in H. destruct H as [H|[r' [Hr' H]]].
        * apply H3 in H. destruct H as [H|[-> [Hy Hex]]]; [auto|].
          right. exists r. repeat split; auto. now left.
        * right. exists r'. destruct H as [G4 [G5 G6]]. repeat split; auto. now right.
      + intros [H|[r' [[<-|Hr'] [Hx [Hy Hex]]]]]; apply G3.
        * left. apply H3. auto.
        * left. apply H3. right. assert (x = c) by congruence. subst x. auto.
        * right. exists r'. auto.
  Qed.

  Definition key_edge (b c : nat) : Prop := b < n /\ c < n /\ b <> c /\ edge R (keyn R b) (keyn R c).

  Theorem collect_bases_spec : bases_registered R ->
    exists tb0, collect_bases R keys (r_classes R) (repeat [] n) = Ok tb0 /\ length tb0 = n /\
                forall c b, In b (tget tb0 c) <-> key_edge b c.
  Proof.
    intro BR.
    destruct (collect_bases_ok (r_classes R) (repeat [] n)) as [tb0 [H1 [H2 H3]]].
    - intros r Hr. split.
      + apply class_of_registered. exists r. split; [assumption|reflexivity].
      + intros b Hb. apply class_of_registered. apply (BR r); [assumption|].
        unfold rec_bases. now apply in_map.
    - apply repeat_length.
    - exists tb0. split; [assumption|]. split; [assumption|].
      intros c b. rewrite H3. unfold tget at 1. rewrite nth_repeat_nil. unfold key_edge, cof, keys.
      split.
      + intros [[]|[r [Hr [Hc [Hne [t [Ht Hb]]]]]]].
        apply class_of_spec in Hc. apply class_of_spec in Hb. destruct Hc as [Hc1 Hc2]. destruct Hb as [Hb1 Hb2].
        fold keys in Hc1, Hb1. fold n in Hc1, Hb1. repeat split; try assumption.
        * intro Eq. apply Hne. now apply (keyn_inj R).
        * exists r. split; [assumption|]. split; [now rewrite Hc2|].
          rewrite Hb2. unfold rec_bases. now apply in_map.
      + intros [Hb [Hc [Hne [_ [r [Hr [Hrc Hrb]]]]]]]. right. exists r. split; [assumption|].
        unfold rec_bases in Hrb. apply in_map_iff in Hrb. destruct Hrb as [t [Ht1 Ht2]].
        split; [apply class_of_spec; split; [assumption|now rewrite <- Hrc]|].
        split; [assumption|]. exists t. split; [assumption|]. apply class_of_spec. split; [assumption|congruence].
  Qed.
End Collect.

(* ------------------------------------------------------------------ 3. anc on keys vs. closure on indexes *)

Lemma clos_t_rt {A} (Rel : relation A) x y : clos_trans A Rel x y -> clos_refl_trans A Rel x y.
Proof. induction 1; [now apply rt_step|eapply rt_trans; eauto]. Qed.

Lemma edge_irrefl_trans R : acyclic R -> forall k, ~ clos_trans N (edge R) k k.
Proof.
  intros Acy k H. apply clos_trans_t1n in H. inversion H as [y He|y z He Hr]; subst.
  - destruct He as [Hne _]. congruence.
  - apply clos_t1n_trans in Hr. apply clos_t_rt in Hr.
    assert (k = y) by (apply Acy; [now apply rt_step|assumption]).
    destruct He as [Hne _]. congruence.
Qed.

Section Bridge.
  Variable R : registry.
  Variable tb0 : list (list nat).
  Let n := length (class_keys R).
  Hypothesis Acy : acyclic R.
  Hypothesis BR : bases_registered R.
  Hypothesis H0 : forall c b, In b (tget tb0 c) <-> key_edge R b c.

  Lemma ancp_trans_edge b c : ancp tb0 b c -> b < n /\ c < n /\ clos_trans N (edge R) (keyn R b) (keyn R c).
  Proof.
    induction 1 as [b c H|b c d _ [IH1 [IH2 IH3]] _ [IH4 [IH5 IH6]]].
    - apply H0 in H. destruct H as [Hb [Hc [_ He]]]. repeat split; try assumption. now apply t_step.
    - repeat split; try assumption. eapply t_trans; eauto.
  Qed.

  Lemma ancp_irrefl c : ~ ancp tb0 c c.
  Proof. intro H. apply ancp_trans_edge in H. destruct H as [_ [_ H]]. now apply (edge_irrefl_trans R Acy) in H. Qed.

  Lemma anc_ancp_gen x y : clos_refl_trans_n1 N (edge R) x y ->
    forall c, c < n -> y = keyn R c -> x = y \/ exists b, b < n /\ x = keyn R b /\ ancp tb0 b c.
  Proof.
    induction 1 as [|y z He Hr IH]; intros c Hc Hz; [auto|]. right.
    assert (Hy : registered R y).
    { destruct He as [_ [r [Hr1 [_ Hr3]]]]. now apply (BR r). }
    destruct (registered_keyn R y Hy) as [b' [Hb' Hk]]. fold n in Hb'.
    assert (Hbc : E tb0 b' c).
    { apply H0. split; [exact Hb'|]. split; [exact Hc|]. split.
      - intros ->. destruct He as [Hne _]. congruence.
      - now rewrite Hk, <- Hz. }
    destruct (IH b' Hb' (eq_sym Hk)) as [->|[b [Hb [Hx Hanc]]]].
    - exists b'. repeat split; auto. now apply t_step.
    - exists b. repeat split; auto. eapply t_trans; [exact Hanc|now apply t_step].
  Qed.

  Theorem ancp_anc b c : ancp tb0 b c <-> (b < n /\ c < n /\ b <> c /\ anc R (keyn R b) (keyn R c)).
  Proof.
    split.
    - intro H. pose proof (ancp_trans_edge b c H) as [Hb [Hc Ht]]. repeat split; try assumption.
      + intros ->. now apply ancp_irrefl in H.
      + now apply clos_t_rt.
    - intros [Hb [Hc [Hne Ha]]]. apply clos_rt_rtn1 in Ha.
      destruct (anc_ancp_gen _ _ Ha c Hc eq_refl) as [Eq|[b' [Hb' [Hx Hanc]]]].
      + exfalso. apply Hne. now apply (keyn_inj R).
      + assert (b = b') by now apply (keyn_inj R). now subst.
  Qed.
End Bridge.
