(* TabSource.v — compiler<Policy>::build_dispatch_table as TRANSLATED from detail/compiler.hpp on this run (Gen/GenTab.v,
   interpreted by Model/MiniTab.v) produces, for every lattice, list of definitions, stack of groups, candidate mask and
   `concrete` flag, exactly the cells of Model.Compile.build_table, in order, and the four counters of the method report
   equal the counts the model derives from those cells and their flags. *)
From Coq Require Import List NArith Bool Arith Lia.
From Y2 Require Import Model.Registry Model.Compile Model.MiniTab Gen.GenTab.
Import ListNotations.

Definition count_amb (l : list (cell * bool)) : nat := length (filter (fun cf => is_amb (fst cf)) l).
Definition count_ni (l : list (cell * bool)) : nat := length (filter (fun cf => is_ni (fst cf)) l).
Definition count_camb (l : list (cell * bool)) : nat := length (filter (fun cf => is_amb (fst cf) && snd cf) l).
Definition count_cni (l : list (cell * bool)) : nat := length (filter (fun cf => is_ni (fst cf) && snd cf) l).

(* the output after appending the cells bt (with their flags) to what was there *)
Definition extend (o : tout) (bt : list (cell * bool)) : tout :=
  mk_to (o_cells o ++ map fst bt)
        (mk_tc (k_amb (o_counts o) + count_amb bt) (k_camb (o_counts o) + count_camb bt)
               (k_ni (o_counts o) + count_ni bt) (k_cni (o_counts o) + count_cni bt)).

Lemma extend_nil o : extend o [] = o.
Proof. destruct o as [c [a b n d]]. unfold extend. cbn. rewrite app_nil_r, !Nat.add_0_r. reflexivity. Qed.

Lemma extend_app o a b : extend (extend o a) b = extend o (a ++ b).
Proof.
  destruct o as [c [x y z w]]. unfold extend, count_amb, count_camb, count_ni, count_cni. cbn.
  rewrite map_app, !filter_app, !app_length, <- app_assoc. f_equal. f_equal; lia.
Qed.

Section Tab.
  Variables (L : lattice) (specs : list (list nat)).

  (* the leaf: one group of dimension 0 *)
  Lemma leaf_step g hc cand concrete recurse o :
    texec L specs g hc cand concrete true recurse gen_tab_body (mk_tl None None None, o)
    = Some (mk_tl (Some (N.land cand g)) (Some (bits_of (length specs) (N.land cand g)))
                  (Some (best L specs (bits_of (length specs) (N.land cand g)))),
            extend o [(cell_of (best L specs (bits_of (length specs) (N.land cand g))), concrete && hc)]).
  Proof.
    unfold gen_tab_body.
    cbn [texec tceval l_mask l_applicable l_specs].
    set (b := best L specs (bits_of (length specs) (N.land cand g))).
    destruct b as [|s [|s2 r]]; cbn [length Nat.ltb Nat.leb texec tceval l_specs cell_of andb];
      destruct concrete, hc; cbn [andb texec tceval];
      destruct o as [c [x y z w]]; unfold extend, count_amb, count_camb, count_ni, count_cni; cbn;
      rewrite ?Nat.add_0_r, ?Nat.add_1_r; reflexivity.
  Qed.

  (* an inner dimension: the recursive call gets the mask and the conjunction of the flags *)
  Lemma inner_step g hc cand concrete recurse o :
    texec L specs g hc cand concrete false recurse gen_tab_body (mk_tl None None None, o)
    = match recurse (N.land cand g) (concrete && hc) o with
      | Some o' => Some (mk_tl (Some (N.land cand g)) None None, o')
      | None => None
      end.
  Proof.
    unfold gen_tab_body. cbn [texec tceval l_mask l_applicable l_specs].
    destruct (recurse (N.land cand g) (concrete && hc) o); reflexivity.
  Qed.

  Lemma leaf_groups cand concrete recurse : forall gs o,
    groups_loop L specs gen_tab_body cand concrete true recurse gs o
    = Some (extend o (map (fun '(g, hc) => (cell_of (best L specs (bits_of (length specs) (N.land cand g))), concrete && hc)) gs)).
  Proof.
    induction gs as [|[g hc] r IH]; intros o; cbn [groups_loop map]; [now rewrite extend_nil|].
    rewrite leaf_step, IH, extend_app. reflexivity.
  Qed.

  Lemma inner_groups cand concrete (rest : list (list (N * bool))) (Hrest : rest <> [])
        (IHrest : forall cand concrete o, run_tab L specs gen_tab_body rest cand concrete o
                                          = Some (extend o (build_table L specs rest cand concrete))) :
    forall gs o,
      groups_loop L specs gen_tab_body cand concrete false (fun m c o' => run_tab L specs gen_tab_body rest m c o') gs o
      = Some (extend o (flat_map (fun '(g, hc) => build_table L specs rest (N.land cand g) (concrete && hc)) gs)).
  Proof.
    induction gs as [|[g hc] r IH]; intros o; cbn [groups_loop flat_map]; [now rewrite extend_nil|].
    rewrite inner_step, IHrest, IH, extend_app. reflexivity.
  Qed.

  (* running the translated function = appending the model's cells, with the model's counts *)
  Theorem src_build_table : forall gss cand concrete o,
    run_tab L specs gen_tab_body gss cand concrete o = Some (extend o (build_table L specs gss cand concrete)).
  Proof.
    induction gss as [|gs rest IH]; intros cand concrete o; [cbn; now rewrite extend_nil|].
    destruct rest as [|gs2 rest2].
    - cbn [run_tab build_table]. apply leaf_groups.
    - change (run_tab L specs gen_tab_body (gs :: gs2 :: rest2) cand concrete o)
        with (groups_loop L specs gen_tab_body cand concrete false
                          (fun m c o' => run_tab L specs gen_tab_body (gs2 :: rest2) m c o') gs o).
      change (build_table L specs (gs :: gs2 :: rest2) cand concrete)
        with (flat_map (fun '(g, hc) => build_table L specs (gs2 :: rest2) (N.land cand g) (concrete && hc)) gs).
      apply inner_groups; [discriminate|exact IH].
  Qed.
End Tab.

(* from an empty table: the cells of the method and the counters of its report, as Model.Compile.build_method takes them *)
Theorem src_build_method_cells L specs gss cand :
  run_tab L specs gen_tab_body gss cand true (mk_to [] tc0)
  = let cf := build_table L specs gss cand true in
    Some (mk_to (map fst cf) (mk_tc (count_amb cf) (count_camb cf) (count_ni cf) (count_cni cf))).
Proof. rewrite src_build_table. reflexivity. Qed.

(* ... which are the cells and the report counters of Model.Compile.build_method *)
Theorem src_build_method L m :
  let groups := map (groups_of L m) (seq 0 (length (cm_vp m))) in
  let rep := t_report (build_method L m) in
  run_tab L (cm_specs m) gen_tab_body (rev groups) (N.ones (N.of_nat (length (cm_specs m)))) true (mk_to [] tc0)
  = Some (mk_to (t_cells (build_method L m)) (mk_tc (rp_amb rep) (rp_camb rep) (rp_ni rep) (rp_cni rep))).
Proof. cbv zeta. rewrite src_build_method_cells. reflexivity. Qed.

(* ------------------------------------------------------------------ "assigning next" *)
(* what the translated loop body stores through a definition's next pointer is the model's t_nexts entry *)
Theorem src_next L specs sp :
  run_next L specs sp gen_next_body
  = Some (cell_of (best L specs (filter (fun o => is_base L (nth o specs []) sp false) (seq 0 (length specs))))).
Proof.
  unfold run_next, gen_next_body. cbn [nexec nceval n_cands n_nexts n_next n_stored].
  set (b := best L specs _).
  destruct b as [|s [|s2 r]]; cbn; reflexivity.
Qed.

Theorem src_nexts L m :
  map (fun sp => run_next L (cm_specs m) sp gen_next_body) (cm_specs m) = map Some (t_nexts (build_method L m)).
Proof.
  unfold build_method. cbn [t_nexts]. rewrite map_map. apply map_ext. intros sp. apply src_next.
Qed.
