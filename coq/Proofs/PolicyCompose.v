(* PolicyCompose.v — the classes update publishes, as the policies see them: each registered id belongs to exactly one
   class, so every policy configuration maps every registered id to its class's static v-table pointer (C01). *)
From Y2 Require Import Model.Registry Model.Compile Model.VptrPolicy Spec.Dispatch.
From Y2 Require Import Proofs.Interfaces Proofs.LatListFacts Proofs.LatBases Proofs.CompileProofs Proofs.VptrPolicyProofs.
From Coq Require Import Lia.
Local Open Scope nat_scope.

(* class i of update's class table with the ids collected for it; the v-table pointer is designated by the class index *)
Definition published_classes (C : compiled) : list pclass :=
  map (fun '(i, info) => (N.of_nat i, k_tids info)) (combine (seq 0 (length (l_info (o_lat C)))) (l_info (o_lat C))).

Lemma dedupN_In l : forall seen x, In x (dedupN l seen) -> In x l.
Proof.
  induction l as [|y l IH]; intros seen x H; cbn [dedupN] in H; [destruct H|].
  destruct (memN y seen); [right; eapply IH; exact H|]. destruct H as [<-|H]; [now left|right; eapply IH; exact H].
Qed.

Lemma class_infos_ids R keys i info t :
  nth_error (class_infos R keys) i = Some info -> In t (k_tids info) -> nth_error keys i = Some (proj R t).
Proof.
  unfold class_infos. rewrite nth_error_map. destruct (nth_error keys i) as [k|] eqn:E; cbn [option_map]; [|discriminate].
  intro H. inversion H; subst info. clear H. cbn [k_tids]. intro Ht. apply dedupN_In in Ht.
  apply in_map_iff in Ht. destruct Ht as [r [<- Hr]]. apply filter_In in Hr. destruct Hr as [_ Hk].
  apply N.eqb_eq in Hk. rewrite Hk. reflexivity.
Qed.

Lemma in_combine_seq_nth {A} (l : list A) i x : In (i, x) (combine (seq 0 (length l)) l) -> nth_error l i = Some x.
Proof.
  assert (G : forall (l : list A) s i x, In (i, x) (combine (seq s (length l)) l) -> s <= i /\ nth_error l (i - s) = Some x).
  { clear. induction l as [|y l IH]; intros s i x H; cbn [length seq combine In] in H; [destruct H|].
    destruct H as [E|H].
    - inversion E; subst. rewrite Nat.sub_diag. auto.
    - destruct (IH _ _ _ H) as [H1 H2]. split; [lia|]. replace (i - s) with (S (i - S s)) by lia. exact H2. }
  intro H. destruct (G l 0 i x H) as [_ H2]. rewrite Nat.sub_0_r in H2. exact H2.
Qed.

Theorem published_ids_disjoint R stale C : compile_with stale R = Ok C -> NoDup (class_keys R) ->
  ids_disjoint (published_classes C).
Proof.
  intros HC Hnd c c' t Hc Hc' Ht Ht'.
  assert (EL : l_info (o_lat C) = class_infos R (class_keys R) /\ l_keys (o_lat C) = class_keys R).
  { unfold compile_with in HC. destruct (augment_classes R) as [L|] eqn:EL; cbn [bind] in HC; [|discriminate].
    destruct (augment_methods R (l_keys L) (r_methods R)); cbn [bind] in HC; [|discriminate]. inversion HC.
    rewrite install_lat. unfold augment_classes in EL.
    destruct (collect_bases R (class_keys R) (r_classes R) _); cbn [bind] in EL; [|discriminate].
    destruct (closure _ _); cbn [bind] in EL; [|discriminate]. inversion EL. split; reflexivity. }
  destruct EL as [Ei _]. unfold published_classes in Hc, Hc'. rewrite Ei in Hc, Hc'.
  apply in_map_iff in Hc. destruct Hc as [[i info] [<- Hin]]. apply in_map_iff in Hc'. destruct Hc' as [[i' info'] [<- Hin']].
  cbn [pc_vptr pc_ids fst snd] in *. apply in_combine_seq_nth in Hin. apply in_combine_seq_nth in Hin'.
  pose proof (class_infos_ids R _ i info t Hin Ht) as H1. pose proof (class_infos_ids R _ i' info' t Hin' Ht') as H2.
  f_equal. apply (proj1 (NoDup_nth_error (class_keys R)) Hnd); [apply nth_error_Some; congruence|congruence].
Qed.

Print Assumptions published_ids_disjoint.
