(* C20 — lemmas about Model/Product.v (product, apply_product, registrations, aggregate). *)
From Coq Require Import List Arith Bool Lia.
Import ListNotations.
From Y2 Require Import Gen.GenProductConsts Model.Product.

(* ------------------------------------------------------------------ list helpers *)

Lemma flat_map_length_const {B C : Type} (f : B -> list C) (m : nat) (l : list B) :
  (forall x, length (f x) = m) -> length (flat_map f l) = length l * m.
Proof.
  intros Hf. induction l as [|x l IHl]; cbn [flat_map length].
  - reflexivity.
  - rewrite app_length, IHl, Hf. lia.
Qed.

Lemma nth_error_flat_map_const {B C : Type} (f : B -> list C) (m : nat) :
  (forall x, length (f x) = m) ->
  forall (l : list B) (d r : nat) (x : B),
    nth_error l d = Some x -> r < m ->
    nth_error (flat_map f l) (d * m + r) = nth_error (f x) r.
Proof.
  intros Hf l. induction l as [|y l IHl]; intros d r x Hd Hr.
  - destruct d; discriminate Hd.
  - destruct d as [|d'].
    + cbn in Hd. injection Hd as ->. cbn [flat_map]. cbn [Nat.mul Nat.add].
      apply nth_error_app1. rewrite Hf. exact Hr.
    + cbn in Hd. cbn [flat_map].
      rewrite nth_error_app2 by (rewrite Hf; lia).
      rewrite Hf. replace (S d' * m + r - m) with (d' * m + r) by lia.
      apply IHl; assumption.
Qed.

Lemma NoDup_app_intro {B : Type} (a b : list B) :
  NoDup a -> NoDup b -> (forall x, In x a -> ~ In x b) -> NoDup (a ++ b).
Proof.
  intros Ha Hb Hd. induction Ha as [|x a Hx Ha IH]; cbn [app].
  - exact Hb.
  - constructor.
    + intro Hin. apply in_app_or in Hin as [Hin|Hin].
      * exact (Hx Hin).
      * exact (Hd x (or_introl eq_refl) Hin).
    + apply IH. intros y Hy. apply Hd. right. exact Hy.
Qed.

Lemma NoDup_map_inj {B C : Type} (f : B -> C) (l : list B) :
  (forall x y, f x = f y -> x = y) -> NoDup l -> NoDup (map f l).
Proof.
  intros Hinj Hl. induction Hl as [|x l Hx Hl IH]; cbn [map].
  - constructor.
  - constructor; [|exact IH].
    intro Hin. apply in_map_iff in Hin as (y & Hxy & Hy).
    apply Hinj in Hxy. subst y. exact (Hx Hy).
Qed.

Lemma NoDup_filter' {B : Type} (f : B -> bool) (l : list B) : NoDup l -> NoDup (filter f l).
Proof.
  intros Hl. induction Hl as [|x l Hx Hl IH]; cbn [filter].
  - constructor.
  - destruct (f x).
    + constructor; [|exact IH]. intro Hin. apply filter_In in Hin as [Hin _]. exact (Hx Hin).
    + exact IH.
Qed.

(* ------------------------------------------------------------------ product *)

Section ProductProofs.
Context {A : Type}.

Definition lens (ls : list (list A)) : list nat := map (@length A) ls.
Definition prod_of (ns : list nat) : nat := fold_right Nat.mul 1 ns.

(* the mp11 accumulator form enumerates the prefix-extended structural recursion *)
Lemma product_acc_rec : forall (ls : list (list A)) (p : list A),
  product_acc p ls = map (app p) (product_rec ls).
Proof.
  induction ls as [|l rest IH]; intros p; cbn [product_acc product_rec].
  - cbn [map]. rewrite app_nil_r. reflexivity.
  - induction l as [|x l IHl]; cbn [flat_map map].
    + reflexivity.
    + rewrite map_app, IHl, IH, map_map. f_equal.
      apply map_ext. intros c. rewrite <- app_assoc. reflexivity.
Qed.

Lemma product_eq_rec : forall ls : list (list A), product ls = product_rec ls.
Proof.
  intros ls. unfold product. rewrite product_acc_rec.
  rewrite (map_ext (app []) (fun c => c)) by (intros c; reflexivity).
  apply map_id.
Qed.

Lemma product_rec_In : forall (ls : list (list A)) (c : list A),
  In c (product_rec ls) <-> Forall2 (fun x l => In x l) c ls.
Proof.
  induction ls as [|l rest IH]; intros c; cbn [product_rec].
  - split.
    + intros [<-|[]]. constructor.
    + intros H. inversion H. left. reflexivity.
  - split.
    + intros H. apply in_flat_map in H as (x & Hx & Hc).
      apply in_map_iff in Hc as (c' & <- & Hc').
      constructor; [exact Hx|]. apply IH. exact Hc'.
    + intros H. inversion H as [|x l' c' ls' Hx Hc]; subst.
      apply in_flat_map. exists x. split; [exact Hx|].
      apply in_map. apply IH. exact Hc.
Qed.

Lemma product_rec_length : forall ls : list (list A),
  length (product_rec ls) = prod_of (lens ls).
Proof.
  induction ls as [|l rest IH]; cbn [product_rec lens prod_of map fold_right].
  - reflexivity.
  - rewrite (flat_map_length_const _ (length (product_rec rest))).
    + rewrite IH. reflexivity.
    + intros x. apply map_length.
Qed.

Lemma product_rec_NoDup : forall ls : list (list A),
  Forall (@NoDup A) ls -> NoDup (product_rec ls).
Proof.
  induction ls as [|l rest IH]; intros Hls; cbn [product_rec].
  - constructor; [intros []|constructor].
  - inversion Hls as [|l' rest' Hl Hrest]; subst.
    specialize (IH Hrest).
    induction Hl as [|x l Hx Hl IHl]; cbn [flat_map].
    + constructor.
    + apply NoDup_app_intro.
      * apply NoDup_map_inj; [|exact IH]. intros a b Hab. injection Hab as ->. reflexivity.
      * apply IHl. constructor; [exact Hl|exact Hrest].
      * intros c Hc1 Hc2.
        apply in_map_iff in Hc1 as (c1 & <- & _).
        apply in_flat_map in Hc2 as (y & Hy & Hc2).
        apply in_map_iff in Hc2 as (c2 & Heq & _).
        injection Heq as -> _. exact (Hx Hy).
Qed.

Lemma product_rec_index : forall (ls : list (list A)) (ds : list nat) (c : list A),
  select ds ls = Some c ->
  nth_error (product_rec ls) (rank ds (lens ls)) = Some c.
Proof.
  induction ls as [|l rest IH]; intros ds c Hsel; destruct ds as [|d ds'];
    cbn [select] in Hsel; try discriminate Hsel.
  - injection Hsel as <-. reflexivity.
  - destruct (nth_error l d) as [x|] eqn:Hx; [|discriminate Hsel].
    destruct (select ds' rest) as [c'|] eqn:Hc'; [|discriminate Hsel].
    injection Hsel as <-.
    specialize (IH ds' c' Hc').
    assert (Hr : rank ds' (lens rest) < length (product_rec rest)).
    { apply nth_error_Some. rewrite IH. discriminate. }
    cbn [product_rec lens map rank]. fold (lens rest). fold (prod_of (lens rest)).
    rewrite <- product_rec_length.
    rewrite (nth_error_flat_map_const _ (length (product_rec rest))) with (x := x).
    + apply map_nth_error. exact IH.
    + intros y. apply map_length.
    + exact Hx.
    + exact Hr.
Qed.

End ProductProofs.

(* ------------------------------------------------------------------ rank: the order is lexicographic *)

Lemma rank_bound : forall ds ns, Forall2 lt ds ns -> rank ds ns < prod_of ns.
Proof.
  intros ds ns H. induction H as [|d n ds ns Hd _ IH]; cbn [rank prod_of fold_right].
  - lia.
  - fold (prod_of ns). nia.
Qed.

Lemma rank_lex : forall ns ds ds',
  Forall2 lt ds ns -> Forall2 lt ds' ns -> lex_lt ds ds' -> rank ds ns < rank ds' ns.
Proof.
  intros ns ds ds' H1 H2 Hlex. revert ns H1 H2.
  induction Hlex as [d d' ds ds' Hd Hlen | d ds ds' Hlex IH]; intros ns H1 H2.
  - inversion H1 as [|? n ? ns' Hdn H1']; subst. inversion H2 as [|? ? ? ? Hd'n H2']; subst.
    cbn [rank]. fold (prod_of ns').
    pose proof (rank_bound _ _ H1'). pose proof (rank_bound _ _ H2'). nia.
  - inversion H1 as [|? n ? ns' Hdn H1']; subst. inversion H2 as [|? ? ? ? _ H2']; subst.
    cbn [rank]. specialize (IH ns' H1' H2'). lia.
Qed.

Lemma rank_onto : forall ns i, i < prod_of ns -> exists ds, Forall2 lt ds ns /\ rank ds ns = i.
Proof.
  induction ns as [|n ns IH]; intros i Hi; cbn [prod_of fold_right] in Hi.
  - exists []. split; [constructor|]. cbn [rank]. lia.
  - fold (prod_of ns) in Hi.
    assert (HP : prod_of ns <> 0) by (intro H0; rewrite H0 in Hi; lia).
    destruct (IH (i mod prod_of ns)) as (ds & Hds & Hr).
    { apply Nat.mod_upper_bound. exact HP. }
    exists (i / prod_of ns :: ds). split.
    + constructor; [|exact Hds]. apply Nat.div_lt_upper_bound; [exact HP|]. lia.
    + cbn [rank]. fold (prod_of ns). rewrite Hr.
      pose proof (Nat.div_mod i (prod_of ns) HP). lia.
Qed.

(* ------------------------------------------------------------------ the property lemmas *)

Lemma product_correct : forall (A : Type) (ls : list (list A)),
  (forall c, In c (product ls) <-> Forall2 (fun x l => In x l) c ls) /\
  (Forall (@NoDup A) ls -> NoDup (product ls)) /\
  length (product ls) = fold_right Nat.mul 1 (map (@length A) ls) /\
  (forall ds c, select ds ls = Some c ->
                nth_error (product ls) (rank ds (map (@length A) ls)) = Some c) /\
  (forall ds ds', Forall2 lt ds (map (@length A) ls) -> Forall2 lt ds' (map (@length A) ls) ->
                  lex_lt ds ds' -> rank ds (map (@length A) ls) < rank ds' (map (@length A) ls)) /\
  (forall i, i < length (product ls) ->
             exists ds, Forall2 lt ds (map (@length A) ls) /\ rank ds (map (@length A) ls) = i).
Proof.
  intros A ls. rewrite product_eq_rec.
  split; [intros c; apply product_rec_In|].
  split; [apply product_rec_NoDup|].
  split; [apply product_rec_length|].
  split; [apply product_rec_index|].
  split; [apply rank_lex|].
  intros i Hi. apply rank_onto. rewrite product_rec_length in Hi. exact Hi.
Qed.

Lemma product_is_product_rec : forall (A : Type) (ls : list (list A)), product ls = product_rec ls.
Proof. intros A ls. apply product_eq_rec. Qed.

Lemma apply_product_correct : forall (A T : Type) (ts : list T) (ls : list (list A)),
  (forall t c, In (t, c) (apply_product ts ls) <-> In t ts /\ Forall2 (fun x l => In x l) c ls) /\
  length (apply_product ts ls) = length ts * fold_right Nat.mul 1 (map (@length A) ls) /\
  (NoDup ts -> Forall (@NoDup A) ls -> NoDup (apply_product ts ls)) /\
  (forall k t ds c, nth_error ts k = Some t -> select ds ls = Some c ->
     nth_error (apply_product ts ls)
               (k * fold_right Nat.mul 1 (map (@length A) ls) + rank ds (map (@length A) ls)) = Some (t, c)).
Proof.
  intros A T ts ls. unfold apply_product.
  destruct (product_correct A ls) as (HIn & HND & Hlen & Hidx & _ & _).
  split; [|split; [|split]].
  - intros t c. split.
    + intros H. apply in_flat_map in H as (t' & Ht' & Hc).
      apply in_map_iff in Hc as (c' & Heq & Hc'). injection Heq as -> ->.
      split; [exact Ht'|]. apply HIn. exact Hc'.
    + intros (Ht & Hc). apply in_flat_map. exists t. split; [exact Ht|].
      apply in_map_iff. exists c. split; [reflexivity|]. apply HIn. exact Hc.
  - rewrite (flat_map_length_const _ (length (product ls))).
    + rewrite Hlen. reflexivity.
    + intros t. apply map_length.
  - intros Hts Hls. specialize (HND Hls).
    induction Hts as [|t ts Ht Hts IH]; cbn [flat_map].
    + constructor.
    + apply NoDup_app_intro.
      * apply NoDup_map_inj; [|exact HND]. intros a b Hab. injection Hab as ->. reflexivity.
      * exact IH.
      * intros [t1 c1] H1 H2.
        apply in_map_iff in H1 as (c' & Heq & _). injection Heq as -> _.
        apply in_flat_map in H2 as (t2 & Ht2 & H2).
        apply in_map_iff in H2 as (c'' & Heq & _). injection Heq as -> _. exact (Ht Ht2).
  - intros k t ds c Hk Hsel. rewrite <- Hlen.
    specialize (Hidx ds c Hsel).
    rewrite (nth_error_flat_map_const _ (length (product ls))) with (x := t).
    + apply map_nth_error. exact Hidx.
    + intros y. apply map_length.
    + exact Hk.
    + apply nth_error_Some. rewrite Hidx. discriminate.
Qed.

(* ------------------------------------------------------------------ aggregate *)

Section AggregateProofs.
Context {X : Type}.

Lemma aggregate_fuel_ok : forall thr den,
  2 <= den -> den <= S thr -> aggregate_split_parts <= thr ->
  forall fuel (l : list X), length l < fuel ->
    exists t, aggregate_fuel thr den fuel l = Some t /\ leaves t = l /\ width_le thr t.
Proof.
  intros thr den Hden2 Hden Hparts fuel.
  induction fuel as [|fuel IH]; intros l Hlen; [lia|].
  cbn [aggregate_fuel].
  destruct (length l <=? thr) eqn:E.
  - apply Nat.leb_le in E. exists (Tuple l). cbn [leaves width_le]. auto.
  - apply Nat.leb_gt in E.
    set (k := length l / den).
    assert (Hk1 : 0 < k) by (apply Nat.div_str_pos; lia).
    assert (Hk2 : k < length l) by (apply Nat.div_lt; lia).
    destruct (IH (firstn k l)) as (a & Ha & Hla & Hwa).
    { rewrite firstn_length_le by lia. lia. }
    destruct (IH (skipn k l)) as (b & Hb & Hlb & Hwb).
    { rewrite skipn_length. lia. }
    rewrite Ha, Hb. exists (Split a b). cbn [leaves width_le].
    rewrite Hla, Hlb, firstn_skipn. auto.
Qed.

(* more fuel never changes a result *)
Lemma aggregate_fuel_mono : forall thr den fuel (l : list X) t,
  aggregate_fuel thr den fuel l = Some t ->
  forall fuel', fuel <= fuel' -> aggregate_fuel thr den fuel' l = Some t.
Proof.
  intros thr den fuel. induction fuel as [|fuel IH]; intros l t H fuel' Hle; [discriminate H|].
  destruct fuel' as [|fuel']; [lia|].
  cbn [aggregate_fuel] in *.
  destruct (length l <=? thr); [exact H|].
  destruct (aggregate_fuel thr den fuel (firstn (length l / den) l)) as [a|] eqn:Ha; [|discriminate H].
  destruct (aggregate_fuel thr den fuel (skipn (length l / den) l)) as [b|] eqn:Hb; [|discriminate H].
  rewrite (IH _ _ Ha fuel') by lia. rewrite (IH _ _ Hb fuel') by lia. exact H.
Qed.

Lemma width_leb_spec : forall bound (t : tree X), width_leb bound t = true <-> width_le bound t.
Proof.
  intros bound t. induction t as [es|a IHa b IHb]; cbn [width_leb width_le].
  - apply Nat.leb_le.
  - rewrite !andb_true_iff, Nat.leb_le, IHa, IHb. tauto.
Qed.

End AggregateProofs.

(* the constants translated from templates.hpp make the divide-and-conquer well founded *)
Lemma product_consts_ok :
  2 <= aggregate_split_den /\ aggregate_split_den <= S aggregate_threshold /\
  aggregate_split_parts <= aggregate_threshold.
Proof.
  unfold aggregate_split_den, aggregate_threshold, aggregate_split_parts. lia.
Qed.

Lemma aggregate_correct : forall (X : Type) (l : list X),
  exists t, aggregate l = Some t /\
            leaves t = l /\
            width_le aggregate_threshold t /\
            (length l <= aggregate_threshold -> t = Tuple l) /\
            (forall fuel, length l < fuel ->
                          aggregate_fuel aggregate_threshold aggregate_split_den fuel l = Some t).
Proof.
  intros X l. destruct product_consts_ok as (H1 & H2 & H3).
  destruct (aggregate_fuel_ok _ _ H1 H2 H3 (S (length l)) l) as (t & Ht & Hl & Hw); [lia|].
  exists t. unfold aggregate, aggregate_with.
  split; [exact Ht|]. split; [exact Hl|]. split; [exact Hw|]. split.
  - intros Hle. cbn [aggregate_fuel] in Ht.
    apply Nat.leb_le in Hle. rewrite Hle in Ht. injection Ht as <-. reflexivity.
  - intros fuel Hf. apply (aggregate_fuel_mono _ _ _ _ _ Ht). lia.
Qed.

(* ------------------------------------------------------------------ filter / use_definitions *)

Lemma registrations_correct :
  forall (A M : Type) (defined : list A -> bool) (method_of : list A -> M) (ls : list (list A)),
    let reg := registrations defined method_of (product ls) in
    reg = map (fun c => (method_of c, c)) (filter defined (product ls)) /\
    map snd reg = filter defined (product ls) /\
    (forall m c, In (m, c) reg <->
                 Forall2 (fun x l => In x l) c ls /\ defined c = true /\ m = method_of c) /\
    (Forall (@NoDup A) ls -> NoDup reg /\ NoDup (map snd reg)) /\
    (exists t, use_definitions defined method_of (product ls) = Some t /\
               leaves t = reg /\ width_le aggregate_threshold t).
Proof.
  intros A M defined method_of ls reg.
  destruct (product_correct A ls) as (HIn & HND & _).
  assert (Hreg : reg = map (fun c => (method_of c, c)) (filter defined (product ls))) by reflexivity.
  assert (Hsnd : map snd reg = filter defined (product ls)).
  { rewrite Hreg, map_map. cbn [snd]. apply map_id. }
  split; [exact Hreg|]. split; [exact Hsnd|]. split; [|split].
  - intros m c. split.
    + intros H. rewrite Hreg in H. apply in_map_iff in H as (c' & Heq & Hc').
      injection Heq as <- <-. apply filter_In in Hc' as [Hc' Hd].
      split; [apply HIn; exact Hc'|]. split; [exact Hd|reflexivity].
    + intros (Hc & Hd & ->). rewrite Hreg. apply in_map_iff. exists c. split; [reflexivity|].
      apply filter_In. split; [apply HIn; exact Hc|exact Hd].
  - intros Hls. split.
    + rewrite Hreg. apply NoDup_map_inj.
      * intros a b Hab. injection Hab as _ ->. reflexivity.
      * apply NoDup_filter'. apply HND. exact Hls.
    + rewrite Hsnd. apply NoDup_filter'. apply HND. exact Hls.
  - destruct (aggregate_correct _ reg) as (t & Ht & Hl & Hw & _).
    exists t. split; [exact Ht|]. split; [exact Hl|exact Hw].
Qed.
