(* WalkProofs.v — method::resolve seen through the virtual arguments only.
   resolve_uni / resolve_multi_first / resolve_multi_next recurse over the formal parameter list; the lemmas here
   show that, whatever the number and placement of non-virtual parameters, they compute the same thing as a walk
   over the list of v-table pointers of the virtual arguments (this is where fix 4930d7d matters). *)
From Y2 Require Import Model.Registry Model.Compile.
From Coq Require Import Lia.
Local Open Scope nat_scope.

Definition vcount (shape : list bool) : nat := length (filter (fun b : bool => b) shape).

Definition walk_uni (C : compiled) (ss : list nat) (vps : list Z) : result word :=
  match vps with
  | vp :: _ => read (o_image C) (vp + Z.of_nat (nth 0%nat ss 0%nat))%Z
  | [] => Err (BadRead (-1)%Z)
  end.

Fixpoint walk_next (C : compiled) (arity : nat) (ss : list nat) (va : nat) (dispatch : Z) (vps : list Z) : result word :=
  match vps with
  | vp :: rest =>
      do w <- read (o_image C) (vp + Z.of_nat (nth va ss 0%nat))%Z;
      match w with
      | WIdx g =>
          let dispatch' := (dispatch + Z.of_nat g * Z.of_nat (nth (arity + va - 1)%nat ss 0%nat))%Z in
          if S va =? arity then read (o_image C) dispatch' else walk_next C arity ss (S va) dispatch' rest
      | _ => Err (BadRead (-2)%Z)
      end
  | [] => Err (BadRead (-1)%Z)
  end.

Definition walk_first (C : compiled) (arity : nat) (ss : list nat) (vps : list Z) : result word :=
  match vps with
  | vp :: rest =>
      do w <- read (o_image C) (vp + Z.of_nat (nth 0%nat ss 0%nat))%Z;
      match w with
      | WRow a => walk_next C arity ss 1 (Z.of_nat a) rest
      | _ => Err (BadRead (-2)%Z)
      end
  | [] => Err (BadRead (-1)%Z)
  end.

Definition vptrs_of (C : compiled) (cs : list nat) : list Z := map (fun c => nth c (o_vptr C) 0%Z) cs.

(* the virtual actuals, in order, are the v-table pointers of the classes passed *)
Lemma resolve_uni_walk C ss : forall shape cs, vcount shape = length cs -> cs <> [] ->
  resolve_uni C ss shape (actuals_of C shape cs) = walk_uni C ss (vptrs_of C cs).
Proof.
  induction shape as [|b shape IH]; intros cs Hc Hne.
  - destruct cs; [congruence|discriminate].
  - destruct b; cbn [actuals_of].
    + destruct cs as [|c cs]; [congruence|]. reflexivity.
    + cbn [resolve_uni]. apply IH; assumption.
Qed.

Lemma resolve_multi_next_walk C arity ss : forall shape cs va dispatch,
  vcount shape = length cs -> S va + length cs = S arity -> cs <> [] ->
  resolve_multi_next C arity ss va dispatch shape (actuals_of C shape cs)
  = walk_next C arity ss va dispatch (vptrs_of C cs).
Proof.
  induction shape as [|b shape IH]; intros cs va dispatch Hc Hlen Hne.
  - destruct cs; [congruence|discriminate].
  - destruct b; cbn [actuals_of].
    + destruct cs as [|c cs]; [congruence|].
      cbn [resolve_multi_next vptrs_of map walk_next].
      destruct (read (o_image C) _) as [w|e]; cbn [bind]; [|reflexivity].
      destruct w; try reflexivity.
      destruct (Nat.eqb_spec (S va) arity) as [E|NE]; [reflexivity|].
      apply IH.
      * unfold vcount in *. cbn in Hc. lia.
      * cbn in Hlen. lia.
      * destruct cs; [cbn in Hlen; lia|discriminate].
    + cbn [resolve_multi_next]. apply IH; assumption.
Qed.

Lemma resolve_multi_first_walk C arity ss : forall shape cs,
  vcount shape = length cs -> length cs = arity -> 2 <= arity ->
  resolve_multi_first C arity ss shape (actuals_of C shape cs) = walk_first C arity ss (vptrs_of C cs).
Proof.
  induction shape as [|b shape IH]; intros cs Hc Hlen Har.
  - destruct cs; cbn in *; [lia|discriminate].
  - destruct b; cbn [actuals_of].
    + destruct cs as [|c cs]; [cbn in Hlen; lia|].
      cbn [resolve_multi_first vptrs_of map walk_first].
      destruct (read (o_image C) _) as [w|e]; cbn [bind]; [|reflexivity].
      destruct w; try reflexivity.
      apply resolve_multi_next_walk.
      * unfold vcount in *. cbn in Hc. lia.
      * cbn in Hlen. lia.
      * destruct cs; [cbn in Hlen; lia|discriminate].
    + cbn [resolve_multi_first]. apply IH; assumption.
Qed.

(* two formal parameter lists with the same virtual parameters resolve alike: non-virtual parameters are transparent *)
Theorem resolve_shape_irrelevant C mi m ss shape shape' cs :
  nth_error (o_meths C) mi = Some m -> nth mi (o_ss C) [] = ss ->
  vcount shape = length cs -> vcount shape' = length cs -> length cs = length (cm_vp m) -> cs <> [] ->
  (if length (cm_vp m) =? 1 then resolve_uni C ss shape (actuals_of C shape cs)
   else resolve_multi_first C (length (cm_vp m)) ss shape (actuals_of C shape cs))
  = (if length (cm_vp m) =? 1 then resolve_uni C ss shape' (actuals_of C shape' cs)
     else resolve_multi_first C (length (cm_vp m)) ss shape' (actuals_of C shape' cs)).
Proof.
  intros _ _ H1 H2 Hl Hne.
  destruct (Nat.eqb_spec (length (cm_vp m)) 1) as [E|NE].
  - rewrite !resolve_uni_walk by assumption. reflexivity.
  - assert (2 <= length (cm_vp m)) by (destruct cs as [|? [|? ?]]; cbn in *; try congruence; lia).
    rewrite !resolve_multi_first_walk by assumption. reflexivity.
Qed.
