(* SlotsProofs.v — assign_slots_ok: for every well-formed lattice and method list, the slots computed by
   assign_slots put the pairs applicable to a class in distinct cells inside the class's v-table (C04).
   Assembly of SlotsTree (single-inheritance trees) and SlotsLattice (the other roots). *)
From Coq Require Import List NArith Arith Lia Bool.
From Y2 Require Import Model.Registry Model.Compile Proofs.Interfaces
  Proofs.SlotsBits Proofs.SlotsOrder Proofs.SlotsState Proofs.SlotsTree Proofs.SlotsLattice.
Import ListNotations.
Local Open Scope nat_scope.

(* the two loops of assign_slots, named *)
Definition slots_init (L : lattice) (ms : list cmeth) : sstate :=
  let n := length (l_keys L) in
  mk_ss (map (fun m => repeat 0 (length (cm_vp m))) ms)
        (repeat 0%N n) (repeat 0%N n) (repeat false n) (repeat 0 n) (repeat 0 n) true.

Definition root_step (L : lattice) (ms : list cmeth) (st : sstate) (c : nat) : sstate :=
  match nth c (l_direct L) [] with
  | [] => if is_tree_root L c then assign_tree (S (length (l_keys L))) L ms st c 0
          else assign_lattice (S (length (l_keys L))) L ms st c
  | _ => st
  end.

Definition final_step (st : sstate) (c : nat) : sstate :=
  let used := nth c (s_used st) 0%N in
  if N.eqb used 0 then st
  else let fs := first_set used in
       mk_ss (s_slots st) (s_used st) (s_resv st) (s_mark st)
             (set_nth c (s_first st) fs) (set_nth c (s_vlen st) (N.size_nat used - fs))
             (s_fuel_ok st).

Lemma assign_slots_eq L ms :
  assign_slots L ms =
  fold_left final_step (seq 0 (length (l_keys L)))
            (fold_left (root_step L ms) (seq 0 (length (l_keys L))) (slots_init L ms)).
Proof. reflexivity. Qed.

(* ------------------------------------------------------------------ the last loop *)

Lemma final_fold : forall l st,
  NoDup l -> (forall c, In c l -> c < length (s_first st) /\ c < length (s_vlen st)) ->
  let st' := fold_left final_step l st in
  s_slots st' = s_slots st /\ s_used st' = s_used st /\ s_fuel_ok st' = s_fuel_ok st /\
  length (s_first st') = length (s_first st) /\ length (s_vlen st') = length (s_vlen st) /\
  (forall z, ~ In z l \/ used_of st z = 0%N ->
     first_of st' z = first_of st z /\ vlen_of st' z = vlen_of st z) /\
  (forall z, In z l -> used_of st z <> 0%N ->
     first_of st' z = first_set (used_of st z) /\
     vlen_of st' z = N.size_nat (used_of st z) - first_set (used_of st z)).
Proof.
  induction l as [|c l IH]; intros st Hnd Hlt; cbn [fold_left]; cbv zeta.
  - do 5 (split; [reflexivity|]). split; [intros z _; auto|intros z []].
  - inversion Hnd as [|a l' Hnin Hnd']; subst.
    destruct (Hlt c (or_introl eq_refl)) as [Hc1 Hc2].
    set (st1 := final_step st c).
    assert (Hs1 : s_slots st1 = s_slots st /\ s_used st1 = s_used st /\ s_fuel_ok st1 = s_fuel_ok st /\
                  length (s_first st1) = length (s_first st) /\ length (s_vlen st1) = length (s_vlen st)).
    { unfold st1, final_step. cbv zeta. destruct (N.eqb _ 0); cbn [s_slots s_used s_fuel_ok s_first s_vlen];
        rewrite ?set_nth_length; auto. }
    destruct Hs1 as (S1 & S2 & S3 & S4 & S5).
    assert (Hother : forall z, z <> c -> first_of st1 z = first_of st z /\ vlen_of st1 z = vlen_of st z).
    { intros z Hz. unfold st1, final_step, first_of, vlen_of. cbv zeta.
      destruct (N.eqb _ 0); cbn [s_first s_vlen]; auto.
      rewrite !nth_set_nth_neq by exact Hz. auto. }
    assert (Hself0 : used_of st c = 0%N -> first_of st1 c = first_of st c /\ vlen_of st1 c = vlen_of st c).
    { intros E. unfold st1, final_step. cbv zeta. unfold used_of, getN in E. rewrite E. cbn [N.eqb]. auto. }
    assert (Hself1 : used_of st c <> 0%N ->
              first_of st1 c = first_set (used_of st c) /\
              vlen_of st1 c = N.size_nat (used_of st c) - first_set (used_of st c)).
    { intros E. unfold st1, final_step, first_of, vlen_of. cbv zeta. unfold used_of, getN in *.
      destruct (N.eqb_spec (nth c (s_used st) 0%N) 0) as [E0|_]; [contradiction|].
      cbn [s_first s_vlen]. rewrite !nth_set_nth_eq by assumption. auto. }
    assert (Hlt1 : forall c', In c' l -> c' < length (s_first st1) /\ c' < length (s_vlen st1)).
    { intros c' Hc'. rewrite S4, S5. apply Hlt. now right. }
    destruct (IH st1 Hnd' Hlt1) as (K1 & K2 & K3 & K4 & K5 & K6 & K7). cbv zeta in *.
    assert (Hu : forall z, used_of st1 z = used_of st z) by (intros z; unfold used_of; now rewrite S2).
    split; [congruence|]. split; [congruence|]. split; [congruence|].
    split; [congruence|]. split; [congruence|]. split.
    + intros z Hz. destruct (in_dec Nat.eq_dec z l) as [Hin|Hnin'].
      * (* z is later in the list: then used z = 0 *)
        assert (E : used_of st z = 0%N).
        { destruct Hz as [Hz|Hz]; auto. exfalso. apply Hz. now right. }
        assert (Hne : z <> c) by (intros ->; contradiction).
        destruct (K6 z) as [A B]; [right; now rewrite Hu|].
        destruct (Hother z Hne) as [A' B']. split; congruence.
      * destruct (K6 z (or_introl Hnin')) as [A B]. rewrite A, B.
        destruct (Nat.eq_dec z c) as [->|Hne]; [|now apply Hother].
        apply Hself0. destruct Hz as [Hz|Hz]; auto. exfalso. apply Hz. now left.
    + intros z [<-|Hin] Hz.
      * destruct (K6 c (or_introl Hnin)) as [A B]. rewrite A, B. now apply Hself1.
      * rewrite <- Hu. apply K7; auto. now rewrite Hu.
Qed.

Section Assembly.
  Variable L : lattice.
  Variable ms : list cmeth.
  Hypothesis Hwf : lat_wf L.

  Notation n := (ncls L).
  Notation tb := (tb_of L).
  Notation cov := (cov_of L).
  Notation direct := (direct_of_ L).
  Notation derived := (derived_of_ L).
  Notation ubv := (used_by_vp ms).
  Notation sgood := (sgood L ms).
  Notation treeC := (treeC L).
  Notation tree_at := (tree_at L ms).
  Notation LInv := (LInv L ms).
  Notation Amark := (Amark ms).
  Notation black := (black L).

  (* ---------------------------------------------------------------- the invariant of the loop over roots *)

  Record ginv (D : nat -> Prop) (st : sstate) : Prop := {
    gi_good : sgood st;
    gi_fuel : s_fuel_ok st = true;
    gi_inv : LInv st (Amark st);
    gi_black : black [] st;
    gi_mark_lat : forall z, mark_of st z = true -> ~ treeC z;
    gi_used_lat : forall z, used_of st z <> 0%N -> ~ treeC z;
    gi_lat_done : forall r, D r -> r < n -> direct r = [] -> is_tree_root L r = false ->
        mark_of st r = true;
    gi_tree_done : forall r, D r -> r < n -> direct r = [] -> is_tree_root L r = true ->
        forall x, In x (cov r) -> tree_at st x
  }.

  Lemma ginv_ext (D D' : nat -> Prop) st : (forall r, D' r -> D r) -> ginv D st -> ginv D' st.
  Proof.
    intros H [G1 G2 G3 G4 G5 G6 G7 G8]. constructor; auto.
    intros r Hr. apply G8. now apply H.
  Qed.

  Lemma ginv_init : ginv (fun _ => False) (slots_init L ms).
  Proof.
    assert (Hm : forall z, mark_of (slots_init L ms) z = false).
    { intros z. unfold mark_of, slots_init; cbn [s_mark]. apply nth_repeat. }
    assert (Hu : forall z, used_of (slots_init L ms) z = 0%N).
    { intros z. unfold used_of, getN, slots_init; cbn [s_used]. apply nth_repeat. }
    constructor.
    - constructor; unfold slots_init; cbn [s_slots s_used s_resv s_mark s_first s_vlen];
        rewrite ?repeat_length, ?map_length; auto.
      intros mi m Hm'. rewrite (nth_map_nth_error _ _ _ _ _ Hm'). apply repeat_length.
    - reflexivity.
    - constructor.
      + intros mi p y z (y' & _ & Hy') _ _. rewrite Hm in Hy'. discriminate.
      + intros mi p y z q (y' & _ & Hy') _ _. rewrite Hm in Hy'. discriminate.
      + intros mi p y mi' p' y' z (y0 & _ & Hy0) _. rewrite Hm in Hy0. discriminate.
    - intros z Hz. rewrite Hm in Hz. discriminate.
    - intros z Hz. rewrite Hm in Hz. discriminate.
    - intros z Hz. rewrite Hu in Hz. congruence.
    - intros r [].
    - intros r [].
  Qed.

  Lemma Amark_same_marks st st' q : s_mark st' = s_mark st -> Amark st' q -> Amark st q.
  Proof. intros E (y & Hy & Hmy). exists y. split; auto. unfold mark_of in *. now rewrite <- E. Qed.

  Lemma root_step_ginv D st c : c < n -> ginv D st -> ginv (fun r => D r \/ r = c) (root_step L ms st c).
  Proof.
    intros Hc [G1 G2 G3 G4 G5 G6 G7 G8]. unfold root_step.
    destruct (nth c (l_direct L) []) as [|b bs] eqn:Hd.
    2:{ (* not a root *)
      constructor; auto.
      - intros r [Hr| ->] Hrn Hdr; [now apply G7|]. unfold direct_of_ in Hdr. congruence.
      - intros r [Hr| ->] Hrn Hdr; [now apply G8|]. unfold direct_of_ in Hdr. congruence. }
    fold (direct_of_ L c) in Hd. fold (ncls L).
    destruct (is_tree_root L c) eqn:Htr.
    - (* a tree root *)
      assert (Htc : forall z, In z (cov c) -> tree_cls L z) by (apply tree_root_cls; auto).
      assert (Hfuel : length (cov c) <= S n) by (pose proof (cov_len_le L Hwf c); lia).
      assert (Hbase : forall y, In y (tb c) -> vlen_of st y <= 0).
      { intros y Hy. rewrite (root_tb_nil L Hwf c Hd) in Hy. destruct Hy. }
      destruct (assign_tree_spec L ms Hwf (S n) st c 0 Hc Htc Hfuel G1 Hbase) as (T1 & T2 & T3 & T4 & T5 & T6).
      cbv zeta in *. set (st' := assign_tree (S n) L ms st c 0) in *.
      assert (HcT : forall z, In z (cov c) -> treeC z).
      { intros z Hz. exists c. auto. }
      assert (Hmk : forall z, mark_of st' z = mark_of st z) by (intros z; unfold mark_of; now rewrite T4).
      assert (Hus : forall z, used_of st' z = used_of st z) by (intros z; unfold used_of; now rewrite T2).
      constructor.
      + exact T1.
      + destruct T5 as (_ & _ & E). congruence.
      + eapply LInv_transfer; [| | | |exact G3]; auto.
        * intros q. now apply Amark_same_marks.
        * intros mi p (y & Hy & Hmy). cbn [fst snd] in Hy. destruct T5 as (_ & B & _). apply B.
          intros y' Hy' Hin. assert (y' = y) by congruence. subst y'.
          rewrite Hmk in Hmy. apply (G5 y Hmy). now apply HcT.
      + intros z Hz HnG d Hdz. rewrite Hmk in *. now apply (G4 z).
      + intros z Hz. rewrite Hmk in Hz. now apply G5.
      + intros z Hz. rewrite Hus in Hz. now apply G6.
      + intros r [Hr| ->] Hrn Hdr Hf; [|congruence]. rewrite Hmk. now apply G7.
      + intros r Hr Hrn Hdr Htr' x Hx. destruct (Nat.eq_dec r c) as [->|Hne]; [now apply T6|].
        destruct Hr as [Hr|Hr]; [|contradiction].
        eapply tree_at_fp; [exact Hwf|exact T5| |now apply (cov_lt L Hwf) in Hx|now apply (G8 r)].
        intros y Hy Hyc. apply Hne.
        assert (Hxc : In x (cov c)) by (eapply cov_trans; eauto).
        symmetry. eapply (treeC_unique_root L Hwf r c x); eauto.
    - (* a lattice root *)
      assert (Hfuel : length (cov c) <= S n) by (pose proof (cov_len_le L Hwf c); lia).
      destruct (assign_lattice_spec L ms Hwf (S n) st c [] Hc Hfuel G1 G3 G4) as ([P1 P2 P3 P4 P5 P6 P7] & Pm).
      set (st' := assign_lattice (S n) L ms st c) in *.
      assert (HcL : forall z, In z (cov c) -> ~ treeC z).
      { intros z Hz. eapply lattice_root_not_treeC; eauto. }
      destruct P5 as (A & B & C).
      constructor.
      + exact P1.
      + congruence.
      + exact P2.
      + exact P3.
      + intros z Hz. destruct (in_dec Nat.eq_dec z (cov c)) as [Hin|Hnin]; [now apply HcL|].
        destruct (A z Hnin) as (_ & _ & _ & E). rewrite E in Hz. now apply G5.
      + intros z Hz. destruct (in_dec Nat.eq_dec z (cov c)) as [Hin|Hnin]; [now apply HcL|].
        destruct (A z Hnin) as (_ & _ & E & _). rewrite E in Hz. now apply G6.
      + intros r [Hr| ->] Hrn Hdr Hf; [|exact Pm]. apply P4. now apply G7.
      + intros r [Hr| ->] Hrn Hdr Htr' x Hx; [|congruence].
        eapply tree_at_fp; [exact Hwf|exact (conj A (conj B C))| |now apply (cov_lt L Hwf) in Hx|now apply (G8 r)].
        intros y Hy Hyc. apply (HcL x); [eapply cov_trans; eauto|]. exists r. auto.
  Qed.

  Lemma root_fold_ginv : forall l D st, (forall c, In c l -> c < n) -> ginv D st ->
    ginv (fun r => D r \/ In r l) (fold_left (root_step L ms) l st).
  Proof.
    induction l as [|c l IH]; intros D st Hl Hg; cbn [fold_left].
    - eapply ginv_ext; [|exact Hg]. intros r [H|[]]. exact H.
    - eapply ginv_ext; [|apply (IH (fun r => D r \/ r = c))].
      + cbv beta. intros r [H|[H|H]]; [left; now left|left; right; now symmetry|now right].
      + intros c' Hc'. apply Hl. now right.
      + apply root_step_ginv; auto. apply Hl. now left.
  Qed.

  (* ---------------------------------------------------------------- consequences for tree classes *)

  Lemma tree_at_slot st x mi p : tree_at st x -> vp_at ms mi p = Some x ->
    exists lo i, (forall y, In y (tb x) -> vlen_of st y <= lo) /\ vlen_of st x = lo + length (ubv x) /\
                 nth_error (ubv x) i = Some (mi, p) /\ i < length (ubv x) /\ slot_of st mi p = lo + i /\
                 (forall mi' p' i', nth_error (ubv x) i' = Some (mi', p') -> slot_of st mi' p' = lo + i').
  Proof.
    intros (_ & lo & Hlo & Hv & Hs) Hvp. apply ubv_in in Hvp.
    destruct (In_nth_error _ _ Hvp) as [i Hi].
    exists lo, i. repeat split; auto. apply nth_error_Some. congruence.
  Qed.

  Lemma tree_slot_lt st x x' mi p mi' p' :
    tree_at st x -> tree_at st x' -> In x (tb x') ->
    vp_at ms mi p = Some x -> vp_at ms mi' p' = Some x' -> slot_of st mi p < slot_of st mi' p'.
  Proof.
    intros Hx Hx' Ht Hvp Hvp'.
    destruct (tree_at_slot st x mi p Hx Hvp) as (lo & i & _ & Hv & _ & Hi & Hs & _).
    destruct (tree_at_slot st x' mi' p' Hx' Hvp') as (lo' & i' & Hlo' & _ & _ & _ & Hs' & _).
    specialize (Hlo' x Ht). lia.
  Qed.

  (* ---------------------------------------------------------------- the theorem *)

  Theorem assign_slots_ok_wf : meths_wf L ms -> slots_ok L ms (assign_slots L ms).
  Proof.
    intros _. rewrite assign_slots_eq. fold (ncls L).
    assert (Hg1 : ginv (fun r => In r (seq 0 n)) (fold_left (root_step L ms) (seq 0 n) (slots_init L ms))).
    { eapply ginv_ext; [|apply (root_fold_ginv (seq 0 n) (fun _ => False))].
      - cbv beta. intros r Hr. now right.
      - intros c Hc. apply in_seq in Hc. lia.
      - apply ginv_init. }
    set (st1 := fold_left (root_step L ms) (seq 0 n) (slots_init L ms)) in *.
    destruct Hg1 as [G1 G2 G3 G4 G5 G6 G7 G8].
    assert (Hlt : forall c, In c (seq 0 n) -> c < length (s_first st1) /\ c < length (s_vlen st1)).
    { intros c Hc. apply in_seq in Hc. rewrite (sg_first L ms st1 G1), (sg_vlen L ms st1 G1). lia. }
    destruct (final_fold (seq 0 n) st1 (seq_NoDup n 0) Hlt) as (F1 & F2 & F3 & F4 & F5 & F6 & F7).
    cbv zeta in *. set (st2 := fold_left final_step (seq 0 n) st1) in *.
    assert (Hslot : forall mi p, slot_of st2 mi p = slot_of st1 mi p).
    { intros mi p. unfold slot_of. now rewrite F1. }
    assert (Hseq : forall z, z < n -> In z (seq 0 n)) by (intros z Hz; apply in_seq; lia).
    (* every root below n has been processed *)
    assert (Hmarked : forall x, x < n -> ~ treeC x -> mark_of st1 x = true).
    { intros x Hx Hnt. destruct (root_exists L Hwf x Hx) as (r & Hr & Hd & Hcov).
      apply (black_closed L Hwf st1 G4 r x); auto. apply G7; auto.
      destruct (is_tree_root L r) eqn:E; auto. exfalso. apply Hnt. exists r. auto. }
    assert (Htree : forall x, treeC x -> tree_at st1 x /\ used_of st1 x = 0%N).
    { intros x Hx. split.
      - destruct Hx as (r & Hr & Hd & Htr & Hcov). apply (G8 r); auto.
      - destruct (N.eq_dec (used_of st1 x) 0) as [E|E]; auto. exfalso. now apply (G6 x). }
    constructor.
    - rewrite F3. exact G2.
    - rewrite F1. apply G1.
    - intros mi m Hm. rewrite F1. now apply G1.
    - rewrite F4. apply G1.
    - rewrite F5. apply G1.
    - (* so_in_vtbl *)
      intros mi p z Happ. apply applies_iff in Happ. destruct Happ as (x & Hvp & Hz).
      destruct (cov_lt L Hwf _ _ Hz) as [Hxn Hzn]. rewrite Hslot.
      destruct (treeC_dec L Hwf z Hzn) as [Htz|Hntz].
      + destruct (Htree z Htz) as [Hatz Huz].
        destruct (F6 z (or_intror Huz)) as [E1 E2]. rewrite E1, E2.
        assert (Htx : treeC x) by (apply (treeC_up L Hwf z x Htz Hz)).
        destruct (Htree x Htx) as [Hatx _].
        destruct (tree_at_slot st1 x mi p Hatx Hvp) as (lo & i & _ & Hv & _ & Hi & Hs & _).
        destruct Hatz as (Hfz & loz & Hloz & Hvz & _). rewrite Hfz.
        destruct (cov_cases L Hwf _ _ Hz) as [->|Hxz]; [lia|].
        specialize (Hloz x Hxz). lia.
      + assert (Hntx : ~ treeC x) by (intros H; apply Hntz; apply (treeC_down L Hwf z x H Hz)).
        assert (HA : Amark st1 (mi, p)) by (exists x; split; auto).
        pose proof (li_J1 L ms st1 _ G3 mi p x z HA Hvp Hz) as Hbit.
        assert (Hnz : used_of st1 z <> 0%N) by (eapply bit_nonzero; eauto).
        destruct (F7 z (Hseq z Hzn) Hnz) as [E1 E2]. rewrite E1, E2.
        pose proof (first_set_le _ _ Hbit). pose proof (bit_lt_size _ _ Hbit). lia.
    - (* so_disjoint *)
      intros mi p mi' p' z Happ Happ' E. rewrite !Hslot in E.
      apply applies_iff in Happ. destruct Happ as (x & Hvp & Hz).
      apply applies_iff in Happ'. destruct Happ' as (x' & Hvp' & Hz').
      destruct (cov_lt L Hwf _ _ Hz) as [Hxn Hzn].
      assert (Hpair : (mi, p) = (mi', p')); [|inversion Hpair; subst; split; reflexivity].
      destruct (treeC_dec L Hwf z Hzn) as [Htz|Hntz].
      + assert (Htx : treeC x) by (apply (treeC_up L Hwf z x Htz Hz)).
        assert (Htx' : treeC x') by (apply (treeC_up L Hwf z x' Htz Hz')).
        destruct (Htree x Htx) as [Hatx _]. destruct (Htree x' Htx') as [Hatx' _].
        destruct (Nat.eq_dec x x') as [<-|Hne].
        * destruct (tree_at_slot st1 x mi p Hatx Hvp) as (lo & i & _ & _ & Hi & _ & Hs & Hall).
          apply ubv_in in Hvp'. destruct (In_nth_error _ _ Hvp') as [i' Hi'].
          pose proof (Hall mi' p' i' Hi') as Hs'.
          assert (i = i') by lia. subst i'. congruence.
        * exfalso.
          destruct (tree_linear L Hwf z (treeC_cls L Hwf z Htz) x x' Hz Hz') as [H|H].
          -- destruct (cov_cases L Hwf _ _ H) as [->|Ht]; [now apply Hne|].
             pose proof (tree_slot_lt st1 x x' mi p mi' p' Hatx Hatx' Ht Hvp Hvp'). lia.
          -- destruct (cov_cases L Hwf _ _ H) as [->|Ht]; [now apply Hne|].
             pose proof (tree_slot_lt st1 x' x mi' p' mi p Hatx' Hatx Ht Hvp' Hvp). lia.
      + assert (Hntx : ~ treeC x) by (intros H; apply Hntz; apply (treeC_down L Hwf z x H Hz)).
        assert (Hntx' : ~ treeC x') by (intros H; apply Hntz; apply (treeC_down L Hwf z x' H Hz')).
        destruct (cov_lt L Hwf _ _ Hz') as [Hxn' _].
        assert (HA : Amark st1 (mi, p)) by (exists x; split; auto).
        assert (HA' : Amark st1 (mi', p')) by (exists x'; split; auto).
        apply (li_D L ms st1 _ G3 mi p x mi' p' x' z); auto.
  Qed.
End Assembly.

Theorem assign_slots_ok : forall L ms, lat_wf L -> meths_wf L ms -> slots_ok L ms (assign_slots L ms).
Proof. intros L ms Hwf Hms. now apply assign_slots_ok_wf. Qed.

(* ------------------------------------------------------------------ sanity: a concrete lattice *)

(* classes 0..3: a diamond (0 root; 1, 2 derive from 0; 3 derives from 1 and 2), handled by assign_lattice;
   classes 4..7: a comb (4 root; 5, 6 derive from 4; 7 derives from 6), handled by assign_tree.
   method 0 has virtual parameters of classes (0, 4), method 1 of classes (1, 2, 6). *)
Definition ex_L : lattice :=
  mk_lat [10; 11; 12; 13; 14; 15; 16; 17]%N
         (map (fun k => mk_cls [k] false) [10; 11; 12; 13; 14; 15; 16; 17]%N)
         [[]; [0]; [0]; [1; 2; 0]; []; [4]; [4]; [6; 4]]
         [[]; [0]; [0]; [1; 2]; []; [4]; [4]; [6]]
         [[1; 2]; [3]; [3]; []; [5; 6]; []; [7]; []]
         [[0; 1; 2; 3]; [1; 3]; [2; 3]; [3]; [4; 5; 6; 7]; [5]; [6; 7]; [7]].

Definition ex_ms : list cmeth :=
  [mk_cmeth [0; 4] [[0; 4]] [false] [true; true];
   mk_cmeth [1; 2; 6] [] [] [true; true; true]].

Ltac ex_unfold := unfold tb_of, cov_of, direct_of_, derived_of_, ncls, ex_L in *;
                  cbn [l_keys l_info l_tb l_direct l_derived l_cov length] in *.
Tactic Notation "ex_nat" ident(c) :=
  destruct c as [|c]; [|destruct c as [|c]; [|destruct c as [|c]; [|destruct c as [|c]; [|destruct c as [|c]; [|destruct c as [|c]; [|destruct c as [|c]; [|destruct c as [|c]; [|destruct c as [|c]]]]]]]]].
Ltac ex_in H := cbn [nth In] in H;
                repeat (destruct H as [H|H]; [try discriminate H; try subst|]); try (exfalso; exact H).
Ltac ex_nodup := repeat (apply NoDup_cons; [cbn [In]; intuition discriminate|]); apply NoDup_nil.
Ltac ex_goal := cbn [nth In]; try lia; try tauto.
Ltac ex_exists :=
  first [ exists 0; split; ex_goal; fail | exists 1; split; ex_goal; fail | exists 2; split; ex_goal; fail
        | exists 3; split; ex_goal; fail | exists 4; split; ex_goal; fail | exists 5; split; ex_goal; fail
        | exists 6; split; ex_goal; fail | exists 7; split; ex_goal; fail ].

Example ex_lat_wf : lat_wf ex_L.
Proof.
  constructor; try reflexivity.
  - intros c b H. ex_unfold. ex_nat c; ex_in H; split; lia.
  - intros c. ex_unfold. ex_nat c; cbn [nth]; ex_nodup.
  - intros c H. ex_unfold. ex_nat c; ex_in H.
  - intros a b c Ha Hb. ex_unfold. ex_nat c; ex_in Hb; ex_in Ha; ex_goal.
  - intros c b H. ex_unfold. ex_nat c; ex_in H; ex_goal.
  - intros c b H. ex_unfold. ex_nat c; ex_in H; first [left; ex_goal; fail | right; ex_exists].
  - intros c. ex_unfold. ex_nat c; cbn [nth]; ex_nodup.
  - intros c a b Ha Hb Hc. ex_unfold. ex_nat c; ex_in Ha; ex_in Hb; ex_in Hc.
  - intros b d. ex_unfold. split.
    + intros H. ex_nat b; ex_in H; split; ex_goal.
    + intros [Hd H]. ex_nat d; ex_in H; ex_goal.
  - intros b. ex_unfold. ex_nat b; cbn [nth]; ex_nodup.
  - intros c d Hc. ex_unfold. split.
    + intros H. ex_nat c; ex_in H; split; ex_goal.
    + intros [Hd [->|H]].
      * ex_nat c; ex_goal.
      * ex_nat d; ex_in H; ex_goal.
  - intros c. ex_unfold. ex_nat c; cbn [nth]; ex_nodup.
Qed.

Example ex_meths_wf : meths_wf ex_L ex_ms.
Proof.
  unfold meths_wf, meth_wf, ex_ms, ncls, ex_L. cbn [l_keys length cm_vp cm_specs cm_has_next cm_shape filter].
  repeat constructor; try discriminate; lia.
Qed.

Example ex_slots_ok : slots_ok ex_L ex_ms (assign_slots ex_L ex_ms).
Proof. exact (assign_slots_ok ex_L ex_ms ex_lat_wf ex_meths_wf). Qed.

(* the computed slots: class 3 (the bottom of the diamond) accepts the pairs (0,0), (1,0), (1,1) in the distinct
   cells 0, 1, 2 of a 3-cell v-table; class 7 (the tip of the comb) accepts (0,1), (1,2) in cells 0, 1 *)
Example ex_slots :
  let st := assign_slots ex_L ex_ms in
  s_slots st = [[0; 0]; [1; 2; 1]] /\ s_first st = [0; 0; 0; 0; 0; 0; 0; 0] /\
  s_vlen st = [1; 2; 3; 3; 1; 1; 2; 2] /\ s_used st = [1; 3; 5; 7; 0; 0; 0; 0]%N /\ s_fuel_ok st = true.
Proof. vm_compute. repeat split; reflexivity. Qed.

Print Assumptions assign_slots_ok.
