(* DeferredProofs.v — deferred type ids are resolved exactly once, whatever is shared and however often update runs. *)
From Y2 Require Import Model.Registry Model.Deferred Proofs.LatListFacts.
From Coq Require Import Lia.
Local Open Scope nat_scope.

Section Deferred.
  Variable idf : N -> N.

  (* an array is consistent when its flag tells the truth: flagged => every cell holds an id; not flagged => none does *)
  Definition all_res (cs : list dcell) : Prop := Forall (fun c => exists id, c = Res id) cs.
  Definition all_unres (cs : list dcell) : Prop := Forall (fun c => exists f, c = Unres f) cs.
  Definition arr_ok (a : idarray) : Prop := if a_flag a then all_res (a_cells a) else all_unres (a_cells a).
  Definition type_ok (t : dcell * bool) : Prop := if snd t then exists id, fst t = Res id else exists f, fst t = Unres f.
  Definition store_ok (s : dstore) : Prop := Forall arr_ok (d_arrays s) /\ Forall type_ok (d_types s).

  (* the id a cell stands for *)
  Definition cell_id (c : dcell) : N := match c with Unres f => idf f | Res id => id end.
  Definition arr_ids (a : idarray) : list N := map cell_id (a_cells a).

  Lemma resolve_cells_unres cs : all_unres cs ->
    exists cs', resolve_cells idf cs = DOk cs' /\ all_res cs' /\ map cell_id cs' = map cell_id cs /\ length cs' = length cs.
  Proof.
    induction cs as [|c cs IH]; intro H; cbn [resolve_cells].
    - exists []. repeat split; constructor.
    - inversion H as [|? ? [f ->] Hcs]; subst. destruct (IH Hcs) as [cs' [E [H1 [H2 H3]]]].
      cbn [resolve_cell]. rewrite E. exists (Res (idf f) :: cs'). repeat split.
      + constructor; [eauto|assumption].
      + cbn [map cell_id]. now rewrite H2.
      + cbn [length]. lia.
  Qed.

  (* resolve_list never crashes on a consistent array, keeps the ids it stands for, and leaves it resolved *)
  Lemma resolve_list_ok a : arr_ok a ->
    exists a', resolve_list idf a = DOk a' /\ arr_ok a' /\ arr_ids a' = arr_ids a /\
               (a_cells a <> [] -> a_flag a' = true) /\ (a_flag a = true -> a' = a) /\ all_res (a_cells a') .
  Proof.
    intro H. unfold resolve_list, arr_ok in *. destruct (a_cells a) as [|c cs] eqn:E.
    - exists a. rewrite E. repeat split; try assumption; try congruence. constructor.
    - destruct (a_flag a) eqn:F.
      + exists a. rewrite E, F. repeat split; try assumption; congruence.
      + destruct (resolve_cells_unres (c :: cs) H) as [cs' [E' [H1 [H2 H3]]]]. rewrite E'.
        exists (mk_arr cs' true). cbn [a_cells a_flag]. repeat split; try assumption; try discriminate.
        unfold arr_ids. cbn [a_cells]. rewrite E. exact H2.
  Qed.

  Lemma resolve_array_ok s i : store_ok s ->
    exists s', resolve_array idf s i = DOk s' /\ store_ok s' /\
               length (d_arrays s') = length (d_arrays s) /\ d_types s' = d_types s /\
               (forall j, arr_ids (nth j (d_arrays s') (mk_arr [] false)) = arr_ids (nth j (d_arrays s) (mk_arr [] false))) /\
               (forall j, all_res (a_cells (nth j (d_arrays s) (mk_arr [] false))) -> nth j (d_arrays s') (mk_arr [] false) = nth j (d_arrays s) (mk_arr [] false)) /\
               all_res (a_cells (nth i (d_arrays s') (mk_arr [] false))).
  Proof.
    intros [Ha Ht]. unfold resolve_array. destruct (nth_error (d_arrays s) i) as [a|] eqn:E.
    - assert (Hin : In a (d_arrays s)) by (eapply nth_error_In; eassumption).
      assert (Hi : i < length (d_arrays s)) by (apply nth_error_Some; congruence).
      assert (En : nth i (d_arrays s) (mk_arr [] false) = a) by (apply nth_error_nth; exact E).
      destruct (resolve_list_ok a (proj1 (Forall_forall _ _) Ha a Hin)) as [a' [E' [H1 [H2 [H3 [H4 H5]]]]]].
      rewrite E'. eexists. split; [reflexivity|]. unfold store_ok. cbn [d_arrays d_types]. repeat split.
      + apply Forall_forall. intros x Hx. apply In_nth with (d := mk_arr [] false) in Hx. destruct Hx as [j [Hj <-]].
        rewrite length_set_nth in Hj. destruct (Nat.eq_dec i j) as [<-|Hne].
        * rewrite nth_set_nth_eq by assumption. exact H1.
        * rewrite nth_set_nth_neq by assumption. apply (proj1 (Forall_forall _ _) Ha). apply nth_In. exact Hj.
      + exact Ht.
      + apply length_set_nth.
      + intro j. destruct (Nat.eq_dec i j) as [<-|Hne].
        * rewrite nth_set_nth_eq by assumption. rewrite En. exact H2.
        * rewrite nth_set_nth_neq by assumption. reflexivity.
      + intros j Hj. destruct (Nat.eq_dec i j) as [<-|Hne].
        * rewrite nth_set_nth_eq by assumption. rewrite En in *.
          (* a fully resolved consistent array is flagged (or empty): unchanged *)
          pose proof (proj1 (Forall_forall _ _) Ha a Hin) as Hok. unfold arr_ok in Hok.
          destruct (a_flag a) eqn:F; [apply H4; reflexivity|].
          destruct (a_cells a) as [|c cs] eqn:Ec.
          -- unfold resolve_list in E'. rewrite Ec in E'. inversion E'. reflexivity.
          -- exfalso. inversion Hok as [|? ? [f Hf] _]; subst. inversion Hj as [|? ? [id Hid] _]; subst. discriminate.
        * rewrite nth_set_nth_neq by assumption. reflexivity.
      + rewrite nth_set_nth_eq by assumption. exact H5.
    - exists s. repeat split; try assumption; try reflexivity.
      rewrite nth_overflow by (apply nth_error_None; exact E). constructor.
  Qed.

  (* ids a registration sees through its arrays *)
  Definition array_ids (s : dstore) (i : nat) : list N := arr_ids (nth i (d_arrays s) (mk_arr [] false)).
  Definition type_id_of (s : dstore) (i : nat) : N := cell_id (fst (nth i (d_types s) (Res 0%N, true))).
  Definition array_resolved (s : dstore) (i : nat) : Prop := all_res (a_cells (nth i (d_arrays s) (mk_arr [] false))).
  Definition type_resolved (s : dstore) (i : nat) : Prop := exists id, fst (nth i (d_types s) (Res 0%N, true)) = Res id.

  (* "s' is s with more cells resolved": same ids everywhere, resolved cells untouched *)
  Record extends (s s' : dstore) : Prop := {
    ex_len_a : length (d_arrays s') = length (d_arrays s);
    ex_len_t : length (d_types s') = length (d_types s);
    ex_ids : forall j, array_ids s' j = array_ids s j;
    ex_tids : forall j, type_id_of s' j = type_id_of s j;
    ex_keep : forall j, array_resolved s j -> nth j (d_arrays s') (mk_arr [] false) = nth j (d_arrays s) (mk_arr [] false);
    ex_keep_t : forall j, type_resolved s j -> nth j (d_types s') (Res 0%N, true) = nth j (d_types s) (Res 0%N, true)
  }.

  Lemma extends_refl s : extends s s.
  Proof. constructor; auto. Qed.

  Lemma extends_trans s1 s2 s3 : extends s1 s2 -> extends s2 s3 -> extends s1 s3.
  Proof.
    intros [a1 t1 i1 ti1 k1 kt1] [a2 t2 i2 ti2 k2 kt2]. constructor; try congruence.
    - intros j Hj. rewrite k2; [apply k1; exact Hj|]. unfold array_resolved. rewrite (k1 j Hj). exact Hj.
    - intros j Hj. rewrite kt2; [apply kt1; exact Hj|]. unfold type_resolved. rewrite (kt1 j Hj). exact Hj.
  Qed.

  Lemma resolve_array_ext s i : store_ok s ->
    exists s', resolve_array idf s i = DOk s' /\ store_ok s' /\ extends s s' /\ array_resolved s' i.
  Proof.
    intro H. destruct (resolve_array_ok s i H) as [s' [E [Hok [Hl [Ht [Hids [Hkeep Hres]]]]]]].
    exists s'. split; [exact E|]. split; [exact Hok|]. split; [|exact Hres].
    constructor.
    - exact Hl.
    - rewrite Ht. reflexivity.
    - exact Hids.
    - intro j. unfold type_id_of. rewrite Ht. reflexivity.
    - exact Hkeep.
    - intros j _. rewrite Ht. reflexivity.
  Qed.

  Lemma resolve_type_ext s i : store_ok s ->
    exists s', resolve_type idf s i = DOk s' /\ store_ok s' /\ extends s s' /\ (i < length (d_types s) -> type_resolved s' i).
  Proof.
    intros [Ha Ht]. unfold resolve_type. destruct (nth_error (d_types s) i) as [[c b]|] eqn:E.
    - assert (Hin : In (c, b) (d_types s)) by (eapply nth_error_In; eassumption).
      assert (Hi : i < length (d_types s)) by (apply nth_error_Some; congruence).
      assert (En : nth i (d_types s) (Res 0%N, true) = (c, b)) by (apply nth_error_nth; exact E).
      pose proof (proj1 (Forall_forall _ _) Ht _ Hin) as Hok. unfold type_ok in Hok. cbn [fst snd] in Hok.
      destruct b.
      + exists s. split; [reflexivity|]. split; [split; assumption|]. split; [apply extends_refl|]. intros _. unfold type_resolved. rewrite En. exact Hok.
      + destruct Hok as [f ->]. cbn [resolve_cell]. eexists. split; [reflexivity|].
        split; [|split].
        * unfold store_ok. cbn [d_arrays d_types]. split; [assumption|].
          apply Forall_forall. intros x Hx. apply In_nth with (d := (Res 0%N, true)) in Hx. destruct Hx as [j [Hj <-]].
          rewrite length_set_nth in Hj. destruct (Nat.eq_dec i j) as [<-|Hne].
          -- rewrite nth_set_nth_eq by assumption. unfold type_ok. cbn. eauto.
          -- rewrite nth_set_nth_neq by assumption. apply (proj1 (Forall_forall _ _) Ht). apply nth_In. exact Hj.
        * constructor; cbn [d_arrays d_types]; try reflexivity.
          -- apply length_set_nth.
          -- intro j. unfold type_id_of. cbn [d_types]. destruct (Nat.eq_dec i j) as [<-|Hne].
             ++ rewrite nth_set_nth_eq by assumption. rewrite En. reflexivity.
             ++ rewrite nth_set_nth_neq by assumption. reflexivity.
          -- intros j [id Hj]. destruct (Nat.eq_dec i j) as [<-|Hne].
             ++ rewrite En in Hj. discriminate.
             ++ rewrite nth_set_nth_neq by assumption. reflexivity.
        * intros _. unfold type_resolved. cbn [d_types]. rewrite nth_set_nth_eq by assumption. cbn. eauto.
    - exists s. split; [reflexivity|]. split; [split; assumption|]. split; [apply extends_refl|]. intro Hi. apply nth_error_None in E. lia.
  Qed.

  Lemma resolve_arrays_ext l : forall s, store_ok s ->
    exists s', resolve_arrays idf s l = DOk s' /\ store_ok s' /\ extends s s' /\ Forall (array_resolved s') l.
  Proof.
    induction l as [|i l IH]; intros s H; cbn [resolve_arrays].
    - exists s. split; [reflexivity|]. split; [exact H|]. split; [apply extends_refl|constructor].
    - destruct (resolve_array_ext s i H) as [s1 [E1 [H1 [X1 R1]]]]. rewrite E1. cbn [dbind].
      destruct (IH s1 H1) as [s2 [E2 [H2 [X2 R2]]]]. exists s2. split; [exact E2|]. split; [exact H2|]. split.
      + eapply extends_trans; eassumption.
      + constructor; [|assumption]. unfold array_resolved. rewrite (ex_keep s1 s2 X2 i R1). exact R1.
  Qed.

  Definition catalog_resolved (s : dstore) (k : dcatalog) : Prop :=
    Forall (fun c => (dc_type c < length (d_types s) -> type_resolved s (dc_type c)) /\ array_resolved s (dc_bases c)) (dk_classes k) /\
    Forall (fun m => array_resolved s (dm_vp m) /\ Forall (array_resolved s) (dm_defs m)) (dk_methods k).

  Lemma resolved_mono s s' : extends s s' ->
    (forall j, array_resolved s j -> array_resolved s' j) /\ (forall j, type_resolved s j -> type_resolved s' j).
  Proof.
    intro X. split; intros j Hj.
    - unfold array_resolved. rewrite (ex_keep s s' X j Hj). exact Hj.
    - unfold type_resolved. rewrite (ex_keep_t s s' X j Hj). exact Hj.
  Qed.

  Lemma resolve_classes_ext cs : forall s, store_ok s ->
    exists s', resolve_classes idf s cs = DOk s' /\ store_ok s' /\ extends s s' /\
      Forall (fun c => (dc_type c < length (d_types s) -> type_resolved s' (dc_type c)) /\ array_resolved s' (dc_bases c)) cs.
  Proof.
    induction cs as [|c cs IH]; intros s H; cbn [resolve_classes].
    - exists s. split; [reflexivity|]. split; [exact H|]. split; [apply extends_refl|constructor].
    - destruct (resolve_type_ext s (dc_type c) H) as [s1 [E1 [H1 [X1 R1]]]]. rewrite E1. cbn [dbind].
      destruct (resolve_array_ext s1 (dc_bases c) H1) as [s2 [E2 [H2 [X2 R2]]]]. rewrite E2. cbn [dbind].
      destruct (IH s2 H2) as [s3 [E3 [H3 [X3 R3]]]]. exists s3. split; [exact E3|]. split; [exact H3|]. split.
      + eapply extends_trans; [eassumption|]. eapply extends_trans; eassumption.
      + constructor.
        * split.
          -- intro Hi. apply (proj2 (resolved_mono s2 s3 X3)). apply (proj2 (resolved_mono s1 s2 X2)). apply R1. exact Hi.
          -- apply (proj1 (resolved_mono s2 s3 X3)). exact R2.
        * eapply Forall_impl; [|exact R3]. intros c' [A B]. split; [|exact B]. intro Hi. apply A.
          rewrite (ex_len_t s1 s2 X2), (ex_len_t s s1 X1). exact Hi.
  Qed.

  Lemma resolve_methods_ext ms : forall s, store_ok s ->
    exists s', resolve_methods idf s ms = DOk s' /\ store_ok s' /\ extends s s' /\
      Forall (fun m => array_resolved s' (dm_vp m) /\ Forall (array_resolved s') (dm_defs m)) ms.
  Proof.
    induction ms as [|m ms IH]; intros s H; cbn [resolve_methods].
    - exists s. split; [reflexivity|]. split; [exact H|]. split; [apply extends_refl|constructor].
    - destruct (resolve_array_ext s (dm_vp m) H) as [s1 [E1 [H1 [X1 R1]]]]. rewrite E1. cbn [dbind].
      destruct (resolve_arrays_ext (dm_defs m) s1 H1) as [s2 [E2 [H2 [X2 R2]]]]. rewrite E2. cbn [dbind].
      destruct (IH s2 H2) as [s3 [E3 [H3 [X3 R3]]]]. exists s3. split; [exact E3|]. split; [exact H3|]. split.
      + eapply extends_trans; [eassumption|]. eapply extends_trans; eassumption.
      + constructor; [|assumption]. split.
        * apply (proj1 (resolved_mono s2 s3 X3)). apply (proj1 (resolved_mono s1 s2 X2)). exact R1.
        * eapply Forall_impl; [|exact R2]. intros j Hj. apply (proj1 (resolved_mono s2 s3 X3)). exact Hj.
  Qed.

  (* resolve_static_type_ids never calls an id as a function, whatever arrays the registrations share and whatever
     was resolved by earlier updates; every id list keeps denoting the same ids; afterwards everything the catalogs
     refer to holds ids *)
  Theorem resolve_static_type_ids_ok s k : store_ok s ->
    exists s', resolve_static_type_ids idf s k = DOk s' /\ store_ok s' /\ extends s s' /\ catalog_resolved s' k.
  Proof.
    intro H. unfold resolve_static_type_ids.
    destruct (resolve_classes_ext (dk_classes k) s H) as [s1 [E1 [H1 [X1 R1]]]]. rewrite E1. cbn [dbind].
    destruct (resolve_methods_ext (dk_methods k) s1 H1) as [s2 [E2 [H2 [X2 R2]]]]. exists s2. split; [exact E2|]. split; [exact H2|]. split.
    - eapply extends_trans; eassumption.
    - split; [|exact R2]. eapply Forall_impl; [|exact R1]. intros c [A B]. split.
      + intro Hi. apply (proj2 (resolved_mono s1 s2 X2)). apply A.
        rewrite (ex_len_t s1 s2 X2), (ex_len_t s s1 X1) in Hi. exact Hi.
      + apply (proj1 (resolved_mono s1 s2 X2)). exact B.
  Qed.

  (* a second update with nothing new to resolve leaves the id arrays exactly as they are *)
  Lemma resolve_array_noop s i : store_ok s -> array_resolved s i -> resolve_array idf s i = DOk s.
  Proof.
    intros [Ha _] Hr. unfold resolve_array. destruct (nth_error (d_arrays s) i) as [a|] eqn:E; [|reflexivity].
    assert (En : nth i (d_arrays s) (mk_arr [] false) = a) by (apply nth_error_nth; exact E).
    unfold array_resolved in Hr. rewrite En in Hr.
    pose proof (proj1 (Forall_forall _ _) Ha a (nth_error_In _ _ E)) as Hok. unfold arr_ok in Hok.
    unfold resolve_list. destruct (a_cells a) as [|c cs] eqn:Ec.
    - replace (set_nth i (d_arrays s) a) with (d_arrays s); [destruct s; reflexivity|].
      clear - E. revert i E. induction (d_arrays s) as [|x l IH]; intros [|i] E; cbn in *; try discriminate; [inversion E; reflexivity|].
      f_equal. apply IH. exact E.
    - destruct (a_flag a) eqn:F.
      + replace (set_nth i (d_arrays s) a) with (d_arrays s); [destruct s; reflexivity|].
        clear - E. revert i E. induction (d_arrays s) as [|x l IH]; intros [|i] E; cbn in *; try discriminate; [inversion E; reflexivity|].
        f_equal. apply IH. exact E.
      + exfalso. inversion Hok as [|? ? [f Hf] _]; subst. inversion Hr as [|? ? [id Hid] _]; subst. discriminate.
  Qed.

  Lemma resolve_type_noop s i : store_ok s -> (i < length (d_types s) -> type_resolved s i) -> resolve_type idf s i = DOk s.
  Proof.
    intros [_ Ht] Hr. unfold resolve_type. destruct (nth_error (d_types s) i) as [[c b]|] eqn:E; [|reflexivity].
    destruct b; [reflexivity|]. exfalso.
    assert (Hi : i < length (d_types s)) by (apply nth_error_Some; congruence).
    destruct (Hr Hi) as [id Hid]. rewrite (nth_error_nth _ _ _ E) in Hid. cbn in Hid. subst c.
    pose proof (proj1 (Forall_forall _ _) Ht _ (nth_error_In _ _ E)) as Hok. unfold type_ok in Hok. cbn in Hok. destruct Hok; discriminate.
  Qed.

  Lemma resolve_arrays_noop l : forall s, store_ok s -> Forall (array_resolved s) l -> resolve_arrays idf s l = DOk s.
  Proof.
    induction l as [|i l IH]; intros s H Hr; cbn [resolve_arrays]; [reflexivity|].
    inversion Hr; subst. rewrite resolve_array_noop by assumption. cbn [dbind]. apply IH; assumption.
  Qed.

  Theorem resolve_static_type_ids_idempotent s k : store_ok s -> catalog_resolved s k ->
    resolve_static_type_ids idf s k = DOk s.
  Proof.
    intros H [Hc Hm]. unfold resolve_static_type_ids.
    assert (E1 : resolve_classes idf s (dk_classes k) = DOk s).
    { induction (dk_classes k) as [|c cs IH]; [reflexivity|]. inversion Hc as [|? ? [A B] Hcs]; subst. cbn [resolve_classes].
      rewrite resolve_type_noop by assumption. cbn [dbind]. rewrite resolve_array_noop by assumption. cbn [dbind]. apply IH. exact Hcs. }
    rewrite E1. cbn [dbind].
    induction (dk_methods k) as [|m ms IH]; [reflexivity|]. inversion Hm as [|? ? [A B] Hms]; subst. cbn [resolve_methods].
    rewrite resolve_array_noop by assumption. cbn [dbind]. rewrite resolve_arrays_noop by assumption. cbn [dbind]. apply IH. exact Hms.
  Qed.
End Deferred.

Print Assumptions resolve_static_type_ids_ok.
Print Assumptions resolve_static_type_ids_idempotent.

