(* LatClosure.v — the closure of the base lists (Compile.closure) over an abstract initial table tb0:
   it never runs out of fuel S(n*n), and its result holds exactly the proper ancestors
   (transitive closure of the listed edges) when that closure is irreflexive.
   Adapted from notes/spikes/ClosureSpike.v to the list-of-lists representation. *)
From Coq Require Import List Arith NArith Lia Bool Relations.
From Y2 Require Import Model.Registry Model.Compile Proofs.LatListFacts.
Import ListNotations.
Local Open Scope nat_scope.

Definition tget (tb : list (list nat)) (c : nat) : list nat := nth c tb [].

Definition tb_wf (n : nat) (tb : list (list nat)) : Prop :=
  length tb = n /\ forall c b, In b (tget tb c) -> b < n.

Lemma tget_lt tb c b : In b (tget tb c) -> c < length tb.
Proof.
  unfold tget. intro H. destruct (Nat.lt_ge_cases c (length tb)) as [Hlt|Hge]; [assumption|].
  rewrite nth_overflow in H by assumption. contradiction.
Qed.

(* ------------------------------------------------------------------ lists that grow by appending new elements *)

Definition ext (l l' : list nat) : Prop := exists e, l' = l ++ e /\ forall y, In y e -> ~ In y l.

Lemma ext_refl l : ext l l.
Proof. exists []. split; [now rewrite app_nil_r|intros y []]. Qed.

Lemma ext_incl l l' x : ext l l' -> In x l -> In x l'.
Proof. intros [e [-> _]] H. apply in_or_app. auto. Qed.

Lemma ext_trans l1 l2 l3 : ext l1 l2 -> ext l2 l3 -> ext l1 l3.
Proof.
  intros [e1 [-> H1]] [e2 [-> H2]]. exists (e1 ++ e2). split; [now rewrite app_assoc|].
  intros y Hy Hin. apply in_app_or in Hy. destruct Hy as [Hy|Hy].
  - now apply (H1 y).
  - apply (H2 y Hy). apply in_or_app. auto.
Qed.

Lemma ext_new l l' : ext l l' -> l <> l' -> exists y, In y l' /\ ~ In y l.
Proof.
  intros [e [-> H]] Hne. destruct e as [|y e].
  - exfalso. apply Hne. now rewrite app_nil_r.
  - exists y. split; [apply in_or_app; right; now left|apply H; now left].
Qed.

(* ------------------------------------------------------------------ add_new / step_class *)

Lemma add_new_ext c acc bb : ext acc (add_new c acc bb).
Proof.
  unfold add_new. destruct (Nat.eqb bb c); cbn [orb]; [apply ext_refl|].
  destruct (memn_spec bb acc) as [H|H]; [apply ext_refl|].
  exists [bb]. split; [reflexivity|]. intros y [<-|[]]. assumption.
Qed.

Lemma fold_add_ext c l : forall acc, ext acc (fold_left (add_new c) l acc).
Proof.
  induction l as [|a l IH]; cbn [fold_left]; intro acc; [apply ext_refl|].
  eapply ext_trans; [apply add_new_ext|apply IH].
Qed.

Lemma add_new_in c acc bb x : In x (add_new c acc bb) -> In x acc \/ (x = bb /\ bb <> c).
Proof.
  unfold add_new. destruct (Nat.eqb_spec bb c) as [->|Hne]; cbn [orb]; [auto|].
  destruct (memn bb acc); [auto|]. intro H. apply in_app_or in H. destruct H as [H|[H|[]]]; auto.
Qed.

Lemma fold_add_in c l : forall acc x, In x (fold_left (add_new c) l acc) -> In x acc \/ (In x l /\ x <> c).
Proof.
  induction l as [|a l IH]; cbn [fold_left]; intros acc x H; [auto|].
  apply IH in H. destruct H as [H|[H1 H2]]; [|cbn; auto].
  apply add_new_in in H. destruct H as [H|[-> H]]; cbn; auto.
Qed.

Lemma fold_add_complete c l : forall acc x, In x l -> x <> c -> In x (fold_left (add_new c) l acc).
Proof.
  induction l as [|a l IH]; cbn [fold_left]; intros acc x H Hne; [contradiction|].
  destruct H as [->|H]; [|now apply IH].
  eapply ext_incl; [apply fold_add_ext|].
  unfold add_new. apply Nat.eqb_neq in Hne. rewrite Hne. cbn [orb].
  destruct (memn_spec x acc) as [E|E]; [assumption|]. apply in_or_app. right. now left.
Qed.

Lemma step_class_in t c x : In x (step_class t c) <->
  In x (tget t c) \/ (x <> c /\ exists b, In b (tget t c) /\ In x (tget t b)).
Proof.
  unfold step_class, tget. split.
  - intro H. apply fold_add_in in H. destruct H as [H|[H Hne]]; [auto|].
    right. split; [assumption|]. apply in_flat_map in H. exact H.
  - intros [H|[Hne [b [Hb Hx]]]]; [eapply ext_incl; [apply fold_add_ext|assumption]|].
    apply fold_add_complete; [|assumption]. apply in_flat_map. eauto.
Qed.

Lemma step_class_ext t c : ext (tget t c) (step_class t c).
Proof. unfold step_class, tget. apply fold_add_ext. Qed.

(* ------------------------------------------------------------------ one step, one round *)

Definition rstep (t : list (list nat)) (c : nat) : list (list nat) := set_nth c t (step_class t c).

Lemma closure_round_eq tb : closure_round tb = fold_left rstep (seq 0 (length tb)) tb.
Proof. reflexivity. Qed.

Lemma length_rstep t c : length (rstep t c) = length t.
Proof. apply length_set_nth. Qed.

Lemma tget_rstep_eq t c : c < length t -> tget (rstep t c) c = step_class t c.
Proof. intro H. unfold tget, rstep. now apply nth_set_nth_eq. Qed.

Lemma tget_rstep_neq t c x : x <> c -> tget (rstep t c) x = tget t x.
Proof. intro H. unfold tget, rstep. apply nth_set_nth_neq. auto. Qed.

Lemma rstep_ext t c x : c < length t -> ext (tget t x) (tget (rstep t c) x).
Proof.
  intro Hc. destruct (Nat.eq_dec x c) as [->|Hne].
  - rewrite tget_rstep_eq by assumption. apply step_class_ext.
  - rewrite tget_rstep_neq by assumption. apply ext_refl.
Qed.

Lemma length_fold_rstep l : forall t, length (fold_left rstep l t) = length t.
Proof. induction l as [|c l IH]; cbn [fold_left]; intro t; [reflexivity|]. now rewrite IH, length_rstep. Qed.

Lemma fold_rstep_ext l : forall t, (forall c, In c l -> c < length t) ->
  forall x, ext (tget t x) (tget (fold_left rstep l t) x).
Proof.
  induction l as [|c l IH]; cbn [fold_left]; intros t Hl x; [apply ext_refl|].
  eapply ext_trans; [apply rstep_ext; apply Hl; now left|].
  apply IH. intros c' Hc'. rewrite length_rstep. apply Hl. now right.
Qed.

Lemma seq_lt n c : In c (seq 0 n) -> c < n.
Proof. intro H. apply in_seq in H. lia. Qed.

Lemma round_ext tb x : ext (tget tb x) (tget (closure_round tb) x).
Proof. rewrite closure_round_eq. apply fold_rstep_ext. intros c. apply seq_lt. Qed.

Lemma length_closure_round tb : length (closure_round tb) = length tb.
Proof. rewrite closure_round_eq. apply length_fold_rstep. Qed.

(* ------------------------------------------------------------------ the closure theory *)

Section Closure.
  Variable tb0 : list (list nat).
  Let n := length tb0.

  Definition E (b c : nat) : Prop := In b (tget tb0 c).
  Definition ancp : nat -> nat -> Prop := clos_trans nat E.

  Definition sound (t : list (list nat)) := forall c b, In b (tget t c) -> ancp b c.
  Definition contains (t : list (list nat)) := forall c b, In b (tget tb0 c) -> In b (tget t c).
  Definition closed (t : list (list nat)) :=
    forall c b bb, In b (tget t c) -> In bb (tget t b) -> bb <> c -> In bb (tget t c).

  Lemma rstep_sound t c : c < length t -> sound t -> sound (rstep t c).
  Proof.
    intros Hc S x b. destruct (Nat.eq_dec x c) as [->|Hne].
    - rewrite tget_rstep_eq by assumption. rewrite step_class_in.
      intros [H|[_ [b' [H1 H2]]]]; [now apply S|].
      eapply t_trans; [apply S; eassumption|apply S; assumption].
    - rewrite tget_rstep_neq by assumption. apply S.
  Qed.

  Lemma fold_rstep_sound l : forall t, (forall c, In c l -> c < length t) -> sound t -> sound (fold_left rstep l t).
  Proof.
    induction l as [|c l IH]; cbn [fold_left]; intros t Hl S; [assumption|].
    apply IH.
    - intros c' Hc'. rewrite length_rstep. apply Hl. now right.
    - apply rstep_sound; [apply Hl; now left|assumption].
  Qed.

  Lemma round_sound t : sound t -> sound (closure_round t).
  Proof. intro S. rewrite closure_round_eq. apply fold_rstep_sound; [intro c; apply seq_lt|assumption]. Qed.

  Lemma round_wf t : tb_wf n t -> tb_wf n (closure_round t).
  Proof.
    intros [Hlen Hlt]. split; [now rewrite length_closure_round|].
    rewrite closure_round_eq.
    assert (G : forall l t, (forall c, In c l -> c < length t) -> (forall c b, In b (tget t c) -> b < n) ->
                forall c b, In b (tget (fold_left rstep l t) c) -> b < n).
    { clear t Hlen Hlt. induction l as [|a l IH]; cbn [fold_left]; intros t Hl Ht; [assumption|].
      apply IH.
      - intros c' Hc'. rewrite length_rstep. apply Hl. now right.
      - intros c b. destruct (Nat.eq_dec c a) as [->|Hne].
        + rewrite tget_rstep_eq by (apply Hl; now left). rewrite step_class_in.
          intros [H|[_ [b' [H1 H2]]]]; eauto.
        + rewrite tget_rstep_neq by assumption. apply Ht. }
    apply G; [intro c; apply seq_lt|assumption].
  Qed.

  (* a round that changes nothing means closed *)
  Lemma fix_closed_gen l : forall t, (forall c, In c l -> c < length t) ->
    (forall x y, In y (tget (fold_left rstep l t) x) -> In y (tget t x)) ->
    forall c, In c l -> forall b bb, In b (tget t c) -> In bb (tget t b) -> bb <> c -> In bb (tget t c).
  Proof.
    induction l as [|a l IH]; intros t Hl Hsame c Hc b bb Hb Hbb Hne; [contradiction|].
    cbn [fold_left] in Hsame. set (t1 := rstep t a) in *.
    assert (Ha : a < length t) by (apply Hl; now left).
    assert (Hl1 : forall c, In c l -> c < length t1).
    { intros c' Hc'. unfold t1. rewrite length_rstep. apply Hl. now right. }
    assert (M : forall x y, In y (tget t1 x) -> In y (tget t x)).
    { intros x y H. apply Hsame. eapply ext_incl; [apply fold_rstep_ext; assumption|exact H]. }
    assert (U : forall x y, In y (tget t x) -> In y (tget t1 x)).
    { intros x y H. eapply ext_incl; [apply rstep_ext; assumption|exact H]. }
    destruct Hc as [->|Hc].
    - apply M. unfold t1. rewrite tget_rstep_eq by assumption.
      apply step_class_in. right. split; [assumption|]. eauto.
    - assert (Hs1 : forall x y, In y (tget (fold_left rstep l t1) x) -> In y (tget t1 x)).
      { intros x y H. apply U. now apply Hsame. }
      apply M. apply (IH t1 Hl1 Hs1 c Hc b bb); auto.
  Qed.

  Lemma round_fix_closed t : closure_round t = t -> closed t.
  Proof.
    intros Hfix c b bb Hb. apply (fix_closed_gen (seq 0 (length t)) t).
    - intro c'. apply seq_lt.
    - rewrite <- closure_round_eq, Hfix. auto.
    - apply in_seq. apply tget_lt in Hb. lia.
    - assumption.
  Qed.

  Lemma round_contains t : contains t -> contains (closure_round t).
  Proof. intros C c b H. eapply ext_incl; [apply round_ext|]. now apply C. Qed.

  (* closed + contains + irreflexive ==> complete *)
  Lemma complete t : (forall c, ~ ancp c c) -> contains t -> closed t -> forall b c, ancp b c -> In b (tget t c).
  Proof.
    intros Irr C K b c H. apply clos_trans_tn1 in H. induction H as [c H|c d H H' IH].
    - now apply C.
    - apply (K d c b); [now apply C|assumption|].
      intro Eq. subst d. apply (Irr b). apply clos_tn1_trans. econstructor 2; eauto.
  Qed.

  (* ---------------------------------------------------------------- fuel *)

  Definition pairs : list (nat * nat) := list_prod (seq 0 n) (seq 0 n).
  Definition measure (t : list (list nat)) : nat :=
    length (filter (fun p => memn (snd p) (tget t (fst p))) pairs).

  Lemma measure_bound t : measure t <= n * n.
  Proof.
    unfold measure. etransitivity; [apply filter_length_bound|].
    unfold pairs. now rewrite prod_length, seq_length.
  Qed.

  Lemma measure_lt t t' c b :
    (forall x y, In y (tget t x) -> In y (tget t' x)) ->
    c < n -> b < n -> In b (tget t' c) -> ~ In b (tget t c) -> measure t < measure t'.
  Proof.
    intros M Hc Hb Hin Hnin. unfold measure.
    apply (filter_length_lt _ _ _ (c, b)).
    - intros [x y] _. cbn [fst snd]. rewrite !memn_In. apply M.
    - unfold pairs. apply in_prod; apply in_seq; lia.
    - cbn [fst snd]. now apply memn_false.
    - cbn [fst snd]. now apply memn_In.
  Qed.

  Lemma list_eqb_eq a : forall b, list_eqb a b = true <-> a = b.
  Proof.
    induction a as [|x a IH]; intros [|y b]; cbn [list_eqb]; split; intro H; try congruence; try reflexivity.
    - apply andb_true_iff in H. destruct H as [H1 H2]. apply Nat.eqb_eq in H1. apply IH in H2. congruence.
    - inversion H; subst. rewrite Nat.eqb_refl. cbn. now apply IH.
  Qed.

  Lemma tb_eqb_eq a : forall b, tb_eqb a b = true <-> a = b.
  Proof.
    induction a as [|x a IH]; intros [|y b]; cbn [tb_eqb]; split; intro H; try congruence; try reflexivity.
    - apply andb_true_iff in H. destruct H as [H1 H2]. apply list_eqb_eq in H1. apply IH in H2. congruence.
    - inversion H; subst. apply andb_true_iff. split; [now apply list_eqb_eq|now apply IH].
  Qed.

  Lemma tb_eqb_false a : forall b, tb_eqb a b = false -> length a = length b ->
    exists c, c < length a /\ tget a c <> tget b c.
  Proof.
    induction a as [|x a IH]; intros [|y b]; cbn [tb_eqb length]; intros H Hlen; try congruence; try lia.
    destruct (list_eqb x y) eqn:Exy; cbn [andb] in H.
    - destruct (IH b H) as [c [Hc Hne]]; [lia|]. exists (S c). split; [lia|exact Hne].
    - exists 0. split; [lia|]. unfold tget. cbn [nth]. intro Eq. apply list_eqb_eq in Eq. congruence.
  Qed.

  Lemma closure_ok : forall fuel t, tb_wf n t -> sound t -> contains t -> n * n - measure t < fuel ->
    exists t', closure fuel t = Ok t' /\ tb_wf n t' /\ sound t' /\ contains t' /\ closed t'.
  Proof.
    induction fuel as [|f IH]; intros t W S C Hf; [lia|].
    cbn [closure].
    destruct (tb_eqb t (closure_round t)) eqn:Eq.
    - exists t. apply tb_eqb_eq in Eq. repeat split; try assumption; try apply W.
      apply round_fix_closed. now symmetry.
    - apply IH; [now apply round_wf|now apply round_sound|now apply round_contains|].
      apply tb_eqb_false in Eq; [|now rewrite length_closure_round].
      destruct Eq as [c [Hc Hne]].
      destruct (ext_new _ _ (round_ext t c) Hne) as [y [Hy Hny]].
      assert (W' := round_wf t W). destruct W as [Hlen _]. destruct W' as [_ Hlt'].
      assert (Hlt : measure t < measure (closure_round t)).
      { apply (measure_lt t _ c y); [intros x z; apply ext_incl, round_ext|lia|eauto|assumption|assumption]. }
      pose proof (measure_bound (closure_round t)). lia.
  Qed.

  (* the theorem of this file *)
  Theorem closure_correct :
    tb_wf n tb0 -> (forall c, ~ ancp c c) ->
    exists tb1, closure (S (n * n)) tb0 = Ok tb1 /\ tb_wf n tb1 /\
                forall c b, In b (tget tb1 c) <-> ancp b c.
  Proof.
    intros W Irr.
    destruct (closure_ok (S (n * n)) tb0 W) as [tb1 [H1 [W1 [S1 [C1 K1]]]]].
    - intros c b H. apply t_step. exact H.
    - intros c b H. exact H.
    - lia.
    - exists tb1. repeat split; try assumption; try apply W1.
      + apply S1.
      + now apply complete.
  Qed.
End Closure.
