(* BoundsProofs.v — every read the modelled call path makes is bounds-checked: a walk that returns a word
   has only read cells inside dispatch_data.  Together with resolve_correct (every legal call returns Ok)
   this is the in-bounds half of property C04. *)
From Y2 Require Import Model.Registry Model.Compile Proofs.WalkProofs.
From Coq Require Import Lia.

Lemma read_ok_in_bounds img a w : read img a = Ok w -> (0 <= a < Z.of_nat (length img))%Z /\ nth_error img (Z.to_nat a) = Some w.
Proof.
  unfold read. destruct (Z.ltb_spec a 0) as [Hneg|Hpos]; [discriminate|].
  destruct (nth_error img (Z.to_nat a)) as [w'|] eqn:E; [|discriminate].
  intro H. inversion H; subst w'. split; [|reflexivity].
  assert (Z.to_nat a < length img)%nat by (apply nth_error_Some; congruence). lia.
Qed.

(* the list of addresses a walk reads, in order; None when the walk gets stuck *)
Definition in_image (C : compiled) (a : Z) : Prop := (0 <= a < Z.of_nat (length (o_image C)))%Z.

Lemma walk_uni_in_bounds C ss vps w : walk_uni C ss vps = Ok w ->
  exists vp rest, vps = vp :: rest /\ in_image C (vp + Z.of_nat (nth 0%nat ss 0%nat))%Z.
Proof.
  destruct vps as [|vp rest]; cbn [walk_uni]; [discriminate|].
  intro H. apply read_ok_in_bounds in H. exists vp, rest. split; [reflexivity|apply H].
Qed.

(* all addresses read by walk_next when it succeeds *)
Fixpoint next_reads (C : compiled) (arity : nat) (ss : list nat) (va : nat) (dispatch : Z) (vps : list Z) : list Z :=
  match vps with
  | vp :: rest =>
      let a := (vp + Z.of_nat (nth va ss 0%nat))%Z in
      match read (o_image C) a with
      | Ok (WIdx g) =>
          let dispatch' := (dispatch + Z.of_nat g * Z.of_nat (nth (arity + va - 1)%nat ss 0%nat))%Z in
          if S va =? arity then [a; dispatch'] else a :: next_reads C arity ss (S va) dispatch' rest
      | _ => [a]
      end
  | [] => []
  end.

Lemma walk_next_in_bounds C arity ss : forall vps va dispatch w,
  walk_next C arity ss va dispatch vps = Ok w -> Forall (in_image C) (next_reads C arity ss va dispatch vps).
Proof.
  induction vps as [|vp rest IH]; intros va dispatch w H; cbn [walk_next next_reads] in *; [constructor|].
  destruct (read (o_image C) (vp + Z.of_nat (nth va ss 0%nat))%Z) as [w0|e] eqn:E; cbn [bind] in H; [|discriminate].
  pose proof (proj1 (read_ok_in_bounds _ _ _ E)) as Hb.
  destruct w0; try discriminate.
  destruct (S va =? arity).
  - constructor; [exact Hb|]. constructor; [|constructor]. apply read_ok_in_bounds in H. apply H.
  - constructor; [exact Hb|]. eapply IH; eassumption.
Qed.

Definition first_reads (C : compiled) (arity : nat) (ss : list nat) (vps : list Z) : list Z :=
  match vps with
  | vp :: rest =>
      let a := (vp + Z.of_nat (nth 0%nat ss 0%nat))%Z in
      match read (o_image C) a with
      | Ok (WRow r) => a :: next_reads C arity ss 1 (Z.of_nat r) rest
      | _ => [a]
      end
  | [] => []
  end.

Theorem walk_first_in_bounds C arity ss vps w :
  walk_first C arity ss vps = Ok w -> Forall (in_image C) (first_reads C arity ss vps).
Proof.
  destruct vps as [|vp rest]; cbn [walk_first first_reads]; [constructor|].
  destruct (read (o_image C) (vp + Z.of_nat (nth 0%nat ss 0%nat))%Z) as [w0|e] eqn:E; cbn [bind]; [|discriminate].
  pose proof (proj1 (read_ok_in_bounds _ _ _ E)) as Hb.
  destruct w0; try discriminate. intro H.
  constructor; [exact Hb|]. eapply walk_next_in_bounds; eassumption.
Qed.
