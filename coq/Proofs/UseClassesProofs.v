(* UseClassesProofs.v — what use_classes registers is a presentation (in the sense of property C08) of the class graph,
   as soon as every direct base of a listed class is listed in the same statement. *)
From Y2 Require Import Model.Registry Model.UseClasses Spec.Dispatch Proofs.SpecProofs.
From Coq Require Import Relations.

Section UseClasses.
  Variable G : list (N * N).                       (* direct-base edges (base, derived) of the program's classes *)
  Variable is_base_of : N -> N -> bool.
  Variable is_abstract : N -> bool.
  Hypothesis is_base_of_spec : forall b d, is_base_of b d = true <-> clos_refl_trans N (Gedge G) b d.

  Variable stmts : list (list N).
  (* every direct base of a class listed in a statement is listed in that statement too *)
  Hypothesis direct_bases_listed : forall cs b d, In cs stmts -> In d cs -> In (b, d) G -> In b cs.
  (* every class of the graph is listed somewhere (as a derived class it must be; roots too, to be registered) *)
  Hypothesis derived_listed : forall b d, In (b, d) G -> exists cs, In cs stmts /\ In d cs.

  Let R := mk_reg (program_records is_base_of is_abstract stmts) [] [].

  Lemma proj_id t : proj R t = t.
  Proof. reflexivity. Qed.

  Lemma map_proj_id l : map (proj R) l = l.
  Proof. induction l as [|x l IH]; cbn [map]; [reflexivity|]. rewrite IH, proj_id. reflexivity. Qed.

  Lemma in_program_records r : In r (r_classes R) <->
    exists cs c, In cs stmts /\ In c cs /\ r = mk_class c (filter (fun b => is_base_of b c) cs) (is_abstract c).
  Proof.
    cbn [R r_classes]. unfold program_records, use_classes_records, inheritance_map. rewrite in_flat_map. split.
    - intros [cs [Hcs Hr]]. rewrite map_map in Hr. apply in_map_iff in Hr. destruct Hr as [c [<- Hc]]. exists cs, c. auto.
    - intros [cs [c [Hcs [Hc ->]]]]. exists cs. split; [exact Hcs|]. rewrite map_map. apply in_map_iff. exists c. auto.
  Qed.

  Theorem use_classes_presentation : presentation_of G R.
  Proof.
    split.
    - (* every direct edge appears in some record *)
      intros b d Hbd Hne. split; [exact Hne|].
      destruct (derived_listed b d Hbd) as [cs [Hcs Hd]].
      exists (mk_class d (filter (fun x => is_base_of x d) cs) (is_abstract d)). split; [|split].
      + apply in_program_records. exists cs, d. auto.
      + reflexivity.
      + unfold rec_bases. cbn [c_bases]. rewrite map_proj_id. apply filter_In. split.
        * exact (direct_bases_listed cs b d Hcs Hd Hbd).
        * apply is_base_of_spec. apply rt_step. exact Hbd.
    - (* every listed base is an ancestor-or-self in the graph *)
      intros b d [Hne [r [Hr [Hd Hb]]]]. apply in_program_records in Hr. destruct Hr as [cs [c [Hcs [Hc ->]]]].
      unfold rec_class in Hd. cbn [c_tid] in Hd. subst d. unfold rec_bases in Hb. cbn [c_bases] in Hb.
      rewrite map_proj_id in Hb. apply filter_In in Hb. apply is_base_of_spec. apply Hb.
  Qed.
End UseClasses.

Print Assumptions use_classes_presentation.
