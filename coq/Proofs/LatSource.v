(* LatSource.v — the loops of compiler<Policy>::augment_classes(), as translated from the C++ text on every run
   (Gen/GenLat.v, by translators/lattice.py, interpreted by Model/MiniLat.v), compute the stages of
   Model.Compile.augment_classes.

   closure:  run_closure fuel gen_closure tb = Compile.closure fuel tb   for every table in which no class lists itself
             (collect_bases establishes that, and every round preserves it).  The `changed` flag of the C++ loop is shown to
             be set exactly when the round made the table longer, which is exactly when the model's comparison of the two
             tables says "different". *)
From Coq Require Import List Arith NArith Lia Bool.
From Y2 Require Import Model.Registry Model.Compile Model.MiniLat Gen.GenLat Proofs.LatListFacts Proofs.LatClosure Proofs.LatBases.
Import ListNotations.
Local Open Scope nat_scope.

(* ------------------------------------------------------------------ list facts *)

Lemma set_nth_set_nth {A} : forall c (l : list A) v w, set_nth c (set_nth c l v) w = set_nth c l w.
Proof.
  intros c l. revert c. induction l as [|a l IH]; intros [|c] v w; cbn [set_nth]; try reflexivity.
  now rewrite IH.
Qed.

Lemma set_nth_nth {A} (d : A) : forall c (l : list A), set_nth c l (nth c l d) = l.
Proof.
  intros c l. revert c. induction l as [|a l IH]; intros [|c]; cbn [set_nth nth]; try reflexivity.
  now rewrite IH.
Qed.

Definition tlen (t : list (list nat)) : nat := fold_right (fun l a => length l + a) 0 t.

Lemma tlen_set_nth : forall c t v, c < length t -> tlen (set_nth c t v) + length (nth c t []) = tlen t + length v.
Proof.
  intros c t. revert c. induction t as [|a t IH]; intros [|c] v H; cbn [length] in H; try lia.
  - cbn [set_nth nth tlen fold_right]. lia.
  - cbn [set_nth nth tlen fold_right]. fold (tlen t). fold (tlen (set_nth c t v)).
    specialize (IH c v ltac:(lia)). lia.
Qed.

Lemma ext_length l l' : ext l l' -> length l <= length l'.
Proof. intros [e [-> _]]. rewrite app_length. lia. Qed.

Lemma ext_same_length l l' : ext l l' -> length l' <= length l -> l' = l.
Proof.
  intros [e [-> _]] H. rewrite app_length in H. destruct e as [|y e]; [now rewrite app_nil_r|cbn [length] in H; lia].
Qed.

Lemma tlen_le : forall a b, length a = length b -> (forall x, length (tget a x) <= length (tget b x)) -> tlen a <= tlen b.
Proof.
  induction a as [|l a IH]; intros [|m b] Hlen H; cbn [length] in Hlen; try lia.
  cbn [tlen fold_right]. fold (tlen a). fold (tlen b).
  pose proof (H 0) as H0. unfold tget in H0. cbn [nth] in H0.
  assert (tlen a <= tlen b); [|lia].
  apply IH; [lia|]. intro x. apply (H (S x)).
Qed.

Lemma tlen_lt : forall a b c, length a = length b -> (forall x, length (tget a x) <= length (tget b x)) ->
  c < length a -> length (tget a c) < length (tget b c) -> tlen a < tlen b.
Proof.
  induction a as [|l a IH]; intros [|m b] c Hlen H Hc Hlt; cbn [length] in Hlen, Hc; try lia.
  cbn [tlen fold_right]. fold (tlen a). fold (tlen b).
  pose proof (H 0) as H0. unfold tget in H0. cbn [nth] in H0.
  assert (Ht : forall x, length (tget a x) <= length (tget b x)) by (intro x; apply (H (S x))).
  destruct c as [|c].
  - unfold tget in Hlt. cbn [nth] in Hlt. pose proof (tlen_le a b ltac:(lia) Ht). lia.
  - assert (tlen a < tlen b); [|lia]. apply (IH b c); [lia|exact Ht|lia|exact Hlt].
Qed.

(* ------------------------------------------------------------------ closure: the innermost test-and-push *)

Definition irr (t : list (list nat)) : Prop := forall c, ~ In c (tget t c).

(* does walking l add anything to acc? *)
Fixpoint any_new (c : nat) (l : list nat) (acc : list nat) : bool :=
  match l with
  | [] => false
  | j :: r => negb (Nat.eqb j c || memn j acc) || any_new c r (add_new c acc j)
  end.

Lemma any_new_app c l1 : forall l2 acc,
  any_new c (l1 ++ l2) acc = any_new c l1 acc || any_new c l2 (fold_left (add_new c) l1 acc).
Proof.
  induction l1 as [|j l1 IH]; intros l2 acc; cbn [app any_new fold_left]; [reflexivity|].
  now rewrite IH, orb_assoc.
Qed.

Lemma length_add_new c acc j :
  length (add_new c acc j) = if Nat.eqb j c || memn j acc then length acc else S (length acc).
Proof. unfold add_new. destruct (Nat.eqb j c || memn j acc); [reflexivity|]. rewrite app_length. cbn. lia. Qed.

Lemma any_new_length c l : forall acc, any_new c l acc = (length acc <? length (fold_left (add_new c) l acc)).
Proof.
  induction l as [|j l IH]; intro acc; cbn [any_new fold_left].
  - symmetry. apply Nat.ltb_irrefl.
  - rewrite IH. pose proof (ext_length _ _ (fold_add_ext c l (add_new c acc j))) as Hle.
    rewrite length_add_new in *.
    destruct (Nat.eqb j c || memn j acc); cbn [negb orb]; [reflexivity|].
    symmetry. apply Nat.ltb_lt. lia.
Qed.

Definition pst (c : nat) (t0 : list (list nat)) (acc : list nat) (fl : bool) (sn : list nat) : cl_st :=
  mk_cl (set_nth c t0 acc) fl sn.

Definition push_body : lstmt := LSeq (LPushTb RRtc RRtbb) LSetChanged.
Definition test_A : lcond := KAnd (KNe RRtbb RRtc) (KNotInTb RRtc RRtbb).
Definition test_B : lcond := KAnd (KNotInTb RRtc RRtbb) (KNe RRtbb RRtc).

Section Inner.
  Variables (c : nat) (t0 : list (list nat)).
  Hypothesis Hc : c < length t0.

  Lemma inner_step_A x j acc fl sn : e_rtc x = Some c ->
    cl_exec (LIf test_A push_body) (eset RRtbb (Some j) x) (pst c t0 acc fl sn)
    = Some (pst c t0 (add_new c acc j) (fl || negb (Nat.eqb j c || memn j acc)) sn).
  Proof.
    intro Hx. unfold pst, test_A, push_body, add_new.
    cbn [cl_exec cl_cond eget eset e_rtc e_rtb e_rtbb q_tb q_changed q_snap]. rewrite Hx.
    rewrite nth_set_nth_eq by exact Hc.
    destruct (Nat.eqb j c); cbn [negb orb]; [now rewrite orb_false_r|].
    destruct (memn j acc); cbn [negb orb]; [now rewrite orb_false_r|].
    cbn [q_tb q_snap].
    unfold upd_nth. rewrite nth_set_nth_eq by exact Hc. rewrite set_nth_set_nth. now rewrite orb_true_r.
  Qed.

  Lemma inner_step_B x j acc fl sn : e_rtc x = Some c ->
    cl_exec (LIf test_B push_body) (eset RRtbb (Some j) x) (pst c t0 acc fl sn)
    = Some (pst c t0 (add_new c acc j) (fl || negb (Nat.eqb j c || memn j acc)) sn).
  Proof.
    intro Hx. unfold pst, test_B, push_body, add_new.
    cbn [cl_exec cl_cond eget eset e_rtc e_rtb e_rtbb q_tb q_changed q_snap]. rewrite Hx.
    rewrite nth_set_nth_eq by exact Hc.
    destruct (memn j acc); cbn [negb orb]; [rewrite orb_true_r; now rewrite orb_false_r|].
    destruct (Nat.eqb j c); cbn [negb orb]; [now rewrite orb_false_r|].
    cbn [q_tb q_snap].
    unfold upd_nth. rewrite nth_set_nth_eq by exact Hc. rewrite set_nth_set_nth. now rewrite orb_true_r.
  Qed.

  (* any statement that behaves like the test-and-push *)
  Variable body : lstmt.
  Hypothesis Hbody : forall x j acc fl sn, e_rtc x = Some c ->
    cl_exec body (eset RRtbb (Some j) x) (pst c t0 acc fl sn)
    = Some (pst c t0 (add_new c acc j) (fl || negb (Nat.eqb j c || memn j acc)) sn).

  Lemma inner_loop x sn : e_rtc x = Some c -> forall l acc fl,
    ofor (fun j s => cl_exec body (eset RRtbb (Some j) x) s) l (pst c t0 acc fl sn)
    = Some (pst c t0 (fold_left (add_new c) l acc) (fl || any_new c l acc) sn).
  Proof.
    intro Hx. induction l as [|j l IH]; intros acc fl; cbn [ofor fold_left any_new]; [now rewrite orb_false_r|].
    rewrite Hbody by exact Hx. rewrite IH. now rewrite orb_assoc.
  Qed.

  (* for (auto rtbb : rtb->transitive_bases) body,  rtb another class than rtc *)
  Lemma middle_step x b acc fl sn : e_rtc x = Some c -> b <> c ->
    cl_exec (LFor RRtbb (LTb RRtb) body) (eset RRtb (Some b) x) (pst c t0 acc fl sn)
    = Some (pst c t0 (fold_left (add_new c) (nth b t0 []) acc) (fl || any_new c (nth b t0 []) acc) sn).
  Proof.
    intros Hx Hb. cbn [cl_exec eget eset e_rtb]. unfold pst at 1. cbn [q_tb].
    rewrite nth_set_nth_neq by auto. fold (pst c t0 acc fl sn).
    apply inner_loop. destruct x; exact Hx.
  Qed.

  Lemma middle_loop x sn : e_rtc x = Some c -> forall bs acc fl, ~ In c bs ->
    ofor (fun b s => cl_exec (LFor RRtbb (LTb RRtb) body) (eset RRtb (Some b) x) s) bs (pst c t0 acc fl sn)
    = Some (pst c t0 (fold_left (add_new c) (flat_map (fun b => nth b t0 []) bs) acc)
                (fl || any_new c (flat_map (fun b => nth b t0 []) bs) acc) sn).
  Proof.
    intro Hx. induction bs as [|b bs IH]; intros acc fl Hnin; cbn [ofor flat_map fold_left any_new]; [now rewrite orb_false_r|].
    rewrite middle_step; [|exact Hx|intros ->; apply Hnin; now left].
    rewrite IH by (intro H; apply Hnin; now right).
    rewrite fold_left_app, any_new_app. now rewrite orb_assoc.
  Qed.
End Inner.

Lemma cl_seq a b x s : cl_exec (LSeq a b) x s = match cl_exec a x s with Some s' => cl_exec b x s' | None => None end.
Proof. reflexivity. Qed.
Lemma cl_snapshot x s c : e_rtc x = Some c -> cl_exec LSnapshot x s = Some (mk_cl (q_tb s) (q_changed s) (nth c (q_tb s) [])).
Proof. intro H. cbn [cl_exec eget]. now rewrite H. Qed.
Lemma cl_for_snap r body x s :
  cl_exec (LFor r LSnap body) x s = ofor (fun i s' => cl_exec body (eset r (Some i) x) s') (q_snap s) s.
Proof. reflexivity. Qed.
Lemma cl_for_classes body x s :
  cl_exec (LForClasses body) x s = ofor (fun i s' => cl_exec body (eset RRtc (Some i) x) s') (seq 0 (length (q_tb s))) s.
Proof. reflexivity. Qed.

(* one class: const auto bases = rtc.transitive_bases; for (auto rtb : bases) for (auto rtbb : rtb->transitive_bases) body *)
Section ClassStep.
  Variable body : lstmt.
  Hypothesis Hbody : forall c t0, c < length t0 -> forall x j acc fl sn, e_rtc x = Some c ->
    cl_exec body (eset RRtbb (Some j) x) (pst c t0 acc fl sn)
    = Some (pst c t0 (add_new c acc j) (fl || negb (Nat.eqb j c || memn j acc)) sn).

  Definition class_body : lstmt := LSeq LSnapshot (LFor RRtb LSnap (LFor RRtbb (LTb RRtb) body)).

  Lemma class_step x c t fl sn0 : c < length t -> ~ In c (tget t c) ->
    cl_exec class_body (eset RRtc (Some c) x) (mk_cl t fl sn0)
    = Some (mk_cl (rstep t c) (fl || (tlen t <? tlen (rstep t c))) (tget t c)).
  Proof.
    intros Hc Hirr. unfold class_body.
    set (x' := eset RRtc (Some c) x).
    assert (Hx' : e_rtc x' = Some c) by (destruct x; reflexivity).
    rewrite cl_seq, (cl_snapshot x' _ c Hx'), cl_for_snap. cbn [q_snap q_tb q_changed].
    replace (mk_cl t fl (nth c t [])) with (pst c t (tget t c) fl (tget t c))
      by (unfold pst, tget; now rewrite set_nth_nth).
    fold (tget t c).
    rewrite (middle_loop c t body (Hbody c t Hc) x' (tget t c) Hx'); [|exact Hirr].
    unfold pst, rstep, step_class. fold (tget t c). f_equal. f_equal. f_equal.
    rewrite any_new_length.
    set (v := fold_left (add_new c) (flat_map (fun b => nth b t []) (tget t c)) (tget t c)).
    pose proof (tlen_set_nth c t v Hc) as E. fold (tget t c) in E.
    destruct (Nat.ltb_spec (length (tget t c)) (length v)); symmetry; [apply Nat.ltb_lt|apply Nat.ltb_ge]; lia.
  Qed.

  Lemma irr_rstep t c : irr t -> irr (rstep t c).
  Proof.
    intros H x Hin. destruct (Nat.eq_dec x c) as [->|Hne].
    - destruct (Nat.lt_ge_cases c (length t)) as [Hlt|Hge].
      + rewrite tget_rstep_eq in Hin by exact Hlt. unfold step_class in Hin.
        apply fold_add_in in Hin. destruct Hin as [Hin|[_ Hne]]; [now apply (H c)|now apply Hne].
      + unfold rstep in Hin. rewrite set_nth_oob in Hin by exact Hge. now apply (H c).
    - rewrite tget_rstep_neq in Hin by exact Hne. now apply (H x).
  Qed.

  Lemma tlen_rstep_le t c : c < length t -> tlen t <= tlen (rstep t c).
  Proof.
    intro Hc. apply tlen_le; [now rewrite length_rstep|]. intro x. apply ext_length. now apply rstep_ext.
  Qed.

  Lemma classes_loop x : forall l t fl sn0, irr t -> (forall c, In c l -> c < length t) ->
    exists sn, ofor (fun i s => cl_exec class_body (eset RRtc (Some i) x) s) l (mk_cl t fl sn0)
               = Some (mk_cl (fold_left rstep l t) (fl || (tlen t <? tlen (fold_left rstep l t))) sn).
  Proof.
    induction l as [|c l IH]; intros t fl sn0 Hirr Hl; cbn [ofor fold_left].
    - exists sn0. now rewrite Nat.ltb_irrefl, orb_false_r.
    - rewrite class_step; [|apply Hl; now left|apply Hirr].
      destruct (IH (rstep t c) (fl || (tlen t <? tlen (rstep t c))) (tget t c)) as [sn E].
      + now apply irr_rstep.
      + intros c' Hc'. rewrite length_rstep. apply Hl. now right.
      + exists sn. rewrite E. f_equal. f_equal.
        pose proof (tlen_rstep_le t c (Hl c (or_introl eq_refl))) as L1.
        assert (L2 : tlen (rstep t c) <= tlen (fold_left rstep l (rstep t c))).
        { apply tlen_le; [now rewrite length_fold_rstep|]. intro y. apply ext_length. apply fold_rstep_ext.
          intros c' Hc'. rewrite length_rstep. apply Hl. now right. }
        rewrite <- orb_assoc. f_equal.
        destruct (Nat.ltb_spec (tlen t) (tlen (rstep t c))); destruct (Nat.ltb_spec (tlen (rstep t c)) (tlen (fold_left rstep l (rstep t c))));
          cbn [orb]; symmetry; first [apply Nat.ltb_lt; lia | apply Nat.ltb_ge; lia].
  Qed.

  Lemma irr_fold_rstep l : forall t, irr t -> irr (fold_left rstep l t).
  Proof. induction l as [|c l IH]; cbn [fold_left]; intros t H; [exact H|]. apply IH. now apply irr_rstep. Qed.

  (* one round of the loop *)
  Lemma round_src tb : irr tb ->
    exists sn, cl_exec (LForClasses class_body) env0 (mk_cl tb false [])
               = Some (mk_cl (closure_round tb) (tlen tb <? tlen (closure_round tb)) sn).
  Proof.
    intro Hirr. rewrite cl_for_classes. cbn [q_tb].
    destruct (classes_loop env0 (seq 0 (length tb)) tb false [] Hirr (fun c => seq_lt _ c)) as [sn E].
    exists sn. rewrite E. now rewrite closure_round_eq.
  Qed.

  (* the flag is the model's comparison *)
  Lemma changed_is_different tb : tb_eqb tb (closure_round tb) = negb (tlen tb <? tlen (closure_round tb)).
  Proof.
    destruct (tb_eqb tb (closure_round tb)) eqn:Eq.
    - apply tb_eqb_eq in Eq. rewrite <- Eq. now rewrite Nat.ltb_irrefl.
    - apply (tb_eqb_false tb) in Eq; [|now rewrite length_closure_round].
      destruct Eq as [c [Hc Hne]].
      assert (Hlt : tlen tb < tlen (closure_round tb)).
      { apply (tlen_lt _ _ c); [now rewrite length_closure_round| |exact Hc|].
        - intro x. apply ext_length, round_ext.
        - pose proof (round_ext tb c) as Hext. pose proof (ext_length _ _ Hext).
          destruct (Nat.eq_dec (length (tget tb c)) (length (tget (closure_round tb) c))) as [E|E]; [|lia].
          exfalso. apply Hne. symmetry. apply ext_same_length; [exact Hext|lia]. }
      apply Nat.ltb_lt in Hlt. now rewrite Hlt.
  Qed.

  Theorem closure_generic : forall fuel tb, irr tb ->
    run_closure fuel (LForClasses class_body) tb = closure fuel tb.
  Proof.
    induction fuel as [|f IH]; intros tb Hirr; cbn [run_closure closure]; [reflexivity|].
    destruct (round_src tb Hirr) as [sn E]. rewrite E. cbn [q_changed q_tb].
    rewrite changed_is_different.
    destruct (tlen tb <? tlen (closure_round tb)) eqn:Lt; cbn [negb].
    - apply IH. rewrite closure_round_eq. now apply irr_fold_rstep.
    - f_equal. pose proof (changed_is_different tb) as D. rewrite Lt in D. cbn [negb] in D.
      apply tb_eqb_eq in D. now symmetry.
  Qed.
End ClassStep.

(* the translated loop is one of the two spellings of the test *)
Theorem src_closure fuel tb : irr tb -> run_closure fuel gen_closure tb = closure fuel tb.
Proof.
  intro Hirr.
  first
    [ change gen_closure with (LForClasses (class_body (LIf test_A push_body)));
      apply closure_generic; [intros c t0 Hc x j acc fl sn Hx; now apply inner_step_A|exact Hirr]
    | change gen_closure with (LForClasses (class_body (LIf test_B push_body)));
      apply closure_generic; [intros c t0 Hc x j acc fl sn Hx; now apply inner_step_B|exact Hirr] ].
Qed.

(* ------------------------------------------------------------------ bases *)

Definition bproj (r : bres) : result (list (list nat)) :=
  match r with BGo s => Ok (v_tb s) | BErr e => Err e | BFault => Err (BadRead 0) end.

Lemma bs_seq look a b cr ti s :
  bs_exec look (LSeq a b) cr ti s = match bs_exec look a cr ti s with BGo s' => bs_exec look b cr ti s' | other => other end.
Proof. reflexivity. Qed.
Lemma bs_lookup_record look r cr ti s :
  bs_exec look (LLookupRecord r) cr ti s = BGo (mk_bs (pset r (pv_of (look (c_tid cr))) (v_env s)) (v_tb s)).
Proof. reflexivity. Qed.
Lemma bs_for_bases look body cr ti s :
  bs_exec look (LForRecordBases body) cr ti s
  = bfor (fun t s' => match bs_exec look body cr (Some t) s' with
                      | BGo s2 => BGo (mk_bs (v_env s') (v_tb s2))
                      | other => other
                      end) (c_bases cr) s.
Proof. reflexivity. Qed.

Section BasesSrc.
  Variables (R : registry) (keys : list N).
  Notation look := (class_of R keys).

  (* what the body of the loop over the listed bases has to do for one base *)
  Definition base_spec (inner : lstmt) : Prop := forall cr t x tb c, p_rtc x = PCls c ->
    bproj (bs_exec look inner cr (Some t) (mk_bs x tb))
    = match class_of R keys t with
      | None => Err (UnknownClass t)
      | Some bi => Ok (if Nat.eqb bi c then tb else upd_nth c tb [] (fun l => l ++ [bi]))
      end.

  Lemma bases_loop inner : base_spec inner -> forall cr0 x c, p_rtc x = PCls c -> forall bases tb,
    bproj (bfor (fun t s' => match bs_exec look inner cr0 (Some t) s' with
                             | BGo s2 => BGo (mk_bs (v_env s') (v_tb s2))
                             | other => other
                             end) bases (mk_bs x tb))
    = add_bases R keys c bases tb.
  Proof.
    intros Hs cr0 x c Hx. induction bases as [|t bases IH]; intro tb; cbn [bfor add_bases]; [reflexivity|].
    specialize (Hs cr0 t x tb c Hx).
    destruct (bs_exec look inner cr0 (Some t) (mk_bs x tb)) as [s2|e|]; cbn [bproj] in Hs.
    - destruct (class_of R keys t) as [bi|]; [|discriminate]. injection Hs as Hs. cbn [v_env]. rewrite Hs. apply IH.
    - destruct (class_of R keys t) as [bi|]; [discriminate|]. exact Hs.
    - destruct (class_of R keys t) as [bi|]; discriminate.
  Qed.

  Lemma record_step inner : base_spec inner -> forall cr c tb, class_of R keys (c_tid cr) = Some c ->
    bproj (bs_exec look (LSeq (LLookupRecord RRtc) (LForRecordBases inner)) cr None (mk_bs penv0 tb))
    = add_bases R keys c (c_bases cr) tb.
  Proof.
    intros Hs cr c tb Hc. rewrite bs_seq, bs_lookup_record, bs_for_bases. rewrite Hc. cbn [v_env v_tb pv_of].
    now apply bases_loop.
  Qed.

  Lemma run_bases_step body cr rest tb :
    run_bases look body (cr :: rest) tb
    = match bproj (bs_exec look body cr None (mk_bs penv0 tb)) with
      | Ok tb' => run_bases look body rest tb'
      | Err e => Err e
      end.
  Proof. cbn [run_bases]. now destruct (bs_exec look body cr None (mk_bs penv0 tb)). Qed.

  Theorem bases_generic inner : base_spec inner -> forall recs tb,
    (forall cr, In cr recs -> class_of R keys (c_tid cr) <> None) ->
    run_bases look (LSeq (LLookupRecord RRtc) (LForRecordBases inner)) recs tb = collect_bases R keys recs tb.
  Proof.
    intros Hs. induction recs as [|cr rest IH]; intros tb Hown; [reflexivity|].
    rewrite run_bases_step. cbn [collect_bases].
    destruct (class_of R keys (c_tid cr)) as [c|] eqn:Hc; [|exfalso; apply (Hown cr); [now left|exact Hc]].
    rewrite (record_step inner Hs cr c tb Hc).
    destruct (add_bases R keys c (c_bases cr) tb) as [tb'|e]; cbn [bind]; [|reflexivity].
    apply IH. intros cr' H. apply Hown. now right.
  Qed.

  (* the translated body *)
  Definition bases_inner : lstmt :=
    match gen_bases with LSeq (LLookupRecord RRtc) (LForRecordBases i) => i | _ => LSkip end.

  Lemma gen_bases_shape : gen_bases = LSeq (LLookupRecord RRtc) (LForRecordBases bases_inner).
  Proof. reflexivity. Qed.

  Lemma bases_inner_spec : base_spec bases_inner.
  Proof.
    intros cr t x tb c Hx. unfold bases_inner, gen_bases.
    cbn [bs_exec bs_cond pget pset p_rtc p_rtb p_rtbb v_env v_tb].
    destruct (class_of R keys t) as [bi|]; cbn [pv_of pv_null bproj]; [|reflexivity].
    rewrite Hx. unfold pv_ne. cbn [p_rtc p_rtb p_rtbb v_env v_tb]. rewrite ?(Nat.eqb_sym c bi).
    destruct (Nat.eqb bi c); cbn [negb bs_exec pget pset p_rtc p_rtb p_rtbb v_env v_tb bproj]; [reflexivity|].
    reflexivity.
  Qed.

  Theorem src_bases recs tb : (forall cr, In cr recs -> class_of R keys (c_tid cr) <> None) ->
    run_bases look gen_bases recs tb = collect_bases R keys recs tb.
  Proof. rewrite gen_bases_shape. apply bases_generic. exact bases_inner_spec. Qed.
End BasesSrc.

(* ------------------------------------------------------------------ collect *)

Lemma dedupN_In l : forall seen x, In x (dedupN l seen) <-> In x l /\ ~ In x seen.
Proof.
  induction l as [|a l IH]; cbn [dedupN In]; intros seen x; [tauto|].
  destruct (memN a seen) eqn:Ea.
  - apply memN_In in Ea. rewrite IH. split; [tauto|]. intros [[->|H] Hn]; tauto.
  - apply memN_false in Ea. cbn [In]. rewrite IH. cbn [In]. split.
    + intros [->|[H Hn]]; tauto.
    + intros [[->|H] Hn]; [tauto|]. destruct (N.eq_dec a x); [tauto|]. right. tauto.
Qed.

Lemma memN_dedupN x l : memN x (dedupN l []) = memN x l.
Proof.
  destruct (memN x l) eqn:E.
  - apply memN_In. apply dedupN_In. apply memN_In in E. split; [exact E|intros []].
  - apply memN_false. apply memN_false in E. rewrite dedupN_In. tauto.
Qed.

Lemma dedupN_snoc l : forall seen x,
  dedupN (l ++ [x]) seen = dedupN l seen ++ (if memN x seen || memN x l then [] else [x]).
Proof.
  induction l as [|y l IH]; intros seen x; cbn [app dedupN].
  - change (memN x []) with false. rewrite orb_false_r. now destruct (memN x seen).
  - destruct (memN y seen) eqn:Ey.
    + rewrite IH. f_equal. change (memN x (y :: l)) with (N.eqb x y || memN x l).
      destruct (N.eqb_spec x y) as [->|Hne]; [now rewrite Ey|reflexivity].
    + cbn [app]. f_equal. rewrite IH. f_equal. change (memN x (y :: seen)) with (N.eqb x y || memN x seen).
      change (memN x (y :: l)) with (N.eqb x y || memN x l).
      destruct (N.eqb x y), (memN x seen), (memN x l); reflexivity.
Qed.

Lemma index_ofN_snoc k' k l :
  index_ofN k' (l ++ [k]) = match index_ofN k' l with
                            | Some i => Some i
                            | None => if N.eqb k' k then Some (length l) else None
                            end.
Proof.
  induction l as [|x l IH]; cbn [app index_ofN length].
  - now destruct (N.eqb k' k).
  - destruct (N.eqb k' x); [reflexivity|]. rewrite IH.
    destruct (index_ofN k' l); [reflexivity|]. now destruct (N.eqb k' k).
Qed.

Lemma index_ofN_None k l : index_ofN k l = None -> ~ In k l.
Proof. intros E H. destruct (index_ofN_In k l H) as [i Hi]. congruence. Qed.

Lemma upd_nth_last {A} (l : list A) a d f : upd_nth (length l) (l ++ [a]) d f = l ++ [f a].
Proof.
  unfold upd_nth. rewrite app_nth2 by lia. rewrite Nat.sub_diag. cbn [nth].
  induction l as [|x l IH]; cbn [app length set_nth]; [reflexivity|]. now rewrite IH.
Qed.

Lemma nth_snoc_last {A} (l : list A) a d : nth (length l) (l ++ [a]) d = a.
Proof. rewrite app_nth2 by lia. now rewrite Nat.sub_diag. Qed.

Lemma map_change_one {B} (f g : N -> B) : forall keys i k, NoDup keys -> i < length keys -> nth i keys 0%N = k ->
  (forall k', k' <> k -> g k' = f k') -> map g keys = set_nth i (map f keys) (g k).
Proof.
  induction keys as [|x keys IH]; intros i k Hnd Hi Hk Hsame; cbn [length] in Hi; [lia|].
  inversion Hnd as [|? ? Hx Hnd']; subst. destruct i as [|i]; cbn [nth map set_nth].
  - f_equal. apply map_ext_in. intros k' Hin. apply Hsame. intros ->. now apply Hx.
  - f_equal.
    + apply Hsame. intro E. cbn [nth] in E. apply Hx. rewrite E. apply nth_In. lia.
    + apply IH; [assumption|lia|reflexivity|exact Hsame].
Qed.

Section CollectSrc.
  Variable R : registry.
  Notation key := (proj R).

  Definition add_key (acc : list N) (cr : class_rec) : list N :=
    let k := key (c_tid cr) in if memN k acc then acc else acc ++ [k].
  Definition keys_of (P : list class_rec) : list N := fold_left add_key P [].
  Definition recs_of (P : list class_rec) (k : N) : list class_rec := filter (fun cr => N.eqb (key (c_tid cr)) k) P.
  Definition info_of (P : list class_rec) (k : N) : cls :=
    mk_cls (dedupN (map c_tid (recs_of P k)) []) (match recs_of P k with r :: _ => c_abstract r | [] => false end).

  Lemma class_keys_of : class_keys R = keys_of (r_classes R).
  Proof. reflexivity. Qed.
  Lemma class_infos_of keys : class_infos R keys = map (info_of (r_classes R)) keys.
  Proof. reflexivity. Qed.

  Lemma keys_of_snoc P cr : keys_of (P ++ [cr]) = add_key (keys_of P) cr.
  Proof. unfold keys_of. now rewrite fold_left_app. Qed.
  Lemma keys_of_NoDup P : NoDup (keys_of P).
  Proof. unfold keys_of. apply (keys_fold_NoDup (fun cr => key (c_tid cr))). constructor. Qed.
  Lemma keys_of_In P k : In k (keys_of P) <-> exists r, In r P /\ key (c_tid r) = k.
  Proof. unfold keys_of. rewrite (keys_fold_In (fun cr => key (c_tid cr))). cbn [In]. tauto. Qed.

  Lemma recs_of_snoc P cr k :
    recs_of (P ++ [cr]) k = recs_of P k ++ (if N.eqb (key (c_tid cr)) k then [cr] else []).
  Proof. unfold recs_of. rewrite filter_app. cbn [filter]. now destruct (N.eqb (key (c_tid cr)) k). Qed.

  Lemma recs_of_nil P k : ~ In k (keys_of P) -> recs_of P k = [].
  Proof.
    intro H. unfold recs_of. induction P as [|r P IH]; cbn [filter]; [reflexivity|].
    destruct (N.eqb_spec (key (c_tid r)) k) as [E|E].
    - exfalso. apply H. apply keys_of_In. exists r. split; [now left|exact E].
    - apply IH. intro Hin. apply H. apply keys_of_In. apply keys_of_In in Hin. destruct Hin as [r' [H1 H2]].
      exists r'. split; [now right|exact H2].
  Qed.

  Lemma recs_of_nonempty P k : In k (keys_of P) -> recs_of P k <> [].
  Proof.
    intro H. apply keys_of_In in H. destruct H as [r [H1 H2]]. unfold recs_of. intro E.
    assert (Hin : In r (filter (fun cr => N.eqb (key (c_tid cr)) k) P)).
    { apply filter_In. split; [exact H1|now apply N.eqb_eq]. }
    rewrite E in Hin. exact Hin.
  Qed.

  Lemma info_of_other P cr k' : key (c_tid cr) <> k' -> info_of (P ++ [cr]) k' = info_of P k'.
  Proof.
    intro H. unfold info_of. rewrite recs_of_snoc. apply N.eqb_neq in H. rewrite H. now rewrite app_nil_r.
  Qed.

  Lemma info_of_new P cr : ~ In (key (c_tid cr)) (keys_of P) ->
    info_of (P ++ [cr]) (key (c_tid cr)) = mk_cls [c_tid cr] (c_abstract cr).
  Proof.
    intro H. unfold info_of. rewrite recs_of_snoc, (recs_of_nil P _ H), N.eqb_refl. reflexivity.
  Qed.

  Lemma info_of_again P cr : In (key (c_tid cr)) (keys_of P) ->
    info_of (P ++ [cr]) (key (c_tid cr))
    = mk_cls (k_tids (info_of P (key (c_tid cr)))
              ++ (if memN (c_tid cr) (k_tids (info_of P (key (c_tid cr)))) then [] else [c_tid cr]))
             (k_abstract (info_of P (key (c_tid cr)))).
  Proof.
    intro H. unfold info_of. rewrite recs_of_snoc, N.eqb_refl. cbn [k_tids k_abstract].
    rewrite map_app. cbn [map]. rewrite dedupN_snoc. cbn [orb]. rewrite memN_dedupN.
    unfold memN at 1. cbn [existsb orb]. fold (memN (c_tid cr) (map c_tid (recs_of P (key (c_tid cr))))).
    f_equal. pose proof (recs_of_nonempty P _ H) as Hne.
    destruct (recs_of P (key (c_tid cr))) as [|r rs]; [congruence|reflexivity].
  Qed.

  Definition co_inv (P : list class_rec) (m : list (N * nat)) (infos : list cls) : Prop :=
    infos = map (info_of P) (keys_of P) /\ forall k, assocN k m = index_ofN k (keys_of P).

  (* what the body of the loop has to do with one record *)
  Definition collect_spec (body : lstmt) : Prop := forall P cr m infos, co_inv P m infos ->
    exists s, co_exec key body cr (mk_co penv0 m infos) = Some s /\ co_inv (P ++ [cr]) (o_map s) (o_infos s).

  Lemma collect_generic body : collect_spec body -> forall recs P m infos, co_inv P m infos ->
    exists m' infos', run_collect key body recs m infos = Some (m', infos') /\ co_inv (P ++ recs) m' infos'.
  Proof.
    intro Hs. induction recs as [|cr recs IH]; intros P m infos Hinv; cbn [run_collect].
    - exists m, infos. now rewrite app_nil_r.
    - destruct (Hs P cr m infos Hinv) as [s [E Hinv']]. rewrite E.
      destruct (IH (P ++ [cr]) (o_map s) (o_infos s) Hinv') as [m' [infos' [E' H']]].
      exists m', infos'. split; [exact E'|]. now rewrite <- app_assoc in H'.
  Qed.

  Lemma gen_collect_spec : collect_spec gen_collect.
  Proof.
    intros P cr m infos [Hi Hm]. unfold gen_collect.
    assert (Hlen : length infos = length (keys_of P)) by (rewrite Hi; apply map_length).
    cbn [co_exec co_cond pget pset p_rtc p_rtb p_rtbb o_env o_map o_infos]. rewrite Hm.
    destruct (index_ofN (key (c_tid cr)) (keys_of P)) as [i|] eqn:E; cbn [pv_of pv_null].
    - (* a class seen before *)
      destruct (index_ofN_Some _ _ _ E) as [Hi1 Hi2].
      assert (Hin : In (key (c_tid cr)) (keys_of P)) by (rewrite <- Hi2; now apply nth_In).
      assert (Hk : keys_of (P ++ [cr]) = keys_of P).
      { rewrite keys_of_snoc. unfold add_key. cbv zeta. apply memN_In in Hin. now rewrite Hin. }
      cbn [co_exec co_cond pget pset p_rtc p_rtb p_rtbb o_env o_map o_infos].
      assert (Hlt : (i <? length infos) = true) by (apply Nat.ltb_lt; lia). rewrite Hlt.
      assert (Hnth : nth i infos cls0 = info_of P (key (c_tid cr))).
      { rewrite Hi. rewrite (nth_map_lt (info_of P) _ i 0%N cls0) by exact Hi1. now rewrite Hi2. }
      rewrite Hnth.
      assert (Hnew : map (info_of (P ++ [cr])) (keys_of P)
                     = set_nth i (map (info_of P) (keys_of P)) (info_of (P ++ [cr]) (key (c_tid cr)))).
      { apply map_change_one; [apply keys_of_NoDup|exact Hi1|exact Hi2|].
        intros k' Hk'. apply info_of_other. auto. }
      rewrite (info_of_again P cr Hin) in Hnew.
      destruct (memN (c_tid cr) (k_tids (info_of P (key (c_tid cr))))) eqn:Em; cbn [negb].
      + eexists. split; [reflexivity|]. cbn [o_map o_infos]. split; [|intro k; now rewrite Hk].
        rewrite Hk, Hnew, app_nil_r, <- Hi, <- Hnth.
        replace (mk_cls (k_tids (nth i infos cls0)) (k_abstract (nth i infos cls0))) with (nth i infos cls0)
          by (destruct (nth i infos cls0) as [ti ab]; reflexivity).
        symmetry. apply set_nth_nth.
      + cbn [co_exec p_rtc o_env o_infos o_map]. rewrite ?Hlt.
        eexists. split; [reflexivity|]. cbn [o_map o_infos]. split; [|intro k; now rewrite Hk].
        rewrite Hk, Hnew, <- Hi. unfold upd_nth. now rewrite Hnth.
    - (* a new class *)
      pose proof (index_ofN_None _ _ E) as Hnin.
      assert (Hk : keys_of (P ++ [cr]) = keys_of P ++ [key (c_tid cr)]).
      { rewrite keys_of_snoc. unfold add_key. cbv zeta. apply memN_false in Hnin. now rewrite Hnin. }
      assert (Hlt : forall a, (length infos <? length (infos ++ [a])) = true)
        by (intro a; rewrite app_length; cbn [length]; apply Nat.ltb_lt; lia).
      repeat (cbn [co_exec co_cond pget pset p_rtc p_rtb p_rtbb o_env o_map o_infos pv_null cls0 k_tids k_abstract negb app];
              rewrite ?Hlt, ?upd_nth_last, ?nth_snoc_last; change (memN (c_tid cr) []) with false).
      eexists. split; [reflexivity|]. cbn [o_map o_infos]. split.
      + rewrite Hk, map_app. cbn [map]. rewrite (info_of_new P cr Hnin). f_equal.
        rewrite Hi. apply map_ext_in. intros k' Hk'. symmetry. apply info_of_other. intro E0. apply Hnin. now rewrite E0.
      + intro k. rewrite Hk, index_ofN_snoc. cbn [assocN]. rewrite Hm, Hlen.
        destruct (index_ofN k (keys_of P)) as [j|] eqn:Ej.
        * destruct (N.eqb_spec k (key (c_tid cr))) as [->|Hne]; [congruence|reflexivity].
        * reflexivity.
  Qed.

  Theorem src_collect :
    exists m, run_collect key gen_collect (r_classes R) [] [] = Some (m, class_infos R (class_keys R))
              /\ forall t, assocN (proj R t) m = class_of R (class_keys R) t.
  Proof.
    destruct (collect_generic gen_collect gen_collect_spec (r_classes R) [] [] []) as [m [infos [E [Hi Hm]]]].
    - split; [reflexivity|]. intro k. reflexivity.
    - cbn [app] in Hi, Hm. exists m. rewrite class_infos_of, class_keys_of, <- Hi. split; [exact E|].
      intro t. apply Hm.
  Qed.
End CollectSrc.

(* ------------------------------------------------------------------ the three stages together *)

Lemma irr_repeat n : irr (repeat [] n).
Proof. intros c H. unfold tget in H. rewrite nth_repeat_nil in H. exact H. Qed.

Lemma add_bases_irr R keys c : forall bases tb tb', irr tb -> add_bases R keys c bases tb = Ok tb' -> irr tb'.
Proof.
  induction bases as [|b bases IH]; intros tb tb' Hirr E; cbn [add_bases] in E; [now inversion E; subst|].
  destruct (class_of R keys b) as [bi|]; [|discriminate].
  apply (IH _ _) in E; [exact E|]. intros x.
  destruct (Nat.eqb bi c) eqn:Eb; [apply Hirr|]. apply Nat.eqb_neq in Eb.
  intro Hin. unfold tget, upd_nth in Hin.
  destruct (Nat.eq_dec x c) as [->|Hx].
  - destruct (Nat.lt_ge_cases c (length tb)) as [Hlt|Hge].
    + rewrite nth_set_nth_eq in Hin by exact Hlt. apply in_app_or in Hin. destruct Hin as [Hin|[Hin|[]]]; [now apply (Hirr c)|auto].
    + rewrite set_nth_oob in Hin by exact Hge. now apply (Hirr c).
  - rewrite nth_set_nth_neq in Hin by auto. now apply (Hirr x).
Qed.

Lemma collect_bases_irr R keys : forall recs tb tb', irr tb -> collect_bases R keys recs tb = Ok tb' -> irr tb'.
Proof.
  induction recs as [|cr recs IH]; intros tb tb' Hirr E; cbn [collect_bases] in E; [now inversion E; subst|].
  destruct (class_of R keys (c_tid cr)) as [c|]; [|discriminate].
  destruct (add_bases R keys c (c_bases cr) tb) as [tb1|e] eqn:E1; cbn [bind] in E; [|discriminate].
  apply (IH tb1 tb'); [|exact E]. now apply (add_bases_irr R keys c (c_bases cr) tb).
Qed.

Lemma own_class_found R cr : In cr (r_classes R) -> class_of R (class_keys R) (c_tid cr) <> None.
Proof.
  intros Hin E. unfold class_of in E. apply index_ofN_None in E. apply E.
  rewrite class_keys_of. apply keys_of_In. exists cr. split; [exact Hin|reflexivity].
Qed.

(* collect, then the listed bases, then the closure, as update runs them *)
Theorem src_lattice_front R :
  let keys := class_keys R in
  let n := length keys in
  (exists m, run_collect (proj R) gen_collect (r_classes R) [] [] = Some (m, class_infos R keys)
             /\ forall t, assocN (proj R t) m = class_of R keys t) /\
  match run_bases (class_of R keys) gen_bases (r_classes R) (repeat [] n) with
  | Ok tb0 => collect_bases R keys (r_classes R) (repeat [] n) = Ok tb0 /\
              run_closure (S (n * n)) gen_closure tb0 = closure (S (n * n)) tb0
  | Err e => collect_bases R keys (r_classes R) (repeat [] n) = Err e
  end.
Proof.
  intros keys n. split; [apply src_collect|].
  rewrite (src_bases R keys (r_classes R) (repeat [] n)) by (intros cr H; now apply own_class_found).
  destruct (collect_bases R keys (r_classes R) (repeat [] n)) as [tb0|e] eqn:E; [|reflexivity].
  split; [reflexivity|]. apply src_closure. apply (collect_bases_irr R keys _ _ _ (irr_repeat n) E).
Qed.

(* ------------------------------------------------------------------ derived *)

Definition with_der (s : mk_st) (d : list (list nat)) : mk_st :=
  mk_mk (m_tb s) (m_dir s) d (m_marks s) (m_weight s) (m_cmark s) (m_mark s) (m_local s).

Lemma with_der_der s d : m_der (with_der s d) = d.
Proof. reflexivity. Qed.
Lemma with_der_twice s d1 d2 : with_der (with_der s d1) d2 = with_der s d2.
Proof. reflexivity. Qed.
Lemma with_der_self s : with_der s (m_der s) = s.
Proof. now destruct s as [s1 s2 s3 s4 s5 s6 s7 s8]. Qed.

Definition push_der (c : nat) (d : list (list nat)) (b : nat) : list (list nat) := upd_nth b d [] (fun l => l ++ [c]).

Lemma der_inner x c : e_rtc x = Some c -> forall l s,
  ofor (fun i s' => mk_exec (LPushDer RRtb RRtc) (eset RRtb (Some i) x) s') l s
  = Some (with_der s (fold_left (push_der c) l (m_der s))).
Proof.
  intro Hx. induction l as [|b l IH]; intro s; cbn [ofor fold_left]; [now rewrite with_der_self|].
  assert (E : mk_exec (LPushDer RRtb RRtc) (eset RRtb (Some b) x) s = Some (with_der s (push_der c (m_der s) b))).
  { cbn [mk_exec eget eset e_rtb]. replace (e_rtc (mk_env (e_rtc x) (Some b) (e_rtbb x))) with (Some c) by (symmetry; exact Hx). reflexivity. }
  rewrite E, IH. now rewrite with_der_twice, with_der_der.
Qed.

Lemma mk_for_dir r o body x s k : eget o x = Some k ->
  mk_exec (LFor r (LDir o) body) x s = ofor (fun i s' => mk_exec body (eset r (Some i) x) s') (nth k (m_dir s) []) s.
Proof. intro H. cbn [mk_exec]. now rewrite H. Qed.
Lemma mk_for_tb r o body x s k : eget o x = Some k ->
  mk_exec (LFor r (LTb o) body) x s = ofor (fun i s' => mk_exec body (eset r (Some i) x) s') (nth k (m_tb s) []) s.
Proof. intro H. cbn [mk_exec]. now rewrite H. Qed.
Lemma mk_for_classes body x s :
  mk_exec (LForClasses body) x s = ofor (fun i s' => mk_exec body (eset RRtc (Some i) x) s') (seq 0 (length (m_tb s))) s.
Proof. reflexivity. Qed.
Lemma mk_seq a b x s : mk_exec (LSeq a b) x s = match mk_exec a x s with Some s' => mk_exec b x s' | None => None end.
Proof. reflexivity. Qed.

Definition der_class (dir : list (list nat)) (d : list (list nat)) (c : nat) : list (list nat) :=
  fold_left (push_der c) (nth c dir []) d.

Lemma der_outer x : forall cs s,
  ofor (fun i s' => mk_exec (LFor RRtb (LDir RRtc) (LPushDer RRtb RRtc)) (eset RRtc (Some i) x) s') cs s
  = Some (with_der s (fold_left (der_class (m_dir s)) cs (m_der s))).
Proof.
  induction cs as [|c cs IH]; intro s; cbn [ofor fold_left]; [now rewrite with_der_self|].
  rewrite (mk_for_dir RRtb RRtc _ (eset RRtc (Some c) x) s c) by (destruct x; reflexivity).
  rewrite (der_inner (eset RRtc (Some c) x) c) by (destruct x; reflexivity).
  rewrite IH. now rewrite with_der_twice.
Qed.

(* the pure part: appending c to the list of every direct base of c, for c = 0, 1, ..., is the model's filter *)
Lemma length_push_der c d b : length (push_der c d b) = length d.
Proof. apply length_upd_nth. Qed.
Lemma length_fold_push c l : forall d, length (fold_left (push_der c) l d) = length d.
Proof. induction l as [|b l IH]; intro d; cbn [fold_left]; [reflexivity|]. now rewrite IH, length_push_der. Qed.

Lemma nth_fold_push c : forall l d b, NoDup l -> (forall y, In y l -> y < length d) ->
  nth b (fold_left (push_der c) l d) [] = nth b d [] ++ (if memn b l then [c] else []).
Proof.
  induction l as [|y l IH]; intros d b Hnd Hlt; cbn [fold_left]; [cbn; now rewrite app_nil_r|].
  inversion Hnd as [|? ? Hy Hnd']; subst.
  rewrite IH; [|exact Hnd'|intros z Hz; rewrite length_push_der; apply Hlt; now right].
  change (memn b (y :: l)) with (Nat.eqb b y || memn b l).
  unfold push_der at 1. destruct (Nat.eqb_spec b y) as [->|Hne]; cbn [orb].
  - rewrite nth_upd_nth_eq by (apply Hlt; now left).
    assert (Hm : memn y l = false) by now apply memn_false. rewrite Hm. now rewrite app_nil_r.
  - rewrite nth_upd_nth_neq by auto. reflexivity.
Qed.

Lemma derived_fold (dir : list (list nat)) n : length dir = n ->
  (forall c, NoDup (nth c dir [])) -> (forall c b, In b (nth c dir []) -> b < n) ->
  forall k d, length d = n -> (forall b, b < n -> nth b d [] = filter (fun c => memn b (nth c dir [])) (seq 0 0)) ->
  forall b, b < n ->
  nth b (fold_left (der_class dir) (seq 0 k) d) [] = filter (fun c => memn b (nth c dir [])) (seq 0 k)
  /\ length (fold_left (der_class dir) (seq 0 k) d) = n.
Proof.
  intros Hlen Hnd Hlt. induction k as [|k IH]; intros d Hd H0 b Hb.
  - cbn [seq fold_left]. split; [now apply H0|exact Hd].
  - rewrite seq_S, fold_left_app. cbn [fold_left plus]. destruct (IH d Hd H0 b Hb) as [E1 E2].
    set (X := fold_left (der_class dir) (seq 0 k) d) in *.
    change (der_class dir X k) with (fold_left (push_der k) (nth k dir []) X).
    rewrite length_fold_push. split; [|exact E2].
    rewrite nth_fold_push; [|apply Hnd|intros y Hy; rewrite E2; now apply (Hlt k)].
    rewrite E1, filter_app. cbn [filter]. now destruct (memn b (nth k dir [])).
Qed.

Lemma length_fold_der_class dir : forall cs d, length (fold_left (der_class dir) cs d) = length d.
Proof.
  induction cs as [|c cs IH]; intro d; cbn [fold_left]; [reflexivity|]. rewrite IH. unfold der_class. apply length_fold_push.
Qed.

Lemma derived_fold_all (dir : list (list nat)) n : length dir = n ->
  (forall c, NoDup (nth c dir [])) -> (forall c b, In b (nth c dir []) -> b < n) ->
  fold_left (der_class dir) (seq 0 n) (repeat [] n) = map (derived_of dir) (seq 0 n).
Proof.
  intros Hlen Hnd Hlt. apply (nth_ext _ _ [] []).
  - now rewrite length_fold_der_class, repeat_length, map_length, seq_length.
  - intros b Hb. rewrite length_fold_der_class, repeat_length in Hb.
    destruct (derived_fold dir n Hlen Hnd Hlt n (repeat [] n)) with (b := b) as [E _].
    + apply repeat_length.
    + intros b' _. now rewrite nth_repeat_nil.
    + exact Hb.
    + rewrite E. rewrite (nth_map_seq (derived_of dir) n b []) by exact Hb. unfold derived_of. now rewrite Hlen.
Qed.

Theorem src_derived s n : length (m_tb s) = n -> length (m_dir s) = n -> m_der s = repeat [] n ->
  (forall c, NoDup (nth c (m_dir s) [])) -> (forall c b, In b (nth c (m_dir s) []) -> b < n) ->
  exists s', mk_exec gen_derived env0 s = Some s' /\ m_der s' = map (derived_of (m_dir s)) (seq 0 n) /\ s' = with_der s (m_der s').
Proof.
  intros Htb Hdir Hder Hnd Hlt. unfold gen_derived. rewrite mk_for_classes, der_outer, Htb.
  eexists. split; [reflexivity|]. split; [|reflexivity]. rewrite with_der_der, Hder.
  now apply derived_fold_all.
Qed.

(* ------------------------------------------------------------------ dedup *)

Definition mark_all (M : nat) (l : list nat) (marks : list nat) : list nat := fold_left (fun m y => set_nth y m M) l marks.

Lemma set_nth_same {A} (d : A) c (l : list A) v : nth c l d = v -> set_nth c l v = l.
Proof. intros <-. apply set_nth_nth. Qed.

Lemma length_mark_all M l : forall marks, length (mark_all M l marks) = length marks.
Proof. induction l as [|y l IH]; intro marks; cbn [mark_all fold_left]; [reflexivity|]. fold (mark_all M l (set_nth y marks M)). now rewrite IH, length_set_nth. Qed.

Lemma nth_mark_all M l : forall marks k, nth k (mark_all M l marks) 0 = nth k marks 0 \/ nth k (mark_all M l marks) 0 = M.
Proof.
  induction l as [|y l IH]; intros marks k; cbn [mark_all fold_left]; [now left|]. fold (mark_all M l (set_nth y marks M)).
  destruct (IH (set_nth y marks M) k) as [E|E]; [|now right]. rewrite E.
  destruct (Nat.eq_dec y k) as [->|Hne].
  - destruct (Nat.lt_ge_cases k (length marks)) as [Hlt|Hge]; [right; now apply nth_set_nth_eq|left; now rewrite set_nth_oob].
  - left. now apply nth_set_nth_neq.
Qed.

Definition dd (l : list nat) : list nat := dedupn l [].
Definition marks_ok (n : nat) (marks : list nat) (cm : nat) : Prop := length marks = n /\ forall k, nth k marks 0 <= cm.

(* what the test-and-push of the loop, and the statements after the loop, have to do - whatever their spelling *)
Definition dd_body_spec (body : lstmt) : Prop := forall x y tb dir der marks w cm M loc, y < length marks ->
  mk_exec body (eset RRtb (Some y) x) (mk_mk tb dir der marks w cm M loc)
  = if Nat.eqb (nth y marks 0) M then Some (mk_mk tb dir der marks w cm M loc)
    else Some (mk_mk tb dir der (set_nth y marks M) w cm M (loc ++ [y])).
Definition dd_tail_spec (tail : lstmt) : Prop := forall x c tb dir der marks w cm M l, e_rtc x = Some c -> c < length tb ->
  exists loc', mk_exec tail x (mk_mk tb dir der marks w cm M l)
               = Some (mk_mk (set_nth c tb l) dir der marks (set_nth c w (length l)) cm M loc').

Section DedupGeneric.
  Variables body tail : lstmt.
  Hypothesis Hbody : dd_body_spec body.
  Hypothesis Htail : dd_tail_spec tail.

  Lemma dd_inner x : forall l tb dir der marks w cm M loc seen,
    (forall y, In y l -> y < length marks) ->
    (forall k, k < length marks -> (nth k marks 0 = M <-> In k seen)) ->
    ofor (fun i s' => mk_exec body (eset RRtb (Some i) x) s') l (mk_mk tb dir der marks w cm M loc)
    = Some (mk_mk tb dir der (mark_all M l marks) w cm M (loc ++ dedupn l seen)).
  Proof.
    induction l as [|y l IH]; intros tb dir der marks w cm M loc seen Hlt Hseen; cbn [ofor mark_all fold_left dedupn].
    - now rewrite app_nil_r.
    - fold (mark_all M l (set_nth y marks M)).
      assert (Hy : y < length marks) by (apply Hlt; now left).
      rewrite (Hbody x y tb dir der marks w cm M loc Hy).
      destruct (Nat.eqb_spec (nth y marks 0) M) as [E|E].
      + assert (Hm : memn y seen = true) by (apply memn_In; now apply (Hseen y Hy)). rewrite Hm.
        rewrite (set_nth_same 0 y marks M E).
        apply IH; [intros z Hz; apply Hlt; now right|exact Hseen].
      + assert (Hm : memn y seen = false) by (apply memn_false; intro Hin; apply E; now apply (Hseen y Hy)). rewrite Hm.
        rewrite (IH tb dir der (set_nth y marks M) w cm M (loc ++ [y]) (y :: seen)).
        * now rewrite <- app_assoc.
        * intros z Hz. rewrite length_set_nth. apply Hlt. now right.
        * intros k Hk. rewrite length_set_nth in Hk. cbn [In]. destruct (Nat.eq_dec y k) as [->|Hne].
          -- rewrite nth_set_nth_eq by exact Hk. split; [now left|reflexivity].
          -- rewrite nth_set_nth_neq by exact Hne. rewrite (Hseen k Hk). split; [now right|intros [H|H]; [contradiction|exact H]].
  Qed.

  Definition dd_class_body : lstmt := LSeq LClearLocal (LSeq LNewMark (LSeq (LFor RRtb (LTb RRtc) body) tail)).

  Lemma dd_class x c tb dir der marks w cm M loc n : marks_ok n marks cm -> c < length tb -> (forall y, In y (nth c tb []) -> y < n) ->
    exists marks' loc',
      mk_exec dd_class_body (eset RRtc (Some c) x) (mk_mk tb dir der marks w cm M loc)
      = Some (mk_mk (set_nth c tb (dd (nth c tb []))) dir der marks' (set_nth c w (length (dd (nth c tb [])))) (S cm) (S cm) loc')
      /\ marks_ok n marks' (S cm).
  Proof.
    intros [Hlen Hle] Hct Hwf. unfold dd_class_body.
    assert (Hc : e_rtc (eset RRtc (Some c) x) = Some c) by (destruct x; reflexivity).
    remember (LFor RRtb (LTb RRtc) body) as B eqn:HB. remember tail as T eqn:HT.
    cbn [mk_exec m_tb m_dir m_der m_marks m_weight m_cmark m_mark m_local]. subst B.
    rewrite (mk_for_tb RRtb RRtc body _ _ c) by exact Hc. cbn [m_tb].
    rewrite (dd_inner _ (nth c tb []) tb dir der marks w (S cm) (S cm) [] []).
    - cbn [app]. subst T.
      destruct (Htail (eset RRtc (Some c) x) c tb dir der (mark_all (S cm) (nth c tb []) marks) w (S cm) (S cm) (dedupn (nth c tb []) []) Hc Hct)
        as [loc' E]. rewrite E.
      eexists. eexists. split; [reflexivity|]. split; [now rewrite length_mark_all|].
      intro k. destruct (nth_mark_all (S cm) (nth c tb []) marks k) as [E'|E']; rewrite E'; [specialize (Hle k); lia|lia].
    - intros y Hy. rewrite Hlen. now apply Hwf.
    - intros k _. cbn [In]. specialize (Hle k). split; [lia|tauto].
  Qed.
End DedupGeneric.

(* the spellings met so far *)
Lemma dd_body_push_then_mark : dd_body_spec (LIf (KMarkNe RRtb) (LSeq (LPushLocal RRtb) (LSetMark RRtb))).
Proof.
  intros x y tb dir der marks w cm M loc Hy. cbn [mk_exec mk_cond eget eset e_rtb m_marks m_mark].
  destruct (Nat.eqb (nth y marks 0) M); cbn [negb]; [reflexivity|].
  cbn [mk_exec eget eset e_rtb m_marks m_mark m_tb m_dir m_der m_weight m_cmark m_local].
  apply Nat.ltb_lt in Hy. now rewrite Hy.
Qed.
Lemma dd_body_mark_then_push : dd_body_spec (LIf (KMarkNe RRtb) (LSeq (LSetMark RRtb) (LPushLocal RRtb))).
Proof.
  intros x y tb dir der marks w cm M loc Hy. cbn [mk_exec mk_cond eget eset e_rtb m_marks m_mark].
  destruct (Nat.eqb (nth y marks 0) M); cbn [negb]; [reflexivity|].
  cbn [mk_exec eget eset e_rtb m_marks m_mark m_tb m_dir m_der m_weight m_cmark m_local].
  apply Nat.ltb_lt in Hy. rewrite Hy. cbn [mk_exec eget eset e_rtb m_marks m_mark m_tb m_dir m_der m_weight m_cmark m_local]. reflexivity.
Qed.
Lemma dd_tail_weight_then_swap : dd_tail_spec (LSeq LSetWeightLocal LSwapTbLocal).
Proof.
  intros x c tb dir der marks w cm M l Hc Hct. cbn [mk_exec eget]. rewrite Hc.
  cbn [mk_exec eget m_tb m_dir m_der m_marks m_weight m_cmark m_mark m_local]. rewrite ?Hc. eexists. reflexivity.
Qed.
Lemma dd_tail_swap_then_weight : dd_tail_spec (LSeq LSwapTbLocal LSetWeightTb).
Proof.
  intros x c tb dir der marks w cm M l Hc Hct. cbn [mk_exec eget]. rewrite Hc.
  cbn [mk_exec eget m_tb m_dir m_der m_marks m_weight m_cmark m_mark m_local]. rewrite ?Hc.
  cbn [m_tb m_dir m_der m_marks m_weight m_cmark m_mark m_local]. rewrite nth_set_nth_eq by exact Hct. eexists. reflexivity.
Qed.

Definition dd_step (p : list (list nat) * list nat) (c : nat) : list (list nat) * list nat :=
  (set_nth c (fst p) (dd (nth c (fst p) [])), set_nth c (snd p) (length (dd (nth c (fst p) [])))).

Lemma dd_In l x : In x (dd l) -> In x l.
Proof. unfold dd. rewrite dedupn_In. tauto. Qed.

Lemma dd_step_wf n p c : (forall c' y, In y (nth c' (fst p) []) -> y < n) ->
  forall c' y, In y (nth c' (fst (dd_step p c)) []) -> y < n.
Proof.
  intros H c' y Hin. unfold dd_step in Hin. cbn [fst] in Hin.
  destruct (Nat.eq_dec c c') as [->|Hne].
  - destruct (Nat.lt_ge_cases c' (length (fst p))) as [Hlt|Hge].
    + rewrite nth_set_nth_eq in Hin by exact Hlt. apply dd_In in Hin. now apply (H c').
    + rewrite set_nth_oob in Hin by exact Hge. now apply (H c').
  - rewrite nth_set_nth_neq in Hin by exact Hne. now apply (H c').
Qed.

Lemma dd_outer body tail x n : dd_body_spec body -> dd_tail_spec tail ->
  forall cs tb dir der marks w cm M loc, marks_ok n marks cm -> (forall c, In c cs -> c < length tb) ->
  (forall c y, In y (nth c tb []) -> y < n) ->
  exists marks' cm' M' loc',
    ofor (fun i s' => mk_exec (dd_class_body body tail) (eset RRtc (Some i) x) s') cs (mk_mk tb dir der marks w cm M loc)
    = Some (mk_mk (fst (fold_left dd_step cs (tb, w))) dir der marks' (snd (fold_left dd_step cs (tb, w))) cm' M' loc')
    /\ marks_ok n marks' cm'.
Proof.
  intros Hb Ht. induction cs as [|c cs IH]; intros tb dir der marks w cm M loc Hok Hcs Hwf; cbn [ofor fold_left].
  - exists marks, cm, M, loc. split; [reflexivity|exact Hok].
  - destruct (dd_class body tail Hb Ht x c tb dir der marks w cm M loc n Hok (Hcs c (or_introl eq_refl)) (Hwf c)) as [marks1 [loc1 [E Hok1]]]. rewrite E.
    destruct (IH (set_nth c tb (dd (nth c tb []))) dir der marks1 (set_nth c w (length (dd (nth c tb [])))) (S cm) (S cm) loc1 Hok1)
      as [marks' [cm' [M' [loc' [E' Hok']]]]].
    + intros c' H. rewrite length_set_nth. apply Hcs. now right.
    + apply (dd_step_wf n (tb, w) c). exact Hwf.
    + exists marks', cm', M', loc'. split; [exact E'|exact Hok'].
Qed.

Lemma set_nth_app_mid {A} (pre : list A) x suf v : set_nth (length pre) (pre ++ x :: suf) v = pre ++ v :: suf.
Proof. induction pre as [|a pre IH]; cbn [length app set_nth]; [reflexivity|]. now rewrite IH. Qed.

Lemma nth_app_mid {A} (pre : list A) x suf d : nth (length pre) (pre ++ x :: suf) d = x.
Proof. rewrite app_nth2 by lia. now rewrite Nat.sub_diag. Qed.

Lemma dd_fold : forall suf pre wsuf wpre, length wsuf = length suf -> length wpre = length pre ->
  fold_left dd_step (seq (length pre) (length suf)) (pre ++ suf, wpre ++ wsuf)
  = (pre ++ map dd suf, wpre ++ map (fun l => length (dd l)) suf).
Proof.
  induction suf as [|x suf IH]; intros pre wsuf wpre Hw Hp.
  - destruct wsuf; [|cbn in Hw; lia]. reflexivity.
  - destruct wsuf as [|v wsuf]; [cbn in Hw; lia|]. cbn [length seq fold_left map].
    unfold dd_step at 2. cbn [fst snd]. rewrite nth_app_mid, set_nth_app_mid.
    rewrite <- Hp at 2. rewrite set_nth_app_mid.
    replace (pre ++ dd x :: suf) with ((pre ++ [dd x]) ++ suf) by (now rewrite <- app_assoc).
    replace (wpre ++ length (dd x) :: wsuf) with ((wpre ++ [length (dd x)]) ++ wsuf) by (now rewrite <- app_assoc).
    replace (S (length pre)) with (length (pre ++ [dd x])) by (rewrite app_length; cbn; lia).
    rewrite IH; [|cbn in Hw; lia|rewrite !app_length; cbn; lia].
    now rewrite <- !app_assoc.
Qed.

Theorem dedup_loop_generic body tail tb dir der marks w cm M loc n : dd_body_spec body -> dd_tail_spec tail ->
  length tb = n -> length w = n -> marks_ok n marks cm -> (forall c y, In y (nth c tb []) -> y < n) ->
  exists marks' cm' M' loc',
    mk_exec (LForClasses (dd_class_body body tail)) env0 (mk_mk tb dir der marks w cm M loc)
    = Some (mk_mk (map dd tb) dir der marks' (map (fun l => length (dd l)) tb) cm' M' loc')
    /\ marks_ok n marks' cm'.
Proof.
  intros Hb Ht Htb Hw Hok Hwf. rewrite mk_for_classes. cbn [m_tb].
  destruct (dd_outer body tail env0 n Hb Ht (seq 0 (length tb)) tb dir der marks w cm M loc Hok) as [marks' [cm' [M' [loc' [E Hok']]]]].
  - intros c Hc. apply in_seq in Hc. lia.
  - exact Hwf.
  - exists marks', cm', M', loc'. split; [|exact Hok']. rewrite E.
    pose proof (dd_fold tb [] w [] ltac:(lia) eq_refl) as F. cbn [app length] in F. rewrite F. reflexivity.
Qed.

(* with `std::size_t mark = ++class_mark;` in front of the loop, or without *)
Theorem dedup_generic (pre : bool) body tail tb dir der marks w cm M loc n : dd_body_spec body -> dd_tail_spec tail ->
  length tb = n -> length w = n -> marks_ok n marks cm -> (forall c y, In y (nth c tb []) -> y < n) ->
  exists marks' cm' M' loc',
    mk_exec (LSeq (if pre then LNewMark else LSkip) (LForClasses (dd_class_body body tail))) env0 (mk_mk tb dir der marks w cm M loc)
    = Some (mk_mk (map dd tb) dir der marks' (map (fun l => length (dd l)) tb) cm' M' loc')
    /\ marks_ok n marks' cm'.
Proof.
  intros Hb Ht Htb Hw [Hlen Hle] Hwf. rewrite mk_seq. destruct pre; cbn [mk_exec m_tb m_dir m_der m_marks m_weight m_cmark m_mark m_local].
  - apply (dedup_loop_generic body tail tb dir der marks w (S cm) (S cm) loc n Hb Ht Htb Hw); [|exact Hwf].
    split; [exact Hlen|]. intro k. specialize (Hle k). lia.
  - apply (dedup_loop_generic body tail tb dir der marks w cm M loc n Hb Ht Htb Hw); [|exact Hwf]. now split.
Qed.

(* the translated loop is one of the spellings *)
Ltac dedup_spelling pre body hb tail ht :=
  change gen_dedup with (LSeq (if pre then LNewMark else LSkip) (LForClasses (dd_class_body body tail)));
  apply (dedup_generic pre body tail); [exact hb|exact ht].

Theorem src_dedup tb dir der marks w cm M loc n :
  length tb = n -> length w = n -> marks_ok n marks cm -> (forall c y, In y (nth c tb []) -> y < n) ->
  exists marks' cm' M' loc',
    mk_exec gen_dedup env0 (mk_mk tb dir der marks w cm M loc)
    = Some (mk_mk (map dd tb) dir der marks' (map (fun l => length (dd l)) tb) cm' M' loc')
    /\ marks_ok n marks' cm'.
Proof.
  pose (b1 := LIf (KMarkNe RRtb) (LSeq (LPushLocal RRtb) (LSetMark RRtb))).
  pose (b2 := LIf (KMarkNe RRtb) (LSeq (LSetMark RRtb) (LPushLocal RRtb))).
  pose (t1 := LSeq LSetWeightLocal LSwapTbLocal).
  pose (t2 := LSeq LSwapTbLocal LSetWeightTb).
  first
    [ dedup_spelling true b1 dd_body_push_then_mark t1 dd_tail_weight_then_swap
    | dedup_spelling true b2 dd_body_mark_then_push t1 dd_tail_weight_then_swap
    | dedup_spelling true b1 dd_body_push_then_mark t2 dd_tail_swap_then_weight
    | dedup_spelling true b2 dd_body_mark_then_push t2 dd_tail_swap_then_weight
    | dedup_spelling false b1 dd_body_push_then_mark t1 dd_tail_weight_then_swap
    | dedup_spelling false b2 dd_body_mark_then_push t1 dd_tail_weight_then_swap
    | dedup_spelling false b1 dd_body_push_then_mark t2 dd_tail_swap_then_weight
    | dedup_spelling false b2 dd_body_mark_then_push t2 dd_tail_swap_then_weight ].
Qed.

(* ------------------------------------------------------------------ direct *)

Lemma mark_all_iff M : forall l marks k, (forall y, In y l -> y < length marks) -> k < length marks ->
  (nth k (mark_all M l marks) 0 = M <-> nth k marks 0 = M \/ In k l).
Proof.
  induction l as [|y l IH]; intros marks k Hlt Hk; cbn [mark_all fold_left In]; [tauto|].
  fold (mark_all M l (set_nth y marks M)).
  rewrite IH; [|intros z Hz; rewrite length_set_nth; apply Hlt; now right|now rewrite length_set_nth].
  destruct (Nat.eq_dec y k) as [->|Hne].
  - rewrite nth_set_nth_eq by exact Hk. tauto.
  - rewrite nth_set_nth_neq by exact Hne. split; [intros [H|H]; tauto|intros [H|[H|H]]; [tauto|contradiction|tauto]].
Qed.

Definition with_marks (s : mk_st) (marks : list nat) : mk_st :=
  mk_mk (m_tb s) (m_dir s) (m_der s) marks (m_weight s) (m_cmark s) (m_mark s) (m_local s).

Lemma setmark_loop x : forall l tb dir der marks w cm M loc, (forall y, In y l -> y < length marks) ->
  ofor (fun i s' => mk_exec (LSetMark RRtbb) (eset RRtbb (Some i) x) s') l (mk_mk tb dir der marks w cm M loc)
  = Some (mk_mk tb dir der (mark_all M l marks) w cm M loc).
Proof.
  induction l as [|y l IH]; intros tb dir der marks w cm M loc Hlt; cbn [ofor mark_all fold_left]; [reflexivity|].
  fold (mark_all M l (set_nth y marks M)).
  assert (E : mk_exec (LSetMark RRtbb) (eset RRtbb (Some y) x) (mk_mk tb dir der marks w cm M loc)
              = Some (mk_mk tb dir der (set_nth y marks M) w cm M loc)).
  { cbn [mk_exec eget eset e_rtbb m_marks m_mark m_tb m_dir m_der m_weight m_cmark m_local].
    assert (Hy : (y <? length marks) = true) by (apply Nat.ltb_lt; apply Hlt; now left). now rewrite Hy. }
  rewrite E. apply IH. intros z Hz. rewrite length_set_nth. apply Hlt. now right.
Qed.

(* the marking pass of the model, from any starting point *)
Definition dstep (t : list (list nat)) (p : list nat * list nat) (b : nat) : list nat * list nat :=
  if memn b (snd p) then p else (fst p ++ [b], snd p ++ nth b t []).
Lemma direct_of_fold t l : direct_of t l = fst (fold_left (dstep t) l ([], [])).
Proof.
  unfold direct_of. f_equal. generalize (@nil nat, @nil nat).
  induction l as [|b l IH]; intros [d m]; cbn [fold_left]; [reflexivity|].
  rewrite IH. f_equal.
Qed.

Definition dir_body : lstmt := LIf (KMarkNe RRtb) (LSeq (LPushDir RRtc RRtb) (LFor RRtbb (LTb RRtb) (LSetMark RRtbb))).

Section DirInner.
  Variables (n c : nat) (t : list (list nat)) (dir0 der : list (list nat)) (w : list nat) (cm M : nat) (loc : list nat).
  Hypothesis Hc : c < length dir0.
  Hypothesis Hwf : forall b y, In y (nth b t []) -> y < n.

  Lemma dir_inner x : e_rtc x = Some c -> forall l dcur marks marked,
    length marks = n -> (forall b, In b l -> b < n) ->
    (forall k, k < n -> (nth k marks 0 = M <-> In k marked)) ->
    exists marks',
      ofor (fun i s' => mk_exec dir_body (eset RRtb (Some i) x) s') l (mk_mk t (set_nth c dir0 dcur) der marks w cm M loc)
      = Some (mk_mk t (set_nth c dir0 (fst (fold_left (dstep t) l (dcur, marked)))) der marks' w cm M loc)
      /\ length marks' = n
      /\ (forall k, nth k marks' 0 = nth k marks 0 \/ nth k marks' 0 = M).
  Proof.
    intro Hx. induction l as [|b l IH]; intros dcur marks marked Hlen Hl Hinv; cbn [ofor fold_left].
    - exists marks. split; [reflexivity|]. split; [exact Hlen|]. intro k. now left.
    - assert (Hb : b < n) by (apply Hl; now left).
      assert (Estep : mk_exec dir_body (eset RRtb (Some b) x) (mk_mk t (set_nth c dir0 dcur) der marks w cm M loc)
                      = if Nat.eqb (nth b marks 0) M then Some (mk_mk t (set_nth c dir0 dcur) der marks w cm M loc)
                        else Some (mk_mk t (set_nth c dir0 (dcur ++ [b])) der (mark_all M (nth b t []) marks) w cm M loc)).
      { unfold dir_body. remember (LFor RRtbb (LTb RRtb) (LSetMark RRtbb)) as B eqn:HB.
        cbn [mk_exec mk_cond eget eset e_rtb m_marks m_mark].
        destruct (Nat.eqb (nth b marks 0) M); cbn [negb]; [reflexivity|].
        cbn [mk_exec eget eset e_rtb e_rtc m_tb m_dir m_der m_marks m_weight m_cmark m_mark m_local]. rewrite Hx. subst B.
        rewrite (mk_for_tb RRtbb RRtb _ _ _ b) by reflexivity. cbn [m_tb].
        unfold upd_nth. rewrite nth_set_nth_eq by exact Hc. rewrite set_nth_set_nth.
        apply setmark_loop. intros y Hy. rewrite Hlen. now apply (Hwf b). }
      rewrite Estep. unfold dstep at 2. cbn [fst snd].
      destruct (Nat.eqb_spec (nth b marks 0) M) as [E|E].
      + assert (Hm : memn b marked = true) by (apply memn_In; now apply (Hinv b Hb)). rewrite Hm.
        apply IH; [exact Hlen|intros z Hz; apply Hl; now right|exact Hinv].
      + assert (Hm : memn b marked = false) by (apply memn_false; intro Hin; apply E; now apply (Hinv b Hb)). rewrite Hm.
        destruct (IH (dcur ++ [b]) (mark_all M (nth b t []) marks) (marked ++ nth b t [])) as [marks' [E' [L' K']]].
        * now rewrite length_mark_all.
        * intros z Hz. apply Hl. now right.
        * intros k Hk. rewrite mark_all_iff; [|intros y Hy; rewrite Hlen; now apply (Hwf b)|now rewrite Hlen].
          rewrite (Hinv k Hk), in_app_iff. tauto.
        * exists marks'. split; [exact E'|]. split; [exact L'|]. intro k.
          destruct (K' k) as [H|H]; [|now right]. rewrite H. apply nth_mark_all.
  Qed.
End DirInner.

Definition sortw (W : list nat) (l : list nat) : list nat := sort_by_weight (fun k => nth k W 0) l.
Definition dir_class_body : lstmt := LSeq LSortTbByWeight (LSeq LNewMark (LFor RRtb (LTb RRtc) dir_body)).

Definition dcl_step (W : list nat) (p : list (list nat) * list (list nat)) (c : nat) : list (list nat) * list (list nat) :=
  let t' := set_nth c (fst p) (sortw W (nth c (fst p) [])) in
  (t', set_nth c (snd p) (fst (fold_left (dstep t') (nth c t' []) (nth c (snd p) [], [])))).

Lemma dir_class x c n t dir der marks W cm M loc : length t = n -> length dir = n -> c < n -> marks_ok n marks cm ->
  (forall b y, In y (nth b t []) -> y < n) ->
  exists marks',
    mk_exec dir_class_body (eset RRtc (Some c) x) (mk_mk t dir der marks W cm M loc)
    = Some (mk_mk (fst (dcl_step W (t, dir) c)) (snd (dcl_step W (t, dir) c)) der marks' W (S cm) (S cm) loc)
    /\ marks_ok n marks' (S cm).
Proof.
  intros Ht Hd Hc [Hlen Hle] Hwf. unfold dir_class_body.
  assert (Hx : e_rtc (eset RRtc (Some c) x) = Some c) by (destruct x; reflexivity).
  remember (LFor RRtb (LTb RRtc) dir_body) as B eqn:HB.
  cbn [mk_exec eget]. rewrite Hx. cbn [mk_exec m_tb m_dir m_der m_marks m_weight m_cmark m_mark m_local]. subst B.
  rewrite (mk_for_tb RRtb RRtc dir_body _ _ c) by exact Hx. cbn [m_tb].
  unfold weight_of. cbn [m_weight]. fold (sortw W (nth c t [])).
  set (t' := set_nth c t (sortw W (nth c t []))).
  assert (Hwf' : forall b y, In y (nth b t' []) -> y < n).
  { intros b y Hin. unfold t' in Hin. destruct (Nat.eq_dec c b) as [->|Hne].
    - rewrite nth_set_nth_eq in Hin by lia. unfold sortw in Hin. apply sort_by_weight_In in Hin. now apply (Hwf b).
    - rewrite nth_set_nth_neq in Hin by exact Hne. now apply (Hwf b). }
  destruct (dir_inner n c t' dir der W (S cm) (S cm) loc ltac:(lia) Hwf' (eset RRtc (Some c) x) Hx
                      (nth c t' []) (nth c dir []) marks []) as [marks' [E [L K]]].
  - exact Hlen.
  - intros b Hb. now apply (Hwf' c).
  - intros k _. cbn [In]. specialize (Hle k). split; [lia|tauto].
  - rewrite (set_nth_nth [] c dir) in E.
    exists marks'. split; [exact E|]. split; [exact L|]. intro k. destruct (K k) as [H|H]; rewrite H; [specialize (Hle k); lia|lia].
Qed.

Lemma length_dcl_step W p c : length (fst (dcl_step W p c)) = length (fst p) /\ length (snd (dcl_step W p c)) = length (snd p).
Proof. unfold dcl_step. cbn [fst snd]. now rewrite !length_set_nth. Qed.

Lemma dcl_step_wf W n p c : (forall b y, In y (nth b (fst p) []) -> y < n) ->
  forall b y, In y (nth b (fst (dcl_step W p c)) []) -> y < n.
Proof.
  intros H b y Hin. unfold dcl_step in Hin. cbn [fst] in Hin. destruct (Nat.eq_dec c b) as [->|Hne].
  - destruct (Nat.lt_ge_cases b (length (fst p))) as [Hlt|Hge].
    + rewrite nth_set_nth_eq in Hin by exact Hlt. unfold sortw in Hin. apply sort_by_weight_In in Hin. now apply (H b).
    + rewrite set_nth_oob in Hin by exact Hge. now apply (H b).
  - rewrite nth_set_nth_neq in Hin by exact Hne. now apply (H b).
Qed.

Lemma dir_outer x n W der : forall cs t dir marks cm M loc, length t = n -> length dir = n -> (forall c, In c cs -> c < n) ->
  marks_ok n marks cm -> (forall b y, In y (nth b t []) -> y < n) ->
  exists marks' cm' M',
    ofor (fun i s' => mk_exec dir_class_body (eset RRtc (Some i) x) s') cs (mk_mk t dir der marks W cm M loc)
    = Some (mk_mk (fst (fold_left (dcl_step W) cs (t, dir))) (snd (fold_left (dcl_step W) cs (t, dir))) der marks' W cm' M' loc)
    /\ marks_ok n marks' cm'.
Proof.
  induction cs as [|c cs IH]; intros t dir marks cm M loc Ht Hd Hcs Hok Hwf; cbn [ofor fold_left].
  - exists marks, cm, M. split; [reflexivity|exact Hok].
  - destruct (dir_class x c n t dir der marks W cm M loc Ht Hd (Hcs c (or_introl eq_refl)) Hok Hwf) as [marks1 [E Hok1]]. rewrite E.
    destruct (length_dcl_step W (t, dir) c) as [L1 L2]. cbn [fst snd] in L1, L2.
    destruct (IH (fst (dcl_step W (t, dir) c)) (snd (dcl_step W (t, dir) c)) marks1 (S cm) (S cm) loc) as [marks' [cm' [M' [E' Hok']]]].
    + now rewrite L1.
    + now rewrite L2.
    + intros c' H. apply Hcs. now right.
    + exact Hok1.
    + apply (dcl_step_wf W n (t, dir) c). exact Hwf.
    + exists marks', cm', M'. split; [|exact Hok'].
      rewrite E'. now destruct (dcl_step W (t, dir) c).
Qed.

(* the pure part of the direct stage *)
Definition mem_eq (t1 t2 : list (list nat)) : Prop := forall b y, In y (nth b t1 []) <-> In y (nth b t2 []).

Lemma memn_iff x l1 l2 : (forall y, In y l1 <-> In y l2) -> memn x l1 = memn x l2.
Proof.
  intro H. destruct (memn x l2) eqn:E.
  - apply memn_In. apply H. now apply memn_In.
  - apply memn_false. apply memn_false in E. intro Hin. apply E. now apply H.
Qed.

Lemma dfold_ext t1 t2 : mem_eq t1 t2 -> forall l d m1 m2, (forall y, In y m1 <-> In y m2) ->
  fst (fold_left (dstep t1) l (d, m1)) = fst (fold_left (dstep t2) l (d, m2)).
Proof.
  intro Hm. induction l as [|b l IH]; intros d m1 m2 H; cbn [fold_left]; [reflexivity|].
  unfold dstep at 2 4. cbn [fst snd]. rewrite (memn_iff b m1 m2 H).
  destruct (memn b m2); [now apply IH|].
  apply IH. intro y. rewrite !in_app_iff, (H y), (Hm b y). tauto.
Qed.

Lemma sort_by_weight_ext f g l : (forall k, f k = g k) -> sort_by_weight f l = sort_by_weight g l.
Proof.
  intro H. unfold sort_by_weight. induction l as [|x l IH]; cbn [fold_right]; [reflexivity|]. rewrite IH.
  generalize (fold_right (insert_by g) [] l). intro acc. induction acc as [|y acc IHa]; cbn [insert_by]; [reflexivity|].
  rewrite !H, IHa. reflexivity.
Qed.

Lemma nth_map_length (t : list (list nat)) k : nth k (map (@length nat) t) 0 = length (nth k t []).
Proof.
  destruct (Nat.lt_ge_cases k (length t)) as [Hlt|Hge].
  - now apply nth_map_lt.
  - rewrite !nth_overflow; [reflexivity|exact Hge|now rewrite map_length].
Qed.

Section DirectPure.
  Variables (n : nat) (W : list nat) (tb2 : list (list nat)).
  Hypothesis Hlen : length tb2 = n.

  Definition dinv (k : nat) (p : list (list nat) * list (list nat)) : Prop :=
    length (fst p) = n /\ length (snd p) = n /\
    (forall c, c < k -> c < n -> nth c (fst p) [] = sortw W (nth c tb2 []) /\ nth c (snd p) [] = direct_of tb2 (sortw W (nth c tb2 []))) /\
    (forall c, k <= c -> nth c (fst p) [] = nth c tb2 [] /\ nth c (snd p) [] = []).

  Lemma dinv_mem_eq k p : dinv k p -> mem_eq (fst p) tb2.
  Proof.
    intros [L1 [L2 [Hlo Hhi]]] b y. destruct (Nat.lt_ge_cases b k) as [Hb|Hb].
    - destruct (Nat.lt_ge_cases b n) as [Hbn|Hbn].
      + destruct (Hlo b Hb Hbn) as [E _]. rewrite E. unfold sortw. apply sort_by_weight_In.
      + rewrite !nth_overflow by lia. tauto.
    - destruct (Hhi b Hb) as [E _]. now rewrite E.
  Qed.

  Lemma dinv_step k p : dinv k p -> k < n -> dinv (S k) (dcl_step W p k).
  Proof.
    intros Hinv Hk. pose proof (dinv_mem_eq k p Hinv) as Hme. destruct Hinv as [L1 [L2 [Hlo Hhi]]].
    destruct (Hhi k (Nat.le_refl k)) as [Ek Dk].
    unfold dcl_step. cbn [fst snd].
    set (t' := set_nth k (fst p) (sortw W (nth k (fst p) []))).
    assert (Ht' : nth k t' [] = sortw W (nth k tb2 [])) by (unfold t'; rewrite nth_set_nth_eq by lia; now rewrite Ek).
    assert (Hme' : mem_eq t' tb2).
    { intros b y. unfold t'. destruct (Nat.eq_dec k b) as [<-|Hne].
      - rewrite nth_set_nth_eq by lia. rewrite Ek. unfold sortw. apply sort_by_weight_In.
      - rewrite nth_set_nth_neq by exact Hne. apply Hme. }
    unfold dinv. cbn [fst snd].
    split; [unfold t'; now rewrite length_set_nth|]. split; [now rewrite length_set_nth|]. split.
    - intros c Hc Hcn. destruct (Nat.eq_dec c k) as [->|Hne].
      + split; [exact Ht'|].
        rewrite nth_set_nth_eq by lia. rewrite Ht', Dk, direct_of_fold.
        apply dfold_ext; [exact Hme'|tauto].
      + unfold t'. rewrite !nth_set_nth_neq by auto. apply Hlo; lia.
    - intros c Hc. unfold t'. rewrite !nth_set_nth_neq by lia. apply Hhi. lia.
  Qed.

  Lemma dinv_fold : forall k, k <= n -> dinv k (fold_left (dcl_step W) (seq 0 k) (tb2, repeat [] n)).
  Proof.
    induction k as [|k IH]; intro Hk.
    - cbn [seq fold_left]. unfold dinv. cbn [fst snd]. split; [exact Hlen|]. split; [apply repeat_length|]. split.
      + intros c Hc. lia.
      + intros c _. split; [reflexivity|apply nth_repeat_nil].
    - rewrite seq_S, fold_left_app. cbn [fold_left plus]. apply dinv_step; [apply IH; lia|lia].
  Qed.

  Theorem direct_fold_all :
    fold_left (dcl_step W) (seq 0 n) (tb2, repeat [] n)
    = (map (sortw W) tb2, map (fun l => direct_of tb2 (sortw W l)) tb2).
  Proof.
    destruct (dinv_fold n (Nat.le_refl n)) as [L1 [L2 [Hlo _]]].
    destruct (fold_left (dcl_step W) (seq 0 n) (tb2, repeat [] n)) as [t d]. cbn [fst snd] in *. f_equal.
    - apply (nth_ext _ _ [] []); [now rewrite map_length, L1|]. intros c Hc. rewrite L1 in Hc.
      destruct (Hlo c Hc Hc) as [E _]. rewrite E. symmetry. apply (nth_map_lt (sortw W) tb2 c [] []). lia.
    - apply (nth_ext _ _ [] []); [now rewrite map_length, L2|]. intros c Hc. rewrite L2 in Hc.
      destruct (Hlo c Hc Hc) as [_ E]. rewrite E. symmetry.
      apply (nth_map_lt (fun l => direct_of tb2 (sortw W l)) tb2 c [] []). lia.
  Qed.
End DirectPure.

Theorem src_direct tb2 der marks W cm M loc n :
  length tb2 = n -> marks_ok n marks cm -> (forall b y, In y (nth b tb2 []) -> y < n) ->
  exists marks' cm' M',
    mk_exec gen_direct env0 (mk_mk tb2 (repeat [] n) der marks W cm M loc)
    = Some (mk_mk (map (sortw W) tb2) (map (fun l => direct_of tb2 (sortw W l)) tb2) der marks' W cm' M' loc)
    /\ marks_ok n marks' cm'.
Proof.
  intros Hlen Hok Hwf. change gen_direct with (LForClasses dir_class_body). rewrite mk_for_classes. cbn [m_tb].
  destruct (dir_outer env0 n W der (seq 0 (length tb2)) tb2 (repeat [] n) marks cm M loc Hlen (repeat_length _ _)) as [marks' [cm' [M' [E Hok']]]].
  - intros c Hc. apply in_seq in Hc. lia.
  - exact Hok.
  - exact Hwf.
  - exists marks', cm', M'. split; [|exact Hok']. rewrite E, Hlen. now rewrite (direct_fold_all n W tb2 Hlen).
Qed.

(* ------------------------------------------------------------------ dedup, direct, derived together *)

Lemma dfold_sub t : forall l d m x, In x (fst (fold_left (dstep t) l (d, m))) -> In x d \/ In x l.
Proof.
  induction l as [|b l IH]; intros d m x H; cbn [fold_left] in H; [now left|].
  unfold dstep at 2 in H. cbn [fst snd] in H. destruct (memn b m).
  - destruct (IH d m x H); [now left|right; now right].
  - destruct (IH (d ++ [b]) _ x H) as [H'|H']; [|right; now right].
    apply in_app_or in H'. destruct H' as [H'|[->|[]]]; [now left|right; now left].
Qed.

Lemma NoDup_app_snoc (d : list nat) b : NoDup d -> ~ In b d -> NoDup (d ++ [b]).
Proof.
  intros Hd Hb. induction Hd as [|x d Hx Hd IH]; cbn [app]; [constructor; [intros []|constructor]|].
  constructor.
  - intro Hin. apply in_app_or in Hin. destruct Hin as [Hin|[->|[]]]; [now apply Hx|apply Hb; now left].
  - apply IH. intro Hin. apply Hb. now right.
Qed.

Lemma dfold_NoDup t : forall l d m, NoDup l -> NoDup d -> (forall x, In x d -> ~ In x l) ->
  NoDup (fst (fold_left (dstep t) l (d, m))).
Proof.
  induction l as [|b l IH]; intros d m Hl Hd Hdis; cbn [fold_left]; [exact Hd|].
  inversion Hl as [|? ? Hb Hl']; subst. unfold dstep at 2. cbn [fst snd]. destruct (memn b m).
  - apply IH; [exact Hl'|exact Hd|]. intros x Hx Hin. apply (Hdis x Hx). now right.
  - apply IH; [exact Hl'| |].
    + apply NoDup_app_snoc; [exact Hd|]. intro Hin. apply (Hdis b Hin). now left.
    + intros x Hx Hin. apply in_app_or in Hx. destruct Hx as [Hx|[->|[]]]; [apply (Hdis x Hx); now right|now apply Hb].
Qed.

Theorem src_lattice_back tb1 n marks W0 cm M loc :
  length tb1 = n -> length W0 = n -> marks_ok n marks cm -> (forall c y, In y (nth c tb1 []) -> y < n) ->
  let tb2 := map (fun l => dedupn l []) tb1 in
  let w := fun c => length (nth c tb2 []) in
  let tb3 := map (sort_by_weight w) tb2 in
  let direct := map (direct_of tb2) tb3 in
  let derived := map (derived_of direct) (seq 0 n) in
  exists s1 s2 s3,
    mk_exec gen_dedup env0 (mk_mk tb1 (repeat [] n) (repeat [] n) marks W0 cm M loc) = Some s1 /\
    mk_exec gen_direct env0 s1 = Some s2 /\
    mk_exec gen_derived env0 s2 = Some s3 /\
    m_tb s3 = tb3 /\ m_dir s3 = direct /\ m_der s3 = derived.
Proof.
  intros Htb HW Hok Hwf tb2 w tb3 direct derived.
  destruct (src_dedup tb1 (repeat [] n) (repeat [] n) marks W0 cm M loc n Htb HW Hok Hwf) as [marks1 [cm1 [M1 [loc1 [E1 Hok1]]]]].
  fold (map dd tb1) in E1. change (map dd tb1) with tb2 in E1.
  set (W := map (fun l => length (dd l)) tb1) in E1.
  assert (Htb2 : length tb2 = n) by (unfold tb2; now rewrite map_length).
  assert (Hwf2 : forall b y, In y (nth b tb2 []) -> y < n).
  { intros b y Hin. unfold tb2 in Hin. destruct (Nat.lt_ge_cases b (length tb1)) as [Hb|Hb].
    - rewrite (nth_map_lt (fun l => dedupn l []) tb1 b [] []) in Hin by exact Hb. apply dedupn_In in Hin. now apply (Hwf b).
    - rewrite nth_overflow in Hin by (now rewrite map_length). contradiction. }
  destruct (src_direct tb2 (repeat [] n) marks1 W cm1 M1 loc1 n Htb2 Hok1 Hwf2) as [marks2 [cm2 [M2 [E2 Hok2]]]].
  assert (HWw : forall k, nth k W 0 = w k).
  { intro k. unfold W, w, tb2. rewrite <- nth_map_length, map_map. reflexivity. }
  assert (Hsort : forall l, sortw W l = sort_by_weight w l) by (intro l; unfold sortw; now apply sort_by_weight_ext).
  assert (Et : map (sortw W) tb2 = tb3) by (unfold tb3; apply map_ext; exact Hsort).
  assert (Ed : map (fun l => direct_of tb2 (sortw W l)) tb2 = direct).
  { unfold direct, tb3. rewrite map_map. apply map_ext. intro l. now rewrite Hsort. }
  rewrite Et, Ed in E2.
  set (s2 := mk_mk tb3 direct (repeat [] n) marks2 W cm2 M2 loc1) in E2.
  assert (Hnd : forall c, NoDup (nth c direct [])).
  { intro c. unfold direct. destruct (Nat.lt_ge_cases c (length tb3)) as [Hc|Hc].
    - rewrite (nth_map_lt (direct_of tb2) tb3 c [] []) by exact Hc. rewrite direct_of_fold.
      apply dfold_NoDup; [|constructor|intros x []].
      unfold tb3. rewrite (nth_map_lt (sort_by_weight w) tb2 c [] []) by (unfold tb3 in Hc; now rewrite map_length in Hc).
      apply sort_by_weight_NoDup. unfold tb2.
      destruct (Nat.lt_ge_cases c (length tb1)) as [Hc1|Hc1].
      + rewrite (nth_map_lt (fun l => dedupn l []) tb1 c [] []) by exact Hc1. apply dedupn_NoDup.
      + rewrite nth_overflow by (now rewrite map_length). constructor.
    - rewrite nth_overflow by (now rewrite map_length). constructor. }
  assert (Hlt : forall c b, In b (nth c direct []) -> b < n).
  { intros c b Hin. unfold direct in Hin. destruct (Nat.lt_ge_cases c (length tb3)) as [Hc|Hc].
    - rewrite (nth_map_lt (direct_of tb2) tb3 c [] []) in Hin by exact Hc. rewrite direct_of_fold in Hin.
      apply dfold_sub in Hin. destruct Hin as [[]|Hin].
      unfold tb3 in Hin. rewrite (nth_map_lt (sort_by_weight w) tb2 c [] []) in Hin by (unfold tb3 in Hc; now rewrite map_length in Hc).
      apply sort_by_weight_In in Hin. now apply (Hwf2 c).
    - rewrite nth_overflow in Hin by (now rewrite map_length). contradiction. }
  destruct (src_derived s2 n) as [s3 [E3 [D3 S3]]].
  - unfold s2. cbn [m_tb]. unfold tb3. now rewrite map_length.
  - unfold s2. cbn [m_dir]. unfold direct, tb3. now rewrite !map_length.
  - reflexivity.
  - exact Hnd.
  - exact Hlt.
  - eexists. exists s2, s3. split; [exact E1|]. split; [exact E2|]. split; [exact E3|].
    rewrite S3. cbn [with_der m_tb m_dir m_der]. repeat split. exact D3.
Qed.
