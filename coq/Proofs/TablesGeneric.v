(* TablesGeneric.v — generic facts used by TablesProofs.v: lists, products, the mixed-radix index of a
   recursively built table (from notes/spikes/TableIndexSpike.v, here with Forall2 bounds and an In
   characterisation), index_ofN, insert_mask.  Nothing about the lattice here. *)
From Coq Require Import List Arith NArith Lia Bool Sorting.Sorted.
From Y2 Require Import Model.Registry Model.Compile.
Import ListNotations.
Local Open Scope nat_scope.

(* ------------------------------------------------------------------ small list facts *)

Lemma tg_memn_In x l : memn x l = true <-> In x l.
Proof.
  unfold memn. rewrite existsb_exists. split.
  - intros [y [H E]]. apply Nat.eqb_eq in E. now subst.
  - intro H. exists x. split; [assumption|apply Nat.eqb_refl].
Qed.

Lemma tg_bool_eq_iff (a b : bool) : (a = true <-> b = true) -> a = b.
Proof. destruct a, b; intros [H1 H2]; auto; symmetry; auto. Qed.

Lemma tg_find_ext_in {A} (f g : A -> bool) l :
  (forall x, In x l -> f x = g x) -> find f l = find g l.
Proof.
  induction l as [|a l IH]; intro H; cbn; [reflexivity|].
  rewrite (H a (or_introl eq_refl)). destruct (g a); [reflexivity|].
  apply IH. intros x Hx. apply H. now right.
Qed.

Lemma tg_forallb_ext_in {A} (f g : A -> bool) l :
  (forall x, In x l -> f x = g x) -> forallb f l = forallb g l.
Proof.
  induction l as [|a l IH]; intro H; cbn; [reflexivity|].
  rewrite (H a (or_introl eq_refl)), IH; [reflexivity|].
  intros x Hx. apply H. now right.
Qed.

Lemma tg_forallb_rev {A} (f : A -> bool) l : forallb f (rev l) = forallb f l.
Proof.
  apply tg_bool_eq_iff. rewrite !forallb_forall. split; intros H x Hx; apply H.
  - rewrite <- in_rev. exact Hx.
  - rewrite <- in_rev in Hx. exact Hx.
Qed.

Lemma tg_combine_app {A B} (a1 a2 : list A) (b1 b2 : list B) :
  length a1 = length b1 -> combine (a1 ++ a2) (b1 ++ b2) = combine a1 b1 ++ combine a2 b2.
Proof.
  revert b1. induction a1 as [|x a1 IH]; intros [|y b1] H; cbn in *; try discriminate; [reflexivity|].
  f_equal. apply IH. lia.
Qed.

Lemma tg_combine_rev {A B} (a : list A) (b : list B) :
  length a = length b -> combine (rev a) (rev b) = rev (combine a b).
Proof.
  revert b. induction a as [|x a IH]; intros [|y b] H; cbn in *; try discriminate; [reflexivity|].
  rewrite tg_combine_app by (rewrite !rev_length; lia). rewrite IH by lia. reflexivity.
Qed.

Lemma tg_Forall2_rev {A B} (P : A -> B -> Prop) a b : Forall2 P a b -> Forall2 P (rev a) (rev b).
Proof.
  induction 1 as [|x y a b Hxy H IH]; cbn; [constructor|].
  apply Forall2_app; [assumption|]. constructor; [assumption|constructor].
Qed.

Lemma tg_Forall2_length {A B} (P : A -> B -> Prop) a b : Forall2 P a b -> length a = length b.
Proof. induction 1; cbn; congruence. Qed.

Lemma tg_map_nth_seq {A} (l : list A) d : map (fun i => nth i l d) (seq 0 (length l)) = l.
Proof.
  induction l as [|x l IH]; cbn [length seq map]; [reflexivity|].
  rewrite <- seq_shift, map_map. cbn [nth]. now rewrite IH.
Qed.

Lemma tg_filter_length_pos {A} (f : A -> bool) l :
  0 < length (filter f l) <-> exists x, In x l /\ f x = true.
Proof.
  split.
  - destruct (filter f l) as [|x r] eqn:E; cbn; [lia|]. intros _.
    assert (In x (filter f l)) as H by (rewrite E; now left).
    apply filter_In in H. now exists x.
  - intros [x [Hx Hf]]. assert (In x (filter f l)) as H by (apply filter_In; now split).
    destruct (filter f l); [contradiction H | cbn; lia].
Qed.

(* ------------------------------------------------------------------ products *)

Lemma tg_fold_mul l : forall a, fold_left Nat.mul l a = a * fold_left Nat.mul l 1.
Proof.
  induction l as [|x l IH]; intro a; cbn [fold_left]; [lia|].
  rewrite (IH (a * x)), (IH (1 * x)). lia.
Qed.

Lemma tg_prod_nil : prod_list [] = 1.
Proof. reflexivity. Qed.

Lemma tg_prod_cons x l : prod_list (x :: l) = x * prod_list l.
Proof. unfold prod_list. cbn. rewrite tg_fold_mul. lia. Qed.

Lemma tg_prod_app l1 l2 : prod_list (l1 ++ l2) = prod_list l1 * prod_list l2.
Proof.
  induction l1 as [|x l1 IH]; cbn [app]; [rewrite tg_prod_nil; lia|].
  rewrite !tg_prod_cons, IH. lia.
Qed.

Lemma tg_prod_rev l : prod_list (rev l) = prod_list l.
Proof.
  induction l as [|x l IH]; cbn [rev]; [reflexivity|].
  rewrite tg_prod_app, !tg_prod_cons, tg_prod_nil, IH. lia.
Qed.

Lemma tg_firstn_S {A} (l : list A) d n : n < length l -> firstn (S n) l = firstn n l ++ [nth n l d].
Proof.
  revert n. induction l as [|x l IH]; intros n H; cbn in H; [lia|].
  destruct n as [|n]; [reflexivity|]. cbn [firstn nth app]. f_equal.
  rewrite <- IH by lia. reflexivity.
Qed.

Lemma tg_skipn_nth {A} (l : list A) d n : n < length l -> skipn n l = nth n l d :: skipn (S n) l.
Proof.
  revert n. induction l as [|x l IH]; intros n H; cbn in H; [lia|].
  destruct n as [|n]; [reflexivity|]. cbn [skipn nth]. apply IH. lia.
Qed.

(* ------------------------------------------------------------------ index_ofN *)

Lemma tg_index_ofN_In k l : In k l ->
  exists g, index_ofN k l = Some g /\ g < length l /\ nth g l 0%N = k.
Proof.
  induction l as [|x l IH]; intro H; [contradiction H|].
  cbn [index_ofN]. destruct (N.eqb_spec k x) as [->|Hne].
  - exists 0. cbn. repeat split. lia.
  - destruct H as [H|H]; [congruence|]. destruct (IH H) as [g [E [Hlt Hn]]].
    exists (S g). rewrite E. cbn. repeat split; [lia|assumption].
Qed.

(* ------------------------------------------------------------------ insert_mask *)

Lemma tg_insert_mask_In x l y : In y (insert_mask x l) <-> y = x \/ In y l.
Proof.
  induction l as [|z l IH]; cbn [insert_mask].
  - cbn. intuition.
  - destruct (N.ltb_spec x z) as [Hlt|Hge].
    + cbn. intuition.
    + destruct (N.eqb_spec x z) as [->|Hne].
      * cbn. intuition.
      * cbn [In]. rewrite IH. intuition.
Qed.

Lemma tg_insert_mask_sorted x l :
  StronglySorted N.lt l -> StronglySorted N.lt (insert_mask x l).
Proof.
  induction l as [|z l IH]; intro S; cbn [insert_mask].
  - constructor; constructor.
  - inversion S as [|? ? S' F]; subst.
    destruct (N.ltb_spec x z) as [Hlt|Hge].
    + constructor; [assumption|]. constructor; [assumption|].
      eapply Forall_impl; [|exact F]. intros a Ha. cbn in Ha. lia.
    + destruct (N.eqb_spec x z) as [->|Hne]; [assumption|].
      constructor; [now apply IH|].
      apply Forall_forall. intros a Ha. apply tg_insert_mask_In in Ha. destruct Ha as [->|Ha].
      * lia.
      * rewrite Forall_forall in F. now apply F.
Qed.

Lemma tg_sorted_NoDup l : StronglySorted N.lt l -> NoDup l.
Proof.
  induction 1 as [|x l S IH F]; constructor; [|assumption].
  intro H. rewrite Forall_forall in F. specialize (F _ H). lia.
Qed.

Lemma tg_fold_insert_In {A} (f : A -> N) cs : forall acc y,
  In y (fold_left (fun a c => insert_mask (f c) a) cs acc) <-> In y acc \/ exists c, In c cs /\ y = f c.
Proof.
  induction cs as [|c cs IH]; intros acc y; cbn [fold_left].
  - split; [now left|]. intros [H|[c [[] _]]]. assumption.
  - rewrite IH, tg_insert_mask_In. split.
    + intros [[->|H]|[c' [H E]]].
      * right. exists c. split; [now left|reflexivity].
      * now left.
      * right. exists c'. split; [now right|assumption].
    + intros [H|[c' [[->|H] E]]].
      * left. now right.
      * left. now left.
      * right. now exists c'.
Qed.

Lemma tg_fold_insert_sorted {A} (f : A -> N) cs : forall acc,
  StronglySorted N.lt acc -> StronglySorted N.lt (fold_left (fun a c => insert_mask (f c) a) cs acc).
Proof.
  induction cs as [|c cs IH]; intros acc S; cbn [fold_left]; [assumption|].
  apply IH. now apply tg_insert_mask_sorted.
Qed.

(* ------------------------------------------------------------------ the recursive table builder *)

Section Tables.
  Variables (mask cell : Type).
  Variable inter : mask -> mask -> mask.
  Variable best : mask -> cell.
  Variable dflt : cell.

  (* groups listed from the LAST dimension down to dimension 0, as the recursion consumes them *)
  Fixpoint tg_build (gss : list (list mask)) (cand : mask) : list cell :=
    match gss with
    | [] => [best cand]
    | gs :: rest => flat_map (fun g => tg_build rest (inter cand g)) gs
    end.

  Fixpoint tg_cells (gss : list (list mask)) : nat :=
    match gss with [] => 1 | gs :: rest => length gs * tg_cells rest end.

  Lemma tg_flat_map_length_const {A B} (f : A -> list B) n l :
    (forall a, length (f a) = n) -> length (flat_map f l) = length l * n.
  Proof. intro H. induction l as [|a l IH]; cbn; [reflexivity|]. rewrite app_length, H, IH. lia. Qed.

  Lemma tg_build_length gss : forall cand, length (tg_build gss cand) = tg_cells gss.
  Proof.
    induction gss as [|gs rest IH]; intro cand; cbn [tg_build tg_cells]; [reflexivity|].
    apply tg_flat_map_length_const. intro g. apply IH.
  Qed.

  Lemma tg_nth_flat_map_const {A B} (f : A -> list B) n (d : B) : forall l i j a0,
    (forall a, length (f a) = n) -> i < length l -> j < n ->
    nth (i * n + j) (flat_map f l) d = nth j (f (nth i l a0)) d.
  Proof.
    induction l as [|a l IH]; intros i j a0 H Hi Hj; cbn in Hi; [lia|].
    cbn [flat_map]. destruct i as [|i].
    - cbn. rewrite app_nth1 by (rewrite H; lia). reflexivity.
    - rewrite app_nth2 by (rewrite H; lia). rewrite H.
      replace (S i * n + j - n) with (i * n + j) by lia.
      cbn [nth]. apply IH; auto; lia.
  Qed.

  (* index of a tuple: idx listed like gss (last dimension first) *)
  Fixpoint tg_index (gss : list (list mask)) (idx : list nat) : nat :=
    match gss, idx with
    | gs :: rest, i :: is_ => i * tg_cells rest + tg_index rest is_
    | _, _ => 0
    end.
  Fixpoint tg_sel (gss : list (list mask)) (idx : list nat) (cand : mask) (m0 : mask) : mask :=
    match gss, idx with
    | gs :: rest, i :: is_ => tg_sel rest is_ (inter cand (nth i gs m0)) m0
    | _, _ => cand
    end.
  Definition tg_inb (gss : list (list mask)) (idx : list nat) : Prop :=
    Forall2 (fun gs i => i < length gs) gss idx.

  Lemma tg_index_lt gss : forall idx, tg_inb gss idx -> tg_index gss idx < tg_cells gss.
  Proof.
    induction gss as [|gs rest IH]; intros idx H; inversion H as [|? i ? is_ Hi Hr]; subst; cbn; [lia|].
    specialize (IH _ Hr). nia.
  Qed.

  Theorem tg_build_nth gss : forall idx cand m0, tg_inb gss idx ->
    nth (tg_index gss idx) (tg_build gss cand) dflt = best (tg_sel gss idx cand m0).
  Proof.
    induction gss as [|gs rest IH]; intros idx cand m0 H; inversion H as [|? i ? is_ Hi Hr]; subst.
    - reflexivity.
    - cbn [tg_build tg_index tg_sel].
      rewrite (tg_nth_flat_map_const _ (tg_cells rest) dflt gs i (tg_index rest is_) m0).
      + apply IH; assumption.
      + intro g. apply tg_build_length.
      + assumption.
      + apply tg_index_lt; assumption.
  Qed.

  (* every produced cell is the cell of some tuple of groups *)
  Lemma tg_build_In gss : forall cand m0 x, In x (tg_build gss cand) ->
    exists idx, tg_inb gss idx /\ x = best (tg_sel gss idx cand m0).
  Proof.
    induction gss as [|gs rest IH]; intros cand m0 x H.
    - cbn in H. destruct H as [<-|[]]. exists []. split; [constructor|reflexivity].
    - cbn [tg_build] in H. apply in_flat_map in H. destruct H as [g [Hg Hx]].
      destruct (In_nth _ _ m0 Hg) as [i [Hi Hn]].
      destruct (IH _ m0 _ Hx) as [is_ [Hb E]].
      exists (i :: is_). split; [constructor; assumption|]. cbn [tg_sel]. now rewrite Hn.
  Qed.

  Lemma tg_cells_prod gss : tg_cells gss = prod_list (map (@length _) gss).
  Proof.
    induction gss as [|gs rest IH]; cbn [tg_cells map]; [reflexivity|].
    now rewrite tg_prod_cons, IH.
  Qed.

  Lemma tg_cells_app a b : tg_cells (a ++ b) = tg_cells a * tg_cells b.
  Proof. rewrite !tg_cells_prod, map_app, tg_prod_app. reflexivity. Qed.

  Lemma tg_index_app a : forall i b j, length a = length i ->
    tg_index (a ++ b) (i ++ j) = tg_index a i * tg_cells b + tg_index b j.
  Proof.
    induction a as [|gs a IH]; intros [|k i] b j H; cbn in H; try discriminate; [reflexivity|].
    cbn [app tg_index]. rewrite IH by lia. rewrite tg_cells_app. lia.
  Qed.

  Lemma tg_sel_app a : forall i b j cand m0, length a = length i ->
    tg_sel (a ++ b) (i ++ j) cand m0 = tg_sel b j (tg_sel a i cand m0) m0.
  Proof.
    induction a as [|gs a IH]; intros [|k i] b j cand m0 H; cbn in H; try discriminate; [reflexivity|].
    cbn [app tg_sel]. apply IH. lia.
  Qed.

  (* mixed radix, dimension 0 first: g0 + s0 * (g1 + s1 * (...)) *)
  Fixpoint tg_mr (sizes idx : list nat) : nat :=
    match sizes, idx with
    | s :: ss, g :: gs => g + s * tg_mr ss gs
    | _, _ => 0
    end.

  Lemma tg_index_rev gss : forall idx, length gss = length idx ->
    tg_index (rev gss) (rev idx) = tg_mr (map (@length _) gss) idx.
  Proof.
    induction gss as [|gs gss IH]; intros [|i idx] H; cbn in H; try discriminate; [reflexivity|].
    cbn [rev map tg_mr]. rewrite tg_index_app by (rewrite !rev_length; lia).
    rewrite IH by lia. cbn. lia.
  Qed.
End Tables.
