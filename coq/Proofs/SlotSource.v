(* SlotSource.v — the body of the loop over cls.used_by_vp in compiler<Policy>::assign_lattice_slots, as TRANSLATED from
   detail/compiler.hpp on this run (Gen/GenSlot.v, interpreted by Model/MiniSlot.v), is Model.Compile.lattice_assign: the same
   slot is chosen for the (method, parameter), and the same bits end up used / reserved in the class, in its transitive bases,
   in its covariant classes and in their transitive bases — for every lattice and slot state in which the class has its two
   bitsets. *)
From Coq Require Import List NArith Bool Arith Lia.
From Y2 Require Import Model.Registry Model.Compile Model.MiniSlot Gen.GenSlot Proofs.LatListFacts.
Import ListNotations.

Section Slot.
  Variables (L : lattice) (c : nat) (mp : nat * nat).

  (* unfolding one constructor at a time, never under the binder of a loop *)
  Lemma lexec_seq a b cov base s :
    lexec L c mp (LSeq a b) cov base s = match lexec L c mp a cov base s with Some s' => lexec L c mp b cov base s' | None => None end.
  Proof. reflexivity. Qed.
  Lemma lexec_merge src dst cov base s :
    lexec L c mp (LMerge src dst) cov base s = match bread c s cov base src with Some v => bmerge c s cov base dst v | None => None end.
  Proof. reflexivity. Qed.
  Lemma lexec_copylocal src cov base s :
    lexec L c mp (LCopyLocal src) cov base s = match bread c s cov base src with Some v => Some (mk_ls (x_st s) (Some v) (x_slot s)) | None => None end.
  Proof. reflexivity. Qed.
  Lemma lexec_firstfree cov base s :
    lexec L c mp LFirstFree cov base s = match x_local s with Some l => Some (mk_ls (x_st s) (x_local s) (Some (first_free l))) | None => None end.
  Proof. reflexivity. Qed.
  Lemma lexec_setbit dst cov base s :
    lexec L c mp (LSetBit dst) cov base s = match x_slot s with Some slot => bsetbit c s dst slot | None => None end.
  Proof. reflexivity. Qed.
  Lemma lexec_setmethodslot cov base s :
    lexec L c mp LSetMethodSlot cov base s
    = match x_slot s with
      | Some slot => let st := x_st s in
                     Some (mk_ls (mk_ss (set_slot st mp slot) (s_used st) (s_resv st) (s_mark st) (s_first st) (s_vlen st) (s_fuel_ok st)) (x_local s) (x_slot s))
      | None => None
      end.
  Proof. reflexivity. Qed.

  Lemma lexec_forbases of_cov body cov base s :
    lexec L c mp (LForBases of_cov body) cov base s
    = match (if of_cov then cov else Some c) with
      | Some o => lfor (fun b s' => lexec L c mp body cov (Some b) s') (nth o (l_tb L) []) s
      | None => None
      end.
  Proof. reflexivity. Qed.
  Lemma lexec_forcov body cov base s :
    lexec L c mp (LForCovariant body) cov base s = lfor (fun d s' => lexec L c mp body (Some d) base s') (nth c (l_cov L) []) s.
  Proof. reflexivity. Qed.
  Lemma lexec_ifnotself body d base s :
    lexec L c mp (LIfNotSelf body) (Some d) base s = if Nat.eqb d c then Some s else lexec L c mp body (Some d) base s.
  Proof. reflexivity. Qed.

  (* for (base : <owner>.transitive_bases) merge_into(cls.used_slots, base->reserved_slots) *)
  Lemma bases_loop cov : forall bs s,
    lfor (fun b s' => lexec L c mp (LMerge BClsUsed BBaseResv) cov (Some b) s') bs s
    = Some (mk_ls (with_resv (x_st s) (fold_left (or_into (nth c (s_used (x_st s)) 0%N)) bs (s_resv (x_st s)))) (x_local s) (x_slot s)).
  Proof.
    induction bs as [|b r IH]; intros s; cbn [lfor fold_left].
    - destruct s as [[? ? ? ? ? ? ?] ? ?]; reflexivity.
    - cbn [lexec bread bmerge]. rewrite IH. cbn [x_st x_local x_slot with_resv s_used s_resv]. reflexivity.
  Qed.

  Definition cov_step (u : N) : list N * list N -> nat -> list N * list N :=
    fun '(us, rs) d => if Nat.eqb d c then (us, rs) else (or_into u us d, fold_left (or_into u) (nth d (l_tb L) []) rs).

  (* for (covariant : cls.covariant_classes) if (&cls != covariant) { covariant->used_slots |= cls.used_slots; and its bases } *)
  Lemma cov_loop base : forall ds s,
    lfor (fun d s' => lexec L c mp (LIfNotSelf (LSeq (LMerge BClsUsed BCovUsed) (LForBases true (LMerge BClsUsed BBaseResv)))) (Some d) base s') ds s
    = let u := nth c (s_used (x_st s)) 0%N in
      let '(us, rs) := fold_left (cov_step u) ds (s_used (x_st s), s_resv (x_st s)) in
      Some (mk_ls (with_resv (with_used (x_st s) us) rs) (x_local s) (x_slot s)).
  Proof.
    induction ds as [|d r IH]; intros s; cbn [lfor fold_left].
    - destruct s as [[? ? ? ? ? ? ?] ? ?]; reflexivity.
    - rewrite lexec_ifnotself. unfold cov_step at 2. cbn iota beta.
      destruct (Nat.eqb d c) eqn:Ed.
      + rewrite IH. reflexivity.
      + rewrite lexec_seq, lexec_merge. cbn [bread bmerge].
        match goal with |- context [lexec L c mp (LForBases true ?b) ?cv ?bs ?s1] =>
          rewrite (lexec_forbases true b cv bs s1) end.
        rewrite bases_loop. cbn [x_st x_local x_slot with_used with_resv s_used s_resv].
        rewrite IH. cbn [x_st x_local x_slot with_used with_resv s_used s_resv].
        assert (Hu : nth c (or_into (nth c (s_used (x_st s)) 0%N) (s_used (x_st s)) d) 0%N = nth c (s_used (x_st s)) 0%N).
        { unfold or_into. apply nth_upd_nth_neq. intros Q. subst d. rewrite Nat.eqb_refl in Ed. discriminate. }
        rewrite Hu.
        destruct (fold_left (cov_step (nth c (s_used (x_st s)) 0%N)) r _) as [us rs]. reflexivity.
  Qed.

  Theorem src_lattice_assign st : c < length (s_used st) ->
    run_lattice_assign L c mp gen_lattice_assign st = Some (lattice_assign L c st mp).
  Proof.
    intros Hc. unfold run_lattice_assign, gen_lattice_assign, lattice_assign.
    repeat (rewrite lexec_seq; rewrite ?lexec_merge, ?lexec_copylocal, ?lexec_firstfree, ?lexec_setbit, ?lexec_setmethodslot;
            cbn [bread bmerge bsetbit x_st x_local x_slot with_used with_resv s_used s_resv s_slots s_mark s_first s_vlen s_fuel_ok]).
    rewrite lexec_forbases. rewrite bases_loop.
    cbn [x_st x_local x_slot with_used with_resv s_used s_resv s_slots s_mark s_first s_vlen s_fuel_ok].
    rewrite lexec_forcov. rewrite cov_loop.
    cbn [x_st x_local x_slot with_used with_resv s_used s_resv s_slots s_mark s_first s_vlen s_fuel_ok].
    rewrite !(nth_set_nth_eq c (s_used st)) by exact Hc.
    set (used := nth c (s_used st) 0%N). set (resv := nth c (s_resv st) 0%N).
    set (slot := first_free (N.lor used resv)).
    set (used' := N.lor used (N.shiftl 1 (N.of_nat slot))).
    set (init := (set_nth c (s_used st) used',
                  fold_left (or_into used') (nth c (l_tb L) []) (set_nth c (s_resv st) (N.lor resv (N.shiftl 1 (N.of_nat slot)))))).
    change (fold_left (fun '(us, rs) d => if Nat.eqb d c then (us, rs)
                                          else (or_into used' us d, fold_left (or_into used') (nth d (l_tb L) []) rs))
                      (nth c (l_cov L) []) init)
      with (fold_left (cov_step used') (nth c (l_cov L) []) init).
    destruct (fold_left (cov_step used') (nth c (l_cov L) []) init) as [us rs].
    unfold with_resv, with_used. cbn [x_st s_slots s_used s_resv s_mark s_first s_vlen s_fuel_ok]. reflexivity.
  Qed.
End Slot.

(* ------------------------------------------------------------------ every (method, parameter) of the class, in order *)
Lemma lattice_assign_used_length L c st mp : length (s_used (lattice_assign L c st mp)) = length (s_used st).
Proof.
  unfold lattice_assign.
  set (used' := N.lor _ _).
  match goal with |- context [fold_left ?f (nth c (l_cov L) []) ?init] =>
    assert (H : forall ds acc, length (fst (fold_left f ds acc)) = length (fst acc))
  end.
  { induction ds as [|d r IH]; intros [us rs]; cbn [fold_left]; [reflexivity|].
    destruct (Nat.eqb d c); rewrite IH; cbn [fst]; [reflexivity|]. unfold or_into, upd_nth. apply length_set_nth. }
  match goal with |- context [fold_left ?f (nth c (l_cov L) []) ?init] =>
    specialize (H (nth c (l_cov L) []) init); destruct (fold_left f (nth c (l_cov L) []) init) as [us rs]
  end.
  cbn [s_used fst] in *. rewrite H. apply length_set_nth.
Qed.

Fixpoint run_lattice_class (L : lattice) (c : nat) (body : lstmt) (mps : list (nat * nat)) (st : sstate) : option sstate :=
  match mps with
  | [] => Some st
  | mp :: r => match run_lattice_assign L c mp body st with Some st' => run_lattice_class L c body r st' | None => None end
  end.

Theorem src_lattice_class L c : forall mps st, c < length (s_used st) ->
  run_lattice_class L c gen_lattice_assign mps st = Some (fold_left (lattice_assign L c) mps st).
Proof.
  induction mps as [|mp r IH]; intros st Hc; cbn [run_lattice_class fold_left]; [reflexivity|].
  rewrite src_lattice_assign by exact Hc. apply IH. rewrite lattice_assign_used_length. exact Hc.
Qed.

(* ================================================================== the functions around that body (fourth session) *)

Lemma aexec_seq L ms lb rt rl a b x s :
  aexec L ms lb rt rl (ASeq a b) x s = match aexec L ms lb rt rl a x s with Some (s', false) => aexec L ms lb rt rl b x s' | other => other end.
Proof. reflexivity. Qed.
Lemma aexec_for_used L ms lb rt rl body x s c : ac_cls x = Some c ->
  aexec L ms lb rt rl (AForUsedBy body) x s
  = afor (fun mp s' => aexec L ms lb rt rl body (mk_acx (ac_cls x) (ac_base x) (Some mp) (ac_pd x)) s') (used_by_vp ms c) s.
Proof. intro H. cbn [aexec]. now rewrite H. Qed.
Lemma aexec_for_derived L ms lb rt rl body x s c : ac_cls x = Some c ->
  aexec L ms lb rt rl (AForDerived body) x s
  = afor (fun d s' => aexec L ms lb rt rl body (mk_acx (ac_cls x) (ac_base x) (ac_mp x) (Some d)) s') (nth c (l_derived L) []) s.
Proof. intro H. cbn [aexec]. now rewrite H. Qed.
Lemma aexec_for_classes L ms lb rt rl body x s :
  aexec L ms lb rt rl (AForClasses body) x s
  = afor (fun c s' => aexec L ms lb rt rl body (mk_acx (Some c) None None None) s') (seq 0 (length (l_keys L))) s.
Proof. reflexivity. Qed.

Lemma aexec_next_from_base L ms lb rt rl x s b : ac_base x = Some b ->
  aexec L ms lb rt rl ANextFromBase x s = Some (mk_ast (as_st s) (Some b), false).
Proof. intro H. cbn [aexec]. now rewrite H. Qed.
Lemma aexec_first_zero L ms lb rt rl x s c : ac_cls x = Some c ->
  aexec L ms lb rt rl AFirstSlotZero x s = Some (mk_ast (upd_first (as_st s) c 0) (as_next s), false).
Proof. intro H. cbn [aexec]. now rewrite H. Qed.
Lemma aexec_vtbl_next L ms lb rt rl x s c nx : ac_cls x = Some c -> as_next s = Some nx ->
  aexec L ms lb rt rl AVtblResizeNext x s = Some (mk_ast (upd_vlen (as_st s) c nx) (as_next s), false).
Proof. intros H1 H2. cbn [aexec]. now rewrite H1, H2. Qed.
Lemma aexec_return_if_marked L ms lb rt rl x s c : ac_cls x = Some c ->
  aexec L ms lb rt rl AReturnIfMarked x s = Some (s, nth c (s_mark (as_st s)) false).
Proof. intro H. cbn [aexec]. now rewrite H. Qed.
Lemma aexec_mark L ms lb rt rl x s c : ac_cls x = Some c ->
  aexec L ms lb rt rl AMark x s = Some (mk_ast (upd_mark (as_st s) (set_nth c (s_mark (as_st s)) true)) (as_next s), false).
Proof. intro H. cbn [aexec]. now rewrite H. Qed.
Lemma aexec_if_usedby L ms lb rt rl body x s c : ac_cls x = Some c ->
  aexec L ms lb rt rl (AIfUsedByNonEmpty body) x s = match used_by_vp ms c with [] => Some (s, false) | _ :: _ => aexec L ms lb rt rl body x s end.
Proof. intro H. cbn [aexec]. now rewrite H. Qed.

(* ------------------------------------------------------------------ assign_tree_slots *)
Definition tree_step (p : sstate * nat) (mp : nat * nat) : sstate * nat :=
  let '(s, nx) := p in
  (mk_ss (set_slot s mp nx) (s_used s) (s_resv s) (s_mark s) (s_first s) (s_vlen s) (s_fuel_ok s), S nx).

Lemma tree_used_loop L ms lb rt rl x : forall mps st nx,
  afor (fun mp s' => aexec L ms lb rt rl (ASeq AStoreNext AIncNext) (mk_acx (ac_cls x) (ac_base x) (Some mp) (ac_pd x)) s') mps (mk_ast st (Some nx))
  = Some (mk_ast (fst (fold_left tree_step mps (st, nx))) (Some (snd (fold_left tree_step mps (st, nx)))), false).
Proof.
  induction mps as [|mp mps IH]; intros st nx; cbn [afor fold_left]; [reflexivity|].
  cbn [aexec ac_mp as_next as_st]. rewrite IH. reflexivity.
Qed.

Lemma tree_derived_loop L ms lb rt rl x nx (F : nat -> nat -> sstate -> sstate) :
  (forall d st, rt d nx st = Some (F d nx st)) ->
  forall ds st,
  afor (fun d s' => aexec L ms lb rt rl ARecurseTree (mk_acx (ac_cls x) (ac_base x) (ac_mp x) (Some d)) s') ds (mk_ast st (Some nx))
  = Some (mk_ast (fold_left (fun s d => F d nx s) ds st) (Some nx), false).
Proof.
  intro HF. induction ds as [|d ds IH]; intro st; cbn [afor fold_left]; [reflexivity|].
  cbn [aexec ac_pd as_next as_st]. rewrite HF. apply IH.
Qed.

(* `cls.first_slot = 0;` and `cls.vtbl.resize(next_slot);` write different members: both orders are accepted *)
Definition tree_body_a : astmt :=
  ASeq ANextFromBase (ASeq (AForUsedBy (ASeq AStoreNext AIncNext)) (ASeq AFirstSlotZero (ASeq AVtblResizeNext (AForDerived ARecurseTree)))).
Definition tree_body_b : astmt :=
  ASeq ANextFromBase (ASeq (AForUsedBy (ASeq AStoreNext AIncNext)) (ASeq AVtblResizeNext (ASeq AFirstSlotZero (AForDerived ARecurseTree)))).

(* one level of the recursion, the calls one level down being given *)
Definition tree_level (L : lattice) (ms : list cmeth) (F : nat -> nat -> sstate -> sstate) (st : sstate) (c base : nat) : sstate :=
  let '(st1, next) :=
    fold_left (fun '(s, nx) mp => (mk_ss (set_slot s mp nx) (s_used s) (s_resv s) (s_mark s) (s_first s) (s_vlen s) (s_fuel_ok s), S nx))
              (used_by_vp ms c) (st, base) in
  let st2 := mk_ss (s_slots st1) (s_used st1) (s_resv st1) (s_mark st1) (set_nth c (s_first st1) 0) (set_nth c (s_vlen st1) next) (s_fuel_ok st1) in
  fold_left (fun s d => F d next s) (nth c (l_derived L) []) st2.

Lemma tree_level_src L ms rt (F : nat -> nat -> sstate -> sstate) body c base st :
  body = tree_body_a \/ body = tree_body_b ->
  (forall d nx s, rt d nx s = Some (F d nx s)) ->
  exists nx', aexec L ms LSkip rt no_lat body (mk_acx (Some c) (Some base) None None) (mk_ast st None)
              = Some (mk_ast (tree_level L ms F st c base) nx', false).
Proof.
  intros Hb HF. unfold tree_level.
  set (x := mk_acx (Some c) (Some base) None None).
  assert (Efold : fold_left tree_step (used_by_vp ms c) (st, base)
                  = fold_left (fun '(s, nx) mp => (mk_ss (set_slot s mp nx) (s_used s) (s_resv s) (s_mark s) (s_first s) (s_vlen s) (s_fuel_ok s), S nx))
                              (used_by_vp ms c) (st, base)).
  { generalize (st, base). induction (used_by_vp ms c) as [|mp r IHr]; intro p; cbn [fold_left]; [reflexivity|]. rewrite IHr. now destruct p. }
  rewrite <- Efold.
  destruct Hb as [-> | ->]; [unfold tree_body_a | unfold tree_body_b];
    rewrite aexec_seq, (aexec_next_from_base _ _ _ _ _ x _ base eq_refl); cbn [as_st];
    rewrite aexec_seq, (aexec_for_used _ _ _ _ _ _ x _ c eq_refl), tree_used_loop;
    destruct (fold_left tree_step (used_by_vp ms c) (st, base)) as [st1 next]; cbn [fst snd].
  - rewrite aexec_seq, (aexec_first_zero _ _ _ _ _ x _ c eq_refl). cbn [as_st as_next].
    rewrite aexec_seq, (aexec_vtbl_next _ _ _ _ _ x (mk_ast (upd_first st1 c 0) (Some next)) c next eq_refl eq_refl). cbn [as_st as_next].
    rewrite (aexec_for_derived _ _ _ _ _ _ x _ c eq_refl).
    rewrite (tree_derived_loop L ms LSkip rt no_lat x next F) by (intros d s0; apply HF).
    eexists. reflexivity.
  - rewrite aexec_seq, (aexec_vtbl_next _ _ _ _ _ x (mk_ast st1 (Some next)) c next eq_refl eq_refl). cbn [as_st as_next].
    rewrite aexec_seq, (aexec_first_zero _ _ _ _ _ x _ c eq_refl). cbn [as_st as_next].
    rewrite (aexec_for_derived _ _ _ _ _ _ x _ c eq_refl).
    rewrite (tree_derived_loop L ms LSkip rt no_lat x next F) by (intros d s0; apply HF).
    eexists. reflexivity.
Qed.

Lemma tree_fun_S f L ms body c base st :
  tree_fun (S f) L ms body c base st
  = match aexec L ms LSkip (tree_fun f L ms body) no_lat body (mk_acx (Some c) (Some base) None None) (mk_ast st None) with
    | Some (s, _) => Some (as_st s)
    | None => None
    end.
Proof. reflexivity. Qed.

Theorem tree_generic L ms body : body = tree_body_a \/ body = tree_body_b ->
  forall fuel c base st, tree_fun fuel L ms body c base st = Some (assign_tree fuel L ms st c base).
Proof.
  intro Hb. induction fuel as [|f IH]; intros c base st; [reflexivity|].
  rewrite tree_fun_S.
  destruct (tree_level_src L ms (tree_fun f L ms body) (fun d nx s => assign_tree f L ms s d nx) body c base st Hb) as [nx' E];
    [intros d nx s; apply IH|].
  rewrite E. reflexivity.
Qed.

Theorem src_assign_tree L ms : forall fuel c base st,
  tree_fun fuel L ms gen_tree_slots c base st = Some (assign_tree fuel L ms st c base).
Proof.
  first [ change gen_tree_slots with tree_body_a; apply tree_generic; now left
        | change gen_tree_slots with tree_body_b; apply tree_generic; now right ].
Qed.

(* ------------------------------------------------------------------ assign_lattice_slots *)
Definition sshape (n : nat) (st : sstate) : Prop := length (s_used st) = n /\ length (s_first st) = n.

Lemma lattice_assign_first L c st mp : s_first (lattice_assign L c st mp) = s_first st.
Proof.
  unfold lattice_assign.
  match goal with |- context [fold_left ?f (nth c (l_cov L) []) ?init] => destruct (fold_left f (nth c (l_cov L) []) init) as [us rs] end.
  reflexivity.
Qed.

Lemma fold_lattice_assign_shape L c n : forall mps st, sshape n st -> sshape n (fold_left (lattice_assign L c) mps st).
Proof.
  induction mps as [|mp r IH]; intros st H; cbn [fold_left]; [exact H|]. apply IH.
  destruct H as [H1 H2]. split; [now rewrite lattice_assign_used_length|now rewrite lattice_assign_first].
Qed.

Lemma assign_lattice_shape L ms n : forall fuel c st, sshape n st -> sshape n (assign_lattice fuel L ms st c).
Proof.
  induction fuel as [|f IH]; intros c st H; cbn [assign_lattice]; [exact H|].
  destruct (nth c (s_mark st) false); [exact H|].
  set (st1 := fold_left (lattice_assign L c) (used_by_vp ms c) _).
  assert (H1 : sshape n st1) by (apply fold_lattice_assign_shape; exact H).
  clearbody st1. revert st1 H1. induction (nth c (l_derived L) []) as [|d ds IHd]; intros st1 H1; cbn [fold_left]; [exact H1|].
  apply IHd. now apply IH.
Qed.

Lemma assign_tree_shape L ms n : forall fuel c base st, sshape n st -> sshape n (assign_tree fuel L ms st c base).
Proof.
  induction fuel as [|f IH]; intros c base st H; cbn [assign_tree]; [exact H|].
  assert (Hf : forall mps p, sshape n (fst p) ->
            sshape n (fst (fold_left (fun '(s, nx) mp => (mk_ss (set_slot s mp nx) (s_used s) (s_resv s) (s_mark s) (s_first s) (s_vlen s) (s_fuel_ok s), S nx)) mps p))).
  { induction mps as [|mp r IHr]; intros [s nx] Hp; cbn [fold_left]; [exact Hp|]. apply IHr. exact Hp. }
  specialize (Hf (used_by_vp ms c) (st, base) H).
  destruct (fold_left _ (used_by_vp ms c) (st, base)) as [st1 next]. cbn [fst] in Hf.
  set (st2 := mk_ss _ _ _ _ _ _ _).
  assert (H2 : sshape n st2) by (destruct Hf as [A B]; split; [exact A|unfold st2; cbn [s_first]; now rewrite length_set_nth]).
  clearbody st2. revert st2 H2. induction (nth c (l_derived L) []) as [|d ds IHd]; intros st2 H2; cbn [fold_left]; [exact H2|].
  apply IHd. now apply IH.
Qed.

Lemma aexec_lattice_body L ms lb rt rl x s c mp : ac_cls x = Some c -> ac_mp x = Some mp ->
  aexec L ms lb rt rl ALatticeBody x s
  = match run_lattice_assign L c mp lb (as_st s) with Some st' => Some (mk_ast st' (as_next s), false) | None => None end.
Proof. intros H1 H2. cbn [aexec]. now rewrite H1, H2. Qed.
Lemma aexec_recurse_lattice L ms lb rt rl x s d : ac_pd x = Some d ->
  aexec L ms lb rt rl ARecurseLattice x s = match rl d (as_st s) with Some st' => Some (mk_ast st' (as_next s), false) | None => None end.
Proof. intro H. cbn [aexec]. now rewrite H. Qed.

Lemma lat_used_loop L ms rt rl x c : ac_cls x = Some c -> forall mps st nx, c < length (s_used st) ->
  afor (fun mp s' => aexec L ms gen_lattice_assign rt rl ALatticeBody (mk_acx (ac_cls x) (ac_base x) (Some mp) (ac_pd x)) s') mps (mk_ast st nx)
  = Some (mk_ast (fold_left (lattice_assign L c) mps st) nx, false).
Proof.
  intro Hx. induction mps as [|mp mps IH]; intros st nx Hc; cbn [afor fold_left]; [reflexivity|].
  rewrite (aexec_lattice_body _ _ _ _ _ (mk_acx (ac_cls x) (ac_base x) (Some mp) (ac_pd x)) _ c mp Hx eq_refl). cbn [as_st as_next].
  rewrite (src_lattice_assign L c mp st Hc).
  apply IH. now rewrite lattice_assign_used_length.
Qed.

Definition lat_body_a : astmt := ASeq AReturnIfMarked (ASeq AMark (ASeq (AIfUsedByNonEmpty (AForUsedBy ALatticeBody)) (AForDerived ARecurseLattice))).
Definition lat_body_b : astmt := ASeq AReturnIfMarked (ASeq AMark (ASeq (AForUsedBy ALatticeBody) (AForDerived ARecurseLattice))).

(* one level of the recursion *)
Definition lat_level (L : lattice) (ms : list cmeth) (F : nat -> sstate -> sstate) (st : sstate) (c : nat) : sstate :=
  if nth c (s_mark st) false then st
  else
    let st0 := mk_ss (s_slots st) (s_used st) (s_resv st) (set_nth c (s_mark st) true) (s_first st) (s_vlen st) (s_fuel_ok st) in
    let st1 := fold_left (lattice_assign L c) (used_by_vp ms c) st0 in
    fold_left (fun s d => F d s) (nth c (l_derived L) []) st1.

Lemma lat_derived_loop L ms lb rt rl x (F : nat -> sstate -> sstate) (P : sstate -> Prop) :
  forall ds, (forall d st, In d ds -> P st -> rl d st = Some (F d st) /\ P (F d st)) ->
  forall st nx, P st ->
  afor (fun d s' => aexec L ms lb rt rl ARecurseLattice (mk_acx (ac_cls x) (ac_base x) (ac_mp x) (Some d)) s') ds (mk_ast st nx)
  = Some (mk_ast (fold_left (fun s d => F d s) ds st) nx, false).
Proof.
  induction ds as [|d ds IH]; intros HF st nx HP; cbn [afor fold_left]; [reflexivity|].
  rewrite (aexec_recurse_lattice _ _ _ _ _ (mk_acx (ac_cls x) (ac_base x) (ac_mp x) (Some d)) _ d eq_refl). cbn [as_st as_next].
  destruct (HF d st (or_introl eq_refl) HP) as [E HP']. rewrite E. apply IH; [|exact HP'].
  intros d' s' Hin. apply HF. now right.
Qed.

Lemma lat_level_src L ms rl (F : nat -> sstate -> sstate) n body c st :
  body = lat_body_a \/ body = lat_body_b ->
  (forall d s, In d (nth c (l_derived L) []) -> sshape n s -> rl d s = Some (F d s) /\ sshape n (F d s)) -> c < n -> sshape n st ->
  exists nx' b, aexec L ms gen_lattice_assign no_tree rl body (mk_acx (Some c) None None None) (mk_ast st None)
                = Some (mk_ast (lat_level L ms F st c) nx', b).
Proof.
  intros Hb HF Hc Hs. unfold lat_level.
  set (x := mk_acx (Some c) None None None).
  assert (Hhead : forall rest, aexec L ms gen_lattice_assign no_tree rl (ASeq AReturnIfMarked (ASeq AMark rest)) x (mk_ast st None)
                  = if nth c (s_mark st) false then Some (mk_ast st None, true)
                    else aexec L ms gen_lattice_assign no_tree rl rest x (mk_ast (upd_mark st (set_nth c (s_mark st) true)) None)).
  { intro rest. rewrite aexec_seq, (aexec_return_if_marked _ _ _ _ _ x _ c eq_refl). cbn [as_st].
    destruct (nth c (s_mark st) false); [reflexivity|].
    rewrite aexec_seq, (aexec_mark _ _ _ _ _ x _ c eq_refl). reflexivity. }
  set (st0 := upd_mark st (set_nth c (s_mark st) true)).
  assert (Hs0 : sshape n st0) by exact Hs.
  assert (Hc0 : c < length (s_used st0)) by (destruct Hs0 as [A _]; lia).
  assert (Hused : aexec L ms gen_lattice_assign no_tree rl (AForUsedBy ALatticeBody) x (mk_ast st0 None)
                  = Some (mk_ast (fold_left (lattice_assign L c) (used_by_vp ms c) st0) None, false)).
  { rewrite (aexec_for_used _ _ _ _ _ _ x _ c eq_refl). now apply (lat_used_loop L ms _ _ x c eq_refl). }
  assert (Hguard : aexec L ms gen_lattice_assign no_tree rl (AIfUsedByNonEmpty (AForUsedBy ALatticeBody)) x (mk_ast st0 None)
                   = Some (mk_ast (fold_left (lattice_assign L c) (used_by_vp ms c) st0) None, false)).
  { rewrite (aexec_if_usedby _ _ _ _ _ _ x _ c eq_refl). revert Hused. destruct (used_by_vp ms c); intro Hused; [reflexivity|exact Hused]. }
  set (st1 := fold_left (lattice_assign L c) (used_by_vp ms c) st0) in *.
  assert (Hs1 : sshape n st1) by (apply fold_lattice_assign_shape; exact Hs0).
  assert (Hder : aexec L ms gen_lattice_assign no_tree rl (AForDerived ARecurseLattice) x (mk_ast st1 None)
                 = Some (mk_ast (fold_left (fun s d => F d s) (nth c (l_derived L) []) st1) None, false)).
  { rewrite (aexec_for_derived _ _ _ _ _ _ x _ c eq_refl). apply (lat_derived_loop L ms _ _ _ x F (sshape n) _ HF). exact Hs1. }
  destruct Hb as [-> | ->]; unfold lat_body_a, lat_body_b; rewrite Hhead; fold st0.
  - destruct (nth c (s_mark st) false); [eexists; eexists; reflexivity|].
    rewrite aexec_seq, Hguard, Hder. eexists. eexists. reflexivity.
  - destruct (nth c (s_mark st) false); [eexists; eexists; reflexivity|].
    rewrite aexec_seq, Hused, Hder. eexists. eexists. reflexivity.
Qed.

Lemma lat_fun_S f L ms lb body c st :
  lat_fun (S f) L ms lb body c st
  = match aexec L ms lb no_tree (lat_fun f L ms lb body) body (mk_acx (Some c) None None None) (mk_ast st None) with
    | Some (s, _) => Some (as_st s)
    | None => None
    end.
Proof. reflexivity. Qed.

Theorem lattice_generic L ms n body : body = lat_body_a \/ body = lat_body_b ->
  (forall c d, In d (nth c (l_derived L) []) -> d < n) ->
  forall fuel c st, c < n -> sshape n st ->
  lat_fun fuel L ms gen_lattice_assign body c st = Some (assign_lattice fuel L ms st c).
Proof.
  intros Hb Hd. induction fuel as [|f IH]; intros c st Hc Hs; [reflexivity|].
  rewrite lat_fun_S.
  destruct (lat_level_src L ms (lat_fun f L ms gen_lattice_assign body) (fun d s => assign_lattice f L ms s d) n body c st Hb) as [nx' [b E]];
    [| exact Hc | exact Hs |].
  - intros d s Hin Hsd. split; [apply IH; [apply (Hd c d Hin)|exact Hsd]|now apply assign_lattice_shape].
  - rewrite E. reflexivity.
Qed.

Theorem src_assign_lattice L ms n : (forall c d, In d (nth c (l_derived L) []) -> d < n) ->
  forall fuel c st, c < n -> sshape n st ->
  lat_fun fuel L ms gen_lattice_assign gen_lattice_slots c st = Some (assign_lattice fuel L ms st c).
Proof.
  first [ change gen_lattice_slots with lat_body_a; apply lattice_generic; now left
        | change gen_lattice_slots with lat_body_b; apply lattice_generic; now right ].
Qed.

(* ------------------------------------------------------------------ assign_slots *)
Definition main_body : astmt :=
  ASeq ANewClassMark
    (ASeq (AForClasses (AIfRoot (AIfTree ACallTree0 ACallLattice)))
          (AForClasses (AIfUsedNonEmpty (ASeq ASetFirstFromUsed AVtblResizeUsed)))).

Section Driver.
  Variables (L : lattice) (ms : list cmeth) (lb : lstmt) (n : nat).
  Variable rt : nat -> nat -> sstate -> option sstate.
  Variable rl : nat -> sstate -> option sstate.
  Variable FT : sstate -> nat -> sstate.
  Variable FL : sstate -> nat -> sstate.
  Hypothesis Hrt : forall c st, rt c 0 st = Some (FT st c).
  Hypothesis Hrl : forall c st, c < n -> sshape n st -> rl c st = Some (FL st c).
  Hypothesis HFT : forall c st, sshape n st -> sshape n (FT st c).
  Hypothesis HFL : forall c st, sshape n st -> sshape n (FL st c).

  Definition root_step (st : sstate) (c : nat) : sstate :=
    match nth c (l_direct L) [] with
    | [] => if is_tree_root L c then FT st c else FL st c
    | _ => st
    end.

  Lemma roots_loop : forall cs st nx, (forall c, In c cs -> c < n) -> sshape n st ->
    afor (fun c s' => aexec L ms lb rt rl (AIfRoot (AIfTree ACallTree0 ACallLattice)) (mk_acx (Some c) None None None) s') cs (mk_ast st nx)
    = Some (mk_ast (fold_left root_step cs st) nx, false) /\ sshape n (fold_left root_step cs st).
  Proof.
    induction cs as [|c cs IH]; intros st nx Hcs Hs; cbn [afor fold_left]; [split; [reflexivity|exact Hs]|].
    assert (Hstep : aexec L ms lb rt rl (AIfRoot (AIfTree ACallTree0 ACallLattice)) (mk_acx (Some c) None None None) (mk_ast st nx)
                    = Some (mk_ast (root_step st c) nx, false) /\ sshape n (root_step st c)).
    { unfold root_step. cbn [aexec ac_cls as_st as_next].
      destruct (nth c (l_direct L) []); [|split; [reflexivity|exact Hs]].
      destruct (is_tree_root L c).
      - rewrite Hrt. split; [reflexivity|now apply HFT].
      - rewrite Hrl by (try exact Hs; apply Hcs; now left). split; [reflexivity|now apply HFL]. }
    destruct Hstep as [E Hs']. rewrite E. apply IH; [intros d Hd; apply Hcs; now right|exact Hs'].
  Qed.

  Definition alloc_step (st : sstate) (c : nat) : sstate :=
    let used := nth c (s_used st) 0%N in
    if N.eqb used 0 then st
    else let fs := first_set used in
         mk_ss (s_slots st) (s_used st) (s_resv st) (s_mark st)
               (set_nth c (s_first st) fs) (set_nth c (s_vlen st) (N.size_nat used - fs)) (s_fuel_ok st).

  Lemma alloc_loop : forall cs st nx, (forall c, In c cs -> c < n) -> sshape n st ->
    afor (fun c s' => aexec L ms lb rt rl (AIfUsedNonEmpty (ASeq ASetFirstFromUsed AVtblResizeUsed)) (mk_acx (Some c) None None None) s') cs (mk_ast st nx)
    = Some (mk_ast (fold_left alloc_step cs st) nx, false).
  Proof.
    induction cs as [|c cs IH]; intros st nx Hcs Hs; cbn [afor fold_left]; [reflexivity|].
    assert (Hstep : aexec L ms lb rt rl (AIfUsedNonEmpty (ASeq ASetFirstFromUsed AVtblResizeUsed)) (mk_acx (Some c) None None None) (mk_ast st nx)
                    = Some (mk_ast (alloc_step st c) nx, false) /\ sshape n (alloc_step st c)).
    { unfold alloc_step. cbn [aexec ac_cls as_st as_next]. cbv zeta.
      destruct (N.eqb (nth c (s_used st) 0%N) 0); [split; [reflexivity|exact Hs]|].
      unfold upd_vlen, upd_first. cbn [s_slots s_used s_resv s_mark s_first s_vlen s_fuel_ok].
      destruct Hs as [H1 H2].
      rewrite nth_set_nth_eq by (rewrite H2; apply Hcs; now left).
      split; [reflexivity|]. split; cbn [s_used s_first]; [exact H1|now rewrite length_set_nth]. }
    destruct Hstep as [E Hs']. rewrite E. apply IH; [intros d Hd; apply Hcs; now right|exact Hs'].
  Qed.
End Driver.

Lemma aexec_new_mark L ms lb rt rl x s :
  aexec L ms lb rt rl ANewClassMark x s = Some (mk_ast (upd_mark (as_st s) (map (fun _ => false) (s_mark (as_st s)))) (as_next s), false).
Proof. reflexivity. Qed.

Lemma map_const_false : forall (l : list bool), map (fun _ => false) l = repeat false (length l).
Proof. induction l as [|b l IH]; cbn [map length repeat]; [reflexivity|now rewrite IH]. Qed.

Theorem src_assign_slots L ms : (forall c d, In d (nth c (l_derived L) []) -> d < length (l_keys L)) ->
  run_assign_slots L ms gen_lattice_assign gen_tree_slots gen_lattice_slots gen_assign_slots = Some (assign_slots L ms).
Proof.
  intro Hd. unfold run_assign_slots. cbv zeta. set (n := length (l_keys L)).
  change gen_assign_slots with main_body. unfold main_body.
  rewrite aexec_seq, aexec_new_mark. cbn [as_st as_next]. rewrite aexec_seq, aexec_for_classes. fold n.
  set (st0 := upd_mark (slots_start L ms) _).
  assert (E0 : st0 = slots_start L ms).
  { unfold st0, slots_start, upd_mark. cbv zeta. cbn [s_slots s_used s_resv s_mark s_first s_vlen s_fuel_ok]. fold n.
    now rewrite map_const_false, repeat_length. }
  rewrite E0. clear st0 E0.
  assert (Hs0 : sshape n (slots_start L ms)).
  { unfold slots_start, sshape. cbv zeta. cbn [s_used s_first]. fold n. now rewrite !repeat_length. }
  destruct (roots_loop L ms gen_lattice_assign n (tree_fun (S n) L ms gen_tree_slots) (lat_fun (S n) L ms gen_lattice_assign gen_lattice_slots)
              (fun st c => assign_tree (S n) L ms st c 0) (fun st c => assign_lattice (S n) L ms st c)
              (fun c st => src_assign_tree L ms (S n) c 0 st)
              (fun c st Hc Hs => src_assign_lattice L ms n Hd (S n) c st Hc Hs)
              (fun c st Hs => assign_tree_shape L ms n (S n) c 0 st Hs)
              (fun c st Hs => assign_lattice_shape L ms n (S n) c st Hs)
              (seq 0 n) (slots_start L ms) None) as [E1 Hs1]; [intros c Hc; apply in_seq in Hc; lia|exact Hs0|].
  rewrite E1. rewrite aexec_for_classes. fold n.
  rewrite (alloc_loop L ms gen_lattice_assign n _ _ (seq 0 n) _ None) by (try exact Hs1; intros c Hc; apply in_seq in Hc; lia).
  cbn [as_st]. reflexivity.
Qed.
