(* SlotSource.v — the body of the loop over cls.used_by_vp in compiler<Policy>::assign_lattice_slots, as TRANSLATED from
   detail/compiler.hpp on this run (Gen/GenSlot.v, interpreted by Model/MiniSlot.v), is Model.Compile.lattice_assign: the same
   slot is chosen for the (method, parameter), and the same bits end up used / reserved in the class, in its transitive bases,
   in its covariant classes and in their transitive bases — for every lattice and slot state in which the class has its two
   bitsets. *)
From Coq Require Import List NArith Bool Arith Lia.
From Y2 Require Import Model.Registry Model.Compile Model.MiniSlot Gen.GenSlot Proofs.LatListFacts.
Import ListNotations.

Section Slot.
  Variables (L : lattice) (c : nat) (mp : nat * nat).

  (* unfolding one constructor at a time, never under the binder of a loop *)
  Lemma lexec_seq a b cov base s :
    lexec L c mp (LSeq a b) cov base s = match lexec L c mp a cov base s with Some s' => lexec L c mp b cov base s' | None => None end.
  Proof. reflexivity. Qed.
  Lemma lexec_merge src dst cov base s :
    lexec L c mp (LMerge src dst) cov base s = match bread c s cov base src with Some v => bmerge c s cov base dst v | None => None end.
  Proof. reflexivity. Qed.
  Lemma lexec_copylocal src cov base s :
    lexec L c mp (LCopyLocal src) cov base s = match bread c s cov base src with Some v => Some (mk_ls (x_st s) (Some v) (x_slot s)) | None => None end.
  Proof. reflexivity. Qed.
  Lemma lexec_firstfree cov base s :
    lexec L c mp LFirstFree cov base s = match x_local s with Some l => Some (mk_ls (x_st s) (x_local s) (Some (first_free l))) | None => None end.
  Proof. reflexivity. Qed.
  Lemma lexec_setbit dst cov base s :
    lexec L c mp (LSetBit dst) cov base s = match x_slot s with Some slot => bsetbit c s dst slot | None => None end.
  Proof. reflexivity. Qed.
  Lemma lexec_setmethodslot cov base s :
    lexec L c mp LSetMethodSlot cov base s
    = match x_slot s with
      | Some slot => let st := x_st s in
                     Some (mk_ls (mk_ss (set_slot st mp slot) (s_used st) (s_resv st) (s_mark st) (s_first st) (s_vlen st) (s_fuel_ok st)) (x_local s) (x_slot s))
      | None => None
      end.
  Proof. reflexivity. Qed.

  Lemma lexec_forbases of_cov body cov base s :
    lexec L c mp (LForBases of_cov body) cov base s
    = match (if of_cov then cov else Some c) with
      | Some o => lfor (fun b s' => lexec L c mp body cov (Some b) s') (nth o (l_tb L) []) s
      | None => None
      end.
  Proof. reflexivity. Qed.
  Lemma lexec_forcov body cov base s :
    lexec L c mp (LForCovariant body) cov base s = lfor (fun d s' => lexec L c mp body (Some d) base s') (nth c (l_cov L) []) s.
  Proof. reflexivity. Qed.
  Lemma lexec_ifnotself body d base s :
    lexec L c mp (LIfNotSelf body) (Some d) base s = if Nat.eqb d c then Some s else lexec L c mp body (Some d) base s.
  Proof. reflexivity. Qed.

  (* for (base : <owner>.transitive_bases) merge_into(cls.used_slots, base->reserved_slots) *)
  Lemma bases_loop cov : forall bs s,
    lfor (fun b s' => lexec L c mp (LMerge BClsUsed BBaseResv) cov (Some b) s') bs s
    = Some (mk_ls (with_resv (x_st s) (fold_left (or_into (nth c (s_used (x_st s)) 0%N)) bs (s_resv (x_st s)))) (x_local s) (x_slot s)).
  Proof.
    induction bs as [|b r IH]; intros s; cbn [lfor fold_left].
    - destruct s as [[? ? ? ? ? ? ?] ? ?]; reflexivity.
    - cbn [lexec bread bmerge]. rewrite IH. cbn [x_st x_local x_slot with_resv s_used s_resv]. reflexivity.
  Qed.

  Definition cov_step (u : N) : list N * list N -> nat -> list N * list N :=
    fun '(us, rs) d => if Nat.eqb d c then (us, rs) else (or_into u us d, fold_left (or_into u) (nth d (l_tb L) []) rs).

  (* for (covariant : cls.covariant_classes) if (&cls != covariant) { covariant->used_slots |= cls.used_slots; and its bases } *)
  Lemma cov_loop base : forall ds s,
    lfor (fun d s' => lexec L c mp (LIfNotSelf (LSeq (LMerge BClsUsed BCovUsed) (LForBases true (LMerge BClsUsed BBaseResv)))) (Some d) base s') ds s
    = let u := nth c (s_used (x_st s)) 0%N in
      let '(us, rs) := fold_left (cov_step u) ds (s_used (x_st s), s_resv (x_st s)) in
      Some (mk_ls (with_resv (with_used (x_st s) us) rs) (x_local s) (x_slot s)).
  Proof.
    induction ds as [|d r IH]; intros s; cbn [lfor fold_left].
    - destruct s as [[? ? ? ? ? ? ?] ? ?]; reflexivity.
    - rewrite lexec_ifnotself. unfold cov_step at 2. cbn iota beta.
      destruct (Nat.eqb d c) eqn:Ed.
      + rewrite IH. reflexivity.
      + rewrite lexec_seq, lexec_merge. cbn [bread bmerge].
        match goal with |- context [lexec L c mp (LForBases true ?b) ?cv ?bs ?s1] =>
          rewrite (lexec_forbases true b cv bs s1) end.
        rewrite bases_loop. cbn [x_st x_local x_slot with_used with_resv s_used s_resv].
        rewrite IH. cbn [x_st x_local x_slot with_used with_resv s_used s_resv].
        assert (Hu : nth c (or_into (nth c (s_used (x_st s)) 0%N) (s_used (x_st s)) d) 0%N = nth c (s_used (x_st s)) 0%N).
        { unfold or_into. apply nth_upd_nth_neq. intros Q. subst d. rewrite Nat.eqb_refl in Ed. discriminate. }
        rewrite Hu.
        destruct (fold_left (cov_step (nth c (s_used (x_st s)) 0%N)) r _) as [us rs]. reflexivity.
  Qed.

  Theorem src_lattice_assign st : c < length (s_used st) ->
    run_lattice_assign L c mp gen_lattice_assign st = Some (lattice_assign L c st mp).
  Proof.
    intros Hc. unfold run_lattice_assign, gen_lattice_assign, lattice_assign.
    repeat (rewrite lexec_seq; rewrite ?lexec_merge, ?lexec_copylocal, ?lexec_firstfree, ?lexec_setbit, ?lexec_setmethodslot;
            cbn [bread bmerge bsetbit x_st x_local x_slot with_used with_resv s_used s_resv s_slots s_mark s_first s_vlen s_fuel_ok]).
    rewrite lexec_forbases. rewrite bases_loop.
    cbn [x_st x_local x_slot with_used with_resv s_used s_resv s_slots s_mark s_first s_vlen s_fuel_ok].
    rewrite lexec_forcov. rewrite cov_loop.
    cbn [x_st x_local x_slot with_used with_resv s_used s_resv s_slots s_mark s_first s_vlen s_fuel_ok].
    rewrite !(nth_set_nth_eq c (s_used st)) by exact Hc.
    set (used := nth c (s_used st) 0%N). set (resv := nth c (s_resv st) 0%N).
    set (slot := first_free (N.lor used resv)).
    set (used' := N.lor used (N.shiftl 1 (N.of_nat slot))).
    set (init := (set_nth c (s_used st) used',
                  fold_left (or_into used') (nth c (l_tb L) []) (set_nth c (s_resv st) (N.lor resv (N.shiftl 1 (N.of_nat slot)))))).
    change (fold_left (fun '(us, rs) d => if Nat.eqb d c then (us, rs)
                                          else (or_into used' us d, fold_left (or_into used') (nth d (l_tb L) []) rs))
                      (nth c (l_cov L) []) init)
      with (fold_left (cov_step used') (nth c (l_cov L) []) init).
    destruct (fold_left (cov_step used') (nth c (l_cov L) []) init) as [us rs].
    unfold with_resv, with_used. cbn [x_st s_slots s_used s_resv s_mark s_first s_vlen s_fuel_ok]. reflexivity.
  Qed.
End Slot.

(* ------------------------------------------------------------------ every (method, parameter) of the class, in order *)
Lemma lattice_assign_used_length L c st mp : length (s_used (lattice_assign L c st mp)) = length (s_used st).
Proof.
  unfold lattice_assign.
  set (used' := N.lor _ _).
  match goal with |- context [fold_left ?f (nth c (l_cov L) []) ?init] =>
    assert (H : forall ds acc, length (fst (fold_left f ds acc)) = length (fst acc))
  end.
  { induction ds as [|d r IH]; intros [us rs]; cbn [fold_left]; [reflexivity|].
    destruct (Nat.eqb d c); rewrite IH; cbn [fst]; [reflexivity|]. unfold or_into, upd_nth. apply length_set_nth. }
  match goal with |- context [fold_left ?f (nth c (l_cov L) []) ?init] =>
    specialize (H (nth c (l_cov L) []) init); destruct (fold_left f (nth c (l_cov L) []) init) as [us rs]
  end.
  cbn [s_used fst] in *. rewrite H. apply length_set_nth.
Qed.

Fixpoint run_lattice_class (L : lattice) (c : nat) (body : lstmt) (mps : list (nat * nat)) (st : sstate) : option sstate :=
  match mps with
  | [] => Some st
  | mp :: r => match run_lattice_assign L c mp body st with Some st' => run_lattice_class L c body r st' | None => None end
  end.

Theorem src_lattice_class L c : forall mps st, c < length (s_used st) ->
  run_lattice_class L c gen_lattice_assign mps st = Some (fold_left (lattice_assign L c) mps st).
Proof.
  induction mps as [|mp r IH]; intros st Hc; cbn [run_lattice_class fold_left]; [reflexivity|].
  rewrite src_lattice_assign by exact Hc. apply IH. rewrite lattice_assign_used_length. exact Hc.
Qed.
