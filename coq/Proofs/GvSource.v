(* GvSource.v — compiler<Policy>::install_gv as TRANSLATED from detail/compiler.hpp on this run (Gen/GenGv.v, interpreted by
   Model/MiniGv.v): running it on the tables, slots, first slots and v-table entries of an update yields exactly the
   dispatch-table offsets, the words, the static v-table pointers and the slots_strides of Model.Compile.install_with, the final
   content of dispatch_data is the model's image (what this update does not write keeps what the vector held), and every
   BOOST_ASSERT on the cursor holds. *)
From Coq Require Import List NArith ZArith Bool Arith Lia.
From Y2 Require Import Model.Registry Model.Compile Model.MiniGv Gen.GenGv.
Import ListNotations.

Lemma skipn_cons_nth {A} (l : list A) : forall i x r d, skipn i l = x :: r -> nth i l d = x /\ skipn (S i) l = r.
Proof.
  induction l as [|y t IH]; intros [|i] x r d H; cbn in *; try discriminate.
  - inversion H; subst. auto.
  - apply (IH i x r d H).
Qed.

Definition tab_total (mts : list (cmeth * ctable)) : nat := fold_right (fun mt s => length (t_cells (snd mt)) + s) 0 mts.
Definition vt_total (vts : list (list (nat * nat * nat))) : nat := fold_right (fun l s => length l + s) 0 vts.

Lemma tab_total_cons m t r : tab_total ((m, t) :: r) = length (t_cells t) + tab_total r.
Proof. reflexivity. Qed.

Lemma fold_left_add_tables (ts : list ctable) : forall a, fold_left (fun s t => s + length (t_cells t)) ts a = a + fold_right (fun t s => length (t_cells t) + s) 0 ts.
Proof. induction ts as [|t r IH]; intros a; cbn [fold_left fold_right]; [lia|]. rewrite IH. lia. Qed.

Lemma fold_left_add_vt (vts : list (list (nat * nat * nat))) : forall a, fold_left (fun s l => s + length l) vts a = a + vt_total vts.
Proof. induction vts as [|t r IH]; intros a; unfold vt_total; cbn [fold_left fold_right]; [lia|]. rewrite IH. unfold vt_total. lia. Qed.

Section Gv.
  Variables (ms : list cmeth) (tables : list ctable).
  Hypothesis Hlen : length tables = length ms.
  Variable total : nat.
  Variable slots_all : list (list nat).

  Definition ss_of (mi : nat) (m : cmeth) (t : ctable) : list nat :=
    let sl := nth mi slots_all [] in
    if length (cm_vp m) =? 1 then firstn 1 sl else sl ++ t_strides t.

  Fixpoint ss_list (mi : nat) (mts : list (cmeth * ctable)) : list (list nat) :=
    match mts with [] => [] | (m, t) :: r => ss_of mi m t :: ss_list (S mi) r end.

  (* ---------------------------------------------------------------- the methods loop *)
  Lemma src_methods body (Hbody : gf_loops gen_install_gv = LMethods body :: tl (gf_loops gen_install_gv)) :
    forall mts mi st,
      skipn mi (combine ms tables) = mts ->
      length (g_img st) + tab_total mts <= total ->
      methods_loop ms tables total body mi slots_all (length mts) st
      = let '(offs, img) := place_tables mi (length (g_img st)) mts in
        Some (mk_gs (g_img st ++ img) (g_ss st ++ ss_list mi mts) (g_offs st ++ offs) (g_vptrs st)).
  Proof.
    unfold gen_install_gv in Hbody. cbn [gf_loops tl] in Hbody. injection Hbody as Hb. subst body.
    induction mts as [|[m t] r IH]; intros mi st Hs Hroom.
    - cbn. rewrite !app_nil_r. destruct st; reflexivity.
    - destruct (skipn_cons_nth _ _ _ _ (dummy_m, dummy_t) Hs) as [Hn Hs'].
      assert (Hm : nth mi ms dummy_m = m /\ nth mi tables dummy_t = t).
      { rewrite combine_nth in Hn by (symmetry; exact Hlen). inversion Hn. auto. }
      destruct Hm as [Hm Ht].
      rewrite tab_total_cons in Hroom.
      cbn [length methods_loop place_tables ss_list] in *.
      cbn [gexec gceval ctx_method_arity]. rewrite Hm.
      destruct (length (cm_vp m) =? 1) eqn:Ea.
      + cbn [gexec a_ss a_off a_img].
        specialize (IH (S mi) (mk_gs (g_img st) (g_ss st ++ [firstn 1 (nth mi slots_all [])]) (g_offs st ++ [0]) (g_vptrs st)) Hs').
        cbn [g_img g_ss g_offs g_vptrs] in IH. rewrite IH by lia.
        destruct (place_tables (S mi) (length (g_img st)) r) as [offs img].
        unfold ss_of. rewrite Ea. rewrite <- !app_assoc. reflexivity.
      + cbn [gexec a_ss a_off a_img emit]. rewrite Ht.
        assert (Hr : length (g_img st) + length (t_cells t) <=? total = true) by (apply Nat.leb_le; lia).
        rewrite Hr. cbn [gexec a_ss a_off a_img emit].
        specialize (IH (S mi) (mk_gs (g_img st ++ map (word_of_cell mi) (t_cells t))
                                     (g_ss st ++ [nth mi slots_all [] ++ t_strides t]) (g_offs st ++ [length (g_img st)]) (g_vptrs st)) Hs').
        cbn [g_img g_ss g_offs g_vptrs] in IH. rewrite app_length, map_length in IH. rewrite IH by lia. rewrite map_length.
        destruct (place_tables (S mi) (length (g_img st) + length (t_cells t)) r) as [offs img].
        unfold ss_of. rewrite Ea. rewrite <- !app_assoc. reflexivity.
  Qed.

End Gv.

(* ---------------------------------------------------------------- the classes loop *)
Section EntriesLoop.
  Variables (ms : list cmeth) (tables : list ctable) (total : nat).
  Variable offs_all : list nat.

  Lemma src_entries (ex : gctx -> gacc -> gres)
        (Hstep : forall f e a, length (a_img a) + 1 <= total ->
                   exists a', ex (XEntry f e offs_all) (mk_ga (a_img a) (a_ss a) (a_off a) (a_vptr a) None) = GGo a' /\
                              a_img a' = a_img a ++ [entry_word ms tables offs_all e] /\
                              a_ss a' = a_ss a /\ a_off a' = a_off a /\ a_vptr a' = a_vptr a) :
    forall es f a, length (a_img a) + length es <= total ->
      exists a', entries_loop ex f offs_all es a = GGo a' /\
                 a_img a' = a_img a ++ map (entry_word ms tables offs_all) es /\
                 a_ss a' = a_ss a /\ a_off a' = a_off a /\ a_vptr a' = a_vptr a.
  Proof.
    induction es as [|e r IH]; intros f a Hroom; cbn [entries_loop map length] in *.
    - exists a. rewrite app_nil_r. auto.
    - destruct (Hstep f e a ltac:(lia)) as (a1 & E1 & I1 & S1 & O1 & V1). rewrite E1.
      destruct (IH f a1) as (a2 & E2 & I2 & S2 & O2 & V2).
      { rewrite I1, app_length. cbn. lia. }
      exists a2. split; [exact E2|]. rewrite I2, I1, <- app_assoc. cbn. repeat split; congruence.
  Qed.
End EntriesLoop.

(* one entry of the translated entries loop stores the model's entry_word (both spellings: three stores, or a local word) *)
Ltac entry_step_tac :=
  let f := fresh "f" in let mi := fresh "mi" in let vpi := fresh "vpi" in let g := fresh "g" in let a := fresh "a" in
  let Hroom := fresh "Hroom" in let Hr := fresh "Hr" in let Ea := fresh "Ea" in let Ev := fresh "Ev" in
  intros f [[mi vpi] g] a Hroom;
  assert (Hr : length (a_img a) + 1 <=? _ = true) by (apply Nat.leb_le; exact Hroom);
  unfold entry_word;
  cbn [gexec gceval gveval ctx_method_arity a_img a_ss a_off a_vptr a_word emit];
  match goal with |- context [length (cm_vp (nth mi ?l dummy_m)) =? 1] => destruct (length (cm_vp (nth mi l dummy_m)) =? 1) eqn:Ea end;
  cbn [gexec gceval gveval ctx_method_arity a_img a_ss a_off a_vptr a_word emit]; rewrite ?Hr;
  cbn [gexec gceval gveval ctx_method_arity a_img a_ss a_off a_vptr a_word emit];
  try (destruct (vpi =? 0) eqn:Ev;
       cbn [gexec gceval gveval ctx_method_arity a_img a_ss a_off a_vptr a_word emit]; rewrite ?Hr;
       cbn [gexec gceval gveval ctx_method_arity a_img a_ss a_off a_vptr a_word emit]);
  eexists; (split; [reflexivity|]); cbn [a_img a_ss a_off a_vptr emit]; unfold dummy_m, dummy_t in *;
  repeat match goal with H : (_ =? _) = _ |- _ => rewrite H; clear H end; repeat split; reflexivity.

Section Classes.
  Variables (ms : list cmeth) (tables : list ctable) (total : nat).

  Lemma src_classes cbody (Hbody : nth 1 (gf_loops gen_install_gv) (LMethods GSkip) = LClasses cbody) :
    forall firsts vts st,
      length (g_img st) + vt_total vts <= total ->
      classes_loop ms tables total cbody (map Some firsts) vts st
      = let '(vps, img) := place_vtbls (length (g_img st)) firsts (map (map (entry_word ms tables (g_offs st))) vts) in
        Some (mk_gs (g_img st ++ img) (g_ss st) (g_offs st) (g_vptrs st ++ vps)).
  Proof.
    unfold gen_install_gv in Hbody. cbn [gf_loops nth] in Hbody. injection Hbody as Hb. subst cbody.
    induction firsts as [|f firsts IH]; intros vts st Hroom.
    - cbn. rewrite !app_nil_r. destruct st; reflexivity.
    - destruct vts as [|vt vts]; [cbn; rewrite !app_nil_r; destruct st; reflexivity|].
      unfold vt_total in Hroom. cbn [fold_right] in Hroom. fold (vt_total vts) in Hroom.
      cbn [map classes_loop place_vtbls].
      cbn [gexec gceval a_img a_ss a_off a_vptr a_word].
      match goal with
      | |- context [entries_loop ?ex (Some f) ?offs vt ?a0] =>
          pose proof (src_entries ms tables total offs ex) as SE;
          match type of SE with ?P -> _ => assert (Hstep : P) by entry_step_tac; specialize (SE Hstep) end;
          destruct (SE vt (Some f) a0) as (a1 & E1 & I1 & S1 & O1 & V1); [cbn [a_img]; lia|]
      end.
      cbn [a_img a_ss a_off a_vptr] in *.
      rewrite E1. rewrite V1.
      specialize (IH vts (mk_gs (a_img a1) (g_ss st) (g_offs st) (g_vptrs st ++ [(Z.of_nat (length (g_img st)) - Z.of_nat f)%Z]))).
      cbn [g_img g_ss g_offs g_vptrs] in IH. rewrite IH by (rewrite I1, app_length, map_length; lia).
      rewrite I1, app_length, !map_length.
      destruct (place_vtbls (length (g_img st) + length vt) firsts (map (map (entry_word ms tables (g_offs st))) vts)) as [vps img].
      rewrite <- !app_assoc. reflexivity.
  Qed.
End Classes.

(* ------------------------------------------------------------------ the whole function *)
Lemma place_tables_length : forall mts mi off, length (snd (place_tables mi off mts)) <= tab_total mts.
Proof.
  induction mts as [|[m t] r IH]; intros mi off; [cbn; lia|].
  rewrite tab_total_cons. cbn [place_tables]. destruct (length (cm_vp m) =? 1).
  - specialize (IH (S mi) off). destruct (place_tables (S mi) off r) as [o i]. cbn in *. lia.
  - specialize (IH (S mi) (off + length (map (word_of_cell mi) (t_cells t)))).
    destruct (place_tables (S mi) (off + length (map (word_of_cell mi) (t_cells t))) r) as [o i]. cbn [snd] in *.
    rewrite app_length, map_length. lia.
Qed.

Lemma place_vtbls_length : forall firsts (vts : list (list word)) off,
  length (snd (place_vtbls off firsts vts)) <= fold_right (fun l s => length l + s) 0 vts.
Proof.
  induction firsts as [|f r IH]; intros vts off; [cbn; lia|].
  destruct vts as [|w vts]; [cbn; lia|]. cbn [place_vtbls fold_right].
  specialize (IH vts (off + length w)). destruct (place_vtbls (off + length w) r vts) as [v i]. cbn [snd] in *.
  rewrite app_length. lia.
Qed.

Lemma tab_total_combine : forall (ms : list cmeth) (ts : list ctable), length ts = length ms ->
  tab_total (combine ms ts) = fold_right (fun t s => length (t_cells t) + s) 0 ts.
Proof.
  induction ms as [|m r IH]; intros [|t ts] H; cbn in *; try discriminate; try reflexivity.
  rewrite <- (IH ts) by lia. reflexivity.
Qed.

Lemma firstn_repeat_le {A} (x : A) : forall k T, k <= T -> firstn k (repeat x T) = repeat x k.
Proof. induction k as [|k IH]; intros [|T] H; cbn; try reflexivity; try lia. rewrite IH by lia. reflexivity. Qed.

Lemma firstn_app_repeat {A} (x : A) : forall (a : list A) k T, k <= T -> firstn k (a ++ repeat x T) = firstn k (a ++ repeat x k).
Proof.
  induction a as [|y r IH]; intros k T H.
  - cbn [app]. rewrite !firstn_repeat_le by lia. reflexivity.
  - destruct k as [|k]; [reflexivity|]. cbn [app firstn]. f_equal.
    rewrite (IH k T) by lia. rewrite (IH k (S k)) by lia. reflexivity.
Qed.

Lemma skipn_repeat_ {A} (x : A) : forall m T, skipn m (repeat x T) = repeat x (T - m).
Proof. induction m as [|m IH]; intros [|T]; cbn; try reflexivity. apply IH. Qed.

Lemma resized_tail stale n T : n <= T ->
  skipn n (resized stale T) = firstn (T - n) (skipn n stale ++ repeat WJunk (T - n)).
Proof.
  intros H. unfold resized.
  replace T with (n + (T - n)) at 1 by lia. rewrite <- firstn_skipn_comm.
  rewrite skipn_app, skipn_repeat_. apply firstn_app_repeat. lia.
Qed.

Lemma vt_total_map (f : nat * nat * nat -> word) vts :
  fold_right (fun l s => length l + s) 0 (map (map f) vts) = vt_total vts.
Proof. induction vts as [|v r IH]; cbn; [reflexivity|]. rewrite map_length, IH. reflexivity. Qed.

Lemma ss_list_map (st : sstate) : forall mts n,
  ss_list (s_slots st) n mts = map (fun '(mi, (m, t)) => slots_strides_of st mi m t) (combine (seq n (length mts)) mts).
Proof.
  induction mts as [|[m t] r IH]; intros n; [reflexivity|]. cbn [ss_list length seq combine map]. rewrite IH. reflexivity.
Qed.

Theorem src_install_gv stale L ms st :
  let C := install_with stale L ms st in
  exists img, run_gv gen_install_gv stale ms (o_tables C) (s_slots st) (s_first st) (o_vtbl C)
              = Some (mk_gs img (o_ss C) (o_table_off C) (o_vptr C), o_image C).
Proof.
  cbv zeta. unfold install_with.
  set (tables := map (build_method L) ms). set (vt := write_vtbls L ms st).
  assert (Hlen : length tables = length ms) by (unfold tables; apply map_length).
  destruct (place_tables 0 0 (combine ms tables)) as [offs img1] eqn:Ept.
  destruct (place_vtbls (length img1) (s_first st) (map (map (entry_word ms tables offs)) vt)) as [vptrs img2] eqn:Epv.
  cbn [o_tables o_ss o_table_off o_vptr o_image o_vtbl].
  unfold run_gv, gen_install_gv. cbn [gf_size gf_loops gsize_of run_loops].
  assert (Htot : total_cells tables vt = fold_right (fun t s => length (t_cells t) + s) 0 tables + vt_total vt).
  { unfold total_cells. rewrite fold_left_add_tables, fold_left_add_vt. lia. }
  set (total := total_cells tables vt) in *.
  (* the methods *)
  pose proof (src_methods ms tables Hlen total (s_slots st) _ eq_refl (combine ms tables) 0 (mk_gs [] [] [] []) eq_refl) as M.
  cbn [g_img g_ss g_offs g_vptrs length app] in M.
  rewrite combine_length, Hlen, Nat.min_id in M.
  rewrite M by (rewrite tab_total_combine by exact Hlen; lia). clear M.
  rewrite Ept.
  (* the classes *)
  pose proof (place_tables_length (combine ms tables) 0 0) as L1. rewrite Ept in L1. cbn [snd] in L1.
  rewrite tab_total_combine in L1 by exact Hlen.
  pose proof (src_classes ms tables total _ eq_refl (s_first st) vt
                (mk_gs img1 (ss_list (s_slots st) 0 (combine ms tables)) offs [])) as K.
  cbn [g_img g_ss g_offs g_vptrs app] in K. rewrite K by lia. clear K.
  rewrite Epv. cbn [app g_img].
  pose proof (place_vtbls_length (s_first st) (map (map (entry_word ms tables offs)) vt) (length img1)) as L2.
  rewrite Epv, vt_total_map in L2. cbn [snd] in L2.
  eexists. f_equal. f_equal.
  - f_equal.
    (* slots_strides *)
    rewrite ss_list_map, combine_length, Hlen, Nat.min_id. reflexivity.
  - rewrite resized_tail by (rewrite app_length; lia). reflexivity.
Qed.
