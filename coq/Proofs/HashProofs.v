(* Lemmas about Model/Hash.v (property C05). *)
From Coq Require Import NArith List Bool Lia Permutation.
From Y2 Require Import Gen.GenHashConsts Model.Hash.
Import ListNotations.
Open Scope N_scope.

Arguments N.mul : simpl never.
Arguments N.pow : simpl never.
Arguments N.sub : simpl never.
Arguments N.add : simpl never.
Arguments N.shiftr : simpl never.
Arguments N.land : simpl never.
Arguments N.lor : simpl never.
Arguments N.ones : simpl never.
Arguments N.to_nat : simpl never.
Arguments N.of_nat : simpl never.
Arguments N.min : simpl never.
Arguments N.max : simpl never.
Arguments N.leb : simpl never.
Arguments N.eqb : simpl never.
Arguments N.div : simpl never.
Arguments N.modulo : simpl never.

(* ================================================================ lists as vectors *)

Lemma set_nth_length : forall (A : Type) (l : list A) n x, length (set_nth n x l) = length l.
Proof.
  induction l as [|y r IH]; intros n x; cbn [set_nth length]; [reflexivity|].
  destruct n; cbn [length]; [reflexivity|]. now rewrite IH.
Qed.

Lemma nth_set_nth_eq : forall (A : Type) (l : list A) n x d,
  (n < length l)%nat -> nth n (set_nth n x l) d = x.
Proof.
  induction l as [|y r IH]; intros n x d Hn; cbn [length] in Hn; [lia|].
  destruct n; cbn [set_nth nth]; [reflexivity|]. apply IH. lia.
Qed.

Lemma nth_set_nth_neq : forall (A : Type) (l : list A) n m x d,
  n <> m -> nth m (set_nth n x l) d = nth m l d.
Proof.
  induction l as [|y r IH]; intros n m x d Hnm; cbn [set_nth]; [reflexivity|].
  destruct n, m; cbn [nth]; try reflexivity; try lia.
  apply IH. lia.
Qed.

Lemma nth_repeat_same : forall (A : Type) (d : A) n k, nth k (repeat d n) d = d.
Proof.
  induction n as [|n IH]; intros k; cbn [repeat]; destruct k; cbn [nth]; auto.
Qed.

Lemma nth_firstn_lt : forall (A : Type) n (l : list A) k d,
  (k < n)%nat -> nth k (firstn n l) d = nth k l d.
Proof.
  induction n as [|n IH]; intros l k d Hk; [lia|].
  destruct l as [|y r]; cbn [firstn]; [reflexivity|].
  destruct k; cbn [nth]; [reflexivity|]. apply IH. lia.
Qed.

Lemma resize_length : forall (A : Type) n (l : list A) d, length (resize n l d) = n.
Proof.
  intros A n l d. unfold resize. rewrite app_length, firstn_length, repeat_length. lia.
Qed.

Lemma nth_resize_old : forall (A : Type) n (l : list A) d d' k,
  (k < n)%nat -> (k < length l)%nat -> nth k (resize n l d) d' = nth k l d'.
Proof.
  intros A n l d d' k Hn Hl. unfold resize.
  rewrite app_nth1 by (rewrite firstn_length; lia).
  now apply nth_firstn_lt.
Qed.

Lemma nth_resize_new : forall (A : Type) n (l : list A) d k,
  (length l <= k)%nat -> nth k (resize n l d) d = d.
Proof.
  intros A n l d k Hl. unfold resize.
  rewrite app_nth2 by (rewrite firstn_length; lia).
  apply nth_repeat_same.
Qed.

Lemma NoDup_snoc : forall (A : Type) (l : list A) x, NoDup l -> ~ In x l -> NoDup (l ++ [x]).
Proof.
  intros A l x Hl Hx.
  apply (Permutation_NoDup (l := x :: l)); [apply Permutation_cons_append|].
  now constructor.
Qed.

Lemma vset_length : forall b i x, length (vset b i x) = length b.
Proof. intros. unfold vset. apply set_nth_length. Qed.

Lemma vget_vset_eq : forall b i x, (N.to_nat i < length b)%nat -> vget (vset b i x) i = x.
Proof. intros. unfold vget, vset. now apply nth_set_nth_eq. Qed.

Lemma vget_vset_neq : forall b i j x, i <> j -> vget (vset b i x) j = vget b j.
Proof.
  intros b i j x Hij. unfold vget, vset. apply nth_set_nth_neq.
  intro E. apply Hij. now apply N2Nat.inj.
Qed.

Lemma vget_repeat : forall n i, vget (repeat sentinel n) i = sentinel.
Proof. intros. unfold vget. apply nth_repeat_same. Qed.

(* ================================================================ arithmetic of the hash *)

Lemma hash_spec : forall m s t, hash m s t = ((m * t) mod 2 ^ word_bits) / 2 ^ s.
Proof.
  intros. unfold hash. now rewrite N.land_ones, N.shiftr_div_pow2.
Qed.

(* with hash_shift = word_bits - M the index is inside a table of 2^M buckets (for every M) *)
Lemma hash_lt : forall m M t, hash m (word_bits - M) t < 2 ^ M.
Proof.
  intros m M t. rewrite hash_spec.
  assert (Hw : (m * t) mod 2 ^ word_bits < 2 ^ word_bits)
    by (apply N.mod_upper_bound, N.pow_nonzero; discriminate).
  destruct (N.le_gt_cases M word_bits) as [Hle|Hgt].
  - apply N.div_lt_upper_bound; [apply N.pow_nonzero; discriminate|].
    rewrite <- N.pow_add_r. replace (word_bits - M + M) with word_bits by lia. exact Hw.
  - replace (word_bits - M) with 0 by lia. rewrite N.pow_0_r, N.div_1_r.
    eapply N.lt_le_trans; [exact Hw|]. apply N.pow_le_mono_r; [discriminate|lia].
Qed.

Lemma hash_lt_nat : forall m M t, (N.to_nat (hash m (word_bits - M) t) < N.to_nat (2 ^ M))%nat.
Proof. intros. pose proof (hash_lt m M t). lia. Qed.

(* the loop `for (size = N*5/4; size >>= 1;) ++M` counts the binary digits after the first one *)
Lemma halvings_size : forall p, 1 + halvings p = Npos (Pos.size p).
Proof.
  induction p as [q IH|q IH|]; cbn [halvings Pos.size]; [| |reflexivity];
    rewrite IH; lia.
Qed.

Lemma halvings_log2 : forall p, halvings p = N.log2 (Npos p).
Proof.
  intros [q|q|]; cbn [halvings N.log2]; [apply halvings_size|apply halvings_size|reflexivity].
Qed.

Lemma first_M_log2 : forall n,
  first_M n = M_initial + N.log2 (n * growth_num / growth_den).
Proof.
  intros n. unfold first_M. destruct (n * growth_num / growth_den) as [|p].
  - cbn. lia.
  - now rewrite halvings_log2.
Qed.

(* the first table already has more buckets than N*5/4 (as long as M starts at 1 or more) *)
Lemma first_M_buckets : forall n, 1 <= M_initial -> n * growth_num / growth_den < 2 ^ first_M n.
Proof.
  intros n HM. rewrite first_M_log2.
  destruct (n * growth_num / growth_den) as [|p] eqn:E.
  - apply N.neq_0_lt_0, N.pow_nonzero. discriminate.
  - eapply N.lt_le_trans; [apply (N.log2_spec (Npos p)); reflexivity|].
    apply N.pow_le_mono_r; [discriminate|lia].
Qed.

(* ================================================================ one attempt *)

Section Attempt.
  Variables mult shift : N.
  Variable size : nat.
  Hypothesis Hrange : forall t, (N.to_nat (hash mult shift t) < size)%nat.

  (* what the accumulator satisfies after the ids `seen` have been processed, as long as no collision was found *)
  Definition good (seen : list N) (a : acc) : Prop :=
    length (a_buckets a) = size /\
    (a_found a = true ->
       NoDup (map (hash mult shift) seen) /\
       (forall t, In t seen ->
                  t <> sentinel /\ vget (a_buckets a) (hash mult shift t) = t /\ hash mult shift t <= a_max a) /\
       (forall i, vget (a_buckets a) i <> sentinel ->
                  In (vget (a_buckets a) i) seen /\ hash mult shift (vget (a_buckets a) i) = i)).

  Lemma attempt_class_good : forall ids seen a,
    good seen a -> ~ In sentinel ids ->
    good (seen ++ ids) (attempt_class mult shift ids a) /\
    a_max a <= a_max (attempt_class mult shift ids a) /\
    a_min (attempt_class mult shift ids a) <= a_min a /\
    (a_found (attempt_class mult shift ids a) = true -> a_found a = true).
  Proof.
    induction ids as [|t r IH]; intros seen a Hg Hs; cbn [attempt_class].
    - rewrite app_nil_r. split; [exact Hg|]. split; [lia|]. split; [lia|auto].
    - destruct (vget (a_buckets a) (hash mult shift t) =? sentinel) eqn:E.
      + apply N.eqb_eq in E.
        set (a1 := mk_acc (vset (a_buckets a) (hash mult shift t) t)
                          (N.min (a_min a) (hash mult shift t))
                          (N.max (a_max a) (hash mult shift t)) (a_found a)).
        assert (Hg1 : good (seen ++ [t]) a1).
        { destruct Hg as [Hlen Hf]. split; [subst a1; cbn [a_buckets]; now rewrite vset_length|].
          subst a1; cbn [a_buckets a_found a_max]. intros Hfound.
          destruct (Hf Hfound) as (Hnd & Hin & Hocc).
          assert (Hfresh : forall t', In t' seen -> hash mult shift t' <> hash mult shift t).
          { intros t' Ht' Heq. destruct (Hin t' Ht') as (Hns & Hv & _).
            rewrite Heq, E in Hv. congruence. }
          split; [|split].
          - rewrite map_app. cbn [map]. apply NoDup_snoc; [exact Hnd|].
            intro Hc. apply in_map_iff in Hc. destruct Hc as (t' & Heq & Ht').
            exact (Hfresh t' Ht' Heq).
          - intros t' Ht'. apply in_app_or in Ht'. destruct Ht' as [Ht'|[<-|[]]].
            + destruct (Hin t' Ht') as (Hns & Hv & Hle). split; [exact Hns|split].
              * rewrite vget_vset_neq; [exact Hv|]. intro Heq. exact (Hfresh t' Ht' (eq_sym Heq)).
              * lia.
            + split; [intro Heq; apply Hs; left; now symmetry|split].
              * apply vget_vset_eq. rewrite Hlen. apply Hrange.
              * lia.
          - intros i Hi. destruct (N.eq_dec (hash mult shift t) i) as [Heq|Hne].
            + subst i. rewrite vget_vset_eq in * by (rewrite Hlen; apply Hrange).
              split; [apply in_or_app; right; now left|reflexivity].
            + rewrite vget_vset_neq in * by exact Hne.
              destruct (Hocc i Hi) as (Hin' & Hh). split; [apply in_or_app; now left|exact Hh]. }
        destruct (IH (seen ++ [t]) a1 Hg1) as (G & Hmx & Hmn & Hfd).
        { intro Hc. apply Hs. now right. }
        rewrite <- app_assoc in G. cbn [app] in G.
        split; [exact G|]. subst a1; cbn [a_max a_min a_found] in *.
        split; [lia|]. split; [lia|exact Hfd].
      + destruct Hg as [Hlen _].
        split; [split; [exact Hlen|cbn [a_found]; discriminate]|].
        cbn [a_max a_min a_found]. split; [lia|]. split; [lia|discriminate].
  Qed.

  Lemma attempt_classes_good : forall classes seen a,
    good seen a -> ~ In sentinel (all_ids classes) ->
    good (seen ++ all_ids classes) (attempt_classes mult shift classes a) /\
    a_max a <= a_max (attempt_classes mult shift classes a) /\
    a_min (attempt_classes mult shift classes a) <= a_min a /\
    (a_found (attempt_classes mult shift classes a) = true -> a_found a = true).
  Proof.
    unfold attempt_classes.
    induction classes as [|c cs IH]; intros seen a Hg Hs; cbn [fold_left all_ids flat_map].
    - rewrite app_nil_r. split; [exact Hg|]. split; [lia|]. split; [lia|auto].
    - cbn [all_ids flat_map] in Hs.
      destruct (attempt_class_good (cls_ids c) seen a Hg) as (G1 & Hmx1 & Hmn1 & Hf1).
      { intro Hc. apply Hs. apply in_or_app. now left. }
      destruct (IH (seen ++ cls_ids c) _ G1) as (G2 & Hmx2 & Hmn2 & Hf2).
      { intro Hc. apply Hs. apply in_or_app. now right. }
      rewrite <- app_assoc in G2.
      split; [exact G2|]. split; [lia|]. split; [lia|auto].
  Qed.

  Lemma attempt_good : forall classes mn mx,
    ~ In sentinel (all_ids classes) ->
    good (all_ids classes) (attempt mult shift size classes mn mx) /\
    mx <= a_max (attempt mult shift size classes mn mx) /\
    a_min (attempt mult shift size classes mn mx) <= mn.
  Proof.
    intros classes mn mx Hs. unfold attempt.
    destruct (attempt_classes_good classes [] (mk_acc (repeat sentinel size) mn mx true)) as (G & Hmx & Hmn & _).
    - split; [cbn [a_buckets]; apply repeat_length|].
      intros _. cbn [a_buckets map]. split; [constructor|]. split.
      + intros t [].
      + intros i Hi. exfalso. apply Hi. apply vget_repeat.
    - exact Hs.
    - cbn [app a_max a_min] in *. auto.
  Qed.
End Attempt.

(* ================================================================ what a successful search installs *)

(* every registered id has its own index below hash_length; (checked) control holds, at every index the
   hash can produce below hash_length, either the registered id that owns it or the sentinel *)
Definition perfect (checked : bool) (classes : list cls) (st' : hstate) : Prop :=
  (forall t, In t (all_ids classes) -> hash_st st' t < h_length st') /\
  NoDup (map (hash_st st') (all_ids classes)) /\
  h_length st' = h_max st' + 1 /\
  (checked = true ->
     length (h_control st') = N.to_nat (h_length st') /\
     (forall t, In t (all_ids classes) -> vget (h_control st') (hash_st st' t) = t) /\
     (forall t, hash_st st' t < h_length st' ->
                vget (h_control st') (hash_st st' t) = sentinel \/
                In (vget (h_control st') (hash_st st' t)) (all_ids classes))).

Lemma pass_loop_spec : forall M classes budget, ~ In sentinel (all_ids classes) ->
  forall stream attempts mult mn mx buckets,
  attempts <= budget ->
  length buckets = N.to_nat (2 ^ M) ->
  match pass_loop (word_bits - M) (N.to_nat (2 ^ M)) classes budget stream attempts mult mn mx buckets with
  | PassFound rest att' mult' a =>
      a_found a = true /\ good mult' (word_bits - M) (N.to_nat (2 ^ M)) (all_ids classes) a /\
      mx <= a_max a /\ a_min a <= mn /\ attempts < att' /\ att' <= budget /\
      N.of_nat (length stream) = N.of_nat (length rest) + (att' - attempts)
  | PassFail rest att' mult' mn' mx' b' =>
      att' = budget /\ mx <= mx' /\ mn' <= mn /\ length b' = N.to_nat (2 ^ M) /\
      N.of_nat (length stream) = N.of_nat (length rest) + (att' - attempts)
  | PassStream => N.of_nat (length stream) < budget - attempts
  end.
Proof.
  intros M classes budget Hs.
  induction stream as [|x rest IH]; intros attempts mult mn mx buckets Hle Hlen; cbn [pass_loop].
  - destruct (budget <=? attempts) eqn:E.
    + apply N.leb_le in E. repeat split; try lia; try exact Hlen.
    + apply N.leb_gt in E. cbn [length]. lia.
  - destruct (budget <=? attempts) eqn:E.
    + apply N.leb_le in E. repeat split; try lia; try exact Hlen.
    + apply N.leb_gt in E.
      destruct (attempt_good (N.lor x 1) (word_bits - M) (N.to_nat (2 ^ M))
                             (fun t => hash_lt_nat (N.lor x 1) M t) classes mn mx Hs) as (G & Hmx & Hmn).
      destruct (a_found (attempt (N.lor x 1) (word_bits - M) (N.to_nat (2 ^ M)) classes mn mx)) eqn:F.
      * cbn [length]. split; [exact F|]. split; [exact G|]. repeat split; lia.
      * specialize (IH (attempts + 1) (N.lor x 1) (a_min (attempt (N.lor x 1) (word_bits - M) (N.to_nat (2 ^ M)) classes mn mx))
                       (a_max (attempt (N.lor x 1) (word_bits - M) (N.to_nat (2 ^ M)) classes mn mx))
                       (a_buckets (attempt (N.lor x 1) (word_bits - M) (N.to_nat (2 ^ M)) classes mn mx))).
        destruct G as [Gl _].
        specialize (IH ltac:(lia) Gl).
        destruct (pass_loop (word_bits - M) (N.to_nat (2 ^ M)) classes budget rest (attempts + 1) (N.lor x 1) _ _ _)
          as [rest' att' mult' a|rest' att' mult' mn' mx' b'|]; cbn [length].
        -- destruct IH as (H1 & H2 & H3 & H4 & H5 & H6 & H7). split; [exact H1|]. split; [exact H2|]. repeat split; lia.
        -- destruct IH as (H1 & H2 & H3 & H4 & H5). repeat split; try assumption; try lia.
        -- lia.
Qed.

Lemma found_perfect : forall checked M classes mult a control,
  a_found a = true ->
  good mult (word_bits - M) (N.to_nat (2 ^ M)) (all_ids classes) a ->
  perfect checked classes
          (mk_hstate mult (word_bits - M) (a_max a + 1) (a_min a) (a_max a)
                     (if checked then resize (N.to_nat (a_max a + 1)) (a_buckets a) 0 else control)).
Proof.
  intros checked M classes mult a control Hf [Hlen Hg].
  destruct (Hg Hf) as (Hnd & Hin & Hocc).
  unfold perfect, hash_st; cbn [h_mult h_shift h_length h_max h_control].
  split; [|split; [exact Hnd|split; [reflexivity|]]].
  - intros t Ht. destruct (Hin t Ht) as (_ & _ & Hle). lia.
  - intros ->.
    assert (Hc : forall i, i < a_max a + 1 -> i < 2 ^ M ->
                 vget (resize (N.to_nat (a_max a + 1)) (a_buckets a) 0) i = vget (a_buckets a) i).
    { intros i H1 H2. unfold vget. apply nth_resize_old; [lia|rewrite Hlen; lia]. }
    split; [apply resize_length|split].
    + intros t Ht. destruct (Hin t Ht) as (_ & Hv & Hle).
      rewrite Hc; [exact Hv|lia|apply hash_lt].
    + intros t Ht. rewrite Hc; [|exact Ht|apply hash_lt].
      destruct (N.eq_dec (vget (a_buckets a) (hash mult (word_bits - M) t)) sentinel) as [E|E]; [now left|right].
      now destruct (Hocc _ E).
Qed.

Lemma passes_loop_spec : forall checked classes budget, ~ In sentinel (all_ids classes) ->
  forall npass M stream total mult shift len mn mx buckets control,
  match passes_loop checked npass M classes budget stream total mult shift len mn mx buckets control with
  | Found st' n =>
      perfect checked classes st' /\ mx <= h_max st' /\ h_min st' <= mn /\
      total < n /\ n <= total + N.of_nat npass * budget /\
      (exists k, k < N.of_nat npass /\ h_shift st' = word_bits - (M + k) /\ total + k * budget < n /\ n <= total + (k + 1) * budget)
  | SearchError n b st' =>
      n = total + N.of_nat npass * budget /\ b = 2 ^ (M + N.of_nat npass) /\
      mx <= h_max st' /\ h_min st' <= mn /\ h_length st' = (match npass with O => len | S _ => 0 end)
  | StreamExhausted => N.of_nat (length stream) < N.of_nat npass * budget
  end.
Proof.
  intros checked classes budget Hs.
  induction npass as [|k IH]; intros M stream total mult shift len mn mx buckets control; cbn [passes_loop].
  - cbn [h_max h_min h_length]. change (N.of_nat 0) with 0. rewrite N.mul_0_l, !N.add_0_r. repeat split; lia.
  - pose proof (pass_loop_spec M classes budget Hs stream 0 mult mn mx (resize (N.to_nat (2 ^ M)) buckets 0)
                               (N.le_0_l _) (resize_length _ _ _ _)) as P.
    destruct (pass_loop (word_bits - M) (N.to_nat (2 ^ M)) classes budget stream 0 mult mn mx
                        (resize (N.to_nat (2 ^ M)) buckets 0)) as [rest att' mult' a|rest att' mult' mn' mx' b'|].
    + destruct P as (Hf & G & Hmx & Hmn & Hlt & Hle & _).
      split; [now apply found_perfect|]. cbn [h_max h_min h_shift].
      split; [exact Hmx|]. split; [exact Hmn|]. split; [lia|]. split; [lia|].
      exists 0. rewrite N.add_0_r. repeat split; lia.
    + destruct P as (-> & Hmx & Hmn & Hlb & Hlen).
      specialize (IH (M + 1) rest (total + budget) mult' (word_bits - M) 0 mn' mx' b' control).
      destruct (passes_loop checked k (M + 1) classes budget rest (total + budget) mult' (word_bits - M) 0 mn' mx' b' control)
        as [st' n|n b st'|].
      * destruct IH as (Hp & H1 & H2 & H3 & H4 & (j & Hj1 & Hj2 & Hj3 & Hj4)).
        split; [exact Hp|]. split; [lia|]. split; [lia|]. split; [lia|]. split; [lia|].
        exists (j + 1). split; [lia|]. split; [rewrite Hj2; f_equal; lia|]. split; lia.
      * destruct IH as (-> & -> & H1 & H2 & H3).
        split; [lia|]. split; [f_equal; lia|]. split; [lia|]. split; [lia|].
        destruct k; exact H3 || (rewrite H3; reflexivity).
      * lia.
    + lia.
Qed.

(* ---------------------------------------------------------------- hash_initialize *)

Lemma hash_initialize_spec : forall checked stream budget st classes,
  ~ In sentinel (all_ids classes) ->
  match hash_initialize checked stream budget st classes with
  | Found st' n =>
      perfect checked classes st' /\ h_max st <= h_max st' /\ h_min st' <= h_min st /\
      1 <= n /\ n <= N.of_nat passes * budget /\
      (exists k, k < N.of_nat passes /\
                 h_shift st' = word_bits - (first_M (N.of_nat (length classes)) + k) /\
                 k * budget < n /\ n <= (k + 1) * budget)
  | SearchError n b st' =>
      n = N.of_nat passes * budget /\
      b = 2 ^ (first_M (N.of_nat (length classes)) + N.of_nat passes) /\
      h_max st <= h_max st' /\ h_min st' <= h_min st /\
      h_length st' = (match passes with O => h_length st | S _ => 0 end)
  | StreamExhausted => N.of_nat (length stream) < N.of_nat passes * budget
  end.
Proof.
  intros checked stream budget st classes Hs. unfold hash_initialize.
  pose proof (passes_loop_spec checked classes budget Hs passes (first_M (N.of_nat (length classes))) stream
                               0 (h_mult st) (h_shift st) (h_length st) (h_min st) (h_max st)
                               (if checked then h_control st else []) (h_control st)) as P.
  destruct (passes_loop checked passes (first_M (N.of_nat (length classes))) classes budget stream
                        0 (h_mult st) (h_shift st) (h_length st) (h_min st) (h_max st)
                        (if checked then h_control st else []) (h_control st)) as [st' n|n b st'|].
  - destruct P as (Hp & H1 & H2 & H3 & H4 & (k & Hk1 & Hk2 & Hk3 & Hk4)).
    rewrite !N.add_0_l in *.
    split; [exact Hp|]. split; [exact H1|]. split; [exact H2|]. split; [lia|]. split; [lia|].
    exists k. split; [exact Hk1|]. split; [exact Hk2|]. split; lia.
  - destruct P as (-> & -> & H1 & H2 & H3). rewrite N.add_0_l.
    split; [reflexivity|]. split; [reflexivity|]. split; [exact H1|]. split; [exact H2|exact H3].
  - exact P.
Qed.

(* a stream at least as long as the whole budget is never exhausted *)
Lemma hash_initialize_stream : forall checked stream budget st classes,
  ~ In sentinel (all_ids classes) ->
  N.of_nat passes * budget <= N.of_nat (length stream) ->
  hash_initialize checked stream budget st classes <> StreamExhausted.
Proof.
  intros checked stream budget st classes Hs Hlen E.
  pose proof (hash_initialize_spec checked stream budget st classes Hs) as P.
  rewrite E in P. lia.
Qed.

(* ---------------------------------------------------------------- lookups *)

Lemma checked_lookup_registered : forall classes st' t,
  perfect true classes st' -> In t (all_ids classes) ->
  checked_lookup st' t = Ok (hash_st st' t).
Proof.
  intros classes st' t (Hr & _ & _ & Hc) Ht. destruct (Hc eq_refl) as (_ & Hv & _).
  unfold checked_lookup.
  specialize (Hr t Ht). specialize (Hv t Ht).
  destruct (h_length st' <=? hash_st st' t) eqn:E; [apply N.leb_le in E; lia|].
  rewrite Hv, N.eqb_refl. reflexivity.
Qed.

Lemma checked_lookup_unregistered : forall classes st' t,
  perfect true classes st' -> ~ In t (all_ids classes) -> t <> sentinel ->
  checked_lookup st' t = Error (UnknownClass t).
Proof.
  intros classes st' t (_ & _ & _ & Hc) Ht Hns. destruct (Hc eq_refl) as (_ & _ & Ho).
  unfold checked_lookup.
  destruct (h_length st' <=? hash_st st' t) eqn:E; [reflexivity|].
  apply N.leb_gt in E. cbn [orb].
  destruct (vget (h_control st') (hash_st st' t) =? t) eqn:F; [|reflexivity].
  apply N.eqb_eq in F. exfalso.
  destruct (Ho t E) as [H|H]; rewrite F in H; auto.
Qed.

Lemma lookup_registered : forall checked classes st' t,
  perfect checked classes st' -> In t (all_ids classes) ->
  lookup checked st' t = Ok (hash_st st' t).
Proof.
  intros [|] classes st' t Hp Ht; unfold lookup; [|reflexivity].
  now apply (checked_lookup_registered classes).
Qed.

(* ---------------------------------------------------------------- publish_vptrs *)

(* the two loops of publish_vptrs, flattened: one write per (class, id) *)
Definition writes (classes : list cls) : list (N * N) :=
  flat_map (fun c => map (fun t => (cls_vptr c, t)) (cls_ids c)) classes.

Definition apply_writes (st : hstate) (ws : list (N * N)) (v : vptrs_t) : vptrs_t :=
  fold_left (fun v w => set_nth (N.to_nat (hash_st st (snd w))) (Some (fst w)) v) ws v.

Lemma writes_ids : forall classes, map snd (writes classes) = all_ids classes.
Proof.
  induction classes as [|c cs IH]; cbn [writes all_ids flat_map map]; [reflexivity|].
  rewrite map_app. fold (writes cs). fold (all_ids cs). rewrite IH. f_equal.
  rewrite map_map. cbn [snd]. apply map_id.
Qed.

Lemma in_writes : forall classes c t, In c classes -> In t (cls_ids c) -> In (cls_vptr c, t) (writes classes).
Proof.
  intros classes c t Hc Ht. unfold writes. apply in_flat_map. exists c. split; [exact Hc|].
  apply in_map_iff. now exists t.
Qed.

Lemma publish_ids_writes : forall checked st vp ids v,
  (forall t, In t ids -> lookup checked st t = Ok (hash_st st t)) ->
  publish_ids checked st vp ids v = Ok (apply_writes st (map (fun t => (vp, t)) ids) v).
Proof.
  intros checked st vp. induction ids as [|t r IH]; intros v Hl; cbn [publish_ids map]; [reflexivity|].
  rewrite (Hl t (or_introl eq_refl)). rewrite IH by (intros; apply Hl; now right). reflexivity.
Qed.

Lemma publish_classes_writes : forall checked st classes v,
  (forall t, In t (all_ids classes) -> lookup checked st t = Ok (hash_st st t)) ->
  publish_classes checked st classes v = Ok (apply_writes st (writes classes) v).
Proof.
  intros checked st. induction classes as [|c cs IH]; intros v Hl; cbn [publish_classes]; [reflexivity|].
  cbn [all_ids flat_map] in Hl.
  rewrite publish_ids_writes by (intros; apply Hl, in_or_app; now left).
  rewrite IH by (intros; apply Hl, in_or_app; now right).
  cbn [writes flat_map]. unfold apply_writes. now rewrite fold_left_app.
Qed.

Lemma apply_writes_length : forall st ws v, length (apply_writes st ws v) = length v.
Proof.
  intros st. unfold apply_writes. induction ws as [|w r IH]; intros v; cbn [fold_left]; [reflexivity|].
  now rewrite IH, set_nth_length.
Qed.

Lemma apply_writes_other : forall st ws v i,
  (forall w, In w ws -> N.to_nat (hash_st st (snd w)) <> i) ->
  nth i (apply_writes st ws v) None = nth i v None.
Proof.
  intros st. unfold apply_writes. induction ws as [|w r IH]; intros v i H; cbn [fold_left]; [reflexivity|].
  rewrite IH by (intros; apply H; now right).
  apply nth_set_nth_neq. apply H. now left.
Qed.

Lemma apply_writes_in : forall st ws v vp t,
  NoDup (map (hash_st st) (map snd ws)) ->
  (forall w, In w ws -> (N.to_nat (hash_st st (snd w)) < length v)%nat) ->
  In (vp, t) ws ->
  nth (N.to_nat (hash_st st t)) (apply_writes st ws v) None = Some vp.
Proof.
  intros st. induction ws as [|w r IH]; intros v vp t Hnd Hlen Hin; [destruct Hin|].
  cbn [map] in Hnd. apply NoDup_cons_iff in Hnd. destruct Hnd as [Hfresh Hnd].
  change (apply_writes st (w :: r) v) with (apply_writes st r (set_nth (N.to_nat (hash_st st (snd w))) (Some (fst w)) v)).
  destruct Hin as [->|Hin].
  - cbn [snd fst] in *. rewrite apply_writes_other.
    + apply nth_set_nth_eq. apply (Hlen (vp, t)). now left.
    + intros w' Hw' E. apply Hfresh. apply N2Nat.inj in E. rewrite <- E.
      apply in_map. now apply in_map.
  - apply IH; [exact Hnd| |exact Hin].
    intros w' Hw'. rewrite set_nth_length. apply Hlen. now right.
Qed.

(* what publish_vptrs does, for any previous state and any previous contents of the vector *)
Lemma publish_vptrs_spec : forall checked stream budget st v classes,
  ~ In sentinel (all_ids classes) ->
  match publish_vptrs checked stream budget st v classes with
  | Published st' n v' =>
      hash_initialize checked stream budget st classes = Found st' n /\
      length v' = N.to_nat (h_length st') /\
      (forall c t, In c classes -> In t (cls_ids c) ->
                   nth (N.to_nat (hash_st st' t)) v' None = Some (cls_vptr c)) /\
      (forall i, (forall t, In t (all_ids classes) -> hash_st st' t <> N.of_nat i) ->
                 nth i v' None = nth i (resize (N.to_nat (h_length st')) v None) None)
  | PubSearchError n b st' => hash_initialize checked stream budget st classes = SearchError n b st'
  | PubUnknown _ _ => False
  | PubStreamExhausted => hash_initialize checked stream budget st classes = StreamExhausted
  end.
Proof.
  intros checked stream budget st v classes Hs. unfold publish_vptrs.
  pose proof (hash_initialize_spec checked stream budget st classes Hs) as P.
  destruct (hash_initialize checked stream budget st classes) as [st' n|n b st'|]; [|reflexivity|reflexivity].
  destruct P as (Hp & _).
  rewrite publish_classes_writes by (intros; now apply (lookup_registered checked classes)).
  destruct Hp as (Hr & Hnd & _ & _).
  split; [reflexivity|]. split; [now rewrite apply_writes_length, resize_length|]. split.
  - intros c t Hc Ht. apply apply_writes_in.
    + now rewrite writes_ids.
    + intros w Hw. rewrite resize_length.
      assert (In (snd w) (all_ids classes)) by (rewrite <- writes_ids; now apply in_map).
      specialize (Hr _ H). lia.
    + now apply in_writes.
  - intros i Hi. apply apply_writes_other.
    intros w Hw E.
    assert (In (snd w) (all_ids classes)) by (rewrite <- writes_ids; now apply in_map).
    apply (Hi _ H). lia.
Qed.

(* dynamic_vptr of a registered class returns that class's v-table pointer *)
Lemma dynamic_vptr_registered : forall checked stream budget st v classes st' n v' c t,
  ~ In sentinel (all_ids classes) ->
  publish_vptrs checked stream budget st v classes = Published st' n v' ->
  In c classes -> In t (cls_ids c) ->
  dynamic_vptr checked st' v' t = Ok (hash_st st' t, Some (cls_vptr c)).
Proof.
  intros checked stream budget st v classes st' n v' c t Hs E Hc Ht.
  pose proof (publish_vptrs_spec checked stream budget st v classes Hs) as P. rewrite E in P.
  destruct P as (Hi & _ & Hv & _).
  pose proof (hash_initialize_spec checked stream budget st classes Hs) as Q. rewrite Hi in Q.
  destruct Q as (Hp & _).
  unfold dynamic_vptr.
  rewrite (lookup_registered checked classes) by (try assumption; apply in_flat_map; now exists c).
  now rewrite (Hv c t Hc Ht).
Qed.

(* ---------------------------------------------------------------- histories *)

(* what is claimed of one update, whatever came before *)
Definition update_ok (checked : bool) (u : update) (st : hstate) (o : publish_outcome) : Prop :=
  match o with
  | Published st' n v' =>
      perfect checked (u_classes u) st' /\
      h_max st <= h_max st' /\
      1 <= n /\ n <= N.of_nat passes * u_budget u /\
      length v' = N.to_nat (h_length st') /\
      (forall c t, In c (u_classes u) -> In t (cls_ids c) ->
                   dynamic_vptr checked st' v' t = Ok (hash_st st' t, Some (cls_vptr c))) /\
      (checked = true -> forall t, ~ In t (all_ids (u_classes u)) -> t <> sentinel ->
                                   dynamic_vptr checked st' v' t = Error (UnknownClass t))
  | PubSearchError n b st' =>
      n = N.of_nat passes * u_budget u /\
      b = 2 ^ (first_M (N.of_nat (length (u_classes u))) + N.of_nat passes) /\
      h_max st <= h_max st'
  | PubUnknown _ _ => False
  | PubStreamExhausted => N.of_nat (length (u_stream u)) < N.of_nat passes * u_budget u
  end.

Lemma update_ok_holds : forall checked u st v,
  ~ In sentinel (all_ids (u_classes u)) ->
  update_ok checked u st (publish_vptrs checked (u_stream u) (u_budget u) st v (u_classes u)).
Proof.
  intros checked u st v Hs.
  pose proof (publish_vptrs_spec checked (u_stream u) (u_budget u) st v (u_classes u) Hs) as P.
  pose proof (hash_initialize_spec checked (u_stream u) (u_budget u) st (u_classes u) Hs) as Q.
  destruct (publish_vptrs checked (u_stream u) (u_budget u) st v (u_classes u)) as [st' n v'|n b st'|t st'|] eqn:E;
    cbn [update_ok].
  - destruct P as (Hi & Hlen & Hv & _). rewrite Hi in Q.
    destruct Q as (Hp & Hmx & _ & Hn1 & Hn2 & _).
    split; [exact Hp|]. split; [exact Hmx|]. split; [exact Hn1|]. split; [exact Hn2|]. split; [exact Hlen|]. split.
    + intros c t Hc Ht. now apply (dynamic_vptr_registered checked (u_stream u) (u_budget u) st v (u_classes u) st' n v').
    + intros -> t Ht Hns. unfold dynamic_vptr, lookup.
      now rewrite (checked_lookup_unregistered (u_classes u)).
  - rewrite P in Q. destruct Q as (H1 & H2 & H3 & _). auto.
  - exact P.
  - rewrite P in Q. exact Q.
Qed.

(* the state and the vector before the k-th update of a history *)
Fixpoint state_before (checked : bool) (us : list update) (st : hstate) (v : vptrs_t) (k : nat) : option (hstate * vptrs_t) :=
  match k with
  | O => Some (st, v)
  | S k' =>
      match us with
      | [] => None
      | u :: r =>
          match publish_vptrs checked (u_stream u) (u_budget u) st v (u_classes u) with
          | Published st' _ v' => state_before checked r st' v' k'
          | PubSearchError _ _ st' => state_before checked r st' v k'
          | _ => None
          end
      end
  end.

Lemma run_history_nth : forall checked us st v k u o,
  nth_error us k = Some u -> nth_error (run_history checked us st v) k = Some o ->
  exists st_k v_k, state_before checked us st v k = Some (st_k, v_k) /\
                   o = publish_vptrs checked (u_stream u) (u_budget u) st_k v_k (u_classes u).
Proof.
  intros checked. induction us as [|u0 r IH]; intros st v k u o Hu Ho; [destruct k; discriminate|].
  destruct k as [|k]; cbn [nth_error run_history state_before] in *.
  - injection Hu as <-. injection Ho as <-. now exists st, v.
  - destruct (publish_vptrs checked (u_stream u0) (u_budget u0) st v (u_classes u0)) as [st' n v'|n b st'|t st'|];
      try (destruct k; discriminate); eapply IH; eassumption.
Qed.

Lemma history_ok : forall checked us k u o,
  nth_error us k = Some u ->
  nth_error (run_history checked us init_state []) k = Some o ->
  ~ In sentinel (all_ids (u_classes u)) ->
  exists st_k v_k, state_before checked us init_state [] k = Some (st_k, v_k) /\
                   update_ok checked u st_k o.
Proof.
  intros checked us k u o Hu Ho Hs.
  destruct (run_history_nth checked us init_state [] k u o Hu Ho) as (st_k & v_k & Hb & ->).
  exists st_k, v_k. split; [exact Hb|]. now apply update_ok_holds.
Qed.

(* hash_max never decreases along a history, hash_min stays 0 *)
Lemma state_before_monotone : forall checked us st v k st_k v_k,
  (forall u, In u us -> ~ In sentinel (all_ids (u_classes u))) ->
  state_before checked us st v k = Some (st_k, v_k) ->
  h_max st <= h_max st_k /\ h_min st_k <= h_min st.
Proof.
  intros checked. induction us as [|u r IH]; intros st v k st_k v_k Hs Hb.
  - destruct k; cbn [state_before] in Hb; [|discriminate]. injection Hb as <- <-. lia.
  - destruct k as [|k]; cbn [state_before] in Hb; [injection Hb as <- <-; lia|].
    assert (Hsu : ~ In sentinel (all_ids (u_classes u))) by (apply Hs; now left).
    pose proof (publish_vptrs_spec checked (u_stream u) (u_budget u) st v (u_classes u) Hsu) as P.
    pose proof (hash_initialize_spec checked (u_stream u) (u_budget u) st (u_classes u) Hsu) as Q.
    destruct (publish_vptrs checked (u_stream u) (u_budget u) st v (u_classes u)) as [st' n v'|n b st'|t st'|];
      try discriminate.
    + destruct P as (Hi & _). rewrite Hi in Q. destruct Q as (_ & H1 & H2 & _).
      destruct (IH st' v' k st_k v_k) as (H3 & H4); [intros; apply Hs; now right|exact Hb|]. lia.
    + rewrite P in Q. destruct Q as (_ & _ & H1 & H2 & _).
      destruct (IH st' v k st_k v_k) as (H3 & H4); [intros; apply Hs; now right|exact Hb|]. lia.
Qed.

(* ---------------------------------------------------------------- statements in the shape Properties_C05.v uses *)

Lemma checked_rejects_unregistered : forall stream budget st classes st' n t,
  ~ In sentinel (all_ids classes) ->
  hash_initialize true stream budget st classes = Found st' n ->
  ~ In t (all_ids classes) -> t <> sentinel ->
  checked_lookup st' t = Error (UnknownClass t).
Proof.
  intros stream budget st classes st' n t Hs E Ht Hns.
  pose proof (hash_initialize_spec true stream budget st classes Hs) as P. rewrite E in P.
  destruct P as (Hp & _). now apply (checked_lookup_unregistered classes).
Qed.

Lemma checked_accepts_registered : forall stream budget st classes st' n t,
  ~ In sentinel (all_ids classes) ->
  hash_initialize true stream budget st classes = Found st' n ->
  In t (all_ids classes) ->
  checked_lookup st' t = Ok (hash_st st' t).
Proof.
  intros stream budget st classes st' n t Hs E Ht.
  pose proof (hash_initialize_spec true stream budget st classes Hs) as P. rewrite E in P.
  destruct P as (Hp & _). now apply (checked_lookup_registered classes).
Qed.

(* after a reported search error the checked hash accepts nothing at all (hash_length = 0) *)
Lemma checked_after_error : forall st t, h_length st = 0 -> checked_lookup st t = Error (UnknownClass t).
Proof.
  intros st t H. unfold checked_lookup. rewrite H.
  destruct (0 <=? hash_st st t) eqn:E; [reflexivity|]. apply N.leb_gt in E. lia.
Qed.

(* duplicated ids are never accepted: a successful search implies the ids were distinct *)
Lemma found_ids_distinct : forall checked stream budget st classes st' n,
  ~ In sentinel (all_ids classes) ->
  hash_initialize checked stream budget st classes = Found st' n ->
  NoDup (all_ids classes).
Proof.
  intros checked stream budget st classes st' n Hs E.
  pose proof (hash_initialize_spec checked stream budget st classes Hs) as P. rewrite E in P.
  destruct P as ((_ & Hnd & _) & _). now apply NoDup_map_inv in Hnd.
Qed.

Lemma history_spec : forall checked us k u o,
  (forall u', In u' us -> ~ In sentinel (all_ids (u_classes u'))) ->
  nth_error us k = Some u ->
  nth_error (run_history checked us init_state []) k = Some o ->
  exists st_k v_k,
    state_before checked us init_state [] k = Some (st_k, v_k) /\
    h_min st_k = 0 /\
    update_ok checked u st_k o.
Proof.
  intros checked us k u o Hs Hu Ho.
  destruct (history_ok checked us k u o Hu Ho) as (st_k & v_k & Hb & Hok).
  { apply Hs. eapply nth_error_In; eassumption. }
  exists st_k, v_k. split; [exact Hb|]. split; [|exact Hok].
  destruct (state_before_monotone checked us init_state [] k st_k v_k Hs Hb) as (_ & H).
  cbn [init_state h_min] in H. lia.
Qed.
