(* Proofs/SpecAnc.v — (S1) the computable ancestor test of Spec/Dispatch.v decides anc.
   ancb R b d = true  <->  anc R b d          (Theorem ancb_correct)
   No axioms; stdlib only. *)
From Y2 Require Import Model.Registry Spec.Dispatch.
From Coq Require Import List NArith Arith Lia Bool Relations Permutation.
Import ListNotations.

Lemma memN_In x l : memN x l = true <-> In x l.
Proof.
  unfold memN. rewrite existsb_exists. split.
  - intros [y [Hy E]]. apply N.eqb_eq in E. now subst.
  - intro H. exists x. split; [assumption|apply N.eqb_refl].
Qed.

Lemma memN_false x l : memN x l = false <-> ~ In x l.
Proof.
  rewrite <- memN_In. destruct (memN x l); split; congruence.
Qed.

(* ---- add_all: set union keeping the accumulator as a prefix ---- *)
Lemma add_all_In xs : forall s x, In x (add_all xs s) <-> In x xs \/ In x s.
Proof.
  induction xs as [|y xs IH]; intros s x; cbn [add_all].
  - cbn. tauto.
  - rewrite IH. destruct (memN y s) eqn:E.
    + apply memN_In in E. cbn [In]. split; [tauto|].
      intros [[Hy|H]|H]; auto. subst. auto.
    + rewrite in_app_iff. cbn [In]. tauto.
Qed.

Lemma add_all_prefix xs : forall s, exists t, add_all xs s = s ++ t.
Proof.
  induction xs as [|y xs IH]; intros s; cbn [add_all].
  - exists []. now rewrite app_nil_r.
  - destruct (memN y s).
    + apply IH.
    + destruct (IH (s ++ [y])) as [t Ht]. exists (y :: t).
      rewrite Ht, <- app_assoc. reflexivity.
Qed.

Lemma add_all_NoDup xs : forall s, NoDup s -> NoDup (add_all xs s).
Proof.
  induction xs as [|y xs IH]; intros s ND; cbn [add_all]; [assumption|].
  destruct (memN y s) eqn:E; apply IH; [assumption|].
  eapply Permutation_NoDup; [apply Permutation_cons_append|].
  constructor; [|assumption]. now apply memN_false.
Qed.

Lemma add_all_length xs s : length s <= length (add_all xs s).
Proof.
  destruct (add_all_prefix xs s) as [t Ht]. rewrite Ht, app_length. lia.
Qed.

Lemma add_all_fix xs s : length (add_all xs s) = length s -> add_all xs s = s.
Proof.
  destruct (add_all_prefix xs s) as [t Ht]. rewrite Ht, app_length. intro H.
  destruct t as [|z t]; [now rewrite app_nil_r|]. cbn [length] in H. lia.
Qed.

Section Anc.
  Variable R : registry.

  (* parents d lists exactly the b with edge b d *)
  Lemma parents_edge b d : In b (parents R d) <-> edge R b d.
  Proof.
    unfold parents, edge. rewrite in_flat_map. split.
    - intros [r [Hr Hb]]. destruct (N.eqb_spec (rec_class R r) d) as [E|E]; [|contradiction].
      apply filter_In in Hb. destruct Hb as [Hb Hn].
      apply negb_true_iff, N.eqb_neq in Hn.
      split; [assumption|]. exists r. auto.
    - intros [Hn [r [Hr [E Hb]]]]. exists r. split; [assumption|].
      rewrite (proj2 (N.eqb_eq _ _) E). apply filter_In. split; [assumption|].
      apply negb_true_iff, N.eqb_neq. assumption.
  Qed.

  (* every parent belongs to the finite list of listed bases *)
  Definition spec_universe : list N := flat_map (rec_bases R) (r_classes R).

  Lemma parents_universe x y : In x (parents R y) -> In x spec_universe.
  Proof.
    intro H. apply parents_edge in H. destruct H as [_ [r [Hr [_ Hb]]]].
    unfold spec_universe. apply in_flat_map. eauto.
  Qed.

  Lemma universe_length : length spec_universe = length (flat_map c_bases (r_classes R)).
  Proof.
    unfold spec_universe. induction (r_classes R) as [|r l IH]; cbn [flat_map]; [reflexivity|].
    rewrite !app_length, IH. unfold rec_bases. now rewrite map_length.
  Qed.

  Lemma saturate_S f s :
    saturate R (S f) s =
    if Nat.eqb (length (add_all (flat_map (parents R) s) s)) (length s) then s
    else saturate R f (add_all (flat_map (parents R) s) s).
  Proof. reflexivity. Qed.

  (* soundness: only ancestors are ever added *)
  Lemma saturate_sound d : forall fuel s,
    (forall x, In x s -> anc R x d) -> forall x, In x (saturate R fuel s) -> anc R x d.
  Proof.
    induction fuel as [|f IH]; intros s H; [exact H|].
    rewrite saturate_S.
    destruct (Nat.eqb (length (add_all (flat_map (parents R) s) s)) (length s)); [exact H|].
    apply IH. intros x Hx. apply add_all_In in Hx. destruct Hx as [Hx|Hx]; [|auto].
    apply in_flat_map in Hx. destruct Hx as [y [Hy Hx]]. apply parents_edge in Hx.
    unfold anc. eapply rt_trans; [apply rt_step; exact Hx|apply H; exact Hy].
  Qed.

  Definition spec_closed (s : list N) : Prop :=
    forall x y, In y s -> In x (parents R y) -> In x s.

  (* completeness: with enough fuel the result contains the start set and is closed under parents *)
  Lemma saturate_closed d : forall fuel s,
    NoDup s -> incl s (d :: spec_universe) -> 2 + length spec_universe <= fuel + length s ->
    incl s (saturate R fuel s) /\ spec_closed (saturate R fuel s).
  Proof.
    induction fuel as [|f IH]; intros s ND Hin Hf.
    - exfalso. pose proof (NoDup_incl_length ND Hin) as H. cbn [length] in H. lia.
    - rewrite saturate_S.
      destruct (Nat.eqb_spec (length (add_all (flat_map (parents R) s) s)) (length s)) as [E|E].
      + split; [apply incl_refl|]. intros x y Hy Hx. apply add_all_fix in E. rewrite <- E.
        apply add_all_In. left. apply in_flat_map. eauto.
      + destruct (IH (add_all (flat_map (parents R) s) s)) as [I C].
        * now apply add_all_NoDup.
        * intros x Hx. apply add_all_In in Hx. destruct Hx as [Hx|Hx]; [|now apply Hin].
          right. apply in_flat_map in Hx. destruct Hx as [y [_ Hx]].
          eapply parents_universe; eassumption.
        * pose proof (add_all_length (flat_map (parents R) s) s). lia.
        * split; [|exact C]. intros x Hx. apply I. apply add_all_In. now right.
  Qed.

  Lemma ancestors_sound d x : In x (ancestors R d) -> anc R x d.
  Proof.
    unfold ancestors. apply saturate_sound. intros y [<-|[]]. apply rt_refl.
  Qed.

  Lemma ancestors_complete d x : anc R x d -> In x (ancestors R d).
  Proof.
    intro H. unfold ancestors.
    destruct (saturate_closed d
                (S (length (r_classes R) + length (flat_map c_bases (r_classes R)))) [d]) as [I C].
    - constructor; [intros []|constructor].
    - intros y [<-|[]]. now left.
    - rewrite universe_length. cbn [length]. lia.
    - remember (saturate R (S (length (r_classes R) + length (flat_map c_bases (r_classes R)))) [d])
        as res eqn:Eres. clear Eres.
      apply clos_rt_rt1n in H. induction H as [x | x y z Hxy Hyz IH].
      + apply I. now left.
      + eapply C; [apply IH; assumption|]. apply parents_edge. exact Hxy.
  Qed.

  Theorem ancb_correct b d : ancb R b d = true <-> anc R b d.
  Proof.
    unfold ancb. rewrite memN_In. split; [apply ancestors_sound|apply ancestors_complete].
  Qed.

  Corollary ancb_false b d : ancb R b d = false <-> ~ anc R b d.
  Proof.
    rewrite <- ancb_correct. destruct (ancb R b d); split; congruence.
  Qed.

  Lemma ancb_refl c : ancb R c c = true.
  Proof. apply ancb_correct, rt_refl. Qed.

  Lemma anc_refl c : anc R c c.
  Proof. apply rt_refl. Qed.

  Lemma anc_trans a b c : anc R a b -> anc R b c -> anc R a c.
  Proof. apply rt_trans. Qed.

  Lemma anc_dec b d : {anc R b d} + {~ anc R b d}.
  Proof.
    destruct (ancb R b d) eqn:E; [left; now apply ancb_correct|right; now apply ancb_false].
  Qed.
End Anc.

Print Assumptions ancb_correct.
