(* C14 -- proofs about Model/Policies.v.
   1. decidable equality of types / locations reflects Leibniz equality;
   2. frame and interleaving theorems of the flat store;
   3. keyed facet lists: rebind to different keys gives disjoint location sets; replace / remove preserve it;
   4. replace / remove WITHOUT rebind keep the key and share the parent's locations.                         *)
From Coq Require Import String List Bool Arith.
From Y2 Require Import Gen.GenPolicies Model.Policies.
Import ListNotations.
Open Scope string_scope.

(* the general lemmas hold whatever the translated declarations are: keep tactics from computing with them *)
Opaque facet_decls basic_policy_bases FUEL.

(* ------------------------------------------------------------------------------------------------ 1. equality *)

Fixpoint ty_ind' (P : ty -> Prop)
         (HP : forall k, P (TPolicy k))
         (HA : forall g args, Forall P args -> P (TApp g args))
         (HO : forall s, P (TOther s)) (t : ty) {struct t} : P t :=
  match t with
  | TPolicy k => HP k
  | TApp g args =>
      HA g args ((fix go (l : list ty) : Forall P l :=
                    match l with
                    | [] => Forall_nil P
                    | x :: r => Forall_cons x (ty_ind' P HP HA HO x) (go r)
                    end) args)
  | TOther s => HO s
  end.

Lemma ty_eqb_app : forall g xs h ys,
  ty_eqb (TApp g xs) (TApp h ys) = String.eqb g h && tys_eqb xs ys.
Proof.
  intros g xs h ys. reflexivity.
Qed.

Lemma ty_eqb_true : forall a b, ty_eqb a b = true -> a = b.
Proof.
  induction a as [k|g args IH|s] using ty_ind'; intros b H; destruct b as [k'|h ys|s']; try discriminate H.
  - simpl in H. apply String.eqb_eq in H. now subst.
  - rewrite ty_eqb_app in H. apply andb_true_iff in H. destruct H as [Hg Hl].
    apply String.eqb_eq in Hg. subst h. f_equal.
    revert ys Hl. induction IH as [|x xs Hx _ IHxs]; intros [|y ys] Hl; simpl in Hl; try discriminate Hl; try reflexivity.
    apply andb_true_iff in Hl. destruct Hl as [H1 H2]. f_equal; [now apply Hx | now apply IHxs].
  - simpl in H. apply String.eqb_eq in H. now subst.
Qed.

Lemma ty_eqb_refl : forall a, ty_eqb a a = true.
Proof.
  induction a as [k|g args IH|s] using ty_ind'.
  - simpl. apply String.eqb_refl.
  - rewrite ty_eqb_app. rewrite String.eqb_refl. simpl.
    induction IH as [|x xs Hx _ IHxs]; simpl; [reflexivity|]. now rewrite Hx, IHxs.
  - simpl. apply String.eqb_refl.
Qed.

Lemma tys_eqb_true : forall xs ys, tys_eqb xs ys = true -> xs = ys.
Proof.
  induction xs as [|x xs IH]; intros [|y ys] H; simpl in H; try discriminate H; try reflexivity.
  apply andb_true_iff in H. destruct H as [H1 H2]. f_equal; [now apply ty_eqb_true | now apply IH].
Qed.

Lemma tys_eqb_refl : forall xs, tys_eqb xs xs = true.
Proof. induction xs as [|x xs IH]; simpl; [reflexivity|]. now rewrite ty_eqb_refl, IH. Qed.

Lemma loc_eqb_true : forall a b, loc_eqb a b = true -> a = b.
Proof.
  intros [[o a] m] [[o' a'] m'] H. unfold loc_eqb, l_owner, l_args, l_member in H. simpl in H.
  apply andb_true_iff in H. destruct H as [H Hm]. apply andb_true_iff in H. destruct H as [Ho Ha].
  apply String.eqb_eq in Ho, Hm. apply tys_eqb_true in Ha. now subst.
Qed.

Lemma loc_eqb_refl : forall a, loc_eqb a a = true.
Proof.
  intros [[o a] m]. unfold loc_eqb, l_owner, l_args, l_member. simpl.
  now rewrite !String.eqb_refl, tys_eqb_refl.
Qed.

Lemma memb_In : forall l ls, memb l ls = true <-> In l ls.
Proof.
  intros l ls. unfold memb. rewrite existsb_exists. split.
  - intros [x [Hx He]]. apply loc_eqb_true in He. now subst.
  - intros H. exists l. split; [exact H | apply loc_eqb_refl].
Qed.

Lemma memb_false : forall l ls, memb l ls = false <-> ~ In l ls.
Proof.
  intros l ls. split.
  - intros H Hin. apply memb_In in Hin. congruence.
  - intros H. destruct (memb l ls) eqn:E; [|reflexivity]. apply memb_In in E. contradiction.
Qed.

Lemma disjointb_disjoint : forall a b, disjointb a b = true <-> disjoint a b.
Proof.
  intros a b. unfold disjointb, disjoint. rewrite forallb_forall. split.
  - intros H l Ha Hb. specialize (H l Ha). apply negb_true_iff in H. apply memb_false in H. contradiction.
  - intros H l Ha. apply negb_true_iff. apply memb_false. intro Hb. exact (H l Ha Hb).
Qed.

Lemma inclb_incl : forall a b, inclb a b = true <-> incl a b.
Proof.
  intros a b. unfold inclb, incl. rewrite forallb_forall. split; intros H l Hl; apply memb_In; auto.
Qed.

Lemma same_policy_true : forall a b, same_policy a b = true -> a = b.
Proof.
  intros [k f] [k' f'] H. unfold same_policy in H. simpl in H. apply andb_true_iff in H. destruct H as [H1 H2].
  apply String.eqb_eq in H1. apply tys_eqb_true in H2. now subst.
Qed.

Lemma same_policy_refl : forall a, same_policy a a = true.
Proof. intros [k f]. unfold same_policy. simpl. now rewrite String.eqb_refl, tys_eqb_refl. Qed.

(* ------------------------------------------------------------------------------------------------ 2. frame *)

Definition agree (ls : list loc) (s s' : store) : Prop := forall l, In l ls -> s l = s' l.

Lemma writes_within : forall k p, incl (writes k p) (locs_of_policy p).
Proof. intros k p l H. exact (proj1 (proj1 (filter_In (write_sel k p) l (locs_of_policy p)) H)). Qed.

Lemma reads_within : forall k p, incl (reads k p) (locs_of_policy p).
Proof. intros k p l H. exact H. Qed.

Lemma apply_outside : forall o st l, ~ In l (writes (op_kind_of o) (op_pol o)) -> apply o st l = st l.
Proof. intros o st l H. unfold apply. apply memb_false in H. now rewrite H. Qed.

Lemma apply_disjoint : forall o q st l,
  disjoint (locs_of_policy (op_pol o)) (locs_of_policy q) -> In l (locs_of_policy q) -> apply o st l = st l.
Proof.
  intros o q st l D Hl. apply apply_outside. intro Hw. apply writes_within in Hw. exact (D l Hw Hl).
Qed.

Lemma run_app : forall h1 h2 st, run (h1 ++ h2) st = run h2 (run h1 st).
Proof. intros. unfold run. apply fold_left_app. Qed.

(* one operation on p, after ANY history (on any policies), leaves every location of q as it was *)
Lemma frame : forall p q, disjoint (locs_of_policy p) (locs_of_policy q) ->
  forall h o st, op_pol o = p -> proj q (run (h ++ [o]) st) = proj q (run h st).
Proof.
  intros p q D h o st Hp. rewrite run_app. simpl. unfold proj. apply map_ext_in. intros l Hl.
  apply apply_disjoint with (q := q); [now rewrite Hp | exact Hl].
Qed.

Lemma apply_agree_same : forall o q s s',
  op_pol o = q -> agree (locs_of_policy q) s s' -> agree (locs_of_policy q) (apply o s) (apply o s').
Proof.
  intros o q s s' Hq A l Hl. unfold apply.
  replace (map s' (reads (op_kind_of o) (op_pol o))) with (map s (reads (op_kind_of o) (op_pol o))).
  - destruct (memb l (writes (op_kind_of o) (op_pol o))); [reflexivity | now apply A].
  - apply map_ext_in. intros x Hx. apply A. rewrite <- Hq. now apply reads_within in Hx.
Qed.

Definition on (q : policy) (o : op) : bool := same_policy (op_pol o) q.

(* all interleavings: in a history where every operation is on q or on a policy whose locations are disjoint from
   q's, what q can observe is what it observes when the others' operations are erased *)
Lemma interleaving_agree : forall q h st st',
  Forall (fun o => op_pol o = q \/ disjoint (locs_of_policy (op_pol o)) (locs_of_policy q)) h ->
  agree (locs_of_policy q) st st' ->
  agree (locs_of_policy q) (run h st) (run (filter (on q) h) st').
Proof.
  intros q h. induction h as [|o h IH]; intros st st' F A.
  - exact A.
  - inversion F as [|? ? Ho Fh]; subst. simpl. destruct (on q o) eqn:E.
    + apply same_policy_true in E. simpl. apply IH; [exact Fh|]. now apply apply_agree_same.
    + apply IH; [exact Fh|]. intros l Hl. destruct Ho as [Ho|Ho].
      * unfold on in E. rewrite Ho, same_policy_refl in E. discriminate E.
      * rewrite (apply_disjoint o q st l Ho Hl). now apply A.
Qed.

Lemma interleaving : forall q h st,
  Forall (fun o => op_pol o = q \/ disjoint (locs_of_policy (op_pol o)) (locs_of_policy q)) h ->
  proj q (run h st) = proj q (run (filter (on q) h) st).
Proof.
  intros q h st F. unfold proj. apply map_ext_in. intros l Hl.
  apply (interleaving_agree q h st st F); [intros x _; reflexivity | exact Hl].
Qed.

(* any observation that is a function of q's locations *)
Definition local_obs (q : policy) (obs : store -> list val) : Prop :=
  forall s s', agree (locs_of_policy q) s s' -> obs s = obs s'.

Lemma proj_agree : forall q s s', proj q s = proj q s' -> agree (locs_of_policy q) s s'.
Proof.
  intros q s s'. unfold proj, agree. induction (locs_of_policy q) as [|x xs IH]; intros H l Hl; [destruct Hl|].
  simpl in H. injection H as H1 H2. destruct Hl as [Hl|Hl]; [now subst | now apply IH].
Qed.

Lemma frame_obs : forall p q obs, disjoint (locs_of_policy p) (locs_of_policy q) -> local_obs q obs ->
  forall h o st, op_pol o = p -> obs (run (h ++ [o]) st) = obs (run h st).
Proof.
  intros p q obs D L h o st Hp. apply L. apply proj_agree. now apply frame with (p := p).
Qed.

Lemma filter_sublist_local : forall q (sel : loc -> bool),
  local_obs q (fun st => map st (filter sel (locs_of_policy q))).
Proof.
  intros q sel s s' A. apply map_ext_in. intros l Hl. apply A. apply filter_In in Hl. tauto.
Qed.

Lemma handler_local : forall q, local_obs q (handler_of q).
Proof. intros q. unfold handler_of, handler_locs. apply filter_sublist_local. Qed.

Lemma vptr_local : forall q, local_obs q (vptr_state q).
Proof. intros q. unfold vptr_state, vptr_locs. apply filter_sublist_local. Qed.

Lemma call_local : forall q f, local_obs q (fun st => [call_outcome f q st]).
Proof.
  intros q f s s' A. unfold call_outcome. f_equal. f_equal. apply map_ext_in. intros l Hl. apply A. exact Hl.
Qed.

(* ------------------------------------------------------------------------------------------------ 3. keyed *)

Lemma Forall_flat_map' : forall {A B} (P : B -> Prop) (f : A -> list B) l,
  Forall P (flat_map f l) <-> (forall x, In x l -> Forall P (f x)).
Proof.
  intros A B P f l. induction l as [|a l IH]; simpl.
  - split; [intros _ x [] | intros _; constructor].
  - rewrite Forall_app, IH. split.
    + intros [H1 H2] x [Hx|Hx]; [now subst | now apply H2].
    + intros H. split; [apply H; now left | intros x Hx; apply H; now right].
Qed.

Lemma flat_map_nil : forall {A B} (f : A -> list B) l, (forall x, In x l -> f x = []) -> flat_map f l = [].
Proof.
  intros A B f l H. induction l as [|a l IH]; simpl; [reflexivity|].
  rewrite (H a (or_introl eq_refl)). simpl. apply IH. intros x Hx. apply H. now right.
Qed.

Lemma fill_head : forall norm rest a args, exists r, fill norm rest (a :: args) = a :: r.
Proof.
  intros norm rest. induction rest as [|[p|] rest IH]; intros a args; simpl.
  - now exists args.
  - apply IH.
  - now exists args.
Qed.

Lemma normalize_atom : forall fuel t, (forall g a, t <> TApp g a) -> normalize fuel t = t.
Proof. intros [|f] t H; [reflexivity|]. destruct t; try reflexivity. exfalso. now apply (H template args). Qed.

Lemma normalize_head : forall fuel g k args, exists r, normalize fuel (TApp g (TPolicy k :: args)) = TApp g (TPolicy k :: r).
Proof.
  intros [|f] g k args; [now exists args|]. simpl.
  assert (E : normalize f (TPolicy k) = TPolicy k) by (apply normalize_atom; intros ? ? H; discriminate H).
  rewrite E. destruct (find_decl g) as [d|].
  - match goal with |- context [fill ?n ?r (TPolicy k :: ?a)] => destruct (fill_head n r (TPolicy k) a) as [r0 Hr]; rewrite Hr end.
    now exists r0.
  - now exists (map (normalize f) args).
Qed.

Lemma normalize_name : forall fuel g args, exists r, normalize fuel (TApp g args) = TApp g r.
Proof.
  intros [|f] g args; [now exists args|]. simpl. destruct (find_decl g); eexists; reflexivity.
Qed.

Lemma locs_atom : forall fuel t, (forall g a, t <> TApp g a) -> locs_of_inst fuel t = [].
Proof. intros [|f] t H; [reflexivity|]. destruct t; try reflexivity. exfalso. now apply (H template args). Qed.

Lemma static_free_locs : forall fuel g args, static_free fuel g = true -> locs_of_inst fuel (TApp g args) = [].
Proof.
  induction fuel as [|f IH]; intros g args H; [reflexivity|]. simpl in *.
  destruct (find_decl g) as [d|]; [|reflexivity].
  apply andb_true_iff in H. destruct H as [Hs Hb].
  destruct (f_statics d); [|discriminate Hs]. simpl.
  apply flat_map_nil. intros b Hin. rewrite forallb_forall in Hb. specialize (Hb b Hin).
  destruct b as [i|k|h ps|s]; try discriminate Hb.
  - simpl. destruct (normalize_name FUEL h (map (subst args) ps)) as [r Hr]. rewrite Hr. now apply IH.
  - simpl. rewrite normalize_atom by (intros ? ? E; discriminate E). apply locs_atom. intros ? ? E; discriminate E.
Qed.

Lemma keyed_decl_locs : forall fuel g k args,
  keyed_decl fuel g = true -> Forall (head_keyed k) (locs_of_inst fuel (TApp g (TPolicy k :: args))).
Proof.
  induction fuel as [|f IH]; intros g k args H; [constructor|]. simpl in *.
  destruct (find_decl g) as [d|]; [|constructor].
  apply andb_true_iff in H. destruct H as [Hs Hb].
  apply Forall_app. split.
  - apply Forall_forall. intros l Hl. apply in_map_iff in Hl. destruct Hl as [s [Hl Hs']]. subst l.
    unfold head_keyed, l_args. simpl. unfold inst_args.
    destruct (f_statics d) as [|s0 ss]; [destruct Hs'|].
    simpl in Hs. destruct (f_nparams d); [discriminate Hs|]. now exists args.
  - apply Forall_flat_map'. intros b Hin. rewrite forallb_forall in Hb. specialize (Hb b Hin).
    destruct b as [i|k0|h ps|s]; try discriminate Hb.
    + assert (SF : static_free f h = true -> Forall (head_keyed k) (locs_of_inst f (normalize FUEL (subst (TPolicy k :: args) (PApp h ps))))).
      { intros E. simpl. destruct (normalize_name FUEL h (map (subst (TPolicy k :: args)) ps)) as [r Hr]. rewrite Hr.
        rewrite static_free_locs by exact E. constructor. }
      destruct ps as [|p0 ps]; [now apply SF|].
      destruct p0 as [[|i]|k1|h1 ps1|s1]; try (now apply SF).
      apply orb_true_iff in Hb. destruct Hb as [Hk|Hf]; [|now apply SF].
      simpl. destruct (normalize_head FUEL h k (map (subst (TPolicy k :: args)) ps)) as [r Hr]. rewrite Hr. now apply IH.
    + simpl. rewrite normalize_atom by (intros ? ? E; discriminate E). rewrite locs_atom by (intros ? ? E; discriminate E). constructor.
Qed.

Lemma keyed_facet_rebind : forall k t, keyed_facet t = true -> Forall (head_keyed k) (locs_of_inst FUEL (rebind_facet k t)).
Proof.
  intros k t H. destruct t as [k0|g args|s]; try (rewrite locs_atom by (intros ? ? E; discriminate E); constructor).
  destruct args as [|a rest]; simpl in H.
  - simpl. rewrite static_free_locs by exact H. constructor.
  - simpl. apply orb_true_iff in H. destruct (rebindable g) eqn:R.
    + destruct H as [H|H].
      * simpl in H. now apply keyed_decl_locs.
      * rewrite static_free_locs by exact H. constructor.
    + destruct H as [H|H]; [discriminate H|]. rewrite static_free_locs by exact H. constructor.
Qed.

(* the invariant: every location of p carries TPolicy k first *)
Definition hk (k : string) (p : policy) : Prop :=
  p_key p = k /\ forall b, In b basic_policy_bases -> Forall (head_keyed k) (base_locs p b).

Lemma hk_all : forall k p, hk k p -> Forall (head_keyed k) (locs_of_policy p).
Proof. intros k p [_ H]. unfold locs_of_policy. now apply Forall_flat_map'. Qed.

Lemma keyed_base_locs : forall k p b, p_key p = k -> is_pack b = false -> keyed_base b = true ->
  Forall (head_keyed k) (base_locs p b).
Proof.
  intros k p b Hk Hp Hb. unfold base_locs. rewrite Hp, Hk.
  assert (ATOM : forall t, (forall g a, t <> TApp g a) -> Forall (head_keyed k) (locs_of_inst FUEL (normalize FUEL t))).
  { intros t Ht. rewrite normalize_atom by exact Ht. rewrite locs_atom by exact Ht. constructor. }
  assert (SF : forall h ps, static_free FUEL h = true -> Forall (head_keyed k) (locs_of_inst FUEL (normalize FUEL (subst [TPolicy k] (PApp h ps))))).
  { intros h ps E. simpl. destruct (normalize_name FUEL h (map (subst [TPolicy k]) ps)) as [r Hr]. rewrite Hr.
    rewrite static_free_locs by exact E. constructor. }
  destruct b as [i|k0|h ps|s].
  - simpl. destruct i as [|[|i]]; apply ATOM; intros ? ? E; discriminate E.
  - apply ATOM. intros ? ? E; discriminate E.
  - destruct ps as [|p0 ps]; [now apply SF|].
    destruct p0 as [[|i]|k1|h1 ps1|s1]; try (now apply SF).
    simpl in Hb. apply orb_true_iff in Hb. destruct Hb as [Hb|Hb]; [|now apply SF].
    simpl. destruct (normalize_head FUEL h k (map (subst [TPolicy k]) ps)) as [r Hr]. rewrite Hr. now apply keyed_decl_locs.
  - apply ATOM. intros ? ? E; discriminate E.
Qed.

Lemma hk_rebind : forall p k, keyed p = true -> hk k (rebind p k).
Proof.
  intros p k H. unfold keyed in H. apply andb_true_iff in H. destruct H as [Hf Hb]. split; [reflexivity|].
  intros b Hin. destruct (is_pack b) eqn:P.
  - unfold base_locs. rewrite P. simpl. apply Forall_flat_map'. intros t Ht. apply in_map_iff in Ht.
    destruct Ht as [t0 [Et Ht0]]. subst t. apply keyed_facet_rebind. rewrite forallb_forall in Hf. now apply Hf.
  - apply keyed_base_locs; [reflexivity | exact P |]. unfold keyed_bases in Hb. rewrite forallb_forall in Hb. now apply Hb.
Qed.

Lemma base_locs_same_key : forall p p' b, p_key p = p_key p' -> is_pack b = false -> base_locs p' b = base_locs p b.
Proof. intros p p' b Hk Hp. unfold base_locs. now rewrite Hp, Hk. Qed.

Lemma hk_pack : forall k p, hk k p -> (exists b, In b basic_policy_bases /\ is_pack b = true) ->
  Forall (head_keyed k) (flat_map (locs_of_inst FUEL) (p_facets p)).
Proof. intros k p [_ H] [b [Hin Hp]]. specialize (H b Hin). unfold base_locs in H. now rewrite Hp in H. Qed.

Lemma hk_remove : forall k p base, hk k p -> hk k (remove p base).
Proof.
  intros k p base H. destruct H as [Hk H]. split; [exact Hk|]. intros b Hin. destruct (is_pack b) eqn:P.
  - unfold base_locs. rewrite P. simpl. specialize (H b Hin). unfold base_locs in H. rewrite P in H.
    apply Forall_flat_map'. intros t Ht. apply filter_In in Ht. destruct Ht as [Ht _].
    rewrite Forall_flat_map' in H. now apply H.
  - rewrite (base_locs_same_key p (remove p base) b eq_refl P). now apply H.
Qed.

Lemma facet_keyed_by_locs : forall k f, facet_keyed_by k f = true -> Forall (head_keyed k) (locs_of_inst FUEL (normalize FUEL f)).
Proof.
  intros k f H.
  assert (SF : forall g a, static_free FUEL g = true -> Forall (head_keyed k) (locs_of_inst FUEL (normalize FUEL (TApp g a)))).
  { intros g a E. destruct (normalize_name FUEL g a) as [r Hr]. rewrite Hr. rewrite static_free_locs by exact E. constructor. }
  destruct f as [k0|g args|s].
  - rewrite normalize_atom by (intros ? ? E; discriminate E). rewrite locs_atom by (intros ? ? E; discriminate E). constructor.
  - destruct args as [|a rest]; [now apply SF|].
    destruct a as [k1|g1 a1|s1]; try (now apply SF).
    simpl in H. apply orb_true_iff in H. destruct H as [H|H]; [|now apply SF].
    apply andb_true_iff in H. destruct H as [H1 H2]. apply String.eqb_eq in H1. subst k1.
    destruct (normalize_head FUEL g k rest) as [r Hr]. rewrite Hr. now apply keyed_decl_locs.
  - rewrite normalize_atom by (intros ? ? E; discriminate E). rewrite locs_atom by (intros ? ? E; discriminate E). constructor.
Qed.

Lemma hk_replace : forall k p base f, hk k p -> facet_keyed_by k f = true -> hk k (replace p base f).
Proof.
  intros k p base f H Hf. destruct H as [Hk H]. split; [exact Hk|]. intros b Hin. destruct (is_pack b) eqn:P.
  - unfold base_locs. rewrite P. simpl. specialize (H b Hin). unfold base_locs in H. rewrite P in H.
    rewrite Forall_flat_map' in H. apply Forall_flat_map'. intros t Ht. apply in_map_iff in Ht.
    destruct Ht as [x [Ex Hx]]. destruct (derives FUEL x base); subst t; [now apply facet_keyed_by_locs | now apply H].
  - rewrite (base_locs_same_key p (replace p base f) b eq_refl P). now apply H.
Qed.

Lemma hk_mods : forall k ms p, hk k p -> forallb (mod_ok k) ms = true -> hk k (apply_mods p ms).
Proof.
  intros k ms. induction ms as [|m ms IH]; intros p H Hm; [exact H|]. simpl in Hm. apply andb_true_iff in Hm.
  destruct Hm as [H1 H2]. unfold apply_mods. simpl. apply IH; [|exact H2].
  destruct m as [b|b f]; simpl; [now apply hk_remove | now apply hk_replace].
Qed.

Lemma head_keyed_disjoint : forall k k' a b, k <> k' ->
  Forall (head_keyed k) a -> Forall (head_keyed k') b -> disjoint a b.
Proof.
  intros k k' a b N Ha Hb l La Lb. rewrite Forall_forall in Ha, Hb.
  destruct (Ha l La) as [r Hr]. destruct (Hb l Lb) as [r' Hr']. rewrite Hr in Hr'. injection Hr' as E _. now apply N.
Qed.

(* GENERAL: any two keyed facet lists, rebound to different keys, then modified by remove / replace with facets
   keyed by the new policy: no common static object *)
Lemma rebind_mods_disjoint : forall p p' k k' ms ms',
  keyed p = true -> keyed p' = true -> k <> k' ->
  forallb (mod_ok k) ms = true -> forallb (mod_ok k') ms' = true ->
  disjoint (locs_of_policy (apply_mods (rebind p k) ms)) (locs_of_policy (apply_mods (rebind p' k') ms')).
Proof.
  intros p p' k k' ms ms' Kp Kp' N M M'.
  apply (head_keyed_disjoint k k'); [exact N | |]; apply hk_all; apply hk_mods; auto using hk_rebind.
Qed.

Lemma rebind_disjoint : forall p p' k k', keyed p = true -> keyed p' = true -> k <> k' ->
  disjoint (locs_of_policy (rebind p k)) (locs_of_policy (rebind p' k')).
Proof. intros p p' k k' Kp Kp' N. exact (rebind_mods_disjoint p p' k k' [] [] Kp Kp' N eq_refl eq_refl). Qed.

Lemma stock_keyed_disjoint : forallb keyed stock_policies = true ->
  forall P, In P stock_policies -> forall k k', k <> k' ->
  disjoint (locs_of_policy (rebind P k)) (locs_of_policy (rebind P k')).
Proof.
  intros H P HP k k' N. rewrite forallb_forall in H. apply rebind_disjoint; auto.
Qed.

(* ------------------------------------------------------------------------------------------------ 4. no rebind *)

Lemma remove_shares : forall p base,
  p_key (remove p base) = p_key p /\ incl (locs_of_policy (remove p base)) (locs_of_policy p).
Proof.
  intros p base. split; [reflexivity|]. intros l Hl. unfold locs_of_policy in *. apply in_flat_map in Hl.
  destruct Hl as [b [Hb Hl]]. apply in_flat_map. exists b. split; [exact Hb|]. destruct (is_pack b) eqn:P.
  - unfold base_locs in *. rewrite P in *. simpl in Hl. apply in_flat_map in Hl. destruct Hl as [t [Ht Hl]].
    apply filter_In in Ht. apply in_flat_map. exists t. tauto.
  - now rewrite (base_locs_same_key p (remove p base) b eq_refl P) in Hl.
Qed.

Lemma domain_locs_within : forall p, incl (domain_locs p) (locs_of_policy p).
Proof.
  intros p l Hl. unfold domain_locs, locs_of_policy in *. apply in_flat_map in Hl. destruct Hl as [b [Hb Hl]].
  apply in_flat_map. exists b. split; [exact Hb|]. destruct (is_pack b); [destruct Hl | exact Hl].
Qed.

Lemma replace_shares : forall p base f,
  p_key (replace p base f) = p_key p /\ domain_locs (replace p base f) = domain_locs p /\
  incl (domain_locs p) (locs_of_policy (replace p base f)).
Proof.
  intros p base f. split; [reflexivity|].
  assert (E : domain_locs (replace p base f) = domain_locs p).
  { unfold domain_locs. apply flat_map_ext. intros b. destruct (is_pack b) eqn:P; [reflexivity|].
    now apply base_locs_same_key. }
  split; [exact E|]. rewrite <- E. apply domain_locs_within.
Qed.
