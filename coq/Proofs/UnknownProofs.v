(* UnknownProofs.v — update reports an unregistered class wherever it is used (C15, update time), and the checked
   lookup reports it at call time. *)
From Y2 Require Import Model.Registry Model.Compile Spec.Dispatch.
From Y2 Require Import Proofs.Interfaces Proofs.LatListFacts Proofs.LatBases Proofs.LatticeProofs Proofs.CompileProofs.
From Coq Require Import Lia.
Local Open Scope nat_scope.

(* where an id can be used in the catalogs *)
Definition used_as_base (R : registry) (t : tid) : Prop := exists r, In r (r_classes R) /\ In t (c_bases r).
Definition used_as_method_param (R : registry) (t : tid) : Prop := exists m, In m (r_methods R) /\ In t (m_vp m).
Definition used_as_def_param (R : registry) (t : tid) : Prop :=
  exists m d, In m (r_methods R) /\ In d (m_defs m) /\ In t (d_vp d).
Definition used (R : registry) (t : tid) : Prop := used_as_base R t \/ used_as_method_param R t \/ used_as_def_param R t.
Definition unregistered (R : registry) (t : tid) : Prop := ~ registered R (proj R t).

Lemma class_of_none R t : class_of R (class_keys R) t = None <-> unregistered R t.
Proof.
  unfold unregistered. rewrite <- class_keys_In. unfold class_of. split.
  - intros H Hin. destruct (index_ofN_In _ _ Hin) as [i Hi]. congruence.
  - intro H. destruct (index_ofN (proj R t) (class_keys R)) as [i|] eqn:E; [|reflexivity].
    exfalso. apply H. destruct (index_ofN_Some _ _ _ E) as [Hi Hk]. rewrite <- Hk. apply nth_In. exact Hi.
Qed.

Section Errors.
  Variable R : registry.
  Let keys := class_keys R.

  Lemma add_bases_result c : forall bases tb,
    match add_bases R keys c bases tb with
    | Ok _ => forall b, In b bases -> class_of R keys b <> None
    | Err e => exists b, In b bases /\ class_of R keys b = None /\ e = UnknownClass b
    end.
  Proof.
    induction bases as [|b rest IH]; intro tb; cbn [add_bases]; [intros ? []|].
    destruct (class_of R keys b) as [bi|] eqn:E.
    - specialize (IH (if Nat.eqb bi c then tb else upd_nth c tb [] (fun l => l ++ [bi]))).
      destruct (add_bases R keys c rest _) as [tb'|e].
      + intros b' [<-|H]; [congruence|apply IH; exact H].
      + destruct IH as [b' [H1 [H2 H3]]]. exists b'. split; [now right|auto].
    - exists b. split; [now left|auto].
  Qed.

  Lemma collect_bases_result : forall recs tb, (forall r, In r recs -> class_of R keys (c_tid r) <> None) ->
    match collect_bases R keys recs tb with
    | Ok _ => forall r b, In r recs -> In b (c_bases r) -> class_of R keys b <> None
    | Err e => exists r b, In r recs /\ In b (c_bases r) /\ class_of R keys b = None /\ e = UnknownClass b
    end.
  Proof.
    induction recs as [|r rest IH]; intros tb Hr; cbn [collect_bases]; [intros ? ? []|].
    destruct (class_of R keys (c_tid r)) as [c|] eqn:E; [|exfalso; apply (Hr r (or_introl eq_refl)); exact E].
    pose proof (add_bases_result c (c_bases r) tb) as Ha.
    destruct (add_bases R keys c (c_bases r) tb) as [tb'|e]; cbn [bind].
    - specialize (IH tb' (fun r' H => Hr r' (or_intror H))).
      destruct (collect_bases R keys rest tb') as [tb''|e].
      + intros r' b [<-|H] Hb; [apply Ha; exact Hb|apply (IH r' b H Hb)].
      + destruct IH as [r' [b [H1 [H2 [H3 H4]]]]]. exists r', b. split; [now right|auto].
    - destruct Ha as [b [H1 [H2 H3]]]. exists r, b. split; [now left|auto].
  Qed.

  Lemma lookup_all_result : forall ts,
    match lookup_all R keys ts with
    | Ok _ => forall t, In t ts -> class_of R keys t <> None
    | Err e => exists t, In t ts /\ class_of R keys t = None /\ e = UnknownClass t
    end.
  Proof.
    induction ts as [|t ts IH]; cbn [lookup_all]; [intros ? []|].
    destruct (class_of R keys t) as [c|] eqn:E.
    - destruct (lookup_all R keys ts) as [cs|e]; cbn [bind].
      + intros t' [<-|H]; [congruence|apply IH; exact H].
      + destruct IH as [t' [H1 [H2 H3]]]. exists t'. split; [now right|auto].
    - exists t. split; [now left|auto].
  Qed.

  Lemma lookup_defs_result : forall ds,
    match lookup_defs R keys ds with
    | Ok _ => forall d t, In d ds -> In t (d_vp d) -> class_of R keys t <> None
    | Err e => exists d t, In d ds /\ In t (d_vp d) /\ class_of R keys t = None /\ e = UnknownClass t
    end.
  Proof.
    induction ds as [|d ds IH]; cbn [lookup_defs]; [intros ? ? []|].
    pose proof (lookup_all_result (d_vp d)) as Hd.
    destruct (lookup_all R keys (d_vp d)) as [v|e]; cbn [bind].
    - destruct (lookup_defs R keys ds) as [vs|e]; cbn [bind].
      + intros d' t [<-|H] Ht; [apply Hd; exact Ht|apply (IH d' t H Ht)].
      + destruct IH as [d' [t [H1 [H2 [H3 H4]]]]]. exists d', t. split; [now right|auto].
    - destruct Hd as [t [H1 [H2 H3]]]. exists d, t. split; [now left|auto].
  Qed.

  Lemma augment_methods_result : forall ms,
    match augment_methods R keys ms with
    | Ok _ => forall m, In m ms -> (forall t, In t (m_vp m) -> class_of R keys t <> None) /\
                                   (forall d t, In d (m_defs m) -> In t (d_vp d) -> class_of R keys t <> None)
    | Err e => exists m t, In m ms /\ (In t (m_vp m) \/ exists d, In d (m_defs m) /\ In t (d_vp d)) /\
                           class_of R keys t = None /\ e = UnknownClass t
    end.
  Proof.
    induction ms as [|m ms IH]; cbn [augment_methods]; [intros ? []|].
    pose proof (lookup_all_result (m_vp m)) as Hv.
    destruct (lookup_all R keys (m_vp m)) as [vp|e]; cbn [bind].
    - pose proof (lookup_defs_result (m_defs m)) as Hd.
      destruct (lookup_defs R keys (m_defs m)) as [specs|e]; cbn [bind].
      + destruct (augment_methods R keys ms) as [cms|e]; cbn [bind].
        * intros m' [<-|H]; [split; assumption|apply IH; exact H].
        * destruct IH as [m' [t [H1 [H2 [H3 H4]]]]]. exists m', t. split; [now right|auto].
      + destruct Hd as [d [t [H1 [H2 [H3 H4]]]]]. exists m, t. split; [now left|]. split; [right; eauto|auto].
    - destruct Hv as [t [H1 [H2 H3]]]. exists m, t. split; [now left|]. split; [now left|auto].
  Qed.
End Errors.

Lemma records_have_classes R : forall r, In r (r_classes R) -> class_of R (class_keys R) (c_tid r) <> None.
Proof.
  intros r Hr E. apply class_of_none in E. apply E. exists r. split; [exact Hr|reflexivity].
Qed.

(* soundness: the only error update reports on an acyclic registry is an unknown class, and the reported id is an
   unregistered id that the catalogs use as a listed base, a method parameter or a definition parameter *)
Theorem update_error_sound R stale e : acyclic R -> compile_with stale R = Err e ->
  exists t, e = UnknownClass t /\ unregistered R t /\ used R t.
Proof.
  intros Hacy H. unfold compile_with in H.
  destruct (augment_classes R) as [L|e'] eqn:EL; cbn [bind] in H.
  - assert (Ek : l_keys L = class_keys R).
    { unfold augment_classes in EL. destruct (collect_bases R (class_keys R) (r_classes R) _); cbn [bind] in EL; [|discriminate].
      destruct (closure _ _); cbn [bind] in EL; [|discriminate]. inversion EL. reflexivity. }
    rewrite Ek in H. pose proof (augment_methods_result R (r_methods R)) as Hm.
    destruct (augment_methods R (class_keys R) (r_methods R)) as [ms|e'']; cbn [bind] in H; [discriminate|].
    inversion H; subst e''. destruct Hm as [m [t [H1 [H2 [H3 H4]]]]]. exists t. split; [exact H4|]. split; [apply class_of_none; exact H3|].
    destruct H2 as [H2|[d [Hd Ht]]]; [right; left; exists m; auto|right; right; exists m, d; auto].
  - inversion H; subst e'. clear H.
    pose proof (collect_bases_result R (r_classes R) (repeat [] (length (class_keys R))) (records_have_classes R)) as Hc.
    unfold augment_classes in EL.
    destruct (collect_bases R (class_keys R) (r_classes R) (repeat [] (length (class_keys R)))) as [tb0|e0] eqn:E0; cbn [bind] in EL.
    + (* all listed bases registered: then augment_classes cannot fail on an acyclic registry *)
      exfalso.
      assert (BR : bases_registered R).
      { intros r b Hr Hb. unfold rec_bases in Hb. apply in_map_iff in Hb. destruct Hb as [t [<- Ht]].
        specialize (Hc r t Hr Ht). destruct (class_of R (class_keys R) t) as [i|] eqn:Ei; [|congruence].
        apply class_keys_In. destruct (index_ofN_Some _ _ _ Ei) as [Hi Hk]. rewrite <- Hk. apply nth_In. exact Hi. }
      destruct (augment_classes_char R Hacy BR) as [tb2 [Hok _]].
      unfold augment_classes in Hok. rewrite E0 in Hok. cbn [bind] in Hok.
      destruct (closure _ tb0); cbn [bind] in *; discriminate.
    + inversion EL; subst e. destruct Hc as [r [b [H1 [H2 [H3 H4]]]]]. exists b. split; [exact H4|]. split; [apply class_of_none; exact H3|].
      left. exists r. auto.
Qed.

(* completeness: if the catalogs use an unregistered id anywhere, update reports an unknown class (and installs nothing) *)
Theorem update_error_complete R stale t : acyclic R -> used R t -> unregistered R t ->
  exists t', compile_with stale R = Err (UnknownClass t') /\ unregistered R t' /\ used R t'.
Proof.
  intros Hacy Hu Hun.
  destruct (compile_with stale R) as [C|e] eqn:E.
  - exfalso. unfold compile_with in E.
    destruct (augment_classes R) as [L|] eqn:EL; cbn [bind] in E; [|discriminate].
    assert (Ek : l_keys L = class_keys R).
    { unfold augment_classes in EL. destruct (collect_bases R (class_keys R) (r_classes R) _); cbn [bind] in EL; [|discriminate].
      destruct (closure _ _); cbn [bind] in EL; [|discriminate]. inversion EL. reflexivity. }
    rewrite Ek in E.
    pose proof (collect_bases_result R (r_classes R) (repeat [] (length (class_keys R))) (records_have_classes R)) as Hc.
    pose proof (augment_methods_result R (r_methods R)) as Hm.
    unfold augment_classes in EL.
    destruct (collect_bases R (class_keys R) (r_classes R) (repeat [] (length (class_keys R)))) as [tb0|]; cbn [bind] in EL; [|discriminate].
    destruct (augment_methods R (class_keys R) (r_methods R)) as [ms|]; cbn [bind] in E; [|discriminate].
    apply class_of_none in Hun.
    destruct Hu as [[r [Hr Ht]]|[[m [Hm' Ht]]|[m [d [Hm' [Hd Ht]]]]]].
    + exact (Hc r t Hr Ht Hun).
    + exact (proj1 (Hm m Hm') t Ht Hun).
    + exact (proj2 (Hm m Hm') d t Hd Ht Hun).
  - destruct (update_error_sound R stale e Hacy E) as [t' [-> [H1 H2]]]. exists t'. auto.
Qed.

(* ------------------------------------------------------------------ call time, checked policies *)

(* the checked hash (C05_checked): an id that was not registered is reported as unknown class; the call path looks the
   virtual arguments up left to right, and reads a table or runs a definition only with the pointers it obtained *)
Fixpoint checked_vptrs (R : registry) (C : compiled) (ids : list tid) : result (list Z) :=
  match ids with
  | [] => Ok []
  | t :: rest =>
      match class_of R (l_keys (o_lat C)) t with
      | None => Err (UnknownClass t)
      | Some c => do vs <- checked_vptrs R C rest; Ok (nth c (o_vptr C) 0%Z :: vs)
      end
  end.

Fixpoint actuals_of_vptrs (shape : list bool) (vps : list Z) : list (option Z) :=
  match shape with
  | [] => []
  | true :: shape' => match vps with v :: vps' => Some v :: actuals_of_vptrs shape' vps' | [] => [] end
  | false :: shape' => None :: actuals_of_vptrs shape' vps
  end.

Definition checked_call (R : registry) (C : compiled) (mi : nat) (shape : list bool) (ids : list tid) : result word :=
  do vps <- checked_vptrs R C ids; resolve C mi (actuals_of_vptrs shape vps).

Theorem checked_call_unregistered R stale C mi shape ids k t :
  compile_with stale R = Ok C ->
  nth_error ids k = Some t -> unregistered R t -> (forall j t', j < k -> nth_error ids j = Some t' -> ~ unregistered R t') ->
  checked_call R C mi shape ids = Err (UnknownClass t).
Proof.
  intros HC Hk Hun Hbefore.
  assert (Ek : l_keys (o_lat C) = class_keys R).
  { unfold compile_with in HC. destruct (augment_classes R) as [L|] eqn:EL; cbn [bind] in HC; [|discriminate].
    destruct (augment_methods R (l_keys L) (r_methods R)); cbn [bind] in HC; [|discriminate]. inversion HC.
    rewrite install_lat. unfold augment_classes in EL.
    destruct (collect_bases R (class_keys R) (r_classes R) _); cbn [bind] in EL; [|discriminate].
    destruct (closure _ _); cbn [bind] in EL; [|discriminate]. inversion EL. reflexivity. }
  unfold checked_call.
  assert (G : checked_vptrs R C ids = Err (UnknownClass t)).
  { revert k Hk Hbefore. induction ids as [|t0 rest IH]; intros k Hk Hbefore; [destruct k; discriminate|].
    cbn [checked_vptrs]. rewrite Ek. destruct k as [|k]; cbn [nth_error] in Hk.
    - inversion Hk; subst t0. apply class_of_none in Hun. rewrite Hun. reflexivity.
    - destruct (class_of R (class_keys R) t0) as [c|] eqn:E0.
      + rewrite (IH k Hk); [reflexivity|]. intros j t' Hj Hn. apply (Hbefore (S j) t'); [lia|exact Hn].
      + exfalso. apply (Hbefore 0 t0); [lia|reflexivity|]. apply class_of_none. exact E0. }
  rewrite G. reflexivity.
Qed.

Print Assumptions update_error_sound.
Print Assumptions update_error_complete.
Print Assumptions checked_call_unregistered.
