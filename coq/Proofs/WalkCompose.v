(* WalkCompose.v — the translated walk (Proofs/WalkSource.v) composed with the end-to-end theorem: on the tables
   update builds for a well-formed registry, the walk that core.hpp contains now returns the word of the definition
   the documented rule designates, for every legal call. *)
From Coq Require Import List Bool Arith ZArith Lia.
From Y2 Require Import Model.Registry Model.Compile Model.MiniWalk Gen.GenWalk Spec.Dispatch
  Proofs.Interfaces Proofs.InstallProofs Proofs.ResolveProofs Proofs.CompileProofs Proofs.SlotsProofs Proofs.TablesProofs
  Proofs.WalkSource.
Import ListNotations.
Local Open Scope nat_scope.

(* the slots_strides array update installs for a method of arity a has 2a - 1 entries (a slots, a - 1 strides) *)
Lemma ss_shape R stale C mi : wf_registry R -> compile_with stale R = Ok C -> mi < length (r_methods R) ->
  let a := length (cm_vp (nth mi (o_meths C) (mk_cmeth [] [] [] []))) in
  1 <= a /\ length (nth mi (o_ss C) []) = 2 * a - 1.
Proof.
  intros Hwf HC Hmi.
  destruct (compile_char R stale Hwf) as [L [ms [_ [_ [HC' [Hlo [Hms [Hlen _]]]]]]]].
  rewrite HC in HC'. inversion HC'; subst C. clear HC'.
  destruct (nth_error ms mi) as [cm|] eqn:Hcm; [|apply nth_error_None in Hcm; lia].
  assert (Hcmwf : meth_wf L cm) by (apply (proj1 (Forall_forall _ _) Hms); eapply nth_error_In; eassumption).
  pose proof (assign_slots_ok L ms (lo_wf R L Hlo) Hms) as Hso.
  pose proof (so_len_slots_m L ms _ Hso mi cm Hcm) as Hlsl.
  pose proof (to_len_strides L cm _ (build_method_table_ok L cm (lo_wf R L Hlo) Hcmwf)) as Hlst.
  cbv zeta. rewrite install_meths, (nth_error_nth _ _ (mk_cmeth [] [] [] []) Hcm).
  assert (Ha : 1 <= length (cm_vp cm)) by (destruct Hcmwf as [Hne _]; destruct (cm_vp cm); [congruence|cbn; lia]).
  split; [exact Ha|].
  rewrite (nth_ss L ms stale mi cm Hcm). unfold slots_strides_of.
  destruct (Nat.eqb_spec (length (cm_vp cm)) 1) as [E1|NE1].
  - destruct (nth mi (s_slots (assign_slots L ms)) []) as [|x [|y l]]; cbn [length] in *; try lia. cbn. lia.
  - rewrite app_length. lia.
Qed.

Theorem src_dispatch R stale C mi m cs kinds checks :
  wf_registry R -> compile_with stale R = Ok C -> nth_error (r_methods R) mi = Some m ->
  Forall (fun c => c < ncls (o_lat C)) cs -> legal R m (map (key (o_lat C)) cs) ->
  let cm := nth mi (o_meths C) (mk_cmeth [] [] [] []) in
  walk_resolve (o_image C) (nth mi (o_ss C) []) (length (cm_vp cm)) None checks gen_walkfns gen_entry
               (cm_shape cm) (actuals_of C (m_shape m) cs) kinds
  = Some (word_of_outcome mi (spec_dispatch R (meth_defs R m) (map (key (o_lat C)) cs))).
Proof.
  intros Hwf HC Hm Hcs Hlegal cm.
  assert (Hmi : mi < length (r_methods R)) by (apply nth_error_Some; congruence).
  destruct (ss_shape R stale C mi Hwf HC Hmi) as [Ha Hss].
  unfold cm. rewrite (src_resolve C mi _ kinds checks Ha Hss).
  rewrite (resolve_correct R stale C mi m cs Hwf HC Hm Hcs Hlegal). reflexivity.
Qed.
