(* WrCompose.v — the hypotheses of WrSource.src_encode_cells hold of everything `update` produces: for every well-formed
   registry, the translated writing loops of the encoder emit the three arrays of Codec.encode (compile R); with the translated
   decoder (DecSource) the round trip is then a statement about generator.hpp and decode.hpp as translated on this run. *)
From Coq Require Import List Arith NArith Lia Bool ZArith.
From Y2 Require Import Model.Registry Model.Compile Gen.GenCodecConsts Model.Codec Spec.Dispatch
                       Proofs.LatListFacts Proofs.TablesGeneric Proofs.TablesBuild Proofs.CompileProofs Proofs.CorollaryProofs
                       Proofs.CodecProofs Model.MiniWr Gen.GenWr Proofs.WrSource Model.MiniDec Gen.GenDec Proofs.DecSource.
Import ListNotations.
Local Open Scope nat_scope.

Lemma group_index_small L m d c : group_index L m d c = 0 \/ group_index L m d c < length (groups_of L m d).
Proof.
  unfold group_index. destruct (index_ofN (mask_of L (cm_specs m) d c) (map fst (groups_of L m d))) as [g|] eqn:E; [|now left].
  right. apply index_ofN_Some in E. destruct E as [E _]. now rewrite map_length in E.
Qed.

Lemma uni_cells_length L m : length (cm_vp m) = 1 -> length (t_cells (build_method L m)) = length (groups_of L m 0).
Proof.
  intro Ha. rewrite tb_cells_eq, map_length. rewrite tb_cf_length by (destruct (cm_vp m); [discriminate|congruence]).
  pose proof (tb_sizes_length L m) as Hl. rewrite Ha in Hl.
  pose proof (tb_sizes_nth L m 0 ltac:(lia)) as H0.
  destruct (tb_sizes L m) as [|x [|y r]]; cbn [length] in Hl; try lia.
  cbn [nth] in H0. subst x. rewrite tg_prod_cons, tg_prod_nil. lia.
Qed.

Theorem src_encode_compile R C : wf_registry R -> compile R = Ok C -> small C ->
  wrun C gen_write_slots = Some (e_slots (encode C)) /\
  wrun C gen_write_vtbls = Some (e_vtbls (encode C)) /\
  wrun C gen_write_tables = Some (e_dtbls (encode C)).
Proof.
  intros Hwf HC Hsmall.
  destruct (compile_codec_ok R C Hwf HC Hsmall) as [L [ms [EC [Hlo [Hms [Hok Hnv]]]]]].
  destruct (all3_length _ _ _ _ (ck_meths C Hok)) as [Hl1 Hl2].
  apply src_encode_cells; [now symmetry|now symmetry| |].
  - (* the entries *)
    intros es e Hes He. destruct e as [[mi vpi] g]. intro Hv. subst vpi.
    pose proof (ck_entries C Hok) as Hent. rewrite Forall_forall in Hent. specialize (Hent es Hes).
    rewrite Forall_forall in Hent. specialize (Hent _ He). destruct Hent as [_ [_ [m [Hm _]]]].
    split; [apply nth_error_Some; congruence|].
    destruct (ck_meth_at C mi m Hok Hm) as [Hg Enth]. rewrite Enth. intro Ha.
    destruct Hg as [_ [_ [_ [Hne _]]]].
    (* where the entry comes from *)
    set (st := assign_slots L ms) in *.
    destruct (install_slots [] L ms st) as [_ [_ E3]]. pose proof (install_tables [] L ms st) as E4.
    pose proof (install_meths [] L ms st) as E5. rewrite <- EC in E3, E4, E5.
    rewrite E3 in Hes. pose proof (write_vtbls_src L ms st) as Hsrc. rewrite Forall_forall in Hsrc. specialize (Hsrc es Hes).
    rewrite Forall_forall in Hsrc. specialize (Hsrc _ He).
    rewrite E5 in Hm.
    assert (Et : nth mi (o_tables C) dummy_tab = build_method L m).
    { rewrite E4. apply nth_error_nth. rewrite nth_error_map, Hm. reflexivity. }
    rewrite Et in *. destruct Hsrc as [E0|[mi' [m' [dim [c [E0 [Hm' Hdim]]]]]]].
    + inversion E0. destruct (t_cells (build_method L m)); [congruence|cbn; lia].
    + inversion E0 as [[Emi Edim Eg]]. rewrite <- Emi, Hm in Hm'. inversion Hm' as [Emm]. rewrite <- Emm in *. clear Emm.
      unfold meth_arity in Ha. rewrite (uni_cells_length L m Ha).
      destruct (group_index_small L m 0 c) as [Ez|Hlt]; [|exact Hlt].
      rewrite Ez. rewrite <- (uni_cells_length L m Ha). destruct (t_cells (build_method L m)); [congruence|cbn; lia].
  - (* no dispatch table is empty *)
    intros m t Hin _.
    destruct (In_nth _ _ (dummy_meth, dummy_tab) Hin) as [i [Hi Ei]].
    rewrite combine_length in Hi. rewrite combine_nth in Ei by (now rewrite Hl2).
    inversion Ei as [[Em Et]].
    assert (Hm : nth_error (o_meths C) i = Some m) by (rewrite <- Em; apply nth_error_nth'; lia).
    destruct (ck_meth_at C i m Hok Hm) as [Hg _]. now destruct Hg as [_ [_ [_ [Hne _]]]].
Qed.

(* both halves translated: what the encoder of generator.hpp writes, the decoder of decode.hpp turns back into update's tables *)
Theorem src_roundtrip_both R C : wf_registry R -> compile R = Ok C -> small C ->
  exists slots vtbls dtbls,
    wrun C gen_write_slots = Some slots /\ wrun C gen_write_vtbls = Some vtbls /\ wrun C gen_write_tables = Some dtbls /\
    let E := encode C in
    exists d, decode_src gen_dec (ctx_of C) (mk_enc (e_H E) (e_S E) (e_E E) (e_D E) (e_T E) slots vtbls dtbls) = COk d /\
      (exists junk, o_image C = dd_image d ++ junk) /\ length (dd_image d) = written C /\
      dd_ss d = o_ss C /\
      o_vptr C = map (fun z => (Z.of_nat (tables_len C) + z)%Z) (dd_vptr d).
Proof.
  intros Hwf HC Hsmall. destruct (src_encode_compile R C Hwf HC Hsmall) as [E1 [E2 E3]].
  exists (e_slots (encode C)), (e_vtbls (encode C)), (e_dtbls (encode C)). split; [exact E1|]. split; [exact E2|]. split; [exact E3|].
  cbv zeta. replace (mk_enc _ _ _ _ _ _ _ _) with (encode C) by (now destruct (encode C)).
  exact (src_roundtrip R C Hwf HC Hsmall).
Qed.
