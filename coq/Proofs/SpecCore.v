(* Proofs/SpecCore.v — (S2)(S3)(S4): the computable versions of Spec/Dispatch.v agree with the Props,
   the documented ordering gives at most one dominant definition, and spec_dispatch_among
   is the unique outcome allowed by outcome_ok.
   (S1) is in Proofs/SpecAnc.v (ancb_correct), re-exported here.
   No axioms; stdlib only. *)
From Y2 Require Import Model.Registry Spec.Dispatch.
From Y2 Require Export Proofs.SpecAnc.
From Coq Require Import List NArith Arith Lia Bool Relations Permutation.
Import ListNotations.

Lemma bool_eq_iff (a b : bool) : (a = true <-> b = true) -> a = b.
Proof. destruct a, b; intros [H1 H2]; try reflexivity; [symmetry; now apply H1|now apply H2]. Qed.

Lemma Forall2_and_right {A B} (P : A -> B -> Prop) (Q : B -> Prop) l : forall l',
  Forall2 (fun p a => Q a /\ P p a) l l' <-> Forall2 P l l' /\ (forall a, In a l' -> Q a).
Proof.
  induction l as [|p l IH]; intros [|a l'].
  - split; [intros _; split; [constructor|intros a []]|intros _; constructor].
  - split; [intro H; inversion H|intros [H _]; inversion H].
  - split; [intro H; inversion H|intros [H _]; inversion H].
  - split.
    + intro H. inversion H as [|? ? ? ? [Hq Hp] Ht]; subst. apply IH in Ht. destruct Ht as [Ht Hq'].
      split; [now constructor|]. intros x [<-|Hx]; auto.
    + intros [H Hq]. inversion H as [|? ? ? ? Hp Ht]; subst. constructor.
      * split; [apply Hq; now left|assumption].
      * apply IH. split; [assumption|]. intros x Hx. apply Hq. now right.
Qed.

Lemma Forall2_iff_pointwise {A B} (P Q : A -> B -> Prop) :
  (forall a b, P a b <-> Q a b) -> forall l l', Forall2 P l l' <-> Forall2 Q l l'.
Proof.
  intros H l l'. split; intro F; induction F; constructor; try assumption; now apply H.
Qed.

(* ================================================================== *)
Section SpecProofs.
  Variable R : registry.

  (* ---------------- (S2) boolean / Prop equivalences ---------------- *)

  Lemma registeredb_correct c : registeredb R c = true <-> registered R c.
  Proof.
    unfold registeredb, registered. rewrite existsb_exists.
    split; intros [r [Hr E]]; exists r; (split; [assumption|]); now apply N.eqb_eq.
  Qed.

  Lemma applicableb_correct d : forall args, applicableb R d args = true <-> applicable R d args.
  Proof.
    unfold applicable. induction d as [|p d IH]; intros [|a args]; cbn [applicableb].
    - split; [constructor|reflexivity].
    - split; [discriminate|intro H; inversion H].
    - split; [discriminate|intro H; inversion H].
    - rewrite andb_true_iff, ancb_correct, IH. split.
      + intros [H1 H2]. now constructor.
      + intro H. inversion H; subst. auto.
  Qed.

  Lemma proper_baseb_correct b d : proper_baseb R b d = true <-> proper_base R b d.
  Proof.
    unfold proper_baseb, proper_base.
    rewrite andb_true_iff, negb_true_iff, N.eqb_neq, ancb_correct. reflexivity.
  Qed.

  Lemma nowhere_base_correct a : forall b,
    nowhere_base R a b = true <->
    length a = length b /\
    forall i x y, nth_error a i = Some x -> nth_error b i = Some y -> ~ proper_base R x y.
  Proof.
    induction a as [|x a IH]; intros [|y b]; cbn [nowhere_base length].
    - split; [|reflexivity]. intros _. split; [reflexivity|].
      intros i x0 y0 H. destruct i; discriminate H.
    - split; [discriminate|intros [H _]; discriminate H].
    - split; [discriminate|intros [H _]; discriminate H].
    - rewrite andb_true_iff, negb_true_iff, IH. split.
      + intros [Hn [Hl Hf]]. split; [now rewrite Hl|].
        intros [|i] x0 y0 Hx Hy; cbn [nth_error] in Hx, Hy.
        * injection Hx as <-. injection Hy as <-. intro Hp.
          apply proper_baseb_correct in Hp. congruence.
        * eapply Hf; eassumption.
      + intros [Hl Hf]. split; [|split].
        * destruct (proper_baseb R x y) eqn:E; [|reflexivity]. exfalso.
          apply (Hf 0 x y eq_refl eq_refl). now apply proper_baseb_correct.
        * now injection Hl.
        * intros i x0 y0 Hx Hy. apply (Hf (S i) x0 y0); assumption.
  Qed.

  Lemma somewhere_derived_correct a : forall b,
    somewhere_derived R a b = true <->
    exists i x y, nth_error a i = Some x /\ nth_error b i = Some y /\ proper_base R y x.
  Proof.
    induction a as [|x a IH]; intros [|y b]; cbn [somewhere_derived].
    - split; [discriminate|]. intros [i [x0 [y0 [H _]]]]. destruct i; discriminate H.
    - split; [discriminate|]. intros [i [x0 [y0 [H _]]]]. destruct i; discriminate H.
    - split; [discriminate|]. intros [i [x0 [y0 [_ [H _]]]]]. destruct i; discriminate H.
    - rewrite orb_true_iff, IH, proper_baseb_correct. split.
      + intros [H|[i [x0 [y0 H]]]]; [exists 0, x, y; auto|exists (S i), x0, y0; exact H].
      + intros [[|i] [x0 [y0 [Hx [Hy Hp]]]]]; cbn [nth_error] in Hx, Hy.
        * injection Hx as <-. injection Hy as <-. now left.
        * right. exists i, x0, y0. auto.
  Qed.

  Lemma more_specificb_correct a b : more_specificb R a b = true <-> more_specific R a b.
  Proof.
    unfold more_specificb, more_specific.
    rewrite andb_true_iff, nowhere_base_correct, somewhere_derived_correct. tauto.
  Qed.

  Lemma dominatesb_correct defs cand i :
    dominatesb R defs cand i = true /\ In i cand <-> dominant R defs cand i.
  Proof.
    unfold dominatesb, dominant. rewrite forallb_forall. split.
    - intros [H Hi]. split; [assumption|]. intros j Hj Hne. specialize (H j Hj).
      apply orb_true_iff in H. destruct H as [H|H].
      + apply Nat.eqb_eq in H. contradiction.
      + now apply more_specificb_correct.
    - intros [Hi H]. split; [|assumption]. intros j Hj.
      destruct (Nat.eqb_spec j i) as [E|E]; [reflexivity|]. cbn [orb].
      apply more_specificb_correct. auto.
  Qed.

  Lemma defn_eqb_correct a : forall b, defn_eqb a b = true <-> a = b.
  Proof.
    induction a as [|x a IH]; intros [|y b]; cbn [defn_eqb].
    - tauto.
    - split; discriminate.
    - split; discriminate.
    - rewrite andb_true_iff, N.eqb_eq, IH. split.
      + intros [-> ->]. reflexivity.
      + intro H. injection H. auto.
  Qed.

  Lemma strictly_more_generalb_correct a b :
    strictly_more_generalb R a b = true <-> strictly_more_general R a b.
  Proof.
    unfold strictly_more_generalb, strictly_more_general.
    rewrite andb_true_iff, negb_true_iff, applicableb_correct. unfold applicable.
    split; intros [H1 H2]; (split; [assumption|]).
    - intro E. apply defn_eqb_correct in E. congruence.
    - destruct (defn_eqb a b) eqn:E; [|reflexivity]. apply defn_eqb_correct in E. contradiction.
  Qed.

  Lemma legalb_correct m args : legalb R m args = true <-> legal R m args.
  Proof.
    unfold legalb, legal.
    rewrite andb_true_iff, applicableb_correct, forallb_forall, Forall2_and_right.
    unfold applicable. split; intros [H1 H2]; (split; [assumption|]);
      intros a Ha; apply registeredb_correct; auto.
  Qed.

  (* ---------------- (S3) asymmetry, uniqueness of the dominant definition ---------------- *)

  (* acyclicity is not needed: "somewhere a proper derived class" in one direction
     contradicts "nowhere a proper base" in the other at the same position *)
  Lemma more_specific_asym_gen a b : more_specific R a b -> ~ more_specific R b a.
  Proof.
    intros [_ [_ [i [x [y [Hx [Hy Hp]]]]]]] [_ [Hn _]]. exact (Hn i y x Hy Hx Hp).
  Qed.

  Lemma more_specific_irrefl a : ~ more_specific R a a.
  Proof. intro H. exact (more_specific_asym_gen a a H H). Qed.

  Lemma dominant_unique_gen defs cand i j :
    dominant R defs cand i -> dominant R defs cand j -> i = j.
  Proof.
    intros [Hi Di] [Hj Dj]. destruct (Nat.eq_dec i j) as [E|Hne]; [assumption|]. exfalso.
    apply (more_specific_asym_gen (nth i defs []) (nth j defs [])).
    - apply Di; [assumption|]. intro E. apply Hne. now symmetry.
    - apply Dj; assumption.
  Qed.

  Theorem more_specific_asym a b : acyclic R -> more_specific R a b -> ~ more_specific R b a.
  Proof. intros _. apply more_specific_asym_gen. Qed.

  Theorem dominant_unique defs cand i j :
    acyclic R -> dominant R defs cand i -> dominant R defs cand j -> i = j.
  Proof. intros _. apply dominant_unique_gen. Qed.

  (* under acyclicity anc is a partial order *)
  Lemma anc_antisym : acyclic R -> forall a b, anc R a b -> anc R b a -> a = b.
  Proof. intros H. exact H. Qed.

  Lemma proper_base_asym : acyclic R -> forall a b, proper_base R a b -> ~ proper_base R b a.
  Proof. intros H a b [Hn H1] [_ H2]. apply Hn. now apply H. Qed.

  Lemma proper_base_trans : acyclic R -> forall a b c,
    proper_base R a b -> proper_base R b c -> proper_base R a c.
  Proof.
    intros H a b c [Hab Aab] [Hbc Abc]. split; [|eapply anc_trans; eassumption].
    intros ->. apply Hab. apply H; assumption.
  Qed.

  (* ---------------- (S4) spec_dispatch_among is the outcome, and the only one ---------------- *)

  Lemma outcome_ok_functional defs cand o o' :
    outcome_ok R defs cand o -> outcome_ok R defs cand o' -> o = o'.
  Proof.
    destruct o as [i| |], o' as [j| |]; cbn [outcome_ok]; intros H H'; try reflexivity.
    - f_equal. eapply dominant_unique_gen; eassumption.
    - destruct H as [Hi _]. rewrite H' in Hi. destruct Hi.
    - destruct H' as [_ Hn]. destruct (Hn i H).
    - destruct H' as [Hj _]. rewrite H in Hj. destruct Hj.
    - destruct H' as [Hn _]. contradiction.
    - destruct H as [_ Hn]. destruct (Hn j H').
    - destruct H as [Hn _]. contradiction.
  Qed.

  Lemma spec_dispatch_among_ok_gen defs cand :
    outcome_ok R defs cand (spec_dispatch_among R defs cand).
  Proof.
    unfold spec_dispatch_among. destruct cand as [|c0 cand']; [reflexivity|].
    remember (c0 :: cand') as cand eqn:Ec.
    destruct (find (dominatesb R defs cand) cand) as [i|] eqn:F; cbn [outcome_ok].
    - apply find_some in F. apply dominatesb_correct. tauto.
    - split; [subst cand; discriminate|]. intros i D. apply dominatesb_correct in D.
      destruct D as [D Hi]. pose proof (find_none _ _ F i Hi) as H. congruence.
  Qed.

  Lemma spec_dispatch_among_iff defs cand o :
    spec_dispatch_among R defs cand = o <-> outcome_ok R defs cand o.
  Proof.
    split.
    - intros <-. apply spec_dispatch_among_ok_gen.
    - intro H. eapply outcome_ok_functional; [apply spec_dispatch_among_ok_gen|exact H].
  Qed.

  Theorem spec_dispatch_among_ok defs cand :
    acyclic R -> outcome_ok R defs cand (spec_dispatch_among R defs cand).
  Proof. intros _. apply spec_dispatch_among_ok_gen. Qed.

  Theorem spec_dispatch_among_unique defs cand o :
    acyclic R -> outcome_ok R defs cand o -> o = spec_dispatch_among R defs cand.
  Proof. intros _ H. symmetry. now apply spec_dispatch_among_iff. Qed.

  Lemma dominant_perm defs cand cand' i :
    Permutation cand cand' -> dominant R defs cand i -> dominant R defs cand' i.
  Proof.
    intros P [Hi D]. split; [eapply Permutation_in; eassumption|].
    intros j Hj. apply D. eapply Permutation_in; [apply Permutation_sym; exact P|exact Hj].
  Qed.

  Lemma outcome_ok_perm defs cand cand' o :
    Permutation cand cand' -> outcome_ok R defs cand o -> outcome_ok R defs cand' o.
  Proof.
    intros P. destruct o as [i| |]; cbn [outcome_ok].
    - now apply dominant_perm.
    - intros ->. now apply Permutation_nil.
    - intros [Hn Hd]. split.
      + intros ->. apply Hn. apply Permutation_nil. now apply Permutation_sym.
      + intros i D. apply (Hd i). eapply dominant_perm; [apply Permutation_sym; exact P|exact D].
  Qed.

  Lemma spec_dispatch_among_perm_gen defs cand cand' :
    Permutation cand cand' -> spec_dispatch_among R defs cand = spec_dispatch_among R defs cand'.
  Proof.
    intro P. apply spec_dispatch_among_iff. eapply outcome_ok_perm.
    - apply Permutation_sym. exact P.
    - apply spec_dispatch_among_ok_gen.
  Qed.

  Corollary spec_dispatch_among_perm defs cand cand' :
    acyclic R -> Permutation cand cand' ->
    spec_dispatch_among R defs cand = spec_dispatch_among R defs cand'.
  Proof. intros _. apply spec_dispatch_among_perm_gen. Qed.

  (* candidates given by a boolean filter on the indexes 0..n-1 *)
  Lemma In_filter_seq (P : nat -> bool) n i : In i (filter P (seq 0 n)) <-> i < n /\ P i = true.
  Proof. rewrite filter_In, in_seq. cbn. intuition lia. Qed.

  Definition spec_best (defs : list defn) (n : nat) (P : nat -> bool) (i : nat) : Prop :=
    i < n /\ P i = true /\
    forall j, j < n -> j <> i -> P j = true -> more_specific R (nth i defs []) (nth j defs []).

  Lemma dominant_filter defs n P i :
    dominant R defs (filter P (seq 0 n)) i <-> spec_best defs n P i.
  Proof.
    unfold dominant, spec_best. rewrite In_filter_seq. split.
    - intros [[Hi Pi] D]. split; [assumption|]. split; [assumption|].
      intros j Hj Hne Pj. apply D; [|assumption]. apply In_filter_seq. auto.
    - intros [Hi [Pi D]]. split; [auto|]. intros j Hj Hne. apply In_filter_seq in Hj.
      destruct Hj as [Hj Pj]. auto.
  Qed.

  Lemma among_filter_Run defs n P i :
    spec_dispatch_among R defs (filter P (seq 0 n)) = Run i <-> spec_best defs n P i.
  Proof. rewrite spec_dispatch_among_iff. cbn [outcome_ok]. apply dominant_filter. Qed.

  Lemma filter_seq_nil n P : filter P (seq 0 n) = [] <-> forall j, j < n -> P j = false.
  Proof.
    split.
    - intros E j Hj. destruct (P j) eqn:Pj; [|reflexivity]. exfalso.
      assert (In j (filter P (seq 0 n))) as H by (apply In_filter_seq; auto).
      rewrite E in H. destruct H.
    - intro H. destruct (filter P (seq 0 n)) as [|x l] eqn:E; [reflexivity|]. exfalso.
      assert (In x (filter P (seq 0 n))) as Hx by (rewrite E; now left).
      apply In_filter_seq in Hx. destruct Hx as [Hx Px]. rewrite (H x Hx) in Px. discriminate.
  Qed.

  Lemma filter_seq_not_nil n P : filter P (seq 0 n) <> [] <-> exists j, j < n /\ P j = true.
  Proof.
    split.
    - intro H. destruct (filter P (seq 0 n)) as [|x l] eqn:E; [contradiction|].
      exists x. apply In_filter_seq. rewrite E. now left.
    - intros [j [Hj Pj]] E. rewrite filter_seq_nil in E. rewrite (E j Hj) in Pj. discriminate.
  Qed.

  Lemma among_filter_NoDefinition defs n P :
    spec_dispatch_among R defs (filter P (seq 0 n)) = NoDefinition <-> forall j, j < n -> P j = false.
  Proof. rewrite spec_dispatch_among_iff. cbn [outcome_ok]. apply filter_seq_nil. Qed.

  Lemma among_filter_Ambiguous defs n P :
    spec_dispatch_among R defs (filter P (seq 0 n)) = Ambiguous <->
    (exists j, j < n /\ P j = true) /\ forall i, ~ spec_best defs n P i.
  Proof.
    rewrite spec_dispatch_among_iff. cbn [outcome_ok]. rewrite filter_seq_not_nil.
    split; intros [H1 H2]; (split; [assumption|]); intros i D; apply (H2 i); now apply dominant_filter.
  Qed.

  (* the reader-level characterisation of spec_dispatch *)
  Definition best_applicable (defs : list defn) (args : list N) (i : nat) : Prop :=
    i < length defs /\ applicable R (nth i defs []) args /\
    forall j, j < length defs -> j <> i -> applicable R (nth j defs []) args ->
              more_specific R (nth i defs []) (nth j defs []).

  Lemma In_applicable_idx defs args i :
    In i (applicable_idx R defs args) <-> i < length defs /\ applicable R (nth i defs []) args.
  Proof. unfold applicable_idx. rewrite In_filter_seq, applicableb_correct. reflexivity. Qed.

  Lemma spec_best_applicable defs args i :
    spec_best defs (length defs) (fun i => applicableb R (nth i defs []) args) i <->
    best_applicable defs args i.
  Proof.
    unfold spec_best, best_applicable. rewrite applicableb_correct.
    split; intros [H1 [H2 H3]]; (split; [assumption|]); (split; [assumption|]);
      intros j Hj Hne Pj; apply H3; try assumption; now apply applicableb_correct.
  Qed.

  Theorem spec_dispatch_Run defs args i :
    spec_dispatch R defs args = Run i <->
    (i < length defs /\ applicable R (nth i defs []) args /\
     forall j, j < length defs -> j <> i -> applicable R (nth j defs []) args ->
               more_specific R (nth i defs []) (nth j defs [])).
  Proof.
    unfold spec_dispatch, applicable_idx. rewrite among_filter_Run. apply spec_best_applicable.
  Qed.

  Theorem spec_dispatch_NoDefinition defs args :
    spec_dispatch R defs args = NoDefinition <->
    forall j, j < length defs -> ~ applicable R (nth j defs []) args.
  Proof.
    unfold spec_dispatch, applicable_idx. rewrite among_filter_NoDefinition.
    split; intros H j Hj.
    - rewrite <- applicableb_correct, (H j Hj). discriminate.
    - specialize (H j Hj). rewrite <- applicableb_correct in H.
      destruct (applicableb R (nth j defs []) args); [now destruct H|reflexivity].
  Qed.

  Theorem spec_dispatch_Ambiguous defs args :
    spec_dispatch R defs args = Ambiguous <->
    (exists j, j < length defs /\ applicable R (nth j defs []) args) /\
    forall i, ~ (i < length defs /\ applicable R (nth i defs []) args /\
                 forall j, j < length defs -> j <> i -> applicable R (nth j defs []) args ->
                           more_specific R (nth i defs []) (nth j defs [])).
  Proof.
    unfold spec_dispatch, applicable_idx. rewrite among_filter_Ambiguous. split.
    - intros [[j [Hj Pj]] H]. split.
      + exists j. split; [assumption|now apply applicableb_correct].
      + intros i D. apply (H i). now apply spec_best_applicable.
    - intros [[j [Hj Pj]] H]. split.
      + exists j. split; [assumption|now apply applicableb_correct].
      + intros i D. apply (H i). now apply spec_best_applicable in D.
  Qed.

  (* same for next *)
  Definition best_next (defs : list defn) (k : nat) (i : nat) : Prop :=
    i < length defs /\ strictly_more_general R (nth i defs []) (nth k defs []) /\
    forall j, j < length defs -> j <> i -> strictly_more_general R (nth j defs []) (nth k defs []) ->
              more_specific R (nth i defs []) (nth j defs []).

  Lemma spec_best_next defs k i :
    spec_best defs (length defs)
              (fun j => strictly_more_generalb R (nth j defs []) (nth k defs [])) i <->
    best_next defs k i.
  Proof.
    unfold spec_best, best_next. rewrite strictly_more_generalb_correct.
    split; intros [H1 [H2 H3]]; (split; [assumption|]); (split; [assumption|]);
      intros j Hj Hne Pj; apply H3; try assumption; now apply strictly_more_generalb_correct.
  Qed.

  Theorem spec_next_Run defs k i : spec_next R defs k = Run i <-> best_next defs k i.
  Proof. unfold spec_next. rewrite among_filter_Run. apply spec_best_next. Qed.

  Theorem spec_next_NoDefinition defs k :
    spec_next R defs k = NoDefinition <->
    forall j, j < length defs -> ~ strictly_more_general R (nth j defs []) (nth k defs []).
  Proof.
    unfold spec_next. rewrite among_filter_NoDefinition.
    split; intros H j Hj.
    - rewrite <- strictly_more_generalb_correct, (H j Hj). discriminate.
    - specialize (H j Hj). rewrite <- strictly_more_generalb_correct in H.
      destruct (strictly_more_generalb R (nth j defs []) (nth k defs [])); [now destruct H|reflexivity].
  Qed.

  Theorem spec_next_Ambiguous defs k :
    spec_next R defs k = Ambiguous <->
    (exists j, j < length defs /\ strictly_more_general R (nth j defs []) (nth k defs [])) /\
    forall i, ~ best_next defs k i.
  Proof.
    unfold spec_next. rewrite among_filter_Ambiguous. split.
    - intros [[j [Hj Pj]] H]. split.
      + exists j. split; [assumption|now apply strictly_more_generalb_correct].
      + intros i D. apply (H i). now apply spec_best_next.
    - intros [[j [Hj Pj]] H]. split.
      + exists j. split; [assumption|now apply strictly_more_generalb_correct].
      + intros i D. apply (H i). now apply spec_best_next in D.
  Qed.
End SpecProofs.

