(* OrderingSource.v — compiler<Policy>::is_more_specific, is_base and best, as TRANSLATED from detail/compiler.hpp
   on this run (Gen/GenOrdering.v) and interpreted by Model/MiniOrd.v, are Model.Compile's functions — on every
   input.  Hence everything proved about the model's ordering (TablesSem: it is the documented ordering; best = the
   dominating candidate) holds of the translated code. *)
From Coq Require Import List Bool Arith.
From Y2 Require Import Model.Registry Model.Compile Model.MiniOrd Gen.GenOrdering.
Import ListNotations.

(* y ∈ x->covariant_classes *)
Definition cov_rel (L : lattice) (x y : nat) : bool := memn y (nth x (l_cov L) []).

Ltac split_conds :=
  repeat match goal with
         | |- context [Nat.eqb ?x ?y] => destruct (Nat.eqb_spec x y); subst
         | |- context [memn ?x ?l] => destruct (memn x l) eqn:?
         end.

Ltac contra_eqs :=
  repeat match goal with
         | H1 : ?t = true, H2 : ?t = false |- _ => rewrite H1 in H2; discriminate H2
         | H : ?x <> ?x |- _ => exfalso; apply H; reflexivity
         end.

Lemma src_is_more_specific_loop L : forall a b res,
  oloop (cov_rel L) (pf_body gen_is_more_specific) (pf_final gen_is_more_specific) a b res
  = is_more_specific L a b res.
Proof.
  induction a as [|x a IH]; intros [|y b] res; try reflexivity.
  cbn [oloop is_more_specific]. unfold gen_is_more_specific at 1. cbn [pf_body pf_final].
  cbn [oexec oeval pick]. unfold cov_rel at 1 2.
  split_conds; cbn [negb oexec oeval pick]; unfold cov_rel; contra_eqs;
    repeat match goal with H : memn _ _ = _ |- _ => rewrite H end; cbn [negb oexec oeval pick];
    first [apply IH | reflexivity].
Qed.

Theorem src_is_more_specific L a b :
  run_pairfn (cov_rel L) gen_is_more_specific a b = is_more_specific L a b false.
Proof.
  unfold run_pairfn. replace (pf_init gen_is_more_specific) with false by reflexivity.
  apply src_is_more_specific_loop.
Qed.

Lemma src_is_base_loop L : forall a b res,
  oloop (cov_rel L) (pf_body gen_is_base) (pf_final gen_is_base) a b res = is_base L a b res.
Proof.
  induction a as [|x a IH]; intros [|y b] res; try reflexivity.
  cbn [oloop is_base]. unfold gen_is_base at 1. cbn [pf_body pf_final].
  cbn [oexec oeval pick]. unfold cov_rel at 1 2.
  split_conds; cbn [negb oexec oeval pick]; unfold cov_rel; contra_eqs;
    repeat match goal with H : memn _ _ = _ |- _ => rewrite H end; cbn [negb oexec oeval pick];
    first [apply IH | reflexivity].
Qed.

Theorem src_is_base L a b : run_pairfn (cov_rel L) gen_is_base a b = is_base L a b false.
Proof.
  unfold run_pairfn. replace (pf_init gen_is_base) with false by reflexivity. apply src_is_base_loop.
Qed.

(* best: the translated predicate of all_of, with is_more_specific / is_base the TRANSLATED functions *)
Definition src_more_specific (L : lattice) (specs : list (list nat)) (s o : nat) : bool :=
  run_pairfn (cov_rel L) gen_is_more_specific (nth s specs []) (nth o specs []).
Definition src_is_base_ix (L : lattice) (specs : list (list nat)) (s o : nat) : bool :=
  run_pairfn (cov_rel L) gen_is_base (nth s specs []) (nth o specs []).

Lemma src_best_pred L specs s o :
  beval (src_more_specific L specs) (src_is_base_ix L specs) s o gen_best_pred
  = (Nat.eqb o s || is_more_specific L (nth s specs []) (nth o specs []) false).
Proof.
  unfold gen_best_pred. cbn [beval pickw]. unfold src_more_specific, src_is_base_ix.
  rewrite ?src_is_more_specific, ?src_is_base.
  destruct (is_more_specific L (nth s specs []) (nth o specs []) false);
    destruct (Nat.eqb_spec o s); subst; rewrite ?Nat.eqb_refl; cbn [orb negb andb];
    try reflexivity;
    try (destruct (Nat.eqb_spec s o); subst; [contradiction|cbn [orb negb andb]; reflexivity]).
Qed.

Theorem src_best L specs cand :
  run_best (src_more_specific L specs) (src_is_base_ix L specs) gen_best_pred cand = best L specs cand.
Proof.
  unfold run_best, best.
  assert (E : forall l, find (fun s => forallb (fun o => beval (src_more_specific L specs) (src_is_base_ix L specs) s o gen_best_pred) cand) l
                      = find (fun s => forallb (fun o => Nat.eqb o s || is_more_specific L (nth s specs []) (nth o specs []) false) cand) l).
  { induction l as [|s l IHl]; [reflexivity|]. cbn [find].
    assert (F : forallb (fun o => beval (src_more_specific L specs) (src_is_base_ix L specs) s o gen_best_pred) cand
                = forallb (fun o => Nat.eqb o s || is_more_specific L (nth s specs []) (nth o specs []) false) cand).
    { clear. induction cand as [|o c IHc]; [reflexivity|]. cbn [forallb]. rewrite src_best_pred, IHc. reflexivity. }
    rewrite F, IHl. reflexivity. }
  rewrite E. reflexivity.
Qed.
