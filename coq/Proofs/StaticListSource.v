(* StaticListSource.v — the bodies of static_list<T>::push_back / remove / clear, the iteration protocol and
   empty(), as TRANSLATED from detail/static_list.hpp on this run (Gen/GenStaticList.v), interpreted by
   Model/MiniPtr.v, are the functions of Model/Catalog.v.  Hence every C18 theorem holds of the translated code. *)
From Coq Require Import List String Bool Arith Lia.
From Y2 Require Import Model.Catalog Model.MiniPtr Proofs.CatalogProofs Gen.GenStaticList.
Import ListNotations.
Local Open Scope string_scope.

(* same observable heap; nothing is said about the contents after a fault *)
Definition agree (a b : st) : Prop :=
  fault a = fault b /\
  (fault b = false -> first a = first b /\ forall x, prv a x = prv b x /\ nxt a x = nxt b x).

Lemma agree_refl a : agree a a.
Proof. split; [reflexivity|]. intros _. split; [reflexivity|]. intros x; split; reflexivity. Qed.

Lemma repr_ext l a b : agree a b -> repr l b -> repr l a.
Proof.
  intros [Hf H] R. specialize (H (r_ok l b R)). destruct H as [H1 H2].
  constructor.
  - exact (r_nodup l b R).
  - rewrite Hf. exact (r_ok l b R).
  - rewrite H1. exact (r_first l b R).
  - intros i x Hx. rewrite (proj2 (H2 x)). exact (r_next l b R i x Hx).
  - intros i x Hx. rewrite (proj1 (H2 x)). exact (r_prev l b R i x Hx).
  - intros x Hx. rewrite (proj1 (H2 x)). exact (r_prev_first l b R x Hx).
  - intros x Hx. rewrite (proj1 (H2 x)), (proj2 (H2 x)). exact (r_out l b R x Hx).
Qed.

Lemma ptr_eqb_some_l n o : ptr_eqb (Some n) o = ptr_is o n.
Proof. destruct o as [m|]; cbn; [apply Nat.eqb_sym|reflexivity]. Qed.

Ltac rw_hyps :=
  repeat match goal with
         | H : first _ = _ |- _ => rewrite H
         | H : prv _ _ = _ |- _ => rewrite H
         | H : nxt _ _ = _ |- _ => rewrite H
         end.

Ltac symex := repeat (progress (cbn; rw_hyps)).

Ltac eqbs :=
  repeat match goal with
         | |- context [Nat.eqb ?a ?b] => destruct (Nat.eqb_spec a b); subst
         | H : context [Nat.eqb ?a ?b] |- _ => destruct (Nat.eqb_spec a b); subst
         end.

Ltac dedup :=
  repeat match goal with
         | H1 : ?t = _, H2 : ?t = _ |- _ =>
             rewrite H1 in H2; first [discriminate H2 | injection H2; intros; subst; try clear H2 | clear H2]
         end.

Ltac pointwise :=
  split; [reflexivity|]; intros _; split; [reflexivity|];
  intros x; split; unfold upd; eqbs; try reflexivity; try congruence.

Ltac finish := repeat (progress (symex; eqbs; dedup)); try congruence; try contradiction; first [apply agree_refl | pointwise].

(* ------------------------------------------------------------------ push_back *)

Lemma src_push_back s n : push_pre s n = true -> agree (run_body 0 push_back_body s n) (push_back s n).
Proof.
  unfold push_pre. intros H. apply andb_true_iff in H. destruct H as [Hp Hn].
  destruct (prv s n) as [?|] eqn:Ep; [discriminate|]. destruct (nxt s n) as [?|] eqn:En; [discriminate|].
  unfold run_body, push_back_body, push_back.
  destruct (first s) as [f|] eqn:Ef; [destruct (prv s f) as [l|] eqn:El|]; finish.
Qed.

(* ------------------------------------------------------------------ remove *)

Lemma src_remove s n : agree (run_body 0 remove_body s n) (remove s n).
Proof.
  unfold run_body, remove_body, remove, ptr_is.
  destruct (first s) as [f|] eqn:Ef; [|finish].
  destruct (prv s f) as [l|] eqn:El; destruct (prv s n) as [p|] eqn:Ep; destruct (nxt s n) as [nx|] eqn:En; finish.
Qed.

(* ------------------------------------------------------------------ clear *)

Lemma lookup_bind x y v e : lookup x (bind y v e) = if String.eqb x y then Some v else lookup x e.
Proof.
  induction e as [|[z w] r IH]; cbn.
  - destruct (String.eqb x y); reflexivity.
  - destruct (String.eqb y z) eqn:Eyz; cbn.
    + apply String.eqb_eq in Eyz; subst z. destruct (String.eqb x y); reflexivity.
    + destruct (String.eqb x z) eqn:Exz.
      * destruct (String.eqb x y) eqn:Exy; [|reflexivity].
        apply String.eqb_eq in Exz, Exy; subst. rewrite String.eqb_refl in Eyz. discriminate.
      * exact IH.
Qed.

Ltac env_simpl :=
  repeat (rewrite lookup_bind;
          match goal with |- context [String.eqb ?a ?b] =>
            let v := eval vm_compute in (String.eqb a b) in change (String.eqb a b) with v end;
          cbv iota).

(* a loop whose test is `next != nullptr` and whose body unlinks *next and advances is clear_loop *)
Definition loop_result (r : res) (s : st) (cl : (node -> option node) * (node -> option node) * bool) : Prop :=
  match r, cl with
  | Go _ s', (p, nx, false) =>
      first s' = first s /\ fault s' = fault s /\ (forall x, prv s' x = p x /\ nxt s' x = nx x)
  | Bad, (_, _, true) => True
  | _, _ => False
  end.

Lemma loop_generic (x : string) (test : env -> st -> option bool) (step : env -> st -> res) :
  (forall e s cur, lookup x e = Some cur -> test e s = Some (negb (is_null cur))) ->
  (forall e s c, lookup x e = Some (Some c) ->
     exists e', step e s = Go e' {| first := first s; prv := upd (prv s) c None; nxt := upd (nxt s) c None; fault := fault s |}
                /\ lookup x e' = Some (nxt s c)) ->
  forall k e s cur, lookup x e = Some cur ->
    loop_result (while_loop test step k e s) s (clear_loop k cur (prv s) (nxt s)).
Proof.
  intros Ht Hs. induction k as [|k IH]; intros e s cur He; cbn [while_loop clear_loop]; rewrite (Ht e s cur He).
  - destruct cur as [c|]; cbn; [exact I|]. repeat split; reflexivity.
  - destruct cur as [c|]; cbn [is_null negb].
    2:{ cbn. repeat split; reflexivity. }
    destruct (Hs e s c He) as (e' & Hstep & He'). rewrite Hstep.
    set (s2 := {| first := first s; prv := upd (prv s) c None; nxt := upd (nxt s) c None; fault := fault s |}).
    specialize (IH e' s2 (nxt s c) He'). cbn [prv nxt first fault s2] in IH.
    destruct (clear_loop k (nxt s c) (upd (prv s) c None) (upd (nxt s) c None)) as [[p nx] oof].
    destruct (while_loop test step k e' s2) as [e1 s1|e1 s1|]; destruct oof; cbn in IH |- *; try exact IH; try contradiction.
Qed.

Ltac exec_steps He :=
  repeat (progress (cbn [exec eval_p eval_b get_fld set_fld prv nxt first fault is_null negb]; env_simpl; rewrite ?He)).

(* the translated clear: two statements, then a loop that meets loop_generic's hypotheses *)
Lemma src_clear_loop n fuel :
  match clear_body with
  | SSeq _ (SSeq _ (SWhile b c)) =>
      forall k e s cur, lookup clear_cursor e = Some cur ->
        loop_result (while_loop (fun e s => eval_b n e s b) (exec fuel n c) k e s) s (clear_loop k cur (prv s) (nxt s))
  | _ => False
  end.
Proof.
  unfold clear_body. apply loop_generic; unfold clear_cursor.
  - intros e s cur He. cbn [eval_b eval_p]. rewrite He. reflexivity.
  - intros e s c He. eexists. split.
    + exec_steps He. reflexivity.
    + env_simpl. rewrite ?He. reflexivity.
Qed.

Lemma exec_while fuel n b c e s :
  exec fuel n (SWhile b c) e s = while_loop (fun e s => eval_b n e s b) (exec fuel n c) fuel e s.
Proof. reflexivity. Qed.

Lemma src_clear fuel s n : agree (run_body fuel clear_body s n) (clear fuel s).
Proof.
  pose proof (src_clear_loop n fuel) as L. unfold run_body, clear. revert L. unfold clear_body.
  intros L.
  match goal with |- context [SWhile ?b ?c] => set (W := SWhile b c) end.
  cbn [exec eval_p bind]. subst W. rewrite exec_while.
  specialize (L fuel [(clear_cursor, first s)] (set_first s None) (first s)).
  assert (Hl : lookup clear_cursor [(clear_cursor, first s)] = Some (first s)) by reflexivity.
  specialize (L Hl). clear Hl. unfold clear_cursor in L.
  unfold loop_result in L. cbn [set_first prv nxt first fault] in L.
  destruct (clear_loop fuel (first s) (prv s) (nxt s)) as [[p nx] oof].
  revert L.
  match goal with
  | |- context [while_loop ?a ?b ?c ?d ?e] => destruct (while_loop a b c d e) as [e1 s1|e1 s1|]
  end; destruct oof; intros L; try contradiction.
  - destruct L as (L1 & L2 & L3). split; cbn [fault]; [rewrite orb_false_r; exact L2|].
    intros _. cbn [first prv nxt]. split; [exact L1|exact L3].
  - split; cbn [fault crashed]; [rewrite orb_true_r; reflexivity|]. rewrite orb_true_r. discriminate.
Qed.

(* ------------------------------------------------------------------ iteration, empty *)

Lemma src_iterate : forall fuel s cur,
  iter_src iter_incr_body iter_end fuel s cur = iter_from fuel (nxt s) cur.
Proof.
  unfold iter_incr_body, iter_end.
  induction fuel as [|k IH]; intros s cur; cbn [iter_src iter_from eval_p].
  - destruct cur; reflexivity.
  - destruct cur as [c|]; cbn [ptr_eqb]; [|reflexivity].
    cbn [exec eval_b eval_p lookup String.eqb Ascii.eqb Bool.eqb is_null negb get_fld bind].
    cbn. rewrite IH. reflexivity.
Qed.

Lemma src_iterate_all fuel s : iterate_src iter_incr_body iter_begin iter_end fuel s = iterate fuel s.
Proof. unfold iterate_src, iterate, iter_begin. cbn [eval_p]. apply src_iterate. Qed.

Lemma src_empty s n : eval_b n [] s empty_cond = Some (empty s).
Proof. unfold empty_cond, empty. cbn. rewrite negb_involutive. reflexivity. Qed.

(* ------------------------------------------------------------------ histories on the translated code *)

Definition src_step (fuel : nat) (s : st) (o : op) : st :=
  match o with
  | Push n => run_body fuel push_back_body s n
  | Remove n => run_body fuel remove_body s n
  | Clear => run_body fuel clear_body s 0
  end.

Definition src_run (fuel : nat) (ops : list op) : st := fold_left (src_step fuel) ops empty_st.

Lemma run_body_fuel_push s n fuel : run_body fuel push_back_body s n = run_body 0 push_back_body s n.
Proof. reflexivity. Qed.
Lemma run_body_fuel_remove s n fuel : run_body fuel remove_body s n = run_body 0 remove_body s n.
Proof. reflexivity. Qed.

Lemma src_step_refines fuel l s o :
  repr l s -> legal l o = true -> List.length l <= fuel -> repr (abs_step l o) (src_step fuel s o).
Proof.
  intros R L Hfuel. destruct o as [n|n|]; cbn [abs_step src_step legal] in *.
  - assert (Hn : ~ In n l) by (apply mem_not_In; now apply negb_true_iff).
    rewrite run_body_fuel_push.
    apply repr_ext with (push_back s n); [apply src_push_back; eapply repr_push_pre; eassumption|].
    now apply push_back_refines.
  - rewrite run_body_fuel_remove.
    apply repr_ext with (remove s n); [apply src_remove|]. apply remove_refines; [assumption|]. now apply mem_In.
  - apply repr_ext with (clear fuel s); [apply src_clear|]. now apply clear_refines with l.
Qed.

Lemma src_run_from_refines : forall ops fuel l s,
  repr l s -> legal_seq l ops = true -> List.length l + List.length ops <= fuel ->
  repr (abs_run l ops) (fold_left (src_step fuel) ops s).
Proof.
  induction ops as [|o ops IH]; intros fuel l s R L Hfuel.
  - exact R.
  - cbn [legal_seq] in L. apply andb_true_iff in L. destruct L as [Lo Lr].
    cbn [List.length] in Hfuel. unfold abs_run. cbn [fold_left].
    apply IH.
    + apply src_step_refines; [assumption|assumption|lia].
    + exact Lr.
    + pose proof (abs_step_length l o). lia.
Qed.

(* after ANY legal history run on the TRANSLATED code: the heap represents the abstract list; the translated
   iteration protocol enumerates it; the translated empty() is right; no fault *)
Theorem src_reachable ops fuel :
  legal_seq [] ops = true -> List.length ops <= fuel ->
  let l := abs_run [] ops in
  let s := src_run fuel ops in
  repr l s
  /\ l = live_pushes ops
  /\ NoDup l
  /\ iterate_src iter_incr_body iter_begin iter_end fuel s = Some l
  /\ (forall n, eval_b n [] s empty_cond = Some true <-> l = [])
  /\ fault s = false
  /\ (forall n, ~ In n l -> push_pre s n = true).
Proof.
  intros L Hfuel l s.
  assert (R : repr l s).
  { apply src_run_from_refines; [apply repr_empty|assumption|cbn; lia]. }
  assert (Hlen : List.length l <= fuel).
  { pose proof (abs_run_length ops []). cbn in H. unfold l. lia. }
  split; [exact R|]. split; [apply abs_run_live; exact L|]. split; [exact (r_nodup l s R)|].
  split; [rewrite src_iterate_all; now apply iterate_repr|].
  split.
  { intros n. rewrite src_empty. split; intros H.
    - injection H as H. now apply (empty_repr l s R).
    - f_equal. now apply (empty_repr l s R). }
  split; [exact (r_ok l s R)|].
  intros n Hn. eapply repr_push_pre; eassumption.
Qed.
