(* Proofs/SpecPerm.v — (S5) registration-order independence at the Spec level (for C06).
   - permuting the class catalog (same alias map) changes neither anc nor any boolean test;
   - permuting the definitions of a method by sigma renames the outcome of spec_dispatch /
     spec_next by sigma and changes nothing else.
   No axioms; stdlib only. *)
From Y2 Require Import Model.Registry Spec.Dispatch Proofs.SpecAnc Proofs.SpecCore Proofs.SpecPresent.
From Coq Require Import List NArith Arith Lia Bool Relations Permutation.
Import ListNotations.

(* ---------------- permuting the class catalog ---------------- *)

Lemma proj_alias R R' : r_alias R = r_alias R' -> forall t, proj R t = proj R' t.
Proof. intros A t. unfold proj. now rewrite A. Qed.

Lemma edge_perm_impl R R' :
  Permutation (r_classes R) (r_classes R') -> r_alias R = r_alias R' ->
  forall b d, edge R b d -> edge R' b d.
Proof.
  intros P A b d [Hn [r [Hr [Hc Hb]]]]. split; [assumption|]. exists r.
  split; [eapply Permutation_in; eassumption|].
  unfold rec_class, rec_bases in *. split.
  - now rewrite <- (proj_alias R R' A).
  - erewrite map_ext; [exact Hb|]. intro t. symmetry. now apply proj_alias.
Qed.

Lemma anc_perm_impl R R' :
  Permutation (r_classes R) (r_classes R') -> r_alias R = r_alias R' ->
  forall b d, anc R b d -> anc R' b d.
Proof. intros P A. apply anc_mono. now apply edge_perm_impl. Qed.

(* an instance of extensionality in anc (SpecPresent.v, section AncExt) *)
Section ClassPerm.
  Variables R R' : registry.
  Hypothesis Hcl : Permutation (r_classes R) (r_classes R').
  Hypothesis Hal : r_alias R = r_alias R'.

  Theorem anc_perm b d : anc R b d <-> anc R' b d.
  Proof.
    split; apply anc_perm_impl; auto; [now apply Permutation_sym].
  Qed.

  Lemma registered_perm c : registered R c <-> registered R' c.
  Proof.
    unfold registered, rec_class.
    split; intros [r [Hr E]]; exists r; (split; [eapply Permutation_in; [|exact Hr]|]).
    - exact Hcl.
    - now rewrite <- (proj_alias R R' Hal).
    - now apply Permutation_sym.
    - now rewrite (proj_alias R R' Hal).
  Qed.

  Theorem ancb_perm b d : ancb R b d = ancb R' b d.
  Proof. exact (ancb_anc_ext R R' anc_perm b d). Qed.

  Lemma registeredb_perm c : registeredb R c = registeredb R' c.
  Proof. exact (registeredb_anc_ext R R' registered_perm c). Qed.

  Lemma applicable_perm d args : applicable R d args <-> applicable R' d args.
  Proof. exact (applicable_anc_ext R R' anc_perm d args). Qed.

  Theorem applicableb_perm d args : applicableb R d args = applicableb R' d args.
  Proof. exact (applicableb_anc_ext R R' anc_perm d args). Qed.

  Lemma proper_base_perm b d : proper_base R b d <-> proper_base R' b d.
  Proof. exact (proper_base_anc_ext R R' anc_perm b d). Qed.

  Theorem more_specific_perm a b : more_specific R a b <-> more_specific R' a b.
  Proof. exact (more_specific_anc_ext R R' anc_perm a b). Qed.

  Theorem more_specificb_perm a b : more_specificb R a b = more_specificb R' a b.
  Proof. exact (more_specificb_anc_ext R R' anc_perm a b). Qed.

  Lemma strictly_more_general_perm a b :
    strictly_more_general R a b <-> strictly_more_general R' a b.
  Proof. exact (strictly_more_general_anc_ext R R' anc_perm a b). Qed.

  Lemma strictly_more_generalb_perm a b :
    strictly_more_generalb R a b = strictly_more_generalb R' a b.
  Proof. exact (strictly_more_generalb_anc_ext R R' anc_perm a b). Qed.

  Lemma dominant_class_perm defs cand i : dominant R defs cand i <-> dominant R' defs cand i.
  Proof. exact (dominant_anc_ext R R' anc_perm defs cand i). Qed.

  Lemma outcome_ok_class_perm defs cand o : outcome_ok R defs cand o <-> outcome_ok R' defs cand o.
  Proof. exact (outcome_ok_anc_ext R R' anc_perm defs cand o). Qed.

  (* same definitions, same candidates: same outcome *)
  Theorem spec_dispatch_among_class_perm defs cand :
    spec_dispatch_among R defs cand = spec_dispatch_among R' defs cand.
  Proof. exact (spec_dispatch_among_anc_ext R R' anc_perm defs cand). Qed.

  Theorem spec_dispatch_class_perm defs args : spec_dispatch R defs args = spec_dispatch R' defs args.
  Proof. exact (spec_dispatch_anc_ext R R' anc_perm defs args). Qed.

  Theorem spec_next_class_perm defs k : spec_next R defs k = spec_next R' defs k.
  Proof. exact (spec_next_anc_ext R R' anc_perm defs k). Qed.

  Theorem legal_class_perm m m' args :
    meth_vp R m = meth_vp R' m' -> (legal R m args <-> legal R' m' args).
  Proof. exact (legal_anc_ext R R' anc_perm registered_perm m m' args). Qed.
End ClassPerm.

(* ---------------- permuting the definitions of a method ---------------- *)

Definition map_outcome (f : nat -> nat) (o : outcome) : outcome :=
  match o with
  | Run i => Run (f i)
  | NoDefinition => NoDefinition
  | Ambiguous => Ambiguous
  end.

Lemma map_outcome_NoDefinition f o : map_outcome f o = NoDefinition <-> o = NoDefinition.
Proof. destruct o; cbn; split; congruence. Qed.

Lemma map_outcome_Ambiguous f o : map_outcome f o = Ambiguous <-> o = Ambiguous.
Proof. destruct o; cbn; split; congruence. Qed.

(* defs' : position i' holds the definition that was at position (nth i' sigma 0) *)
Definition permute_defs (defs : list defn) (sigma : list nat) : list defn :=
  map (fun j => nth j defs []) sigma.

Lemma permute_defs_length defs sigma : length (permute_defs defs sigma) = length sigma.
Proof. unfold permute_defs. apply map_length. Qed.

Lemma permute_defs_nth defs sigma : forall i',
  i' < length sigma -> nth i' (permute_defs defs sigma) [] = nth (nth i' sigma 0) defs [].
Proof.
  unfold permute_defs. induction sigma as [|a sigma IH]; intros [|i'] H; cbn [length] in H.
  - lia.
  - lia.
  - reflexivity.
  - cbn [map nth]. apply IH. lia.
Qed.

Section Sigma.
  Variable sigma : list nat.
  Variable n : nat.
  Hypothesis Hsig : Permutation sigma (seq 0 n).

  Lemma sigma_length : length sigma = n.
  Proof. rewrite (Permutation_length Hsig). apply seq_length. Qed.

  Lemma sigma_lt i' : i' < n -> nth i' sigma 0 < n.
  Proof.
    intro H. assert (In (nth i' sigma 0) (seq 0 n)) as Hin.
    { eapply Permutation_in; [exact Hsig|]. apply nth_In. now rewrite sigma_length. }
    apply in_seq in Hin. lia.
  Qed.

  Lemma sigma_surj j : j < n -> exists j', j' < n /\ nth j' sigma 0 = j.
  Proof.
    intro H. assert (In j sigma) as Hin.
    { eapply Permutation_in; [apply Permutation_sym; exact Hsig|]. apply in_seq. lia. }
    destruct (In_nth sigma j 0 Hin) as [j' [Hj' E]]. exists j'.
    rewrite sigma_length in Hj'. auto.
  Qed.

  Lemma sigma_NoDup : NoDup sigma.
  Proof. eapply Permutation_NoDup; [apply Permutation_sym; exact Hsig|apply seq_NoDup]. Qed.

  Lemma sigma_inj i' j' : i' < n -> j' < n -> nth i' sigma 0 = nth j' sigma 0 -> i' = j'.
  Proof.
    intros Hi Hj E. rewrite <- sigma_length in Hi, Hj.
    exact (proj1 (NoDup_nth sigma 0) sigma_NoDup i' j' Hi Hj E).
  Qed.

  (* the general statement: candidates selected by related filters *)
  Lemma among_filter_sigma R R' defs P P' :
    (forall a b, more_specific R a b <-> more_specific R' a b) ->
    (forall j', j' < n -> P' j' = P (nth j' sigma 0)) ->
    spec_dispatch_among R defs (filter P (seq 0 n)) =
    map_outcome (fun i' => nth i' sigma 0)
                (spec_dispatch_among R' (permute_defs defs sigma) (filter P' (seq 0 n))).
  Proof.
    intros Hms HP. apply spec_dispatch_among_iff.
    pose proof (spec_dispatch_among_ok_gen R' (permute_defs defs sigma) (filter P' (seq 0 n))) as Hok.
    destruct (spec_dispatch_among R' (permute_defs defs sigma) (filter P' (seq 0 n))) as [i'| |];
      cbn [map_outcome outcome_ok] in *.
    - apply dominant_filter in Hok. apply dominant_filter. destruct Hok as [Hi [Pi D]].
      split; [now apply sigma_lt|]. split; [rewrite <- HP; assumption|].
      intros j Hj Hne Pj. destruct (sigma_surj j Hj) as [j' [Hj' Ej]]. subst j.
      rewrite <- !permute_defs_nth by (rewrite sigma_length; assumption).
      apply Hms. apply D; [assumption| |rewrite HP; assumption].
      intro E. apply Hne. now rewrite E.
    - rewrite filter_seq_nil in *. intros j Hj. destruct (sigma_surj j Hj) as [j' [Hj' Ej]]. subst j.
      rewrite <- HP by assumption. auto.
    - destruct Hok as [Hne Hnd]. split.
      + apply filter_seq_not_nil in Hne. apply filter_seq_not_nil.
        destruct Hne as [j' [Hj' Pj']]. exists (nth j' sigma 0).
        split; [now apply sigma_lt|]. rewrite <- HP; assumption.
      + intros i D. apply dominant_filter in D. destruct D as [Hi [Pi D]].
        destruct (sigma_surj i Hi) as [i' [Hi' Ei]]. subst i. apply (Hnd i').
        apply dominant_filter. split; [assumption|]. split; [rewrite HP; assumption|].
        intros j' Hj' Hne' Pj'.
        rewrite !permute_defs_nth by (rewrite sigma_length; assumption).
        apply Hms. apply D; [now apply sigma_lt| |rewrite <- HP; assumption].
        intro E. apply Hne'. now apply sigma_inj.
  Qed.
End Sigma.

Section DefsPerm.
  Variables R R' : registry.
  Hypothesis Hcl : Permutation (r_classes R) (r_classes R').
  Hypothesis Hal : r_alias R = r_alias R'.
  Variable defs : list defn.
  Variable sigma : list nat.
  Hypothesis Hsig : Permutation sigma (seq 0 (length defs)).

  Theorem spec_dispatch_perm args :
    spec_dispatch R defs args =
    map_outcome (fun i' => nth i' sigma 0) (spec_dispatch R' (permute_defs defs sigma) args).
  Proof.
    unfold spec_dispatch, applicable_idx.
    rewrite permute_defs_length, (sigma_length sigma (length defs) Hsig).
    apply (among_filter_sigma sigma (length defs) Hsig).
    - apply more_specific_perm; assumption.
    - intros j' Hj'. cbv beta.
      rewrite permute_defs_nth by (rewrite (sigma_length _ _ Hsig); assumption).
      symmetry. apply applicableb_perm; assumption.
  Qed.

  Theorem spec_next_perm k' :
    k' < length defs ->
    spec_next R defs (nth k' sigma 0) =
    map_outcome (fun i' => nth i' sigma 0) (spec_next R' (permute_defs defs sigma) k').
  Proof.
    intro Hk. unfold spec_next.
    rewrite permute_defs_length, (sigma_length sigma (length defs) Hsig).
    apply (among_filter_sigma sigma (length defs) Hsig).
    - apply more_specific_perm; assumption.
    - intros j' Hj'. cbv beta.
      rewrite !permute_defs_nth by (rewrite (sigma_length _ _ Hsig); assumption).
      symmetry. apply strictly_more_generalb_perm; assumption.
  Qed.

  (* the same, outcome by outcome *)
  Corollary spec_dispatch_perm_Run args i' :
    spec_dispatch R' (permute_defs defs sigma) args = Run i' <->
    i' < length defs /\ spec_dispatch R defs args = Run (nth i' sigma 0).
  Proof.
    rewrite spec_dispatch_perm. split.
    - intro E. rewrite E. cbn [map_outcome]. split; [|reflexivity].
      apply spec_dispatch_Run in E. destruct E as [E _].
      now rewrite permute_defs_length, (sigma_length _ _ Hsig) in E.
    - intros [Hi E].
      destruct (spec_dispatch R' (permute_defs defs sigma) args) as [k'| |] eqn:F;
        cbn [map_outcome] in E; try discriminate E.
      injection E as E. f_equal. apply spec_dispatch_Run in F. destruct F as [F _].
      rewrite permute_defs_length, (sigma_length _ _ Hsig) in F.
      exact (sigma_inj sigma (length defs) Hsig k' i' F Hi E).
  Qed.

  Corollary spec_dispatch_perm_NoDefinition args :
    spec_dispatch R' (permute_defs defs sigma) args = NoDefinition <->
    spec_dispatch R defs args = NoDefinition.
  Proof. rewrite spec_dispatch_perm, map_outcome_NoDefinition. reflexivity. Qed.

  Corollary spec_dispatch_perm_Ambiguous args :
    spec_dispatch R' (permute_defs defs sigma) args = Ambiguous <->
    spec_dispatch R defs args = Ambiguous.
  Proof. rewrite spec_dispatch_perm, map_outcome_Ambiguous. reflexivity. Qed.

  Corollary spec_next_perm_Run k' i' :
    k' < length defs ->
    (spec_next R' (permute_defs defs sigma) k' = Run i' <->
     i' < length defs /\ spec_next R defs (nth k' sigma 0) = Run (nth i' sigma 0)).
  Proof.
    intro Hk. rewrite (spec_next_perm k' Hk). split.
    - intro E. rewrite E. cbn [map_outcome]. split; [|reflexivity].
      apply spec_next_Run in E. destruct E as [E _].
      now rewrite permute_defs_length, (sigma_length _ _ Hsig) in E.
    - intros [Hi E].
      destruct (spec_next R' (permute_defs defs sigma) k') as [j'| |] eqn:F;
        cbn [map_outcome] in E; try discriminate E.
      injection E as E. f_equal. apply spec_next_Run in F. destruct F as [F _].
      rewrite permute_defs_length, (sigma_length _ _ Hsig) in F.
      exact (sigma_inj sigma (length defs) Hsig j' i' F Hi E).
  Qed.

  Corollary spec_next_perm_NoDefinition k' :
    k' < length defs ->
    (spec_next R' (permute_defs defs sigma) k' = NoDefinition <->
     spec_next R defs (nth k' sigma 0) = NoDefinition).
  Proof. intro Hk. rewrite (spec_next_perm k' Hk), map_outcome_NoDefinition. reflexivity. Qed.

  Corollary spec_next_perm_Ambiguous k' :
    k' < length defs ->
    (spec_next R' (permute_defs defs sigma) k' = Ambiguous <->
     spec_next R defs (nth k' sigma 0) = Ambiguous).
  Proof. intro Hk. rewrite (spec_next_perm k' Hk), map_outcome_Ambiguous. reflexivity. Qed.
End DefsPerm.
