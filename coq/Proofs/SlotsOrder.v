(* SlotsOrder.v — what assign_slots needs to know about a well-formed lattice (lat_wf) and about used_by_vp:
   the covariance order, induction along transitive bases, roots, tree classes (single inheritance above),
   linearity of the ancestors of a tree class, uniqueness of the root of a tree class. *)
From Coq Require Import List NArith Arith Lia Bool.
From Y2 Require Import Model.Registry Model.Compile Proofs.Interfaces Proofs.SlotsBits.
Import ListNotations.
Local Open Scope nat_scope.

(* ------------------------------------------------------------------ used_by_vp *)

Definition vp_at (ms : list cmeth) (mi p : nat) : option nat :=
  match nth_error ms mi with
  | Some m => nth_error (cm_vp m) p
  | None => None
  end.

Lemma applies_iff L ms mi p z :
  applies L ms mi p z <-> exists x, vp_at ms mi p = Some x /\ In z (cov_of L x).
Proof.
  unfold applies, vp_at. split.
  - intros (m & Hm & c & Hc & Hz). exists c. rewrite Hm. auto.
  - intros (x & Hx & Hz). destruct (nth_error ms mi) as [m|] eqn:Hm; [|discriminate].
    exists m; split; auto. exists x; auto.
Qed.

Definition ubv_inner (mi c : nat) (l : list (nat * nat)) : list (nat * nat) :=
  flat_map (fun '(pi, v) => if Nat.eqb v c then [(mi, pi)] else []) l.

Definition ubv_outer (c : nat) (l : list (nat * cmeth)) : list (nat * nat) :=
  flat_map (fun '(mi, m) => ubv_inner mi c (combine (seq 0 (length (cm_vp m))) (cm_vp m))) l.

Lemma used_by_vp_eq ms c : used_by_vp ms c = ubv_outer c (combine (seq 0 (length ms)) ms).
Proof. reflexivity. Qed.

Lemma ubv_inner_cons mi c pi v l :
  ubv_inner mi c ((pi, v) :: l) = (if Nat.eqb v c then [(mi, pi)] else []) ++ ubv_inner mi c l.
Proof. reflexivity. Qed.

Lemma ubv_outer_cons c mi m l :
  ubv_outer c ((mi, m) :: l)
  = ubv_inner mi c (combine (seq 0 (length (cm_vp m))) (cm_vp m)) ++ ubv_outer c l.
Proof. reflexivity. Qed.

Lemma ubv_inner_in mi c : forall vp a mi' p,
  In (mi', p) (ubv_inner mi c (combine (seq a (length vp)) vp))
  <-> mi' = mi /\ a <= p /\ nth_error vp (p - a) = Some c.
Proof.
  induction vp as [|v vp IH]; intros a mi' p.
  - cbn [length seq combine ubv_inner flat_map In]. split; [tauto|].
    intros (_ & _ & H). destruct (p - a); discriminate.
  - cbn [length seq combine]. rewrite ubv_inner_cons, in_app_iff, IH. split.
    + intros [H|(Hm & Hle & Hn)].
      * destruct (Nat.eqb_spec v c) as [->|_]; [|destruct H].
        destruct H as [H|[]]. inversion H; subst. rewrite Nat.sub_diag. auto.
      * split; auto. split; [lia|]. replace (p - a) with (S (p - S a)) by lia. exact Hn.
    + intros (Hm & Hle & Hn). destruct (Nat.eq_dec p a) as [->|Hne].
      * left. rewrite Nat.sub_diag in Hn. cbn [nth_error] in Hn. inversion Hn; subst.
        rewrite Nat.eqb_refl. now left.
      * right. split; auto. split; [lia|].
        replace (p - a) with (S (p - S a)) in Hn by lia. exact Hn.
Qed.

Lemma ubv_inner_nodup mi c : forall vp a, NoDup (ubv_inner mi c (combine (seq a (length vp)) vp)).
Proof.
  induction vp as [|v vp IH]; intros a.
  - constructor.
  - cbn [length seq combine]. rewrite ubv_inner_cons. apply NoDup_app_intro; auto.
    + destruct (Nat.eqb v c); repeat constructor. intros [].
    + intros [mi' p] H1 H2. apply ubv_inner_in in H2. destruct H2 as (_ & Hle & _).
      destruct (Nat.eqb v c); [|destruct H1]. destruct H1 as [H1|[]]. inversion H1; subst. lia.
Qed.

Lemma ubv_outer_in c : forall ms a mi p,
  In (mi, p) (ubv_outer c (combine (seq a (length ms)) ms))
  <-> a <= mi /\ exists m, nth_error ms (mi - a) = Some m /\ nth_error (cm_vp m) p = Some c.
Proof.
  induction ms as [|m ms IH]; intros a mi p.
  - cbn [length seq combine ubv_outer flat_map In]. split; [tauto|].
    intros (_ & m & H & _). destruct (mi - a); discriminate.
  - cbn [length seq combine]. rewrite ubv_outer_cons, in_app_iff, IH, ubv_inner_in. split.
    + intros [(Hm & _ & Hn)|(Hle & m' & Hm' & Hn)].
      * subst mi. split; auto. exists m. rewrite Nat.sub_diag, Nat.sub_0_r in *. auto.
      * split; [lia|]. exists m'. replace (mi - a) with (S (mi - S a)) by lia. auto.
    + intros (Hle & m' & Hm' & Hn). destruct (Nat.eq_dec mi a) as [->|Hne].
      * left. rewrite Nat.sub_diag in Hm'. cbn [nth_error] in Hm'. inversion Hm'; subst.
        rewrite Nat.sub_0_r. split; auto. split; [lia|auto].
      * right. split; [lia|]. exists m'.
        replace (mi - a) with (S (mi - S a)) in Hm' by lia. auto.
Qed.

Lemma ubv_outer_nodup c : forall ms a, NoDup (ubv_outer c (combine (seq a (length ms)) ms)).
Proof.
  induction ms as [|m ms IH]; intros a.
  - constructor.
  - cbn [length seq combine]. rewrite ubv_outer_cons. apply NoDup_app_intro; auto.
    + apply ubv_inner_nodup.
    + intros [mi p] H1 H2. apply ubv_inner_in in H1. apply ubv_outer_in in H2.
      destruct H1 as (-> & _). destruct H2 as (Hle & _). lia.
Qed.

Lemma ubv_in ms c mi p : In (mi, p) (used_by_vp ms c) <-> vp_at ms mi p = Some c.
Proof.
  rewrite used_by_vp_eq, ubv_outer_in. unfold vp_at. rewrite Nat.sub_0_r. split.
  - intros (_ & m & Hm & Hn). now rewrite Hm.
  - intros H. split; [lia|]. destruct (nth_error ms mi) as [m|]; [|discriminate]. eauto.
Qed.

Lemma ubv_nodup ms c : NoDup (used_by_vp ms c).
Proof. rewrite used_by_vp_eq. apply ubv_outer_nodup. Qed.

(* ------------------------------------------------------------------ the order *)

Section Order.
  Variable L : lattice.
  Hypothesis Hwf : lat_wf L.

  Notation n := (ncls L).
  Notation tb := (tb_of L).
  Notation cov := (cov_of L).
  Notation direct := (direct_of_ L).
  Notation derived := (derived_of_ L).

  Lemma cov_lt c z : In z (cov c) -> c < n /\ z < n.
  Proof.
    intros H. destruct (Nat.lt_ge_cases c n) as [Hlt|Hge].
    - split; auto. apply (lw_cov L Hwf) in H; tauto.
    - unfold cov_of in H. rewrite nth_overflow in H; [destruct H|].
      now rewrite (lw_len_cov L Hwf).
  Qed.

  Lemma cov_cases c z : In z (cov c) -> z = c \/ In c (tb z).
  Proof.
    intros H. destruct (cov_lt _ _ H) as [Hc _]. apply (lw_cov L Hwf) in H; tauto.
  Qed.

  Lemma cov_refl c : c < n -> In c (cov c).
  Proof. intros H. apply (lw_cov L Hwf); auto. Qed.

  Lemma cov_of_tb b c : In b (tb c) -> In c (cov b).
  Proof.
    intros H. destruct (lw_tb_lt L Hwf _ _ H) as [Hb Hc]. apply (lw_cov L Hwf); auto.
  Qed.

  Lemma cov_trans x y z : In y (cov x) -> In z (cov y) -> In z (cov x).
  Proof.
    intros Hxy Hyz.
    destruct (cov_lt _ _ Hxy) as [Hx Hy]. destruct (cov_lt _ _ Hyz) as [_ Hz].
    apply (lw_cov L Hwf); auto. split; auto.
    destruct (cov_cases _ _ Hxy) as [->|H1]; [now apply cov_cases|].
    destruct (cov_cases _ _ Hyz) as [->|H2]; [auto|].
    right. eapply (lw_tb_trans L Hwf); eauto.
  Qed.

  Lemma tb_asym a b : In a (tb b) -> In b (tb a) -> False.
  Proof.
    intros H1 H2. apply (lw_tb_irrefl L Hwf a). eapply (lw_tb_trans L Hwf); eauto.
  Qed.

  Lemma cov_antisym x y : In y (cov x) -> In x (cov y) -> x = y.
  Proof.
    intros H1 H2. destruct (cov_cases _ _ H1) as [->|H1']; auto.
    destruct (cov_cases _ _ H2) as [->|H2']; auto.
    exfalso. eapply tb_asym; eauto.
  Qed.

  Lemma cov_not_tb x y : In y (cov x) -> In y (tb x) -> False.
  Proof.
    intros H1 H2. destruct (cov_cases _ _ H1) as [->|H].
    - now apply (lw_tb_irrefl L Hwf x).
    - eapply tb_asym; eauto.
  Qed.

  (* well-founded induction along transitive bases *)
  Lemma tb_ind (P : nat -> Prop) :
    (forall c, (forall b, In b (tb c) -> P b) -> P c) -> forall c, P c.
  Proof.
    intros H c. remember (length (tb c)) as k eqn:Hk. revert c Hk.
    induction k as [k IH] using lt_wf_ind. intros c ->.
    apply H. intros b Hb. apply (IH (length (tb b))); [|reflexivity].
    apply NoDup_strict_incl_length with (a := b).
    - apply (lw_tb_nodup L Hwf).
    - intros a Ha. eapply (lw_tb_trans L Hwf); eauto.
    - exact Hb.
    - apply (lw_tb_irrefl L Hwf).
  Qed.

  Lemma derived_spec c d : In d (derived c) -> c < n /\ d < n /\ In c (direct d) /\ In c (tb d).
  Proof.
    intros H. apply (lw_derived L Hwf) in H. destruct H as [Hd Hc].
    pose proof (lw_direct_sub L Hwf _ _ Hc) as Ht.
    destruct (lw_tb_lt L Hwf _ _ Ht). auto.
  Qed.

  Lemma derived_cov c d : In d (derived c) -> In d (cov c).
  Proof. intros H. apply cov_of_tb. now apply derived_spec. Qed.

  Lemma derived_not_cov c d : In d (derived c) -> ~ In c (cov d).
  Proof.
    intros H Hc. apply derived_spec in H. destruct H as (_ & _ & _ & Ht).
    eapply cov_not_tb; eauto.
  Qed.

  Lemma cov_size_lt c d : In d (derived c) -> length (cov d) < length (cov c).
  Proof.
    intros H. apply NoDup_strict_incl_length with (a := c).
    - apply (lw_cov_nodup L Hwf).
    - intros z Hz. eapply cov_trans; [apply derived_cov|]; eauto.
    - apply cov_refl. now apply derived_spec in H.
    - now apply derived_not_cov.
  Qed.

  Lemma cov_len_le c : length (cov c) <= n.
  Proof.
    apply NoDup_lt_length; [apply (lw_cov_nodup L Hwf)|].
    intros z Hz. now apply cov_lt in Hz.
  Qed.

  Lemma cov_len_pos c : c < n -> 1 <= length (cov c).
  Proof.
    intros H. pose proof (cov_refl c H) as Hin. destruct (cov c); [destruct Hin|cbn [length]; lia].
  Qed.

  (* a proper ancestor has a parent link above the descendant *)
  Lemma parent b z : In b (tb z) -> exists d, In d (direct z) /\ In d (cov b).
  Proof.
    intros H. destruct (lw_direct_max L Hwf _ _ H) as [Hd|(d & Hd & Hbd)].
    - exists b; split; auto. apply cov_refl. now apply (lw_tb_lt L Hwf) in H.
    - exists d; split; auto. now apply cov_of_tb.
  Qed.

  (* and a child link below the ancestor *)
  Lemma cov_child c : forall z, In c (tb z) -> exists d, In d (derived c) /\ In z (cov d).
  Proof.
    induction z as [z IH] using tb_ind. intros H.
    destruct (lw_tb_lt L Hwf _ _ H) as [Hc Hz].
    destruct (lw_direct_max L Hwf _ _ H) as [Hd|(d' & Hd' & Hcd')].
    - exists z; split; [|now apply cov_refl]. apply (lw_derived L Hwf); auto.
    - pose proof (lw_direct_sub L Hwf _ _ Hd') as Ht.
      destruct (IH d' Ht Hcd') as (d & Hd & Hcov).
      exists d; split; auto. eapply cov_trans; eauto. now apply cov_of_tb.
  Qed.

  Lemma root_tb_nil r : direct r = [] -> tb r = [].
  Proof.
    intros H. destruct (tb r) as [|b l] eqn:E; auto.
    assert (Hb : In b (tb r)) by (rewrite E; now left).
    destruct (parent _ _ Hb) as (d & Hd & _). rewrite H in Hd. destruct Hd.
  Qed.

  Lemma root_cov_eq r y : direct r = [] -> In r (cov y) -> y = r.
  Proof.
    intros H Hy. destruct (cov_cases _ _ Hy) as [->|Ht]; auto.
    rewrite (root_tb_nil r H) in Ht. destruct Ht.
  Qed.

  Lemma root_exists : forall c, c < n -> exists r, r < n /\ direct r = [] /\ In c (cov r).
  Proof.
    induction c as [c IH] using tb_ind. intros Hc.
    destruct (direct c) as [|b l] eqn:E.
    - exists c; split; auto. split; auto. now apply cov_refl.
    - assert (Hb : In b (direct c)) by (rewrite E; now left).
      pose proof (lw_direct_sub L Hwf _ _ Hb) as Ht.
      destruct (lw_tb_lt L Hwf _ _ Ht) as [Hbn _].
      destruct (IH b Ht Hbn) as (r & Hr & Hd & Hcov).
      exists r; split; auto. split; auto. eapply cov_trans; eauto. now apply cov_of_tb.
  Qed.

  (* ---------------------------------------------------------------- single inheritance *)

  Definition single (z : nat) : Prop := length (direct z) <= 1.

  Lemma single_eq z a b : single z -> In a (direct z) -> In b (direct z) -> a = b.
  Proof.
    unfold single. intros H Ha Hb. destruct (direct z) as [|x [|y l]]; cbn [length] in H; try lia.
    - destruct Ha.
    - destruct Ha as [<-|[]]. destruct Hb as [<-|[]]. reflexivity.
  Qed.

  Lemma is_tree_root_spec c : is_tree_root L c = true <-> forall d, In d (cov c) -> single d.
  Proof.
    unfold is_tree_root, single. rewrite forallb_forall. split; intros H d Hd.
    - apply Nat.leb_le. now apply H.
    - apply Nat.leb_le. now apply H.
  Qed.

  (* all the ancestors-or-self of z have at most one direct base *)
  Definition tree_cls (z : nat) : Prop := z < n /\ forall y, In z (cov y) -> single y.

  Lemma tree_cls_up z y : tree_cls z -> In z (cov y) -> tree_cls y.
  Proof.
    intros [Hz H] Hy. split; [now apply cov_lt in Hy|].
    intros x Hx. apply H. eapply cov_trans; eauto.
  Qed.

  (* the ancestors-or-self of a tree class form a chain *)
  Lemma tree_linear : forall z, tree_cls z -> forall a b, In z (cov a) -> In z (cov b) ->
    In b (cov a) \/ In a (cov b).
  Proof.
    induction z as [z IH] using tb_ind. intros Ht a b Ha Hb.
    destruct (cov_cases _ _ Ha) as [->|Hta]; [now right|].
    destruct (cov_cases _ _ Hb) as [->|Htb]; [now left|].
    destruct (parent _ _ Hta) as (da & Hda & Hca).
    destruct (parent _ _ Htb) as (db & Hdb & Hcb).
    assert (Hs : single z) by (apply Ht; apply cov_refl; apply Ht).
    assert (da = db) by (eapply single_eq; eauto). subst db.
    pose proof (lw_direct_sub L Hwf _ _ Hda) as Hdz.
    apply (IH da Hdz); auto.
    eapply tree_cls_up; eauto. now apply cov_of_tb.
  Qed.

  (* below a tree root: every ancestor of a class of cov r is in cov r *)
  Lemma tree_root_up r : r < n -> direct r = [] -> is_tree_root L r = true ->
    forall z, In z (cov r) -> forall y, In z (cov y) -> In y (cov r).
  Proof.
    intros Hr Hd Htr. rewrite is_tree_root_spec in Htr.
    induction z as [z IH] using tb_ind. intros Hz y Hy.
    destruct (cov_cases _ _ Hy) as [->|Hty]; auto.
    destruct (cov_cases _ _ Hz) as [->|Htr'].
    { rewrite (root_tb_nil r Hd) in Hty. destruct Hty. }
    destruct (parent _ _ Hty) as (dy & Hdy & Hcy).
    destruct (parent _ _ Htr') as (dr & Hdr & Hcr).
    assert (dy = dr) by (apply (single_eq z); auto). subst dr.
    pose proof (lw_direct_sub L Hwf _ _ Hdy) as Hdz.
    apply (IH dy Hdz); auto.
  Qed.

  Lemma tree_root_cls r : r < n -> direct r = [] -> is_tree_root L r = true ->
    forall z, In z (cov r) -> tree_cls z.
  Proof.
    intros Hr Hd Htr z Hz. split; [now apply cov_lt in Hz|].
    intros y Hy. pose proof (tree_root_up r Hr Hd Htr z Hz y Hy) as Hyr.
    rewrite is_tree_root_spec in Htr. now apply Htr.
  Qed.

  (* classes handled by assign_tree *)
  Definition treeC (z : nat) : Prop :=
    exists r, r < n /\ direct r = [] /\ is_tree_root L r = true /\ In z (cov r).

  Lemma treeC_unique_root r r' z :
    r < n -> direct r = [] -> is_tree_root L r = true -> In z (cov r) ->
    direct r' = [] -> In z (cov r') -> r' = r.
  Proof.
    intros Hr Hd Htr Hz Hd' Hz'.
    pose proof (tree_root_up r Hr Hd Htr z Hz r' Hz') as H.
    symmetry. apply (root_cov_eq r' r); auto.
  Qed.

  Lemma treeC_up z x : treeC z -> In z (cov x) -> treeC x.
  Proof.
    intros (r & Hr & Hd & Htr & Hz) Hx. exists r. repeat split; auto.
    eapply tree_root_up; eauto.
  Qed.

  Lemma treeC_down z x : treeC x -> In z (cov x) -> treeC z.
  Proof.
    intros (r & Hr & Hd & Htr & Hz) Hx. exists r. repeat split; auto.
    eapply cov_trans; eauto.
  Qed.

  Lemma treeC_dec z : z < n -> treeC z \/ ~ treeC z.
  Proof.
    intros Hz. destruct (root_exists z Hz) as (r & Hr & Hd & Hcov).
    destruct (is_tree_root L r) eqn:E.
    - left. exists r; auto.
    - right. intros (r' & Hr' & Hd' & Htr' & Hcov').
      assert (r = r') by (eapply treeC_unique_root; eauto). subst r'. congruence.
  Qed.

  Lemma treeC_cls z : treeC z -> tree_cls z.
  Proof. intros (r & Hr & Hd & Htr & Hz). eapply tree_root_cls; eauto. Qed.

  (* a class below a lattice (non-tree) root is not a tree class *)
  Lemma lattice_root_not_treeC r z :
    direct r = [] -> is_tree_root L r = false -> In z (cov r) -> ~ treeC z.
  Proof.
    intros Hd Hf Hz (r' & Hr' & Hd' & Htr' & Hz').
    assert (r = r') by (eapply treeC_unique_root; eauto). subst r'. congruence.
  Qed.

  (* the subtrees of two distinct children of a class are disjoint *)
  Lemma children_disjoint c d d' x :
    In d (derived c) -> In d' (derived c) -> d <> d' -> tree_cls x ->
    In x (cov d) -> In x (cov d') -> False.
  Proof.
    intros Hd Hd' Hne Ht Hx Hx'.
    assert (Hgen : forall a b, In a (derived c) -> In b (derived c) -> a <> b -> tree_cls b ->
                               In b (cov a) -> False).
    { intros a b Ha Hb Hab Htb Hcov.
      destruct (cov_cases _ _ Hcov) as [->|Hta]; [congruence|].
      destruct (derived_spec _ _ Ha) as (_ & _ & _ & Hca).
      destruct (derived_spec _ _ Hb) as (_ & Hbn & Hcb & _).
      destruct (parent _ _ Hta) as (p & Hp & Hpa).
      assert (Hsb : single b) by (apply Htb; now apply cov_refl).
      assert (p = c) by (eapply single_eq; eauto). subst p.
      eapply cov_not_tb; eauto. }
    destruct (tree_linear x Ht d d' Hx Hx') as [H|H].
    - apply (Hgen d d'); auto. eapply tree_cls_up; eauto.
    - apply (Hgen d' d); auto. eapply tree_cls_up; eauto.
  Qed.
End Order.
