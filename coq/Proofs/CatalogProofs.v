(* C18 — static_list as a pointer structure refines list operations.
   Grown from notes/spikes/CatalogSpike.v. *)
From Coq Require Import List Arith Lia Bool.
Import ListNotations.
From Y2 Require Import Model.Catalog.

(* ------------------------------------------------------------------ pointer maps *)

Lemma upd_eq f k v : upd f k v k = v.
Proof. unfold upd. now rewrite Nat.eqb_refl. Qed.

Lemma upd_neq f k v x : x <> k -> upd f k v x = f x.
Proof. intro H. unfold upd. apply Nat.eqb_neq in H. now rewrite H. Qed.

(* ------------------------------------------------------------------ lists by index *)

Lemma nth_lt (l : list node) i a : nth_error l i = Some a -> i < length l.
Proof. intro H. apply nth_error_Some. congruence. Qed.

Lemma nth_none (l : list node) i : length l <= i -> nth_error l i = None.
Proof. apply nth_error_None. Qed.

Lemma nd_idx (l : list node) : NoDup l ->
  forall i j a, nth_error l i = Some a -> nth_error l j = Some a -> i = j.
Proof.
  intros ND i j a Hi Hj. apply (proj1 (NoDup_nth_error l) ND).
  - eapply nth_lt; eassumption.
  - congruence.
Qed.

Lemma nd_neq (l : list node) : NoDup l ->
  forall i j a b, nth_error l i = Some a -> nth_error l j = Some b -> i <> j -> a <> b.
Proof. intros ND i j a b Hi Hj Hne E. subst b. apply Hne. eapply nd_idx; eassumption. Qed.

Lemma nth_error_last (l : list node) a : l <> [] -> nth_error l (length l - 1) = Some (last l a).
Proof.
  induction l as [|x l IH]; [congruence|]. intros _. destruct l as [|y l]; [reflexivity|].
  cbn [length]. replace (S (S (length l)) - 1) with (S (length (y :: l) - 1)) by (cbn; lia).
  cbn [nth_error]. change (last (x :: y :: l) a) with (last (y :: l) a). apply IH. discriminate.
Qed.

Lemma mem_In n l : mem n l = true <-> In n l.
Proof.
  induction l as [|x l IH]; cbn [mem In].
  - split; [discriminate|intros []].
  - rewrite orb_true_iff, Nat.eqb_eq, IH. reflexivity.
Qed.

Lemma mem_not_In n l : mem n l = false <-> ~ In n l.
Proof. rewrite <- mem_In. destruct (mem n l); split; congruence. Qed.

(* ------------------------------------------------------------------ remove_elt *)

Lemma remove_elt_nth (l : list node) : NoDup l -> forall k n, nth_error l k = Some n ->
  forall i, nth_error (remove_elt n l) i = if i <? k then nth_error l i else nth_error l (S i).
Proof.
  induction l as [|x t IH]; intros ND k n Hk i.
  - destruct k; discriminate.
  - apply NoDup_cons_iff in ND. destruct ND as [Hx ND]. cbn [remove_elt]. destruct k as [|k].
    + cbn in Hk. inversion Hk; subst x. rewrite Nat.eqb_refl. reflexivity.
    + cbn [nth_error] in Hk.
      assert (x <> n) as Hne by (intro; subst x; apply Hx; eapply nth_error_In; eassumption).
      apply Nat.eqb_neq in Hne. rewrite Hne. destruct i as [|i]; [reflexivity|].
      cbn [nth_error]. rewrite (IH ND k n Hk i).
      change (S i <? S k) with (i <? k). reflexivity.
Qed.

Lemma remove_elt_In (l : list node) : NoDup l ->
  forall n a, In a (remove_elt n l) <-> In a l /\ a <> n.
Proof.
  induction l as [|x t IH]; intros ND n a; cbn [remove_elt].
  - cbn. tauto.
  - apply NoDup_cons_iff in ND. destruct ND as [Hx ND].
    destruct (Nat.eqb_spec x n) as [->|Hne].
    + cbn [In]. split.
      * intro H. split; [now right|]. intro; subst a; contradiction.
      * intros [[H|H] Ha]; [congruence|assumption].
    + cbn [In]. rewrite (IH ND). split.
      * intros [H|[H Ha]]; [subst a; split; [now left|congruence]|split; [now right|assumption]].
      * intros [[H|H] Ha]; [now left|right; now split].
Qed.

Lemma remove_elt_NoDup (l : list node) n : NoDup l -> NoDup (remove_elt n l).
Proof.
  induction l as [|x t IH]; intro ND; cbn [remove_elt]; [constructor|].
  apply NoDup_cons_iff in ND. destruct ND as [Hx ND].
  destruct (Nat.eqb x n); [assumption|]. constructor; [|now apply IH].
  intro H. apply (remove_elt_In t ND) in H. tauto.
Qed.

Lemma remove_elt_length (l : list node) n : In n l -> S (length (remove_elt n l)) = length l.
Proof.
  induction l as [|x t IH]; intro H; [destruct H|]. cbn [remove_elt].
  destruct (Nat.eqb_spec x n) as [->|Hne]; [reflexivity|].
  destruct H as [H|H]; [congruence|]. cbn [length]. now rewrite IH.
Qed.

Lemma remove_elt_notin (l : list node) n : NoDup l -> ~ In n (remove_elt n l).
Proof. intros ND H. apply (remove_elt_In l ND) in H. tauto. Qed.

(* ------------------------------------------------------------------ representation *)

(* l is the abstract content of the pointer structure s:
   first is l[0]; next of l[i] is l[i+1] (null for the last); prev of l[i+1] is l[i];
   prev of the FIRST node is the LAST node; every node not in l has both links null. *)
Record repr (l : list node) (s : st) : Prop := {
  r_nodup : NoDup l;
  r_ok : fault s = false;
  r_first : first s = nth_error l 0;
  r_next : forall i a, nth_error l i = Some a -> nxt s a = nth_error l (S i);
  r_prev : forall i a, nth_error l (S i) = Some a -> prv s a = nth_error l i;
  r_prev_first : forall a, nth_error l 0 = Some a -> prv s a = nth_error l (length l - 1);
  r_out : forall a, ~ In a l -> prv s a = None /\ nxt s a = None
}.

Lemma repr_empty : repr [] empty_st.
Proof.
  constructor; cbn.
  - constructor.
  - reflexivity.
  - reflexivity.
  - intros i a H. destruct i; discriminate.
  - intros i a H. destruct i; discriminate.
  - intros a H. discriminate.
  - intros a _. split; reflexivity.
Qed.

Lemma repr_prev_first_last l s f : repr l s -> nth_error l 0 = Some f -> prv s f = Some (last l f).
Proof.
  intros R H. rewrite (r_prev_first l s R f H). apply nth_error_last. intro; subst l; discriminate.
Qed.

(* a node that is not in the list meets the precondition of push_back *)
Lemma repr_push_pre l s n : repr l s -> ~ In n l -> push_pre s n = true.
Proof. intros R H. destruct (r_out l s R n H) as [P N]. unfold push_pre. now rewrite P, N. Qed.

(* ... and only such nodes do: the assert in push_back rejects exactly double registration *)
Lemma repr_push_pre_iff l s n : repr l s -> (push_pre s n = true <-> ~ In n l).
Proof.
  intros R. split; [|apply repr_push_pre; assumption].
  intros H Hin. unfold push_pre in H. apply andb_true_iff in H. destruct H as [Hp _].
  apply In_nth_error in Hin. destruct Hin as [i Hi]. destruct i as [|i].
  - rewrite (r_prev_first l s R n Hi) in Hp.
    pose proof (nth_lt l 0 n Hi) as Hlt.
    destruct (nth_error l (length l - 1)) eqn:E; [discriminate|].
    apply nth_error_None in E. lia.
  - rewrite (r_prev l s R i n Hi) in Hp.
    pose proof (nth_lt l (S i) n Hi) as Hlt.
    destruct (nth_error l i) eqn:E; [discriminate|]. apply nth_error_None in E. lia.
Qed.

(* ------------------------------------------------------------------ push_back *)

Lemma push_back_refines l s n : repr l s -> ~ In n l -> repr (l ++ [n]) (push_back s n).
Proof.
  intros R Hn. destruct R as [ND OK F NX PV PF OUT]. destruct (OUT n Hn) as [Pn Nn].
  unfold push_back. rewrite F. destruct l as [|f l]; cbn [nth_error].
  - (* empty *)
    constructor; cbn [first prv nxt fault app].
    + constructor; [intros []|constructor].
    + exact OK.
    + reflexivity.
    + intros i a H. destruct i as [|[|i]]; cbn in H; try discriminate. inversion H; subst a. cbn. exact Nn.
    + intros i a H. destruct i; cbn in H; discriminate.
    + intros a H. cbn in H. inversion H; subst a. cbn. apply upd_eq.
    + intros a H. assert (a <> n) by (intro; subst; apply H; now left).
      rewrite upd_neq by assumption. apply OUT. intros [].
  - (* non-empty: f :: l *)
    rewrite (PF f eq_refl).
    assert (Hlst : exists lst, nth_error (f :: l) (length (f :: l) - 1) = Some lst).
    { destruct (nth_error (f :: l) (length (f :: l) - 1)) eqn:E; [eauto|].
      apply nth_error_None in E. cbn in E. lia. }
    destruct Hlst as [lst Hlst]. rewrite Hlst.
    assert (Hlin : In lst (f :: l)) by (eapply nth_error_In; eassumption).
    assert (Hnf : n <> f) by (intro; subst; apply Hn; now left).
    assert (Hnl : n <> lst) by (intro E; rewrite E in Hn; contradiction).
    pose proof (proj1 (NoDup_nth_error (f :: l)) ND) as NDi.
    constructor; cbn [first prv nxt fault].
    + change ((f :: l) ++ [n]) with (f :: (l ++ [n])).
      apply NoDup_cons_iff in ND. destruct ND as [Hf ND]. constructor.
      * intro H. apply in_app_or in H. destruct H as [H|[H|[]]]; [contradiction|congruence].
      * assert (Hn' : ~ In n l) by (intro; apply Hn; now right).
        clear -ND Hn'. induction l as [|x l IH]; cbn; [constructor; [intros []|constructor]|].
        apply NoDup_cons_iff in ND. destruct ND as [Hx ND]. constructor.
        -- intro H. apply in_app_or in H. destruct H as [H|[H|[]]]; [contradiction|]. subst. apply Hn'. now left.
        -- apply IH; [assumption|]. intro H. apply Hn'. now right.
    + exact OK.
    + reflexivity.
    + (* next *) intros i a H.
      destruct (Nat.lt_ge_cases i (length (f :: l))) as [Hi|Hi].
      * rewrite nth_error_app1 in H by assumption.
        destruct (Nat.eq_dec i (length (f :: l) - 1)) as [->|Hne].
        -- rewrite Hlst in H. inversion H; subst a. rewrite upd_eq.
           rewrite nth_error_app2 by lia. replace (S (length (f :: l) - 1) - length (f :: l)) with 0 by (cbn; lia). reflexivity.
        -- assert (a <> lst).
           { intro E. subst a. apply Hne, (NDi i (length (f :: l) - 1) Hi). congruence. }
           rewrite upd_neq by assumption. rewrite (NX i a H).
           rewrite nth_error_app1 by (cbn in *; lia). reflexivity.
      * rewrite nth_error_app2 in H by assumption.
        destruct (i - length (f :: l)) as [|k] eqn:E; cbn in H; [|destruct k; discriminate].
        inversion H; subst a. rewrite upd_neq by assumption. rewrite Nn.
        symmetry. apply nth_error_None. rewrite app_length. cbn in *. lia.
    + (* prev of non-first *) intros i a H.
      destruct (Nat.lt_ge_cases (S i) (length (f :: l))) as [Hi|Hi].
      * rewrite nth_error_app1 in H by assumption.
        assert (a <> f).
        { intro E. subst a. assert (S i = 0) by (apply (NDi (S i) 0 Hi); exact H). discriminate. }
        assert (a <> n) by (intro E; subst a; apply Hn; eapply nth_error_In; eassumption).
        rewrite upd_neq by assumption. rewrite upd_neq by assumption. rewrite (PV i a H).
        rewrite nth_error_app1 by lia. reflexivity.
      * rewrite nth_error_app2 in H by assumption.
        destruct (S i - length (f :: l)) as [|k] eqn:E; cbn in H; [|destruct k; discriminate].
        inversion H; subst a. rewrite upd_neq by assumption. rewrite upd_eq.
        assert (i = length (f :: l) - 1) as -> by lia.
        rewrite nth_error_app1 by (cbn; lia). symmetry. exact Hlst.
    + (* prev of first *) intros a H. cbn in H. inversion H; subst a. rewrite upd_eq.
      rewrite app_length. change (length [n]) with 1. rewrite nth_error_app2 by lia.
      replace (length (f :: l) + 1 - 1 - length (f :: l)) with 0 by lia. reflexivity.
    + (* outside *) intros a H.
      assert (Ha : ~ In a (f :: l)) by (intro; apply H; apply in_or_app; now left).
      assert (a <> n) by (intro; subst; apply H; apply in_or_app; right; now left).
      assert (a <> f) by (intro; subst; apply Ha; now left).
      assert (a <> lst) by (intro; subst; contradiction).
      rewrite !upd_neq by assumption. apply OUT. exact Ha.
Qed.

(* ------------------------------------------------------------------ remove *)

(* a <> b because they sit at different indexes of a duplicate-free list *)
Ltac nd_ne ND :=
  match goal with
  | |- ?a <> ?b =>
      match goal with
      | H1 : nth_error ?l ?i = Some a, H2 : nth_error ?l ?j = Some b |- _ =>
          apply (nd_neq l ND i j a b H1 H2); lia
      end
  end.

(* a <> b because b is in the list and a is not *)
Ltac notin_ne :=
  match goal with
  | Hal : ~ In ?a ?l |- ?a <> ?b =>
      let E := fresh "E" in intro E; subst a; apply Hal; eapply nth_error_In; eassumption
  end.

Lemma remove_refines l s n : repr l s -> In n l -> repr (remove_elt n l) (remove s n).
Proof.
  intros R Hin. pose proof R as [ND OK F NX PV PF OUT].
  destruct (In_nth_error l n Hin) as [k Hk].
  pose proof (remove_elt_nth l ND k n Hk) as G.
  pose proof (remove_elt_length l n Hin) as HL.
  pose proof (nth_lt l k n Hk) as Hkl.
  pose proof (remove_elt_NoDup l n ND) as ND'.
  assert (OUT' : forall a, ~ In a (remove_elt n l) -> a = n \/ ~ In a l).
  { intros a Ha. destruct (Nat.eq_dec a n) as [->|Hne]; [now left|right].
    intro Hi. apply Ha. apply (remove_elt_In l ND). now split. }
  set (l' := remove_elt n l) in *.
  assert (G_lo : forall i, i < k -> nth_error l' i = nth_error l i).
  { intros i Hi. rewrite G. destruct (Nat.ltb_spec i k); [reflexivity|lia]. }
  assert (G_hi : forall i, k <= i -> nth_error l' i = nth_error l (S i)).
  { intros i Hi. rewrite G. destruct (Nat.ltb_spec i k); [lia|reflexivity]. }
  clear G.
  destruct (nth_error l 0) as [f|] eqn:Hf; [|apply nth_error_None in Hf; lia].
  destruct (nth_error l (length l - 1)) as [la|] eqn:Hla; [|apply nth_error_None in Hla; lia].
  assert (Pf : prv s f = Some la) by (rewrite (PF f eq_refl); reflexivity).
  assert (Nn : nxt s n = nth_error l (S k)) by (apply NX; exact Hk).
  unfold remove. cbv zeta. rewrite F. cbv beta iota. rewrite Pf. cbn [ptr_is].
  destruct (Nat.eqb_spec la n) as [Elan|Nlan].
  - (* n is the last node *)
    subst la. assert (Ek : k = length l - 1) by (eapply (nd_idx l ND); eassumption).
    destruct (Nat.eqb_spec n f) as [Enf|Nnf].
    + (* ... and the first: the only element *)
      subst f. assert (Ek0 : k = 0) by (eapply (nd_idx l ND); eassumption).
      assert (HL1 : length l = 1) by lia.
      constructor; cbn [first prv nxt fault].
      * exact ND'.
      * exact OK.
      * rewrite G_hi by lia. symmetry. apply nth_none. lia.
      * intros i a H. rewrite G_hi in H by lia. rewrite nth_none in H by lia. discriminate.
      * intros i a H. rewrite G_hi in H by lia. rewrite nth_none in H by lia. discriminate.
      * intros a H. rewrite G_hi in H by lia. rewrite nth_none in H by lia. discriminate.
      * intros a Ha. destruct (OUT' a Ha) as [->|Hal].
        -- rewrite !upd_eq. now split.
        -- assert (a <> n) by notin_ne. rewrite !upd_neq by assumption. now apply OUT.
    + (* last of several *)
      destruct k as [|k']; [congruence|].
      rewrite (PV k' n Hk).
      destruct (nth_error l k') as [p|] eqn:Hp; [|apply nth_error_None in Hp; lia].
      constructor; cbn [first prv nxt fault].
      * exact ND'.
      * exact OK.
      * rewrite G_lo by lia. symmetry. exact Hf.
      * intros i a H. destruct (Nat.lt_ge_cases i (S k')) as [Hi|Hi].
        -- rewrite G_lo in H by lia. destruct (Nat.eq_dec i k') as [->|Hne].
           ++ assert (a = p) by congruence. subst a. rewrite upd_eq.
              rewrite G_hi by lia. symmetry. apply nth_none. lia.
           ++ rewrite upd_neq by nd_ne ND. rewrite upd_neq by nd_ne ND.
              rewrite (NX i a H). rewrite G_lo by lia. reflexivity.
        -- rewrite G_hi in H by lia. rewrite nth_none in H by lia. discriminate.
      * intros i a H. destruct (Nat.lt_ge_cases (S i) (S k')) as [Hi|Hi].
        -- rewrite G_lo in H by lia.
           rewrite upd_neq by nd_ne ND. rewrite upd_neq by nd_ne ND.
           rewrite (PV i a H). rewrite G_lo by lia. reflexivity.
        -- rewrite G_hi in H by lia. rewrite nth_none in H by lia. discriminate.
      * intros a H. rewrite G_lo in H by lia. assert (a = f) by congruence. subst a.
        rewrite upd_eq. replace (length l' - 1) with k' by lia. rewrite G_lo by lia. symmetry. exact Hp.
      * intros a Ha. destruct (OUT' a Ha) as [->|Hal].
        -- rewrite (upd_neq _ f) by assumption. rewrite upd_eq.
           rewrite (upd_neq _ p) by nd_ne ND. rewrite upd_eq. now split.
        -- assert (a <> n) by notin_ne. assert (a <> f) by notin_ne. assert (a <> p) by notin_ne.
           rewrite !upd_neq by assumption. now apply OUT.
  - (* n is not the last node *)
    assert (Hk' : k <> length l - 1) by (intro; subst k; congruence).
    rewrite Nn.
    destruct (nth_error l (S k)) as [nx|] eqn:Hnx; [|apply nth_error_None in Hnx; lia].
    destruct (Nat.eqb_spec n f) as [Enf|Nnf].
    + (* first of several *)
      subst f. assert (k = 0) by (eapply (nd_idx l ND); eassumption). subst k.
      constructor; cbn [first prv nxt fault].
      * exact ND'.
      * exact OK.
      * rewrite G_hi by lia. symmetry. exact Hnx.
      * intros i a H. rewrite G_hi in H by lia.
        rewrite upd_neq by nd_ne ND. rewrite (NX (S i) a H). rewrite G_hi by lia. reflexivity.
      * intros i a H. rewrite G_hi in H by lia.
        rewrite upd_neq by nd_ne ND. rewrite upd_neq by nd_ne ND.
        rewrite (PV (S i) a H). rewrite G_hi by lia. reflexivity.
      * intros a H. rewrite G_hi in H by lia. assert (a = nx) by congruence. subst a.
        rewrite upd_eq. rewrite G_hi by lia.
        replace (S (length l' - 1)) with (length l - 1) by lia. symmetry. exact Hla.
      * intros a Ha. destruct (OUT' a Ha) as [->|Hal].
        -- rewrite (upd_neq _ nx) by nd_ne ND. rewrite !upd_eq. now split.
        -- assert (a <> n) by notin_ne. assert (a <> nx) by notin_ne.
           rewrite !upd_neq by assumption. now apply OUT.
    + (* middle *)
      destruct k as [|k']; [congruence|].
      rewrite (PV k' n Hk).
      destruct (nth_error l k') as [p|] eqn:Hp; [|apply nth_error_None in Hp; lia].
      constructor; cbn [first prv nxt fault].
      * exact ND'.
      * exact OK.
      * rewrite G_lo by lia. symmetry. exact Hf.
      * intros i a H. destruct (Nat.lt_ge_cases i (S k')) as [Hi|Hi].
        -- rewrite G_lo in H by lia. destruct (Nat.eq_dec i k') as [->|Hne].
           ++ assert (a = p) by congruence. subst a. rewrite upd_eq.
              rewrite G_hi by lia. symmetry. exact Hnx.
           ++ rewrite upd_neq by nd_ne ND. rewrite upd_neq by nd_ne ND.
              rewrite (NX i a H). rewrite G_lo by lia. reflexivity.
        -- rewrite G_hi in H by lia.
           rewrite upd_neq by nd_ne ND. rewrite upd_neq by nd_ne ND.
           rewrite (NX (S i) a H). rewrite G_hi by lia. reflexivity.
      * intros i a H. destruct (Nat.lt_ge_cases (S i) (S k')) as [Hi|Hi].
        -- rewrite G_lo in H by lia.
           rewrite upd_neq by nd_ne ND. rewrite upd_neq by nd_ne ND.
           rewrite (PV i a H). rewrite G_lo by lia. reflexivity.
        -- rewrite G_hi in H by lia. destruct (Nat.eq_dec i k') as [->|Hne].
           ++ assert (a = nx) by congruence. subst a. rewrite upd_eq.
              rewrite G_lo by lia. symmetry. exact Hp.
           ++ rewrite upd_neq by nd_ne ND. rewrite upd_neq by nd_ne ND.
              rewrite (PV (S i) a H). rewrite G_hi by lia. reflexivity.
      * intros a H. rewrite G_lo in H by lia. assert (a = f) by congruence. subst a.
        rewrite upd_neq by nd_ne ND. rewrite upd_neq by nd_ne ND.
        rewrite Pf. rewrite G_hi by lia.
        replace (S (length l' - 1)) with (length l - 1) by lia. symmetry. exact Hla.
      * intros a Ha. destruct (OUT' a Ha) as [->|Hal].
        -- rewrite (upd_neq _ nx) by nd_ne ND. rewrite upd_eq.
           rewrite (upd_neq _ p) by nd_ne ND. rewrite upd_eq. now split.
        -- assert (a <> n) by notin_ne. assert (a <> nx) by notin_ne. assert (a <> p) by notin_ne.
           rewrite !upd_neq by assumption. now apply OUT.
Qed.

(* which branch of the C++ remove runs: the classification used by the test generators is the
   one the proof splits on *)
Lemma remove_case_only n : remove_case n [n] = ROnly.
Proof. unfold remove_case. cbn. now rewrite Nat.eqb_refl. Qed.

(* ------------------------------------------------------------------ clear *)

(* t is the chain of next pointers starting at cur *)
Definition chain (nx : node -> option node) (cur : option node) (t : list node) : Prop :=
  cur = nth_error t 0 /\ forall i a, nth_error t i = Some a -> nx a = nth_error t (S i).

Lemma repr_chain l s : repr l s -> chain (nxt s) (first s) l.
Proof. intros R. split; [apply (r_first l s R)|apply (r_next l s R)]. Qed.

Lemma clear_loop_spec : forall (t : list node) fuel cur p nx,
  NoDup t -> chain nx cur t -> length t <= fuel ->
  exists p' nx', clear_loop fuel cur p nx = (p', nx', false)
    /\ (forall a, In a t -> p' a = None /\ nx' a = None)
    /\ (forall a, ~ In a t -> p' a = p a /\ nx' a = nx a).
Proof.
  induction t as [|c t IH]; intros fuel cur p nx ND [Hcur Hch] Hfuel.
  - cbn in Hcur. subst cur. exists p, nx. destruct fuel; cbn; (split; [reflexivity|]); split;
      solve [intros a []|intros; split; reflexivity].
  - cbn in Hcur. subst cur. destruct fuel as [|fuel]; [cbn in Hfuel; lia|].
    apply NoDup_cons_iff in ND. destruct ND as [Hc ND].
    cbn [clear_loop].
    assert (Hch' : chain (upd nx c None) (nx c) t).
    { split.
      - apply (Hch 0 c). reflexivity.
      - intros i a H. assert (a <> c) by (intro; subst a; apply Hc; eapply nth_error_In; eassumption).
        rewrite upd_neq by assumption. apply (Hch (S i) a). exact H. }
    destruct (IH fuel (nx c) (upd p c None) (upd nx c None) ND Hch') as (p' & nx' & E & Hin & Hout).
    { cbn in Hfuel. lia. }
    exists p', nx'. split; [exact E|]. split.
    + intros a [->|Ha]; [|now apply Hin].
      destruct (Hout a Hc) as [P N]. rewrite P, N, !upd_eq. now split.
    + intros a Ha. assert (a <> c) by (intro; subst; apply Ha; now left).
      destruct (Hout a) as [P N]; [intro; apply Ha; now right|].
      rewrite P, N, !upd_neq by assumption. now split.
Qed.

Lemma clear_all_null l s fuel : repr l s -> length l <= fuel ->
  fault (clear fuel s) = false /\ first (clear fuel s) = None
  /\ forall a, prv (clear fuel s) a = None /\ nxt (clear fuel s) a = None.
Proof.
  intros R Hfuel.
  destruct (clear_loop_spec l fuel (first s) (prv s) (nxt s) (r_nodup l s R) (repr_chain l s R) Hfuel)
    as (p' & nx' & E & Hin & Hout).
  unfold clear. rewrite E. cbn [first prv nxt fault]. rewrite (r_ok l s R). repeat split.
  - destruct (in_dec Nat.eq_dec a l) as [Ha|Ha]; [apply (Hin a Ha)|].
    destruct (Hout a Ha) as [P _]. rewrite P. apply (r_out l s R a Ha).
  - destruct (in_dec Nat.eq_dec a l) as [Ha|Ha]; [apply (Hin a Ha)|].
    destruct (Hout a Ha) as [_ N]. rewrite N. apply (r_out l s R a Ha).
Qed.

Lemma clear_refines l s fuel : repr l s -> length l <= fuel -> repr [] (clear fuel s).
Proof.
  intros R Hfuel. destruct (clear_all_null l s fuel R Hfuel) as (OK & F & ALL).
  constructor.
  - constructor.
  - exact OK.
  - exact F.
  - intros i a H. destruct i; discriminate.
  - intros i a H. destruct i; discriminate.
  - intros a H. discriminate.
  - intros a _. apply ALL.
Qed.

(* ------------------------------------------------------------------ unlinking: re-registration *)

Lemma remove_unlinks l s n : repr l s -> In n l ->
  prv (remove s n) n = None /\ nxt (remove s n) n = None.
Proof.
  intros R Hin. apply (r_out _ _ (remove_refines l s n R Hin)).
  apply remove_elt_notin. apply (r_nodup l s R).
Qed.

Lemma remove_push_pre l s n : repr l s -> In n l -> push_pre (remove s n) n = true.
Proof. intros R Hin. destruct (remove_unlinks l s n R Hin) as [P N]. unfold push_pre. now rewrite P, N. Qed.

Lemma clear_push_pre l s fuel : repr l s -> length l <= fuel -> forall a, push_pre (clear fuel s) a = true.
Proof.
  intros R Hfuel a. destruct (clear_all_null l s fuel R Hfuel) as (_ & _ & ALL).
  destruct (ALL a) as [P N]. unfold push_pre. now rewrite P, N.
Qed.

(* after clear, whatever the list held, any node - a former first, middle or last one included - can be registered, and is
   then the only element *)
Lemma clear_then_push l s fuel n : repr l s -> length l <= fuel ->
  push_pre (clear fuel s) n = true /\ repr [n] (push_back (clear fuel s) n).
Proof.
  intros R Hfuel. split; [exact (clear_push_pre l s fuel R Hfuel n)|].
  apply (push_back_refines [] (clear fuel s) n); [exact (clear_refines l s fuel R Hfuel)|]. intros [].
Qed.

Lemma reregister l s n : repr l s -> In n l ->
  push_pre (remove s n) n = true /\ repr (remove_elt n l ++ [n]) (push_back (remove s n) n).
Proof.
  intros R Hin. split; [eapply remove_push_pre; eassumption|].
  apply push_back_refines; [now apply remove_refines|].
  apply remove_elt_notin. apply (r_nodup l s R).
Qed.

(* ------------------------------------------------------------------ iteration, size, empty *)

Lemma iter_from_chain : forall (t : list node) fuel cur nx,
  chain nx cur t -> length t <= fuel -> iter_from fuel nx cur = Some t.
Proof.
  induction t as [|c t IH]; intros fuel cur nx [Hcur Hch] Hfuel.
  - cbn in Hcur. subst cur. destruct fuel; reflexivity.
  - cbn in Hcur. subst cur. destruct fuel as [|fuel]; [cbn in Hfuel; lia|].
    cbn [iter_from]. rewrite (IH fuel (nx c) nx); [reflexivity| |cbn in Hfuel; lia].
    split.
    + apply (Hch 0 c). reflexivity.
    + intros i a H. apply (Hch (S i) a). exact H.
Qed.

Lemma iterate_repr l s fuel : repr l s -> length l <= fuel -> iterate fuel s = Some l.
Proof. intros R Hfuel. unfold iterate. apply iter_from_chain; [now apply repr_chain|assumption]. Qed.

Lemma size_repr l s fuel : repr l s -> length l <= fuel -> size fuel s = Some (length l).
Proof. intros R Hfuel. unfold size. now rewrite (iterate_repr l s fuel R Hfuel). Qed.

Lemma empty_repr l s : repr l s -> (empty s = true <-> l = []).
Proof.
  intros R. unfold empty. rewrite (r_first l s R). destruct l; cbn; split; congruence.
Qed.

(* the abstract list is determined by the pointer structure: two lists represented by the same
   state are equal *)
Lemma repr_functional l1 l2 s : repr l1 s -> repr l2 s -> l1 = l2.
Proof.
  intros R1 R2.
  pose proof (iterate_repr l1 s (length l1 + length l2) R1 ltac:(lia)) as E1.
  pose proof (iterate_repr l2 s (length l1 + length l2) R2 ltac:(lia)) as E2.
  congruence.
Qed.

(* ------------------------------------------------------------------ any operation sequence *)

Lemma abs_step_length l o : length (abs_step l o) <= S (length l).
Proof.
  destruct o as [n|n|]; cbn [abs_step].
  - rewrite app_length. cbn. lia.
  - induction l as [|x t IH]; cbn [remove_elt length]; [lia|].
    destruct (Nat.eqb x n); cbn [length]; lia.
  - cbn. lia.
Qed.

Lemma step_refines fuel l s o :
  repr l s -> legal l o = true -> length l <= fuel -> repr (abs_step l o) (step fuel s o).
Proof.
  intros R L Hfuel. destruct o as [n|n|]; cbn [abs_step step legal] in *.
  - apply push_back_refines; [assumption|]. apply mem_not_In. now apply negb_true_iff.
  - apply remove_refines; [assumption|]. now apply mem_In.
  - now apply clear_refines with l.
Qed.

Lemma run_from_refines : forall ops fuel l s,
  repr l s -> legal_seq l ops = true -> length l + length ops <= fuel ->
  repr (abs_run l ops) (run_from fuel s ops).
Proof.
  induction ops as [|o ops IH]; intros fuel l s R L Hfuel.
  - exact R.
  - cbn [legal_seq] in L. apply andb_true_iff in L. destruct L as [Lo Lr].
    cbn [length] in Hfuel. unfold abs_run, run_from. cbn [fold_left].
    apply IH.
    + apply step_refines; [assumption|assumption|lia].
    + exact Lr.
    + pose proof (abs_step_length l o). lia.
Qed.

Lemma run_refines ops fuel :
  legal_seq [] ops = true -> length ops <= fuel -> repr (abs_run [] ops) (run fuel ops).
Proof.
  intros L Hfuel. unfold run. apply run_from_refines; [apply repr_empty|assumption|cbn; lia].
Qed.

Lemma abs_run_length : forall ops l, length (abs_run l ops) <= length l + length ops.
Proof.
  induction ops as [|o ops IH]; intro l; [cbn; lia|].
  unfold abs_run. cbn [fold_left length]. pose proof (IH (abs_step l o)) as H. unfold abs_run in H.
  pose proof (abs_step_length l o). lia.
Qed.

(* ------------------------------------------------------------------ the list semantics is the obvious one *)

Lemma abs_step_NoDup l o : NoDup l -> legal l o = true -> NoDup (abs_step l o).
Proof.
  intros ND L. destruct o as [n|n|]; cbn [abs_step legal] in *.
  - apply negb_true_iff, mem_not_In in L. clear -ND L.
    induction l as [|x t IH]; cbn; [constructor; [intros []|constructor]|].
    apply NoDup_cons_iff in ND. destruct ND as [Hx ND]. constructor.
    + intro H. apply in_app_or in H. destruct H as [H|[H|[]]]; [contradiction|]. subst. apply L. now left.
    + apply IH; [assumption|]. intro H. apply L. now right.
  - now apply remove_elt_NoDup.
  - constructor.
Qed.

Lemma filter_remove_elt (P : node -> bool) n : forall l, NoDup l ->
  filter P (remove_elt n l) = filter (fun x => negb (Nat.eqb n x) && P x) l.
Proof.
  induction l as [|x t IH]; intro ND; [reflexivity|].
  apply NoDup_cons_iff in ND. destruct ND as [Hx ND]. cbn [remove_elt filter].
  destruct (Nat.eqb_spec x n) as [->|Hne].
  - rewrite Nat.eqb_refl. cbn [negb andb].
    clear IH. induction t as [|y t IH]; [reflexivity|]. cbn [filter].
    assert (n <> y) as Hny by (intro; subst; apply Hx; now left).
    apply Nat.eqb_neq in Hny. rewrite Hny. cbn [negb andb].
    apply NoDup_cons_iff in ND. destruct ND as [_ ND].
    rewrite <- IH; [reflexivity| |assumption]. intro H. apply Hx. now right.
  - assert (n <> x) as Hnx by congruence. apply Nat.eqb_neq in Hnx. rewrite Hnx. cbn [negb andb filter].
    rewrite (IH ND). reflexivity.
Qed.

Lemma abs_run_closed : forall ops l, NoDup l -> legal_seq l ops = true ->
  abs_run l ops = filter (fun n => survives n ops) l ++ live_pushes ops.
Proof.
  induction ops as [|o ops IH]; intros l ND L.
  - cbn [abs_run fold_left survives live_pushes]. rewrite app_nil_r.
    clear. induction l as [|x t IH]; [reflexivity|]. cbn. now rewrite <- IH.
  - cbn [legal_seq] in L. apply andb_true_iff in L. destruct L as [Lo Lr].
    unfold abs_run. cbn [fold_left]. fold (abs_run (abs_step l o) ops).
    rewrite (IH _ (abs_step_NoDup l o ND Lo) Lr).
    destruct o as [n|n|]; cbn [abs_step survives live_pushes].
    + rewrite filter_app. cbn [filter]. rewrite <- app_assoc.
      destruct (survives n ops); reflexivity.
    + rewrite (filter_remove_elt _ n l ND). reflexivity.
    + cbn [filter]. clear. induction l as [|x t IH]; [reflexivity|]. cbn [filter]. exact IH.
Qed.

Lemma abs_run_live ops : legal_seq [] ops = true -> abs_run [] ops = live_pushes ops.
Proof. intro L. rewrite (abs_run_closed ops [] (NoDup_nil _) L). reflexivity. Qed.

Lemma abs_run_NoDup : forall ops l, NoDup l -> legal_seq l ops = true -> NoDup (abs_run l ops).
Proof.
  induction ops as [|o ops IH]; intros l ND L; [exact ND|].
  cbn [legal_seq] in L. apply andb_true_iff in L. destruct L as [Lo Lr].
  unfold abs_run. cbn [fold_left]. apply IH; [now apply abs_step_NoDup|exact Lr].
Qed.

(* the reachability theorem, everything a user of a catalog observes after any legal history *)
Theorem reachable ops fuel :
  legal_seq [] ops = true -> length ops <= fuel ->
  let l := abs_run [] ops in
  let s := run fuel ops in
  repr l s
  /\ l = live_pushes ops
  /\ NoDup l
  /\ iterate fuel s = Some l
  /\ size fuel s = Some (length l)
  /\ (empty s = true <-> l = [])
  /\ fault s = false
  /\ (forall n, ~ In n l -> push_pre s n = true).
Proof.
  intros L Hfuel l s.
  pose proof (run_refines ops fuel L Hfuel) as R. fold l s in R.
  assert (Hlen : length l <= fuel) by (pose proof (abs_run_length ops []); cbn in *; unfold l; lia).
  split; [exact R|].
  split; [apply abs_run_live; exact L|].
  split; [apply (r_nodup l s R)|].
  split; [now apply iterate_repr|].
  split; [now apply size_repr|].
  split; [apply (empty_repr l s R)|].
  split; [apply (r_ok l s R)|].
  intros n Hn. now apply repr_push_pre with l.
Qed.
