(** * Lemmas about Model/VirtualPtr.v (properties C09 and the virtual_ptr routes of C15) *)

From Coq Require Import List NArith Bool Arith Lia.
From Y2 Require Import Model.VirtualPtr.
Import ListNotations.

(** ** Lists, finite updates *)

Lemma mem_In : forall x l, mem x l = true <-> In x l.
Proof.
  intros x l. unfold mem. rewrite existsb_exists. split.
  - intros [y [Hy He]]. apply N.eqb_eq in He. subst. exact Hy.
  - intros H. exists x. split; [exact H | apply N.eqb_refl].
Qed.

Lemma mem_not_In : forall x l, ~ In x l -> mem x l = false.
Proof.
  intros x l H. destruct (mem x l) eqn:E; [|reflexivity].
  apply mem_In in E. contradiction.
Qed.

Lemma set_all_spec : forall (A : Type) (g : cls -> option A) rs f x,
  set_all g rs f x = if mem x rs then g x else f x.
Proof.
  intros A g rs. induction rs as [|c rs IH]; intros f x.
  - reflexivity.
  - unfold set_all in *. cbn [fold_left]. rewrite IH.
    unfold mem. cbn [existsb]. fold (mem x rs).
    destruct (mem x rs) eqn:Em.
    + rewrite orb_true_r. reflexivity.
    + rewrite orb_false_r. unfold upd.
      destruct (N.eqb x c) eqn:Ec; [|reflexivity].
      apply N.eqb_eq in Ec. subst. reflexivity.
Qed.

(** ** What an update establishes *)

(** for every class compiled by the last update: its static v-table pointer
    and its published entry hold its current table, the indirect entry (vector
    placement) designates its static v-table pointer; the checked hash was
    built for exactly these classes *)
Definition installed (cfg : config) (st : state) : Prop :=
  (forall c, In c (classes st) ->
     svp st c = Some (c, epoch st) /\
     vptrs st c = Some (c, epoch st) /\
     (placement cfg = PVector -> indirect cfg = true -> ivptrs st c = Some c)) /\
  (placement cfg = PVector -> has_hash cfg = true -> control st = classes st).

Inductive reachable (cfg : config) : state -> Prop :=
| reach_init : reachable cfg init_state
| reach_update : forall rs st, reachable cfg st -> reachable cfg (update cfg rs st).

Lemma update_fields : forall cfg rs st,
  epoch (update cfg rs st) = S (epoch st) /\ classes (update cfg rs st) = rs.
Proof.
  intros cfg rs st. unfold update, publish. destruct (placement cfg); split; reflexivity.
Qed.

Lemma update_installed : forall cfg rs st, installed cfg (update cfg rs st).
Proof.
  intros cfg rs st. unfold installed.
  destruct (update_fields cfg rs st) as [He Hc]. rewrite He, Hc.
  split.
  - intros c Hin. apply mem_In in Hin.
    unfold update, publish.
    destruct (placement cfg) eqn:Ep; cbn [svp vptrs ivptrs].
    + repeat split.
      * rewrite set_all_spec, Hin. reflexivity.
      * rewrite set_all_spec, Hin. rewrite set_all_spec, Hin. reflexivity.
      * intros _ Hi. rewrite Hi. rewrite set_all_spec, Hin. reflexivity.
    + repeat split.
      * rewrite set_all_spec, Hin. reflexivity.
      * rewrite set_all_spec, Hin. rewrite set_all_spec, Hin. reflexivity.
      * intros Hp. discriminate Hp.
  - intros Hp Hh. unfold update, publish. rewrite Hp. cbn [control]. rewrite Hh. reflexivity.
Qed.

Lemma reachable_installed : forall cfg st, reachable cfg st -> installed cfg st.
Proof.
  intros cfg st H. destruct H.
  - unfold installed, init_state. cbn. split; [intros c []|reflexivity].
  - apply update_installed.
Qed.

Lemma updates_reachable : forall cfg hist st, reachable cfg st -> reachable cfg (updates cfg hist st).
Proof.
  intros cfg hist. induction hist as [|rs hist IH]; intros st H.
  - exact H.
  - unfold updates in *. cbn [fold_left]. apply IH. apply reach_update. exact H.
Qed.

Lemma updates_epoch : forall cfg hist st, epoch (updates cfg hist st) = epoch st + length hist.
Proof.
  intros cfg hist. induction hist as [|rs hist IH]; intros st.
  - cbn. lia.
  - unfold updates in *. cbn [fold_left length]. rewrite IH.
    destruct (update_fields cfg rs st) as [He _]. rewrite He. lia.
Qed.

(** ** A plain reference argument: Policy::dynamic_vptr *)

Ltac unfold_m :=
  unfold dynamic_vptr, hash_type_id, read_vptrs, read_ivptrs, static_ref, bind, tell, ret, fail, ub,
         runtime_checks, has_hash, outcome, reads in *.

Lemma dynamic_vptr_ok : forall cfg st c,
  supported cfg = true -> installed cfg st -> In c (classes st) ->
  outcome (dynamic_vptr cfg st c) = Ok (current st c).
Proof.
  intros [h p i] st c Hsup [Hcl Hctl] Hin.
  destruct (Hcl c Hin) as [_ [Hv _]].
  assert (Hm : placement {| hash := h; placement := p; indirect := i |} = PVector ->
               has_hash {| hash := h; placement := p; indirect := i |} = true -> mem c (control st) = true).
  { intros Hp Hh. rewrite (Hctl Hp Hh). apply mem_In. exact Hin. }
  unfold current. cbn [placement hash indirect] in *.
  destruct p, h; unfold_m; cbn in *;
    try (rewrite (Hm eq_refl eq_refl)); cbn; rewrite Hv; reflexivity.
Qed.

(** ** The constructor and final on a registered class *)

(** the v-table reference a route must produce for class [d] in state [st] *)
Definition expected_ref (cfg : config) (st : state) (d : cls) : vref :=
  if indirect cfg then Indirect d else Direct (Some (d, epoch st)).

Lemma ctor_ok : forall cfg st a,
  supported cfg = true -> installed cfg st -> In (a_dyn a) (classes st) ->
  exists log, ctor cfg st a = (log, Ok (boxed a (expected_ref cfg st (a_dyn a)))).
Proof.
  intros [h p i] st a Hsup [Hcl Hctl] Hin.
  destruct (Hcl _ Hin) as [Hs [Hv Hi]].
  assert (Hm : placement {| hash := h; placement := p; indirect := i |} = PVector ->
               has_hash {| hash := h; placement := p; indirect := i |} = true -> mem (a_dyn a) (control st) = true).
  { intros Hp Hh. rewrite (Hctl Hp Hh). apply mem_In. exact Hin. }
  unfold ctor, ctor_with, expected_ref.
  assert (Hids : ctor_ids TConstRef a = (a_stat a, a_dyn a)) by (unfold ctor_ids; reflexivity).
  rewrite Hids. cbn [placement hash indirect] in *.
  destruct (N.eqb (a_dyn a) (a_stat a)) eqn:Eq.
  - apply N.eqb_eq in Eq. rewrite <- Eq.
    destruct p, h, i; unfold_m; cbn in *; try discriminate Hsup;
      try (rewrite (Hm eq_refl eq_refl)); cbn; try rewrite Hs; eexists; reflexivity.
  - destruct p, h, i; unfold_m; cbn in *; try discriminate Hsup;
      try (rewrite (Hm eq_refl eq_refl)); cbn;
      try (rewrite (Hi eq_refl eq_refl)); try rewrite Hv; cbn; eexists; reflexivity.
Qed.

Lemma final_ok : forall cfg st a,
  supported cfg = true -> installed cfg st -> In (a_dyn a) (classes st) -> a_dyn a = a_stat a ->
  exists log, final_ cfg st a = (log, Ok (boxed a (expected_ref cfg st (a_dyn a)))).
Proof.
  intros [h p i] st a Hsup [Hcl Hctl] Hin Heq.
  destruct (Hcl _ Hin) as [Hs _].
  assert (Hm : placement {| hash := h; placement := p; indirect := i |} = PVector ->
               has_hash {| hash := h; placement := p; indirect := i |} = true -> mem (a_dyn a) (control st) = true).
  { intros Hp Hh. rewrite (Hctl Hp Hh). apply mem_In. exact Hin. }
  unfold final_, final_with, expected_ref.
  assert (Hids : final_ids TConstRef a = (a_stat a, a_dyn a)) by (unfold final_ids; reflexivity).
  rewrite Hids. rewrite <- Heq. rewrite N.eqb_refl. cbn [placement hash indirect negb] in *.
  destruct p, h, i; unfold_m; cbn in *; try discriminate Hsup;
    try (rewrite (Hm eq_refl eq_refl)); cbn; try rewrite Hs; eexists; reflexivity.
Qed.

(** ** Every construction expression *)

Lemma bind_ok : forall (A B : Type) (m : M A) (f : A -> M B) l a,
  m = (l, Ok a) -> bind m f = (l ++ fst (f a), snd (f a)).
Proof.
  intros A B m f l a H. subst. unfold bind. destruct (f a). reflexivity.
Qed.

Lemma build_ok : forall cfg st m,
  supported cfg = true -> installed cfg st -> pre st m ->
  exists log p, build cfg st m = (log, Ok p) /\
    obj p = a_obj (root m) /\ dyn p = a_dyn (root m) /\
    vp p = expected_ref cfg st (a_dyn (root m)) /\
    smart p = src_smart (a_src (root m)) /\
    owner p = (if src_smart (a_src (root m)) then Some (a_ctrl (root m)) else None).
Proof.
  intros cfg st m Hsup Hinst. induction m as [a|a|o c ctrl box|m IH s|m IH|m IH|m IH s]; intros Hpre.
  - cbn in Hpre. destruct (ctor_ok cfg st a Hsup Hinst Hpre) as [log Hc].
    exists log, (boxed a (expected_ref cfg st (a_dyn a))). cbn [build root]. rewrite Hc.
    repeat split; reflexivity.
  - cbn in Hpre. destruct Hpre as [Hin Heq].
    destruct (final_ok cfg st a Hsup Hinst Hin Heq) as [log Hc].
    exists log, (boxed a (expected_ref cfg st (a_dyn a))). cbn [build root]. rewrite Hc.
    repeat split; reflexivity.
  - cbn in Hpre.
    destruct (final_ok cfg st (fresh_arg o c ctrl box) Hsup Hinst Hpre eq_refl) as [log Hc].
    exists log, (boxed (fresh_arg o c ctrl box) (expected_ref cfg st c)).
    cbn [build root]. unfold make_virtual_shared. rewrite Hc.
    repeat split; reflexivity.
  - destruct (IH Hpre) as [log [p [Hb [Ho [Hd [Hv [Hs Hw]]]]]]].
    exists (log ++ []), (conv p s). cbn [build root]. rewrite (bind_ok _ _ _ _ _ _ Hb). cbn.
    repeat split; assumption.
  - destruct (IH Hpre) as [log [p [Hb [Ho [Hd [Hv [Hs Hw]]]]]]].
    exists (log ++ []), (copy p). cbn [build root]. rewrite (bind_ok _ _ _ _ _ _ Hb). cbn.
    repeat split; assumption.
  - destruct (IH Hpre) as [log [p [Hb [Ho [Hd [Hv [Hs Hw]]]]]]].
    exists (log ++ []), (move p). cbn [build root]. rewrite (bind_ok _ _ _ _ _ _ Hb). cbn.
    repeat split; assumption.
  - destruct (IH Hpre) as [log [p [Hb [Ho [Hd [Hv [Hs Hw]]]]]]].
    exists (log ++ []), (cast p s). cbn [build root]. rewrite (bind_ok _ _ _ _ _ _ Hb). cbn.
    repeat split; assumption.
Qed.

Lemma deref_expected : forall cfg st p d,
  installed cfg st -> In d (classes st) -> vp p = expected_ref cfg st d ->
  deref st p = Some (current st d).
Proof.
  intros cfg st p d [Hcl _] Hin Hv. destruct (Hcl d Hin) as [Hs _].
  unfold deref, current. rewrite Hv. unfold expected_ref.
  destruct (indirect cfg); [exact Hs | reflexivity].
Qed.

Lemma pre_root_in : forall st m, pre st m -> In (a_dyn (root m)) (classes st).
Proof.
  intros st m. induction m; cbn; intros H; try (apply IHm; exact H).
  - exact H.
  - destruct H as [H _]. exact H.
  - exact H.
Qed.

(** C09_route *)
Lemma route_same_table : forall cfg st m,
  supported cfg = true -> reachable cfg st -> pre st m ->
  exists log p, build cfg st m = (log, Ok p) /\
    deref st p = Some (current st (a_dyn (root m))) /\
    outcome (dynamic_vptr cfg st (a_dyn (root m))) = Ok (current st (a_dyn (root m))).
Proof.
  intros cfg st m Hsup Hr Hpre.
  pose proof (reachable_installed cfg st Hr) as Hinst.
  pose proof (pre_root_in st m Hpre) as Hin.
  destruct (build_ok cfg st m Hsup Hinst Hpre) as [log [p [Hb [_ [_ [Hv _]]]]]].
  exists log, p. split; [exact Hb|]. split.
  - exact (deref_expected cfg st p _ Hinst Hin Hv).
  - exact (dynamic_vptr_ok cfg st _ Hsup Hinst Hin).
Qed.

(** C09_get *)
Lemma route_get : forall cfg st m,
  supported cfg = true -> reachable cfg st -> pre st m ->
  exists log p, build cfg st m = (log, Ok p) /\ get p = a_obj (root m) /\ dyn p = a_dyn (root m).
Proof.
  intros cfg st m Hsup Hr Hpre.
  destruct (build_ok cfg st m Hsup (reachable_installed cfg st Hr) Hpre) as [log [p [Hb [Ho [Hd _]]]]].
  exists log, p. repeat split; assumption.
Qed.

(** C09_shared_owner *)
Lemma route_owner : forall cfg st m,
  supported cfg = true -> reachable cfg st -> pre st m ->
  exists log p, build cfg st m = (log, Ok p) /\
    smart p = src_smart (a_src (root m)) /\
    (src_smart (a_src (root m)) = true -> owner p = Some (a_ctrl (root m))) /\
    (src_smart (a_src (root m)) = false -> owner p = None).
Proof.
  intros cfg st m Hsup Hr Hpre.
  destruct (build_ok cfg st m Hsup (reachable_installed cfg st Hr) Hpre) as [log [p [Hb [_ [_ [_ [Hs Hw]]]]]]].
  exists log, p. split; [exact Hb|]. split; [exact Hs|].
  split; intros E; rewrite E in Hw; exact Hw.
Qed.

(** C09_indirect_survives_update *)
Lemma indirect_survives : forall cfg st m later,
  supported cfg = true -> indirect cfg = true -> reachable cfg st -> pre st m ->
  In (a_dyn (root m)) (classes (updates cfg later st)) ->
  exists log p, build cfg st m = (log, Ok p) /\
    deref (updates cfg later st) p = Some (current (updates cfg later st) (a_dyn (root m))).
Proof.
  intros cfg st m later Hsup Hind Hr Hpre Hin'.
  destruct (build_ok cfg st m Hsup (reachable_installed cfg st Hr) Hpre) as [log [p [Hb [_ [_ [Hv _]]]]]].
  exists log, p. split; [exact Hb|].
  pose proof (reachable_installed cfg _ (updates_reachable cfg later st Hr)) as [Hcl' _].
  destruct (Hcl' _ Hin') as [Hs' _].
  unfold deref, current. rewrite Hv. unfold expected_ref. rewrite Hind. exact Hs'.
Qed.

(** C09_direct_until_update *)
Lemma direct_keeps_creation_table : forall cfg st m st',
  supported cfg = true -> indirect cfg = false -> reachable cfg st -> pre st m ->
  exists log p, build cfg st m = (log, Ok p) /\
    deref st' p = Some (current st (a_dyn (root m))).
Proof.
  intros cfg st m st' Hsup Hind Hr Hpre.
  destruct (build_ok cfg st m Hsup (reachable_installed cfg st Hr) Hpre) as [log [p [Hb [_ [_ [Hv _]]]]]].
  exists log, p. split; [exact Hb|].
  unfold deref, current. rewrite Hv. unfold expected_ref. rewrite Hind. reflexivity.
Qed.

Lemma direct_stale_after_update : forall cfg st m later,
  supported cfg = true -> indirect cfg = false -> reachable cfg st -> pre st m -> later <> [] ->
  exists log p, build cfg st m = (log, Ok p) /\
    deref (updates cfg later st) p <> Some (current (updates cfg later st) (a_dyn (root m))).
Proof.
  intros cfg st m later Hsup Hind Hr Hpre Hne.
  destruct (direct_keeps_creation_table cfg st m (updates cfg later st) Hsup Hind Hr Hpre) as [log [p [Hb Hd]]].
  exists log, p. split; [exact Hb|]. rewrite Hd. unfold current. rewrite updates_epoch.
  intros E. injection E as E. destruct later as [|x later]; [contradiction|]. cbn [length] in E. lia.
Qed.

(** C09_copy_no_lookup *)
Lemma conv_deref : forall st p s,
  deref st (conv p s) = deref st p /\ deref st (copy p) = deref st p /\
  deref st (move p) = deref st p /\ deref st (cast p s) = deref st p /\
  get (conv p s) = get p /\ get (copy p) = get p /\ get (move p) = get p /\ get (cast p s) = get p /\
  owner (conv p s) = owner p /\ owner (copy p) = owner p /\ owner (move p) = owner p /\ owner (cast p s) = owner p.
Proof. intros. repeat split; reflexivity. Qed.

Lemma conv_no_reads : forall cfg st m s,
  reads (build cfg st (MConv m s)) = reads (build cfg st m) /\
  reads (build cfg st (MCopy m)) = reads (build cfg st m) /\
  reads (build cfg st (MMove m)) = reads (build cfg st m) /\
  reads (build cfg st (MCast m s)) = reads (build cfg st m).
Proof.
  intros cfg st m s. cbn [build]. unfold reads, bind, ret.
  destruct (build cfg st m) as [l [p| |]]; cbn; rewrite ?app_nil_r; repeat split; reflexivity.
Qed.

(** ** C15: the virtual_ptr routes under the checked policy *)

Definition checked_vector (cfg : config) : Prop := hash cfg = HChecked /\ placement cfg = PVector.

(** the hypothesis on the state is only that the checked hash was built for the
    compiled classes: nothing is assumed about the static v-table pointer
    variables, vptrs or indirect_vptrs (stale contents included) *)
Lemma ctor_unregistered_any_state : forall cfg st a,
  checked_vector cfg -> control st = classes st -> ~ In (a_dyn a) (classes st) ->
  ctor cfg st a = ([AHash (a_dyn a)], Error (UnknownClass (a_dyn a))).
Proof.
  intros [h p i] st a [Hh Hp] Hctl Hnin. cbn in Hh, Hp. subst h p.
  assert (Hm : mem (a_dyn a) (control st) = false).
  { rewrite Hctl. apply mem_not_In. exact Hnin. }
  unfold ctor, ctor_with.
  assert (Hids : ctor_ids TConstRef a = (a_stat a, a_dyn a)) by (unfold ctor_ids; reflexivity).
  rewrite Hids.
  destruct (N.eqb (a_dyn a) (a_stat a)); destruct i; unfold_m; cbn; rewrite Hm; reflexivity.
Qed.

Lemma reachable_control : forall cfg st, checked_vector cfg -> reachable cfg st -> control st = classes st.
Proof.
  intros cfg st [Hh Hp] Hr. destruct (reachable_installed cfg st Hr) as [_ Hctl].
  apply Hctl; [exact Hp|]. unfold has_hash. rewrite Hh. reflexivity.
Qed.

Lemma ctor_unregistered : forall cfg st a,
  checked_vector cfg -> reachable cfg st -> ~ In (a_dyn a) (classes st) ->
  ctor cfg st a = ([AHash (a_dyn a)], Error (UnknownClass (a_dyn a))).
Proof.
  intros cfg st a Hc Hr Hn. exact (ctor_unregistered_any_state cfg st a Hc (reachable_control cfg st Hc Hr) Hn).
Qed.

Lemma ctor_unregistered_any_static : forall cfg st a f,
  checked_vector cfg -> reachable cfg st -> ~ In (a_dyn a) (classes st) ->
  ctor cfg (with_svp st f) a = ([AHash (a_dyn a)], Error (UnknownClass (a_dyn a))).
Proof.
  intros cfg st a f Hc Hr Hn.
  exact (ctor_unregistered_any_state cfg (with_svp st f) a Hc (reachable_control cfg st Hc Hr) Hn).
Qed.

Lemma final_wrong_type : forall cfg st a,
  runtime_checks cfg = true -> a_dyn a <> a_stat a ->
  final_ cfg st a = ([ASvp (a_stat a)], Error (MethodTable (a_dyn a))).
Proof.
  intros cfg st a Hrc Hne. unfold final_, final_with.
  assert (Hids : final_ids TConstRef a = (a_stat a, a_dyn a)) by (unfold final_ids; reflexivity).
  rewrite Hids. rewrite Hrc.
  apply N.eqb_neq in Hne. rewrite Hne. cbn [negb].
  unfold static_ref, bind, tell, ret, fail. cbn. reflexivity.
Qed.

Lemma final_unregistered_any_state : forall cfg st a,
  checked_vector cfg -> control st = classes st -> a_dyn a = a_stat a -> ~ In (a_dyn a) (classes st) ->
  final_ cfg st a = ([ASvp (a_stat a); AHash (a_stat a)], Error (UnknownClass (a_stat a))).
Proof.
  intros [h p i] st a [Hh Hp] Hctl Heq Hnin. cbn in Hh, Hp. subst h p.
  assert (Hm : mem (a_stat a) (control st) = false).
  { rewrite Hctl. apply mem_not_In. rewrite <- Heq. exact Hnin. }
  unfold final_, final_with.
  assert (Hids : final_ids TConstRef a = (a_stat a, a_dyn a)) by (unfold final_ids; reflexivity).
  rewrite Hids. rewrite Heq, N.eqb_refl.
  destruct i; unfold_m; cbn; rewrite Hm; reflexivity.
Qed.

Lemma final_unregistered : forall cfg st a,
  checked_vector cfg -> reachable cfg st -> a_dyn a = a_stat a -> ~ In (a_dyn a) (classes st) ->
  final_ cfg st a = ([ASvp (a_stat a); AHash (a_stat a)], Error (UnknownClass (a_stat a))).
Proof.
  intros cfg st a Hc Hr He Hn. exact (final_unregistered_any_state cfg st a Hc (reachable_control cfg st Hc Hr) He Hn).
Qed.

Lemma final_unregistered_any_static : forall cfg st a f,
  checked_vector cfg -> reachable cfg st -> a_dyn a = a_stat a -> ~ In (a_dyn a) (classes st) ->
  final_ cfg (with_svp st f) a = ([ASvp (a_stat a); AHash (a_stat a)], Error (UnknownClass (a_stat a))).
Proof.
  intros cfg st a f Hc Hr He Hn.
  exact (final_unregistered_any_state cfg (with_svp st f) a Hc (reachable_control cfg st Hc Hr) He Hn).
Qed.

Lemma make_virtual_shared_unregistered : forall cfg st o c ctrl box,
  checked_vector cfg -> reachable cfg st -> ~ In c (classes st) ->
  make_virtual_shared cfg st o c ctrl box = ([ASvp c; AHash c], Error (UnknownClass c)).
Proof.
  intros cfg st o c ctrl box Hc Hr Hn.
  exact (final_unregistered cfg st (fresh_arg o c ctrl box) Hc Hr eq_refl Hn).
Qed.

(** a plain reference to an object of an unregistered class, at call time *)
Lemma call_unregistered : forall cfg st c,
  checked_vector cfg -> reachable cfg st -> ~ In c (classes st) ->
  dynamic_vptr cfg st c = ([AHash c], Error (UnknownClass c)).
Proof.
  intros [h p i] st c [Hh Hp] Hr Hnin. cbn in Hh, Hp. subst h p.
  destruct (reachable_installed _ st Hr) as [_ Hctl].
  assert (Hm : mem c (control st) = false).
  { rewrite (Hctl eq_refl eq_refl). apply mem_not_In. exact Hnin. }
  unfold_m. cbn. rewrite Hm. reflexivity.
Qed.

(** no v-table pointer lookup structure is read when an error is reported *)
Definition is_lookup (a : access) : bool :=
  match a with AVptrs _ | AIvptrs _ => true | _ => false end.

(** ** A class that was registered, seen by an update, then unregistered *)

Lemma svp_update_other : forall cfg rs st c, ~ In c rs -> svp (update cfg rs st) c = svp st c.
Proof.
  intros cfg rs st c Hn. unfold update, publish.
  destruct (placement cfg); cbn [svp]; rewrite set_all_spec, (mem_not_In _ _ Hn); reflexivity.
Qed.

Lemma svp_update_in : forall cfg rs st c, In c rs -> svp (update cfg rs st) c = Some (c, S (epoch st)).
Proof.
  intros cfg rs st c Hin. apply mem_In in Hin. unfold update, publish.
  destruct (placement cfg); cbn [svp]; rewrite set_all_spec, Hin; reflexivity.
Qed.

(** after update(rs1) ; update(rs2) with c in rs1 and not in rs2: the static
    v-table pointer of c is NOT null - it still holds the table of the first
    update - and c is diagnosed on the exact-type constructor route and in final *)
Lemma unregistered_after_registered : forall cfg rs1 rs2 st0 a,
  checked_vector cfg -> reachable cfg st0 -> In (a_dyn a) rs1 -> ~ In (a_dyn a) rs2 ->
  let st := update cfg rs2 (update cfg rs1 st0) in
  svp st (a_dyn a) = Some (a_dyn a, S (epoch st0)) /\
  ctor cfg st a = ([AHash (a_dyn a)], Error (UnknownClass (a_dyn a))) /\
  (a_dyn a = a_stat a ->
   final_ cfg st a = ([ASvp (a_stat a); AHash (a_stat a)], Error (UnknownClass (a_stat a)))).
Proof.
  intros cfg rs1 rs2 st0 a Hc Hr Hin Hnin st.
  assert (Hr2 : reachable cfg st) by (apply reach_update, reach_update; exact Hr).
  assert (Hcl : classes st = rs2) by (destruct (update_fields cfg rs2 (update cfg rs1 st0)) as [_ H]; exact H).
  split; [|split].
  - unfold st. rewrite (svp_update_other cfg rs2 _ _ Hnin). apply svp_update_in. exact Hin.
  - apply ctor_unregistered; [exact Hc | exact Hr2 | rewrite Hcl; exact Hnin].
  - intros He. apply final_unregistered; [exact Hc | exact Hr2 | exact He | rewrite Hcl; exact Hnin].
Qed.
