(* OffsetsProofs.v — C12: the numbers write_static_offsets prints are the slots and strides update installed; a walk
   that reads them from static_offsets<method> is the walk that reads slots_strides; the debug cross-check accepts
   exactly the installed offsets.  The index expressions come from Gen/GenCodecConsts.v (read from the source on
   every run): with the pre-fix expressions ix_gen_slot / ix_gen_stride / ix_chk_* below no longer check. *)
From Y2 Require Import Model.Registry Model.Compile Model.Offsets Gen.GenCodecConsts Spec.Dispatch.
From Y2 Require Import Proofs.Interfaces Proofs.LatListFacts Proofs.InstallProofs Proofs.ResolveProofs Proofs.CompileProofs
     Proofs.CorollaryProofs Proofs.SlotsProofs Proofs.TablesProofs.
From Coq Require Import Lia.
Local Open Scope nat_scope.

(* ------------------------------------------------------------------ the index expressions, as read from the source *)

Lemma ix_gen_slot a i : ix gen_slot_ix a i = i.
Proof. unfold ix, gen_slot_ix. lia. Qed.

Lemma ix_gen_stride a i : 1 <= a + i -> ix gen_stride_ix a i = a + i - 1.
Proof. intro H. unfold ix, gen_stride_ix. lia. Qed.

Lemma ix_chk_slot a i : ix chk_slot_ix a i = i.
Proof. unfold ix, chk_slot_ix. lia. Qed.

Lemma ix_chk_stride a i : 1 <= a + i -> ix chk_stride_ix a i = a + i - 1.
Proof. intro H. unfold ix, chk_stride_ix. lia. Qed.

(* ------------------------------------------------------------------ lists *)

Lemma nth_map_seq_from {A} (f : nat -> A) s n k d : k < n -> nth k (map f (seq s n)) d = f (s + k).
Proof.
  revert s k. induction n as [|n IH]; intros s k Hk; [lia|].
  cbn [seq map]. destruct k as [|k]; cbn [nth]; [f_equal; lia|].
  rewrite IH by lia. f_equal. lia.
Qed.

Lemma nth_firstn_lt {A} (l : list A) d : forall n k, k < n -> nth k (firstn n l) d = nth k l d.
Proof.
  induction l as [|x l IH]; intros n k Hk.
  - rewrite firstn_nil. reflexivity.
  - destruct n as [|n]; [lia|]. cbn [firstn]. destruct k as [|k]; cbn [nth]; [reflexivity|]. apply IH. lia.
Qed.

Lemma nth_skipn_add {A} (l : list A) d : forall n k, nth k (skipn n l) d = nth (n + k) l d.
Proof.
  induction l as [|x l IH]; intros n k.
  - rewrite skipn_nil. destruct k, n; reflexivity.
  - destruct n as [|n]; [reflexivity|]. cbn [skipn Nat.add nth]. apply IH.
Qed.

(* ------------------------------------------------------------------ write_static_offsets on the installed layout *)

(* install_gv writes slots_strides = [slot] for a uni-method, slots ++ strides for a multi-method *)
Definition installed_ss (sl st : list nat) : list nat := if length sl =? 1 then firstn 1 sl else sl ++ st.

Lemma printed_installed sl st :
  1 <= length sl -> length st = length sl - 1 ->
  printed_with gen_slot_ix gen_stride_ix (installed_ss sl st) (length sl) = (sl, st).
Proof.
  intros Ha Hst. unfold printed_with, installed_ss.
  destruct (Nat.eqb_spec (length sl) 1) as [E1|NE1].
  - rewrite E1. cbn [Nat.ltb Nat.leb]. destruct sl as [|x [|y sl]]; cbn [length] in *; try lia.
    destruct st; [reflexivity|cbn [length] in Hst; lia].
  - destruct (Nat.ltb_spec 1 (length sl)) as [H1|H1]; [|lia].
    f_equal.
    + apply (nth_ext _ _ 0 0).
      * cbn [length]. rewrite map_length, seq_length. lia.
      * intros k Hk. cbn [length] in Hk. rewrite map_length, seq_length in Hk.
        destruct k as [|k]; cbn [nth].
        -- apply app_nth1. lia.
        -- rewrite nth_map_seq_from by lia. rewrite ix_gen_slot. apply app_nth1. lia.
    + apply (nth_ext _ _ 0 0).
      * rewrite map_length, seq_length. lia.
      * intros k Hk. rewrite map_length, seq_length in Hk.
        rewrite nth_map_seq_from by lia. rewrite ix_gen_stride by lia.
        rewrite app_nth2 by lia. f_equal. lia.
Qed.

(* the pre-fix expressions print something else as soon as the third virtual parameter's slot is not the first stride *)
Lemma printed_legacy_3 s0 s1 s2 t1 t2 :
  printed_with legacy_slot_ix legacy_stride_ix [s0; s1; s2; t1; t2] 3 = ([s0; s1; t1], [s2; t2]).
Proof. reflexivity. Qed.

(* ------------------------------------------------------------------ on compile R *)

Section OnCompile.
  Variables (R : registry) (C : compiled).
  Hypothesis Hwf : wf_registry R.
  Hypothesis HC : compile R = Ok C.

  Lemma compile_pieces : exists L ms,
      C = install_with [] L ms (assign_slots L ms) /\ lattice_ok R L /\ Forall (meth_wf L) ms /\ length ms = length (r_methods R).
  Proof.
    destruct (compile_char R [] Hwf) as [L [ms [_ [_ [HC' [Hlo [Hms [Hlen _]]]]]]]].
    exists L, ms. unfold compile in HC. rewrite HC in HC'. inversion HC'. auto.
  Qed.

  Lemma method_pieces mi : mi < length (r_methods R) -> exists L ms cm,
      C = install_with [] L ms (assign_slots L ms) /\ lat_wf L /\ meth_wf L cm /\ nth_error ms mi = Some cm /\
      nth mi (o_meths C) (mk_cmeth [] [] [] []) = cm /\
      length (nth mi (o_slots C) []) = length (cm_vp cm) /\
      nth mi (o_tables C) (mk_ct [] [] [] (mk_rep 0 0 0 0 0 0) []) = build_method L cm /\
      nth mi (o_ss C) [] = installed_ss (nth mi (o_slots C) []) (t_strides (build_method L cm)).
  Proof.
    intro Hmi. destruct compile_pieces as [L [ms [EC [Hlo [Hms Hlen]]]]].
    destruct (nth_error ms mi) as [cm|] eqn:Hcm; [|apply nth_error_None in Hcm; lia].
    exists L, ms, cm.
    assert (Hcmwf : meth_wf L cm) by (apply (proj1 (Forall_forall _ _) Hms); eapply nth_error_In; eassumption).
    pose proof (assign_slots_ok L ms (lo_wf R L Hlo) Hms) as Hso.
    destruct (install_slots [] L ms (assign_slots L ms)) as [E1 _].
    assert (Hlsl : length (nth mi (o_slots C) []) = length (cm_vp cm)).
    { rewrite EC, E1. apply (so_len_slots_m L ms _ Hso). exact Hcm. }
    refine (conj EC (conj (lo_wf R L Hlo) (conj Hcmwf (conj Hcm (conj _ (conj Hlsl (conj _ _))))))).
    - rewrite EC, install_meths. apply nth_error_nth. exact Hcm.
    - rewrite EC, install_tables. apply nth_error_nth. rewrite nth_error_map, Hcm. reflexivity.
    - rewrite EC at 1. rewrite (nth_ss L ms [] mi cm Hcm). unfold slots_strides_of, installed_ss.
      rewrite EC in Hlsl. rewrite E1 in Hlsl. rewrite EC, E1. rewrite Hlsl. reflexivity.
  Qed.

  (* C12_offsets, first half *)
  Theorem offsets_correct mi : mi < length (r_methods R) ->
    printed_offsets C mi = (nth mi (o_slots C) [], t_strides (nth mi (o_tables C) (mk_ct [] [] [] (mk_rep 0 0 0 0 0 0) []))) /\
    length (fst (printed_offsets C mi)) = arity_of C mi /\
    length (snd (printed_offsets C mi)) = arity_of C mi - 1.
  Proof.
    intro Hmi. destruct (method_pieces mi Hmi) as [L [ms [cm [EC [Hlw [Hcmwf [Hcm [Em [Hlsl [Et Ess]]]]]]]]]].
    pose proof (to_len_strides L cm _ (build_method_table_ok L cm Hlw Hcmwf)) as Hlst.
    assert (Ha : 1 <= length (cm_vp cm)) by (destruct Hcmwf as [Hne _]; destruct (cm_vp cm); [congruence|cbn; lia]).
    assert (E : printed_offsets C mi = (nth mi (o_slots C) [], t_strides (build_method L cm))).
    { unfold printed_offsets, arity_of. rewrite Em, Ess, <- Hlsl. apply printed_installed; lia. }
    rewrite E, Et. cbn [fst snd]. unfold arity_of. rewrite Em. repeat split; lia.
  Qed.

  (* the facts a walk needs from the static arrays *)
  Lemma printed_nth mi : mi < length (r_methods R) ->
    let ss := nth mi (o_ss C) [] in
    let a := arity_of C mi in
    1 <= a /\
    (forall va, va < a -> nth va (fst (printed_offsets C mi)) 0 = nth va ss 0) /\
    (forall va, 1 <= va < a -> nth (va - 1) (snd (printed_offsets C mi)) 0 = nth (a + va - 1) ss 0).
  Proof.
    intros Hmi ss a. destruct (method_pieces mi Hmi) as [L [ms [cm [EC [Hlw [Hcmwf [Hcm [Em [Hlsl [Et Ess]]]]]]]]]].
    destruct (offsets_correct mi Hmi) as [E _]. rewrite E. cbn [fst snd]. rewrite Et.
    pose proof (to_len_strides L cm _ (build_method_table_ok L cm Hlw Hcmwf)) as Hlst.
    assert (Ea : a = length (cm_vp cm)) by (unfold a, arity_of; rewrite Em; reflexivity).
    assert (Ha : 1 <= a) by (rewrite Ea; destruct Hcmwf as [Hne _]; destruct (cm_vp cm); [congruence|cbn; lia]).
    split; [exact Ha|]. unfold ss. rewrite Ess. unfold installed_ss. rewrite Hlsl, <- Ea.
    destruct (Nat.eqb_spec a 1) as [E1|NE1]; split.
    - intros va Hva. assert (va = 0) by lia. subst va. symmetry. apply nth0_firstn1.
    - intros va Hva. lia.
    - intros va Hva. symmetry. apply app_nth1. lia.
    - intros va Hva. rewrite app_nth2 by lia. f_equal. lia.
  Qed.
End OnCompile.

(* ------------------------------------------------------------------ the walk with static offsets *)

Lemma resolve_uni_static_eq C sl ss : nth 0 sl 0 = nth 0 ss 0 ->
  forall shape acts, resolve_uni_static C sl shape acts = resolve_uni C ss shape acts.
Proof.
  intro H0. induction shape as [|b shape IH]; intros acts; [reflexivity|].
  destruct b; cbn [resolve_uni_static resolve_uni].
  - destruct acts as [|[vp|] acts]; try reflexivity. rewrite H0. reflexivity.
  - destruct acts as [|o acts]; [reflexivity|]. apply IH.
Qed.

Lemma resolve_multi_next_static_eq C a sl st ss :
  (forall va, va < a -> nth va sl 0 = nth va ss 0) ->
  (forall va, 1 <= va < a -> nth (va - 1) st 0 = nth (a + va - 1) ss 0) ->
  forall shape acts va dispatch, 1 <= va < a ->
    resolve_multi_next_static C a sl st va dispatch shape acts = resolve_multi_next C a ss va dispatch shape acts.
Proof.
  intros Hs Ht. induction shape as [|b shape IH]; intros acts va dispatch Hva; [reflexivity|].
  destruct b; cbn [resolve_multi_next_static resolve_multi_next].
  - destruct acts as [|[vp|] acts]; try reflexivity.
    rewrite (Hs va) by lia. destruct (read (o_image C) _) as [w|e]; cbn [bind]; [|reflexivity].
    destruct w; try reflexivity. rewrite (Ht va Hva).
    destruct (Nat.eqb_spec (S va) a) as [E|NE]; [reflexivity|]. apply IH. lia.
  - destruct acts as [|o acts]; [reflexivity|]. apply IH. exact Hva.
Qed.

Lemma resolve_multi_first_static_eq C a sl st ss : 2 <= a ->
  (forall va, va < a -> nth va sl 0 = nth va ss 0) ->
  (forall va, 1 <= va < a -> nth (va - 1) st 0 = nth (a + va - 1) ss 0) ->
  forall shape acts, resolve_multi_first_static C a sl st shape acts = resolve_multi_first C a ss shape acts.
Proof.
  intros Ha Hs Ht. induction shape as [|b shape IH]; intros acts; [reflexivity|].
  destruct b; cbn [resolve_multi_first_static resolve_multi_first].
  - destruct acts as [|[vp|] acts]; try reflexivity.
    rewrite (Hs 0) by lia. destruct (read (o_image C) _) as [w|e]; cbn [bind]; [|reflexivity].
    destruct w; try reflexivity. apply resolve_multi_next_static_eq; try assumption. lia.
  - destruct acts as [|o acts]; [reflexivity|]. apply IH.
Qed.

(* C12_offsets, second half: a program compiled with the printed offsets resolves every call like one that reads
   slots_strides at run time — whatever the arguments *)
Theorem resolve_static_printed R C mi acts :
  wf_registry R -> compile R = Ok C -> mi < length (r_methods R) ->
  resolve_static C mi (printed_offsets C mi) acts = resolve C mi acts.
Proof.
  intros Hwf HC Hmi. destruct (printed_nth R C Hwf HC mi Hmi) as [Ha [Hs Ht]].
  unfold resolve_static, resolve. unfold arity_of in *.
  set (m := nth mi (o_meths C) (mk_cmeth [] [] [] [])) in *.
  destruct (Nat.eqb_spec (length (cm_vp m)) 1) as [E1|NE1].
  - apply resolve_uni_static_eq. apply Hs. lia.
  - apply resolve_multi_first_static_eq; [lia|exact Hs|exact Ht].
Qed.

(* ------------------------------------------------------------------ the debug cross-check *)

Lemma check_next_ok a ss sl st : forall fuel va, 1 <= va ->
  (check_next chk_slot_ix chk_stride_ix a ss sl st va fuel = ChkOk <->
   forall k, va <= k < va + fuel -> nth k ss 0 = nth k sl 0 /\ nth (a + k - 1) ss 0 = nth (k - 1) st 0).
Proof.
  induction fuel as [|f IH]; intros va Hva; cbn [check_next].
  - split; [intros _ k Hk; lia|reflexivity].
  - rewrite ix_chk_slot, ix_chk_stride by lia.
    destruct (Nat.eqb_spec (nth va ss 0) (nth va sl 0)) as [E1|NE1].
    + destruct (Nat.eqb_spec (nth (a + va - 1) ss 0) (nth (va - 1) st 0)) as [E2|NE2].
      * rewrite IH by lia. split.
        -- intros H k Hk. destruct (Nat.eq_dec k va) as [->|Hne]; [split; assumption|]. apply H. lia.
        -- intros H k Hk. apply H. lia.
      * split; [discriminate|]. intro H. exfalso. apply NE2. apply (H va). lia.
    + split; [discriminate|]. intro H. exfalso. apply NE1. apply (H va). lia.
Qed.

(* C12_check: for the static arrays of a method of any arity (a slots, a - 1 strides), the checks made by one call pass
   iff the static arrays are the installed ones, position by position *)
Theorem debug_check_iff ss sl st a :
  1 <= a -> length ss = 2 * a - 1 -> length sl = a -> length st = a - 1 ->
  (debug_check ss (sl, st) a = ChkOk <-> sl = firstn a ss /\ st = skipn a ss).
Proof.
  intros Ha Hss Hsl Hst. unfold debug_check, debug_check_with.
  assert (Hall : (nth 0 sl 0 = nth 0 ss 0 /\
                  forall k, 1 <= k < a -> nth k ss 0 = nth k sl 0 /\ nth (a + k - 1) ss 0 = nth (k - 1) st 0)
                 <-> sl = firstn a ss /\ st = skipn a ss).
  { split.
    - intros [H0 Hk]. split.
      + apply (nth_ext _ _ 0 0); [rewrite firstn_length; lia|].
        intros k Hlt. rewrite nth_firstn_lt by lia. destruct k as [|k]; [exact H0|]. symmetry. apply Hk. lia.
      + apply (nth_ext _ _ 0 0); [rewrite skipn_length; lia|].
        intros k Hlt. rewrite nth_skipn_add. destruct (Hk (S k)) as [_ H2]; [lia|].
        replace (S k - 1) with k in H2 by lia. rewrite <- H2. f_equal. lia.
    - intros [E1 E2]. split.
      + rewrite E1. rewrite nth_firstn_lt by lia. reflexivity.
      + intros k Hk. split.
        * rewrite E1. rewrite nth_firstn_lt by lia. reflexivity.
        * rewrite E2. rewrite nth_skipn_add. f_equal. lia. }
  rewrite <- Hall.
  destruct (Nat.eqb_spec (nth 0 sl 0) (nth 0 ss 0)) as [E0|NE0].
  - destruct (Nat.eqb_spec a 1) as [E1|NE1].
    + split; [|reflexivity]. intros _. split; [exact E0|]. intros k Hk. lia.
    + rewrite check_next_ok by lia. split.
      * intros H. split; [exact E0|]. intros k Hk. apply H. lia.
      * intros [_ H] k Hk. apply H. lia.
  - split; [discriminate|]. intros [H _]. contradiction.
Qed.

(* on compile R: the printed offsets pass the check, and they are the only ones of the right shape that do *)
Theorem debug_check_printed R C mi sl st :
  wf_registry R -> compile R = Ok C -> mi < length (r_methods R) ->
  length sl = arity_of C mi -> length st = arity_of C mi - 1 ->
  (debug_check (nth mi (o_ss C) []) (sl, st) (arity_of C mi) = ChkOk <-> (sl, st) = printed_offsets C mi).
Proof.
  intros Hwf HC Hmi Hsl Hst.
  destruct (method_pieces R C Hwf HC mi Hmi) as [L [ms [cm [EC [Hlw [Hcmwf [Hcm [Em [Hlsl [Et Ess]]]]]]]]]].
  destruct (offsets_correct R C Hwf HC mi Hmi) as [E [Hl1 Hl2]].
  pose proof (to_len_strides L cm _ (build_method_table_ok L cm Hlw Hcmwf)) as Hlst.
  assert (Ea : arity_of C mi = length (cm_vp cm)) by (unfold arity_of; rewrite Em; reflexivity).
  assert (Ha : 1 <= arity_of C mi) by (rewrite Ea; destruct Hcmwf as [Hne _]; destruct (cm_vp cm); [congruence|cbn; lia]).
  set (a := arity_of C mi) in *. set (slots := nth mi (o_slots C) []) in *.
  rewrite Et in E. set (strides := t_strides (build_method L cm)) in *.
  assert (Hlss : length (nth mi (o_ss C) []) = 2 * a - 1).
  { rewrite Ess. unfold installed_ss. fold slots. rewrite Hlsl, <- Ea.
    destruct (Nat.eqb_spec a 1) as [E1|NE1].
    - destruct slots as [|x [|y l]]; cbn [length] in *; try lia. cbn. lia.
    - rewrite app_length. fold strides. lia. }
  rewrite (debug_check_iff _ sl st a Ha Hlss Hsl Hst). rewrite E.
  assert (Hf : firstn a (nth mi (o_ss C) []) = slots /\ skipn a (nth mi (o_ss C) []) = strides).
  { rewrite Ess. unfold installed_ss. fold slots strides. rewrite Hlsl, <- Ea.
    destruct (Nat.eqb_spec a 1) as [E1|NE1].
    - rewrite E1. destruct slots as [|x [|y l]]; cbn [length] in *; try lia.
      destruct strides; [split; reflexivity|cbn [length] in *; lia].
    - split.
      + rewrite firstn_app. replace (a - length slots) with 0 by lia. rewrite firstn_O, app_nil_r. apply firstn_all2. lia.
      + rewrite skipn_app. replace (a - length slots) with 0 by lia. rewrite skipn_all2 by lia. reflexivity. }
  destruct Hf as [F1 F2]. rewrite F1, F2. split.
  - intros [-> ->]. reflexivity.
  - intro H. inversion H. auto.
Qed.

(* ------------------------------------------------------------------ the pre-fix expressions, refuted *)

(* probe P9: classes 1, 2, 3 : 1 2, 4; methods (1), (2, 3), (1, 2, 3) *)
Definition p9_R : registry :=
  mk_reg [mk_class 1 [1] false; mk_class 2 [2] false; mk_class 3 [3; 1; 2] false; mk_class 4 [4] false]%N
         [mk_meth [1]%N [mk_def [1]%N true] [true];
          mk_meth [2; 3]%N [mk_def [2; 3]%N true] [true; true];
          mk_meth [1; 2; 3]%N [mk_def [1; 2; 3]%N true; mk_def [3; 2; 3]%N true] [true; true; true]] [].

Theorem offsets_legacy_refuted :
  exists C, compile p9_R = Ok C /\
    arity_of C 2 = 3 /\
    printed_offsets C 2 = ([1; 5; 3], [2; 2]) /\
    printed_offsets_legacy C 2 = ([1; 5; 2], [3; 2]) /\
    nth 2 (o_slots C) [] = [1; 5; 3] /\
    (* the pre-fix check rejected the correct offsets and accepted the interleaved reading *)
    debug_check_legacy (nth 2 (o_ss C) []) ([1; 5; 3], [2; 2]) 3 = ChkStride 1 /\
    debug_check (nth 2 (o_ss C) []) ([1; 5; 3], [2; 2]) 3 = ChkOk /\
    debug_check (nth 2 (o_ss C) []) ([1; 5; 2], [3; 2]) 3 = ChkStride 1.
Proof. eexists. split; [vm_compute; reflexivity|]. vm_compute. repeat split. Qed.

Print Assumptions offsets_correct.
Print Assumptions resolve_static_printed.
Print Assumptions debug_check_iff.
Print Assumptions debug_check_printed.
Print Assumptions offsets_legacy_refuted.
