(* MethSource.v — compiler<Policy>::augment_methods as TRANSLATED from detail/compiler.hpp on this run (Gen/GenMeth.v,
   interpreted by Model/MiniMeth.v) computes Model.Compile.augment_methods: the same classes for the virtual parameters of every
   method and definition, in the same order, the same unknown_class_error (the first id, in the code's order, that no registered
   class has); the pseudo-definitions get the indexes nspecs and nspecs + 1 and every definition its position; used_by_vp is
   the model's. *)
From Coq Require Import List NArith Bool Arith Lia.
From Y2 Require Import Model.Registry Model.Compile Model.MiniMeth Gen.GenMeth.
Import ListNotations.

Definition push_state (w : mwho) (s : mstate) (cs : list nat) : mstate :=
  match w with
  | WMethod => mk_ms (b_vp s ++ cs) (b_specs s) (b_cur s) (b_class s) (b_amb s) (b_ni s) (b_spec_positions s)
  | WDefinition => mk_ms (b_vp s) (b_specs s) (b_cur s ++ cs) (b_class s) (b_amb s) (b_ni s) (b_spec_positions s)
  end.

Section Meth.
  Variables (R : registry) (keys : list N).

  (* a loop over ids whose every iteration looks the id up, reports it if unknown, and pushes the class on the vector `w` *)
  Lemma params_loop (w : mwho) (step : tid -> mstate -> mres)
        (H : forall t s, step t s = match class_of R keys t with
                                    | None => MErr (UnknownClass t)
                                    | Some c0 => MGo (push_state w s [c0])
                                    end) :
    forall ts s, mfor step ts s = match lookup_all R keys ts with
                                  | Err e => MErr e
                                  | Ok cs => MGo (push_state w s cs)
                                  end.
  Proof.
    induction ts as [|t r IH]; intros s; cbn [mfor lookup_all].
    - destruct w, s as [v1 v2 v3 v4 v5 v6 v7]; cbn; rewrite ?app_nil_r; reflexivity.
    - rewrite H. destruct (class_of R keys t) as [c0|] eqn:Ec; [|reflexivity].
      rewrite IH. destruct (lookup_all R keys r) as [cs|e]; cbn [bind]; [|reflexivity].
      destruct w, s as [v1 v2 v3 v4 v5 v6 v7]; cbn; rewrite <- app_assoc; reflexivity.
  Qed.

  (* a loop over the definitions whose every iteration records the position and collects the classes of the definition *)
  Lemma defs_loop (step : nat -> def_rec -> mstate -> mres)
        (H : forall pos d s, b_cur s = [] ->
               step pos d s = match lookup_all R keys (d_vp d) with
                              | Err e => MErr e
                              | Ok cs => MGo (mk_ms (b_vp s) (b_specs s ++ [cs]) [] (b_class s) (b_amb s) (b_ni s) (b_spec_positions s ++ [pos]))
                              end) :
    forall ds pos s, b_cur s = [] ->
      mfor_pos step pos ds s = match lookup_defs R keys ds with
                               | Err e => MErr e
                               | Ok vs => MGo (mk_ms (b_vp s) (b_specs s ++ vs) [] (b_class s) (b_amb s) (b_ni s) (b_spec_positions s ++ seq pos (length ds)))
                               end.
  Proof.
    induction ds as [|d r IH]; intros pos s Hc; cbn [mfor_pos lookup_defs length seq].
    - destruct s as [v1 v2 v3 v4 v5 v6 v7]; cbn in *; subst; rewrite !app_nil_r; reflexivity.
    - rewrite (H pos d s Hc). destruct (lookup_all R keys (d_vp d)) as [cs|e]; cbn [bind]; [|reflexivity].
      rewrite IH by reflexivity. cbn [b_vp b_specs b_cur b_class b_amb b_ni b_spec_positions].
      destruct (lookup_defs R keys r) as [vs|e]; cbn [bind]; [|reflexivity].
      rewrite <- !app_assoc. reflexivity.
  Qed.
End Meth.

Ltac params_step :=
  let t := fresh "t" in
  intros t [w1 w2 w3 w4 w5 w6 w7]; cbn [mexec x_ti x_meth x_def x_pos b_class b_vp b_specs b_cur b_amb b_ni b_spec_positions];
  match goal with |- context [class_of ?R ?k t] => destruct (class_of R k t) end;
  cbn [mexec x_ti x_meth x_def x_pos b_class b_vp b_specs b_cur b_amb b_ni b_spec_positions push_state]; reflexivity.

Section Meth2.
  Variables (R : registry) (keys : list N).

  (* one method *)
  Lemma src_method m :
    mexec R keys (ms_body gen_augment_methods) (mk_mctx m None None 0) ms0
    = match lookup_all R keys (m_vp m) with
      | Err e => MErr e
      | Ok vp => match lookup_defs R keys (m_defs m) with
                 | Err e => MErr e
                 | Ok specs => MGo (mk_ms vp specs [] None (Some (length (m_defs m))) (Some (length (m_defs m) + 1)) (seq 0 (length (m_defs m))))
                 end
      end.
  Proof.
    unfold gen_augment_methods, ms0. cbn [ms_body mexec x_meth x_def x_ti x_pos].
    match goal with |- context [mfor ?st (m_vp m) ?s0] => rewrite (params_loop R keys WMethod st ltac:(params_step) (m_vp m) s0) end.
    destruct (lookup_all R keys (m_vp m)) as [vp|e]; [|reflexivity].
    cbn [push_state mexec x_meth x_def x_ti x_pos b_vp b_specs b_cur b_class b_amb b_ni b_spec_positions app].
    match goal with |- context [mfor_pos ?st 0 (m_defs m) ?s0] =>
      rewrite (defs_loop R keys st) with (ds := m_defs m) (pos := 0) (s := s0); [ | | reflexivity]
    end.
    - cbn [b_vp b_specs b_cur b_class b_amb b_ni b_spec_positions app]. destruct (lookup_defs R keys (m_defs m)); reflexivity.
    - intros pos d [v1 v2 v3 v4 v5 v6 v7] Hc. cbn [b_cur] in Hc. subst.
      cbn [mexec x_meth x_def x_ti x_pos b_vp b_specs b_cur b_class b_amb b_ni b_spec_positions].
      match goal with |- context [mfor ?st (d_vp d) ?s0] => rewrite (params_loop R keys WDefinition st ltac:(params_step) (d_vp d) s0) end.
      destruct (lookup_all R keys (d_vp d)); reflexivity.
  Qed.

  Theorem src_augment_methods : forall ms,
    match run_methods R keys (ms_body gen_augment_methods) ms with
    | Ok l => augment_methods R keys ms = Ok (map fst l) /\
              Forall2 (fun m x => snd x = (Some (length (m_defs m)), Some (length (m_defs m) + 1), seq 0 (length (m_defs m)))) ms l
    | Err e => augment_methods R keys ms = Err e
    end.
  Proof.
    induction ms as [|m r IH]; cbn [run_methods augment_methods]; [split; [reflexivity|constructor]|].
    rewrite src_method.
    destruct (lookup_all R keys (m_vp m)) as [vp|e]; cbn [bind]; [|reflexivity].
    destruct (lookup_defs R keys (m_defs m)) as [specs|e]; cbn [bind]; [|reflexivity].
    destruct (run_methods R keys (ms_body gen_augment_methods) r) as [l|e].
    - destruct IH as [IH1 IH2]. rewrite IH1. cbn [bind map fst b_vp b_specs b_amb b_ni b_spec_positions]. split; [reflexivity|].
      constructor; [reflexivity|exact IH2].
    - rewrite IH. reflexivity.
  Qed.

  Theorem src_used_by ms c : run_used_by (ms_used_by gen_augment_methods) ms c = used_by_vp ms c.
  Proof. reflexivity. Qed.
End Meth2.
