(* LatListFacts.v — small generic list lemmas used by the lattice proofs:
   memn/memN, set_nth/upd_nth, index_ofN, dedupn, insert_by/sort_by_weight, insert_sorted, counting with filter. *)
From Coq Require Import List Arith NArith Lia Bool Permutation Sorting.Sorted.
From Y2 Require Import Model.Registry Model.Compile.
Import ListNotations.
Local Open Scope nat_scope.

(* ------------------------------------------------------------------ membership tests *)

Lemma memn_In x l : memn x l = true <-> In x l.
Proof.
  unfold memn. rewrite existsb_exists. split.
  - intros [y [H E]]. apply Nat.eqb_eq in E. now subst.
  - intro H. exists x. split; [assumption|apply Nat.eqb_refl].
Qed.

Lemma memn_false x l : memn x l = false <-> ~ In x l.
Proof. rewrite <- memn_In. destruct (memn x l); split; intro H; try congruence; try reflexivity. Qed.

Lemma memn_spec x l : reflect (In x l) (memn x l).
Proof. apply iff_reflect. symmetry. apply memn_In. Qed.

Lemma memN_In x l : memN x l = true <-> In x l.
Proof.
  unfold memN. rewrite existsb_exists. split.
  - intros [y [H E]]. apply N.eqb_eq in E. now subst.
  - intro H. exists x. split; [assumption|apply N.eqb_refl].
Qed.

Lemma memN_false x l : memN x l = false <-> ~ In x l.
Proof. rewrite <- memN_In. destruct (memN x l); split; intro H; try congruence; try reflexivity. Qed.

(* ------------------------------------------------------------------ set_nth / upd_nth *)

Lemma length_set_nth {A} n (l : list A) v : length (set_nth n l v) = length l.
Proof. revert n. induction l as [|x l IH]; intros [|n]; cbn; auto. Qed.

Lemma nth_set_nth_eq {A} n (l : list A) v d : n < length l -> nth n (set_nth n l v) d = v.
Proof.
  revert n. induction l as [|x l IH]; intros [|n] H; cbn in *; try lia; auto.
  apply IH. lia.
Qed.

Lemma nth_set_nth_neq {A} n m (l : list A) v d : n <> m -> nth m (set_nth n l v) d = nth m l d.
Proof.
  revert n m. induction l as [|x l IH]; intros [|n] [|m] H; cbn; auto; try lia.
Qed.

Lemma set_nth_oob {A} n (l : list A) v : length l <= n -> set_nth n l v = l.
Proof.
  revert n. induction l as [|x l IH]; intros [|n] H; cbn in *; auto; try lia.
  f_equal. apply IH. lia.
Qed.

Lemma length_upd_nth {A} n (l : list A) d f : length (upd_nth n l d f) = length l.
Proof. apply length_set_nth. Qed.

Lemma nth_upd_nth_eq {A} n (l : list A) d f : n < length l -> nth n (upd_nth n l d f) d = f (nth n l d).
Proof. intro H. unfold upd_nth. now apply nth_set_nth_eq. Qed.

Lemma nth_upd_nth_neq {A} n m (l : list A) d f : n <> m -> nth m (upd_nth n l d f) d = nth m l d.
Proof. intro H. unfold upd_nth. now apply nth_set_nth_neq. Qed.

Lemma nth_repeat_nil {A} (n c : nat) : nth c (repeat (@nil A) n) [] = [].
Proof. revert c. induction n as [|n IH]; intros [|c]; cbn; auto. Qed.

Lemma nth_map_lt {A B} (f : A -> B) l i da db : i < length l -> nth i (map f l) db = f (nth i l da).
Proof. intro H. rewrite (nth_indep _ db (f da)); [apply map_nth|now rewrite map_length]. Qed.

Lemma nth_map_seq {B} (f : nat -> B) n i d : i < n -> nth i (map f (seq 0 n)) d = f i.
Proof.
  intro H. rewrite (nth_map_lt f _ _ 0); [|now rewrite seq_length].
  now rewrite seq_nth.
Qed.

(* ------------------------------------------------------------------ index_ofN *)

Lemma index_ofN_Some k l : forall i, index_ofN k l = Some i -> i < length l /\ nth i l 0%N = k.
Proof.
  induction l as [|x l IH]; cbn; intros i H; [discriminate|].
  destruct (N.eqb_spec k x) as [->|Hne].
  - inversion H; subst. split; [lia|reflexivity].
  - destruct (index_ofN k l) as [j|]; cbn in H; [|discriminate].
    inversion H; subst. destruct (IH j eq_refl) as [H1 H2]. split; [lia|assumption].
Qed.

Lemma index_ofN_In k l : In k l -> exists i, index_ofN k l = Some i.
Proof.
  induction l as [|x l IH]; cbn; intro H; [contradiction|].
  destruct (N.eqb_spec k x) as [->|Hne]; [eauto|].
  destruct H as [H|H]; [congruence|]. destruct (IH H) as [i ->]. cbn. eauto.
Qed.

Lemma index_ofN_nodup k l : NoDup l -> forall i, i < length l -> nth i l 0%N = k -> index_ofN k l = Some i.
Proof.
  induction 1 as [|x l Hx Hnd IH]; cbn; intros i Hi Hk; [lia|].
  destruct i as [|i].
  - subst. now rewrite N.eqb_refl.
  - destruct (N.eqb_spec k x) as [->|Hne].
    + exfalso. apply Hx. rewrite <- Hk. apply nth_In. lia.
    + rewrite (IH i); [reflexivity|lia|assumption].
Qed.

Lemma NoDup_nth_inj (l : list N) i j : NoDup l -> i < length l -> j < length l ->
  nth i l 0%N = nth j l 0%N -> i = j.
Proof. intros H Hi Hj E. eapply NoDup_nth; eauto. Qed.

(* ------------------------------------------------------------------ dedupn *)

Lemma dedupn_In l : forall seen x, In x (dedupn l seen) <-> In x l /\ ~ In x seen.
Proof.
  induction l as [|a l IH]; cbn; intros seen x; [tauto|].
  destruct (memn_spec a seen) as [Ha|Ha].
  - rewrite IH. split; [tauto|]. intros [[->|H] Hn]; tauto.
  - cbn. rewrite IH. cbn. split.
    + intros [->|[H Hn]]; [tauto|]. tauto.
    + intros [[->|H] Hn]; [tauto|]. destruct (Nat.eq_dec a x); [tauto|]. right. tauto.
Qed.

Lemma dedupn_NoDup l : forall seen, NoDup (dedupn l seen).
Proof.
  induction l as [|a l IH]; cbn; intros seen; [constructor|].
  destruct (memn a seen); [apply IH|].
  constructor; [|apply IH]. rewrite dedupn_In. cbn. tauto.
Qed.

(* ------------------------------------------------------------------ insert_by / sort_by_weight *)

Lemma insert_by_perm w x l : Permutation (insert_by w x l) (x :: l).
Proof.
  induction l as [|y l IH]; cbn [insert_by]; [reflexivity|].
  destruct (w x <? w y); [|reflexivity].
  rewrite IH. apply perm_swap.
Qed.

Lemma sort_by_weight_perm w l : Permutation (sort_by_weight w l) l.
Proof.
  unfold sort_by_weight. induction l as [|x l IH]; cbn; [reflexivity|].
  rewrite insert_by_perm. now constructor.
Qed.

Definition desc (w : nat -> nat) : list nat -> Prop := StronglySorted (fun x y => w y <= w x).

Lemma insert_by_desc w x l : desc w l -> desc w (insert_by w x l).
Proof.
  unfold desc. induction 1 as [|y l Hs IH Hy]; cbn [insert_by]; [repeat constructor|].
  destruct (Nat.ltb_spec (w x) (w y)) as [Hlt|Hge].
  - constructor; [assumption|].
    rewrite Forall_forall in *. intros z Hz.
    apply (Permutation_in _ (insert_by_perm w x l)) in Hz. destruct Hz as [<-|Hz]; [lia|auto].
  - constructor; [constructor; assumption|].
    constructor; [assumption|]. rewrite Forall_forall in *. intros z Hz. specialize (Hy z Hz). lia.
Qed.

Lemma sort_by_weight_desc w l : desc w (sort_by_weight w l).
Proof.
  unfold sort_by_weight. induction l as [|x l IH]; cbn; [constructor|]. now apply insert_by_desc.
Qed.

Lemma sort_by_weight_In w l x : In x (sort_by_weight w l) <-> In x l.
Proof.
  split; apply Permutation_in; [|symmetry]; apply sort_by_weight_perm.
Qed.

Lemma sort_by_weight_NoDup w l : NoDup l -> NoDup (sort_by_weight w l).
Proof. apply Permutation_NoDup. symmetry. apply sort_by_weight_perm. Qed.

(* ------------------------------------------------------------------ insert_sorted *)

Lemma insert_sorted_In x l y : In y (insert_sorted x l) <-> y = x \/ In y l.
Proof.
  induction l as [|a l IH]; cbn [insert_sorted In]; [intuition|].
  destruct (x <? a); cbn [In]; [intuition|].
  destruct (Nat.eqb_spec x a) as [->|Hne]; cbn [In]; [intuition|].
  rewrite IH. intuition.
Qed.

Lemma insert_sorted_sorted x l : StronglySorted lt l -> StronglySorted lt (insert_sorted x l).
Proof.
  induction 1 as [|a l Hs IH Ha]; cbn [insert_sorted]; [repeat constructor|].
  destruct (Nat.ltb_spec x a) as [Hlt|Hge].
  - constructor; [constructor; assumption|].
    constructor; [assumption|]. rewrite Forall_forall in *. intros z Hz. specialize (Ha z Hz). lia.
  - destruct (Nat.eqb_spec x a) as [->|Hne]; [constructor; assumption|].
    constructor; [assumption|].
    rewrite Forall_forall in *. intros z Hz. apply insert_sorted_In in Hz.
    destruct Hz as [->|Hz]; [lia|auto].
Qed.

Lemma sorted_lt_NoDup l : StronglySorted lt l -> NoDup l.
Proof.
  induction 1 as [|a l Hs IH Ha]; constructor; [|assumption].
  intro H. rewrite Forall_forall in Ha. specialize (Ha a H). lia.
Qed.

Lemma fold_insert_sorted_In xs : forall acc y,
  In y (fold_left (fun a x => insert_sorted x a) xs acc) <-> In y xs \/ In y acc.
Proof.
  induction xs as [|x xs IH]; cbn; intros acc y; [tauto|].
  rewrite IH, insert_sorted_In. intuition.
Qed.

Lemma fold_insert_sorted_sorted xs : forall acc,
  StronglySorted lt acc -> StronglySorted lt (fold_left (fun a x => insert_sorted x a) xs acc).
Proof.
  induction xs as [|x xs IH]; cbn; intros acc H; [assumption|]. apply IH. now apply insert_sorted_sorted.
Qed.

(* ------------------------------------------------------------------ counting *)

Lemma filter_length_le {A} (f g : A -> bool) l :
  (forall x, In x l -> f x = true -> g x = true) -> length (filter f l) <= length (filter g l).
Proof.
  induction l as [|a l IH]; cbn; intro H; [lia|].
  assert (IH' : length (filter f l) <= length (filter g l)) by (apply IH; intros; apply H; auto).
  destruct (f a) eqn:Ef.
  - rewrite (H a (or_introl eq_refl) Ef). cbn. lia.
  - destruct (g a); cbn; lia.
Qed.

Lemma filter_length_lt {A} (f g : A -> bool) l a :
  (forall x, In x l -> f x = true -> g x = true) -> In a l -> f a = false -> g a = true ->
  length (filter f l) < length (filter g l).
Proof.
  induction l as [|b l IH]; cbn; intros H Ha Hf Hg; [contradiction|].
  assert (Hle : length (filter f l) <= length (filter g l)) by (apply filter_length_le; intros; apply H; auto).
  destruct Ha as [->|Ha].
  - rewrite Hf, Hg. cbn. lia.
  - assert (IH' : length (filter f l) < length (filter g l)) by (apply IH; auto).
    destruct (f b) eqn:Ef.
    + rewrite (H b (or_introl eq_refl) Ef). cbn. lia.
    + destruct (g b); cbn; lia.
Qed.

Lemma filter_length_bound {A} (f : A -> bool) l : length (filter f l) <= length l.
Proof. induction l as [|a l IH]; cbn; [lia|]. destruct (f a); cbn; lia. Qed.

(* a duplicate-free list of numbers below n has at most n elements *)
Lemma NoDup_lt_length l n : NoDup l -> (forall x, In x l -> x < n) -> length l <= n.
Proof.
  intros Hnd Hlt. rewrite <- (seq_length n 0). apply NoDup_incl_length; [assumption|].
  intros x Hx. apply in_seq. specialize (Hlt x Hx). lia.
Qed.

(* head of filter = find *)
Lemma filter_head_find {A B} (p : A -> bool) (f : A -> B) d l :
  match filter p l with r :: _ => f r | [] => d end = match find p l with Some r => f r | None => d end.
Proof. induction l as [|a l IH]; cbn; [reflexivity|]. destruct (p a); cbn; auto. Qed.
