(* PresentCompose.v — however the registrations are split, update infers the same inheritance relation and installs
   tables that answer the same (C08). *)
From Y2 Require Import Model.Registry Model.Compile Spec.Dispatch.
From Y2 Require Import Proofs.Interfaces Proofs.LatListFacts Proofs.ResolveProofs Proofs.CompileProofs Proofs.CorollaryProofs Proofs.SpecProofs Proofs.TablesProofs Proofs.LatticeProofs.
From Coq Require Import Relations Lia.
Local Open Scope nat_scope.

(* the acceptance relation update computes (covariant classes) is the graph's "is, or derives from" *)
Theorem accepts_iff_graph G R stale C :
  presentation_of G R -> wf_registry R -> compile_with stale R = Ok C ->
  forall b d, b < ncls (o_lat C) -> d < ncls (o_lat C) ->
    (In d (cov_of (o_lat C) b) <-> clos_refl_trans N (Gedge G) (key (o_lat C) b) (key (o_lat C) d)).
Proof.
  intros HG Hwf HC b d Hb Hd.
  destruct (compile_char R stale Hwf) as [L [ms [_ [_ [HC' [Hlo _]]]]]].
  assert (EL : o_lat C = L) by (rewrite HC in HC'; inversion HC'; apply install_lat). rewrite EL in *.
  rewrite <- (anc_of_presentation G R HG). rewrite <- (cov_anc R L Hlo b d Hb Hd). symmetry. apply tg_memn_In.
Qed.

(* two presentations of the same graph with the same methods: every legal call reads words designating the same outcome *)
Theorem dispatch_presentation_independent G R R' C C' mi m m' args :
  presentation_of G R -> presentation_of G R' -> (forall c, registered R c <-> registered R' c) ->
  wf_registry R -> wf_registry R' -> compile R = Ok C -> compile R' = Ok C' ->
  nth_error (r_methods R) mi = Some m -> nth_error (r_methods R') mi = Some m' ->
  meth_vp R' m' = meth_vp R m -> meth_defs R' m' = meth_defs R m -> m_shape m' = m_shape m ->
  legal R m args ->
  exists cs cs' o,
    map (key (o_lat C)) cs = args /\ map (key (o_lat C')) cs' = args /\
    resolve C mi (actuals_of C (m_shape m) cs) = Ok (word_of_outcome mi o) /\
    resolve C' mi (actuals_of C' (m_shape m') cs') = Ok (word_of_outcome mi o).
Proof.
  intros HG HG' Hreg Hwf Hwf' HC HC' Hm Hm' Evp Edefs Esh Hlegal.
  assert (Hlegal' : legal R' m' args).
  { apply (legal_presentations G R R' m m' args HG HG' Hreg); [symmetry; exact Evp|exact Hlegal]. }
  destruct (dispatch_correct R [] C mi m args Hwf HC Hm Hlegal) as [cs [E Hr]].
  destruct (dispatch_correct R' [] C' mi m' args Hwf' HC' Hm' Hlegal') as [cs' [E' Hr']].
  exists cs, cs', (spec_dispatch R (meth_defs R m) args). repeat split; try assumption.
  rewrite Hr'. rewrite Edefs. rewrite (spec_dispatch_presentations G R R' (meth_defs R m) args HG HG' Hreg). reflexivity.
Qed.

Theorem next_presentation_independent G R R' C C' mi m m' i :
  presentation_of G R -> presentation_of G R' -> (forall c, registered R c <-> registered R' c) ->
  wf_registry R -> wf_registry R' -> compile R = Ok C -> compile R' = Ok C' ->
  nth_error (r_methods R) mi = Some m -> nth_error (r_methods R') mi = Some m' ->
  meth_defs R' m' = meth_defs R m -> i < length (m_defs m) -> length (m_defs m') = length (m_defs m) ->
  nth i (t_nexts (nth mi (o_tables C) (mk_ct [] [] [] (mk_rep 0 0 0 0 0 0) []))) CNi
  = nth i (t_nexts (nth mi (o_tables C') (mk_ct [] [] [] (mk_rep 0 0 0 0 0 0) []))) CNi.
Proof.
  intros HG HG' Hreg Hwf Hwf' HC HC' Hm Hm' Edefs Hi Hl.
  rewrite (next_correct R [] C mi m i Hwf HC Hm Hi).
  rewrite (next_correct R' [] C' mi m' i Hwf' HC' Hm' ltac:(lia)).
  rewrite Edefs. rewrite (spec_next_presentations G R R' (meth_defs R m) i HG HG' Hreg). reflexivity.
Qed.

Print Assumptions accepts_iff_graph.
Print Assumptions dispatch_presentation_independent.
Print Assumptions next_presentation_independent.
