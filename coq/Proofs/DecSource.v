(* DecSource.v — the decoder assembled from the pieces of decode_dispatch_data as TRANSLATED from decode.hpp on this run
   (Gen/GenDec.v, interpreted by Model/MiniDec.v) is Model.Codec.decode: same decoded arrays, same static v-table pointers,
   same log of reads and writes, same error when the data is malformed — for every encoded input and every registration
   context.  Structure: (1) the lambda fetch is Codec.fetch; (2) one iteration of the translated dispatch-table loop reads one
   cell, stores one definition and tells whether to go on (a generic loop lemma then covers the `while (flag)` and the
   `do ... while` forms); (3) one iteration of the translated v-table loop is one iteration of Codec.dec_entries; (4) the two
   outer loops. *)
From Coq Require Import List NArith Bool String Arith ZArith Lia.
From Y2 Require Import Model.Registry Model.Compile Gen.GenCodecConsts Model.Codec Model.MiniDec Gen.GenDec.
Import ListNotations.
Local Open Scope list_scope.
Local Open Scope nat_scope.

(* ------------------------------------------------------------------ (1) fetch *)
Section Fetch.
  Variables (E : encoded) (cells : list N) (ctx : reg_ctx) (dtoff : list nat) (mi : nat) (dt : list N).

  Lemma src_fetch st :
    call_fetch E cells ctx dt gen_fetch st
    = match Codec.fetch E cells (v_ds st) with
      | COk (v, d) => COk (v, set_ds st d)
      | CErr e => CErr e
      end.
  Proof.
    unfold call_fetch, gen_fetch, Codec.fetch.
    cbn [frun v_ds set_ds set_env].
    destruct (S (e_H E + e_S E + d_rd (v_ds st)) <? words_per_cell_ratio * length (d_words (v_ds st))); [reflexivity|].
    destruct (e_E E <=? d_rd (v_ds st)); [reflexivity|].
    destruct (e_H E + e_S E + d_rd (v_ds st) <? words_per_cell_ratio * length (d_words (v_ds st))); [reflexivity|].
    cbn. unfold has_bit, clr_bit, set_ds. cbn. destruct st; reflexivity.
  Qed.
End Fetch.

(* ------------------------------------------------------------------ (2) the dispatch-table loop *)
Section Table.
  Variables (ctx : reg_ctx) (mi : nat) (dt : list N).
  Variables (step : vstate -> cres vstate) (test : vstate -> cres bool).

  (* one iteration: reads the cell under the cursor, stores the definition it designates, advances; afterwards `test`
     says whether that cell carried no stop bit *)
  Definition table_step_spec : Prop :=
    forall st,
      match nth_error dt (v_pos st) with
      | None => step st = CErr (ReadOutside (v_pos st))
      | Some c =>
          match def_word ctx mi (clr_bit stop_bit c) with
          | CErr e => step st = CErr e
          | COk w => exists st', step st = COk st' /\ v_pos st' = S (v_pos st) /\ v_out st' = v_out st ++ [w] /\
                                 test st' = COk (negb (has_bit stop_bit c))
          end
      end.

  Hypothesis Hstep : table_step_spec.

  Definition table_agrees (r : cres (list word * nat)) (st : vstate) (got : cres vstate) : Prop :=
    match r with
    | COk (ws, p') => exists st', got = COk st' /\ v_pos st' = p' /\ v_out st' = v_out st ++ ws
    | CErr NoFuel => True
    | CErr e => got = CErr e
    end.

  Lemma do_generic : forall fuel st, table_agrees (dec_table fuel ctx mi dt (v_pos st)) st (do_loop step test fuel st).
  Proof.
    induction fuel as [|f IH]; intros st; [exact I|].
    cbn [dec_table do_loop]. pose proof (Hstep st) as H.
    destruct (nth_error dt (v_pos st)) as [c|]; [|cbn; rewrite H; reflexivity].
    destruct (def_word ctx mi (clr_bit stop_bit c)) as [w|e]; cbn [cbind].
    2:{ rewrite H. cbn. destruct e; reflexivity. }
    destruct H as (st' & Es & Ep & Eo & Et). rewrite Es. cbn [cbind]. rewrite Et. cbn [cbind].
    destruct (has_bit stop_bit c); cbn [negb].
    - cbn. exists st'. auto.
    - specialize (IH st'). rewrite Ep in IH.
      destruct (dec_table f ctx mi dt (S (v_pos st))) as [[ws p']|e]; cbn [cbind fst snd table_agrees] in *.
      + destruct IH as (st2 & E2 & P2 & O2). exists st2. split; [exact E2|]. split; [exact P2|].
        rewrite O2, Eo, <- app_assoc. reflexivity.
      + destruct e; auto.
  Qed.

  (* the `while (flag)` form: the flag is true on entry; one more test than iterations *)
  Lemma while_generic : forall fuel st, test st = COk true ->
    table_agrees (dec_table fuel ctx mi dt (v_pos st)) st (while_loop test step (S fuel) st).
  Proof.
    induction fuel as [|f IH]; intros st Ht; [exact I|].
    cbn [dec_table]. change (while_loop test step (S (S f)) st)
      with (cdo b <- test st; if b then cdo st' <- step st; while_loop test step (S f) st' else COk st).
    rewrite Ht. cbn [cbind]. pose proof (Hstep st) as H.
    destruct (nth_error dt (v_pos st)) as [c|]; [|cbn; rewrite H; reflexivity].
    destruct (def_word ctx mi (clr_bit stop_bit c)) as [w|e]; cbn [cbind].
    2:{ rewrite H. cbn. destruct e; reflexivity. }
    destruct H as (st' & Es & Ep & Eo & Et). rewrite Es. cbn [cbind].
    destruct (has_bit stop_bit c) eqn:Hb; cbn [negb] in Et.
    - cbn [while_loop]. rewrite Et. cbn. exists st'. auto.
    - specialize (IH st' Et). rewrite Ep in IH.
      destruct (dec_table f ctx mi dt (S (v_pos st))) as [[ws p']|e]; cbn [cbind fst snd table_agrees] in *.
      + destruct IH as (st2 & E2 & P2 & O2). exists st2. split; [exact E2|]. split; [exact P2|].
        rewrite O2, Eo, <- app_assoc. reflexivity.
      + destruct e; auto.
  Qed.
End Table.

(* with fuel beyond the cells that remain, the model's loop never runs out of fuel *)
Lemma dec_table_fuel ctx mi dt : forall fuel pos, length dt - pos < fuel -> dec_table fuel ctx mi dt pos <> CErr NoFuel.
Proof.
  induction fuel as [|f IH]; intros pos H; [lia|]. cbn [dec_table].
  destruct (nth_error dt pos) as [c|] eqn:En; [|discriminate].
  assert (pos < length dt) by (apply nth_error_Some; congruence).
  destruct (def_word ctx mi (clr_bit stop_bit c)) as [w|e] eqn:Ed; cbn [cbind].
  - destruct (has_bit stop_bit c); [discriminate|].
    specialize (IH (S pos) ltac:(lia)). destruct (dec_table f ctx mi dt (S pos)) as [[ws p]|e]; cbn; [discriminate|].
    intros Q. apply IH. exact Q.
  - unfold def_word in Ed. destruct (nth_error (x_nspecs ctx) mi); [|inversion Ed; discriminate].
    repeat match type of Ed with (if ?b then _ else _) = _ => destruct b end; inversion Ed; discriminate.
Qed.

(* ------------------------------------------------------------------ (2b) the translated dispatch-table loop *)
Definition E0 : encoded := mk_enc 0 0 0 0 0 [] [] [].
Definition d0 : dstate := mk_ds [] 0 false [].

Definition run_table (ctx : reg_ctx) (mi : nat) (dt : list N) (pos : nat) : cres vstate :=
  dexec E0 [] ctx [] mi dt (ds_fetch gen_dec) (S (length dt) + ds_dtbl_extra_fuel gen_dec) (ds_dtbl_loop gen_dec) (vs_of d0 pos).

(* symbolic execution of one iteration of the translated loop body against table_step_spec *)
Ltac table_simpl := cbn -[def_word nth_error N.land N.ldiff N.eqb stop_bit index_bit].
Ltac table_step :=
  let En := fresh "En" in let Ed := fresh "Ed" in
  intros [?env ?benv ?ds ?p ?out ?vp]; cbn [v_pos v_out];
  match goal with |- context [nth_error ?dt ?p] => destruct (nth_error dt p) as [?c|] eqn:En end;
  [ match goal with |- context [def_word ?c ?m ?x] => destruct (def_word c m x) as [?w|?e] eqn:Ed end;
    unfold clr_bit in Ed | ];
  repeat (table_simpl; rewrite ?En, ?Ed);
  try reflexivity;
  eexists; split; [reflexivity|]; table_simpl; unfold has_bit;
  repeat match goal with |- context [negb (negb ?b)] => rewrite (negb_involutive b) end;
  repeat split; reflexivity.

Lemma src_table ctx mi dt pos :
  table_agrees (dec_table (S (length dt)) ctx mi dt pos) (vs_of d0 pos) (run_table ctx mi dt pos).
Proof.
  unfold run_table, gen_dec, gen_dtbl_loop.
  cbn [ds_dtbl_loop ds_dtbl_extra_fuel ds_fetch dexec ceval cbind].
  first
  [ (* while (flag) { flag = ...; ... } *)
    match goal with
    | |- table_agrees _ _ (while_loop ?test ?step _ ?st1) =>
        replace (S (length dt) + 1) with (S (S (length dt))) by lia;
        change (table_agrees (dec_table (S (length dt)) ctx mi dt (v_pos st1)) st1 (while_loop test step (S (S (length dt))) st1));
        apply (while_generic ctx mi dt step test); [table_step | reflexivity]
    end
  | (* do { ... } while (...) *)
    match goal with
    | |- table_agrees _ _ (do_loop ?step ?test _ ?st1) =>
        replace (S (length dt) + 0) with (S (length dt)) by lia;
        change (table_agrees (dec_table (S (length dt)) ctx mi dt (v_pos st1)) st1 (do_loop step test (S (length dt)) st1));
        apply (do_generic ctx mi dt step test); table_step
    end ].
Qed.

(* ------------------------------------------------------------------ (3) the v-table loop *)
Section Entries.
  Variables (E : encoded) (cells : list N) (ctx : reg_ctx) (dtoff : list nat).

  (* one iteration of Codec.dec_entries *)
  Definition entry_iter (d : dstate) : cres dstate :=
    cdo r <- Codec.fetch E cells d;
    let '(code, d1) := r in
    if has_bit index_bit code then put E d1 (WIdx (N.to_nat (clr_bit index_bit code)))
    else
      let mi := N.to_nat code in
      match nth_error (x_arity ctx) mi with
      | None => CErr (BadMethodIndex mi)
      | Some a =>
          cdo r2 <- Codec.fetch E cells d1;
          let '(g, d2) := r2 in
          if a =? 1 then cdo w <- def_word ctx mi g; put E d2 w
          else put E d2 (WRow (nth mi dtoff 0 + N.to_nat g))
      end.

  Lemma dec_entries_unfold f d :
    dec_entries (S f) E cells ctx dtoff d
    = if d_last d then COk d else cdo d' <- entry_iter d; dec_entries f E cells ctx dtoff d'.
  Proof.
    cbn [dec_entries]. unfold entry_iter. destruct (d_last d); [reflexivity|].
    destruct (Codec.fetch E cells d) as [[code d1]|e]; cbn [cbind]; [|reflexivity].
    destruct (has_bit index_bit code); [destruct (put E d1 _); reflexivity|].
    destruct (nth_error (x_arity ctx) (N.to_nat code)) as [a|]; [|reflexivity].
    destruct (Codec.fetch E cells d1) as [[g d2]|e]; cbn [cbind]; [|reflexivity].
    destruct (a =? 1).
    - destruct (def_word ctx (N.to_nat code) g); cbn [cbind]; [|reflexivity]. destruct (put E d2 _); reflexivity.
    - destruct (put E d2 _); reflexivity.
  Qed.

  Variables (step : vstate -> cres vstate) (test : vstate -> cres bool).
  Hypothesis Htest : forall st, test st = COk (negb (d_last (v_ds st))).
  Hypothesis Hstep : forall st,
    match entry_iter (v_ds st) with
    | COk d' => exists st', step st = COk st' /\ v_ds st' = d' /\ v_vptr st' = v_vptr st
    | CErr e => step st = CErr e
    end.

  Lemma entries_generic : forall fuel st,
    match dec_entries fuel E cells ctx dtoff (v_ds st) with
    | COk d' => exists st', while_loop test step fuel st = COk st' /\ v_ds st' = d' /\ v_vptr st' = v_vptr st
    | CErr e => while_loop test step fuel st = CErr e
    end.
  Proof.
    induction fuel as [|f IH]; intros st; [reflexivity|].
    rewrite dec_entries_unfold. cbn [while_loop]. rewrite Htest. cbn [cbind].
    destruct (d_last (v_ds st)); cbn [negb]; [exists st; auto|].
    pose proof (Hstep st) as H. destruct (entry_iter (v_ds st)) as [d'|e]; cbn [cbind]; [|rewrite H; reflexivity].
    destruct H as (st' & Es & Ed & Ev). rewrite Es. cbn [cbind]. specialize (IH st'). rewrite Ed in IH.
    destruct (dec_entries f E cells ctx dtoff d') as [d2|e]; [|exact IH].
    destruct IH as (st2 & E2 & D2 & V2). exists st2. split; [exact E2|]. split; [exact D2|]. congruence.
  Qed.
End Entries.

(* one class of Codec.dec_classes *)
Definition class_iter (E : encoded) (cells : list N) (ctx : reg_ctx) (dtoff : list nat) (d : dstate) : cres (Z * dstate) :=
  cdo r <- Codec.fetch E cells d;
  let '(fs, d1) := r in
  cdo d2 <- dec_entries (S (e_E E)) E cells ctx dtoff d1;
  COk ((Z.of_nat (length (d_words d1)) - Z.of_N fs)%Z, d2).

Definition run_class (E : encoded) (cells : list N) (ctx : reg_ctx) (dtoff : list nat) (d : dstate) : cres vstate :=
  dexec E cells ctx dtoff 0 [] (ds_fetch gen_dec) (S (e_E E)) (ds_class_body gen_dec) (vs_of d 0).

Ltac fetch_step :=
  rewrite src_fetch; cbn [v_ds set_ds set_env set_benv];
  match goal with |- context [Codec.fetch ?E ?cells ?d] => destruct (Codec.fetch E cells d) as [[?v ?d]|?e] end;
  cbn -[def_word nth_error N.land N.ldiff N.eqb stop_bit index_bit put Codec.fetch call_fetch].

Ltac dec_simpl := cbn -[def_word nth_error N.land N.ldiff N.eqb stop_bit index_bit put Codec.fetch call_fetch Nat.eqb nth while_loop dec_entries].

Ltac entry_step :=
  let Ha := fresh "Ha" in
  intros [?env ?benv ?ds ?p ?out ?vp]; unfold entry_iter; dec_simpl;
  fetch_step; [|reflexivity];
  unfold has_bit, clr_bit;
  match goal with |- context [N.eqb (N.land ?v index_bit) 0] => destruct (N.eqb (N.land v index_bit) 0) end; dec_simpl;
  [ match goal with |- context [nth_error ?l ?i] => destruct (nth_error l i) as [?a|] eqn:Ha end; dec_simpl; [|reflexivity];
    fetch_step; [|reflexivity];
    rewrite ?Ha; dec_simpl;
    match goal with |- context [Nat.eqb ?a 1] => destruct (Nat.eqb a 1) end; dec_simpl;
    [ match goal with |- context [def_word ?c ?m ?x] => destruct (def_word c m x) as [?w|?e] end; dec_simpl; [|reflexivity] | ]
  | ];
  unfold put_word; dec_simpl;
  match goal with |- context [put ?E ?d ?w] => destruct (put E d w) as [?d|?e] end; dec_simpl;
  first [reflexivity | eexists; repeat split; reflexivity].

Lemma src_class E cells ctx dtoff d :
  match class_iter E cells ctx dtoff d with
  | COk (vp, d2) => exists st', run_class E cells ctx dtoff d = COk st' /\ v_ds st' = d2 /\ v_vptr st' = Some vp
  | CErr e => run_class E cells ctx dtoff d = CErr e
  end.
Proof.
  unfold class_iter, run_class, gen_dec, gen_class_body.
  cbn [ds_class_body ds_fetch dexec cbind].
  rewrite src_fetch. cbn [v_ds vs_of].
  destruct (Codec.fetch E cells d) as [[fs d1]|e]; cbn [cbind]; [|reflexivity].
  dec_simpl.
  match goal with
  | |- context [while_loop ?test ?step ?fuel ?st1] =>
      pose proof (entries_generic E cells ctx dtoff step test) as G
  end.
  match type of G with ?A -> ?B -> _ =>
    assert (Ht : A) by (intros [? ? ? ? ? ?]; reflexivity);
    assert (Hs : B) by entry_step;
    specialize (G Ht Hs)
  end.
  match goal with
  | |- context [while_loop ?test ?step ?fuel ?st1] => specialize (G fuel st1); cbn [v_ds v_vptr] in G
  end.
  destruct (dec_entries (S (e_E E)) E cells ctx dtoff d1) as [d2|e]; cbn [cbind].
  - destruct G as (st' & Es & Ed & Ev). exists st'. auto.
  - exact G.
Qed.

(* ------------------------------------------------------------------ (4) the outer loops, and the decoder *)
Lemma src_tables : forall arities ctx mi dt pos,
  dec_tables_src gen_dec ctx mi arities dt pos = dec_tables ctx mi arities dt pos.
Proof.
  induction arities as [|a rest IH]; intros ctx mi dt pos; [reflexivity|].
  cbn [dec_tables_src dec_tables]. destruct (1 <? a).
  - pose proof (src_table ctx mi dt pos) as H. unfold run_table, E0, d0 in H.
    pose proof (dec_table_fuel ctx mi dt (S (length dt)) pos ltac:(lia)) as Hf.
    destruct (dec_table (S (length dt)) ctx mi dt pos) as [[ws p']|e]; cbn [table_agrees cbind fst snd] in *.
    + destruct H as (st' & Es & Ep & Eo). rewrite Es. cbn [cbind]. rewrite Ep, Eo, IH. reflexivity.
    + destruct e; try (rewrite H; reflexivity). exfalso. apply Hf. reflexivity.
  - rewrite IH. reflexivity.
Qed.

Lemma dec_classes_unfold n E cells ctx dtoff d :
  dec_classes (S n) E cells ctx dtoff d
  = cdo r <- class_iter E cells ctx dtoff d;
    let '(vp, d2) := r in
    cdo more <- dec_classes n E cells ctx dtoff d2; COk (vp :: fst more, snd more).
Proof.
  cbn [dec_classes]. unfold class_iter.
  destruct (Codec.fetch E cells d) as [[fs d1]|e]; cbn [cbind]; [|reflexivity].
  destruct (dec_entries (S (e_E E)) E cells ctx dtoff d1) as [d2|e]; reflexivity.
Qed.

Lemma src_classes : forall n E cells ctx dtoff d,
  dec_classes_src gen_dec n E cells ctx dtoff d = dec_classes n E cells ctx dtoff d.
Proof.
  induction n as [|n IH]; intros E cells ctx dtoff d; [reflexivity|].
  rewrite dec_classes_unfold. cbn [dec_classes_src].
  pose proof (src_class E cells ctx dtoff d) as H. unfold run_class in H.
  destruct (class_iter E cells ctx dtoff d) as [[vp d2]|e]; cbn [cbind].
  - destruct H as (st' & Es & Ed & Ev). rewrite Es. cbn [cbind]. rewrite Ev, Ed, IH. reflexivity.
  - rewrite H. reflexivity.
Qed.

(* the decoder assembled from the code decode.hpp contains now is the model *)
Theorem src_decode : forall ctx E, decode_src gen_dec ctx E = decode ctx E.
Proof.
  intros ctx E. unfold decode_src, decode.
  destruct ((e_S E <? length (e_slots E)) || (e_E E <? length (e_vtbls E)) || (e_T E <? length (e_dtbls E))); [reflexivity|].
  destruct (dec_slots E (union_cells E) (x_arity ctx) 0) as [ss|e]; cbn [cbind]; [|reflexivity].
  rewrite src_tables.
  destruct (dec_tables ctx 0 (x_arity ctx) (pad (e_dtbls E) (e_T E)) 0) as [tb|e]; cbn [cbind]; [|reflexivity].
  rewrite src_classes. reflexivity.
Qed.

(* the theorems of C13, restated on the translated decoder *)
From Y2 Require Import Spec.Dispatch Proofs.CodecProofs.

Theorem src_roundtrip : forall R C, wf_registry R -> compile R = Ok C -> small C ->
  exists d, decode_src gen_dec (ctx_of C) (encode C) = COk d /\
    (exists junk, o_image C = dd_image d ++ junk) /\ length (dd_image d) = written C /\
    dd_ss d = o_ss C /\
    o_vptr C = map (fun z => (Z.of_nat (tables_len C) + z)%Z) (dd_vptr d).
Proof. intros R C W H S. rewrite src_decode. exact (codec_roundtrip R C W H S). Qed.

Theorem src_in_place : forall R C, wf_registry R -> compile R = Ok C -> small C ->
  exists d, decode_src gen_dec (ctx_of C) (encode C) = COk d /\
    let E := encode C in
    Forall (fun wr => 4 * S (fst wr) <= snd wr /\ fst wr < e_D E /\ snd wr <= e_H E + e_S E + e_E E) (dd_log d) /\
    length (dd_log d) = vtbls_len C /\ dd_rd d = e_E E.
Proof. intros R C W H S. rewrite src_decode. exact (codec_in_place R C W H S). Qed.
