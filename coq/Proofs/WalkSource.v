(* WalkSource.v — method::resolve_uni / resolve_multi_first / resolve_multi_next and the entry of method::resolve, as
   TRANSLATED from core.hpp on this run (Gen/GenWalk.v) and interpreted by Model/MiniWalk.v, return a word exactly
   when Model.Compile.resolve does, and the same word — for every image, every slots_strides array of the right
   length, every placement of non-virtual parameters, every mix of virtual_ptr and plain arguments, with or without
   runtime checks (programs without static offsets). *)
From Coq Require Import List Bool Arith ZArith Lia.
From Y2 Require Import Model.Registry Model.Compile Model.MiniWalk Gen.GenWalk.
Import ListNotations.
Local Open Scope nat_scope.

Definition to_opt (r : result word) : option word := match r with Ok w => Some w | Err _ => None end.

Lemma nth_error_nth_lt (l : list nat) i : i < length l -> nth_error l i = Some (nth i l 0).
Proof. revert i. induction l as [|x l IH]; intros [|i] H; cbn in *; try lia; [reflexivity|]. apply IH. lia. Qed.

Lemma nth_error_firstn_lt (l : list nat) : forall n i, i < n -> nth_error (firstn n l) i = nth_error l i.
Proof.
  induction l as [|x l IH]; intros n i H.
  - destruct n; destruct i; reflexivity.
  - destruct n as [|n]; [lia|]. destruct i as [|i]; [reflexivity|]. cbn. apply IH. lia.
Qed.

Lemma nth_error_skipn_add (l : list nat) : forall n i, nth_error (skipn n l) i = nth_error l (n + i).
Proof.
  induction l as [|x l IH]; intros n i.
  - destruct n; destruct i; reflexivity.
  - destruct n as [|n]; [reflexivity|]. cbn. apply IH.
Qed.

Section Walk.
  Variable img : list word.
  Variable ss : list nat.
  Variable arity : nat.
  Variable checks : bool.
  (* static_offsets<method>: absent, or the slots and strides that slots_strides holds *)
  Variable statics : option (list nat * list nat).
  Hypothesis Hstat : match statics with
                     | None => True
                     | Some (sl, st) => sl = firstn arity ss /\ st = skipn arity ss
                     end.

  Notation W := (walk img ss arity statics checks gen_walkfns).

  Lemma static_slot i : i < arity -> i < length ss ->
    match statics with Some (sl, _) => nth_error sl i = Some (nth i ss 0) | None => True end.
  Proof.
    intros Hi Hl. destruct statics as [[sl st]|]; [|exact I]. destruct Hstat as [-> _].
    rewrite nth_error_firstn_lt by assumption. apply nth_error_nth_lt. assumption.
  Qed.

  Lemma static_stride i : arity + i < length ss ->
    match statics with Some (_, st) => nth_error st i = Some (nth (arity + i) ss 0) | None => True end.
  Proof.
    intros Hl. destruct statics as [[sl st]|]; [|exact I]. destruct Hstat as [_ ->].
    rewrite nth_error_skipn_add. apply nth_error_nth_lt. assumption.
  Qed.

  Ltac step :=
    cbn [wexec ceval reval ieval get_local set_local as_ptr as_nat body_of wf_uni wf_first wf_next wf_vptr gen_walkfns
         vptr_eval gen_vptr f_vtbl f_slot f_stride f_dispatch andb val_eqb].

  Lemma rd_read a : rd img a = to_opt (read img a).
  Proof. unfold rd. destruct (read img a); reflexivity. Qed.

  (* ---- resolve_uni *)
  Lemma src_uni C : o_image C = img -> 1 <= length ss -> 1 <= arity ->
    forall shape acts kinds va d, W shape acts kinds FUni va d = to_opt (resolve_uni C ss shape acts).
  Proof.
    intros HC Hss Har. induction shape as [|v shape IH]; intros acts kinds va d.
    - destruct acts; reflexivity.
    - destruct acts as [|a acts]; [destruct v; reflexivity|].
      cbn [walk resolve_uni]. destruct v.
      + destruct a as [vp|]; [|reflexivity]. cbn [andb].
        change (body_of gen_walkfns FUni) with gen_resolve_uni. unfold gen_resolve_uni.
        assert (E1 : nth_error ss 0 = Some (nth 0 ss 0)) by (apply nth_error_nth_lt; lia).
        pose proof (static_slot 0 ltac:(lia) ltac:(lia)) as S0.
        destruct statics as [[sl st]|]; destruct checks; destruct (hd false kinds);
          repeat (progress (step; rewrite ?E1, ?S0, ?Nat.eqb_refl));
          rewrite rd_read, HC; destruct (read img _); reflexivity.
      + cbn [andb]. change (body_of gen_walkfns FUni) with gen_resolve_uni. unfold gen_resolve_uni. step.
        destruct a; apply IH.
  Qed.

  (* ---- resolve_multi_next *)
  Lemma src_next C : o_image C = img -> length ss = 2 * arity - 1 ->
    forall shape acts kinds va d, 1 <= va < arity ->
      W shape acts kinds FMultiNext va (Some (VPtr d)) = to_opt (resolve_multi_next C arity ss va d shape acts).
  Proof.
    intros HC Hss. induction shape as [|v shape IH]; intros acts kinds va d Hva.
    - destruct acts; reflexivity.
    - destruct acts as [|a acts]; [destruct v; reflexivity|].
      cbn [walk resolve_multi_next]. destruct v.
      + destruct a as [vp|]; [|reflexivity]. cbn [andb].
        change (body_of gen_walkfns FMultiNext) with gen_resolve_multi_next. unfold gen_resolve_multi_next.
        assert (E1 : nth_error ss va = Some (nth va ss 0)) by (apply nth_error_nth_lt; lia).
        assert (E2 : nth_error ss (arity + va - 1) = Some (nth (arity + va - 1) ss 0)) by (apply nth_error_nth_lt; lia).
        pose proof (static_slot va ltac:(lia) ltac:(lia)) as S1.
        pose proof (static_stride (va - 1) ltac:(lia)) as S2.
        replace (arity + (va - 1)) with (arity + va - 1) in S2 by lia.
        destruct statics as [[sl st]|]; destruct checks; destruct (hd false kinds);
          repeat (progress (step; rewrite ?E1, ?E2, ?S1, ?S2, ?Nat.eqb_refl));
          rewrite rd_read, HC; unfold bind;
          (match goal with |- context [read img ?a] => destruct (read img a) as [w|e] end; cbn [to_opt]; [|reflexivity]);
          (destruct w; step; try reflexivity);
          rewrite Nat.add_1_r;
          (destruct (Nat.eqb_spec (S va) arity) as [Ea|Ea]; step).
          all: try (rewrite Nat2Z.inj_mul; apply IH; lia).
          all: rewrite rd_read, ?HC, Nat2Z.inj_mul.
          all: match goal with |- context [read img ?a] => destruct (read img a) end; reflexivity.
      + cbn [andb]. change (body_of gen_walkfns FMultiNext) with gen_resolve_multi_next. unfold gen_resolve_multi_next. step.
        destruct a; apply IH; assumption.
  Qed.

  (* ---- resolve_multi_first *)
  Lemma src_first C : o_image C = img -> length ss = 2 * arity - 1 -> 2 <= arity ->
    forall shape acts kinds va d,
      W shape acts kinds FMultiFirst va d = to_opt (resolve_multi_first C arity ss shape acts).
  Proof.
    intros HC Hss Har. induction shape as [|v shape IH]; intros acts kinds va d.
    - destruct acts; reflexivity.
    - destruct acts as [|a acts]; [destruct v; reflexivity|].
      cbn [walk resolve_multi_first]. destruct v.
      + destruct a as [vp|]; [|reflexivity]. cbn [andb].
        change (body_of gen_walkfns FMultiFirst) with gen_resolve_multi_first. unfold gen_resolve_multi_first.
        assert (E1 : nth_error ss 0 = Some (nth 0 ss 0)) by (apply nth_error_nth_lt; lia).
        pose proof (static_slot 0 ltac:(lia) ltac:(lia)) as S0.
        pose proof (src_next C HC Hss) as Hnext.
        destruct statics as [[sl st]|]; destruct checks; destruct (hd false kinds);
          repeat (progress (step; rewrite ?E1, ?S0, ?Nat.eqb_refl));
          rewrite rd_read, HC; unfold bind;
          (match goal with |- context [read img ?a] => destruct (read img a) as [w|e] end; cbn [to_opt]; [|reflexivity]);
          (destruct w; step; try reflexivity);
          apply Hnext; lia.
      + cbn [andb]. change (body_of gen_walkfns FMultiFirst) with gen_resolve_multi_first. unfold gen_resolve_multi_first. step.
        destruct a; apply IH.
  Qed.
End Walk.

(* ---- method::resolve *)
Definition statics_agree (arity : nat) (ss : list nat) (statics : option (list nat * list nat)) : Prop :=
  match statics with
  | None => True
  | Some (sl, st) => sl = firstn arity ss /\ st = skipn arity ss
  end.

Theorem src_resolve_static C mi acts kinds checks statics :
  let m := nth mi (o_meths C) (mk_cmeth [] [] [] []) in
  let ss := nth mi (o_ss C) [] in
  let arity := length (cm_vp m) in
  1 <= arity -> length ss = 2 * arity - 1 -> statics_agree arity ss statics ->
  walk_resolve (o_image C) ss arity statics checks gen_walkfns gen_entry (cm_shape m) acts kinds
  = to_opt (resolve C mi acts).
Proof.
  intros m ss arity Har Hss Hst. unfold walk_resolve, gen_entry, resolve. fold m ss arity.
  destruct (Nat.eqb_spec arity 1) as [E|E].
  - apply src_uni; [exact Hst|reflexivity|lia|lia].
  - apply src_first; [exact Hst|reflexivity|assumption|lia].
Qed.

Theorem src_resolve C mi acts kinds checks :
  let m := nth mi (o_meths C) (mk_cmeth [] [] [] []) in
  let ss := nth mi (o_ss C) [] in
  let arity := length (cm_vp m) in
  1 <= arity -> length ss = 2 * arity - 1 ->
  walk_resolve (o_image C) ss arity None checks gen_walkfns gen_entry (cm_shape m) acts kinds
  = to_opt (resolve C mi acts).
Proof. intros m ss arity Har Hss. apply src_resolve_static; [assumption|assumption|exact I]. Qed.
