(* RepSource.v — the arithmetic around the dispatch tables as TRANSLATED from detail/compiler.hpp on this run (Gen/GenRep.v,
   interpreted by Model/MiniRep.v) computes what Model.Compile computes: the strides of a method, the cells / concrete_cells
   of its report, and the accumulation of a method's report into the update's. *)
From Coq Require Import List NArith Bool Arith String Lia.
From Y2 Require Import Model.Registry Model.Compile Model.MiniRep Gen.GenRep.
Import ListNotations.
Local Open Scope list_scope.
Local Open Scope nat_scope.

Lemma fold_mul_acc : forall (l : list nat) a, fold_left Nat.mul l a = a * fold_left Nat.mul l 1.
Proof.
  induction l as [|x r IH]; intros a; cbn [fold_left]; [lia|].
  rewrite (IH (a * x)), (IH (1 * x)). lia.
Qed.

Lemma prod_list_snoc l x : prod_list (l ++ [x]) = prod_list l * x.
Proof. unfold prod_list. rewrite fold_left_app. cbn. reflexivity. Qed.

Lemma firstn_snoc_nth {A} (l : list A) : forall k x, nth_error l k = Some x -> firstn (S k) l = firstn k l ++ [x].
Proof.
  induction l as [|y r IH]; intros [|k] x H; cbn in *; try discriminate.
  - inversion H. reflexivity.
  - rewrite (IH k x H). reflexivity.
Qed.

(* ------------------------------------------------------------------ accumulate *)
Theorem src_accumulate groups arity rep : forall tot p,
  aexec groups arity p gen_accumulate None (as0 rep tot) = Some (mk_as [] rep (accumulate tot p) []).
Proof.
  intros [a b c d e f] [a' b' c' d' e' f']. unfold gen_accumulate, accumulate, as0.
  cbn -[Nat.eqb Nat.add]. reflexivity.
Qed.

(* ------------------------------------------------------------------ report.cells / concrete_cells *)
Lemma cells_loop (step : list (N * bool) -> astate -> option astate) (f : pfield) (measure : list (N * bool) -> nat)
      (Hbody : forall g s, exists env', step g s
                           = Some (mk_as env' (rep_set (s_report s) f (rep_get (s_report s) f * measure g)) (s_total s) (s_strides s))) :
  forall gs s, exists env', groups_loop_ step gs s
               = Some (mk_as env' (rep_set (s_report s) f (rep_get (s_report s) f * prod_list (map measure gs))) (s_total s) (s_strides s)).
Proof.
  induction gs as [|g r IH]; intros s; cbn [groups_loop_ map].
  - exists (s_env s). unfold prod_list. cbn. rewrite Nat.mul_1_r. destruct s as [e [a b c d e' f'] t st]; destruct f; reflexivity.
  - destruct (Hbody g s) as [env1 E1]. rewrite E1.
    destruct (IH (mk_as env1 (rep_set (s_report s) f (rep_get (s_report s) f * measure g)) (s_total s) (s_strides s))) as [env2 E2].
    rewrite E2. exists env2. cbn [s_report s_total s_strides]. f_equal. f_equal.
    unfold prod_list. cbn [fold_left]. rewrite (fold_mul_acc _ (1 * measure g)).
    destruct (s_report s) as [a b c d e' f']; destruct f; cbn; f_equal; lia.
Qed.

Ltac cells_body := let g := fresh "g" in intros g [? [? ? ? ? ? ?] ? ?]; eexists; cbn; reflexivity.

Theorem src_cells groups p rep tot :
  let sizes := map (@length _) groups in
  let dims := length groups in
  exists env', aexec groups dims p gen_cells None (as0 rep tot)
    = Some (mk_as env'
              (if 1 <? dims
               then rep_set (rep_set rep PCells (prod_list sizes)) PConcreteCells (prod_list (map (fun gs => length (filter snd gs)) groups))
               else rep)
              tot []).
Proof.
  cbv zeta. unfold gen_cells. cbn [aexec].
  destruct (1 <? length groups) eqn:Ed; [|exists []; reflexivity].
  cbn [aexec aeval lset as0 s_env s_report s_total s_strides].
  match goal with |- context [groups_loop_ ?st groups ?s1] =>
    destruct (cells_loop st PCells (@length _) ltac:(cells_body) groups s1) as [env1 E1]
  end.
  rewrite E1. cbn [aexec aeval lset s_env s_report s_total s_strides].
  match goal with |- context [groups_loop_ ?st groups ?s1] =>
    destruct (cells_loop st PConcreteCells (fun gs => length (filter snd gs)) ltac:(cells_body) groups s1) as [env2 E2]
  end.
  rewrite E2. exists env2. cbn [s_report s_total s_strides]. f_equal. f_equal.
  destruct rep as [a b c d e f]. cbn. rewrite !Nat.add_0_r. reflexivity.
Qed.

(* ------------------------------------------------------------------ strides *)
Section Strides.
  Variables (groups : list (list (N * bool))).
  Let sizes := map (@length _) groups.
  Variable off : nat.           (* the loop variable runs `off` ahead of the index of the groups it multiplies by *)
  Variable step : nat -> astate -> option astate.
  Hypothesis Hstep : forall i s k g, env_get (s_env s) "stride" = Some k -> nth_error groups (i - off) = Some g ->
    exists env', step i s = Some (mk_as env' (s_report s) (s_total s) (s_strides s ++ [k * length g])) /\
                 env_get env' "stride" = Some (k * length g).

  Lemma strides_loop : forall n i s, off <= i -> i - off + n <= length groups ->
    env_get (s_env s) "stride" = Some (prod_list (firstn (i - off) sizes)) ->
    exists env', dim_loop step n i s
                 = Some (mk_as env' (s_report s) (s_total s) (s_strides s ++ map (fun d => prod_list (firstn d sizes)) (seq (S (i - off)) n))).
  Proof.
    induction n as [|n IH]; intros i s Hi Hn He; cbn [dim_loop seq map].
    - exists (s_env s). rewrite app_nil_r. destruct s; reflexivity.
    - destruct (nth_error groups (i - off)) as [g|] eqn:Eg.
      2:{ apply nth_error_None in Eg. lia. }
      destruct (Hstep i s _ g He Eg) as (env1 & E1 & S1). rewrite E1.
      assert (Hp : prod_list (firstn (i - off) sizes) * length g = prod_list (firstn (S (i - off)) sizes)).
      { rewrite (firstn_snoc_nth sizes (i - off) (length g)) by (unfold sizes; apply map_nth_error; exact Eg).
        rewrite prod_list_snoc. reflexivity. }
      destruct (IH (S i) (mk_as env1 (s_report s) (s_total s) (s_strides s ++ [prod_list (firstn (i - off) sizes) * length g]))) as [env2 E2].
      { lia. } { lia. }
      { cbn [s_env]. rewrite S1. replace (S i - off) with (S (i - off)) by lia. f_equal. exact Hp. }
      rewrite E2. exists env2. cbn [s_report s_total s_strides]. replace (S i - off) with (S (i - off)) by lia.
      rewrite Hp, <- app_assoc. reflexivity.
  Qed.
End Strides.

Ltac stride_step :=
  let He := fresh "He" in let Eg := fresh "Eg" in
  intros ?i [?env ?r ?t ?st] ?k ?g He Eg;
  cbn [aexec aeval lset lget s_env s_report s_total s_strides env_get String.eqb Ascii.eqb Bool.eqb];
  cbn [s_env] in He; rewrite ?He;
  cbn [aexec aeval lset lget s_env s_report s_total s_strides env_get String.eqb Ascii.eqb Bool.eqb];
  rewrite ?Nat.sub_0_r in *; rewrite ?Eg;
  cbn [aexec aeval lset lget s_env s_report s_total s_strides env_get String.eqb Ascii.eqb Bool.eqb];
  eexists; split; reflexivity.

Theorem src_strides groups p rep tot :
  let sizes := map (@length _) groups in
  let dims := length groups in
  exists env', aexec groups dims p gen_strides None (as0 rep tot)
    = Some (mk_as env' rep tot (map (fun d => prod_list (firstn d sizes)) (seq 1 (dims - 1)))).
Proof.
  cbv zeta. unfold gen_strides. cbn [aexec aeval lset as0 s_env s_report s_total s_strides env_get String.eqb Ascii.eqb Bool.eqb].
  rewrite ?Nat.sub_0_r.
  match goal with |- context [dim_loop ?st ?cnt ?i0 ?s1] =>
    first [ pose proof (fun H => strides_loop groups i0 st H cnt i0 s1) as SL;
            assert (SL' := SL ltac:(stride_step)); clear SL
          | fail 1 "the loop over the dimensions is not one of the two accepted forms" ]
  end.
  destruct SL' as [env' E]; [lia | lia | rewrite Nat.sub_diag; reflexivity |].
  rewrite Nat.sub_diag in E. rewrite E. exists env'. reflexivity.
Qed.

(* ------------------------------------------------------------------ on the groups of a method: Model.Compile.build_method *)
Lemma groups_length L m : length (map (groups_of L m) (seq 0 (length (cm_vp m)))) = length (cm_vp m).
Proof. rewrite map_length, seq_length. reflexivity. Qed.

Theorem src_method_strides L m p rep tot :
  let groups := map (groups_of L m) (seq 0 (length (cm_vp m))) in
  exists env', aexec groups (length (cm_vp m)) p gen_strides None (as0 rep tot)
               = Some (mk_as env' rep tot (t_strides (build_method L m))).
Proof.
  cbv zeta. destruct (src_strides (map (groups_of L m) (seq 0 (length (cm_vp m)))) p rep tot) as [env' E].
  rewrite groups_length in E. exists env'. rewrite E. reflexivity.
Qed.

Theorem src_method_cells L m p tot ni amb cni camb :
  let groups := map (groups_of L m) (seq 0 (length (cm_vp m))) in
  let r := t_report (build_method L m) in
  exists env', aexec groups (length (cm_vp m)) p gen_cells None (as0 (mk_rep 0 0 ni amb cni camb) tot)
               = Some (mk_as env' (mk_rep (rp_cells r) (rp_ccells r) ni amb cni camb) tot []).
Proof.
  cbv zeta. destruct (src_cells (map (groups_of L m) (seq 0 (length (cm_vp m)))) p (mk_rep 0 0 ni amb cni camb) tot) as [env' E].
  rewrite groups_length in E. exists env'. rewrite E. f_equal. f_equal.
  unfold build_method. cbn [t_report rp_cells rp_ccells].
  destruct (1 <? length (cm_vp m)); reflexivity.
Qed.
