(* LatOrder.v — the second half of augment_classes, over an abstract table tb2 of a strict partial order
   (duplicate-free lists of proper ancestors): weights, sort by weight, direct bases by the marking pass,
   direct derived classes, covariant classes. *)
From Coq Require Import List Arith NArith Lia Bool Permutation Sorting.Sorted.
From Y2 Require Import Model.Registry Model.Compile Proofs.LatListFacts Proofs.LatClosure.
Import ListNotations.
Local Open Scope nat_scope.

Lemma tget_map (f : list nat -> list nat) tb c : f [] = [] -> tget (map f tb) c = f (tget tb c).
Proof. intro H. unfold tget. rewrite <- H at 1. apply map_nth. Qed.

Lemma tget_map_seq (f : nat -> list nat) n c : c < n -> tget (map f (seq 0 n)) c = f c.
Proof. intro H. unfold tget. now apply nth_map_seq. Qed.

Lemma tget_map_seq_oob (f : nat -> list nat) n c : n <= c -> tget (map f (seq 0 n)) c = [].
Proof. intro H. unfold tget. apply nth_overflow. now rewrite map_length, seq_length. Qed.

(* the tables augment_classes builds from tb2 *)
Definition weight_of (tb2 : list (list nat)) (c : nat) : nat := length (nth c tb2 []).
Definition tb3_of (tb2 : list (list nat)) : list (list nat) := map (sort_by_weight (weight_of tb2)) tb2.
Definition direct_tbl (tb2 : list (list nat)) : list (list nat) := map (direct_of tb2) (tb3_of tb2).
Definition derived_tbl (n : nat) (tb2 : list (list nat)) : list (list nat) :=
  map (derived_of (direct_tbl tb2)) (seq 0 n).
Definition cov_tbl (n : nat) (tb2 : list (list nat)) : list (list nat) :=
  map (covariant n (derived_tbl n tb2)) (seq 0 n).

(* ------------------------------------------------------------------ the marking pass *)

Definition dstep (tb : list (list nat)) (acc : list nat * list nat) : nat -> list nat * list nat :=
  let '(dir, marked) := acc in
  fun b => if memn b marked then (dir, marked) else (dir ++ [b], marked ++ nth b tb []).

Lemma direct_of_eq tb l : direct_of tb l = fst (fold_left (dstep tb) l ([], [])).
Proof. reflexivity. Qed.

Lemma desc_app_le w p b l : desc w (p ++ b :: l) -> forall d, In d p -> w b <= w d.
Proof.
  unfold desc. induction p as [|a p IH]; cbn [app]; intros H d Hd; [contradiction|].
  apply StronglySorted_inv in H. destruct H as [H1 H2]. destruct Hd as [->|Hd]; [|now apply IH].
  rewrite Forall_forall in H2. apply H2. apply in_or_app. right. now left.
Qed.

Section Order.
  Variable n : nat.
  Variable tb2 : list (list nat).
  Hypothesis Hlen : length tb2 = n.
  Hypothesis Hlt : forall c b, In b (tget tb2 c) -> b < n.
  Hypothesis Hnd : forall c, NoDup (tget tb2 c).
  Hypothesis Hirr : forall c, ~ In c (tget tb2 c).
  Hypothesis Htr : forall a b c, In a (tget tb2 b) -> In b (tget tb2 c) -> In a (tget tb2 c).

  Let w := weight_of tb2.

  Lemma Hltc c b : In b (tget tb2 c) -> c < n.
  Proof. intro H. apply tget_lt in H. now rewrite Hlen in H. Qed.

  Lemma weight_lt b c : In b (tget tb2 c) -> w b < w c.
  Proof.
    intro H. unfold w, weight_of. fold (tget tb2 b). fold (tget tb2 c).
    assert (Hle : length (b :: tget tb2 b) <= length (tget tb2 c)).
    { apply NoDup_incl_length.
      - constructor; [apply Hirr|apply Hnd].
      - intros x [<-|Hx]; [assumption|]. now apply (Htr x b c). }
    cbn [length] in Hle. lia.
  Qed.

  Lemma weight_le_n c : w c <= n.
  Proof. unfold w, weight_of. fold (tget tb2 c). apply NoDup_lt_length; [apply Hnd|apply Hlt]. Qed.

  (* ---------------------------------------------------------------- tb3 *)

  Lemma tget_tb3 c : tget (tb3_of tb2) c = sort_by_weight w (tget tb2 c).
  Proof. unfold tb3_of. now apply tget_map. Qed.

  Lemma tb3_In c b : In b (tget (tb3_of tb2) c) <-> In b (tget tb2 c).
  Proof. rewrite tget_tb3. apply sort_by_weight_In. Qed.

  Lemma tb3_NoDup c : NoDup (tget (tb3_of tb2) c).
  Proof. rewrite tget_tb3. apply sort_by_weight_NoDup, Hnd. Qed.

  Lemma length_tb3 : length (tb3_of tb2) = n.
  Proof. unfold tb3_of. now rewrite map_length. Qed.

  (* ---------------------------------------------------------------- direct *)

  Definition dinv (p : list nat) (acc : list nat * list nat) : Prop :=
    (forall x, In x (fst acc) -> In x p) /\
    (forall x, In x (snd acc) <-> exists d, In d (fst acc) /\ In x (tget tb2 d)) /\
    (forall x, In x p -> In x (fst acc) \/ In x (snd acc)) /\
    NoDup (fst acc) /\
    (forall a b, In a (fst acc) -> In b (fst acc) -> ~ In a (tget tb2 b)).

  Lemma dstep_inv p acc b : dinv p acc -> ~ In b p -> (forall d, In d p -> w b <= w d) ->
    dinv (p ++ [b]) (dstep tb2 acc b).
  Proof.
    destruct acc as [dir marked]. intros [I1 [I2 [I3 [I4 I5]]]] Hb Hw. cbn [fst snd] in *.
    unfold dstep. destruct (memn_spec b marked) as [Hm|Hm]; unfold dinv; cbn [fst snd].
    - repeat split; try assumption.
      + intros x Hx. apply in_or_app. auto.
      + apply I2.
      + apply I2.
      + intros x Hx. apply in_app_or in Hx. destruct Hx as [Hx|[<-|[]]]; auto.
    - fold (tget tb2 b). repeat split.
      + intros x Hx. apply in_app_or in Hx. apply in_or_app. destruct Hx as [Hx|Hx]; auto.
      + intro Hx. apply in_app_or in Hx. destruct Hx as [Hx|Hx].
        * apply I2 in Hx. destruct Hx as [d [Hd Hx]]. exists d. split; [apply in_or_app; auto|assumption].
        * exists b. split; [apply in_or_app; right; now left|assumption].
      + intros [d [Hd Hx]]. apply in_or_app. apply in_app_or in Hd. destruct Hd as [Hd|[<-|[]]]; [|auto].
        left. apply I2. eauto.
      + intros x Hx. apply in_app_or in Hx. destruct Hx as [Hx|[<-|[]]].
        * destruct (I3 x Hx) as [H|H]; [left|right]; apply in_or_app; auto.
        * left. apply in_or_app. right. now left.
      + apply (Permutation_NoDup (Permutation_cons_append dir b)). constructor; [|assumption].
        intro H. apply Hb. now apply I1.
      + intros a b' Ha Hb'. apply in_app_or in Ha. apply in_app_or in Hb'.
        destruct Ha as [Ha|[<-|[]]]; destruct Hb' as [Hb'|[<-|[]]].
        * now apply I5.
        * intro H. apply weight_lt in H. specialize (Hw a (I1 a Ha)). lia.
        * intro H. apply Hm. apply I2. eauto.
        * apply Hirr.
  Qed.

  Lemma dfold_inv l : forall p acc, NoDup (p ++ l) -> desc w (p ++ l) -> dinv p acc ->
    dinv (p ++ l) (fold_left (dstep tb2) l acc).
  Proof.
    induction l as [|b l IH]; intros p acc Hn Hs Hi; cbn [fold_left].
    - now rewrite app_nil_r.
    - replace (p ++ b :: l) with ((p ++ [b]) ++ l) in * by (rewrite <- app_assoc; reflexivity).
      apply IH; try assumption.
      apply dstep_inv; [assumption| |].
      + rewrite <- app_assoc in Hn. cbn [app] in Hn. apply NoDup_remove_2 in Hn.
        intro H. apply Hn. apply in_or_app. auto.
      + rewrite <- app_assoc in Hs. cbn [app] in Hs. now apply (desc_app_le w p b l).
  Qed.

  Lemma direct_of_spec l : NoDup l -> desc w l ->
    (forall x, In x (direct_of tb2 l) -> In x l) /\
    (forall x, In x l -> In x (direct_of tb2 l) \/ exists d, In d (direct_of tb2 l) /\ In x (tget tb2 d)) /\
    NoDup (direct_of tb2 l) /\
    (forall a b, In a (direct_of tb2 l) -> In b (direct_of tb2 l) -> ~ In a (tget tb2 b)).
  Proof.
    intros Hn Hs. rewrite direct_of_eq.
    assert (H0 : dinv [] ([], [])).
    { unfold dinv. cbn [fst snd]. split; [intros x []|].
      split; [intro x; split; [intros []|intros [d [[] _]]]|].
      split; [intros x []|]. split; [constructor|intros a b []]. }
    pose proof (dfold_inv l [] ([], []) Hn Hs H0) as [I1 [I2 [I3 [I4 I5]]]]. cbn [app] in *.
    repeat split; try assumption.
    intros x Hx. destruct (I3 x Hx) as [H|H]; [auto|]. right. now apply I2.
  Qed.

  Lemma tget_direct c : tget (direct_tbl tb2) c = direct_of tb2 (tget (tb3_of tb2) c).
  Proof. unfold direct_tbl. now apply tget_map. Qed.

  Lemma length_direct : length (direct_tbl tb2) = n.
  Proof. unfold direct_tbl. now rewrite map_length, length_tb3. Qed.

  Lemma direct_spec c :
    (forall x, In x (tget (direct_tbl tb2) c) -> In x (tget tb2 c)) /\
    (forall x, In x (tget tb2 c) ->
               In x (tget (direct_tbl tb2) c) \/ exists d, In d (tget (direct_tbl tb2) c) /\ In x (tget tb2 d)) /\
    NoDup (tget (direct_tbl tb2) c) /\
    (forall a b, In a (tget (direct_tbl tb2) c) -> In b (tget (direct_tbl tb2) c) -> ~ In a (tget tb2 b)).
  Proof.
    rewrite tget_direct.
    destruct (direct_of_spec (tget (tb3_of tb2) c)) as [D1 [D2 [D3 D4]]].
    - apply tb3_NoDup.
    - rewrite tget_tb3. apply sort_by_weight_desc.
    - repeat split; try assumption.
      + intros x Hx. apply tb3_In. now apply D1.
      + intros x Hx. apply D2. now apply tb3_In.
  Qed.

  Lemma direct_sub c x : In x (tget (direct_tbl tb2) c) -> In x (tget tb2 c).
  Proof. apply (direct_spec c). Qed.

  (* ---------------------------------------------------------------- derived *)

  Lemma derived_In b d : In d (tget (derived_tbl n tb2) b) <-> d < n /\ In b (tget (direct_tbl tb2) d).
  Proof.
    unfold derived_tbl. destruct (Nat.lt_ge_cases b n) as [Hb|Hb].
    - rewrite tget_map_seq by assumption. unfold derived_of. rewrite filter_In, in_seq, memn_In, length_direct.
      fold (tget (direct_tbl tb2) d). intuition lia.
    - rewrite tget_map_seq_oob by assumption. split; [intros []|].
      intros [_ H]. apply direct_sub in H. apply Hlt in H. lia.
  Qed.

  Lemma derived_NoDup b : NoDup (tget (derived_tbl n tb2) b).
  Proof.
    unfold derived_tbl. destruct (Nat.lt_ge_cases b n) as [Hb|Hb].
    - rewrite tget_map_seq by assumption. unfold derived_of. apply NoDup_filter, seq_NoDup.
    - rewrite tget_map_seq_oob by assumption. constructor.
  Qed.

  Lemma length_derived : length (derived_tbl n tb2) = n.
  Proof. unfold derived_tbl. now rewrite map_length, seq_length. Qed.

  (* ---------------------------------------------------------------- covariant *)

  Let derived := derived_tbl n tb2.

  Lemma cov_outer_In (g : nat -> list nat) ds : forall acc x,
    In x (fold_left (fun acc d => fold_left (fun a y => insert_sorted y a) (g d) acc) ds acc) <->
    In x acc \/ exists d, In d ds /\ In x (g d).
  Proof.
    induction ds as [|d ds IH]; cbn [fold_left]; intros acc x.
    - split; [auto|]. intros [H|[d [[] _]]]. assumption.
    - rewrite IH, fold_insert_sorted_In. split.
      + intros [[H|H]|[d' [H1 H2]]]; [right; exists d; cbn; auto|auto|right; exists d'; cbn; auto].
      + intros [H|[d' [[<-|H1] H2]]]; [auto|auto|right; eauto].
  Qed.

  Lemma cov_outer_sorted (g : nat -> list nat) ds : forall acc, StronglySorted lt acc ->
    StronglySorted lt (fold_left (fun acc d => fold_left (fun a y => insert_sorted y a) (g d) acc) ds acc).
  Proof.
    induction ds as [|d ds IH]; cbn [fold_left]; intros acc H; [assumption|].
    apply IH. now apply fold_insert_sorted_sorted.
  Qed.

  Lemma cov_S_In f c x : In x (covariant (S f) derived c) <->
    x = c \/ exists d, In d (tget derived c) /\ In x (covariant f derived d).
  Proof.
    cbn [covariant]. rewrite (cov_outer_In (covariant f derived)). cbn [In]. unfold tget. intuition.
  Qed.

  Lemma cov_self f c : In c (covariant f derived c).
  Proof. destruct f; [now left|]. apply cov_S_In. now left. Qed.

  Lemma cov_sorted f c : StronglySorted lt (covariant f derived c).
  Proof.
    destruct f; cbn [covariant]; [repeat constructor|].
    apply (cov_outer_sorted (covariant f derived)). repeat constructor.
  Qed.

  Lemma cov_sound f : forall c x, c < n -> In x (covariant f derived c) -> x < n /\ (x = c \/ In c (tget tb2 x)).
  Proof.
    induction f as [|f IH]; intros c x Hc Hx.
    - destruct Hx as [<-|[]]. auto.
    - apply cov_S_In in Hx. destruct Hx as [->|[d [Hd Hx]]]; [auto|].
      apply derived_In in Hd. destruct Hd as [Hdn Hd]. apply direct_sub in Hd.
      destruct (IH d x Hdn Hx) as [Hxn [->|H]]; [auto|].
      split; [assumption|]. right. now apply (Htr c d x).
  Qed.

  (* every proper descendant is reached through a direct-derived step *)
  Lemma first_step : forall k x c, w x <= k -> In c (tget tb2 x) ->
    exists d, In c (tget (direct_tbl tb2) d) /\ (d = x \/ In d (tget tb2 x)).
  Proof.
    induction k as [|k IH]; intros x c Hk Hc.
    - apply weight_lt in Hc. lia.
    - destruct (direct_spec x) as [_ [D2 _]]. destruct (D2 c Hc) as [H|[d' [Hd' Hcd']]].
      + exists x. auto.
      + apply direct_sub in Hd'. assert (Hw := weight_lt d' x Hd').
        destruct (IH d' c) as [d [H1 H2]]; [lia|assumption|].
        exists d. split; [assumption|]. right. destruct H2 as [->|H2]; [assumption|]. now apply (Htr d d' x).
  Qed.

  Lemma cov_complete f : forall c x, In c (tget tb2 x) -> w x - w c <= f -> In x (covariant f derived c).
  Proof.
    induction f as [|f IH]; intros c x Hc Hf.
    - apply weight_lt in Hc. lia.
    - destruct (first_step (w x) x c (le_n _) Hc) as [d [Hd Hdx]].
      apply cov_S_In. right. exists d. split.
      + apply derived_In. split; [|assumption]. destruct Hdx as [->|Hdx]; [now apply (Hltc x c)|now apply (Hlt x d)].
      + destruct Hdx as [->|Hdx]; [apply cov_self|].
        apply IH; [assumption|]. apply direct_sub in Hd. apply weight_lt in Hd. lia.
  Qed.

  Lemma tget_cov c : c < n -> tget (cov_tbl n tb2) c = covariant n derived c.
  Proof. intro H. unfold cov_tbl. now rewrite tget_map_seq. Qed.

  Lemma cov_In c d : c < n -> (In d (tget (cov_tbl n tb2) c) <-> d < n /\ (d = c \/ In c (tget tb2 d))).
  Proof.
    intro Hc. rewrite tget_cov by assumption. split.
    - now apply cov_sound.
    - intros [Hd [->|H]]; [apply cov_self|]. apply cov_complete; [assumption|].
      pose proof (weight_le_n d). lia.
  Qed.

  Lemma cov_NoDup c : NoDup (tget (cov_tbl n tb2) c).
  Proof.
    destruct (Nat.lt_ge_cases c n) as [Hc|Hc].
    - rewrite tget_cov by assumption. apply sorted_lt_NoDup, cov_sorted.
    - unfold cov_tbl. rewrite tget_map_seq_oob by assumption. constructor.
  Qed.

  Lemma length_cov : length (cov_tbl n tb2) = n.
  Proof. unfold cov_tbl. now rewrite map_length, seq_length. Qed.
End Order.

(* ------------------------------------------------------------------ everything the assembly needs, in one record *)

Record order_facts (n : nat) (tb2 : list (list nat)) : Prop := {
  of_tb3_In : forall c b, In b (tget (tb3_of tb2) c) <-> In b (tget tb2 c);
  of_tb3_NoDup : forall c, NoDup (tget (tb3_of tb2) c);
  of_len_tb3 : length (tb3_of tb2) = n;
  of_len_direct : length (direct_tbl tb2) = n;
  of_len_derived : length (derived_tbl n tb2) = n;
  of_len_cov : length (cov_tbl n tb2) = n;
  of_direct_sub : forall c x, In x (tget (direct_tbl tb2) c) -> In x (tget tb2 c);
  of_direct_max : forall c x, In x (tget tb2 c) ->
      In x (tget (direct_tbl tb2) c) \/ exists d, In d (tget (direct_tbl tb2) c) /\ In x (tget tb2 d);
  of_direct_NoDup : forall c, NoDup (tget (direct_tbl tb2) c);
  of_direct_inc : forall c a b, In a (tget (direct_tbl tb2) c) -> In b (tget (direct_tbl tb2) c) -> ~ In a (tget tb2 b);
  of_derived_In : forall b d, In d (tget (derived_tbl n tb2) b) <-> d < n /\ In b (tget (direct_tbl tb2) d);
  of_derived_NoDup : forall b, NoDup (tget (derived_tbl n tb2) b);
  of_cov_In : forall c d, c < n -> (In d (tget (cov_tbl n tb2) c) <-> d < n /\ (d = c \/ In c (tget tb2 d)));
  of_cov_NoDup : forall c, NoDup (tget (cov_tbl n tb2) c)
}.

Theorem order_facts_hold n tb2 :
  length tb2 = n ->
  (forall c b, In b (tget tb2 c) -> b < n) ->
  (forall c, NoDup (tget tb2 c)) ->
  (forall c, ~ In c (tget tb2 c)) ->
  (forall a b c, In a (tget tb2 b) -> In b (tget tb2 c) -> In a (tget tb2 c)) ->
  order_facts n tb2.
Proof.
  intros Hlen Hlt Hnd Hirr Htr.
  pose proof (direct_spec n tb2 Hlen Hnd Hirr Htr) as D.
  constructor.
  - now apply tb3_In.
  - now apply tb3_NoDup.
  - now apply length_tb3.
  - now apply length_direct.
  - now apply length_derived.
  - now apply length_cov.
  - intros c. apply (D c).
  - intros c. apply (D c).
  - intros c. apply (D c).
  - intros c. apply (D c).
  - now apply derived_In.
  - now apply derived_NoDup.
  - now apply cov_In.
  - now apply cov_NoDup.
Qed.
