(* TablesProofs.v — stage 4 of the model (build_dispatch_tables): the results other files use.
     TablesGeneric.v : lists, products, insert_mask, index_ofN, the generic recursive table builder
     TablesBuild.v   : (T1) build_method_table_ok, and tb_cf_at (cell and flag reached by the strides walk)
     TablesSem.v     : (T2) cov_anc, key_inj, applicable_ix_spec, is_more_specific_spec, is_base_spec,
                            best_spec, dispatch_cell_spec, next_spec
     TablesReport.v  : (T3) report_ni, report_amb, report_cni, report_camb, report_cells
   Here: the statements of (T3) written without the helper definitions, the composition of (T1) and (T2),
   and the assumption check. *)
From Coq Require Import List Arith NArith Lia Bool.
From Y2 Require Import Model.Registry Model.Compile Spec.Dispatch Proofs.Interfaces.
From Y2 Require Export Proofs.TablesGeneric Proofs.TablesBuild Proofs.TablesSem Proofs.TablesReport.
Import ListNotations.
Local Open Scope nat_scope.

(* ------------------------------------------------------------------ (T1) + (T2) composed *)

(* the cell the strides walk reads for a legal tuple of classes is the specified outcome of the call *)
Theorem table_cell_spec R L :
  lattice_ok R L -> acyclic R -> (forall b d, ancb R b d = true <-> anc R b d) ->
  forall cm m cs, meth_wf L cm -> meth_ok R L m cm ->
  Forall2 (fun p c => In c (cov_of L p)) (cm_vp cm) cs ->
  table_index L cm (t_strides (build_method L cm)) 0 cs < length (t_cells (build_method L cm)) /\
  nth (table_index L cm (t_strides (build_method L cm)) 0 cs) (t_cells (build_method L cm)) CNi
  = cell_of_outcome (spec_dispatch R (meth_defs R m) (map (key L) cs)).
Proof.
  intros Hlo Hacy Hancb cm m cs Hwf Hok Hlegal.
  assert (length cs = length (cm_vp cm)) as Hl by (symmetry; exact (tg_Forall2_length _ _ _ Hlegal)).
  destruct (to_cell L cm _ (build_method_table_ok L cm (lo_wf R L Hlo) Hwf) cs Hl Hlegal) as [Hlt Hn].
  split; [assumption|]. rewrite Hn.
  apply (dispatch_cell_spec R L Hlo Hacy Hancb); try assumption.
  destruct Hwf as (_ & Hvp & _). clear - Hlo Hvp Hlegal.
  induction Hlegal as [|p c vp cs Hpc H IH]; [constructor|].
  inversion Hvp as [|? ? Hp Hvp']; subst. constructor; [|now apply IH].
  apply (lw_cov L (lo_wf R L Hlo) p c Hp) in Hpc. tauto.
Qed.

(* ------------------------------------------------------------------ (T3) spelled out *)

Section ReportStatements.
  Variables (L : lattice) (m : cmeth).
  Hypothesis Hlat : lat_wf L.
  Hypothesis Hwf : meth_wf L m.

  Let t := build_method L m.
  Let legal (cs : list nat) : Prop := Forall2 (fun p c => In c (cov_of L p)) (cm_vp m) cs.
  Let concrete (cs : list nat) : Prop :=
    Forall (fun c => k_abstract (nth c (l_info L) (mk_cls [] false)) = false) cs.
  Let cell_at (cs : list nat) : cell := nth (table_index L m (t_strides t) 0 cs) (t_cells t) CNi.

  Theorem build_method_report_ni : 0 < rp_ni (t_report t) <-> exists cs, legal cs /\ cell_at cs = CNi.
  Proof. exact (report_ni L m Hwf). Qed.

  Theorem build_method_report_amb : 0 < rp_amb (t_report t) <-> exists cs, legal cs /\ cell_at cs = CAmb.
  Proof. exact (report_amb L m Hwf). Qed.

  Theorem build_method_report_cni :
    0 < rp_cni (t_report t) <-> exists cs, legal cs /\ concrete cs /\ cell_at cs = CNi.
  Proof. exact (report_cni L m Hwf). Qed.

  Theorem build_method_report_camb :
    0 < rp_camb (t_report t) <-> exists cs, legal cs /\ concrete cs /\ cell_at cs = CAmb.
  Proof. exact (report_camb L m Hwf). Qed.

  Theorem build_method_report_cells_multi : 1 < length (cm_vp m) -> rp_cells (t_report t) = length (t_cells t).
  Proof. exact (report_cells_multi L m Hwf). Qed.

  Theorem build_method_report_cells_uni : length (cm_vp m) = 1 -> rp_cells (t_report t) = 0.
  Proof. exact (report_cells_uni L m Hwf). Qed.
End ReportStatements.

Print Assumptions build_method_table_ok.
Print Assumptions dispatch_cell_spec.
Print Assumptions next_spec.
Print Assumptions best_spec.
Print Assumptions is_more_specific_spec.
Print Assumptions is_base_spec.
Print Assumptions applicable_ix_spec.
Print Assumptions table_cell_spec.
Print Assumptions build_method_report_ni.
Print Assumptions build_method_report_amb.
Print Assumptions build_method_report_cni.
Print Assumptions build_method_report_camb.
Print Assumptions build_method_report_cells_multi.
Print Assumptions build_method_report_cells_uni.
