(* CovSource.v — compiler<Policy>::calculate_covariant_classes, as translated from the C++ text on every run (gen_covariant
   in Gen/GenLat.v, interpreted by Model/MiniLat.v), computes Model.Compile.covariant for every class.

   The C++ function is a depth-first walk over direct_derived that remembers what it has computed (a class whose set is not
   empty is not visited again); the model recomputes on explicit fuel.  They agree - and the walk terminates - when the
   direct_derived relation has no cycle, stated here through a rank that decreases along it (for the lattice update builds:
   the number of bases, which grows from a class to its derived classes). *)
From Coq Require Import List Arith NArith Lia Bool.
From Y2 Require Import Model.Registry Model.Compile Model.MiniLat Gen.GenLat Proofs.LatListFacts.
Import ListNotations.
Local Open Scope nat_scope.

Lemma set_add_all_In src : forall dst x, In x (set_add_all src dst) <-> In x dst \/ In x src.
Proof. intros dst x. unfold set_add_all. rewrite fold_insert_sorted_In. tauto. Qed.

Section CovSrc.
  Variables (derived : list (list nat)) (n : nat) (rank : nat -> nat).
  Hypothesis Hrank : forall c d, In d (nth c derived []) -> rank d < rank c.
  Hypothesis Hdn : forall c d, In d (nth c derived []) -> d < n.
  Hypothesis Hrn : forall c, rank c <= n.

  Definition cstep (g : nat -> list nat) (c : nat) : list nat :=
    fold_left (fun acc d => set_add_all (g d) acc) (nth c derived []) [c].

  Lemma covariant_S f c : covariant (S f) derived c = cstep (covariant f derived) c.
  Proof. reflexivity. Qed.

  Lemma cstep_ext g1 g2 c : (forall d, In d (nth c derived []) -> g1 d = g2 d) -> cstep g1 c = cstep g2 c.
  Proof.
    unfold cstep. generalize [c]. induction (nth c derived []) as [|d ds IH]; intros acc H; cbn [fold_left]; [reflexivity|].
    rewrite (H d (or_introl eq_refl)). apply IH. intros d' H'. apply H. now right.
  Qed.

  Lemma cov_stable : forall f f' c, rank c <= f -> rank c <= f' -> covariant f derived c = covariant f' derived c.
  Proof.
    induction f as [|f IH]; intros f' c Hf Hf'.
    - assert (E : nth c derived [] = []).
      { destruct (nth c derived []) as [|d ds] eqn:E; [reflexivity|]. exfalso.
        assert (H : In d (nth c derived [])) by (rewrite E; now left). apply Hrank in H. lia. }
      destruct f' as [|f']; [reflexivity|]. rewrite covariant_S. unfold cstep. rewrite E. reflexivity.
    - destruct f' as [|f'].
      + assert (E : nth c derived [] = []).
        { destruct (nth c derived []) as [|d ds] eqn:E; [reflexivity|]. exfalso.
          assert (H : In d (nth c derived [])) by (rewrite E; now left). apply Hrank in H. lia. }
        rewrite covariant_S. unfold cstep. rewrite E. reflexivity.
      + rewrite !covariant_S. apply cstep_ext. intros d Hd. apply Hrank in Hd. apply IH; lia.
  Qed.

  Definition CV (c : nat) : list nat := covariant n derived c.

  Lemma CV_step c : CV c = cstep CV c.
  Proof. unfold CV. rewrite (cov_stable n (S n) c (Hrn c)) by (specialize (Hrn c); lia). apply covariant_S. Qed.

  Lemma cstep_self g c : In c (cstep g c).
  Proof.
    unfold cstep. assert (H : In c [c]) by now left. revert H. generalize [c].
    induction (nth c derived []) as [|d ds IH]; intros acc H; cbn [fold_left]; [exact H|].
    apply IH. apply set_add_all_In. now left.
  Qed.

  Lemma CV_nonempty c : CV c <> [].
  Proof. rewrite CV_step. intro E. pose proof (cstep_self CV c) as H. rewrite E in H. exact H. Qed.

  Lemma cv_for rec b c d cov :
    cv_exec derived rec (VForDerived b) c d cov = vfor (fun x cov' => cv_exec derived rec b c (Some x) cov') (nth c derived []) cov.
  Proof. reflexivity. Qed.

  (* ---------------------------------------------------------------- the translated function *)
  Variable ens : cvstmt.             (* the statement that makes sure the derived class has been computed *)
  Definition body : cvstmt := VSeq VReturnIfDone (VSeq VInsertSelf (VForDerived (VSeq ens VCopyDerived))).

  (* it calls the function on the derived class when its set is empty; otherwise it either does nothing or calls it anyway *)
  Hypothesis Hens : forall rec c d cov,
    let call := match rec d cov with Some cov' => VGo cov' | None => VFault end in
    (nth d cov [] = [] -> cv_exec derived rec ens c (Some d) cov = call) /\
    (nth d cov [] <> [] -> cv_exec derived rec ens c (Some d) cov = VGo cov \/ cv_exec derived rec ens c (Some d) cov = call).

  Definition okc (cov : list (list nat)) (x : nat) : Prop := nth x cov [] = [] \/ nth x cov [] = CV x.
  Definition frame (r : nat) (cov cov' : list (list nat)) : Prop :=
    forall x, nth x cov' [] = nth x cov [] \/ (nth x cov [] = [] /\ nth x cov' [] = CV x /\ rank x <= r).

  Lemma frame_refl r cov : frame r cov cov.
  Proof. intro x. now left. Qed.

  Definition calc_post (c : nat) (cov cov' : list (list nat)) : Prop :=
    length cov' = n /\ nth c cov' [] = CV c /\ frame (rank c) cov cov'.

  Lemma calc_ok : forall fuel c cov, rank c < fuel -> c < n -> length cov = n ->
    (forall x, rank x <= rank c -> okc cov x) ->
    exists cov', cv_fun fuel body derived c cov = Some cov' /\ calc_post c cov cov'.
  Proof.
    induction fuel as [|f IH]; intros c cov Hf Hc Hlen Hpre; [lia|].
    cbn [cv_fun]. unfold body at 2. remember (VForDerived (VSeq ens VCopyDerived)) as B eqn:HB. cbn [cv_exec].
    destruct (Hpre c (Nat.le_refl _)) as [Hfresh|Hdone].
    2:{ (* computed already: the early return *)
      destruct (nth c cov []) as [|a l] eqn:E; [exfalso; symmetry in Hdone; now apply (CV_nonempty c)|].
      exists cov. split; [reflexivity|]. split; [exact Hlen|]. split; [now rewrite E|apply frame_refl]. }
    rewrite Hfresh.
    assert (Hlt : (c <? length cov) = true) by (apply Nat.ltb_lt; lia). rewrite Hlt. cbn [insert_sorted].
    set (cov1 := set_nth c cov [c]).
    (* the loop over the direct derived classes *)
    assert (Loop : forall ds P covk, (forall d, In d ds -> In d (nth c derived [])) ->
              length covk = n ->
              nth c covk [] = fold_left (fun acc d => set_add_all (CV d) acc) P [c] ->
              (forall x, x <> c -> nth x covk [] = nth x cov [] \/ (nth x cov [] = [] /\ nth x covk [] = CV x /\ rank x < rank c)) ->
              exists covz,
                vfor (fun x cov' => cv_exec derived (cv_fun f body derived) (VSeq ens VCopyDerived) c (Some x) cov') ds covk = VGo covz /\
                length covz = n /\
                nth c covz [] = fold_left (fun acc d => set_add_all (CV d) acc) (P ++ ds) [c] /\
                (forall x, x <> c -> nth x covz [] = nth x cov [] \/ (nth x cov [] = [] /\ nth x covz [] = CV x /\ rank x < rank c))).
    { induction ds as [|d ds IHds]; intros P covk Hds Hlk Hck Hfr; cbn [vfor].
      - exists covk. rewrite app_nil_r. auto.
      - assert (Hd : In d (nth c derived [])) by (apply Hds; now left).
        pose proof (Hrank c d Hd) as Hrd. pose proof (Hdn c d Hd) as Hdlt.
        assert (Hdc : d <> c) by (intros ->; lia).
        (* everything of rank <= rank d is fresh or done in covk *)
        assert (Hprek : forall x, rank x <= rank d -> okc covk x).
        { intros x Hx. assert (Hxc : x <> c) by (intros ->; lia).
          destruct (Hfr x Hxc) as [E|[_ [E _]]]; [|now right]. unfold okc. rewrite E. apply Hpre. lia. }
        assert (Hcne : nth c covk [] <> []).
        { rewrite Hck. intro E.
          assert (H : In c (fold_left (fun acc d0 => set_add_all (CV d0) acc) P [c])).
          { assert (H0 : In c [c]) by now left. revert H0. generalize [c]. clear. induction P as [|p P IHP]; intros acc H0; cbn [fold_left]; [exact H0|].
            apply IHP. apply set_add_all_In. now left. }
          rewrite E in H. exact H. }
        (* make sure d is computed *)
        assert (Ens : exists covd, cv_exec derived (cv_fun f body derived) ens c (Some d) covk = VGo covd /\
                                   length covd = n /\ nth d covd [] = CV d /\ frame (rank d) covk covd).
        { destruct (Hens (cv_fun f body derived) c d covk) as [H1 H2].
          destruct (IH d covk ltac:(lia) Hdlt Hlk Hprek) as [covd [Ecall [Ld [Dd Fd]]]].
          destruct (Hprek d (Nat.le_refl _)) as [Hdf|Hdd].
          - exists covd. rewrite (H1 Hdf), Ecall. auto.
          - assert (Hne : nth d covk [] <> []) by (rewrite Hdd; apply CV_nonempty).
            destruct (H2 Hne) as [E|E].
            + exists covk. rewrite E. split; [reflexivity|]. split; [exact Hlk|]. split; [exact Hdd|apply frame_refl].
            + exists covd. rewrite E, Ecall. auto. }
        destruct Ens as [covd [Ee [Ld [Dd Fd]]]].
        cbn [cv_exec]. rewrite Ee.
        assert (Hltd : (c <? length covd) = true) by (apply Nat.ltb_lt; lia). rewrite Hltd, Dd.
        assert (Hcd : nth c covd [] = nth c covk []).
        { destruct (Fd c) as [E|[E _]]; [exact E|contradiction]. }
        rewrite Hcd, Hck.
        destruct (IHds (P ++ [d]) (set_nth c covd (set_add_all (CV d) (fold_left (fun acc d0 => set_add_all (CV d0) acc) P [c]))))
          as [covz [Ez [Lz [Cz Fz]]]].
        + intros d' H'. apply Hds. now right.
        + now rewrite length_set_nth.
        + rewrite nth_set_nth_eq by lia. now rewrite fold_left_app.
        + intros x Hxc. rewrite nth_set_nth_neq by auto.
          destruct (Fd x) as [E|[E1 [E2 E3]]].
          * rewrite E. now apply Hfr.
          * destruct (Hfr x Hxc) as [E|[E4 [E5 _]]].
            -- right. rewrite <- E. split; [exact E1|]. split; [exact E2|lia].
            -- exfalso. rewrite E5 in E1. now apply (CV_nonempty x).
        + exists covz. split; [exact Ez|]. split; [exact Lz|]. split; [|exact Fz].
          rewrite Cz. now rewrite <- app_assoc. }
    destruct (Loop (nth c derived []) [] cov1) as [covz [Ez [Lz [Cz Fz]]]].
    - auto.
    - unfold cov1. now rewrite length_set_nth.
    - unfold cov1. now rewrite nth_set_nth_eq by lia.
    - intros x Hxc. left. unfold cov1. now rewrite nth_set_nth_neq by auto.
    - subst B. rewrite cv_for. rewrite ?Hfresh. cbn [insert_sorted]. fold cov1. rewrite Ez. exists covz. split; [reflexivity|]. split; [exact Lz|]. split.
      + rewrite Cz. cbn [app]. symmetry. apply CV_step.
      + intro x. destruct (Nat.eq_dec x c) as [->|Hxc].
        * right. split; [exact Hfresh|]. split; [|lia]. rewrite Cz. cbn [app]. symmetry. apply CV_step.
        * destruct (Fz x Hxc) as [E|[E1 [E2 E3]]]; [now left|right; repeat split; try assumption; lia].
  Qed.

  Lemma all_ok : forall cs cov, (forall c, In c cs -> c < n) -> length cov = n -> (forall x, okc cov x) ->
    exists cov', cv_all (S n) body derived cs cov = Some cov' /\ length cov' = n /\ (forall x, okc cov' x) /\
                 (forall x, nth x cov [] <> [] -> nth x cov' [] = nth x cov []) /\ (forall c, In c cs -> nth c cov' [] = CV c).
  Proof.
    induction cs as [|c cs IH]; intros cov Hcs Hlen Hok; cbn [cv_all].
    - exists cov. repeat split; auto. intros c [].
    - destruct (calc_ok (S n) c cov ltac:(specialize (Hrn c); lia) (Hcs c (or_introl eq_refl)) Hlen (fun x _ => Hok x)) as [cov1 [E [L1 [C1 F1]]]].
      rewrite E.
      assert (Hok1 : forall x, okc cov1 x).
      { intro x. destruct (F1 x) as [Ex|[_ [Ex _]]]; [unfold okc; rewrite Ex; apply Hok|now right]. }
      destruct (IH cov1 (fun c' H => Hcs c' (or_intror H)) L1 Hok1) as [cov' [E' [L' [Ok' [Keep' Done']]]]].
      exists cov'. split; [exact E'|]. split; [exact L'|]. split; [exact Ok'|]. split.
      + intros x Hx. assert (Hx1 : nth x cov1 [] = nth x cov []) by (destruct (F1 x) as [Ex|[Ex _]]; [exact Ex|contradiction]).
        rewrite <- Hx1. apply Keep'. now rewrite Hx1.
      + intros c' [<-|H]; [|now apply Done'].
        rewrite Keep' by (rewrite C1; apply CV_nonempty). exact C1.
  Qed.

  Theorem covariant_generic :
    cv_all (S n) body derived (seq 0 n) (repeat [] n) = Some (map (covariant n derived) (seq 0 n)).
  Proof.
    destruct (all_ok (seq 0 n) (repeat [] n)) as [cov' [E [L [_ [_ D]]]]].
    - intros c Hc. apply in_seq in Hc. lia.
    - apply repeat_length.
    - intro x. left. apply nth_repeat_nil.
    - rewrite E. f_equal. apply (nth_ext _ _ [] []); [now rewrite map_length, seq_length|].
      intros c Hc. rewrite L in Hc. rewrite (nth_map_seq (covariant n derived) n c []) by exact Hc.
      apply D. apply in_seq. lia.
  Qed.
End CovSrc.

(* the two spellings of "make sure the derived class has been computed" *)
Lemma ens_guarded derived : forall rec c d cov,
  let call := match rec d cov with Some cov' => VGo cov' | None => VFault end in
  (nth d cov [] = [] -> cv_exec derived rec (VIfDerivedFresh VRecurse) c (Some d) cov = call) /\
  (nth d cov [] <> [] -> cv_exec derived rec (VIfDerivedFresh VRecurse) c (Some d) cov = VGo cov
                         \/ cv_exec derived rec (VIfDerivedFresh VRecurse) c (Some d) cov = call).
Proof.
  intros rec c d cov call. cbn [cv_exec]. split; intro H.
  - now rewrite H.
  - left. destruct (nth d cov []); [contradiction|reflexivity].
Qed.

Lemma ens_unguarded derived : forall rec c d cov,
  let call := match rec d cov with Some cov' => VGo cov' | None => VFault end in
  (nth d cov [] = [] -> cv_exec derived rec VRecurse c (Some d) cov = call) /\
  (nth d cov [] <> [] -> cv_exec derived rec VRecurse c (Some d) cov = VGo cov \/ cv_exec derived rec VRecurse c (Some d) cov = call).
Proof. intros rec c d cov call. cbn [cv_exec]. split; intro H; [reflexivity|now right]. Qed.

Theorem src_covariant derived n rank :
  (forall c d, In d (nth c derived []) -> rank d < rank c) -> (forall c d, In d (nth c derived []) -> d < n) -> (forall c, rank c <= n) ->
  cv_all (S n) gen_covariant derived (seq 0 n) (repeat [] n) = Some (map (covariant n derived) (seq 0 n)).
Proof.
  intros H1 H2 H3.
  first
    [ change gen_covariant with (body (VIfDerivedFresh VRecurse));
      apply (covariant_generic derived n rank H1 H2 H3); apply ens_guarded
    | change gen_covariant with (body VRecurse);
      apply (covariant_generic derived n rank H1 H2 H3); apply ens_unguarded ].
Qed.
