(* Interfaces.v — the statements that tie the stages of the model together.
   Each stage is proved against these predicates in its own file, so that later proofs depend on the
   interface of a stage and never unfold its definition:
     LatticeProofs.v : wf_registry R -> augment_classes R = Ok L  ->  lattice_ok R L   (and it never fails)
     SlotsProofs.v   : lat_wf L -> meths_wf L ms -> slots_ok L ms (assign_slots L ms)
     TablesProofs.v  : lat_wf L -> ... -> table_ok / best_spec / next_spec
     InstallProofs.v, ResolveProofs.v : composition up to resolve_correct.
   Only definitions here. *)
From Y2 Require Import Model.Registry Model.Compile Spec.Dispatch.
Local Open Scope nat_scope.

(* ------------------------------------------------------------------ stage 1: the lattice, combinatorially *)

Definition ncls (L : lattice) : nat := length (l_keys L).
Definition tb_of (L : lattice) (c : nat) : list nat := nth c (l_tb L) [].
Definition direct_of_ (L : lattice) (c : nat) : list nat := nth c (l_direct L) [].
Definition derived_of_ (L : lattice) (c : nat) : list nat := nth c (l_derived L) [].
Definition cov_of (L : lattice) (c : nat) : list nat := nth c (l_cov L) [].

(* what the later stages need to know about the lattice: no registry in sight *)
Record lat_wf (L : lattice) : Prop := {
  lw_len_info : length (l_info L) = ncls L;
  lw_len_tb : length (l_tb L) = ncls L;
  lw_len_direct : length (l_direct L) = ncls L;
  lw_len_derived : length (l_derived L) = ncls L;
  lw_len_cov : length (l_cov L) = ncls L;
  (* transitive_bases: proper ancestors, a strict partial order *)
  lw_tb_lt : forall c b, In b (tb_of L c) -> b < ncls L /\ c < ncls L;
  lw_tb_nodup : forall c, NoDup (tb_of L c);
  lw_tb_irrefl : forall c, ~ In c (tb_of L c);
  lw_tb_trans : forall a b c, In a (tb_of L b) -> In b (tb_of L c) -> In a (tb_of L c);
  (* direct bases: the maximal proper ancestors *)
  lw_direct_sub : forall c b, In b (direct_of_ L c) -> In b (tb_of L c);
  lw_direct_max : forall c b, In b (tb_of L c) ->
      In b (direct_of_ L c) \/ exists d, In d (direct_of_ L c) /\ In b (tb_of L d);
  lw_direct_nodup : forall c, NoDup (direct_of_ L c);
  lw_direct_incomparable : forall c a b, In a (direct_of_ L c) -> In b (direct_of_ L c) -> ~ In a (tb_of L b);
  (* direct_derived is the converse of direct_bases, in class order *)
  lw_derived : forall b d, In d (derived_of_ L b) <-> d < ncls L /\ In b (direct_of_ L d);
  lw_derived_nodup : forall b, NoDup (derived_of_ L b);
  (* covariant classes: the class and its descendants *)
  lw_cov : forall c d, c < ncls L -> (In d (cov_of L c) <-> d < ncls L /\ (d = c \/ In c (tb_of L d)));
  lw_cov_nodup : forall c, NoDup (cov_of L c)
}.

(* the link with the registry: class i of the lattice is the class (type_index) key L i *)
Definition key (L : lattice) (i : nat) : N := nth i (l_keys L) 0%N.

Record lattice_ok (R : registry) (L : lattice) : Prop := {
  lo_wf : lat_wf L;
  lo_keys : l_keys L = all_classes R;
  lo_keys_nodup : NoDup (l_keys L);
  lo_registered : forall k, In k (l_keys L) <-> registered R k;
  lo_class_of : forall t i, class_of R (l_keys L) t = Some i <-> (i < ncls L /\ key L i = proj R t);
  lo_tb : forall c b, c < ncls L -> b < ncls L ->
      (In b (tb_of L c) <-> b <> c /\ anc R (key L b) (key L c));
  lo_abstract : forall i, i < ncls L ->
      k_abstract (nth i (l_info L) (mk_cls [] false)) = is_abstract R (key L i)
}.

(* ------------------------------------------------------------------ stage 2: methods *)

Definition meth_wf (L : lattice) (m : cmeth) : Prop :=
  cm_vp m <> [] /\
  Forall (fun c => c < ncls L) (cm_vp m) /\
  Forall (fun sp => length sp = length (cm_vp m) /\ Forall (fun c => c < ncls L) sp) (cm_specs m) /\
  length (cm_has_next m) = length (cm_specs m) /\
  length (filter (fun b : bool => b) (cm_shape m)) = length (cm_vp m).

Definition meths_wf (L : lattice) (ms : list cmeth) : Prop := Forall (meth_wf L) ms.

(* the compiled method mi is the registry's method mi, class indexes for class keys *)
Definition meth_ok (R : registry) (L : lattice) (m : meth_rec) (cm : cmeth) : Prop :=
  map (key L) (cm_vp cm) = meth_vp R m /\
  map (map (key L)) (cm_specs cm) = meth_defs R m /\
  cm_has_next cm = map d_has_next (m_defs m) /\
  cm_shape cm = m_shape m.

(* ------------------------------------------------------------------ stage 3: slots *)

Definition slot_of (st : sstate) (mi p : nat) : nat := nth p (nth mi (s_slots st) []) 0.
Definition first_of (st : sstate) (z : nat) : nat := nth z (s_first st) 0.
Definition vlen_of (st : sstate) (z : nat) : nat := nth z (s_vlen st) 0.

(* (mi, p) is a (method, virtual parameter) pair whose class accepts objects of class z *)
Definition applies (L : lattice) (ms : list cmeth) (mi p z : nat) : Prop :=
  exists m, nth_error ms mi = Some m /\ exists c, nth_error (cm_vp m) p = Some c /\ In z (cov_of L c).

Record slots_ok (L : lattice) (ms : list cmeth) (st : sstate) : Prop := {
  so_fuel : s_fuel_ok st = true;
  so_len_slots : length (s_slots st) = length ms;
  so_len_slots_m : forall mi m, nth_error ms mi = Some m -> length (nth mi (s_slots st) []) = length (cm_vp m);
  so_len_first : length (s_first st) = ncls L;
  so_len_vlen : length (s_vlen st) = ncls L;
  (* the cell of (mi, p) lies inside the v-table of every class it applies to *)
  so_in_vtbl : forall mi p z, applies L ms mi p z ->
      first_of st z <= slot_of st mi p < first_of st z + vlen_of st z;
  (* and no other pair applicable to the same class shares it *)
  so_disjoint : forall mi p mi' p' z, applies L ms mi p z -> applies L ms mi' p' z ->
      slot_of st mi p = slot_of st mi' p' -> mi = mi' /\ p = p'
}.

(* ------------------------------------------------------------------ stage 4: groups, tables, best, next *)

(* definition i of m is applicable, at the level of class indexes, to the classes cs (one per dimension) *)
Definition applicable_ix (L : lattice) (sp : list nat) (cs : list nat) : bool :=
  forallb (fun '(p, c) => memn c (cov_of L p)) (combine sp cs) && Nat.eqb (length sp) (length cs).

Definition applicable_set (L : lattice) (m : cmeth) (cs : list nat) : list nat :=
  filter (fun i => applicable_ix L (nth i (cm_specs m) []) cs) (seq 0 (length (cm_specs m))).

(* position in the table of the tuple of groups of the classes cs: g0 + g1*stride1 + ... *)
Fixpoint table_index (L : lattice) (m : cmeth) (strides : list nat) (dim : nat) (cs : list nat) : nat :=
  match cs with
  | [] => 0
  | c :: cs' =>
      group_index L m dim c * (match dim with 0 => 1 | S d => nth d strides 0 end)
      + table_index L m strides (S dim) cs'
  end.

Record table_ok (L : lattice) (m : cmeth) (t : ctable) : Prop := {
  to_len_groups : length (t_groups t) = length (cm_vp m);
  to_len_strides : length (t_strides t) = length (cm_vp m) - 1;
  to_len_cells : length (t_cells t) = prod_list (map (@length _) (t_groups t));
  to_group_lt : forall dim p c, nth_error (cm_vp m) dim = Some p -> In c (cov_of L p) ->
      group_index L m dim c < length (nth dim (t_groups t) []);
  (* the cell reached by the strides walk is the best of the definitions applicable to the tuple *)
  to_cell : forall cs, length cs = length (cm_vp m) ->
      Forall2 (fun p c => In c (cov_of L p)) (cm_vp m) cs ->
      table_index L m (t_strides t) 0 cs < length (t_cells t) /\
      nth (table_index L m (t_strides t) 0 cs) (t_cells t) CNi
        = cell_of (best L (cm_specs m) (applicable_set L m cs));
  to_len_nexts : length (t_nexts t) = length (cm_specs m)
}.

Definition cell_of_outcome (o : outcome) : cell :=
  match o with Run i => CDef i | NoDefinition => CNi | Ambiguous => CAmb end.
