(* TablesBuild.v — (T1) build_method produces a table that the strides walk reads correctly:
   masks, groups, group_index, the recursive builder, strides, and the candidate set of a cell. *)
From Coq Require Import List Arith NArith Lia Bool Sorting.Sorted.
From Y2 Require Import Model.Registry Model.Compile Spec.Dispatch Proofs.Interfaces Proofs.TablesGeneric.
Import ListNotations.
Local Open Scope nat_scope.

(* ------------------------------------------------------------------ mask_of *)

Lemma tb_mask_fold (P : list nat -> bool) (l : list (list nat)) : forall k acc i,
  N.testbit (fold_left (fun acc '(j, sp) => if P sp then N.setbit acc (N.of_nat j) else acc)
                       (combine (seq k (length l)) l) acc) (N.of_nat i) = true
  <-> N.testbit acc (N.of_nat i) = true \/ (k <= i < k + length l /\ P (nth (i - k) l []) = true).
Proof.
  induction l as [|sp l IH]; intros k acc i; cbn [length seq combine fold_left].
  - split; [now left|]. intros [H|[H _]]; [assumption|lia].
  - rewrite IH. split.
    + intros [H|[Hr HP]].
      * destruct (P sp) eqn:E; [|now left].
        apply N.setbit_iff in H. destruct H as [H|H]; [|now left].
        apply Nat2N.inj in H. subst i. right. split; [lia|]. now rewrite Nat.sub_diag.
      * right. split; [lia|]. replace (i - k) with (S (i - S k)) by lia. exact HP.
    + intros [H|[Hr HP]].
      * left. destruct (P sp); [|assumption]. apply N.setbit_iff. now right.
      * destruct (Nat.eq_dec i k) as [->|Hne].
        -- left. rewrite Nat.sub_diag in HP. cbn [nth] in HP. rewrite HP.
           apply N.setbit_iff. now left.
        -- right. split; [lia|]. replace (i - k) with (S (i - S k)) in HP by lia. exact HP.
Qed.

(* bit i of the mask of class c at dimension dim: definition i exists and accepts c there *)
Lemma tb_mask_of_spec L specs dim c i :
  N.testbit (mask_of L specs dim c) (N.of_nat i) = true <->
  i < length specs /\ memn c (cov_of L (nth dim (nth i specs []) 0)) = true.
Proof.
  pose proof (tb_mask_fold (fun sp => memn c (nth (nth dim sp 0) (l_cov L) [])) specs 0 0%N i) as H.
  cbv beta in H. unfold mask_of. rewrite H. rewrite N.bits_0, Nat.sub_0_r. unfold cov_of.
  split.
  - intros [H0|[Hr HP]]; [discriminate|]. split; [lia|assumption].
  - intros [Hr HP]. right. split; [lia|assumption].
Qed.

Lemma tb_mask_of_bit L specs dim c i : i < length specs ->
  N.testbit (mask_of L specs dim c) (N.of_nat i) = memn c (cov_of L (nth dim (nth i specs []) 0)).
Proof.
  intro Hi. apply tg_bool_eq_iff. rewrite tb_mask_of_spec. tauto.
Qed.

(* ------------------------------------------------------------------ groups_of, group_index *)

(* has_concrete_classes of the group with mask g *)
Definition tb_hc (L : lattice) (m : cmeth) (dim : nat) (g : N) : bool :=
  existsb (fun c => N.eqb (mask_of L (cm_specs m) dim c) g
                    && negb (k_abstract (nth c (l_info L) (mk_cls [] false))))
          (cov_of L (nth dim (cm_vp m) 0)).

Definition tb_masks (L : lattice) (m : cmeth) (dim : nat) : list N :=
  fold_left (fun acc c => insert_mask (mask_of L (cm_specs m) dim c) acc) (cov_of L (nth dim (cm_vp m) 0)) [].

Lemma tb_groups_eq L m dim : groups_of L m dim = map (fun g => (g, tb_hc L m dim g)) (tb_masks L m dim).
Proof. reflexivity. Qed.

Lemma tb_groups_fst L m dim : map fst (groups_of L m dim) = tb_masks L m dim.
Proof. rewrite tb_groups_eq, map_map. cbn [fst]. apply map_id. Qed.

Lemma tb_groups_length L m dim : length (groups_of L m dim) = length (tb_masks L m dim).
Proof. rewrite tb_groups_eq. apply map_length. Qed.

(* the groups are exactly the masks of the classes the parameter accepts *)
Lemma tb_masks_In L m dim g :
  In g (tb_masks L m dim) <->
  exists c, In c (cov_of L (nth dim (cm_vp m) 0)) /\ g = mask_of L (cm_specs m) dim c.
Proof.
  unfold tb_masks. rewrite tg_fold_insert_In. split.
  - intros [[]|H]. exact H.
  - intro H. now right.
Qed.

(* std::map order: strictly increasing, hence duplicate free *)
Lemma tb_masks_sorted L m dim : StronglySorted N.lt (tb_masks L m dim).
Proof. unfold tb_masks. apply tg_fold_insert_sorted. constructor. Qed.

Lemma tb_masks_NoDup L m dim : NoDup (tb_masks L m dim).
Proof. apply tg_sorted_NoDup, tb_masks_sorted. Qed.

Lemma tb_groups_nth L m dim k : k < length (tb_masks L m dim) ->
  nth k (groups_of L m dim) (0%N, false)
  = (nth k (tb_masks L m dim) 0%N, tb_hc L m dim (nth k (tb_masks L m dim) 0%N)).
Proof.
  intro Hk. rewrite tb_groups_eq.
  rewrite (nth_indep _ (0%N, false) ((fun g => (g, tb_hc L m dim g)) 0%N)) by (now rewrite map_length).
  exact (map_nth (fun g => (g, tb_hc L m dim g)) (tb_masks L m dim) 0%N k).
Qed.

Lemma tb_group_index_spec L m dim c : In c (cov_of L (nth dim (cm_vp m) 0)) ->
  group_index L m dim c < length (groups_of L m dim) /\
  nth (group_index L m dim c) (groups_of L m dim) (0%N, false)
  = (mask_of L (cm_specs m) dim c, tb_hc L m dim (mask_of L (cm_specs m) dim c)).
Proof.
  intro Hc. unfold group_index. rewrite tb_groups_fst.
  assert (In (mask_of L (cm_specs m) dim c) (tb_masks L m dim)) as Hin
    by (apply tb_masks_In; now exists c).
  destruct (tg_index_ofN_In _ _ Hin) as [g [E [Hlt Hn]]]. rewrite E.
  rewrite tb_groups_length. split; [assumption|].
  rewrite tb_groups_nth by assumption. now rewrite Hn.
Qed.

(* two classes are in the same group iff they have the same mask *)
Lemma tb_group_index_inj L m dim c c' :
  In c (cov_of L (nth dim (cm_vp m) 0)) -> In c' (cov_of L (nth dim (cm_vp m) 0)) ->
  (group_index L m dim c = group_index L m dim c' <->
   mask_of L (cm_specs m) dim c = mask_of L (cm_specs m) dim c').
Proof.
  intros Hc Hc'. destruct (tb_group_index_spec L m dim c Hc) as [_ H1].
  destruct (tb_group_index_spec L m dim c' Hc') as [_ H2]. split; intro E.
  - rewrite E in H1. rewrite H1 in H2. now inversion H2.
  - unfold group_index. now rewrite E.
Qed.

(* ------------------------------------------------------------------ the builder is the generic one *)

Definition tb_inter (st g : N * bool) : N * bool := (N.land (fst st) (fst g), snd st && snd g).
Definition tb_best (L : lattice) (specs : list (list nat)) (st : N * bool) : cell * bool :=
  (cell_of (best L specs (bits_of (length specs) (fst st))), snd st).

Lemma tb_build_table_cons L specs gs r rest cand conc :
  build_table L specs (gs :: r :: rest) cand conc
  = flat_map (fun '(g, hc) => build_table L specs (r :: rest) (N.land cand g) (conc && hc)) gs.
Proof. reflexivity. Qed.

Lemma tb_build_table_eq L specs gss : gss <> [] -> forall cand conc,
  build_table L specs gss cand conc = tg_build _ _ tb_inter (tb_best L specs) gss (cand, conc).
Proof.
  induction gss as [|gs rest IH]; intros Hne cand conc; [congruence|].
  destruct rest as [|r rest].
  - cbn [build_table tg_build]. clear. induction gs as [|[g hc] gs IH]; cbn; [reflexivity|].
    now rewrite IH.
  - rewrite tb_build_table_cons. cbn [tg_build]. apply flat_map_ext. intros [g hc].
    rewrite IH by discriminate. reflexivity.
Qed.

(* the groups selected by a tuple of group indexes *)
Definition tb_selected (gss : list (list (N * bool))) (idx : list nat) : list (N * bool) :=
  map (fun gk => nth (snd gk) (fst gk) (0%N, false)) (combine gss idx).

Lemma tb_sel_spec gss : forall idx st,
  tg_sel _ tb_inter gss idx st (0%N, false)
  = fold_left tb_inter (tb_selected gss idx) st.
Proof.
  induction gss as [|gs gss IH]; intros [|k idx] st; try reflexivity.
  cbn [tg_sel]. rewrite IH. reflexivity.
Qed.

Lemma tb_fold_inter_bit sel : forall st i,
  N.testbit (fst (fold_left tb_inter sel st)) i
  = N.testbit (fst st) i && forallb (fun g => N.testbit (fst g) i) sel.
Proof.
  induction sel as [|g sel IH]; intros st i; cbn [fold_left forallb]; [now rewrite andb_true_r|].
  rewrite IH. unfold tb_inter. cbn [fst]. rewrite N.land_spec. now rewrite andb_assoc.
Qed.

Lemma tb_fold_inter_flag sel : forall st,
  snd (fold_left tb_inter sel st) = snd st && forallb snd sel.
Proof.
  induction sel as [|g sel IH]; intros st; cbn [fold_left forallb]; [now rewrite andb_true_r|].
  rewrite IH. unfold tb_inter. cbn [snd]. now rewrite andb_assoc.
Qed.

Lemma tb_selected_rev gss idx : length gss = length idx ->
  tb_selected (rev gss) (rev idx) = rev (tb_selected gss idx).
Proof. intro H. unfold tb_selected. rewrite tg_combine_rev by assumption. now rewrite map_rev. Qed.

Lemma tb_forallb_map {A B} (f : B -> bool) (g : A -> B) l : forallb f (map g l) = forallb (fun x => f (g x)) l.
Proof. induction l as [|a l IH]; cbn; [reflexivity|]. now rewrite IH. Qed.

(* ------------------------------------------------------------------ the tuple of a call *)

Fixpoint tb_gidx (L : lattice) (m : cmeth) (dim : nat) (cs : list nat) : list nat :=
  match cs with
  | [] => []
  | c :: cs' => group_index L m dim c :: tb_gidx L m (S dim) cs'
  end.

Definition tb_legal (L : lattice) (vp cs : list nat) : Prop := Forall2 (fun p c => In c (cov_of L p)) vp cs.

Lemma tb_gidx_length L m cs : forall dim, length (tb_gidx L m dim cs) = length cs.
Proof. induction cs as [|c cs IH]; intro dim; cbn; [reflexivity|]. now rewrite IH. Qed.

Definition tb_groups (L : lattice) (m : cmeth) (dim n : nat) : list (list (N * bool)) :=
  map (groups_of L m) (seq dim n).

Lemma tb_gidx_inb L m vps cs : tb_legal L vps cs -> forall pre, cm_vp m = pre ++ vps ->
  tg_inb _ (tb_groups L m (length pre) (length cs)) (tb_gidx L m (length pre) cs).
Proof.
  induction 1 as [|p c vps cs Hpc H IH]; intros pre E; cbn [length tb_groups seq map tb_gidx]; [constructor|].
  constructor.
  - apply tb_group_index_spec. rewrite E, nth_middle. exact Hpc.
  - specialize (IH (pre ++ [p])). rewrite app_length in IH. cbn [length] in IH.
    rewrite Nat.add_1_r in IH. apply IH. rewrite E, <- app_assoc. reflexivity.
Qed.

Lemma tb_gidx_selected L m vps cs : tb_legal L vps cs -> forall pre, cm_vp m = pre ++ vps ->
  tb_selected (tb_groups L m (length pre) (length cs)) (tb_gidx L m (length pre) cs)
  = map (fun dc => (mask_of L (cm_specs m) (fst dc) (snd dc),
                    tb_hc L m (fst dc) (mask_of L (cm_specs m) (fst dc) (snd dc))))
        (combine (seq (length pre) (length cs)) cs).
Proof.
  induction 1 as [|p c vps cs Hpc H IH]; intros pre E; [reflexivity|].
  cbn [length tb_groups seq map tb_gidx]. unfold tb_selected. cbn [combine map fst snd]. f_equal.
  - apply tb_group_index_spec. rewrite E, nth_middle. exact Hpc.
  - specialize (IH (pre ++ [p])). rewrite app_length in IH. cbn [length] in IH.
    rewrite Nat.add_1_r in IH. apply IH. rewrite E, <- app_assoc. reflexivity.
Qed.

(* ------------------------------------------------------------------ strides and the index *)

Definition tb_sizes (L : lattice) (m : cmeth) : list nat :=
  map (@length _) (tb_groups L m 0 (length (cm_vp m))).

Definition tb_strides (L : lattice) (m : cmeth) : list nat :=
  map (fun d => prod_list (firstn d (tb_sizes L m))) (seq 1 (length (cm_vp m) - 1)).

Lemma tb_nth_map_seq {A} (f : nat -> A) a n d x : d < n -> nth d (map f (seq a n)) x = f (a + d).
Proof.
  intro H. rewrite (nth_indep _ x (f 0)) by (now rewrite map_length, seq_length).
  rewrite map_nth, seq_nth by assumption. reflexivity.
Qed.

(* strides are prefix products of the group counts *)
Lemma tb_stride_spec L m d : S d < length (cm_vp m) ->
  nth d (tb_strides L m) 0 = prod_list (firstn (S d) (tb_sizes L m)).
Proof. intro H. unfold tb_strides. rewrite tb_nth_map_seq by lia. reflexivity. Qed.

Lemma tb_sizes_length L m : length (tb_sizes L m) = length (cm_vp m).
Proof. unfold tb_sizes, tb_groups. now rewrite !map_length, seq_length. Qed.

Lemma tb_sizes_nth L m d : d < length (cm_vp m) -> nth d (tb_sizes L m) 0 = length (groups_of L m d).
Proof.
  intro H. unfold tb_sizes, tb_groups. rewrite map_map. rewrite tb_nth_map_seq by assumption. reflexivity.
Qed.

Lemma tb_table_index_mr L m cs : forall dim, dim + length cs = length (cm_vp m) ->
  table_index L m (tb_strides L m) dim cs
  = prod_list (firstn dim (tb_sizes L m))
    * tg_mr (map (@length _) (tb_groups L m dim (length cs))) (tb_gidx L m dim cs).
Proof.
  induction cs as [|c cs IH]; intros dim Hd; cbn [table_index length tb_groups seq map tb_gidx tg_mr]; [lia|].
  cbn [length] in Hd. rewrite IH by lia.
  rewrite (tg_firstn_S (tb_sizes L m) 0 dim) by (rewrite tb_sizes_length; lia).
  rewrite tg_prod_app, tg_prod_cons, tg_prod_nil, tb_sizes_nth by lia.
  assert ((match dim with 0 => 1 | S d => nth d (tb_strides L m) 0 end)
          = prod_list (firstn dim (tb_sizes L m))) as ->.
  { destruct dim as [|d]; [reflexivity|]. apply tb_stride_spec. lia. }
  unfold tb_groups. lia.
Qed.

(* ------------------------------------------------------------------ the candidate set of a cell *)

Lemma tb_forallb_combine_map {A} (Q : nat -> A -> bool) (f : nat -> nat) l : forall cs,
  forallb (fun '(p, c) => Q p c) (combine (map f l) cs)
  = forallb (fun dc => Q (f (fst dc)) (snd dc)) (combine l cs).
Proof.
  induction l as [|d l IH]; intros [|c cs]; cbn; try reflexivity. now rewrite IH.
Qed.

Lemma tb_applicable_bits L specs i cs : i < length specs ->
  length (nth i specs []) = length cs ->
  forallb (fun dc => N.testbit (mask_of L specs (fst dc) (snd dc)) (N.of_nat i)) (combine (seq 0 (length cs)) cs)
  = applicable_ix L (nth i specs []) cs.
Proof.
  intros Hi Hl. unfold applicable_ix. rewrite Hl, Nat.eqb_refl, andb_true_r.
  rewrite <- (tg_map_nth_seq (nth i specs []) 0) at 1.
  rewrite (tb_forallb_combine_map (fun p c => memn c (cov_of L p))). rewrite Hl.
  apply tg_forallb_ext_in. intros [d c] _. cbn [fst snd]. now apply tb_mask_of_bit.
Qed.

Lemma tb_bits_applicable L m cs :
  Forall (fun sp => length sp = length (cm_vp m) /\ Forall (fun c => c < ncls L) sp) (cm_specs m) ->
  length cs = length (cm_vp m) ->
  bits_of (length (cm_specs m))
          (fst (fold_left tb_inter
                  (rev (map (fun dc => (mask_of L (cm_specs m) (fst dc) (snd dc),
                                        tb_hc L m (fst dc) (mask_of L (cm_specs m) (fst dc) (snd dc))))
                            (combine (seq 0 (length cs)) cs)))
                  (N.ones (N.of_nat (length (cm_specs m))), true)))
  = applicable_set L m cs.
Proof.
  intros Hspecs Hl. unfold bits_of, applicable_set. apply filter_ext_in. intros i Hi.
  apply in_seq in Hi. rewrite tb_fold_inter_bit. cbn [fst].
  rewrite N.ones_spec_low by lia. cbn [andb].
  rewrite tg_forallb_rev, tb_forallb_map. cbn [fst].
  apply tb_applicable_bits; [lia|].
  rewrite Forall_forall in Hspecs. destruct (Hspecs (nth i (cm_specs m) [])) as [H _]; [apply nth_In; lia|].
  congruence.
Qed.

(* ------------------------------------------------------------------ the table of build_method *)

(* the cells with their flags, as the recursion produces them *)
Definition tb_cf (L : lattice) (m : cmeth) : list (cell * bool) :=
  build_table L (cm_specs m) (rev (tb_groups L m 0 (length (cm_vp m))))
              (N.ones (N.of_nat (length (cm_specs m)))) true.

Lemma tb_cells_eq L m : t_cells (build_method L m) = map fst (tb_cf L m).
Proof. reflexivity. Qed.
Lemma tb_strides_eq L m : t_strides (build_method L m) = tb_strides L m.
Proof. reflexivity. Qed.
Lemma tb_groups_of_eq L m : t_groups (build_method L m) = tb_groups L m 0 (length (cm_vp m)).
Proof. reflexivity. Qed.

Lemma tb_groups_nonempty L m : cm_vp m <> [] -> rev (tb_groups L m 0 (length (cm_vp m))) <> [].
Proof.
  intros Hne E. apply (f_equal (@length _)) in E.
  unfold tb_groups in E. rewrite rev_length, map_length, seq_length in E.
  destruct (cm_vp m); [congruence|discriminate].
Qed.

Lemma tb_cf_eq L m : cm_vp m <> [] ->
  tb_cf L m = tg_build _ _ tb_inter (tb_best L (cm_specs m)) (rev (tb_groups L m 0 (length (cm_vp m))))
                       (N.ones (N.of_nat (length (cm_specs m))), true).
Proof. intro Hne. unfold tb_cf. apply tb_build_table_eq. now apply tb_groups_nonempty. Qed.

Lemma tb_cf_length L m : cm_vp m <> [] ->
  length (tb_cf L m) = prod_list (tb_sizes L m).
Proof.
  intro Hne. rewrite tb_cf_eq by assumption. rewrite tg_build_length, tg_cells_prod, map_rev, tg_prod_rev.
  reflexivity.
Qed.

(* the flag of the cell of a tuple: every selected group has a concrete class *)
Definition tb_flag (L : lattice) (m : cmeth) (cs : list nat) : bool :=
  forallb (fun dc => tb_hc L m (fst dc) (mask_of L (cm_specs m) (fst dc) (snd dc)))
          (combine (seq 0 (length cs)) cs).

Lemma tb_index_eq L m cs : length cs = length (cm_vp m) ->
  table_index L m (tb_strides L m) 0 cs
  = tg_index _ (rev (tb_groups L m 0 (length cs))) (rev (tb_gidx L m 0 cs)).
Proof.
  intro Hl. rewrite tb_table_index_mr by lia. cbn [firstn]. rewrite tg_prod_nil, Nat.mul_1_l.
  rewrite tg_index_rev; [reflexivity|].
  unfold tb_groups. now rewrite map_length, seq_length, tb_gidx_length.
Qed.

(* the central fact: the strides walk of a legal tuple lands on its cell *)
Theorem tb_cf_at L m cs : meth_wf L m -> length cs = length (cm_vp m) -> tb_legal L (cm_vp m) cs ->
  table_index L m (tb_strides L m) 0 cs < length (tb_cf L m) /\
  nth (table_index L m (tb_strides L m) 0 cs) (tb_cf L m) (CNi, false)
  = (cell_of (best L (cm_specs m) (applicable_set L m cs)), tb_flag L m cs).
Proof.
  intros (Hne & Hvp & Hspecs & _) Hl Hlegal.
  pose proof (tb_gidx_inb L m _ _ Hlegal [] eq_refl) as Hinb. cbn [length] in Hinb.
  pose proof (tb_gidx_selected L m _ _ Hlegal [] eq_refl) as Hsel. cbn [length] in Hsel.
  assert (tg_inb _ (rev (tb_groups L m 0 (length cs))) (rev (tb_gidx L m 0 cs))) as Hinb'
    by (apply tg_Forall2_rev; exact Hinb).
  rewrite tb_index_eq by assumption. rewrite tb_cf_eq by assumption. rewrite <- Hl. split.
  - rewrite tg_build_length. now apply tg_index_lt.
  - rewrite (tg_build_nth _ _ tb_inter (tb_best L (cm_specs m)) (CNi, false) _ _ _ (0%N, false) Hinb').
    rewrite tb_sel_spec, tb_selected_rev
      by (unfold tb_groups; now rewrite map_length, seq_length, tb_gidx_length).
    rewrite Hsel. unfold tb_best. f_equal.
    + rewrite tb_bits_applicable by assumption. reflexivity.
    + rewrite tb_fold_inter_flag. cbn [snd andb]. rewrite tg_forallb_rev, tb_forallb_map. reflexivity.
Qed.

(* ------------------------------------------------------------------ (T1) *)

Theorem build_method_table_ok : forall L m, lat_wf L -> meth_wf L m -> table_ok L m (build_method L m).
Proof.
  intros L m _ Hwf. pose proof Hwf as (Hne & Hvp & Hspecs & _).
  constructor.
  - cbn. now rewrite map_length, seq_length.
  - cbn. now rewrite map_length, seq_length.
  - rewrite tb_cells_eq, map_length, tb_cf_length by assumption. reflexivity.
  - intros dim p c Hp Hc. rewrite tb_groups_of_eq. unfold tb_groups.
    assert (dim < length (cm_vp m)) as Hd by (apply nth_error_Some; congruence).
    rewrite (tb_nth_map_seq (groups_of L m) 0 _ dim []) by assumption. cbn [Nat.add].
    apply tb_group_index_spec. now rewrite (nth_error_nth _ _ _ Hp).
  - intros cs Hl Hlegal. rewrite tb_cells_eq, tb_strides_eq, map_length.
    destruct (tb_cf_at L m cs Hwf Hl Hlegal) as [Hlt Hn]. split; [assumption|].
    change CNi with (fst (CNi, false)). rewrite map_nth, Hn. reflexivity.
  - cbn. now rewrite map_length.
Qed.
