(* VptrPolicyProofs.v — every registered id reaches its class's v-table pointer through the unhashed vector and
   through the map, whatever stale entries the containers held (property C01: policy configurations). *)
From Y2 Require Import Model.Registry Model.VptrPolicy Proofs.LatListFacts.
From Coq Require Import Lia.
Local Open Scope nat_scope.

(* an id belongs to at most one class *)
Definition ids_disjoint (cs : list pclass) : Prop :=
  forall c c' t, In c cs -> In c' cs -> In t (pc_ids c) -> In t (pc_ids c') -> pc_vptr c = pc_vptr c'.

(* ---------------------------------------------------------------- vector *)
Lemma fold_max_ge l : forall m, m <= fold_left (fun m t => Nat.max m (N.to_nat t)) l m.
Proof. induction l as [|z l IH]; intro m; cbn [fold_left]; [lia|]. etransitivity; [|apply IH]. lia. Qed.

Lemma fold_max_le l : forall m x, In x l -> N.to_nat x <= fold_left (fun m t => Nat.max m (N.to_nat t)) l m.
Proof.
  induction l as [|y l IH]; intros m x H; [destruct H|]. cbn [fold_left]. destruct H as [<-|H].
  - etransitivity; [|apply fold_max_ge]. lia.
  - apply IH. exact H.
Qed.

Lemma length_vresize {A} n (l : list A) d : length (vresize n l d) = n.
Proof. unfold vresize. rewrite app_length, firstn_length, repeat_length. lia. Qed.

Lemma length_vec_set_ids vp ids : forall v, length (vec_set_ids vp ids v) = length v.
Proof. induction ids as [|t ids IH]; intro v; cbn [vec_set_ids]; [reflexivity|]. rewrite IH. apply length_set_nth. Qed.
Lemma length_vec_set_classes cs : forall v, length (vec_set_classes cs v) = length v.
Proof. induction cs as [|c cs IH]; intro v; cbn [vec_set_classes]; [reflexivity|]. rewrite IH. apply length_vec_set_ids. Qed.

Lemma vec_set_ids_spec vp ids : forall v i, (forall t, In t ids -> N.to_nat t < length v) ->
  nth i (vec_set_ids vp ids v) None = if existsb (fun t => Nat.eqb (N.to_nat t) i) ids then Some vp else nth i v None.
Proof.
  induction ids as [|t ids IH]; intros v i Hb; cbn [vec_set_ids existsb]; [reflexivity|].
  rewrite IH by (intros t' Ht'; rewrite length_set_nth; apply Hb; now right).
  destruct (existsb _ ids); [now rewrite orb_true_r|]. rewrite orb_false_r.
  destruct (Nat.eqb_spec (N.to_nat t) i) as [<-|Hne].
  - apply nth_set_nth_eq. apply Hb. now left.
  - apply nth_set_nth_neq. exact Hne.
Qed.

Lemma vec_set_classes_spec cs : forall v, (forall t, In t (all_pids cs) -> N.to_nat t < length v) -> ids_disjoint cs ->
  forall c t, In c cs -> In t (pc_ids c) -> nth (N.to_nat t) (vec_set_classes cs v) None = Some (pc_vptr c).
Proof.
  induction cs as [|c0 cs IH]; intros v Hb Hd c t Hc Ht; [destruct Hc|]. cbn [vec_set_classes].
  assert (Hb0 : forall t', In t' (pc_ids c0) -> N.to_nat t' < length v).
  { intros t' H. apply Hb. unfold all_pids. cbn [flat_map]. apply in_or_app. now left. }
  assert (Hb' : forall t', In t' (all_pids cs) -> N.to_nat t' < length (vec_set_ids (pc_vptr c0) (pc_ids c0) v)).
  { intros t' H. rewrite length_vec_set_ids. apply Hb. unfold all_pids. cbn [flat_map]. apply in_or_app. now right. }
  assert (Hd' : ids_disjoint cs).
  { intros a b x Ha Hb2. apply Hd; now right. }
  (* does a later class also hold t? *)
  destruct (in_dec N.eq_dec t (all_pids cs)) as [Hin|Hnin].
  - unfold all_pids in Hin. apply in_flat_map in Hin. destruct Hin as [c' [Hc' Ht']].
    rewrite (IH _ Hb' Hd' c' t Hc' Ht'). f_equal. apply (Hd c' c t); [now right|exact Hc|exact Ht'|exact Ht].
  - destruct Hc as [<-|Hc]; [|exfalso; apply Hnin; unfold all_pids; apply in_flat_map; eauto].
    assert (G : forall cs' v', ~ In t (all_pids cs') -> nth (N.to_nat t) (vec_set_classes cs' v') None = nth (N.to_nat t) v' None).
    { clear. induction cs' as [|c1 cs' IH]; intros v' Hn; cbn [vec_set_classes]; [reflexivity|].
      rewrite IH by (intro H; apply Hn; unfold all_pids; cbn [flat_map]; apply in_or_app; now right).
      assert (Hn1 : ~ In t (pc_ids c1)) by (intro H; apply Hn; unfold all_pids; cbn [flat_map]; apply in_or_app; now left).
      clear - Hn1. revert v'. induction (pc_ids c1) as [|x l IH]; intro v'; cbn [vec_set_ids]; [reflexivity|].
      rewrite IH by (intro H; apply Hn1; now right).
      apply nth_set_nth_neq. intro E. apply Hn1. left. apply N2Nat.inj. exact E. }
    rewrite G by exact Hnin. rewrite vec_set_ids_spec by exact Hb0.
    replace (existsb (fun t0 => Nat.eqb (N.to_nat t0) (N.to_nat t)) (pc_ids c0)) with true; [reflexivity|].
    symmetry. apply existsb_exists. exists t. split; [exact Ht|apply Nat.eqb_refl].
Qed.

Theorem vec_lookup_registered cs old : ids_disjoint cs ->
  forall c t, In c cs -> In t (pc_ids c) -> vec_lookup (vec_publish cs old) t = Some (pc_vptr c).
Proof.
  intros Hd c t Hc Ht. unfold vec_lookup, vec_publish. apply vec_set_classes_spec; try assumption.
  intros t' H. rewrite length_vresize. unfold vec_size. pose proof (fold_max_le (all_pids cs) 0 t' H). lia.
Qed.

(* ---------------------------------------------------------------- map *)
Lemma map_set_lookup k x m t : assocN t (map_set k x m) = if N.eqb t k then Some x else assocN t m.
Proof.
  induction m as [|[k' x'] m IH]; cbn [map_set assocN].
  - destruct (N.eqb t k); reflexivity.
  - destruct (N.eqb_spec k k') as [->|Hne]; cbn [assocN].
    + destruct (N.eqb t k'); reflexivity.
    + destruct (N.eqb_spec t k') as [->|Hne'].
      * destruct (N.eqb_spec k' k) as [E|_]; [congruence|reflexivity].
      * exact IH.
Qed.

Lemma map_set_ids_lookup vp ids : forall m t,
  assocN t (map_set_ids vp ids m) = if memN t ids then Some vp else assocN t m.
Proof.
  induction ids as [|k ids IH]; intros m t; cbn [map_set_ids]; [reflexivity|].
  rewrite IH, map_set_lookup. unfold memN. cbn [existsb]. destruct (existsb (N.eqb t) ids); [now rewrite orb_true_r|].
  rewrite orb_false_r. reflexivity.
Qed.

Theorem map_lookup_registered cs : forall old, ids_disjoint cs ->
  forall c t, In c cs -> In t (pc_ids c) -> map_lookup (map_publish cs old) t = Some (pc_vptr c).
Proof.
  unfold map_lookup. induction cs as [|c0 cs IH]; intros old Hd c t Hc Ht; [destruct Hc|]. cbn [map_publish].
  assert (Hd' : ids_disjoint cs) by (intros a b x Ha Hb; apply Hd; now right).
  destruct (in_dec N.eq_dec t (all_pids cs)) as [Hin|Hnin].
  - unfold all_pids in Hin. apply in_flat_map in Hin. destruct Hin as [c' [Hc' Ht']].
    rewrite (IH _ Hd' c' t Hc' Ht'). f_equal. apply (Hd c' c t); [now right|exact Hc|exact Ht'|exact Ht].
  - destruct Hc as [<-|Hc]; [|exfalso; apply Hnin; unfold all_pids; apply in_flat_map; eauto].
    assert (G : forall cs' m', ~ In t (all_pids cs') -> assocN t (map_publish cs' m') = assocN t m').
    { clear. induction cs' as [|c1 cs' IH]; intros m' Hn; cbn [map_publish]; [reflexivity|].
      rewrite IH by (intro H; apply Hn; unfold all_pids; cbn [flat_map]; apply in_or_app; now right).
      rewrite map_set_ids_lookup.
      replace (memN t (pc_ids c1)) with false; [reflexivity|]. symmetry. apply memN_false.
      intro H. apply Hn. unfold all_pids. cbn [flat_map]. apply in_or_app. now left. }
    rewrite G by exact Hnin. rewrite map_set_ids_lookup.
    replace (memN t (pc_ids c0)) with true; [reflexivity|]. symmetry. apply memN_In. exact Ht.
Qed.

Print Assumptions vec_lookup_registered.
Print Assumptions map_lookup_registered.
