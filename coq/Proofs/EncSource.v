(* EncSource.v — the size computation of generator::encode_dispatch_data as TRANSLATED from generator.hpp on this run
   (Gen/GenEnc.v, interpreted by Model/MiniEnc.v): the five array bounds it prints into the emitted struct are e_H, e_S, e_E,
   e_D, e_T of Model.Codec.encode — for every update result. *)
From Coq Require Import List NArith Bool Arith String Lia.
From Y2 Require Import Model.Registry Model.Compile Gen.GenCodecConsts Model.Codec Model.MiniEnc Gen.GenEnc.
Import ListNotations.
Local Open Scope string_scope.
Local Open Scope list_scope.
Local Open Scope nat_scope.

(* a loop simulates a fold over an abstract state, through any relation between environments and abstract states *)
Lemma efor_sim {A X} (step : A -> eenv -> option eenv) (astep : X -> A -> X) (R : eenv -> X -> Prop)
      (Hsim : forall a env x, R env x -> exists env', step a env = Some env' /\ R env' (astep x a)) :
  forall xs env x, R env x -> exists env', efor step xs env = Some env' /\ R env' (fold_left astep xs x).
Proof.
  induction xs as [|a r IH]; intros env x H; cbn [efor fold_left]; [eauto|].
  destruct (Hsim a env x H) as (env1 & E1 & R1). rewrite E1. apply IH. exact R1.
Qed.

(* the same, when the step is only known to simulate on the elements that satisfy a predicate *)
Lemma efor_sim_P {A X} (P : A -> Prop) (step : A -> eenv -> option eenv) (astep : X -> A -> X) (R : eenv -> X -> Prop)
      (Hsim : forall a env x, P a -> R env x -> exists env', step a env = Some env' /\ R env' (astep x a)) :
  forall xs env x, Forall P xs -> R env x -> exists env', efor step xs env = Some env' /\ R env' (fold_left astep xs x).
Proof.
  induction xs as [|a r IH]; intros env x HP H; cbn [efor fold_left]; [eauto|].
  inversion HP as [|? ? Pa Pr]; subst.
  destruct (Hsim a env x Pa H) as (env1 & E1 & R1). rewrite E1. apply IH; assumption.
Qed.

Definition sas_of (methods : list (nat * nat)) : nat := fold_left (fun s m => s + 2 * fst m - 1) methods 0.
Definition dts_of (methods : list (nat * nat)) : nat := fold_left (fun s m => if fst m =? 1 then s else s + snd m) methods 0.
Definition sizes_of (classes : list (list (nat * nat * nat))) : nat * nat * nat := fold_left lead_class classes (0, 0, 0).

Lemma fold_pair_snd (ms : list (nat * nat)) : forall s d,
  fold_left (fun (x : nat * nat) (m : nat * nat) => (fst x, if fst m =? 1 then snd x else snd x + snd m)) ms (s, d)
  = (s, fold_left (fun d m => if fst m =? 1 then d else d + snd m) ms d).
Proof. induction ms as [|m r IH]; intros s d; cbn [fold_left fst snd]; [reflexivity|]. apply IH. Qed.

Ltac env_cbn := cbn [eexec eeval eceval eget String.eqb Ascii.eqb Bool.eqb c_meth c_cls c_entry fst snd].
Ltac env_cbn_in H := cbn [eexec eeval eceval eget String.eqb Ascii.eqb Bool.eqb c_meth c_cls c_entry fst snd] in H.

Lemma fold_both (ms : list (nat * nat)) : Forall (fun m => 1 <= fst m) ms -> forall s d,
  fold_left (fun (x : nat * nat) (m : nat * nat) => (fst x + (2 * fst m - 1), if negb (fst m =? 1) then snd x + snd m else snd x)) ms (s, d)
  = (fold_left (fun s m => s + 2 * fst m - 1) ms s, fold_left (fun d m => if fst m =? 1 then d else d + snd m) ms d).
Proof.
  induction 1 as [|m r Pm Pr IH]; intros s d; cbn [fold_left fst snd]; [reflexivity|].
  rewrite IH. f_equal; [f_equal; lia|]. destruct (fst m =? 1); reflexivity.
Qed.

Ltac formA_tac methods Har :=
  let F1a := fresh "F1a" in let F1b := fresh "F1b" in let F2a := fresh "F2a" in let F2b := fresh "F2b" in
  let env1 := fresh "env1" in let E1 := fresh "E1" in let R1 := fresh "R1" in
  let env2 := fresh "env2" in let E2 := fresh "E2" in let R2a := fresh "R2a" in let R2b := fresh "R2b" in
  match goal with |- context [efor ?st methods ?env0] =>
    destruct (efor_sim st (fun s m => s + 2 * fst m - 1)
                (fun env s => eget env "slots_and_strides_size" = Some s /\ eget env "decode_size" = eget env0 "decode_size" /\ eget env "encode_size" = eget env0 "encode_size"))
        with (xs := methods) (env := env0) (x := 0)
      as (env1 & E1 & R1 & F1a & F1b);
    [ intros [? ?] ? ? [?H [?G1 ?G2]]; env_cbn; rewrite H; env_cbn; eexists; split; [reflexivity|]; env_cbn; repeat split; assumption || reflexivity
    | repeat split; reflexivity | ]
  end;
  rewrite E1; clear E1; env_cbn;
  match goal with |- context [efor ?st methods ?env0] =>
    destruct (efor_sim st (fun (x : nat * nat) (m : nat * nat) => (fst x, if fst m =? 1 then snd x else snd x + snd m))
                (fun env x => eget env "slots_and_strides_size" = Some (fst x) /\ eget env "dispatch_tables_size" = Some (snd x) /\
                              eget env "decode_size" = eget env0 "decode_size" /\ eget env "encode_size" = eget env0 "encode_size"))
      with (xs := methods) (env := env0) (x := (fold_left (fun s m => s + 2 * fst m - 1) methods 0, 0))
      as (env2 & E2 & R2a & R2b & F2a & F2b);
    [ intros [?a ?t] ? [? ?] [?H1 [?H2 [?G1 ?G2]]]; env_cbn; cbn [fst snd] in *;
      destruct (a =? 1); env_cbn; rewrite ?H2; env_cbn; eexists; (split; [reflexivity|]); env_cbn; repeat split; assumption || reflexivity
    | repeat split; first [env_cbn; exact R1 | reflexivity] | ]
  end;
  rewrite E2; clear E2; env_cbn;
  rewrite fold_pair_snd in R2a, R2b; cbn [fst snd] in R2a, R2b;
  fold (sas_of methods) in R2a; fold (dts_of methods) in R2b; clear R1;
  env_cbn_in F2a; env_cbn_in F2b; rewrite ?F1a in F2a; rewrite ?F1b in F2b; env_cbn_in F2a; env_cbn_in F2b.

Ltac formB_tac methods Har :=
  let F2a := fresh "F2a" in let F2b := fresh "F2b" in
  let env2 := fresh "env2" in let E2 := fresh "E2" in let R2a := fresh "R2a" in let R2b := fresh "R2b" in
  match goal with |- context [efor ?st methods ?env0] =>
    destruct (efor_sim_P (fun m => 1 <= fst m) st
                (fun (x : nat * nat) (m : nat * nat) => (fst x + (2 * fst m - 1), if negb (fst m =? 1) then snd x + snd m else snd x))
                (fun env x => eget env "slots_and_strides_size" = Some (fst x) /\ eget env "dispatch_tables_size" = Some (snd x) /\
                              eget env "decode_size" = eget env0 "decode_size" /\ eget env "encode_size" = eget env0 "encode_size"))
      with (xs := methods) (env := env0) (x := (0, 0))
      as (env2 & E2 & R2a & R2b & F2a & F2b);
    [ intros [?a ?t] ? [?s ?d] ?Pa [?H1 [?H2 [?G1 ?G2]]]; env_cbn; cbn [fst snd] in *; rewrite ?H1; env_cbn; rewrite ?H2; env_cbn;
      destruct (a =? 1); cbn [negb]; env_cbn; rewrite ?H1, ?H2; env_cbn; eexists; (split; [reflexivity|]); env_cbn;
      repeat split; first [assumption | reflexivity | (f_equal; lia)]
    | exact Har | repeat split; reflexivity | ]
  end;
  rewrite E2; clear E2; env_cbn;
  rewrite (fold_both methods Har) in R2a, R2b; cbn [fst snd] in R2a, R2b;
  fold (sas_of methods) in R2a; fold (dts_of methods) in R2b;
  env_cbn_in F2a; env_cbn_in F2b.

Section Sizes.
  Variables (methods : list (nat * nat)) (classes : list (list (nat * nat * nat))).
  Hypothesis Har : Forall (fun m => 1 <= fst m) methods.

  Theorem src_sizes :
    run_sizes methods classes gen_sizes gen_printed
    = let sas := sas_of methods in
      let '(esz, dsz, lead) := sizes_of classes in
      Some [ (if sas <? lead then lead - sas else 1); sas; esz; Nat.max dsz 1; Nat.max (dts_of methods) 1 ].
  Proof using methods classes Har.
    unfold run_sizes, gen_sizes, gen_printed.
    env_cbn.
    first
    [ (* form A: one std::accumulate (or loop) per sum *)
      formA_tac methods Har
    | (* form B: one loop over the methods for both sums *)
      formB_tac methods Har ].
    match goal with R2a : eget ?env2 "slots_and_strides_size" = _, R2b : eget ?env2 "dispatch_tables_size" = _ |- _ => idtac end.
    (* the classes and their entries *)
    match goal with |- context [efor ?st classes ?env0] =>
      destruct (efor_sim st lead_class
                  (fun env x => let '(esz, dsz, lead) := x in
                                eget env "slots_and_strides_size" = Some (sas_of methods) /\ eget env "dispatch_tables_size" = Some (dts_of methods) /\
                                eget env "encode_vtbl_size" = Some esz /\ eget env "decode_vtbl_size" = Some dsz /\ eget env "decode_lead" = Some lead /\
                                eget env "decode_size" = Some decode_size /\ eget env "encode_size" = Some encode_size))
        with (xs := classes) (env := env0) (x := (0, 0, 0))
        as (env3 & E3 & R3); [ | env_cbn; repeat split; first [assumption | reflexivity | (rewrite ?F2a, ?F2b; reflexivity)] | ]
    end.
    { intros cl env [[esz dsz] lead] (H1 & H2 & H3 & H4 & H5 & H6 & H7). env_cbn. rewrite H3. env_cbn.
      unfold lead_class.
      match goal with |- context [efor ?st2 cl ?envc] =>
        destruct (efor_sim st2 lead_entry
                    (fun env x => let '(esz, dsz, lead) := x in
                                  eget env "slots_and_strides_size" = Some (sas_of methods) /\ eget env "dispatch_tables_size" = Some (dts_of methods) /\
                                  eget env "encode_vtbl_size" = Some esz /\ eget env "decode_vtbl_size" = Some dsz /\ eget env "decode_lead" = Some lead /\
                                  eget env "decode_size" = Some decode_size /\ eget env "encode_size" = Some encode_size))
          with (xs := cl) (env := envc) (x := (S esz, dsz, lead))
          as (env4 & E4 & R4); [ | env_cbn; repeat split; try assumption; f_equal; lia | ]
      end.
      { intros [[mi vpi] g] env' [[e1 d1] l1] (G1 & G2 & G3 & G4 & G5 & G6 & G7). env_cbn. unfold lead_entry.
        destruct (vpi =? 0) eqn:Ev; cbn [negb]; env_cbn; rewrite ?G3; env_cbn; rewrite ?G4; env_cbn; rewrite ?G6, ?G7; env_cbn;
          rewrite ?Nat.add_1_r;
          match goal with |- context [?a <? ?b] => destruct (a <? b) eqn:El end; env_cbn; rewrite ?G5; env_cbn;
          eexists; (split; [reflexivity|]); env_cbn; repeat split; try assumption; try reflexivity; f_equal; lia. }
      rewrite E4. eexists. split; [reflexivity|]. exact R4. }
    rewrite E3. clear E3. unfold sizes_of.
    destruct (fold_left lead_class classes (0, 0, 0)) as [[esz dsz] lead].
    destruct R3 as (H1 & H2 & H3 & H4 & H5 & H6 & H7).
    env_cbn. rewrite H5, H1. env_cbn.
    cbv zeta. destruct (sas_of methods <? lead); env_cbn; cbn [fold_right]; repeat (env_cbn; rewrite ?H5, ?H1, ?H3, ?H4, ?H2); reflexivity.
  Qed.
End Sizes.

(* ------------------------------------------------------------------ on an update result: Model.Codec.encode *)
Definition methods_of (C : compiled) : list (nat * nat) :=
  map (fun '(m, t) => (meth_arity m, length (t_cells t))) (combine (o_meths C) (o_tables C)).

Lemma sas_of_methods : forall (ms : list cmeth) (ts : list ctable) s, length ts = length ms ->
  fold_left (fun s m => s + 2 * fst m - 1) (map (fun '(m, t) => (meth_arity m, length (t_cells t))) (combine ms ts)) s
  = fold_left (fun sum m => sum + 2 * meth_arity m - 1) ms s.
Proof.
  induction ms as [|m r IH]; intros [|t ts] s H; cbn in *; try discriminate; try reflexivity.
  apply IH. lia.
Qed.

Lemma dts_of_methods : forall (mts : list (cmeth * ctable)) s,
  fold_left (fun s m => if fst m =? 1 then s else s + snd m) (map (fun '(m, t) => (meth_arity m, length (t_cells t))) mts) s
  = fold_left (fun sum '(m, t) => if meth_arity m =? 1 then sum else sum + length (t_cells t)) mts s.
Proof. induction mts as [|[m t] r IH]; intros s; cbn [map fold_left fst snd]; [reflexivity|]. apply IH. Qed.

Theorem src_encode_sizes C : length (o_tables C) = length (o_meths C) -> Forall (fun m => 1 <= meth_arity m) (o_meths C) ->
  let E := encode C in
  run_sizes (methods_of C) (o_vtbl C) gen_sizes gen_printed = Some [e_H E; e_S E; e_E E; e_D E; e_T E].
Proof.
  intros Hl Ha. cbv zeta.
  assert (Har : Forall (fun m => 1 <= fst m) (methods_of C)).
  { unfold methods_of. revert Hl Ha. generalize (o_tables C). induction (o_meths C) as [|m r IH]; intros [|t ts] Hl Ha; cbn in *; try discriminate; constructor.
    - inversion Ha; assumption.
    - apply IH; [lia | inversion Ha; assumption]. }
  rewrite (src_sizes (methods_of C) (o_vtbl C) Har). cbv zeta.
  unfold encode, sas_of, dts_of, sizes_of, methods_of, vtbl_sizes, slots_and_strides_size, dispatch_tables_size.
  rewrite sas_of_methods by exact Hl. rewrite dts_of_methods.
  destruct (fold_left lead_class (o_vtbl C) (0, 0, 0)) as [[esz dsz] lead]. reflexivity.
Qed.
